import Yuiv.Gen.ReducerFn
set_option linter.unusedSectionVars false
set_option linter.unusedSimpArgs false
/-
Specification functions and helper lemmas for `Yuiv/Props/C08GenR.lean` (no property theorem here).

`Yuiv.GenReducer.*` is GENERATED from `/repo/yui-homology/src/utils/chain_reducer.rs` by `tools/rs2lean_fn.py fn:reducer`,
generic over the operations `K : ROps M V T P S` of the files it calls.  There is no earlier hand model of the reducer
loop; the `spec*` functions below say, in mathematical form, what one `reduce_at_spec` step does to the three tables
`mats`, `trans`, `vecs` of the reducer state.
-/
namespace Yuiv.C08GenR
open Yuiv Res Yuiv.Rust Yuiv.GenReducer

variable {I M V T P S : Type} [DecidableEq I] [Add I] [Sub I]

abbrev St (I M V T P S : Type) := ChainReducerS I M V T P S

theorem assert_true : Res.assert true = ok () := rfl
theorem assert_false : Res.assert false = (.panic : Res Unit) := rfl
theorem pure_eq_ok {β} (a : β) : (pure a : Res β) = ok a := rfl
theorem bind_congr' {α β} (x : Res α) {f g : α → Res β} (h : ∀ a, f a = g a) : (x >>= f) = (x >>= g) := by
  cases x <;> simp [h] <;> rfl
theorem bind_assoc' {β γ δ} (x : Res β) (f : β → Res γ) (g : γ → Res δ) :
    ((x >>= f) >>= g) = (x >>= fun a => f a >>= g) := by cases x <;> rfl

/-- `if o.is_some() { let x = o.unwrap(); f x } else { e }` is a `match` -/
theorem isSome_match {α β : Type} (o : Option α) (f : α → Res β) (e : Res β) :
    (if Option.isSome o = true then (Opt.unwrap o >>= f) else e) = (match o with | some x => f x | none => e) := by
  cases o <;> rfl

/-! ### `HMap` -/

theorem get_insert_same {X : Type} (m : HMap I X) (i : I) (x : X) : HMap.get (HMap.insert m i x) i = some x := by
  simp [HMap.get, HMap.insert]

theorem get_insert_ne {X : Type} (m : HMap I X) (i j : I) (x : X) (h : j ≠ i) :
    HMap.get (HMap.insert m i x) j = HMap.get m j := by
  unfold HMap.get HMap.insert
  rw [List.find?_cons_of_neg (by simpa using fun e : i = j => h e.symm)]
  congr 1
  induction m with
  | nil => rfl
  | cons e m ih =>
    by_cases he : e.1 = i
    · have hf : (e :: m).filter (fun e => decide (e.1 ≠ i)) = m.filter (fun e => decide (e.1 ≠ i)) :=
        List.filter_cons_of_neg (by simp [he])
      have hej : ¬ e.1 = j := by rw [he]; exact fun x => h x.symm
      rw [hf, ih, List.find?_cons_of_neg (by simpa using hej)]
    · have hf : (e :: m).filter (fun e => decide (e.1 ≠ i)) = e :: m.filter (fun e => decide (e.1 ≠ i)) :=
        List.filter_cons_of_pos (by simp [he])
      rw [hf]
      by_cases hj : e.1 = j
      · rw [List.find?_cons_of_pos (by simpa using hj), List.find?_cons_of_pos (by simpa using hj)]
      · rw [List.find?_cons_of_neg (by simpa using hj), List.find?_cons_of_neg (by simpa using hj), ih]

/-! ### what the step does -/

/-- row `i` survives as row `p(i) − r` when `r ≤ p(i) < m` (the rows of the eliminated block are dropped) -/
def keepRow (K : ROps M V T P S) (p : P) (r m : Nat) (i j : Nat) : Res (Option (Nat × Nat)) := do
  let i' ← K.perm_at p i
  ok (if r ≤ i' ∧ i' < m then some (i' - r, j) else none)

def keepCol (K : ROps M V T P S) (p : P) (r n : Nat) (i j : Nat) : Res (Option (Nat × Nat)) := do
  let j' ← K.perm_at p j
  ok (if r ≤ j' ∧ j' < n then some (i, j' - r) else none)

def keepIdx (K : ROps M V T P S) (q : P) (r n : Nat) (i : Nat) : Res (Option Nat) := do
  let i' ← K.perm_at q i
  ok (if r ≤ i' ∧ i' < n then some (i' - r) else none)

/-- `reduce_mat_rows(a, p, r)` -/
def specRows (K : ROps M V T P S) (a : M) (p : P) (r : Nat) : Res M :=
  if r ≤ K.nrows a then K.extract a (K.nrows a - r, K.ncols a) (keepRow K p r (K.nrows a)) else Res.panic

/-- `reduce_mat_cols(a, p, r)` -/
def specCols (K : ROps M V T P S) (a : M) (p : P) (r : Nat) : Res M :=
  if r ≤ K.ncols a then K.extract a (K.nrows a, K.ncols a - r) (keepCol K p r (K.ncols a)) else Res.panic

/-- first half of `update_mats`: the matrix of degree `i − d`, if set, loses the rows of the pivot block -/
def specMatsPrev (K : ROps M V T P S) (d : I) (mats : HMap I M) (i : I) (q : P) (r : Nat) : Res (HMap I M) :=
  match HMap.get mats (i - d) with
  | some a0 => do
    Res.assert (decide (K.nrows a0 = K.perm_dim q))
    let a0' ← specRows K a0 q r
    ok (HMap.insert mats (i - d) a0')
  | none => ok mats

/-- last part of `update_mats`: the matrix of degree `i + d`, if set, loses the columns of the pivot block -/
def specMatsNext (K : ROps M V T P S) (d : I) (m1 : HMap I M) (i : I) (p : P) (r : Nat) : Res (HMap I M) :=
  match HMap.get m1 (i + d) with
  | some a2 => do
    Res.assert (decide (K.ncols a2 = K.perm_dim p))
    let a2' ← specCols K a2 p r
    ok (HMap.insert m1 (i + d) a2')
  | none => ok m1

/-- `update_mats`: the table of matrices after the step at `i` with Schur complement `s` -/
def specMats (K : ROps M V T P S) (d : I) (mats : HMap I M) (i : I) (p q : P) (r : Nat) (s : M) : Res (HMap I M) :=
  specMatsPrev K d mats i q r >>= fun m0 => specMatsNext K d (HMap.insert m0 i s) i p r

def specTransSrc (K : ROps M V T P S) (tr : HMap I T) (i : I) (q : P) (tsrc : T) : Res (HMap I T) :=
  match HMap.get tr i with
  | some t1 => do
    let t1 ← K.trans_append_perm t1 q
    let t1 ← K.trans_merge t1 tsrc
    ok (HMap.insert tr i t1)
  | none => ok tr

def specTransTgt (K : ROps M V T P S) (d : I) (t0 : HMap I T) (i : I) (p : P) (ttgt : T) : Res (HMap I T) :=
  match HMap.get t0 (i + d) with
  | some t2 => do
    let t2 ← K.trans_append_perm t2 p
    let t2 ← K.trans_merge t2 ttgt
    ok (HMap.insert t0 (i + d) t2)
  | none => ok t0

/-- `update_trans`: `trans[i] ← trans[i] ∘ q ∘ t_src`, `trans[i+d] ← trans[i+d] ∘ p ∘ t_tgt` (each only when tracked) -/
def specTrans (K : ROps M V T P S) (d : I) (tr : HMap I T) (i : I) (p q : P) (tsrc ttgt : T) : Res (HMap I T) :=
  specTransSrc K tr i q tsrc >>= fun t0 => specTransTgt K d t0 i p ttgt

/-- a tracked vector of degree `i`: `assert_eq!(v.dim(), n)`, keep the coordinates `q(k) ∈ r..n` as `q(k) − r` -/
def specVecSrc (K : ROps M V T P S) (q : P) (r n : Nat) (v : V) : Res V := do
  Res.assert (decide (K.vdim v = n))
  if r ≤ n then K.vextract v (n - r) (keepIdx K q r n) else Res.panic

/-- a tracked vector of degree `i + d`: `(x, y) = split_r(p·v)`, `v ← y − c · a⁻¹ x` -/
def specVecTgt (K : ROps M V T P S) (a11 c : M) (p : P) (r m : Nat) (t : TriangularType) (v : V) : Res V := do
  Res.assert (decide (K.vdim v = m))
  let pv ← K.vpermute v p
  let (x, y) ← K.vsplit pv r
  let ainvx ← K.solve_triangular_vec t a11 x
  let cx ← K.mul_vec c ainvx
  K.vsub y cx

def specVecsSrc (K : ROps M V T P S) (vecs : HMap I (List V)) (i : I) (a : M) (q : P) (r : Nat) : Res (HMap I (List V)) :=
  match HMap.get vecs i with
  | some vs => do
    let vs' ← Iter.mapM (specVecSrc K q r (K.ncols a)) vs
    ok (HMap.insert vecs i vs')
  | none => ok vecs

def specVecsTgt (K : ROps M V T P S) (d : I) (v0 : HMap I (List V)) (i : I) (a : M) (p : P) (r : Nat) (t : TriangularType) :
    Res (HMap I (List V)) :=
  match HMap.get v0 (i + d) with
  | some vs => do
    let blocks ← K.divide4 a (r, r)
    let vs' ← Iter.mapM (specVecTgt K blocks.1 blocks.2.2.1 p r (K.nrows a) t) vs
    ok (HMap.insert v0 (i + d) vs')
  | none => ok v0

/-- `update_vecs` (`a` is the permuted matrix) -/
def specVecs (K : ROps M V T P S) (d : I) (vecs : HMap I (List V)) (i : I) (a : M) (p q : P) (r : Nat) (t : TriangularType) :
    Res (HMap I (List V)) :=
  specVecsSrc K vecs i a q r >>= fun v0 => specVecsTgt K d v0 i a p r t

/-- one `reduce_at_spec(i, piv_type, piv_cond)` step -/
def specStep (K : ROps M V T P S) (st : St I M V T P S) (i : I) (pt : PivotType) (pc : PivotCondition) :
    Res (St I M V T P S × Bool) :=
  match HMap.get st.mats i with
  | none => Res.panic
  | some a =>
    if K.is_zero a then ok (st, false) else do
      let pivs ← K.find_pivots a pt pc
      let (p, q) ← K.perms_by_pivots a pivs
      let r := pivs.length
      if r = 0 then ok (st, false) else do
        let a' ← K.permute a p q
        let t := if pt = PivotType.Rows then TriangularType.Upper else TriangularType.Lower
        let wt := HMap.contains_key st.trans i || HMap.contains_key st.trans (i + st.d_deg)
        let sch ← K.schur_new t a' r wt
        let (s, tsrc, ttgt) := K.schur_disassemble sch
        let mats ← specMats K st.d_deg st.mats i p q r s
        let trans ← if wt then do
            let tsrc ← Opt.unwrap tsrc
            let ttgt ← Opt.unwrap ttgt
            specTrans K st.d_deg st.trans i p q tsrc ttgt
          else ok st.trans
        let vecs ← specVecs K st.d_deg st.vecs i a' p q r t
        ok ({ st with mats := mats, trans := trans, vecs := vecs }, true)

/-- `reduce_at(i, deep)`: repeat the step (with the preferred strategy) while `deep` and the step made progress -/
def specAt (K : ROps M V T P S) : Nat → St I M V T P S → I → Bool → Res (St I M V T P S)
  | 0, _, _, _ => Res.err
  | fuel + 1, st, i, deep => do
    let strat ← ChainReducer.preferred_strategy K st i
    let res ← specStep K st i strat.1 strat.2
    if !deep || !res.2 then ok res.1 else specAt K fuel res.1 i deep

/-- `reduce_all(deep)`: nothing when done, else `reduce_at` along the support -/
def specAll (K : ROps M V T P S) (fuel : Nat) (st : St I M V T P S) (deep : Bool) : Res (St I M V T P S) :=
  if ChainReducer.is_done K st then ok st else
    st.support.foldlM (fun s i => specAt K fuel s i deep) st

theorem bind_eq_ok {α β} {x : Res α} {f : α → Res β} {b : β} (h : (x >>= f) = ok b) : ∃ a, x = ok a ∧ f a = ok b := by
  cases x with
  | ok a => exact ⟨a, rfl, h⟩
  | panic => cases h
  | err => cases h

/-! ### the pieces of the step, entry by entry -/

theorem prev_ok (K : ROps M V T P S) (d : I) (mats m0 : HMap I M) (i : I) (q : P) (r : Nat)
    (h : specMatsPrev K d mats i q r = ok m0) :
    (∀ j, j ≠ i - d → HMap.get m0 j = HMap.get mats j) ∧
    (∀ a0, HMap.get mats (i - d) = some a0 →
      K.nrows a0 = K.perm_dim q ∧ ∃ a0', specRows K a0 q r = ok a0' ∧ HMap.get m0 (i - d) = some a0') := by
  unfold specMatsPrev at h
  cases g0 : HMap.get mats (i - d) with
  | none =>
    rw [g0] at h; cases h
    exact ⟨fun _ _ => rfl, fun a0 ha => by cases ha⟩
  | some a0 =>
    rw [g0] at h
    obtain ⟨_, hassert, h⟩ := bind_eq_ok h
    obtain ⟨a0', hrows, h⟩ := bind_eq_ok h
    cases h
    have hn : K.nrows a0 = K.perm_dim q := by
      by_cases e : K.nrows a0 = K.perm_dim q
      · exact e
      · simp [e, assert_false] at hassert
    refine ⟨fun j hj => get_insert_ne _ _ _ _ hj, fun b hb => ?_⟩
    cases hb
    exact ⟨hn, a0', hrows, get_insert_same _ _ _⟩

theorem next_ok (K : ROps M V T P S) (d : I) (m1 m : HMap I M) (i : I) (p : P) (r : Nat)
    (h : specMatsNext K d m1 i p r = ok m) :
    (∀ j, j ≠ i + d → HMap.get m j = HMap.get m1 j) ∧
    (∀ a2, HMap.get m1 (i + d) = some a2 →
      K.ncols a2 = K.perm_dim p ∧ ∃ a2', specCols K a2 p r = ok a2' ∧ HMap.get m (i + d) = some a2') := by
  unfold specMatsNext at h
  cases g0 : HMap.get m1 (i + d) with
  | none =>
    rw [g0] at h; cases h
    exact ⟨fun _ _ => rfl, fun a2 ha => by cases ha⟩
  | some a2 =>
    rw [g0] at h
    obtain ⟨_, hassert, h⟩ := bind_eq_ok h
    obtain ⟨a2', hcols, h⟩ := bind_eq_ok h
    cases h
    have hn : K.ncols a2 = K.perm_dim p := by
      by_cases e : K.ncols a2 = K.perm_dim p
      · exact e
      · simp [e, assert_false] at hassert
    refine ⟨fun j hj => get_insert_ne _ _ _ _ hj, fun b hb => ?_⟩
    cases hb
    exact ⟨hn, a2', hcols, get_insert_same _ _ _⟩

theorem src_ok (K : ROps M V T P S) (tr t0 : HMap I T) (i : I) (q : P) (tsrc : T) (h : specTransSrc K tr i q tsrc = ok t0) :
    (∀ j, j ≠ i → HMap.get t0 j = HMap.get tr j) ∧
    (∀ t1, HMap.get tr i = some t1 →
      ∃ t1', (K.trans_append_perm t1 q >>= fun t => K.trans_merge t tsrc) = ok t1' ∧ HMap.get t0 i = some t1') := by
  unfold specTransSrc at h
  cases g0 : HMap.get tr i with
  | none =>
    rw [g0] at h; cases h
    exact ⟨fun _ _ => rfl, fun t1 ht => by cases ht⟩
  | some t1 =>
    rw [g0] at h
    obtain ⟨ta, ha, h⟩ := bind_eq_ok h
    obtain ⟨tb, hb, h⟩ := bind_eq_ok h
    cases h
    refine ⟨fun j hj => get_insert_ne _ _ _ _ hj, fun b hb' => ?_⟩
    cases hb'
    exact ⟨tb, by rw [ha]; exact hb, get_insert_same _ _ _⟩

theorem tgt_ok (K : ROps M V T P S) (d : I) (t0 tr' : HMap I T) (i : I) (p : P) (ttgt : T)
    (h : specTransTgt K d t0 i p ttgt = ok tr') :
    (∀ j, j ≠ i + d → HMap.get tr' j = HMap.get t0 j) ∧
    (∀ t2, HMap.get t0 (i + d) = some t2 →
      ∃ t2', (K.trans_append_perm t2 p >>= fun t => K.trans_merge t ttgt) = ok t2' ∧ HMap.get tr' (i + d) = some t2') := by
  unfold specTransTgt at h
  cases g0 : HMap.get t0 (i + d) with
  | none =>
    rw [g0] at h; cases h
    exact ⟨fun _ _ => rfl, fun t2 ht => by cases ht⟩
  | some t2 =>
    rw [g0] at h
    obtain ⟨ta, ha, h⟩ := bind_eq_ok h
    obtain ⟨tb, hb, h⟩ := bind_eq_ok h
    cases h
    refine ⟨fun j hj => get_insert_ne _ _ _ _ hj, fun b hb' => ?_⟩
    cases hb'
    exact ⟨tb, by rw [ha]; exact hb, get_insert_same _ _ _⟩

end Yuiv.C08GenR
