import Yuiv.Proofs.C02MirrorEdge
import Yuiv.Proofs.C04InvPerm
import Yuiv.Props.C02
namespace Yuiv.C02Mirror
open Yuiv Yuiv.KhRef Yuiv.C04Inv

/-- the output phase of `KhRef.circles` as a function of the final component array -/
def circOut (labels comp : Array Nat) : Array (Array Nat) := Id.run do
  let m := labels.size
  let mut out : Array (Array Nat) := #[]
  for r in [0:m] do
    if comp[r]! == r then
      let mut cs : Array Nat := #[]
      for x in [0:m] do
        if comp[x]! == r then cs := cs.push labels[x]!
      out := out.push cs
  return out

theorem circles_eq (l : Link) (labels : Array Nat) (s : Nat) :
    circles l labels s = circOut labels (unionAll l labels (resolvedTypes l s)) := by
  unfold circles circOut
  simp
  generalize hc : Id.run (List.foldlM (m := Id) (s := Array Nat) (α := Nat) _ (Array.range labels.size) (List.range' 0 (Array.size l))) = comp
  have : comp = unionAll l labels (resolvedTypes l s) := by
    subst hc
    rw [id_foldlM]
    unfold unionAll
    congr 1
    funext comp i
    unfold unionStep
    rw [id_forIn_yield (g := fun x comp => mergeStep comp (indexOf labels l[i]!.e[x.1]!) (indexOf labels l[i]!.e[x.2]!))]
    · rfl
    · intro x c
      unfold mergeStep
      split
      · rfl
      · rename_i hne
        by_cases hlt : c[indexOf labels l[i]!.e[x.1]!]! < c[indexOf labels l[i]!.e[x.2]!]!
        · simp only [hlt, if_true]; rw [Nat.max_eq_right (Nat.le_of_lt hlt), Nat.min_eq_left (Nat.le_of_lt hlt)]
        · simp only [hlt, if_false]; rw [Nat.max_eq_left (by omega), Nat.min_eq_right (by omega)]
  rw [this]


theorem push_loop' {γ : Type} (xs : List Nat) (q : Nat → Bool) (f : Nat → γ) (out : Array γ) :
    (forIn (m := Id) xs out (fun x out => if q x = true then pure (ForInStep.yield (out.push (f x)))
        else pure (ForInStep.yield out)))
      = out ++ ((xs.filter q).map f).toArray := by
  induction xs generalizing out with
  | nil => simp; rfl
  | cons x xs ih =>
    rw [List.forIn_cons]
    by_cases h : q x = true
    · simp only [h, if_true, List.filter_cons]
      show forIn xs (out.push (f x)) _ = _
      rw [ih]; simp
    · simp only [h, List.filter_cons]
      show forIn xs out _ = _
      rw [ih]; simp

/-- functional form of the output phase -/
def circF (labels comp : Array Nat) : Array (Array Nat) :=
  (((List.range' 0 labels.size).filter (fun r => comp[r]! == r)).map (fun r =>
    (((List.range' 0 labels.size).filter (fun x => comp[x]! == r)).map (fun x => labels[x]!)).toArray)).toArray

theorem circOut_eq (labels comp : Array Nat) : circOut labels comp = circF labels comp := by
  unfold circOut circF
  simp only [Std.Legacy.Range.forIn_eq_forIn_range', Std.Legacy.Range.size, Nat.sub_zero, Nat.add_sub_cancel,
    Nat.div_one]
  have inner : ∀ r, (forIn (m := Id) (List.range' 0 labels.size) (#[] : Array Nat) (fun x cs =>
      if (comp[x]! == r) = true then pure (ForInStep.yield (cs.push labels[x]!)) else pure (ForInStep.yield cs)))
      = (((List.range' 0 labels.size).filter (fun x => comp[x]! == r)).map (fun x => labels[x]!)).toArray := by
    intro r
    rw [push_loop' _ (fun x => comp[x]! == r) (fun x => labels[x]!)]
    simp
  have := push_loop' (List.range' 0 labels.size) (fun r => comp[r]! == r)
    (fun r => (forIn (m := Id) (List.range' 0 labels.size) (#[] : Array Nat) (fun x cs =>
      if (comp[x]! == r) = true then pure (ForInStep.yield (cs.push labels[x]!)) else pure (ForInStep.yield cs)))) #[]
  refine Eq.trans ?_ (this.trans ?_)
  · rfl
  · simp only [inner, Array.empty_append]

theorem circF_size_le (labels comp : Array Nat) : (circF labels comp).size ≤ labels.size := by
  unfold circF
  simp only [List.size_toArray, List.length_map]
  exact Nat.le_trans (List.length_filter_le _ _) (by simp)

theorem circF_nodup (labels comp : Array Nat) (hnd : labels.toList.Nodup) : (circF labels comp).toList.Nodup := by
  unfold circF
  simp only []
  refine List.Nodup.map_on ?_ ((List.nodup_range' (step := 1) (by omega)).filter _)
  intro r hr r' hr' heq
  simp only [List.mem_filter, List.mem_range', beq_iff_eq] at hr hr'
  obtain ⟨⟨k, hk, rfl⟩, hroot⟩ := hr
  obtain ⟨⟨k', hk', rfl⟩, hroot'⟩ := hr'
  simp only [Nat.zero_add, Nat.one_mul] at *
  -- labels[k] lies in the first array, hence in the second
  have hmem : labels[k]! ∈ (((List.range' 0 labels.size).filter (fun x => comp[x]! == k)).map (fun x => labels[x]!)) := by
    refine List.mem_map.2 ⟨k, ?_, rfl⟩
    simp [List.mem_range', hk, hroot]
  have heq' := congrArg Array.toList heq
  simp only [] at heq'
  rw [heq'] at hmem
  obtain ⟨x, hx, hxe⟩ := List.mem_map.1 hmem
  simp only [List.mem_filter, List.mem_range', beq_iff_eq] at hx
  obtain ⟨⟨j, hj, rfl⟩, hcx⟩ := hx
  simp only [Nat.zero_add, Nat.one_mul] at *
  rw [getElem!_pos labels j hj, getElem!_pos labels k hk] at hxe
  have : j = k := (List.getElem_inj (xs := labels.toList) (h₀ := by simpa using hj) (h₁ := by simpa using hk) hnd).mp
    (by simpa using hxe)
  subst this
  omega


/-! ### the mirror image: same edges, same labels, complementary states -/

theorem mirror_size (l : Link) : (mirror l).size = l.size := by simp [mirror]

theorem mirror_toList (l : Link) : (mirror l).toList = l.toList.map (fun c => ⟨c.ct.mirror, c.e⟩) := by
  simp [mirror]

theorem mirror_e (l : Link) (i : Nat) : (mirror l)[i]!.e = l[i]!.e := by
  by_cases hi : i < l.size
  · rw [getElem!_pos (mirror l) i (by rw [mirror_size]; exact hi), getElem!_pos l i hi]
    simp [mirror]
  · rw [getElem!_neg (mirror l) i (by rw [mirror_size]; exact hi), getElem!_neg l i hi]

theorem isResolved_mirror (c : CT) : c.mirror.isResolved = c.isResolved := by cases c <;> rfl

theorem mirror_resolved (c : CT) (h : c.isResolved = true) : c.mirror = c := by cases c <;> first | rfl | cases h

theorem unionAll_mirror (l : Link) (labels : Array Nat) (ts : Array CT) :
    unionAll (mirror l) labels ts = unionAll l labels ts := by
  unfold unionAll unionStep
  simp only [mirror_size, mirror_e]

theorem edgeLabels_mirror (l : Link) : edgeLabels (mirror l) = edgeLabels l := by
  have : preLabels (mirror l) = preLabels l := by
    unfold preLabels
    rw [mirror_toList, List.foldl_map]
  rw [edgeLabels_eq, edgeLabels_eq, this]

theorem nUnres_mirror (cs : List Crossing) :
    nUnres (cs.map (fun c => (⟨c.ct.mirror, c.e⟩ : Crossing))) = nUnres cs := by
  induction cs with
  | nil => rfl
  | cons c cs ih => simp only [List.map_cons, nUnres, isResolved_mirror, ih]

theorem crossingNum_mirror (l : Link) : crossingNum (mirror l) = crossingNum l := by
  rw [crossingNum_eq, crossingNum_eq, mirror_toList, nUnres_mirror]

/-- the complementary state on `n` crossings -/
def compl (n s : Nat) : Nat := 2 ^ n - 1 - s

theorem compl_lt (n s : Nat) : compl n s < 2 ^ n := flipMask_lt n s

theorem compl_succ (n s : Nat) (hs : s < 2 ^ (n + 1)) :
    (compl (n + 1) s).testBit 0 = !s.testBit 0 ∧ compl (n + 1) s / 2 = compl n (s / 2) ∧ s / 2 < 2 ^ n := by
  unfold compl
  have h2 : 2 ^ (n + 1) = 2 * 2 ^ n := by rw [Nat.pow_succ]; omega
  refine ⟨?_, by omega, by omega⟩
  rw [Nat.testBit_zero, Nat.testBit_zero]
  have : (2 ^ (n + 1) - 1 - s) % 2 = 1 - s % 2 := by omega
  rw [this]
  rcases Nat.mod_two_eq_zero_or_one s with h | h <;> simp [h]

theorem resTypes_mirror (cs : List Crossing) (s : Nat) (hs : s < 2 ^ nUnres cs) :
    resTypes (cs.map (fun c => (⟨c.ct.mirror, c.e⟩ : Crossing))) (compl (nUnres cs) s) = resTypes cs s := by
  induction cs generalizing s with
  | nil => rfl
  | cons c cs ih =>
    rw [List.map_cons]
    unfold resTypes
    simp only [isResolved_mirror]
    by_cases h : c.ct.isResolved = true
    · have hn : nUnres (c :: cs) = nUnres cs := by simp [nUnres, h]
      rw [hn] at hs ⊢
      simp only [h, if_true]
      rw [ih s hs, mirror_resolved _ h]
    · have hn : nUnres (c :: cs) = nUnres cs + 1 := by simp [nUnres, h]
      rw [hn] at hs ⊢
      obtain ⟨h1, h2, h3⟩ := compl_succ _ s hs
      have h' : c.ct.isResolved = false := by simpa using h
      simp only [h', Bool.false_eq_true, if_false]
      rw [h1, h2, ih _ h3, resolve_mirror]

theorem resolvedTypes_mirror (l : Link) (s : Nat) (hs : s < 2 ^ crossingNum l) :
    resolvedTypes (mirror l) (compl (crossingNum l) s) = resolvedTypes l s := by
  apply Array.toList_inj.mp
  rw [resolvedTypes_toList, resolvedTypes_toList, mirror_toList, crossingNum_eq]
  exact resTypes_mirror _ s (by rw [← crossingNum_eq]; exact hs)

/-- STATE CORRESPONDENCE: the circles of the complementary state of the mirror image are the circles of the state -/
theorem circles_mirror (l : Link) (labels : Array Nat) (s : Nat) (hs : s < 2 ^ crossingNum l) :
    circles (mirror l) labels (compl (crossingNum l) s) = circles l labels s := by
  rw [circles_eq, circles_eq, unionAll_mirror, resolvedTypes_mirror l s hs]

end Yuiv.C02Mirror
