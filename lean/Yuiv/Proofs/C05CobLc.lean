import Yuiv.Proofs.C05CobVal
import Yuiv.Props.C05EngineLc
import Mathlib.Algebra.Algebra.Defs
import Mathlib.Algebra.Algebra.Basic
/-
C05 (cobordisms) — the REAL edge algebra `lcOps h t` satisfies the value laws `ValEdgeOps`, `ValTensorOps`,
`ValDeloopOps` for `val = lcVal φ` as soon as the invariant `φ : Cob → A` (into an `R`-algebra) satisfies identities
about SINGLE cobordisms: functoriality for stacking, `connect` with an identity, `cap_off`, `part_eval`.
-/
namespace Yuiv.C05.Engine
open Yuiv Yuiv.C05 Yuiv.C05.Tng

section
variable {R A : Type} [CommRing R] [CoefU R] [LawfulCoef R] [Ring A] [Algebra R A]

/-- the identities about single cobordisms that make `lcVal φ` a lawful value map -/
structure CobLaws (φ : Cob → A) (h t : R) (tl tr : A → Tng → A) : Prop where
  /-- (C1) `φ` does not see the difference between `Eq`-equal cobordisms -/
  resp : Respects φ
  /-- (C2 + functoriality) stacking is multiplication: first `y`, then `x` -/
  stack : ∀ x y k, Cob.stack y x = .ok k → φ k = φ x * φ y
  /-- (C5) `part_eval` keeps the value -/
  peval : ∀ k e, Cob.partEval h t k = .ok e → lcVal φ e = φ k
  /-- closed zero components are invisible -/
  zcob : ∀ k, Cob.isZeroCob k = true → φ k = 0
  /-- (C4, one-sided) `connect` with an identity is `tl` / `tr` -/
  connL : ∀ k w k', Cob.connect k (Cob.idFor w) = .ok k' → φ k' = tl (φ k) w
  connR : ∀ k v k', Cob.connect k (Cob.idFor v) = .ok k' → φ k' = tr (φ k) v
  tl_zero : ∀ w, tl 0 w = 0
  tr_zero : ∀ v, tr 0 v = 0
  tl_add : ∀ f g w, tl (f + g) w = tl f w + tl g w
  tr_add : ∀ f g v, tr (f + g) v = tr f v + tr g v
  tl_smul : ∀ (r : R) f w, tl (r • f) w = r • tl f w
  tr_smul : ∀ (r : R) f v, tr (r • f) v = r • tr f v
  tl_mul : ∀ f g w, tl (f * g) w = tl f w * tl g w
  tr_mul : ∀ f g v, tr (f * g) v = tr f v * tr g v

omit [CoefU R] [LawfulCoef R] in
theorem lcVal_mul_row (φ : Cob → A) (x : A) (r : R) (b : LcCob R) :
    r • x * lcVal φ b = r • lcVal (fun y => x * φ y) b := by
  induction b with
  | nil => simp
  | cons q b ihb =>
    rw [lcVal_cons, lcVal_cons, mul_add, smul_add, ← ihb]
    congr 1
    rw [smul_mul_smul_comm, mul_smul, smul_comm]

omit [CoefU R] [LawfulCoef R] in
theorem lcVal_mul (φ : Cob → A) (a b : LcCob R) :
    lcVal φ a * lcVal φ b = lcVal (fun x => lcVal (fun y => φ x * φ y) b) a := by
  induction a with
  | nil => simp
  | cons p a ih => rw [lcVal_cons, lcVal_cons, add_mul, ih, lcVal_mul_row]

omit [CoefU R] [LawfulCoef R] in
theorem lcVal_congr (φ ψ : Cob → A) (a : LcCob R) (h : ∀ p ∈ a, φ p.1 = ψ p.1) : lcVal φ a = lcVal ψ a := by
  induction a with
  | nil => rfl
  | cons p a ih =>
    rw [lcVal_cons, lcVal_cons, h p List.mem_cons_self, ih (fun q hq => h q (List.mem_cons_of_mem _ hq))]

theorem lcCombine_ok_each (F : Cob → Cob → Res Cob) (a b c : LcCob R) (h : lcCombine F a b = .ok c) :
    ∀ x ∈ a, ∀ y ∈ b, ∃ k, F x.1 y.1 = .ok k := by
  unfold lcCombine at h
  simp only at h
  split at h
  · rename_i ps hps
    intro x hx y hy
    have hmem : (x, y) ∈ a.flatMap (fun x => b.map (fun y => (x, y))) := by
      simp only [List.mem_flatMap, List.mem_map]
      exact ⟨x, hx, y, hy, rfl⟩
    obtain ⟨q, _, hq⟩ := mapMRes_ok_mem' _ _ _ hps _ hmem
    rcases hF : F x.1 y.1 with k | _ | _
    · exact ⟨k, rfl⟩
    · simp [hF] at hq
    · simp [hF] at hq
  · cases h
  · cases h

theorem lcMapGens_ok_each (z : Bool) (f : Cob → Res Cob) (a c : LcCob R) (h : lcMapGens z f a = .ok c) :
    ∀ p ∈ a, ∃ k, f p.1 = .ok k := by
  unfold lcMapGens at h
  split at h
  · rename_i ps hps
    intro p hp
    obtain ⟨q, _, hq⟩ := mapMRes_ok_mem' _ _ _ hps _ hp
    rcases hF : f p.1 with k | _ | _
    · exact ⟨k, rfl⟩
    · simp [hF] at hq
    · simp [hF] at hq
  · cases h
  · cases h

/-- the total version of a partial operation (`[]` where it fails) -/
def orEmpty (r : Res Cob) : Cob := match r with | .ok k => k | _ => []

/-- the value of a product of linear combinations is the product of the values -/
theorem lcVal_lcMul (φ : Cob → A) (h : R) (t : R) (tl tr : A → Tng → A) (hφ : CobLaws φ h t tl tr) (a b c : LcCob R)
    (hm : lcMul a b = .ok c) : lcVal φ c = lcVal φ a * lcVal φ b := by
  have hall := lcCombine_ok_each (fun x y => Cob.stack y x) a b c hm
  have hG : ∀ x ∈ a, ∀ y ∈ b, Cob.stack y.1 x.1 = .ok (orEmpty (Cob.stack y.1 x.1)) := by
    intro x hx y hy
    obtain ⟨k, hk⟩ := hall x hx y hy
    rw [hk]; rfl
  rw [lcVal_combine φ hφ.resp (fun x y => Cob.stack y x) (fun x y => orEmpty (Cob.stack y x)) a b c hG hm,
    lcVal_mul]
  unfold bilVal
  apply lcVal_congr
  intro p hp
  apply lcVal_congr
  intro q hq
  obtain ⟨k, hk⟩ := hall p hp q hq
  simp only [hk, orEmpty]
  exact hφ.stack _ _ _ hk

/-- **`lcOps h t` is a lawful edge algebra for `eliminate`** in values -/
theorem lcOps_valEdgeOps (φ : Cob → A) (h t : R) (tl tr : A → Tng → A) (hφ : CobLaws φ h t tl tr) :
    ValEdgeOps (lcOps h t) (lcVal φ : LcCob R → A) := by
  refine ⟨?_, fun d x => lcVal_sub φ hφ.resp d x, fun x => lcVal_neg φ hφ.resp x, ?_⟩
  · intro c ainv b r hr
    obtain ⟨x, y, hx, hy, hv⟩ :=
      (lcOps_in_terms_of_values φ hφ.resp h t hφ.peval).2.2.1 c ainv b r hr
    rw [hv, lcVal_lcMul φ h t tl tr hφ x b y hy, lcVal_lcMul φ h t tl tr hφ c ainv x hx]
  · intro x hx
    simp only [lcOps] at hx
    have : x = [] := List.isEmpty_iff.1 hx
    rw [this]; rfl

omit [CoefU R] [LawfulCoef R] in
theorem lcVal_linear_map (φ : Cob → A) (T : A → A) (hz : T 0 = 0) (ha : ∀ x y, T (x + y) = T x + T y)
    (hs : ∀ (r : R) x, T (r • x) = r • T x) (a : LcCob R) : lcVal (fun k => T (φ k)) a = T (lcVal φ a) := by
  induction a with
  | nil => simp [hz]
  | cons p a ih => rw [lcVal_cons, lcVal_cons, ha, hs, ih]

/-- **`lcOps h t` is lawful for `connect`** in values -/
theorem lcOps_valTensorOps (φ : Cob → A) (h t : R) (tl tr : A → Tng → A) (hφ : CobLaws φ h t tl tr) :
    ValTensorOps (lcOps h t) (lcVal φ : LcCob R → A) tl tr := by
  have hv := lcOps_in_terms_of_values φ hφ.resp h t hφ.peval
  refine ⟨?_, ?_, ?_, hφ.tl_zero, hφ.tr_zero, hφ.tl_add, hφ.tr_add, hφ.tl_mul, hφ.tr_mul⟩
  · intro f w g hg
    have hg' := hg
    simp only [lcOps] at hg'
    rcases hc : lcConnected f (Cob.idFor w) with c | _ | _
    · have hall := lcMapGens_ok_each false _ f c hc
      have hG : ∀ p ∈ f, Cob.connect p.1 (Cob.idFor w) = .ok (orEmpty (Cob.connect p.1 (Cob.idFor w))) := by
        intro p hp; obtain ⟨k, hk⟩ := hall p hp; rw [hk]; rfl
      rw [hv.2.2.2.1 f g w (fun k => orEmpty (Cob.connect k (Cob.idFor w))) hG hg, ← lcVal_linear_map φ (fun x => tl x w) (hφ.tl_zero w)
        (fun x y => hφ.tl_add x y w) (fun r x => hφ.tl_smul r x w) f]
      apply lcVal_congr
      intro p hp
      obtain ⟨k, hk⟩ := hall p hp
      simp only [hk, orEmpty]
      exact hφ.connL _ _ _ hk
    · simp [hc] at hg'
    · simp [hc] at hg'
  · intro neg f v g hg
    have hg' := hg
    simp only [lcOps] at hg'
    rcases hc : lcConnected f (Cob.idFor v) with c | _ | _
    · have hall := lcMapGens_ok_each false _ f c hc
      have hG : ∀ p ∈ f, Cob.connect p.1 (Cob.idFor v) = .ok (orEmpty (Cob.connect p.1 (Cob.idFor v))) := by
        intro p hp; obtain ⟨k, hk⟩ := hall p hp; rw [hk]; rfl
      have hval : lcVal (fun k => φ (orEmpty (Cob.connect k (Cob.idFor v)))) f = tr (lcVal φ f) v := by
        rw [← lcVal_linear_map φ (fun x => tr x v) (hφ.tr_zero v)
          (fun x y => hφ.tr_add x y v) (fun r x => hφ.tr_smul r x v) f]
        apply lcVal_congr
        intro p hp
        obtain ⟨k, hk⟩ := hall p hp
        simp only [hk, orEmpty]
        exact hφ.connR _ _ _ hk
      rw [hv.2.2.2.2 neg f g v (fun k => orEmpty (Cob.connect k (Cob.idFor v))) hG hg, hval]
      cases neg <;> simp
    · simp [hc] at hg'
    · simp [hc] at hg'
  · intro x hx
    simp only [lcOps] at hx
    have : x = [] := List.isEmpty_iff.1 hx
    rw [this]; rfl

/-- **`lcOps h t` is lawful for `deloop`** in values, given that `cap_off` of a single cobordism multiplies `φ` by a cap / cup -/
theorem lcOps_valDeloopOps (φ : Cob → A) (h t : R) (tl tr : A → Tng → A) (hφ : CobLaws φ h t tl tr) (c : Path)
    (cap cup : Dot → A)
    (hT : ∀ d k k', Cob.capOff k .tgt c d = .ok k' → φ k' = cap d * φ k)
    (hS : ∀ d k k', Cob.capOff k .src c d = .ok k' → φ k' = φ k * cup d) :
    ValDeloopOps (lcOps h t) (lcVal φ : LcCob R → A) c cap cup := by
  refine ⟨?_, ?_, ?_⟩
  · intro d f g hg
    simp only [lcOps] at hg
    rcases hc : lcCapOff .tgt c d f with e | _ | _
    · simp only [hc] at hg
      have hall := lcMapGens_ok_each true _ f e hc
      have hG : ∀ p ∈ f, Cob.capOff p.1 .tgt c d = .ok (orEmpty (Cob.capOff p.1 .tgt c d)) := by
        intro p hp; obtain ⟨k, hk⟩ := hall p hp; rw [hk]; rfl
      rw [lc_part_eval_keeps_value φ hφ.resp h t e g hφ.peval hg,
        lcVal_mapGens φ hφ.resp true _ (fun k => orEmpty (Cob.capOff k .tgt c d)) f e hG (fun _ => hφ.zcob) hc,
        ← lcVal_linear_map φ (fun x => cap d * x) (mul_zero _) (fun x y => mul_add _ x y)
          (fun r x => mul_smul_comm r (cap d) x) f]
      apply lcVal_congr
      intro p hp
      obtain ⟨k, hk⟩ := hall p hp
      simp only [hk, orEmpty]
      exact hT _ _ _ hk
    · simp [hc] at hg
    · simp [hc] at hg
  · intro d f g hg
    simp only [lcOps] at hg
    rcases hc : lcCapOff .src c d f with e | _ | _
    · simp only [hc] at hg
      have hall := lcMapGens_ok_each true _ f e hc
      have hG : ∀ p ∈ f, Cob.capOff p.1 .src c d = .ok (orEmpty (Cob.capOff p.1 .src c d)) := by
        intro p hp; obtain ⟨k, hk⟩ := hall p hp; rw [hk]; rfl
      rw [lc_part_eval_keeps_value φ hφ.resp h t e g hφ.peval hg,
        lcVal_mapGens φ hφ.resp true _ (fun k => orEmpty (Cob.capOff k .src c d)) f e hG (fun _ => hφ.zcob) hc,
        ← lcVal_linear_map φ (fun x => x * cup d) (zero_mul _) (fun x y => add_mul x y _)
          (fun r x => smul_mul_assoc r x (cup d)) f]
      apply lcVal_congr
      intro p hp
      obtain ⟨k, hk⟩ := hall p hp
      simp only [hk, orEmpty]
      exact hS _ _ _ hk
    · simp [hc] at hg
    · simp [hc] at hg
  · intro x hx
    simp only [lcOps] at hx
    have : x = [] := List.isEmpty_iff.1 hx
    rw [this]; rfl

end
end Yuiv.C05.Engine
