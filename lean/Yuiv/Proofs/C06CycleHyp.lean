import Yuiv.Proofs.C06CycleDefs
/-
C06Cycle — the hypothesis check of the driver implies the predicate `bicoloured`.

The C06 driver (`Drv/C06.canonReply`) evaluates `crossingsBicoloured l cc` on the walk-model Seifert circles `cc`
(paths with colours) and `setsOk` (the sorted walk-model circles are the circles of the cube at the orientation
preserving state).  `bicoloured_of_driver`: both checks together give `bicoloured l circ (coloursInRefOrder cc circ)`,
the hypothesis H of the lifted cycle lemma, stated on the circles of the cube.
-/
namespace Yuiv.C06Cycle
open Yuiv Yuiv.KhRef Yuiv.C06Canon

/-! ### `eraseDups` with a two-element result -/

theorem eraseDups_pair {xs : List Nat} {i j : Nat} (h : xs.eraseDups = [i, j]) :
    i ≠ j ∧ (∀ x ∈ xs, x = i ∨ x = j) ∧ i ∈ xs ∧ j ∈ xs := by
  have hm : ∀ x, x ∈ xs ↔ x = i ∨ x = j := by
    intro x; rw [← List.mem_eraseDups, h]; simp
  refine ⟨?_, fun x hx => (hm x).1 hx, (hm i).2 (Or.inl rfl), (hm j).2 (Or.inr rfl)⟩
  cases xs with
  | nil => simp at h
  | cons a as =>
    rw [List.eraseDups_cons] at h
    simp only [List.cons.injEq] at h
    obtain ⟨rfl, h2⟩ := h
    have hj : j ∈ (as.filter fun b => !b == a).eraseDups := by rw [h2]; simp
    rw [List.mem_eraseDups, List.mem_filter] at hj
    intro hij; subst hij; simp at hj

/-! ### index of the first member of a family that contains a label -/

section generic
variable {α β : Type}

/-- position of the first entry of `L` containing `e` (w.r.t. the membership test `m`), `L.length` if none -/
def fidx (m : α → Nat → Bool) (L : List α) (e : Nat) : Nat := L.findIdx (fun c => m c e)

/-- entries at different positions have no common member -/
def PDisj (m : α → Nat → Bool) (L : List α) : Prop :=
  ∀ i j (hi : i < L.length) (hj : j < L.length) (x : Nat), m L[i] x = true → m L[j] x = true → i = j

/-- every entry of `L` has the same members as some entry of `L'` -/
def Cover (m : α → Nat → Bool) (m' : β → Nat → Bool) (L : List α) (L' : List β) : Prop :=
  ∀ c ∈ L, ∃ d ∈ L', ∀ x, m c x = true ↔ m' d x = true

theorem fidx_lt_iff {m : α → Nat → Bool} {L : List α} {e : Nat} :
    fidx m L e < L.length ↔ ∃ c ∈ L, m c e = true := by
  unfold fidx; rw [List.findIdx_lt_length]

theorem fidx_spec {m : α → Nat → Bool} {L : List α} {e : Nat} (h : fidx m L e < L.length) :
    m L[fidx m L e] e = true :=
  List.findIdx_getElem (p := fun c => m c e) (w := h)

theorem fidx_spec' {m : α → Nat → Bool} {L : List α} {e k : Nat} (hk : k < L.length) (h : fidx m L e = k) :
    m L[k] e = true := by
  subst h; exact fidx_spec hk

theorem fidx_eq_of_mem {m : α → Nat → Bool} {L : List α} (hd : PDisj m L) {k e : Nat} (hk : k < L.length)
    (hm : m L[k] e = true) : fidx m L e = k := by
  have hlt : fidx m L e < L.length := fidx_lt_iff.2 ⟨L[k], List.getElem_mem hk, hm⟩
  exact hd _ _ hlt hk e (fidx_spec hlt) hm

theorem fidx_transfer_lt {m : α → Nat → Bool} {m' : β → Nat → Bool} {L : List α} {L' : List β}
    (hc : Cover m m' L L') {e : Nat} (h : fidx m L e < L.length) : fidx m' L' e < L'.length := by
  obtain ⟨c, hcL, hce⟩ := fidx_lt_iff.1 h
  obtain ⟨d, hdL, hcd⟩ := hc c hcL
  exact fidx_lt_iff.2 ⟨d, hdL, (hcd e).1 hce⟩

theorem fidx_transfer_eq {m : α → Nat → Bool} {m' : β → Nat → Bool} {L : List α} {L' : List β}
    (hc : Cover m m' L L') (hd : PDisj m' L') {e e' : Nat} (h : fidx m L e < L.length)
    (h' : fidx m L e' = fidx m L e) : fidx m' L' e = fidx m' L' e' := by
  have s1 := fidx_spec h
  have s2 := fidx_spec' h h'
  obtain ⟨d, hdL, hcd⟩ := hc L[fidx m L e] (List.getElem_mem h)
  obtain ⟨k, hk, rfl⟩ := List.getElem_of_mem hdL
  rw [fidx_eq_of_mem hd hk ((hcd e).1 s1), fidx_eq_of_mem hd hk ((hcd e').1 s2)]

theorem pdisj_of_pairwise {m : α → Nat → Bool} {L : List α}
    (h : L.Pairwise (fun a b => ∀ x, m a x = true → m b x = true → False)) : PDisj m L := by
  intro i j hi hj x hxi hxj
  rw [List.pairwise_iff_getElem] at h
  rcases Nat.lt_trichotomy i j with hlt | heq | hgt
  · exact (h i j hi hj hlt x hxi hxj).elim
  · exact heq
  · exact (h j i hj hi hgt x hxj hxi).elim

theorem pairwise_of_pdisj {m : α → Nat → Bool} {L : List α} (h : PDisj m L) :
    L.Pairwise (fun a b => ∀ x, m a x = true → m b x = true → False) := by
  rw [List.pairwise_iff_getElem]
  intro i j hi hj hlt x hxi hxj
  have := h i j hi hj x hxi hxj
  omega

end generic

/-! ### the combinatorial step for one crossing -/

theorem bicol_step {ι κ : Nat → Nat} {n N : Nat} {colP colQ : Nat → Colour}
    (hA : ∀ e, ι e < n → κ e < N)
    (hB : ∀ e e', ι e < n → ι e = ι e' → κ e = κ e')
    (hB' : ∀ e e', ι e < n → ι e' < n → κ e = κ e' → ι e = ι e')
    (hC : ∀ e, ι e < n → colQ (κ e) = colP (ι e))
    {es : List Nat} {i j : Nat} (hd : (es.map ι).eraseDups = [i, j]) (hi : i < n) (hj : j < n)
    (hcol : colP i ≠ colP j) :
    ((es.map κ).all (fun a => a < N) &&
     (es.map κ).any (fun a => (es.map κ).any (fun b => a != b)) &&
     (es.map κ).all (fun a => (es.map κ).all (fun b => a == b || colQ a != colQ b))) = true := by
  obtain ⟨hij, hall, hi', hj'⟩ := eraseDups_pair hd
  have hlt : ∀ e ∈ es, ι e < n := by
    intro e he
    rcases hall (ι e) (List.mem_map_of_mem he) with h | h <;> omega
  obtain ⟨e1, he1, rfl⟩ := List.mem_map.1 hi'
  obtain ⟨e2, he2, rfl⟩ := List.mem_map.1 hj'
  simp only [Bool.and_eq_true, List.all_eq_true, List.any_eq_true, List.mem_map, decide_eq_true_eq,
    forall_exists_index, and_imp, forall_apply_eq_imp_iff₂, Bool.or_eq_true, beq_iff_eq, bne_iff_ne, ne_eq,
    exists_exists_and_eq_and]
  refine ⟨⟨fun e he => hA e (hlt e he), e1, he1, e2, he2, ?_⟩, ?_⟩
  · intro hk; exact hij (hB' e1 e2 hi hj hk)
  · intro e he e' he'
    by_cases hk : κ e = κ e'
    · exact Or.inl hk
    · right
      have hne : ι e ≠ ι e' := fun h => hk (hB e e' (hlt e he) h)
      rw [hC e (hlt e he), hC e' (hlt e' he')]
      rcases hall (ι e) (List.mem_map_of_mem he) with h | h <;>
        rcases hall (ι e') (List.mem_map_of_mem he') with h' | h' <;>
        rw [h, h'] at hne ⊢
      · exact absurd rfl hne
      · exact hcol
      · exact fun h => hcol h.symm
      · exact absurd rfl hne

/-! ### the two families: paths of `cc`, circles of `circ` -/

/-- membership test of a coloured path -/
def mP : Path × Colour → Nat → Bool := fun pc e => pc.1.edges.contains e

/-- membership test of a cube circle -/
def mQ : Array Nat → Nat → Bool := fun c e => c.contains e

theorem driverIdx_eq (cc : List (Path × Colour)) (e : Nat) :
    (cc.findIdx? (fun pc => pc.1.edges.contains e)).getD cc.length = fidx mP cc e := by
  unfold fidx mP; rw [List.findIdx_eq_getD_findIdx?]

theorem circleIdx_eq (circ : Array (Array Nat)) (e : Nat) : circleIdx circ e = fidx mQ circ.toList e := by
  unfold circleIdx fidx mQ
  rcases circ with ⟨L⟩
  simp [List.findIdx_eq_getD_findIdx?]

theorem mem_sortNat {x : Nat} {xs : List Nat} : x ∈ Drv.C06.sortNat xs ↔ x ∈ xs := by
  unfold Drv.C06.sortNat
  have h := (Array.perm_iff_toList_perm.1 (C04Inv.qsort_perm xs.toArray (· < ·))).mem_iff (a := x)
  simpa using h

theorem colour_at (cc : List (Path × Colour)) (circ : Array (Array Nat)) {k : Nat} (hk : k < circ.size) :
    (coloursInRefOrder cc circ.toList).getD k .a =
      ((cc.find? (fun pc => mP pc ((circ[k]!)[0]!))).map (·.2)).getD .a := by
  unfold coloursInRefOrder mP
  simp only [List.getD_eq_getElem?_getD, List.getElem?_map, Array.getElem?_toList, hk, getElem?_pos,
    Option.map_some, Option.getD_some, getElem!_pos]
  cases List.find? (fun pc : Path × Colour => pc.1.edges.contains (circ[k][0]!)) cc <;> rfl

theorem colour_eq {cc : List (Path × Colour)} {circ : Array (Array Nat)}
    (hne : ∀ i, i < circ.size → circ[i]! ≠ #[])
    (hdQ : PDisj mQ circ.toList) (hdP : PDisj mP cc) (hQP : Cover mQ mP circ.toList cc) {e : Nat}
    (hk : fidx mQ circ.toList e < circ.size) (hi : fidx mP cc e < cc.length) :
    (coloursInRefOrder cc circ.toList).getD (fidx mQ circ.toList e) .a = (cc[fidx mP cc e]!).2 := by
  rw [colour_at cc circ hk]
  generalize hkk : fidx mQ circ.toList e = k at hk
  have hkl : k < circ.toList.length := by simpa using hk
  have hn := hne k hk
  rw [getElem!_pos circ k hk] at hn ⊢
  have hpos : 0 < circ[k].size := by
    rcases Nat.eq_zero_or_pos circ[k].size with h | h
    · exact absurd (Array.eq_empty_of_size_eq_zero h) hn
    · exact h
  rw [getElem!_pos circ[k] 0 hpos]
  have hr : mQ circ.toList[k] circ[k][0] = true := by
    simp [mQ]
  have hκr : fidx mQ circ.toList circ[k][0] = fidx mQ circ.toList e := by
    rw [hkk]; exact fidx_eq_of_mem hdQ hkl hr
  have hιr : fidx mP cc e = fidx mP cc circ[k][0] :=
    fidx_transfer_eq hQP hdP (by rw [hkk]; exact hkl) hκr
  have hf : cc.find? (fun pc => mP pc circ[k][0]) = some cc[fidx mP cc e] := by
    rw [List.find?_eq_getElem?_findIdx]
    show cc[fidx mP cc circ[k][0]]? = _
    rw [← hιr, getElem?_pos cc _ hi]
  rw [hf, getElem!_pos cc _ hi]
  rfl

open Yuiv.Drv.C06 in
theorem bicoloured_of_driver (l : Link) (cc : List (Path × Colour)) (circ : Array (Array Nat))
    (hne : ∀ i, i < circ.size → circ[i]! ≠ #[])
    (hdisj : ∀ i j, i < circ.size → j < circ.size → ∀ x, x ∈ circ[i]! → x ∈ circ[j]! → i = j)
    (hsets : (((cc.map (fun pc => sortNat pc.1.edges)).toArray.qsort (fun x y => x.headD 0 < y.headD 0)).toList
                == circ.toList.map (·.toList)) = true)
    (hyp : crossingsBicoloured l cc = true) :
    bicoloured l circ (coloursInRefOrder cc circ.toList) = true := by
  have hQ := eq_of_beq hsets
  have hperm : (circ.toList.map (·.toList)).Perm (cc.map (fun pc => sortNat pc.1.edges)) := by
    rw [← hQ]
    simpa using Array.perm_iff_toList_perm.1
      (C04Inv.qsort_perm (cc.map (fun pc => sortNat pc.1.edges)).toArray (fun x y => x.headD 0 < y.headD 0))
  have hPQ : Cover mP mQ cc circ.toList := by
    intro pc hpc
    have h1 : sortNat pc.1.edges ∈ circ.toList.map (·.toList) :=
      hperm.mem_iff.2 (List.mem_map_of_mem (f := fun pc => sortNat pc.1.edges) hpc)
    obtain ⟨d, hd, hde⟩ := List.mem_map.1 h1
    refine ⟨d, hd, fun x => ?_⟩
    simp only [mP, mQ, List.contains_iff_mem, Array.contains_iff_mem]
    rw [← mem_sortNat, ← hde, Array.mem_toList_iff]
  have hQP : Cover mQ mP circ.toList cc := by
    intro d hd
    have h1 : d.toList ∈ cc.map (fun pc => sortNat pc.1.edges) :=
      hperm.mem_iff.1 (List.mem_map_of_mem (f := fun c : Array Nat => c.toList) hd)
    obtain ⟨pc, hpc, hde⟩ := List.mem_map.1 h1
    refine ⟨pc, hpc, fun x => ?_⟩
    simp only [mP, mQ, List.contains_iff_mem, Array.contains_iff_mem]
    rw [← mem_sortNat (xs := pc.1.edges), hde, Array.mem_toList_iff]
  have hdQ : PDisj mQ circ.toList := by
    intro i j hi hj x hxi hxj
    have hi' : i < circ.size := by simpa using hi
    have hj' : j < circ.size := by simpa using hj
    apply hdisj i j hi' hj' x
    · simpa [mQ, hi'] using hxi
    · simpa [mQ, hj'] using hxj
  have hdP : PDisj mP cc := by
    apply pdisj_of_pairwise
    have h1 := pairwise_of_pdisj hdQ
    have h2 : (circ.toList.map (·.toList)).Pairwise (fun a b => ∀ x, x ∈ a → x ∈ b → False) := by
      rw [List.pairwise_map]
      exact h1.imp (by
        intro a b h x hxa hxb
        exact h x (by simpa [mQ] using hxa) (by simpa [mQ] using hxb))
    have h3 := (hperm.pairwise_iff (R := fun a b : List Nat => ∀ x, x ∈ a → x ∈ b → False)
      (by intro a b h x hxa hxb; exact h x hxb hxa)).1 h2
    rw [List.pairwise_map] at h3
    exact h3.imp (by
      intro a b h x hxa hxb
      exact h x (mem_sortNat.2 (by simpa [mP] using hxa)) (mem_sortNat.2 (by simpa [mP] using hxb)))
  have hlen : circ.toList.length = circ.size := by simp
  have hA : ∀ e, fidx mP cc e < cc.length → fidx mQ circ.toList e < circ.size :=
    fun e h => hlen ▸ fidx_transfer_lt hPQ h
  have hB : ∀ e e', fidx mP cc e < cc.length → fidx mP cc e = fidx mP cc e' →
      fidx mQ circ.toList e = fidx mQ circ.toList e' :=
    fun e e' h heq => fidx_transfer_eq hPQ hdQ h heq.symm
  have hB' : ∀ e e', fidx mP cc e < cc.length → fidx mP cc e' < cc.length →
      fidx mQ circ.toList e = fidx mQ circ.toList e' → fidx mP cc e = fidx mP cc e' :=
    fun e e' h _ hk => fidx_transfer_eq hQP hdP (fidx_transfer_lt hPQ h) hk.symm
  have hC : ∀ e, fidx mP cc e < cc.length →
      (coloursInRefOrder cc circ.toList).getD (fidx mQ circ.toList e) .a = (cc[fidx mP cc e]!).2 :=
    fun e h => colour_eq hne hdQ hdP hQP (hA e h) h
  unfold bicoloured
  unfold crossingsBicoloured at hyp
  rw [Array.all_eq_true'] at hyp ⊢
  intro x hx
  have h := hyp x hx
  simp only [Bool.or_eq_true] at h ⊢
  rcases h with h | h
  · exact Or.inl h
  · right
    rw [show circleIdx circ = fidx mQ circ.toList from funext (circleIdx_eq circ)]
    simp only [driverIdx_eq] at h
    split at h
    · rename_i i j hd
      simp only [Bool.and_eq_true, decide_eq_true_eq, bne_iff_ne, ne_eq] at h
      exact bicol_step (colP := fun i => (cc[i]!).2)
        (colQ := fun a => (coloursInRefOrder cc circ.toList).getD a .a) hA hB hB' hC hd h.1.1 h.1.2 h.2
    · simp at h

end Yuiv.C06Cycle
