import Yuiv.Proofs.C19ConeDefs
import Yuiv.Proofs.C19CommMat
import Yuiv.Proofs.C19CommState
import Yuiv.Proofs.C01SqRed
/-
C19Cone — `d∘d = 0 (mod 2)` of the cube of `mkICube`, in the count form used by `Props/C19Comm.icube_cone_is_complex`,
from the integer statement `Props/C01Sq.khref_d_squared_zero` (unreduced, all `h`, `t`) and its reduced form
`C01Sq.d_squared_zero_reduced_of` (`t = 0`, any base edge that is a label — `mkICube` bases the reduced theory at the
on-axis point `l.base`, not at the base edge of `mkCube`).
-/
namespace Yuiv.C19Cone
open Yuiv Yuiv.KhRef Yuiv.C19 Yuiv.C06Cycle Yuiv.C19Inv Yuiv.C19Comm

/-! ### the copies of the decidable checks are the originals -/

theorem validKB_eq (l : Link) : validKB l = validK l := rfl

theorem edgeOKB_eq (cs cs' : Array (Array Nat)) : edgeOKB cs cs' = C02Mirror.edgeOK cs cs' := rfl

theorem cubeOKB_spec (c : Cube) (h : cubeOKB c = true) : C02Mirror.cubeOK c := by
  intro s hs k hk hb
  unfold cubeOKB at h
  have := (allBelow_spec _ _).1 ((allBelow_spec _ _).1 h s hs) k hk
  rw [hb, Bool.false_or, edgeOKB_eq] at this
  exact this

/-! ### reduction mod 2 -/

theorem termSum_mod2 (y : Gen) (ts : List Term) : termSum y ts % 2 = (((oddSupp ts).count y : Nat) : Int) % 2 := by
  induction ts with
  | nil => rfl
  | cons t ts ih =>
    rw [HModel.termSum_cons]
    unfold oddSupp at ih ⊢
    rw [List.filter_cons]
    by_cases ho : (t.2 % 2 != 0) = true
    · rw [if_pos ho, List.map_cons, List.count_cons]
      have ho' : t.2 % 2 = 1 := by
        have : t.2 % 2 ≠ 0 := by simpa using ho
        omega
      by_cases e : (t.1 == y) = true
      · rw [if_pos e, if_pos e]; push_cast; omega
      · rw [if_neg e, if_neg e]; push_cast; omega
    · rw [if_neg ho]
      have ho' : t.2 % 2 = 0 := by simpa using ho
      by_cases e : (t.1 == y) = true
      · rw [if_pos e]; omega
      · rw [if_neg e]; omega

theorem chainSum_mod2 (D : Gen → List Term) (z : Yuiv.C06Canon.Chain) (y : Gen) :
    chainSum D z y % 2 = ((((oddSupp z).flatMap (fun g => oddSupp (D g))).count y : Nat) : Int) % 2 := by
  induction z with
  | nil => rfl
  | cons ga z ih =>
    rw [HModel.chainSum_cons]
    have hT := termSum_mod2 y (D ga.1)
    have hmul : (ga.2 * termSum y (D ga.1)) % 2 = (ga.2 % 2) * (termSum y (D ga.1) % 2) % 2 := Int.mul_emod _ _ _
    unfold oddSupp at ih ⊢
    rw [List.filter_cons]
    by_cases ho : (ga.2 % 2 != 0) = true
    · rw [if_pos ho, List.map_cons, List.flatMap_cons, List.count_append]
      have ho' : ga.2 % 2 = 1 := by
        have : ga.2 % 2 ≠ 0 := by simpa using ho
        omega
      rw [ho', Int.one_mul, Int.emod_emod_of_dvd _ (by decide)] at hmul
      unfold oddSupp at hT
      push_cast
      omega
    · rw [if_neg ho]
      have ho' : ga.2 % 2 = 0 := by simpa using ho
      rw [ho', Int.zero_mul] at hmul
      omega

/-- the integer statement `d (d g) = 0` (in the driver's form `dOfChain … = some []`) gives the count form mod 2 -/
theorem dsq_even_of_dOfChain (c : Cube) (p : Params) (g : Gen) (ts : Array Term) (hd : c.d p g = some ts)
    (hz : Yuiv.Drv.C06.dOfChain c p ts.toList = some []) (z : Gen) :
    ((dK c p g).flatMap (dK c p)).count z % 2 = 0 := by
  have h2 := ((dOfChain_nil_iff c p ts.toList).1 hz).2 z
  have := chainSum_mod2 (fun g' => ((c.d p g').getD #[]).toList) ts.toList z
  rw [h2] at this
  have e : (dK c p g).flatMap (dK c p) =
      (oddSupp ts.toList).flatMap (fun g' => oddSupp ((c.d p g').getD #[]).toList) := by
    unfold dK
    rw [hd]
    rfl
  rw [e]
  omega

/-! ### `d ∘ d = 0` on the cube of `mkICube` -/

theorem redOk_spec (l : InvLink) (p : Params) (h : redOk l p = true) (e : Nat) (hb : (icCube l p).base = some e) :
    p.t = 0 ∧ e ∈ edgeLabels l.link := by
  unfold redOk at h
  have hb' : (if p.reduced = true then l.base else none) = some e := hb
  cases hr : p.reduced with
  | false => rw [hr] at hb'; cases hb'
  | true =>
    rw [hr] at hb'
    simp only [if_true] at hb'
    rw [hr, hb'] at h
    simp only [Bool.not_true, Bool.false_or, Bool.and_eq_true, beq_iff_eq] at h
    exact ⟨h.1, Array.contains_iff_mem.1 h.2⟩

/-- the integer statement for the cube of `mkICube` (unreduced: all `h`, `t`; reduced, based at `l.base`: `t = 0` and on
the generators whose base circle is labelled `X`) -/
theorem icCube_dsq (l : InvLink) (p : Params) (hv : validK l.link = true) (hL : (edgeLabels l.link).size ≤ 64)
    (hok : C02Mirror.cubeOK (icCube l p)) (hred : redOk l p = true) (g : Gen) (hs : g.s < 2 ^ (icCube l p).n)
    (hg : baseKeep (icCube l p) g = true) :
    ∃ ts, (icCube l p).d p g = some ts ∧ Yuiv.Drv.C06.dOfChain (icCube l p) p ts.toList = some [] := by
  have hok' : C02Mirror.cubeOK (mkCube l.link p) := hok
  have hF : C01Sq.FaceComm (icCube l p) p := C01Sq.faceComm_mkCube l.link hv hL p hok'
  cases hb : (icCube l p).base with
  | none => exact C01Sq.d_squared_zero_of_faces (icCube l p) p hb hok hF g hs
  | some e =>
    obtain ⟨ht, he⟩ := redOk_spec l p hred e hb
    have hwf := C06Cycle.wf_of_validK l.link hv
    have H : C01Sq.RedHyp (icCube l p) (edgeLabels l.link) e := by
      refine ⟨hb, he, ?_, ?_⟩
      · intro s hs
        refine ⟨C04Inv.statePairs l.link s, ?_⟩
        show CirclesSpec _ _ (mkCube l.link p).circ[s]!
        rw [C02Mirror.mkCube_circ l.link p s hs]
        exact C06Cycle.circles_spec l.link hwf s
      · intro s s' hs hs'
        exact C02Mirror.cube_pair l.link p hL s s' hs hs'
    exact C01Sq.d_squared_zero_reduced_of H p ht hok hF g hs hg

/-- `d∘d = 0 (mod 2)` at `g`, count form, for the involutive cube built by `mkICube` -/
theorem icube_dsq_even (l : InvLink) (p : Params) (ic : ICube) (hic : mkICube l p = some ic)
    (hv : validKB l.link = true) (hL : (edgeLabels l.link).size ≤ 64) (hok : C02Mirror.cubeOK ic.cube)
    (hred : redOk l p = true) (g : Gen) (hs : g.s < 2 ^ ic.cube.n) (hg : baseKeep ic.cube g = true) (z : Gen) :
    ((dK ic.cube p g).flatMap (dK ic.cube p)).count z % 2 = 0 := by
  obtain ⟨hc, _⟩ := mkICube_tst l p ic hic
  rw [hc] at hok hs hg ⊢
  obtain ⟨ts, hd, hz⟩ := icCube_dsq l p hv hL hok hred g hs hg
  exact dsq_even_of_dOfChain _ p g ts hd hz z

end Yuiv.C19Cone
