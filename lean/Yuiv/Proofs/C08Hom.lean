import Yuiv.Proofs.C08Schur
import Mathlib.LinearAlgebra.Matrix.ToLin
import Mathlib.LinearAlgebra.Quotient.Basic
/-
C08 — "a chain homotopy equivalence induces an isomorphism on homology", formalised at the matrix level used by
`Props/C08.lean`.  Definitions and helper lemmas (no property theorem here; those are in `Yuiv/Props/C08Hom.lean`).

Homology of a three-term piece  `A --f--> B --g--> C`  of modules over a ring `R`:
        `Hmod f g = ker g ⧸ (im f ∩ ker g)`      (a Mathlib `Submodule` quotient of `LinearMap.ker g`),
i.e. the usual `ker g / im f` whenever `g ∘ f = 0` (the definition itself does not need that hypothesis).
For matrices: `f = Matrix.toLin' d_in`, `g = Matrix.toLin' d_out` (column vectors, `A : Matrix p q R` maps `q → R` to
`p → R`, composition = matrix product — the convention of `Proofs/C08Schur.lean`).
For a complex `… → C_{i+1} --d i--> C_i → … → C_0` (`d i : Matrix (ι i) (ι (i+1)) R`, `d i * d (i+1) = 0`):
        `Hn d n = Hmod (toLin' (d n)) (dOut d n)`,   `dOut d (i+1) = toLin' (d i)`,   `dOut d 0 = 0`,
so `Hn d (i+1) = ker d_i / im d_{i+1}` and `Hn d 0 = C_0 / im d_0`.
-/
namespace Yuiv.C08
open Matrix

/-! ### homology of a three-term piece and the induced maps -/

section modules
variable {R : Type*} [Ring R]
variable {A B C A' B' C' : Type*}
  [AddCommGroup A] [Module R A] [AddCommGroup B] [Module R B] [AddCommGroup C] [Module R C]
  [AddCommGroup A'] [Module R A'] [AddCommGroup B'] [Module R B'] [AddCommGroup C'] [Module R C']

/-- the boundaries, as a submodule of the cycles -/
def bdry (f : A →ₗ[R] B) (g : B →ₗ[R] C) : Submodule R (LinearMap.ker g) :=
  (LinearMap.range f).comap (LinearMap.ker g).subtype

theorem mem_bdry {f : A →ₗ[R] B} {g : B →ₗ[R] C} (z : LinearMap.ker g) :
    z ∈ bdry f g ↔ ∃ a, f a = z.1 := Iff.rfl

/-- homology at `B` of `A --f--> B --g--> C`: cycles modulo boundaries -/
abbrev Hmod (f : A →ₗ[R] B) (g : B →ₗ[R] C) : Type _ := LinearMap.ker g ⧸ bdry f g

/-- a map commuting with the outgoing differentials maps cycles to cycles -/
def cycMap {g : B →ₗ[R] C} {g' : B' →ₗ[R] C'} (φ : B →ₗ[R] B') (φC : C →ₗ[R] C')
    (hg : g' ∘ₗ φ = φC ∘ₗ g) : LinearMap.ker g →ₗ[R] LinearMap.ker g' :=
  φ.restrict (p := LinearMap.ker g) (q := LinearMap.ker g') (fun x hx => by
    have h := LinearMap.congr_fun hg x
    simp only [LinearMap.comp_apply] at h
    rw [LinearMap.mem_ker] at hx ⊢
    rw [h, hx, map_zero])

@[simp] theorem cycMap_coe {g : B →ₗ[R] C} {g' : B' →ₗ[R] C'} (φ : B →ₗ[R] B') (φC : C →ₗ[R] C')
    (hg : g' ∘ₗ φ = φC ∘ₗ g) (z : LinearMap.ker g) : (cycMap φ φC hg z : B') = φ z.1 := rfl

theorem cycMap_bdry {f : A →ₗ[R] B} {g : B →ₗ[R] C} {f' : A' →ₗ[R] B'} {g' : B' →ₗ[R] C'}
    (φA : A →ₗ[R] A') (φ : B →ₗ[R] B') (φC : C →ₗ[R] C')
    (hf : φ ∘ₗ f = f' ∘ₗ φA) (hg : g' ∘ₗ φ = φC ∘ₗ g) :
    bdry f g ≤ (bdry f' g').comap (cycMap φ φC hg) := by
  intro z hz
  obtain ⟨a, ha⟩ := (mem_bdry z).mp hz
  refine (mem_bdry _).mpr ⟨φA a, ?_⟩
  have h := LinearMap.congr_fun hf a
  simp only [LinearMap.comp_apply] at h
  rw [cycMap_coe, ← ha, h]

/-- the map induced on homology by a chain map `(φA, φ, φC)` -/
def Hmap {f : A →ₗ[R] B} {g : B →ₗ[R] C} {f' : A' →ₗ[R] B'} {g' : B' →ₗ[R] C'}
    (φA : A →ₗ[R] A') (φ : B →ₗ[R] B') (φC : C →ₗ[R] C')
    (hf : φ ∘ₗ f = f' ∘ₗ φA) (hg : g' ∘ₗ φ = φC ∘ₗ g) : Hmod f g →ₗ[R] Hmod f' g' :=
  (bdry f g).mapQ (bdry f' g') (cycMap φ φC hg) (cycMap_bdry φA φ φC hf hg)

/-- `[z] ↦ [φ z]` -/
theorem Hmap_mk {f : A →ₗ[R] B} {g : B →ₗ[R] C} {f' : A' →ₗ[R] B'} {g' : B' →ₗ[R] C'}
    (φA : A →ₗ[R] A') (φ : B →ₗ[R] B') (φC : C →ₗ[R] C')
    (hf : φ ∘ₗ f = f' ∘ₗ φA) (hg : g' ∘ₗ φ = φC ∘ₗ g) (z : LinearMap.ker g) :
    Hmap φA φ φC hf hg (Submodule.Quotient.mk z) = Submodule.Quotient.mk (cycMap φ φC hg z) := rfl

/-- if `ψ φ − 1 = f s + t g` then `ψ_* φ_* = 1` on homology: for a cycle `z`, `ψ φ z − z = f (s z)` is a boundary -/
theorem Hmap_comp_eq_id {f : A →ₗ[R] B} {g : B →ₗ[R] C} {f' : A' →ₗ[R] B'} {g' : B' →ₗ[R] C'}
    (φA : A →ₗ[R] A') (φ : B →ₗ[R] B') (φC : C →ₗ[R] C')
    (hf : φ ∘ₗ f = f' ∘ₗ φA) (hg : g' ∘ₗ φ = φC ∘ₗ g)
    (ψA : A' →ₗ[R] A) (ψ : B' →ₗ[R] B) (ψC : C' →ₗ[R] C)
    (hf' : ψ ∘ₗ f' = f ∘ₗ ψA) (hg' : g ∘ₗ ψ = ψC ∘ₗ g')
    (s : B →ₗ[R] A) (t : C →ₗ[R] B) (hh : ψ ∘ₗ φ - LinearMap.id = f ∘ₗ s + t ∘ₗ g) :
    Hmap ψA ψ ψC hf' hg' ∘ₗ Hmap φA φ φC hf hg = LinearMap.id := by
  refine Submodule.linearMap_qext _ (LinearMap.ext fun z => ?_)
  show Hmap ψA ψ ψC hf' hg' (Hmap φA φ φC hf hg (Submodule.Quotient.mk z)) = Submodule.Quotient.mk z
  rw [Hmap_mk, Hmap_mk, Submodule.Quotient.eq]
  refine (mem_bdry _).mpr ⟨s z.1, ?_⟩
  have h := LinearMap.congr_fun hh z.1
  simp only [LinearMap.sub_apply, LinearMap.comp_apply, LinearMap.id_apply, LinearMap.add_apply] at h
  have hz : g z.1 = 0 := z.2
  rw [hz, map_zero, add_zero] at h
  show f (s z.1) = ψ (φ z.1) - z.1
  exact h.symm

/-- a chain homotopy equivalence between two three-term pieces induces a linear equivalence on homology;
forward map `φ_*`, inverse `ψ_*` -/
def homologyIso {f : A →ₗ[R] B} {g : B →ₗ[R] C} {f' : A' →ₗ[R] B'} {g' : B' →ₗ[R] C'}
    (φA : A →ₗ[R] A') (φ : B →ₗ[R] B') (φC : C →ₗ[R] C')
    (hf : φ ∘ₗ f = f' ∘ₗ φA) (hg : g' ∘ₗ φ = φC ∘ₗ g)
    (ψA : A' →ₗ[R] A) (ψ : B' →ₗ[R] B) (ψC : C' →ₗ[R] C)
    (hf' : ψ ∘ₗ f' = f ∘ₗ ψA) (hg' : g ∘ₗ ψ = ψC ∘ₗ g')
    (s : B →ₗ[R] A) (t : C →ₗ[R] B) (hh : ψ ∘ₗ φ - LinearMap.id = f ∘ₗ s + t ∘ₗ g)
    (s' : B' →ₗ[R] A') (t' : C' →ₗ[R] B') (hh' : φ ∘ₗ ψ - LinearMap.id = f' ∘ₗ s' + t' ∘ₗ g') :
    Hmod f g ≃ₗ[R] Hmod f' g' :=
  LinearEquiv.ofLinearMap (Hmap φA φ φC hf hg) (Hmap ψA ψ ψC hf' hg')
    (Hmap_comp_eq_id ψA ψ ψC hf' hg' φA φ φC hf hg s' t' hh')
    (Hmap_comp_eq_id φA φ φC hf hg ψA ψ ψC hf' hg' s t hh)

end modules

/-! ### matrices -/

section matrices
variable {R : Type*} [CommRing R]

/-- homology at the middle term of `(a → R) --dIn--> (b → R) --dOut--> (c → R)` -/
abbrev HMat {a b c : Type*} [Fintype a] [DecidableEq a] [Fintype b] [DecidableEq b]
    (dIn : Matrix b a R) (dOut : Matrix c b R) : Type _ :=
  Hmod (Matrix.toLin' dIn) (Matrix.toLin' dOut)

theorem toLin'_comm {p q p' q' : Type*} [Fintype q] [DecidableEq q] [Fintype p] [DecidableEq p]
    [Fintype q'] [DecidableEq q'] [Fintype p'] [DecidableEq p']
    {X : Matrix p' p R} {M : Matrix p q R} {M' : Matrix p' q' R} {Y : Matrix q' q R}
    (h : X * M = M' * Y) : Matrix.toLin' X ∘ₗ Matrix.toLin' M = Matrix.toLin' M' ∘ₗ Matrix.toLin' Y := by
  rw [← Matrix.toLin'_mul, ← Matrix.toLin'_mul, h]

theorem toLin'_htpy {a b c : Type*} [Fintype a] [DecidableEq a] [Fintype b] [DecidableEq b]
    [Fintype c] [DecidableEq c] {b' : Type*} [Fintype b'] [DecidableEq b']
    {Bk : Matrix b b' R} {Fw : Matrix b' b R} {dIn : Matrix b a R} {dOut : Matrix c b R}
    {s : Matrix a b R} {t : Matrix b c R} (h : Bk * Fw - 1 = dIn * s + t * dOut) :
    Matrix.toLin' Bk ∘ₗ Matrix.toLin' Fw - LinearMap.id
      = Matrix.toLin' dIn ∘ₗ Matrix.toLin' s + Matrix.toLin' t ∘ₗ Matrix.toLin' dOut := by
  rw [← Matrix.toLin'_mul, ← Matrix.toLin'_mul, ← Matrix.toLin'_mul, ← Matrix.toLin'_one, ← map_sub, h, map_add]

/-- the matrix form of `homologyIso` -/
def homologyIsoMat {a b c a' b' c' : Type*}
    [Fintype a] [DecidableEq a] [Fintype b] [DecidableEq b] [Fintype c] [DecidableEq c]
    [Fintype a'] [DecidableEq a'] [Fintype b'] [DecidableEq b'] [Fintype c'] [DecidableEq c']
    {dIn : Matrix b a R} {dOut : Matrix c b R} {dIn' : Matrix b' a' R} {dOut' : Matrix c' b' R}
    (Fa : Matrix a' a R) (Fb : Matrix b' b R) (Fc : Matrix c' c R)
    (Ba : Matrix a a' R) (Bb : Matrix b b' R) (Bc : Matrix c c' R)
    (hFin : Fb * dIn = dIn' * Fa) (hFout : dOut' * Fb = Fc * dOut)
    (hBin : Bb * dIn' = dIn * Ba) (hBout : dOut * Bb = Bc * dOut')
    (s : Matrix a b R) (t : Matrix b c R) (hh : Bb * Fb - 1 = dIn * s + t * dOut)
    (s' : Matrix a' b' R) (t' : Matrix b' c' R) (hh' : Fb * Bb - 1 = dIn' * s' + t' * dOut') :
    HMat dIn dOut ≃ₗ[R] HMat dIn' dOut' :=
  homologyIso (Matrix.toLin' Fa) (Matrix.toLin' Fb) (Matrix.toLin' Fc) (toLin'_comm hFin) (toLin'_comm hFout)
    (Matrix.toLin' Ba) (Matrix.toLin' Bb) (Matrix.toLin' Bc) (toLin'_comm hBin) (toLin'_comm hBout)
    (Matrix.toLin' s) (Matrix.toLin' t) (toLin'_htpy hh) (Matrix.toLin' s') (Matrix.toLin' t') (toLin'_htpy hh')

end matrices

/-! ### ℕ-indexed complexes `… → C_{i+1} --d i--> C_i → … → C_0` (the convention of `IsReduction`) -/

section complexes
variable {R : Type*} [CommRing R] {ι κ : ℕ → Type*}
  [∀ i, Fintype (ι i)] [∀ i, DecidableEq (ι i)] [∀ i, Fintype (κ i)] [∀ i, DecidableEq (κ i)]

/-- the differential leaving `C_n` (`0` for `n = 0`) -/
def dOut (d : ∀ i, Matrix (ι i) (ι (i + 1)) R) : ∀ n, (ι n → R) →ₗ[R] (ι (n - 1) → R)
  | 0 => 0
  | i + 1 => Matrix.toLin' (d i)

/-- a degree `+1` map `h i : C_i → C_{i+1}` seen from `C_{n-1}` (`0` for `n = 0`) -/
def hOut (h : ∀ i, Matrix (ι (i + 1)) (ι i) R) : ∀ n, (ι (n - 1) → R) →ₗ[R] (ι n → R)
  | 0 => 0
  | i + 1 => Matrix.toLin' (h i)

/-- `H_n` of the complex `d`: `ker d_{n-1} / im d_n` (`C_0 / im d_0` for `n = 0`) -/
abbrev Hn (d : ∀ i, Matrix (ι i) (ι (i + 1)) R) (n : ℕ) : Type _ := Hmod (Matrix.toLin' (d n)) (dOut d n)

theorem dOut_F_comm {d : ∀ i, Matrix (ι i) (ι (i + 1)) R} {d' : ∀ i, Matrix (κ i) (κ (i + 1)) R}
    {F : ∀ i, Matrix (κ i) (ι i) R} (hF : ∀ i, F i * d i = d' i * F (i + 1)) :
    ∀ n, dOut d' n ∘ₗ Matrix.toLin' (F n) = Matrix.toLin' (F (n - 1)) ∘ₗ dOut d n
  | 0 => by simp [dOut]
  | i + 1 => (toLin'_comm (hF i)).symm

theorem dOut_B_comm {d : ∀ i, Matrix (ι i) (ι (i + 1)) R} {d' : ∀ i, Matrix (κ i) (κ (i + 1)) R}
    {B : ∀ i, Matrix (ι i) (κ i) R} (hB : ∀ i, d i * B (i + 1) = B i * d' i) :
    ∀ n, dOut d n ∘ₗ Matrix.toLin' (B n) = Matrix.toLin' (B (n - 1)) ∘ₗ dOut d' n
  | 0 => by simp [dOut]
  | i + 1 => toLin'_comm (hB i)

theorem dOut_htpy {d : ∀ i, Matrix (ι i) (ι (i + 1)) R} {F : ∀ i, Matrix (κ i) (ι i) R}
    {B : ∀ i, Matrix (ι i) (κ i) R} {h : ∀ i, Matrix (ι (i + 1)) (ι i) R}
    (h0 : B 0 * F 0 - 1 = d 0 * h 0)
    (hs : ∀ i, B (i + 1) * F (i + 1) - 1 = d (i + 1) * h (i + 1) + h i * d i) :
    ∀ n, Matrix.toLin' (B n) ∘ₗ Matrix.toLin' (F n) - LinearMap.id
      = Matrix.toLin' (d n) ∘ₗ Matrix.toLin' (h n) + hOut h n ∘ₗ dOut d n
  | 0 => by
    rw [← Matrix.toLin'_mul, ← Matrix.toLin'_mul, ← Matrix.toLin'_one, ← map_sub, h0]
    simp [dOut, hOut]
  | i + 1 => toLin'_htpy (hs i)

/-- the map induced on `H_n` by a chain map `F` -/
def HnMap {d : ∀ i, Matrix (ι i) (ι (i + 1)) R} {d' : ∀ i, Matrix (κ i) (κ (i + 1)) R}
    (F : ∀ i, Matrix (κ i) (ι i) R) (hF : ∀ i, F i * d i = d' i * F (i + 1)) (n : ℕ) :
    Hn d n →ₗ[R] Hn d' n :=
  Hmap (Matrix.toLin' (F (n + 1))) (Matrix.toLin' (F n)) (Matrix.toLin' (F (n - 1)))
    (toLin'_comm (hF n)) (dOut_F_comm hF n)

/-- the map induced on `H_n` by a chain map `B` written in the `d B = B d'` form of `IsReduction.B_comm` -/
def HnMapB {d : ∀ i, Matrix (ι i) (ι (i + 1)) R} {d' : ∀ i, Matrix (κ i) (κ (i + 1)) R}
    (B : ∀ i, Matrix (ι i) (κ i) R) (hB : ∀ i, d i * B (i + 1) = B i * d' i) (n : ℕ) :
    Hn d' n →ₗ[R] Hn d n :=
  Hmap (Matrix.toLin' (B (n + 1))) (Matrix.toLin' (B n)) (Matrix.toLin' (B (n - 1)))
    (toLin'_comm (hB n)).symm (dOut_B_comm hB n)

/-- chain maps `F`, `B` with homotopies `B F − 1 = d h + h d` and `F B − 1 = d' h' + h' d'` induce mutually inverse
linear equivalences on every `H_n` -/
def homologyIsoN {d : ∀ i, Matrix (ι i) (ι (i + 1)) R} {d' : ∀ i, Matrix (κ i) (κ (i + 1)) R}
    (F : ∀ i, Matrix (κ i) (ι i) R) (B : ∀ i, Matrix (ι i) (κ i) R)
    (hF : ∀ i, F i * d i = d' i * F (i + 1)) (hB : ∀ i, d i * B (i + 1) = B i * d' i)
    (h : ∀ i, Matrix (ι (i + 1)) (ι i) R) (h0 : B 0 * F 0 - 1 = d 0 * h 0)
    (hs : ∀ i, B (i + 1) * F (i + 1) - 1 = d (i + 1) * h (i + 1) + h i * d i)
    (h' : ∀ i, Matrix (κ (i + 1)) (κ i) R) (h0' : F 0 * B 0 - 1 = d' 0 * h' 0)
    (hs' : ∀ i, F (i + 1) * B (i + 1) - 1 = d' (i + 1) * h' (i + 1) + h' i * d' i) (n : ℕ) :
    Hn d n ≃ₗ[R] Hn d' n :=
  homologyIso (Matrix.toLin' (F (n + 1))) (Matrix.toLin' (F n)) (Matrix.toLin' (F (n - 1)))
    (toLin'_comm (hF n)) (dOut_F_comm hF n)
    (Matrix.toLin' (B (n + 1))) (Matrix.toLin' (B n)) (Matrix.toLin' (B (n - 1)))
    (toLin'_comm (hB n)).symm (dOut_B_comm hB n)
    (Matrix.toLin' (h n)) (hOut h n) (dOut_htpy h0 hs n)
    (Matrix.toLin' (h' n)) (hOut h' n) (dOut_htpy h0' hs' n)

theorem homologyIsoN_apply {d : ∀ i, Matrix (ι i) (ι (i + 1)) R} {d' : ∀ i, Matrix (κ i) (κ (i + 1)) R}
    (F : ∀ i, Matrix (κ i) (ι i) R) (B : ∀ i, Matrix (ι i) (κ i) R)
    (hF : ∀ i, F i * d i = d' i * F (i + 1)) (hB : ∀ i, d i * B (i + 1) = B i * d' i)
    (h : ∀ i, Matrix (ι (i + 1)) (ι i) R) (h0 : B 0 * F 0 - 1 = d 0 * h 0)
    (hs : ∀ i, B (i + 1) * F (i + 1) - 1 = d (i + 1) * h (i + 1) + h i * d i)
    (h' : ∀ i, Matrix (κ (i + 1)) (κ i) R) (h0' : F 0 * B 0 - 1 = d' 0 * h' 0)
    (hs' : ∀ i, F (i + 1) * B (i + 1) - 1 = d' (i + 1) * h' (i + 1) + h' i * d' i) (n : ℕ) :
    (∀ x, homologyIsoN F B hF hB h h0 hs h' h0' hs' n x = HnMap F hF n x) ∧
    (∀ y, (homologyIsoN F B hF hB h h0 hs h' h0' hs' n).symm y = HnMapB B hB n y) :=
  ⟨fun _ => rfl, fun _ => rfl⟩

/-- the data of `IsHomotopyEquiv` (`F B = 1`, so `h' = 0`) -/
def IsHomotopyEquiv.homologyIso {d : ∀ i, Matrix (ι i) (ι (i + 1)) R} {d' : ∀ i, Matrix (κ i) (κ (i + 1)) R}
    {F : ∀ i, Matrix (κ i) (ι i) R} {B : ∀ i, Matrix (ι i) (κ i) R} {h : ∀ i, Matrix (ι (i + 1)) (ι i) R}
    (e : IsHomotopyEquiv d d' F B h) (n : ℕ) : Hn d n ≃ₗ[R] Hn d' n :=
  homologyIsoN F B e.F_comm e.B_comm h e.htpy_zero e.htpy_succ (fun _ => 0)
    (by rw [e.FB, sub_self, Matrix.mul_zero])
    (fun i => by rw [e.FB, sub_self, Matrix.mul_zero, Matrix.zero_mul, add_zero]) n

end complexes

end Yuiv.C08
