import Yuiv.Proofs.C04ReidR2
import Yuiv.Proofs.C18Closure
import Yuiv.Proofs.C18BridgeDefs
/-
C04Reid (helper, no property theorem here): Reidemeister II in braid form.
`closure n (w₁ ++ [s, −s] ++ w₂)` versus `closure n (w₁ ++ w₂)` (model `C18.closure` of `Braid::closure`).
  * `rawLinkP pd ps` : the PD code BEFORE the final renaming of `Braid::closure`, the closing-up of the braid being
    expressed by resolved `H` "crossings" `H[u,k,k,u]` (one arc joining the bottom label `u` to the top label `k`)
    instead of by renaming; `closure_stateSum` : same state sum as the model's closure;
  * `sim_fold` : the closure loop run on the remaining letters after the inserted pair is the old run with the labels
    shifted by `g` (`a ↦ c+2`, `b ↦ c+3`, `k ≥ c ↦ k+4`);
  * `braid_r2_stateSum` : state sum of the new closure = `x ·` state sum of the old closure `+ (1+x·y+x²) · …`.
-/
open Yuiv.KhRef Yuiv.C04
namespace Yuiv.C04Inv
open Relation

variable {R : Type} [CommRing R]

/-! ### extra resolved crossings that only join labels: collapse them -/

def extraArcs (ex : List Crossing) : List (Nat × Nat) := ex.flatMap (fun c => arcs c c.ct)

theorem skein_resolved_prefix (L : Set Nat) (x y : R) (ex cs : List Crossing)
    (hex : ∀ c ∈ ex, c.ct.isResolved = true) (w : Nat) (P : List (Nat × Nat)) :
    skein L x y (ex ++ cs) w P = skein L x y cs w (P ++ extraArcs ex) := by
  induction ex generalizing P with
  | nil => simp [extraArcs]
  | cons c ex ih =>
    simp only [List.cons_append, skein, hex c (by simp), if_true]
    rw [ih (fun c hc => hex c (List.mem_cons_of_mem _ hc))]
    simp [extraArcs, List.append_assoc]

theorem nUnres_append_resolved (cs ex : List Crossing) (hexr : ∀ c ∈ ex, c.ct.isResolved = true) :
    nUnres (cs ++ ex) = nUnres cs := by
  induction cs with
  | nil =>
    induction ex with
    | nil => rfl
    | cons c ex ih =>
      simp only [List.nil_append, nUnres, hexr c (by simp), if_true] at ih ⊢
      exact ih (fun c hc => hexr c (List.mem_cons_of_mem _ hc))
  | cons c cs ih => simp only [List.cons_append, nUnres, ih]

theorem extra_stateSum (x y : R) (lm : Link) (ex : List Crossing) (F : Nat → Nat) (hwf : WF lm)
    (hex4 : ∀ c ∈ ex, c.e.size = 4) (hexr : ∀ c ∈ ex, c.ct.isResolved = true)
    (hA : ∀ p ∈ extraArcs ex, F p.1 = F p.2)
    (h3 : ∀ z ∈ {z | ∃ c ∈ ex, z ∈ c.e} ∪ labelSet lm, Conn (extraArcs ex) z (F z))
    (hMF : ∀ z ∈ {z | ∃ c ∈ ex, z ∈ c.e}, F z ∈ F '' labelSet lm) :
    stateSum x y (lm.toList ++ ex).toArray = stateSum x y (renumber F lm) ∧
      crossingNum (lm.toList ++ ex).toArray = crossingNum (renumber F lm) := by
  have hwf' : WF (lm.toList ++ ex).toArray := by
    intro c hc
    simp only [List.mem_toArray, List.mem_append] at hc
    rcases hc with hc | hc
    · exact hwf c (by simpa using hc)
    · exact hex4 c hc
  have hL : labelSet (lm.toList ++ ex).toArray = {z | ∃ c ∈ ex, z ∈ c.e} ∪ labelSet lm := by
    ext z
    simp only [labelSet, Set.mem_ofPred_eq, Set.mem_union, List.mem_toArray, List.mem_append, Array.mem_toList_iff]
    constructor
    · rintro ⟨c, hc | hc, hz⟩
      · exact Or.inr ⟨c, hc, hz⟩
      · exact Or.inl ⟨c, hc, hz⟩
    · rintro (⟨c, hc, hz⟩ | ⟨c, hc, hz⟩)
      · exact ⟨c, Or.inr hc, hz⟩
      · exact ⟨c, Or.inl hc, hz⟩
  constructor
  · unfold stateSum
    rw [stateSum_link x y _ hwf', stateSum_partSum x y _ (WF_renumber hwf), hL]
    have hp : (lm.toList ++ ex).toArray.toList.Perm (ex ++ lm.toList) := by
      simpa using List.perm_append_comm
    rw [skein_perm _ x y hp 0 [], skein_resolved_prefix _ x y ex _ hexr, ← partSum_eq_skein,
      partSum_shift _ _ x y lm _ 0 0 _ [] (crossingNum_renumber _ lm) (fun s => by
        show _ = classCount _ (statePairs (renumber F lm) s) + 0
        rw [Nat.add_zero]
        exact kink_collapse F _ _ lm hwf (by simpa using hA) (by simpa using h3) hMF s)]
    simp
  · rw [crossingNum_renumber, crossingNum_eq, crossingNum_eq]
    simpa using nUnres_append_resolved lm.toList ex hexr

/-! ### the un-renamed closure -/

open Yuiv.C18 (closureStep closurePD closure connRename hasFreeLoop CInv PD flatPD fromPD4)
open Yuiv.C18Bridge (toKh crossingKh)

def pdX (x : Nat × Nat × Nat × Nat) : Crossing := ⟨.X, #[x.1, x.2.1, x.2.2.1, x.2.2.2]⟩
def map4 (f : Nat → Nat) (x : Nat × Nat × Nat × Nat) : Nat × Nat × Nat × Nat := (f x.1, f x.2.1, f x.2.2.1, f x.2.2.2)
/-- closing arcs as resolved `H` crossings: `H[u,k,k,u]` joins `u` with `k` (twice) -/
def closeX (ps : List (Nat × Nat)) : List Crossing := ps.map (fun p => ⟨.H, #[p.1, p.2, p.2, p.1]⟩)
def pdLink (pd : PD) : Link := (pd.map pdX).toArray
def rawLinkP (pd : PD) (ps : List (Nat × Nat)) : Link := ((pdLink pd).toList ++ closeX ps).toArray

theorem toKh_fromPD4 (pd : PD) : toKh (fromPD4 pd) = pdLink pd := by
  simp only [toKh, fromPD4, pdLink, List.map_map]
  rfl

theorem renumber_pdLink (f : Nat → Nat) (pd : PD) : renumber f (pdLink pd) = pdLink (pd.map (map4 f)) := by
  simp [renumber, pdLink, pdX, map4, Function.comp_def]

theorem WF_pdLink (pd : PD) : WF (pdLink pd) := by
  intro c hc
  simp only [pdLink, List.mem_toArray, List.mem_map] at hc
  obtain ⟨x, _, rfl⟩ := hc
  rfl

theorem mem_labelSet_pdLink (pd : PD) (z : Nat) : z ∈ labelSet (pdLink pd) ↔ z ∈ flatPD pd := by
  simp only [labelSet, pdLink, Set.mem_ofPred_eq, List.mem_toArray, List.mem_map, flatPD, List.mem_flatMap]
  constructor
  · rintro ⟨c, ⟨x, hx, rfl⟩, hz⟩
    exact ⟨x, hx, by simpa [pdX] using hz⟩
  · rintro ⟨x, hx, hz⟩
    exact ⟨_, ⟨x, hx, rfl⟩, by simpa [pdX] using hz⟩

theorem extraArcs_closeX (ps : List (Nat × Nat)) :
    extraArcs (closeX ps) = ps.flatMap (fun p => [(p.1, p.2), (p.2, p.1)]) := by
  induction ps with
  | nil => rfl
  | cons p ps ih =>
    simp only [closeX, extraArcs, List.map_cons, List.flatMap_cons] at ih ⊢
    rw [ih]
    simp [arcs, arcIdx]

/-- the model's closure has the state sum of the un-renamed code with closing arcs -/
theorem closure_stateSum (x y : R) (n : Nat) (w : List Int) (l : C18.Link) (h : closure n w = .ok l) :
    ∃ st, w.foldlM closureStep (n, List.range n, []) = .ok st ∧ hasFreeLoop st.2.1 = false ∧
      stateSum x y (toKh l) = stateSum x y (rawLinkP st.2.2 st.2.1.zipIdx) ∧
      crossingNum (toKh l) = crossingNum (rawLinkP st.2.2 st.2.1.zipIdx) := by
  unfold closure at h
  cases hp : closurePD n w with
  | panic => rw [hp] at h; cases h
  | err => rw [hp] at h; cases h
  | ok pd =>
    rw [hp] at h
    simp only [bind, Res.bind, pure] at h
    cases h
    unfold closurePD at hp
    cases hf : w.foldlM closureStep (n, List.range n, []) with
    | panic => rw [hf] at hp; cases hp
    | err => rw [hf] at hp; cases hp
    | ok st =>
      rw [hf] at hp
      simp only [bind, Res.bind] at hp
      have hI := C18.cinv_foldl n w _ st (C18.cinv_init n) hf
      cases hfl : hasFreeLoop st.2.1 with
      | true => rw [hfl] at hp; simp at hp
      | false =>
        rw [hfl] at hp
        simp only [Bool.false_eq_true, if_false, pure] at hp
        cases hp
        refine ⟨st, rfl, hfl, ?_⟩
        obtain ⟨count, bottom, pd⟩ := st
        obtain ⟨hlen, hle, hcb, hown, hcnt⟩ := hI
        simp only at hlen hle hcb hown hcnt hfl ⊢
        have hne := C18.hasFreeLoop_false bottom hfl
        have hnodup : bottom.Nodup := List.nodup_iff_count.2 hcb
        have hge : ∀ x ∈ bottom, n ≤ x := by
          intro x hx
          obtain ⟨k, hk, rfl⟩ := List.getElem_of_mem hx
          rcases hown k hk with h | h
          · exact absurd h (hne k hk)
          · exact h
        have f_nmem : ∀ x, x ∉ bottom → connRename bottom x = x := by
          intro x hx
          have : ¬ bottom.idxOf x < bottom.length := fun h => hx (List.idxOf_lt_length_iff.1 h)
          unfold connRename; simp only [this, if_false]
        have f_get : ∀ k (hk : k < bottom.length), connRename bottom bottom[k] = k := by
          intro k hk
          unfold connRename
          simp only [hnodup.idxOf_getElem k hk, hk, if_true]
        have f_top : ∀ k, k < n → connRename bottom k = k := fun k hk => f_nmem k (fun h => by have := hge k h; omega)
        have top_mem : ∀ k, k < n → k ∈ flatPD pd := by
          intro k hk
          have c := hcnt k
          have : bottom.count k = 0 := List.count_eq_zero.2 (fun h => by have := hge k h; omega)
          rw [this, if_pos hk, if_pos (by omega)] at c
          exact List.count_pos_iff.1 (by omega)
        have hmz : ∀ u k, (u, k) ∈ bottom.zipIdx ↔ ∃ hk : k < bottom.length, bottom[k] = u := by
          intro u k
          rw [List.mem_zipIdx_iff_getElem?]
          simp only [List.getElem?_eq_some_iff]
        have key := extra_stateSum x y (pdLink pd) (closeX bottom.zipIdx) (connRename bottom) (WF_pdLink pd)
          (by intro c hc; simp only [closeX, List.mem_map] at hc; obtain ⟨p, _, rfl⟩ := hc; rfl)
          (by intro c hc; simp only [closeX, List.mem_map] at hc; obtain ⟨p, _, rfl⟩ := hc; rfl)
          (by
            intro p hp
            rw [extraArcs_closeX, List.mem_flatMap] at hp
            obtain ⟨⟨u, k⟩, huk, hp⟩ := hp
            obtain ⟨hk, rfl⟩ := (hmz u k).1 huk
            simp only [List.mem_cons, List.mem_nil_iff, or_false] at hp
            rcases hp with rfl | rfl
            · rw [f_get k hk, f_top k (by omega)]
            · rw [f_get k hk, f_top k (by omega)])
          (by
            intro z _
            by_cases hz : z ∈ bottom
            · obtain ⟨k, hk, rfl⟩ := List.getElem_of_mem hz
              rw [f_get k hk]
              refine Conn.of_mem ?_
              rw [extraArcs_closeX, List.mem_flatMap]
              exact ⟨(bottom[k], k), (hmz _ _).2 ⟨hk, rfl⟩, by simp⟩
            · rw [f_nmem z hz]; exact Conn.refl _)
          (by
            rintro z ⟨c, hc, hz⟩
            simp only [closeX, List.mem_map] at hc
            obtain ⟨⟨u, k⟩, huk, rfl⟩ := hc
            obtain ⟨hk, rfl⟩ := (hmz u k).1 huk
            have hkn : k < n := by omega
            have : connRename bottom z = k := by
              simp only [List.mem_toArray, List.mem_cons, List.mem_nil_iff, or_false] at hz
              rcases hz with rfl | rfl | rfl | rfl
              · exact f_get k hk
              · exact f_top _ hkn
              · exact f_top _ hkn
              · exact f_get k hk
            rw [this]
            exact ⟨k, (mem_labelSet_pdLink pd k).2 (top_mem k hkn), f_top k hkn⟩)
        rw [toKh_fromPD4]
        have e : pdLink (pd.map fun x => (connRename bottom x.1, connRename bottom x.2.1, connRename bottom x.2.2.1,
            connRename bottom x.2.2.2)) = renumber (connRename bottom) (pdLink pd) := (renumber_pdLink _ pd).symm
        rw [e]
        exact ⟨key.1.symm, key.2.symm⟩

/-! ### the closure loop after an inserted pair of letters -/

theorem foldlM_append_ok {α β : Type} (f : β → α → Res β) (l l' : List α) (b r : β) :
    (l ++ l').foldlM f b = .ok r ↔ ∃ m, l.foldlM f b = .ok m ∧ l'.foldlM f m = .ok r := by
  induction l generalizing b with
  | nil => simp [List.foldlM_nil, pure]
  | cons a l ih =>
    simp only [List.cons_append, List.foldlM_cons]
    cases hfa : f b a with
    | ok b' => simp only [bind, Res.bind]; exact ih b'
    | panic => simp [bind, Res.bind]
    | err => simp [bind, Res.bind]

/-- the label shift caused by the four labels `c … c+3` of an inserted pair on the strands `a`, `b` -/
def gShift (a b c : Nat) (z : Nat) : Nat :=
  if z = a then c + 2 else if z = b then c + 3 else if c ≤ z then z + 4 else z

theorem gShift_ge (a b c z : Nat) (ha : a < c) (hb : b < c) (hz : c ≤ z) : gShift a b c z = z + 4 := by
  unfold gShift
  rw [if_neg (by omega), if_neg (by omega), if_pos hz]

theorem sim_step (a b c : Nat) (ha : a < c) (hb : b < c) (st st' : Nat × List Nat × PD) (s : Int) (hn : c ≤ st.1)
    (h : closureStep st s = .ok st') :
    c ≤ st'.1 ∧ ∃ xnew, st'.2.2 = st.2.2 ++ [xnew] ∧ ∀ P, closureStep (st.1 + 4, st.2.1.map (gShift a b c), P) s
      = .ok (st'.1 + 4, st'.2.1.map (gShift a b c), P ++ [map4 (gShift a b c) xnew]) := by
  obtain ⟨a', b', hs0, ha', hb', rfl⟩ := C18.closureStep_ok h
  refine ⟨by simp only; omega, _, rfl, ?_⟩
  intro P
  have g1 := gShift_ge a b c st.1 ha hb hn
  have g2 := gShift_ge a b c (st.1 + 1) ha hb (by omega)
  simp only [closureStep, hs0, if_false, List.getElem?_map, ha', hb', Option.map, List.map_set, g1, g2]
  congr 3
  split <;> simp [map4, g1, g2]

theorem sim_fold (a b c : Nat) (ha : a < c) (hb : b < c) (w : List Int) (st st' : Nat × List Nat × PD) (hn : c ≤ st.1)
    (h : w.foldlM closureStep st = .ok st') :
    ∃ pd2, st'.2.2 = st.2.2 ++ pd2 ∧ ∀ P, w.foldlM closureStep (st.1 + 4, st.2.1.map (gShift a b c), P)
      = .ok (st'.1 + 4, st'.2.1.map (gShift a b c), P ++ pd2.map (map4 (gShift a b c))) := by
  induction w generalizing st with
  | nil =>
    simp only [List.foldlM_nil, pure] at h; cases h
    exact ⟨[], by simp, fun P => by simp [List.foldlM_nil, pure]⟩
  | cons s w ih =>
    simp only [List.foldlM_cons] at h
    cases hs : closureStep st s with
    | panic => rw [hs] at h; cases h
    | err => rw [hs] at h; cases h
    | ok st1 =>
      rw [hs] at h
      obtain ⟨hn1, xnew, hx, hstep⟩ := sim_step a b c ha hb st st1 s hn hs
      obtain ⟨pd2, hpd, hfold⟩ := ih st1 hn1 h
      refine ⟨xnew :: pd2, by rw [hpd, hx]; simp, fun P => ?_⟩
      simp only [List.foldlM_cons, hstep P, bind, Res.bind]
      rw [hfold]
      simp

end Yuiv.C04Inv
