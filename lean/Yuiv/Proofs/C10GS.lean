import Yuiv.Proofs.C10
import Mathlib.LinearAlgebra.Matrix.Block
import Mathlib.Tactic.FieldSimp
import Mathlib.Tactic.LinearCombination
import Mathlib.Tactic.Positivity
/-
C10 — `gs_bookkeeping`: spec definitions and helper lemmas (no property theorem here).

The integral Gram–Schmidt data of rows `b_0 … b_{m-1}` (independent, integral):
  d_0 = 1,  d_k = ∏_{j<k} |b*_j|²  (= Gram determinant of b_0 … b_{k-1}),   λ_{i,j} = d_{j+1}·μ_{i,j}  (j < i).
Model indexing (`LLLData`): `det[i] = d_{i+1}`, `lambda[i][j] = det[j]·μ_{i,j}`.
-/
namespace Yuiv.C10
open Yuiv Res Finset

/-! ### the specification -/

/-- `|b*_i|²` -/
def nrm (n : Nat) (bs : Nat → Nat → ℚ) (i : Nat) : ℚ := ∑ c ∈ range n, bs i c * bs i c

/-- `d_k = ∏_{j<k} |b*_j|²` (`d_0 = 1`) -/
def gsP (n : Nat) (bs : Nat → Nat → ℚ) (k : Nat) : ℚ := ∏ j ∈ range k, nrm n bs j

/-- `(det, lam)` are the integral Gram–Schmidt data of the rows of `B` whose Gram–Schmidt decomposition over ℚ is
`(bs, mu)` (unique by `gs_unique`): `det[i] = d_{i+1}`, `lam[i][j] = d_{j+1}·μ_{ij}` for `j < i`. -/
structure IsGSData (m n : Nat) (B : Nat → Nat → Int) (bs mu : Nat → Nat → ℚ)
    (det : Nat → Int) (lam : Nat → Nat → Int) : Prop where
  gs : IsGS m n B bs mu
  det_eq : ∀ i < m, (det i : ℚ) = gsP n bs (i + 1)
  lam_eq : ∀ i < m, ∀ j < i, (lam i j : ℚ) = gsP n bs (j + 1) * mu i j

/-- the bookkeeping invariant of `LLLData` in LLL mode: `det`/`lambda` are the integral Gram–Schmidt data of the
current rows of `target` -/
def Data.Book (d : Data) : Prop :=
  d.det.size = d.tr.m ∧
  ∃ bs mu : Nat → Nat → ℚ,
    IsGSData d.tr.m d.tr.n (ent d.tr.target) bs mu (fun i => d.det.getD i 0) (ent d.lam)

theorem gsP_zero (n : Nat) (bs : Nat → Nat → ℚ) : gsP n bs 0 = 1 := by simp [gsP]

theorem gsP_succ (n : Nat) (bs : Nat → Nat → ℚ) (k : Nat) : gsP n bs (k + 1) = gsP n bs k * nrm n bs k := by
  simp [gsP, Finset.prod_range_succ]

theorem IsGS.nrm_pos {m n : Nat} {B : Nat → Nat → Int} {bs mu : Nat → Nat → ℚ} (h : IsGS m n B bs mu)
    {i : Nat} (hi : i < m) : 0 < nrm n bs i := h.pos i hi

theorem IsGS.gsP_pos {m n : Nat} {B : Nat → Nat → Int} {bs mu : Nat → Nat → ℚ} (h : IsGS m n B bs mu) :
    ∀ k ≤ m, 0 < gsP n bs k := by
  intro k
  induction k with
  | zero => intro _; rw [gsP_zero]; exact one_pos
  | succ k ih =>
    intro hk
    rw [gsP_succ]
    exact mul_pos (ih (by omega)) (h.nrm_pos (by omega))

/-- `gsP` only depends on the first `k` vectors -/
theorem gsP_congr (n : Nat) (bs bs' : Nat → Nat → ℚ) (k : Nat) (h : ∀ j < k, nrm n bs j = nrm n bs' j) :
    gsP n bs k = gsP n bs' k :=
  Finset.prod_congr rfl (fun j hj => h j (mem_range.mp hj))

/-! ### integrality of the Gram–Schmidt data of integral rows (Gram determinants / adjugate) -/

section GramInt
open Matrix

/-- the first `N` rows as matrices -/
def gsBz (n N : Nat) (B : Nat → Nat → Int) : Matrix (Fin N) (Fin n) ℤ := fun l c => B l.val c.val
def gsBq (n N : Nat) (B : Nat → Nat → Int) : Matrix (Fin N) (Fin n) ℚ := fun l c => (B l.val c.val : ℚ)
def gsS (n N : Nat) (bs : Nat → Nat → ℚ) : Matrix (Fin N) (Fin n) ℚ := fun l c => bs l.val c.val
def gsM (N : Nat) (mu : Nat → Nat → ℚ) : Matrix (Fin N) (Fin N) ℚ :=
  fun l t => if t.val < l.val then mu l.val t.val else if t.val = l.val then 1 else 0

theorem gsBq_eq_map (n N : Nat) (B : Nat → Nat → Int) :
    gsBq n N B = (gsBz n N B).map (Int.castRingHom ℚ) := by
  ext l c; simp [gsBq, gsBz]

theorem gsM_det (N : Nat) (mu : Nat → Nat → ℚ) : (gsM N mu).det = 1 := by
  rw [det_of_isLowerTriangular]
  · apply Finset.prod_eq_one
    intro i _
    simp [gsM]
  · intro i j hij
    have h : i < j := hij
    have h' : i.val < j.val := h
    simp only [gsM]
    rw [if_neg (by omega), if_neg (by omega)]

section
variable {m n : Nat} {B : Nat → Nat → Int} {bs mu : Nat → Nat → ℚ}

theorem IsGS.gsBq_eq (h : IsGS m n B bs mu) {N : Nat} (hN : N ≤ m) :
    gsBq n N B = gsM N mu * gsS n N bs := by
  ext l c
  rw [Matrix.mul_apply]
  have hl : l.val < m := lt_of_lt_of_le l.isLt hN
  have e := h.decomp l.val hl c.val c.isLt
  show (B l.val c.val : ℚ) = _
  rw [e]
  have e2 : ∑ t : Fin N, gsM N mu l t * gsS n N bs t c
      = ∑ t ∈ range N, (if t < l.val then mu l.val t else if t = l.val then 1 else 0) * bs t c.val :=
    Fin.sum_univ_eq_sum_range (fun t => (if t < l.val then mu l.val t else if t = l.val then 1 else 0) * bs t c.val) N
  rw [e2]
  have hsub : range (l.val + 1) ⊆ range N := by
    intro x hx; rw [mem_range] at hx ⊢; have := l.isLt; omega
  rw [← Finset.sum_subset hsub]
  · rw [Finset.sum_range_succ, if_neg (lt_irrefl _), if_pos rfl, one_mul, add_comm]
    congr 1
    exact Finset.sum_congr rfl (fun t ht => by rw [if_pos (mem_range.mp ht)])
  · intro x _ hx
    rw [mem_range] at hx
    rw [if_neg (by omega), if_neg (by omega), zero_mul]

theorem IsGS.gsS_gram (h : IsGS m n B bs mu) {N : Nat} (hN : N ≤ m) :
    gsS n N bs * (gsS n N bs)ᵀ = diagonal (fun l : Fin N => nrm n bs l.val) := by
  ext l t
  rw [Matrix.mul_apply]
  have e : ∑ c : Fin n, gsS n N bs l c * (gsS n N bs)ᵀ c t = ∑ c ∈ range n, bs l.val c * bs t.val c :=
    Fin.sum_univ_eq_sum_range (fun c => bs l.val c * bs t.val c) n
  rw [e]
  by_cases hlt : l = t
  · subst hlt
    rw [diagonal_apply_eq]; rfl
  · rw [diagonal_apply_ne _ hlt]
    exact h.orth_ne (lt_of_lt_of_le l.isLt hN) (lt_of_lt_of_le t.isLt hN) (fun h' => hlt (Fin.ext h'))

/-- Gram matrix over ℤ -/
def gsGz (n N : Nat) (B : Nat → Nat → Int) : Matrix (Fin N) (Fin N) ℤ := gsBz n N B * (gsBz n N B)ᵀ

theorem gsGq_eq_map (n N : Nat) (B : Nat → Nat → Int) :
    gsBq n N B * (gsBq n N B)ᵀ = (Int.castRingHom ℚ).mapMatrix (gsGz n N B) := by
  rw [gsGz, gsBq_eq_map, RingHom.mapMatrix_apply, Matrix.map_mul, transpose_map]

theorem IsGS.gram_det (h : IsGS m n B bs mu) {N : Nat} (hN : N ≤ m) :
    (gsBq n N B * (gsBq n N B)ᵀ).det = gsP n bs N := by
  rw [h.gsBq_eq hN, transpose_mul, ← Matrix.mul_assoc, Matrix.mul_assoc (gsM N mu), h.gsS_gram hN,
    det_mul, det_mul, det_transpose, gsM_det, det_diagonal, one_mul, mul_one]
  exact Fin.prod_univ_eq_prod_range (fun l => nrm n bs l) N

theorem IsGS.gram_det_cast (h : IsGS m n B bs mu) {N : Nat} (hN : N ≤ m) :
    ((gsGz n N B).det : ℚ) = gsP n bs N := by
  rw [← h.gram_det hN, gsGq_eq_map, ← RingHom.map_det]
  rfl

theorem IsGS.int_D (h : IsGS m n B bs mu) : ∀ k ≤ m, ∃ z : ℤ, (z : ℚ) = gsP n bs k :=
  fun k hk => ⟨(gsGz n k B).det, h.gram_det_cast hk⟩


/-- `d_k·x` is integral whenever `G·x = B·w` for an integral `w` (adjugate) -/
theorem IsGS.int_coeff (h : IsGS m n B bs mu) {N : Nat} (hN : N ≤ m) (w : Fin n → ℤ) (x : Fin N → ℚ)
    (hx : (gsBq n N B * (gsBq n N B)ᵀ) *ᵥ x = gsBq n N B *ᵥ (fun c => (w c : ℚ))) :
    ∀ l : Fin N, ((((gsGz n N B).adjugate *ᵥ (gsBz n N B *ᵥ w)) l : ℤ) : ℚ) = gsP n bs N * x l := by
  intro l
  have e1 : (gsBq n N B * (gsBq n N B)ᵀ).adjugate *ᵥ ((gsBq n N B * (gsBq n N B)ᵀ) *ᵥ x)
      = gsP n bs N • x := by
    rw [mulVec_mulVec, adjugate_mul, h.gram_det hN, smul_mulVec, one_mulVec]
  rw [hx] at e1
  have e2 := congrFun e1 l
  rw [Pi.smul_apply, smul_eq_mul] at e2
  rw [← e2, gsGq_eq_map, ← RingHom.map_adjugate, RingHom.mapMatrix_apply, gsBq_eq_map]
  have a1 := RingHom.map_mulVec (Int.castRingHom ℚ) (gsGz n N B).adjugate (gsBz n N B *ᵥ w) l
  have a2 : (Int.castRingHom ℚ) ∘ (gsBz n N B *ᵥ w)
      = (gsBz n N B).map (Int.castRingHom ℚ) *ᵥ (fun c => (w c : ℚ)) := by
    funext t
    exact RingHom.map_mulVec (Int.castRingHom ℚ) (gsBz n N B) w t
  rw [a2] at a1
  exact a1

theorem IsGS.int_V (h : IsGS m n B bs mu) :
    ∀ i < m, ∀ k ≤ i, ∀ c < n,
      ∃ z : ℤ, (z : ℚ) = gsP n bs k * ((B i c : ℚ) - ∑ l ∈ range k, mu i l * bs l c) := by
  intro i hi k hk c hc
  have hN : k ≤ m := by omega
  have hMu : IsUnit (gsM k mu).det := by rw [gsM_det]; exact isUnit_one
  let y : Fin k → ℚ := fun l => mu i l.val
  let x : Fin k → ℚ := y ᵥ* (gsM k mu)⁻¹
  let w : Fin n → ℤ := fun c => B i c.val
  have hS : gsS n k bs = (gsM k mu)⁻¹ * gsBq n k B := by
    rw [h.gsBq_eq hN, ← Matrix.mul_assoc, nonsing_inv_mul _ hMu, Matrix.one_mul]
  have hp : y ᵥ* gsS n k bs = x ᵥ* gsBq n k B := by
    rw [hS, ← vecMul_vecMul]
  -- `S·w = S·p`
  have hSw : gsS n k bs *ᵥ (fun c => (w c : ℚ)) = gsS n k bs *ᵥ (y ᵥ* gsS n k bs) := by
    rw [← mulVec_transpose, mulVec_mulVec, h.gsS_gram hN]
    funext l
    rw [mulVec_diagonal]
    have hl : l.val < i := lt_of_lt_of_le l.isLt hk
    have e : _ = mu i l.val * nrm n bs l.val := h.inner_eq hi hl
    show ∑ c : Fin n, gsS n k bs l c * ((w c : ℤ) : ℚ) = nrm n bs l.val * mu i l.val
    rw [mul_comm, ← e]
    rw [← Fin.sum_univ_eq_sum_range (fun c => (B i c : ℚ) * bs l.val c) n]
    exact Finset.sum_congr rfl (fun c _ => mul_comm _ _)
  have hx : (gsBq n k B * (gsBq n k B)ᵀ) *ᵥ x = gsBq n k B *ᵥ (fun c => (w c : ℚ)) := by
    rw [← mulVec_mulVec, mulVec_transpose, ← hp]
    conv_lhs => rw [h.gsBq_eq hN]
    conv_rhs => rw [h.gsBq_eq hN]
    rw [← mulVec_mulVec, ← mulVec_mulVec, hSw]
  have hc' := h.int_coeff hN w x hx
  refine ⟨(gsGz n k B).det * B i c - ∑ l : Fin k, ((gsGz n k B).adjugate *ᵥ (gsBz n k B *ᵥ w)) l * B l.val c, ?_⟩
  rw [Int.cast_sub, Int.cast_mul, Int.cast_sum, h.gram_det_cast hN, mul_sub]
  congr 1
  have e3 : ∑ l ∈ range k, mu i l * bs l c = (y ᵥ* gsS n k bs) ⟨c, hc⟩ := by
    rw [← Fin.sum_univ_eq_sum_range (fun l => mu i l * bs l c) k]
    rfl
  rw [e3, hp]
  show _ = gsP n bs k * ∑ l : Fin k, x l * gsBq n k B l ⟨c, hc⟩
  rw [Finset.mul_sum]
  refine Finset.sum_congr rfl (fun l _ => ?_)
  rw [Int.cast_mul, hc' l]
  show gsP n bs k * x l * (B l.val c : ℚ) = gsP n bs k * (x l * gsBq n k B l ⟨c, hc⟩)
  rw [mul_assoc]
  rfl

theorem IsGS.int_L (h : IsGS m n B bs mu) :
    ∀ i < m, ∀ j < i, ∃ z : ℤ, (z : ℚ) = gsP n bs (j + 1) * mu i j := by
  intro i hi j hj
  have hjm : j < m := lt_trans hj hi
  -- `d_j·b*_j` is integral
  have hV : ∀ c < n, ∃ z : ℤ, (z : ℚ) = gsP n bs j * bs j c := by
    intro c hc
    obtain ⟨z, hz⟩ := h.int_V j hjm j (le_refl j) c hc
    refine ⟨z, ?_⟩
    rw [hz, h.decomp j hjm c hc]
    ring
  choose! v hv using hV
  refine ⟨∑ c ∈ range n, B i c * v c, ?_⟩
  push_cast
  have e : _ = mu i j * nrm n bs j := h.inner_eq hi hj
  rw [gsP_succ, mul_assoc, mul_comm (nrm n bs j), ← e, Finset.mul_sum]
  refine Finset.sum_congr rfl (fun c hc => ?_)
  rw [hv c (mem_range.mp hc)]
  ring

end

end GramInt

/-- exact division: `a = b·z`, `b ≠ 0` ⟹ `a.tdiv b = z` -/
theorem tdiv_of_cast_eq {a b z : ℤ} (hb : b ≠ 0) (h : (a : ℚ) = (b : ℚ) * (z : ℚ)) : a.tdiv b = z := by
  have : a = b * z := by exact_mod_cast h
  rw [this, Int.mul_tdiv_cancel_left _ hb]


/-! ### primitives `add_row_to`, `mul_row` -/

/-- `IsGS` only looks at the entries `B a c` with `a < m`, `c < n` -/
theorem IsGS.congr {m n : Nat} {B B' : Nat → Nat → Int} {bs mu : Nat → Nat → ℚ} (h : IsGS m n B bs mu)
    (hB : ∀ a < m, ∀ c < n, B' a c = B a c) : IsGS m n B' bs mu :=
  ⟨fun i hi c hc => by rw [hB i hi c hc]; exact h.decomp i hi c hc, h.orth, h.pos⟩

theorem sum_unitri (N l : Nat) (hl : l < N) (f g : Nat → ℚ) :
    ∑ t ∈ range N, (if t < l then f t else if t = l then 1 else 0) * g t = g l + ∑ t ∈ range l, f t * g t := by
  have hsub : range (l + 1) ⊆ range N := by
    intro x hx; rw [mem_range] at hx ⊢; omega
  rw [← Finset.sum_subset hsub]
  · rw [Finset.sum_range_succ, if_neg (lt_irrefl _), if_pos rfl, one_mul, add_comm]
    congr 1
    exact Finset.sum_congr rfl (fun t ht => by rw [if_pos (mem_range.mp ht)])
  · intro x _ hx
    rw [mem_range] at hx
    rw [if_neg (by omega), if_neg (by omega), zero_mul]

/-! ### `add_row_to(i, k, r)` -/

/-- the Gram–Schmidt coefficients after `b_k += r·b_i` (`i < k`); the `b*` do not change -/
def addMu (mu : Nat → Nat → ℚ) (i k : Nat) (r : ℚ) : Nat → Nat → ℚ :=
  fun a j => if a = k then mu k j + r * (if j < i then mu i j else if j = i then 1 else 0) else mu a j

theorem addgs_data (m n : Nat) (B B' : Nat → Nat → Int) (bs mu : Nat → Nat → ℚ) (det : Nat → Int)
    (lam lam' : Nat → Nat → Int) (i k : Nat) (r : Int) (hik : i < k) (hk : k < m)
    (hD : IsGSData m n B bs mu det lam)
    (hB' : ∀ a < m, ∀ c < n, B' a c = if a = k then B a c + B i c * r else B a c)
    (hlam' : ∀ a < m, ∀ b < a, lam' a b =
      if a = k then (if b = i then lam k i + r * det i else if b < i then lam k b + r * lam i b else lam a b)
      else lam a b) :
    IsGSData m n B' bs (addMu mu i k r) det lam' := by
  have him : i < m := lt_trans hik hk
  refine ⟨⟨?_, hD.gs.orth, hD.gs.pos⟩, hD.det_eq, ?_⟩
  · intro a ha c hc
    rw [hB' a ha c hc]
    by_cases hak : a = k
    · subst hak
      rw [if_pos rfl]
      have e1 := hD.gs.decomp a ha c hc
      have e2 := hD.gs.decomp i him c hc
      have e3 := sum_unitri a i hik (fun t => mu i t) (fun t => bs t c)
      simp only [addMu, if_pos]
      rw [Finset.sum_congr rfl (fun j _ => show
          (mu a j + (r : ℚ) * (if j < i then mu i j else if j = i then 1 else 0)) * bs j c
            = mu a j * bs j c + (r : ℚ) * ((if j < i then mu i j else if j = i then 1 else 0) * bs j c) by ring),
        Finset.sum_add_distrib, ← Finset.mul_sum, e3]
      push_cast
      rw [e1, e2]
      ring
    · rw [if_neg hak, hD.gs.decomp a ha c hc]
      simp only [addMu, if_neg hak]
  · intro a ha j hj
    rw [hlam' a ha j hj]
    by_cases hak : a = k
    · subst hak
      simp only [addMu, if_pos]
      have e1 := hD.lam_eq a ha j hj
      by_cases hji : j = i
      · subst hji
        rw [if_pos rfl, if_neg (lt_irrefl _), if_pos rfl]
        push_cast
        rw [e1, hD.det_eq j him]
        ring
      · rw [if_neg hji]
        by_cases hlt : j < i
        · rw [if_pos hlt, if_pos hlt]
          push_cast
          rw [e1, hD.lam_eq i him j hlt]
          ring
        · rw [if_neg hlt, if_neg hlt, if_neg hji, e1]
          ring
    · rw [if_neg hak]
      simp only [addMu, if_neg hak]
      exact hD.lam_eq a ha j hj

theorem detAt_ok {d : Data} {i : Nat} {v : Int} (h : detAt d i = ok v) : i < d.det.size ∧ v = d.det.getD i 0 := by
  by_cases hi : i < d.det.size
  · rw [detAt, if_pos hi] at h
    have h' : ok (d.det.getD i 0) = ok v := h
    injection h' with h'
    exact ⟨hi, h'.symm⟩
  · rw [detAt, if_neg hi] at h
    cases h

theorem Data.addRowTo_book (d d' : Data) (i k : Nat) (r : Int) (h : d.addRowTo i k r = ok d') (hB : d.Book) :
    d'.Book := by
  obtain ⟨hsz, bs, mu, hD⟩ := hB
  unfold Data.addRowTo at h
  simp only [bind_eq_ok] at h
  obtain ⟨tr, h1, di, h2, h⟩ := h
  simp only [pure_eq, Res.ok.injEq] at h
  subst h
  unfold Tr.addRowTo at h1
  rw [assert_bind] at h1
  obtain ⟨hik, h1⟩ := h1
  rw [assert_bind] at h1
  obtain ⟨hk, h1⟩ := h1
  simp only [decide_eq_true_eq] at hik hk
  simp only [pure_eq, Res.ok.injEq] at h1
  subst h1
  obtain ⟨_, hdi⟩ := detAt_ok h2
  subst hdi
  refine ⟨hsz, bs, addMu mu i k r, ?_⟩
  refine addgs_data d.tr.m d.tr.n (ent d.tr.target) _ bs mu _ (ent d.lam) _ i k r hik hk hD ?_ ?_
  · intro a ha c hc
    show ent (mAddRowTo d.tr.m d.tr.n d.tr.target i k r) a c = _
    rw [mAddRowTo, ent_mkMat _ ha hc]
  · intro a ha b hb
    show ent (mkMat d.tr.m d.tr.m _) a b = _
    rw [ent_mkMat _ ha (lt_trans hb ha)]

/-! ### `mul_row(i, u)` by a unit `u = ±1` -/

def mulBs (bs : Nat → Nat → ℚ) (i : Nat) (u : ℚ) : Nat → Nat → ℚ :=
  fun a c => if a = i then u * bs i c else bs a c
def mulMu (mu : Nat → Nat → ℚ) (i : Nat) (u : ℚ) : Nat → Nat → ℚ :=
  fun a j => if a = i then u * mu i j else if j = i then u * mu a i else mu a j

theorem mulBs_ip (n : Nat) (bs : Nat → Nat → ℚ) (i : Nat) (u : ℚ) (a j : Nat) :
    ∑ c ∈ range n, mulBs bs i u a c * mulBs bs i u j c
      = (if a = i then u else 1) * (if j = i then u else 1) * ∑ c ∈ range n, bs a c * bs j c := by
  rw [Finset.mul_sum]
  refine Finset.sum_congr rfl (fun c _ => ?_)
  simp only [mulBs]
  by_cases h1 : a = i <;> by_cases h2 : j = i <;> simp [h1, h2] <;> ring

theorem mulgs_data (m n : Nat) (B B' : Nat → Nat → Int) (bs mu : Nat → Nat → ℚ) (det : Nat → Int)
    (lam lam' : Nat → Nat → Int) (i : Nat) (u : Int) (hu : u * u = 1)
    (hD : IsGSData m n B bs mu det lam)
    (hB' : ∀ a < m, ∀ c < n, B' a c = if a = i then B a c * u else B a c)
    (hlam' : ∀ a < m, ∀ b < a, lam' a b =
      if b = i then (if a = i then lam a b * u else lam a b) * u else (if a = i then lam a b * u else lam a b)) :
    IsGSData m n B' (mulBs bs i u) (mulMu mu i u) det lam' := by
  have huq : (u : ℚ) * (u : ℚ) = 1 := by exact_mod_cast hu
  have hn : ∀ a, nrm n (mulBs bs i u) a = nrm n bs a := by
    intro a
    unfold nrm
    rw [mulBs_ip]
    by_cases h1 : a = i
    · rw [if_pos h1, huq, one_mul]
    · rw [if_neg h1, one_mul, one_mul]
  have hP : ∀ k, gsP n (mulBs bs i u) k = gsP n bs k := fun k => gsP_congr n _ _ k (fun j _ => hn j)
  refine ⟨⟨?_, ?_, ?_⟩, ?_, ?_⟩
  · intro a ha c hc
    rw [hB' a ha c hc]
    by_cases hai : a = i
    · subst hai
      rw [if_pos rfl]
      push_cast
      rw [hD.gs.decomp a ha c hc, add_mul, Finset.sum_mul]
      simp only [mulBs, mulMu, if_pos]
      rw [mul_comm]
      congr 1
      refine Finset.sum_congr rfl (fun j hj => ?_)
      have : j ≠ a := by have := mem_range.mp hj; omega
      rw [if_neg this]
      ring
    · rw [if_neg hai, hD.gs.decomp a ha c hc]
      simp only [mulBs, mulMu, if_neg hai]
      congr 1
      refine Finset.sum_congr rfl (fun j _ => ?_)
      by_cases hji : j = i
      · rw [if_pos hji, if_pos hji, hji]
        calc mu a i * bs i c = (u * u : ℚ) * (mu a i * bs i c) := by rw [huq, one_mul]
          _ = _ := by ring
      · rw [if_neg hji, if_neg hji]
  · intro a ha j hj
    rw [mulBs_ip, hD.gs.orth a ha j hj, mul_zero]
  · intro a ha
    have := hn a
    unfold nrm at this
    rw [this]
    exact hD.gs.pos a ha
  · intro a ha
    rw [hP]
    exact hD.det_eq a ha
  · intro a ha j hj
    rw [hlam' a ha j hj, hP]
    have e := hD.lam_eq a ha j hj
    simp only [mulMu]
    by_cases hai : a = i
    · have hji : j ≠ i := by omega
      rw [if_neg hji, if_pos hai, if_pos hai]
      push_cast
      rw [e, hai]
      ring
    · rw [if_neg hai, if_neg hai]
      by_cases hji : j = i
      · rw [if_pos hji, if_pos hji]
        push_cast
        rw [e, hji]
        ring
      · rw [if_neg hji, if_neg hji]
        exact e

theorem Data.mulRow_book (d d' : Data) (i : Nat) (u : Int) (h : d.mulRow i u = ok d') (hB : d.Book) :
    d'.Book := by
  obtain ⟨hsz, bs, mu, hD⟩ := hB
  unfold Data.mulRow at h
  simp only [bind_eq_ok] at h
  obtain ⟨tr, h1, h⟩ := h
  simp only [pure_eq, Res.ok.injEq] at h
  subst h
  unfold Tr.mulRow at h1
  rw [assert_bind] at h1
  obtain ⟨hu, h1⟩ := h1
  rw [assert_bind] at h1
  obtain ⟨_, h1⟩ := h1
  simp only [pure_eq, Res.ok.injEq] at h1
  subst h1
  refine ⟨hsz, mulBs bs i u, mulMu mu i u, ?_⟩
  refine mulgs_data d.tr.m d.tr.n (ent d.tr.target) _ bs mu _ (ent d.lam) _ i u (isUnitZ_sq hu) hD ?_ ?_
  · intro a ha c hc
    show ent (mMulRow d.tr.m d.tr.n d.tr.target i u) a c = _
    rw [mMulRow, ent_mkMat _ ha hc]
  · intro a ha b hb
    have hb' : b < d.tr.m := lt_trans hb ha
    show ent (mMulCol d.tr.m d.tr.m (mMulRow d.tr.m d.tr.m d.lam i u) i u) a b = _
    rw [mMulCol, ent_mkMat _ ha hb', mMulRow, ent_mkMat _ ha hb']

/-! ### `orthogonalize` (Cohen, Algorithm 2.6.7 style: all divisions are exact) -/

theorem orth_foldl_range_inv {σ : Type} (f : Res σ → Nat → Res σ) (Inv : Nat → σ → Prop) :
    ∀ (N : Nat) (s0 : σ), Inv 0 s0 → (∀ j < N, ∀ s, Inv j s → ∃ s', f (ok s) j = ok s' ∧ Inv (j+1) s') →
      ∃ s, (List.range N).foldl f (ok s0) = ok s ∧ Inv N s := by
  intro N
  induction N with
  | zero => intro s0 h0 _; exact ⟨s0, rfl, h0⟩
  | succ N ih =>
    intro s0 h0 hstep
    obtain ⟨s, hs, hI⟩ := ih s0 h0 (fun j hj s hs => hstep j (by omega) s hs)
    obtain ⟨s', hs', hI'⟩ := hstep N (by omega) s hI
    refine ⟨s', ?_, hI'⟩
    rw [List.range_succ, List.foldl_append, hs]
    exact hs'

/-- inner loop body of `orthogonalize` -/
def orth_innerStep (m n : Nat) (b : Mat) (d : Array Int) (i : Nat) (acc2 : Res (Mat × Mat)) (j : Nat) :
    Res (Mat × Mat) := do
  let (c, l) ← acc2
  let l0 := dotRow n (ent b i) (ent c j)
  let dd0 := if j > 0 then d.getD (j - 1) 0 else 1
  let dd1 := d.getD j 0
  Res.assert (dd0 != 0)   -- division by zero below
  let c' := mkMat m n fun r col =>
    if r = i then (ent c i col * dd1 - ent c j col * l0).tdiv dd0 else ent c r col
  let l' := mkMat m m fun r col => if r = i ∧ col = j then l0 else ent l r col
  pure (c', l')

/-- outer loop body of `orthogonalize` -/
def orth_outerStep (m n : Nat) (b : Mat) (acc : Res (Mat × Mat × Array Int)) (i' : Nat) :
    Res (Mat × Mat × Array Int) := do
  let (c, l, d) ← acc
  let i := i' + 1
  let inner : Res (Mat × Mat) := (List.range i).foldl (init := pure (c, l)) (orth_innerStep m n b d i)
  let (c, l) ← inner
  let di ← idiv (dotRow n (ent c i) (ent c i)) (d.getD (i - 1) 0)
  pure (c, l, d.set! i di)

theorem orth_unfold (m n : Nat) (b : Mat) :
    orthogonalize m n b =
      (Res.assert (m != 0) >>= fun _ =>
        (List.range (m - 1)).foldl (orth_outerStep m n b)
          (ok (mkMat m n (ent b), zeroMat m m,
            (Array.replicate m 1).set! 0 (dotRow n (ent b 0) (ent b 0)))) >>= fun r =>
        ok (r.2.1, r.2.2)) := rfl

theorem orth_innerStep_ok (m n : Nat) (b : Mat) (d : Array Int) (i : Nat) (c l : Mat) (j : Nat)
    (hdd : (if j > 0 then d.getD (j - 1) 0 else 1) ≠ 0) :
    orth_innerStep m n b d i (ok (c, l)) j =
      ok (mkMat m n fun r col =>
            if r = i then (ent c i col * d.getD j 0 - ent c j col * dotRow n (ent b i) (ent c j)).tdiv
              (if j > 0 then d.getD (j - 1) 0 else 1) else ent c r col,
          mkMat m m fun r col => if r = i ∧ col = j then dotRow n (ent b i) (ent c j) else ent l r col) := by
  show (Res.assert ((if j > 0 then d.getD (j - 1) 0 else 1) != 0) >>= fun _ => _) = _
  have : ((if j > 0 then d.getD (j - 1) 0 else 1) != 0) = true := by simpa using hdd
  rw [this]
  rfl

theorem orth_outerStep_ok (m n : Nat) (b : Mat) (c l : Mat) (d : Array Int) (i' : Nat) (c' l' : Mat)
    (hin : (List.range (i' + 1)).foldl (orth_innerStep m n b d (i' + 1)) (ok (c, l)) = ok (c', l'))
    (hd : d.getD i' 0 ≠ 0) :
    orth_outerStep m n b (ok (c, l, d)) i' =
      ok (c', l', d.set! (i' + 1) ((dotRow n (ent c' (i' + 1)) (ent c' (i' + 1))).tdiv (d.getD i' 0))) := by
  show ((List.range (i' + 1)).foldl (orth_innerStep m n b d (i' + 1)) (ok (c, l)) >>= fun x => _) = _
  rw [hin]
  show (idiv _ (d.getD (i' + 1 - 1) 0) >>= fun di => _) = _
  rw [Nat.add_sub_cancel]
  unfold idiv
  rw [if_neg hd]
  rfl

/-! ### array facts -/

theorem orth_size_set (d : Array Int) (i : Nat) (v : Int) : (d.set! i v).size = d.size := by
  simp

theorem orth_getD_set (d : Array Int) (i r : Nat) (v : Int) (hi : i < d.size) :
    (d.set! i v).getD r 0 = if r = i then v else d.getD r 0 := by
  by_cases h : r = i
  · subst h; simp [Array.getD, hi]
  · rw [if_neg h]
    have h' : ¬ i = r := fun e => h e.symm
    simp [Array.getD_eq_getD_getElem?, h']

/-! ### invariants -/

/-- invariant of the inner loop (row `i`, before step `j`); `(c0, l0)` is the state at loop entry -/
structure orth_InnerInv (m n : Nat) (b : Mat) (bs mu : Nat → Nat → ℚ) (i : Nat) (c0 l0 : Mat) (j : Nat)
    (s : Mat × Mat) : Prop where
  cother : ∀ r < m, r ≠ i → ∀ col < n, ent s.1 r col = ent c0 r col
  crow : ∀ col < n, (ent s.1 i col : ℚ) = gsP n bs j * ((ent b i col : ℚ) - ∑ t ∈ range j, mu i t * bs t col)
  lrow : ∀ t < j, (ent s.2 i t : ℚ) = gsP n bs (t + 1) * mu i t
  lother : ∀ r < m, r ≠ i → ∀ t < m, ent s.2 r t = ent l0 r t

/-- invariant of the outer loop before the iteration for row `i` -/
structure orth_OuterInv (m n : Nat) (b : Mat) (bs mu : Nat → Nat → ℚ) (i : Nat)
    (s : Mat × Mat × Array Int) : Prop where
  size : s.2.2.size = m
  dval : ∀ r < i, (s.2.2.getD r 0 : ℚ) = gsP n bs (r + 1)
  clow : ∀ r < i, ∀ col < n, (ent s.1 r col : ℚ) = gsP n bs r * bs r col
  chigh : ∀ r, i ≤ r → r < m → ∀ col < n, ent s.1 r col = ent b r col
  lval : ∀ r < i, ∀ t < r, (ent s.2.1 r t : ℚ) = gsP n bs (t + 1) * mu r t

/-- `l0 = dot(b_i, c_j) = D_{j+1}·μ_ij` -/
theorem orth_l0 {m n : Nat} {b : Mat} {bs mu : Nat → Nat → ℚ} (h : IsGS m n (ent b) bs mu) {i j : Nat}
    (hi : i < m) (hj : j < i) (c : Mat) (hc : ∀ col < n, (ent c j col : ℚ) = gsP n bs j * bs j col) :
    ((dotRow n (ent b i) (ent c j) : ℤ) : ℚ) = gsP n bs (j + 1) * mu i j := by
  unfold dotRow
  rw [sumLt_eq, Int.cast_sum]
  have e : ∀ col ∈ range n, ((ent b i col * ent c j col : ℤ) : ℚ) = gsP n bs j * ((ent b i col : ℚ) * bs j col) := by
    intro col hcol
    rw [Int.cast_mul, hc col (mem_range.mp hcol)]
    ring
  rw [Finset.sum_congr rfl e, ← Finset.mul_sum, h.inner_eq hi hj, gsP_succ]
  unfold nrm
  ring

/-- `dd0 = D_j` -/
theorem orth_dd0 {n : Nat} {bs : Nat → Nat → ℚ} (d : Array Int) (i j : Nat) (hj : j < i)
    (hd : ∀ r < i, (d.getD r 0 : ℚ) = gsP n bs (r + 1)) :
    (((if j > 0 then d.getD (j - 1) 0 else 1 : ℤ)) : ℚ) = gsP n bs j := by
  by_cases h0 : j > 0
  · rw [if_pos h0, hd (j - 1) (by omega)]
    congr 1
    omega
  · have : j = 0 := by omega
    subst this
    simp [gsP_zero]

/-- the exact division in the inner step -/
theorem orth_inner_tdiv {m n : Nat} {b : Mat} {bs mu : Nat → Nat → ℚ} (h : IsGS m n (ent b) bs mu) {i j : Nat}
    (hi : i < m) (hj : j < i) {col : Nat} (hcol : col < n) (ci cj l0 dd0 dd1 : ℤ)
    (hci : (ci : ℚ) = gsP n bs j * ((ent b i col : ℚ) - ∑ t ∈ range j, mu i t * bs t col))
    (hcj : (cj : ℚ) = gsP n bs j * bs j col)
    (hl0 : (l0 : ℚ) = gsP n bs (j + 1) * mu i j)
    (hdd0 : (dd0 : ℚ) = gsP n bs j) (hdd1 : (dd1 : ℚ) = gsP n bs (j + 1)) :
    (((ci * dd1 - cj * l0).tdiv dd0 : ℤ) : ℚ)
      = gsP n bs (j + 1) * ((ent b i col : ℚ) - ∑ t ∈ range (j + 1), mu i t * bs t col) := by
  obtain ⟨z, hz⟩ := h.int_V i hi (j + 1) (by omega) col hcol
  have hpos : 0 < gsP n bs j := h.gsP_pos j (by omega)
  have hne : dd0 ≠ 0 := by
    intro e
    rw [e, Int.cast_zero] at hdd0
    exact absurd hdd0.symm (ne_of_gt hpos)
  have key : ((ci * dd1 - cj * l0 : ℤ) : ℚ) = (dd0 : ℚ) * (z : ℚ) := by
    rw [Int.cast_sub, Int.cast_mul, Int.cast_mul, hci, hcj, hl0, hdd0, hdd1, hz, Finset.sum_range_succ]
    ring
  rw [tdiv_of_cast_eq hne key, hz]

theorem orth_inner_step {m n : Nat} {b : Mat} {bs mu : Nat → Nat → ℚ} (h : IsGS m n (ent b) bs mu)
    {i : Nat} (hi : i < m) (c0 l0 : Mat) (d : Array Int)
    (hd : ∀ r < i, (d.getD r 0 : ℚ) = gsP n bs (r + 1))
    (hc0 : ∀ r < i, ∀ col < n, (ent c0 r col : ℚ) = gsP n bs r * bs r col)
    (j : Nat) (hj : j < i) (s : Mat × Mat) (hs : orth_InnerInv m n b bs mu i c0 l0 j s) :
    ∃ s', orth_innerStep m n b d i (ok s) j = ok s' ∧ orth_InnerInv m n b bs mu i c0 l0 (j + 1) s' := by
  obtain ⟨c, l⟩ := s
  have hdd0 := orth_dd0 (n := n) (bs := bs) d i j hj hd
  have hpos : 0 < gsP n bs j := h.gsP_pos j (by omega)
  have hne : (if j > 0 then d.getD (j - 1) 0 else 1 : ℤ) ≠ 0 := by
    intro e
    rw [e, Int.cast_zero] at hdd0
    exact absurd hdd0.symm (ne_of_gt hpos)
  have hji : j ≠ i := by omega
  have hjm : j < m := by omega
  have hcj : ∀ col < n, (ent c j col : ℚ) = gsP n bs j * bs j col := by
    intro col hcol
    have := hs.cother j hjm hji col hcol
    simp only at this
    rw [this, hc0 j hj col hcol]
  have hl0 := orth_l0 h hi hj c hcj
  refine ⟨_, orth_innerStep_ok m n b d i c l j hne, ?_, ?_, ?_, ?_⟩
  · intro r hr hri col hcol
    show ent (mkMat m n _) r col = _
    rw [ent_mkMat _ hr hcol, if_neg hri]
    exact hs.cother r hr hri col hcol
  · intro col hcol
    show ((ent (mkMat m n _) i col : ℤ) : ℚ) = _
    rw [ent_mkMat _ hi hcol, if_pos rfl]
    exact orth_inner_tdiv h hi hj hcol _ _ _ _ _ (hs.crow col hcol) (hcj col hcol) hl0 hdd0 (hd j hj)
  · intro t ht
    show ((ent (mkMat m m _) i t : ℤ) : ℚ) = _
    rw [ent_mkMat _ hi (by omega)]
    by_cases htj : t = j
    · rw [if_pos ⟨rfl, htj⟩, hl0, htj]
    · rw [if_neg (fun e => htj e.2)]
      exact hs.lrow t (by omega)
  · intro r hr hri t ht
    show ent (mkMat m m _) r t = _
    rw [ent_mkMat _ hr ht, if_neg (fun e => hri e.1)]
    exact hs.lother r hr hri t ht

/-- the inner loop for row `i` -/
theorem orth_inner_loop {m n : Nat} {b : Mat} {bs mu : Nat → Nat → ℚ} (h : IsGS m n (ent b) bs mu)
    {i : Nat} (hi : i < m) (c0 l0 : Mat) (d : Array Int)
    (hd : ∀ r < i, (d.getD r 0 : ℚ) = gsP n bs (r + 1))
    (hc0 : ∀ r < i, ∀ col < n, (ent c0 r col : ℚ) = gsP n bs r * bs r col)
    (hci : ∀ col < n, ent c0 i col = ent b i col) :
    ∃ s, (List.range i).foldl (orth_innerStep m n b d i) (ok (c0, l0)) = ok s ∧
      orth_InnerInv m n b bs mu i c0 l0 i s := by
  refine orth_foldl_range_inv (orth_innerStep m n b d i) (orth_InnerInv m n b bs mu i c0 l0) i (c0, l0) ?_ ?_
  · refine ⟨fun _ _ _ _ _ => rfl, ?_, fun t ht => absurd ht (Nat.not_lt_zero t), fun _ _ _ _ _ => rfl⟩
    intro col hcol
    show ((ent c0 i col : ℤ) : ℚ) = _
    rw [hci col hcol, gsP_zero]
    simp
  · intro j hj s hs
    exact orth_inner_step h hi c0 l0 d hd hc0 j hj s hs

/-- `dot(c_i, c_i) / d[i-1] = D_{i+1}` -/
theorem orth_di {m n : Nat} {b : Mat} {bs mu : Nat → Nat → ℚ} (h : IsGS m n (ent b) bs mu)
    {i : Nat} (hi : i < m) (c : Mat) (dprev : ℤ)
    (hc : ∀ col < n, (ent c i col : ℚ) = gsP n bs i * bs i col)
    (hdp : (dprev : ℚ) = gsP n bs i) :
    (((dotRow n (ent c i) (ent c i)).tdiv dprev : ℤ) : ℚ) = gsP n bs (i + 1) := by
  obtain ⟨z, hz⟩ := h.int_D (i + 1) (by omega)
  have hpos : 0 < gsP n bs i := h.gsP_pos i (by omega)
  have hne : dprev ≠ 0 := by
    intro e
    rw [e, Int.cast_zero] at hdp
    exact absurd hdp.symm (ne_of_gt hpos)
  have key : ((dotRow n (ent c i) (ent c i) : ℤ) : ℚ) = (dprev : ℚ) * (z : ℚ) := by
    unfold dotRow
    rw [sumLt_eq, Int.cast_sum]
    have e : ∀ col ∈ range n, ((ent c i col * ent c i col : ℤ) : ℚ)
        = gsP n bs i * gsP n bs i * (bs i col * bs i col) := by
      intro col hcol
      rw [Int.cast_mul, hc col (mem_range.mp hcol)]
      ring
    rw [Finset.sum_congr rfl e, ← Finset.mul_sum, hdp, hz, gsP_succ]
    unfold nrm
    ring
  rw [tdiv_of_cast_eq hne key, hz]

theorem orth_outer_step {m n : Nat} {b : Mat} {bs mu : Nat → Nat → ℚ} (h : IsGS m n (ent b) bs mu)
    (i' : Nat) (hi : i' + 1 < m) (s : Mat × Mat × Array Int) (hs : orth_OuterInv m n b bs mu (i' + 1) s) :
    ∃ s', orth_outerStep m n b (ok s) i' = ok s' ∧ orth_OuterInv m n b bs mu (i' + 1 + 1) s' := by
  obtain ⟨c, l, d⟩ := s
  have hsize : d.size = m := hs.size
  have hd : ∀ r < i' + 1, (d.getD r 0 : ℚ) = gsP n bs (r + 1) := hs.dval
  obtain ⟨⟨c', l'⟩, hin, hI⟩ := orth_inner_loop h hi c l d hd hs.clow
    (fun col hcol => hs.chigh (i' + 1) (le_refl _) hi col hcol)
  have hdp : (d.getD i' 0 : ℚ) = gsP n bs (i' + 1) := hd i' (by omega)
  have hpos : 0 < gsP n bs (i' + 1) := h.gsP_pos (i' + 1) (by omega)
  have hne : d.getD i' 0 ≠ 0 := by
    intro e
    rw [e, Int.cast_zero] at hdp
    exact absurd hdp.symm (ne_of_gt hpos)
  have hrow : ∀ col < n, (ent c' (i' + 1) col : ℚ) = gsP n bs (i' + 1) * bs (i' + 1) col := by
    intro col hcol
    have e1 := hI.crow col hcol
    simp only at e1
    rw [e1, h.decomp (i' + 1) hi col hcol]
    ring
  refine ⟨_, orth_outerStep_ok m n b c l d i' c' l' hin hne, ?_, ?_, ?_, ?_, ?_⟩
  · show (d.set! (i' + 1) _).size = m
    rw [orth_size_set, hsize]
  · intro r hr
    show (((d.set! (i' + 1) _).getD r 0 : ℤ) : ℚ) = _
    rw [orth_getD_set d (i' + 1) r _ (by omega)]
    by_cases hri : r = i' + 1
    · rw [if_pos hri, hri]
      exact orth_di h hi c' _ hrow hdp
    · rw [if_neg hri]
      exact hd r (by omega)
  · intro r hr col hcol
    show ((ent c' r col : ℤ) : ℚ) = _
    by_cases hri : r = i' + 1
    · rw [hri]; exact hrow col hcol
    · have := hI.cother r (by omega) hri col hcol
      simp only at this
      rw [this]
      exact hs.clow r (by omega) col hcol
  · intro r hr hrm col hcol
    show ent c' r col = _
    have := hI.cother r hrm (by omega) col hcol
    simp only at this
    rw [this]
    exact hs.chigh r (by omega) hrm col hcol
  · intro r hr t ht
    show ((ent l' r t : ℤ) : ℚ) = _
    by_cases hri : r = i' + 1
    · rw [hri]
      exact hI.lrow t (by omega)
    · have := hI.lother r (by omega) hri t (by omega)
      simp only at this
      rw [this]
      exact hs.lval r (by omega) t ht

theorem orth_init {m n : Nat} {b : Mat} {bs mu : Nat → Nat → ℚ} (h : IsGS m n (ent b) bs mu) (hm : 0 < m) :
    orth_OuterInv m n b bs mu (0 + 1)
      (mkMat m n (ent b), zeroMat m m, (Array.replicate m 1).set! 0 (dotRow n (ent b 0) (ent b 0))) := by
  have hb0 : ∀ col < n, (ent b 0 col : ℚ) = bs 0 col := by
    intro col hcol
    have := h.decomp 0 hm col hcol
    simpa using this
  refine ⟨?_, ?_, ?_, ?_, ?_⟩
  · show ((Array.replicate m (1 : ℤ)).set! 0 _).size = m
    rw [orth_size_set, Array.size_replicate]
  · intro r hr
    have hr0 : r = 0 := by omega
    subst hr0
    show ((((Array.replicate m (1 : ℤ)).set! 0 _).getD 0 0 : ℤ) : ℚ) = _
    rw [orth_getD_set _ 0 0 _ (by rw [Array.size_replicate]; exact hm), if_pos rfl]
    unfold dotRow
    rw [sumLt_eq, Int.cast_sum, gsP_succ, gsP_zero, one_mul]
    unfold nrm
    refine Finset.sum_congr rfl (fun col hcol => ?_)
    rw [Int.cast_mul, hb0 col (mem_range.mp hcol)]
  · intro r hr col hcol
    have hr0 : r = 0 := by omega
    subst hr0
    show ((ent (mkMat m n (ent b)) 0 col : ℤ) : ℚ) = _
    rw [ent_mkMat _ hm hcol, hb0 col hcol, gsP_zero, one_mul]
  · intro r _ hrm col hcol
    show ent (mkMat m n (ent b)) r col = _
    rw [ent_mkMat _ hrm hcol]
  · intro r hr t ht
    omega

theorem orthogonalize_spec' (m n : Nat) (b : Mat) (bs mu : Nat → Nat → ℚ) (hm : 0 < m)
    (h : IsGS m n (ent b) bs mu) :
    ∃ (l : Mat) (dd : Array Int), orthogonalize m n b = ok (l, dd) ∧ dd.size = m ∧
      IsGSData m n (ent b) bs mu (fun i => dd.getD i 0) (ent l) := by
  obtain ⟨s, hs, hI⟩ := orth_foldl_range_inv (orth_outerStep m n b)
    (fun k s => orth_OuterInv m n b bs mu (k + 1) s) (m - 1) _ (orth_init h hm)
    (fun j hj s hs => orth_outer_step h j (by omega) s hs)
  have hm1 : m - 1 + 1 = m := by omega
  simp only [hm1] at hI
  refine ⟨s.2.1, s.2.2, ?_, hI.size, h, hI.dval, hI.lval⟩
  rw [orth_unfold]
  have hm0 : (m != 0) = true := by simp; omega
  rw [hm0]
  show ((List.range (m - 1)).foldl (orth_outerStep m n b) _ >>= fun r => ok (r.2.1, r.2.2)) = _
  rw [hs]
  rfl

/-! ### `swap(k)` -/

/-! ### the swap step keeps the bookkeeping invariant -/

/-- `N' = |b*_k|² + μ²|b*_p|²` (`k = p+1`, `μ = μ_{k,p}`) -/
def swapgs_N (n : Nat) (bs mu : Nat → Nat → ℚ) (p : Nat) : ℚ :=
  nrm n bs (p + 1) + mu (p + 1) p ^ 2 * nrm n bs p

/-- `ν = μ|b*_p|²/N'` -/
def swapgs_nu (n : Nat) (bs mu : Nat → Nat → ℚ) (p : Nat) : ℚ :=
  mu (p + 1) p * nrm n bs p / swapgs_N n bs mu p

/-- coefficient of `b*_p` in the new `b*_j` -/
def swapgs_cA (n : Nat) (bs mu : Nat → Nat → ℚ) (p j : Nat) : ℚ :=
  if j = p then mu (p + 1) p else if j = p + 1 then 1 - swapgs_nu n bs mu p * mu (p + 1) p else 0

/-- coefficient of `b*_k` in the new `b*_j` -/
def swapgs_cB (n : Nat) (bs mu : Nat → Nat → ℚ) (p j : Nat) : ℚ :=
  if j = p then 1 else if j = p + 1 then - swapgs_nu n bs mu p else 0

/-- coefficient of `b*_j` in the new `b*_j` -/
def swapgs_cC (p j : Nat) : ℚ := if j = p then 0 else if j = p + 1 then 0 else 1

/-- the new `b*` -/
def swapgs_bs (n : Nat) (bs mu : Nat → Nat → ℚ) (p : Nat) (j c : Nat) : ℚ :=
  if j = p then bs (p + 1) c + mu (p + 1) p * bs p c
  else if j = p + 1 then bs p c - swapgs_nu n bs mu p * (bs (p + 1) c + mu (p + 1) p * bs p c)
  else bs j c

/-- the new `μ` -/
def swapgs_mu (n : Nat) (bs mu : Nat → Nat → ℚ) (p : Nat) (a j : Nat) : ℚ :=
  if a = p then mu (p + 1) j
  else if a = p + 1 then (if j = p then swapgs_nu n bs mu p else mu p j)
  else if j = p then (mu a (p + 1) * nrm n bs (p + 1) + mu (p + 1) p * mu a p * nrm n bs p) / swapgs_N n bs mu p
  else if j = p + 1 then mu a p - mu (p + 1) p * mu a (p + 1)
  else mu a j

theorem swapgs_bs_lin (n : Nat) (bs mu : Nat → Nat → ℚ) (p j c : Nat) :
    swapgs_bs n bs mu p j c
      = swapgs_cA n bs mu p j * bs p c + swapgs_cB n bs mu p j * bs (p + 1) c + swapgs_cC p j * bs j c := by
  unfold swapgs_bs swapgs_cA swapgs_cB swapgs_cC
  split_ifs <;> ring

theorem swapgs_lin3 (n : Nat) (x y z x' y' z' : Nat → ℚ) (a1 a2 a3 b1 b2 b3 : ℚ) :
    ∑ c ∈ range n, (a1 * x c + a2 * y c + a3 * z c) * (b1 * x' c + b2 * y' c + b3 * z' c)
      = a1 * b1 * (∑ c ∈ range n, x c * x' c) + a1 * b2 * (∑ c ∈ range n, x c * y' c)
        + a1 * b3 * (∑ c ∈ range n, x c * z' c)
        + a2 * b1 * (∑ c ∈ range n, y c * x' c) + a2 * b2 * (∑ c ∈ range n, y c * y' c)
        + a2 * b3 * (∑ c ∈ range n, y c * z' c)
        + a3 * b1 * (∑ c ∈ range n, z c * x' c) + a3 * b2 * (∑ c ∈ range n, z c * y' c)
        + a3 * b3 * (∑ c ∈ range n, z c * z' c) := by
  simp only [Finset.mul_sum, ← Finset.sum_add_distrib]
  exact Finset.sum_congr rfl (fun c _ => by ring)

theorem swapgs_N_pos {m n : Nat} {B : Nat → Nat → Int} {bs mu : Nat → Nat → ℚ} (h : IsGS m n B bs mu)
    {p : Nat} (hp : p + 1 < m) : 0 < swapgs_N n bs mu p := by
  unfold swapgs_N
  have h1 := h.nrm_pos hp
  have h2 := h.nrm_pos (show p < m by omega)
  positivity

/-- inner products of the new `b*` -/
theorem swapgs_ip {m n : Nat} {B : Nat → Nat → Int} {bs mu : Nat → Nat → ℚ} (h : IsGS m n B bs mu)
    {p : Nat} (hp : p + 1 < m) {i j : Nat} (hi : i < m) (hj : j < m) :
    ∑ c ∈ range n, swapgs_bs n bs mu p i c * swapgs_bs n bs mu p j c
      = swapgs_cA n bs mu p i * swapgs_cA n bs mu p j * nrm n bs p
        + swapgs_cB n bs mu p i * swapgs_cB n bs mu p j * nrm n bs (p + 1)
        + swapgs_cC p i * swapgs_cC p j * ∑ c ∈ range n, bs i c * bs j c := by
  have hpm : p < m := by omega
  rw [Finset.sum_congr rfl (fun c _ => by rw [swapgs_bs_lin n bs mu p i c, swapgs_bs_lin n bs mu p j c])]
  rw [swapgs_lin3]
  have hpk : ∑ c ∈ range n, bs p c * bs (p + 1) c = 0 := h.orth_ne hpm hp (by omega)
  have hkp : ∑ c ∈ range n, bs (p + 1) c * bs p c = 0 := h.orth_ne hp hpm (by omega)
  have h1 : swapgs_cC p j * ∑ c ∈ range n, bs p c * bs j c = 0 := by
    unfold swapgs_cC
    split_ifs with e1 e2
    · simp
    · simp
    · rw [h.orth_ne hpm hj (fun e => e1 e.symm)]; simp
  have h2 : swapgs_cC p j * ∑ c ∈ range n, bs (p + 1) c * bs j c = 0 := by
    unfold swapgs_cC
    split_ifs with e1 e2
    · simp
    · simp
    · rw [h.orth_ne hp hj (fun e => e2 e.symm)]; simp
  have h3 : swapgs_cC p i * ∑ c ∈ range n, bs i c * bs p c = 0 := by
    unfold swapgs_cC
    split_ifs with e1 e2
    · simp
    · simp
    · rw [h.orth_ne hi hpm e1]; simp
  have h4 : swapgs_cC p i * ∑ c ∈ range n, bs i c * bs (p + 1) c = 0 := by
    unfold swapgs_cC
    split_ifs with e1 e2
    · simp
    · simp
    · rw [h.orth_ne hi hp e2]; simp
  unfold nrm
  linear_combination (swapgs_cA n bs mu p i * swapgs_cB n bs mu p j) * hpk
    + (swapgs_cB n bs mu p i * swapgs_cA n bs mu p j) * hkp
    + swapgs_cA n bs mu p i * h1 + swapgs_cB n bs mu p i * h2
    + swapgs_cA n bs mu p j * h3 + swapgs_cB n bs mu p j * h4

theorem swapgs_nrm_p {m n : Nat} {B : Nat → Nat → Int} {bs mu : Nat → Nat → ℚ} (h : IsGS m n B bs mu)
    {p : Nat} (hp : p + 1 < m) : nrm n (swapgs_bs n bs mu p) p = swapgs_N n bs mu p := by
  have e := swapgs_ip h hp (show p < m by omega) (show p < m by omega)
  unfold nrm at *
  rw [e]
  simp only [swapgs_cA, swapgs_cB, swapgs_cC, swapgs_N, nrm, if_true]
  ring

theorem swapgs_nrm_k {m n : Nat} {B : Nat → Nat → Int} {bs mu : Nat → Nat → ℚ} (h : IsGS m n B bs mu)
    {p : Nat} (hp : p + 1 < m) :
    nrm n (swapgs_bs n bs mu p) (p + 1) = nrm n bs p * nrm n bs (p + 1) / swapgs_N n bs mu p := by
  have e := swapgs_ip h hp hp hp
  have hN := ne_of_gt (swapgs_N_pos h hp)
  have hne : p + 1 ≠ p := by omega
  have e2 : nrm n (swapgs_bs n bs mu p) (p + 1)
      = (1 - swapgs_nu n bs mu p * mu (p + 1) p) * (1 - swapgs_nu n bs mu p * mu (p + 1) p) * nrm n bs p
        + (- swapgs_nu n bs mu p) * (- swapgs_nu n bs mu p) * nrm n bs (p + 1) := by
    unfold nrm at *
    rw [e]
    simp only [swapgs_cA, swapgs_cB, swapgs_cC, if_neg hne, if_true]
    ring
  rw [e2]
  unfold swapgs_nu
  have hN' : swapgs_N n bs mu p = nrm n bs (p + 1) + mu (p + 1) p ^ 2 * nrm n bs p := rfl
  field_simp
  rw [hN']
  ring

theorem swapgs_nrm_other {m n : Nat} {B : Nat → Nat → Int} {bs mu : Nat → Nat → ℚ} (h : IsGS m n B bs mu)
    {p : Nat} (hp : p + 1 < m) {j : Nat} (hj : j < m) (h1 : j ≠ p) (h2 : j ≠ p + 1) :
    nrm n (swapgs_bs n bs mu p) j = nrm n bs j := by
  have e := swapgs_ip (mu := mu) h hp hj hj
  unfold nrm at *
  rw [e]
  simp only [swapgs_cA, swapgs_cB, swapgs_cC, if_neg h1, if_neg h2]
  ring

theorem swapgs_orth {m n : Nat} {B : Nat → Nat → Int} {bs mu : Nat → Nat → ℚ} (h : IsGS m n B bs mu)
    {p : Nat} (hp : p + 1 < m) {i j : Nat} (hi : i < m) (hj : j < m) (hij : i ≠ j) :
    ∑ c ∈ range n, swapgs_bs n bs mu p i c * swapgs_bs n bs mu p j c = 0 := by
  rw [swapgs_ip h hp hi hj, h.orth_ne hi hj hij]
  have hN := ne_of_gt (swapgs_N_pos h hp)
  have hN' : swapgs_N n bs mu p = nrm n bs (p + 1) + mu (p + 1) p ^ 2 * nrm n bs p := rfl
  have key : mu (p + 1) p * (1 - swapgs_nu n bs mu p * mu (p + 1) p) * nrm n bs p
      + 1 * (- swapgs_nu n bs mu p) * nrm n bs (p + 1) = 0 := by
    unfold swapgs_nu
    field_simp
    rw [hN']
    ring
  have hne : p + 1 ≠ p := by omega
  unfold swapgs_cA swapgs_cB swapgs_cC
  by_cases hip : i = p
  · subst hip
    by_cases hjk : j = i + 1
    · subst hjk
      simp only [if_true, if_neg hne]
      linear_combination key
    · have hji : j ≠ i := fun e => hij e.symm
      simp only [if_neg hji, if_neg hjk]
      ring
  · by_cases hik : i = p + 1
    · subst hik
      by_cases hjp : j = p
      · subst hjp
        simp only [if_true, if_neg hne]
        linear_combination key
      · have hjk : j ≠ p + 1 := fun e => hij e.symm
        simp only [if_neg hjp, if_neg hjk]
        ring
    · simp only [if_neg hip, if_neg hik]
      ring

theorem swapgs_sum_split (f : Nat → ℚ) (p t : Nat) :
    ∑ j ∈ range (p + 1 + 1 + t), f j = ∑ j ∈ range p, f j + f p + f (p + 1) + ∑ x ∈ range t, f (p + 1 + 1 + x) := by
  rw [Finset.sum_range_add, Finset.sum_range_succ, Finset.sum_range_succ]

theorem swapgs_decomp {m n : Nat} {B : Nat → Nat → Int} {bs mu : Nat → Nat → ℚ} (h : IsGS m n B bs mu)
    {p : Nat} (hp : p + 1 < m) {i : Nat} (hi : i < m) {c : Nat} (hc : c < n) :
    ((B (if i = p then p + 1 else if i = p + 1 then p else i) c : ℤ) : ℚ)
      = swapgs_bs n bs mu p i c + ∑ j ∈ range i, swapgs_mu n bs mu p i j * swapgs_bs n bs mu p j c := by
  have hpm : p < m := by omega
  have hne : p + 1 ≠ p := by omega
  rcases Nat.lt_trichotomy i p with hlt | heq | hgt
  · -- rows above `p`
    have h1 : i ≠ p := by omega
    have h2 : i ≠ p + 1 := by omega
    rw [if_neg h1, if_neg h2, h.decomp i hi c hc]
    unfold swapgs_bs swapgs_mu
    rw [if_neg h1, if_neg h2]
    congr 1
    refine Finset.sum_congr rfl (fun j hj => ?_)
    have hj' := mem_range.mp hj
    have h3 : j ≠ p := by omega
    have h4 : j ≠ p + 1 := by omega
    simp only [if_neg h1, if_neg h2, if_neg h3, if_neg h4]
  · subst heq
    rw [if_pos rfl, h.decomp (i + 1) hp c hc, Finset.sum_range_succ]
    have e : ∑ j ∈ range i, swapgs_mu n bs mu i i j * swapgs_bs n bs mu i j c
        = ∑ j ∈ range i, mu (i + 1) j * bs j c := by
      refine Finset.sum_congr rfl (fun j hj => ?_)
      have hj' := mem_range.mp hj
      have h3 : j ≠ i := by omega
      have h4 : j ≠ i + 1 := by omega
      simp only [swapgs_bs, swapgs_mu, if_true, if_neg h3, if_neg h4]
    rw [e]
    simp only [swapgs_bs, if_true]
    ring
  · rcases Nat.lt_or_ge (p + 1) i with hgt2 | hle
    · -- rows below `k`
      have h1 : i ≠ p := by omega
      have h2 : i ≠ p + 1 := by omega
      rw [if_neg h1, if_neg h2, h.decomp i hi c hc]
      have ebs : swapgs_bs n bs mu p i c = bs i c := by
        simp only [swapgs_bs, if_neg h1, if_neg h2]
      rw [ebs]
      congr 1
      obtain ⟨t, rfl⟩ : ∃ t, i = (p + 1 + 1) + t := ⟨i - (p + 2), by omega⟩
      rw [swapgs_sum_split, swapgs_sum_split]
      have e1 : ∑ j ∈ range p, mu (p + 1 + 1 + t) j * bs j c
          = ∑ j ∈ range p, swapgs_mu n bs mu p (p + 1 + 1 + t) j * swapgs_bs n bs mu p j c := by
        refine Finset.sum_congr rfl (fun j hj => ?_)
        have hj' := mem_range.mp hj
        have h3 : j ≠ p := by omega
        have h4 : j ≠ p + 1 := by omega
        simp only [swapgs_bs, swapgs_mu, if_neg h1, if_neg h2, if_neg h3, if_neg h4]
      have e2 : ∑ x ∈ range t, mu (p + 1 + 1 + t) (p + 1 + 1 + x) * bs (p + 1 + 1 + x) c
          = ∑ x ∈ range t, swapgs_mu n bs mu p (p + 1 + 1 + t) (p + 1 + 1 + x)
              * swapgs_bs n bs mu p (p + 1 + 1 + x) c := by
        refine Finset.sum_congr rfl (fun x _ => ?_)
        have h3 : p + 1 + 1 + x ≠ p := by omega
        have h4 : p + 1 + 1 + x ≠ p + 1 := by omega
        simp only [swapgs_bs, swapgs_mu, if_neg h1, if_neg h2, if_neg h3, if_neg h4]
      rw [e1, e2]
      have hN := ne_of_gt (swapgs_N_pos h hp)
      have hN' : swapgs_N n bs mu p = nrm n bs (p + 1) + mu (p + 1) p ^ 2 * nrm n bs p := rfl
      have key : swapgs_mu n bs mu p (p + 1 + 1 + t) p * swapgs_bs n bs mu p p c
            + swapgs_mu n bs mu p (p + 1 + 1 + t) (p + 1) * swapgs_bs n bs mu p (p + 1) c
          = mu (p + 1 + 1 + t) p * bs p c + mu (p + 1 + 1 + t) (p + 1) * bs (p + 1) c := by
        simp only [swapgs_bs, swapgs_mu, if_neg h1, if_neg h2, if_neg hne, if_true, swapgs_nu]
        field_simp
        rw [hN']
        ring
      linear_combination -key
    · have hik : i = p + 1 := by omega
      subst hik
      rw [if_neg hne, if_pos rfl, h.decomp p hpm c hc, Finset.sum_range_succ]
      have e : ∑ j ∈ range p, swapgs_mu n bs mu p (p + 1) j * swapgs_bs n bs mu p j c
          = ∑ j ∈ range p, mu p j * bs j c := by
        refine Finset.sum_congr rfl (fun j hj => ?_)
        have hj' := mem_range.mp hj
        have h3 : j ≠ p := by omega
        have h4 : j ≠ p + 1 := by omega
        simp only [swapgs_bs, swapgs_mu, if_true, if_neg h3, if_neg h4, if_neg hne]
      rw [e]
      simp only [swapgs_bs, swapgs_mu, if_true, if_neg hne]
      ring

theorem swapgs_isGS {m n : Nat} {B : Nat → Nat → Int} {bs mu : Nat → Nat → ℚ} (h : IsGS m n B bs mu)
    {p : Nat} (hp : p + 1 < m) :
    IsGS m n (fun r c => B (if r = p then p + 1 else if r = p + 1 then p else r) c)
      (swapgs_bs n bs mu p) (swapgs_mu n bs mu p) := by
  refine ⟨fun i hi c hc => swapgs_decomp h hp hi hc, ?_, ?_⟩
  · intro i hi j hj
    exact swapgs_orth h hp hi (by omega) (by omega)
  · intro i hi
    have hpm : p < m := by omega
    have hN := swapgs_N_pos (mu := mu) h hp
    show 0 < nrm n (swapgs_bs n bs mu p) i
    by_cases h1 : i = p
    · subst h1; rw [swapgs_nrm_p h hp]; exact hN
    · by_cases h2 : i = p + 1
      · subst h2; rw [swapgs_nrm_k h hp]
        exact div_pos (mul_pos (h.nrm_pos hpm) (h.nrm_pos hp)) hN
      · rw [swapgs_nrm_other h hp hi h1 h2]; exact h.nrm_pos hi

theorem swapgs_gsP_le {m n : Nat} {B : Nat → Nat → Int} {bs mu : Nat → Nat → ℚ} (h : IsGS m n B bs mu)
    {p : Nat} (hp : p + 1 < m) {j : Nat} (hj : j ≤ p) : gsP n (swapgs_bs n bs mu p) j = gsP n bs j :=
  gsP_congr n _ _ j (fun l hl => swapgs_nrm_other h hp (by omega) (by omega) (by omega))

theorem swapgs_gsP_p1 {m n : Nat} {B : Nat → Nat → Int} {bs mu : Nat → Nat → ℚ} (h : IsGS m n B bs mu)
    {p : Nat} (hp : p + 1 < m) : gsP n (swapgs_bs n bs mu p) (p + 1) = gsP n bs p * swapgs_N n bs mu p := by
  rw [gsP_succ, swapgs_gsP_le h hp (le_refl p), swapgs_nrm_p h hp]

theorem swapgs_gsP_ge {m n : Nat} {B : Nat → Nat → Int} {bs mu : Nat → Nat → ℚ} (h : IsGS m n B bs mu)
    {p : Nat} (hp : p + 1 < m) : ∀ j, p + 2 ≤ j → j ≤ m → gsP n (swapgs_bs n bs mu p) j = gsP n bs j := by
  intro j
  induction j with
  | zero => intro h1; omega
  | succ j ih =>
    intro h1 h2
    rcases Nat.lt_or_ge j (p + 2) with hlt | hge
    · have hj : j = p + 1 := by omega
      subst hj
      have hN := ne_of_gt (swapgs_N_pos (mu := mu) h hp)
      rw [gsP_succ, swapgs_gsP_p1 h hp, swapgs_nrm_k h hp, gsP_succ, gsP_succ]
      field_simp
    · rw [gsP_succ, ih hge (by omega), swapgs_nrm_other h hp (by omega) (by omega) (by omega), gsP_succ]

theorem swapgs_det_exact {m n : Nat} {B : Nat → Nat → Int} {bs mu : Nat → Nat → ℚ} {det : Nat → Int}
    {lam : Nat → Nat → Int} (hD : IsGSData m n B bs mu det lam) {p : Nat} (hp : p + 1 < m)
    (d0 : Int) (hd0 : (d0 : ℚ) = gsP n bs p) :
    (((d0 * det (p + 1) + lam (p + 1) p * lam (p + 1) p).tdiv (det p) : ℤ) : ℚ)
      = gsP n (swapgs_bs n bs mu p) (p + 1) := by
  have hpm : p < m := by omega
  have hG := swapgs_isGS hD.gs hp
  obtain ⟨z, hz⟩ := hG.int_D (p + 1) (by omega)
  have e1 : (det p : ℚ) = gsP n bs p * nrm n bs p := by rw [hD.det_eq p hpm, gsP_succ]
  have e2 : (det (p + 1) : ℚ) = gsP n bs p * nrm n bs p * nrm n bs (p + 1) := by
    rw [hD.det_eq (p + 1) hp, gsP_succ, gsP_succ]
  have e3 : (lam (p + 1) p : ℚ) = gsP n bs p * nrm n bs p * mu (p + 1) p := by
    rw [hD.lam_eq (p + 1) hp p (by omega), gsP_succ]
  have hd1 : det p ≠ 0 := by
    intro e
    have := hD.gs.gsP_pos (p + 1) (by omega)
    rw [← hD.det_eq p hpm, e] at this
    simp at this
  rw [tdiv_of_cast_eq (z := z) hd1 ?_, hz]
  rw [hz, swapgs_gsP_p1 hD.gs hp]
  push_cast
  rw [e1, e2, e3, hd0]
  unfold swapgs_N
  ring

theorem swapgs_lamp_exact {m n : Nat} {B : Nat → Nat → Int} {bs mu : Nat → Nat → ℚ} {det : Nat → Int}
    {lam : Nat → Nat → Int} (hD : IsGSData m n B bs mu det lam) {p : Nat} (hp : p + 1 < m)
    (d0 : Int) (hd0 : (d0 : ℚ) = gsP n bs p) {i : Nat} (hi : i < m) (hpi : p + 1 < i) :
    (((lam (p + 1) p * lam i p + lam i (p + 1) * d0).tdiv (det p) : ℤ) : ℚ)
      = gsP n (swapgs_bs n bs mu p) (p + 1) * swapgs_mu n bs mu p i p := by
  have hpm : p < m := by omega
  have hG := swapgs_isGS hD.gs hp
  obtain ⟨z, hz⟩ := hG.int_L i hi p (by omega)
  have e1 : (det p : ℚ) = gsP n bs p * nrm n bs p := by rw [hD.det_eq p hpm, gsP_succ]
  have e3 : (lam (p + 1) p : ℚ) = gsP n bs p * nrm n bs p * mu (p + 1) p := by
    rw [hD.lam_eq (p + 1) hp p (by omega), gsP_succ]
  have e4 : (lam i p : ℚ) = gsP n bs p * nrm n bs p * mu i p := by
    rw [hD.lam_eq i hi p (by omega), gsP_succ]
  have e5 : (lam i (p + 1) : ℚ) = gsP n bs p * nrm n bs p * nrm n bs (p + 1) * mu i (p + 1) := by
    rw [hD.lam_eq i hi (p + 1) hpi, gsP_succ, gsP_succ]
  have hd1 : det p ≠ 0 := by
    intro e
    have := hD.gs.gsP_pos (p + 1) (by omega)
    rw [← hD.det_eq p hpm, e] at this
    simp at this
  have hN := ne_of_gt (swapgs_N_pos (mu := mu) hD.gs hp)
  rw [tdiv_of_cast_eq (z := z) hd1 ?_, hz]
  rw [hz, swapgs_gsP_p1 hD.gs hp]
  push_cast
  rw [e1, e3, e4, e5, hd0]
  have h1 : i ≠ p := by omega
  have h2 : i ≠ p + 1 := by omega
  simp only [swapgs_mu, if_neg h1, if_neg h2, if_true]
  field_simp
  ring

theorem swapgs_lamk_exact {m n : Nat} {B : Nat → Nat → Int} {bs mu : Nat → Nat → ℚ} {det : Nat → Int}
    {lam : Nat → Nat → Int} (hD : IsGSData m n B bs mu det lam) {p : Nat} (hp : p + 1 < m)
    {i : Nat} (hi : i < m) (hpi : p + 1 < i) :
    (((lam i p * det (p + 1) - lam i (p + 1) * lam (p + 1) p).tdiv (det p) : ℤ) : ℚ)
      = gsP n (swapgs_bs n bs mu p) (p + 1 + 1) * swapgs_mu n bs mu p i (p + 1) := by
  have hpm : p < m := by omega
  have hG := swapgs_isGS hD.gs hp
  obtain ⟨z, hz⟩ := hG.int_L i hi (p + 1) hpi
  have e1 : (det p : ℚ) = gsP n bs p * nrm n bs p := by rw [hD.det_eq p hpm, gsP_succ]
  have e2 : (det (p + 1) : ℚ) = gsP n bs p * nrm n bs p * nrm n bs (p + 1) := by
    rw [hD.det_eq (p + 1) hp, gsP_succ, gsP_succ]
  have e3 : (lam (p + 1) p : ℚ) = gsP n bs p * nrm n bs p * mu (p + 1) p := by
    rw [hD.lam_eq (p + 1) hp p (by omega), gsP_succ]
  have e4 : (lam i p : ℚ) = gsP n bs p * nrm n bs p * mu i p := by
    rw [hD.lam_eq i hi p (by omega), gsP_succ]
  have e5 : (lam i (p + 1) : ℚ) = gsP n bs p * nrm n bs p * nrm n bs (p + 1) * mu i (p + 1) := by
    rw [hD.lam_eq i hi (p + 1) hpi, gsP_succ, gsP_succ]
  have hd1 : det p ≠ 0 := by
    intro e
    have := hD.gs.gsP_pos (p + 1) (by omega)
    rw [← hD.det_eq p hpm, e] at this
    simp at this
  rw [tdiv_of_cast_eq (z := z) hd1 ?_, hz]
  rw [hz, swapgs_gsP_ge hD.gs hp (p + 1 + 1) (by omega) (by omega), gsP_succ, gsP_succ]
  push_cast
  rw [e1, e2, e3, e4, e5]
  have h1 : i ≠ p := by omega
  have h2 : i ≠ p + 1 := by omega
  have hne : p + 1 ≠ p := by omega
  simp only [swapgs_mu, if_neg h1, if_neg h2, if_neg hne, if_true]
  ring

/-- the pure form of the swap step on the integral Gram–Schmidt data -/
theorem swapgs_data {m n : Nat} {B : Nat → Nat → Int} {bs mu : Nat → Nat → ℚ} {det : Nat → Int}
    {lam : Nat → Nat → Int} (hD : IsGSData m n B bs mu det lam) {p : Nat} (hp : p + 1 < m)
    (d0 : Int) (hd0 : (d0 : ℚ) = gsP n bs p) (det' : Nat → Int) (lam' : Nat → Nat → Int)
    (hdet' : ∀ i < m, det' i =
      if i = p then (d0 * det (p + 1) + lam (p + 1) p * lam (p + 1) p).tdiv (det p) else det i)
    (hlam' : ∀ i < m, ∀ j < i, lam' i j =
      if p + 1 < i then
        (if j = p then (lam (p + 1) p * lam i p + lam i (p + 1) * d0).tdiv (det p)
         else if j = p + 1 then (lam i p * det (p + 1) - lam i (p + 1) * lam (p + 1) p).tdiv (det p)
         else lam i j)
      else if j < p then lam (if i = p then p + 1 else if i = p + 1 then p else i) j else lam i j) :
    IsGSData m n (fun r c => B (if r = p then p + 1 else if r = p + 1 then p else r) c)
      (swapgs_bs n bs mu p) (swapgs_mu n bs mu p) det' lam' := by
  have hpm : p < m := by omega
  have hne : p + 1 ≠ p := by omega
  refine ⟨swapgs_isGS hD.gs hp, ?_, ?_⟩
  · intro i hi
    rw [hdet' i hi]
    by_cases h1 : i = p
    · subst h1
      rw [if_pos rfl]
      exact swapgs_det_exact hD hp d0 hd0
    · rw [if_neg h1, hD.det_eq i hi]
      rcases Nat.lt_or_ge i p with hlt | hge
      · rw [swapgs_gsP_le hD.gs hp (by omega)]
      · rw [swapgs_gsP_ge hD.gs hp (i + 1) (by omega) (by omega)]
  · intro i hi j hj
    rw [hlam' i hi j hj]
    by_cases hik : p + 1 < i
    · rw [if_pos hik]
      have h1 : i ≠ p := by omega
      have h2 : i ≠ p + 1 := by omega
      by_cases hjp : j = p
      · subst hjp
        rw [if_pos rfl]
        exact swapgs_lamp_exact hD hp d0 hd0 hi hik
      · rw [if_neg hjp]
        by_cases hjk : j = p + 1
        · subst hjk
          rw [if_pos rfl]
          exact swapgs_lamk_exact hD hp hi hik
        · rw [if_neg hjk, hD.lam_eq i hi j hj]
          have emu : swapgs_mu n bs mu p i j = mu i j := by
            simp only [swapgs_mu, if_neg h1, if_neg h2, if_neg hjp, if_neg hjk]
          rw [emu]
          rcases Nat.lt_or_ge j p with hlt | hge
          · rw [swapgs_gsP_le hD.gs hp (by omega)]
          · rw [swapgs_gsP_ge hD.gs hp (j + 1) (by omega) (by omega)]
    · rw [if_neg hik]
      by_cases hjp : j < p
      · rw [if_pos hjp, swapgs_gsP_le hD.gs hp (by omega)]
        have h3 : j ≠ p := by omega
        have h4 : j ≠ p + 1 := by omega
        by_cases h1 : i = p
        · subst h1
          rw [if_pos rfl, hD.lam_eq (i + 1) hp j (by omega)]
          simp only [swapgs_mu, if_true]
        · rw [if_neg h1]
          by_cases h2 : i = p + 1
          · subst h2
            rw [if_pos rfl, hD.lam_eq p hpm j hjp]
            simp only [swapgs_mu, if_neg hne, if_neg h3, if_true]
          · rw [if_neg h2, hD.lam_eq i hi j hj]
            simp only [swapgs_mu, if_neg h1, if_neg h2, if_neg h3, if_neg h4]
      · rw [if_neg hjp]
        have hi' : i = p + 1 := by omega
        have hj' : j = p := by omega
        subst hi' hj'
        rw [hD.lam_eq (j + 1) hp j (by omega), swapgs_gsP_p1 hD.gs hp, gsP_succ]
        have hN := ne_of_gt (swapgs_N_pos (mu := mu) hD.gs hp)
        simp only [swapgs_mu, if_neg hne, if_true, swapgs_nu]
        field_simp

theorem swapgs_congrB {m n : Nat} {B B2 : Nat → Nat → Int} {bs mu : Nat → Nat → ℚ} {det : Nat → Int}
    {lam : Nat → Nat → Int} (hD : IsGSData m n B bs mu det lam) (hB : ∀ r < m, ∀ c < n, B2 r c = B r c) :
    IsGSData m n B2 bs mu det lam :=
  ⟨⟨fun i hi c hc => by rw [hB i hi c hc]; exact hD.gs.decomp i hi c hc, hD.gs.orth, hD.gs.pos⟩,
    hD.det_eq, hD.lam_eq⟩

theorem Data.swap_assert_ok {c : Bool} {u : Unit} (h : Res.assert c = ok u) : c = true := by
  cases c
  · simp [Res.assert] at h
  · rfl

theorem Data.swap_detAt {d : Data} {i : Nat} {v : Int} (h : detAt d i = ok v) :
    i < d.det.size ∧ v = d.det.getD i 0 := by
  unfold detAt at h
  by_cases hlt : i < d.det.size
  · rw [if_pos hlt] at h
    simp only [pure_eq, Res.ok.injEq] at h
    exact ⟨hlt, h.symm⟩
  · rw [if_neg hlt] at h
    cases h

theorem Data.swap_getD_set (a : Array Int) (p i : Nat) (v : Int) (hp : p < a.size) :
    (a.set! p v).getD i 0 = if i = p then v else a.getD i 0 := by
  rw [Array.getD_eq_getD_getElem?, Array.getD_eq_getD_getElem?, Array.set!, Array.getElem?_setIfInBounds]
  by_cases h : i = p
  · subst h
    simp [hp]
  · rw [if_neg h, if_neg (fun e : p = i => h e.symm)]

theorem Data.swap_book (d d' : Data) (k : Nat) (h : d.swap k = ok d') (hB : d.Book) : d'.Book := by
  unfold Data.swap at h
  simp only [bind_eq_ok] at h
  obtain ⟨_, hk, tr, h1, d0, hd0, d1, hd1, d2, hd2, _, hne, h⟩ := h
  have hk0 := Data.swap_assert_ok hk
  have hne' := Data.swap_assert_ok hne
  simp only [decide_eq_true_eq] at hk0
  simp only [bne_iff_ne, ne_eq] at hne'
  obtain ⟨p, rfl⟩ : ∃ p, k = p + 1 := ⟨k - 1, by omega⟩
  simp only [Nat.add_sub_cancel] at h h1 hd1
  unfold Tr.swapRows at h1
  rw [assert_bind] at h1
  obtain ⟨hc, h1⟩ := h1
  simp only [Bool.and_eq_true, decide_eq_true_eq] at hc
  obtain ⟨hpm, hkm⟩ := hc
  simp only [pure_eq, Res.ok.injEq] at h1 h
  subst h1
  subst h
  obtain ⟨hsz, bs, mu, hD⟩ := hB
  obtain ⟨hp1, hd1⟩ := Data.swap_detAt hd1
  obtain ⟨hp2, hd2⟩ := Data.swap_detAt hd2
  -- `d0 = d_p`
  have hd0q : (d0 : ℚ) = gsP d.tr.n bs p := by
    unfold detPrev at hd0
    by_cases h2 : p + 1 ≥ 2
    · rw [if_pos h2] at hd0
      obtain ⟨_, e⟩ := Data.swap_detAt hd0
      have := hD.det_eq (p + 1 - 2) (by omega)
      rw [show p + 1 - 2 + 1 = p by omega] at this
      rw [e]
      exact this
    · rw [if_neg h2] at hd0
      simp only [pure_eq, Res.ok.injEq] at hd0
      have hp0 : p = 0 := by omega
      subst hp0
      rw [← hd0, gsP_zero]
      simp
  -- `λ1` on the index range
  have hl1 : ∀ a < d.tr.m, ∀ b < d.tr.m,
      ent (mkMat d.tr.m d.tr.m fun a b =>
        if b < p then ent d.lam (if a = p then p + 1 else if a = p + 1 then p else a) b else ent d.lam a b) a b
      = if b < p then ent d.lam (if a = p then p + 1 else if a = p + 1 then p else a) b else ent d.lam a b :=
    fun a ha b hb => ent_mkMat _ ha hb
  have hlt1 : ¬ p < p := lt_irrefl p
  have hlt2 : ¬ p + 1 < p := by omega
  refine ⟨?_, swapgs_bs d.tr.n bs mu p, swapgs_mu d.tr.n bs mu p, ?_⟩
  · show (d.det.set! p _).size = d.tr.m
    rw [Array.set!, Array.size_setIfInBounds]
    exact hsz
  · refine swapgs_congrB (swapgs_data hD hkm d0 hd0q _ _ ?_ ?_) ?_
    · intro i _
      show (d.det.set! p _).getD i 0 = _
      rw [Data.swap_getD_set _ _ _ _ hp1, hl1 (p + 1) hkm p hpm, if_neg hlt1, hd1, hd2]
    · intro i hi j hj
      have hjm : j < d.tr.m := by omega
      show ent (mkMat d.tr.m d.tr.m _) i j = _
      rw [ent_mkMat _ hi hjm]
      rw [hl1 (p + 1) hkm p hpm, if_neg hlt1, hl1 i hi p hpm, if_neg hlt1, hl1 i hi (p + 1) hkm, if_neg hlt2,
        hl1 i hi j hjm, hd1, hd2]
      by_cases hik : p + 1 < i
      · rw [if_pos hik, if_pos hik]
        by_cases hjp : j = p
        · rw [if_pos hjp, if_pos hjp]
        · rw [if_neg hjp, if_neg hjp]
          by_cases hjk : j = p + 1
          · rw [if_pos hjk, if_pos hjk]
          · rw [if_neg hjk, if_neg hjk]
            have h3 : i ≠ p := by omega
            have h4 : i ≠ p + 1 := by omega
            rw [if_neg h3, if_neg h4]
            simp
      · rw [if_neg hik, if_neg hik]
    · intro r hr c hc
      show ent (mSwapRows d.tr.m d.tr.n d.tr.target p (p + 1)) r c = _
      rw [mSwapRows, ent_mkMat _ hr hc]

/-! ### the control flow of `LLLCalc` keeps the bookkeeping invariant -/

theorem Data.reduce_book (d d' : Data) (i k : Nat) (h : d.reduce i k = ok d') (hB : d.Book) : d'.Book := by
  unfold Data.reduce at h
  simp only [bind_eq_ok] at h
  obtain ⟨_, _, _, _, di, _, q, _, h⟩ := h
  split at h
  · exact Data.addRowTo_book d d' i k _ h hB
  · simp only [pure_eq, Res.ok.injEq] at h
    subst h
    exact hB

theorem Data.next_book (d : Data) (hB : d.Book) : d.next.Book := hB
theorem Data.back_book (d : Data) (hB : d.Book) : d.back.Book := by
  unfold Data.back; split
  · exact hB
  · exact hB

theorem revLoop_book (f : Data → Nat → Res Data) (hf : ∀ d d' i, f d i = ok d' → d.Book → d'.Book) :
    ∀ (n : Nat) (d d' : Data), revLoop f d n = ok d' → d.Book → d'.Book := by
  intro n
  induction n with
  | zero => intro d d' h hB; simp only [revLoop, pure_eq, Res.ok.injEq] at h; subst h; exact hB
  | succ i ih =>
    intro d d' h hB
    simp only [revLoop, bind_eq_ok] at h
    obtain ⟨d1, h1, h2⟩ := h
    exact ih d1 d' h2 (hf d d1 i h1 hB)

theorem lllIterate_book (d d' : Data) (h : lllIterate d = ok d') (hB : d.Book) : d'.Book := by
  unfold lllIterate at h
  simp only [bind_eq_ok] at h
  obtain ⟨d1, h1, b, _, h⟩ := h
  have r1 := Data.reduce_book d d1 _ _ h1 hB
  cases b with
  | true =>
    simp only [if_true, bind_eq_ok, pure_eq, Res.ok.injEq] at h
    obtain ⟨d2, h2, h⟩ := h
    subst h
    exact Data.next_book _ (revLoop_book _ (fun d d' i h => Data.reduce_book d d' i _ h) _ d1 d2 h2 r1)
  | false =>
    simp only [Bool.false_eq_true, if_false, bind_eq_ok, pure_eq, Res.ok.injEq] at h
    obtain ⟨d2, h2, h⟩ := h
    subst h
    exact Data.back_book _ (Data.swap_book d1 d2 _ h2 r1)

theorem loopWhile_book (it : Data → Res Data) (hit : ∀ d d', it d = ok d' → d.Book → d'.Book) :
    ∀ (fuel : Nat) (d d' : Data), loopWhile it fuel d = ok d' → d.Book → d'.Book := by
  intro fuel
  induction fuel with
  | zero =>
    intro d d' h hB
    simp only [loopWhile] at h
    split at h
    · cases h
    · simp only [pure_eq, Res.ok.injEq] at h; subst h; exact hB
  | succ f ih =>
    intro d d' h hB
    simp only [loopWhile] at h
    split at h
    · simp only [bind_eq_ok] at h
      obtain ⟨d1, h1, h2⟩ := h
      exact ih d1 d' h2 (hit d d1 h1 hB)
    · simp only [pure_eq, Res.ok.injEq] at h; subst h; exact hB

/-- the rows are linearly independent: they have a Gram–Schmidt decomposition with non-zero `b*_i` -/
def RowsIndep (m n : Nat) (B : Nat → Nat → Int) : Prop := ∃ bs mu : Nat → Nat → ℚ, IsGS m n B bs mu

/-- `setup()` on independent rows does not panic and establishes the invariant -/
theorem Data.setup_book (d : Data) (hm : 0 < d.tr.m) (hI : RowsIndep d.tr.m d.tr.n (ent d.tr.target)) :
    ∃ d', d.setup = ok d' ∧ d'.tr = d.tr ∧ d'.step = d.step ∧ d'.Book := by
  obtain ⟨bs, mu, hGS⟩ := hI
  obtain ⟨l, dd, h1, h2, h3⟩ := orthogonalize_spec' d.tr.m d.tr.n d.tr.target bs mu hm hGS
  refine ⟨{ d with lam := l, det := dd }, ?_, rfl, rfl, h2, bs, mu, h3⟩
  unfold Data.setup
  rw [h1]
  rfl

theorem Data.setup_book' (d d' : Data) (h : d.setup = ok d') (hI : RowsIndep d.tr.m d.tr.n (ent d.tr.target)) :
    d'.Book := by
  have hm : 0 < d.tr.m := by
    rcases Nat.eq_zero_or_pos d.tr.m with h0 | h0
    · exfalso
      unfold Data.setup orthogonalize at h
      rw [h0] at h
      simp [Res.assert] at h
    · exact h0
  obtain ⟨d1, h1, _, _, hB⟩ := Data.setup_book d hm hI
  rw [h1] at h
  injection h with h
  subst h
  exact hB

theorem RowsIndep.init {m n : Nat} {A : Mat} (h : RowsIndep m n (ent A)) :
    RowsIndep (Data.new m n A).tr.m (Data.new m n A).tr.n (ent (Data.new m n A).tr.target) := by
  obtain ⟨bs, mu, hGS⟩ := h
  refine ⟨bs, mu, hGS.congr ?_⟩
  intro a ha c hc
  show ent (mkMat m n (ent A)) a c = _
  rw [ent_mkMat _ ha hc]

theorem lll_book (fuel m n : Nat) (A : Mat) (d : Data) (hI : RowsIndep m n (ent A)) (h : lll fuel m n A = ok d) :
    d.Book := by
  unfold lll at h
  simp only [bind_eq_ok] at h
  obtain ⟨d0, h0, h⟩ := h
  exact loopWhile_book lllIterate lllIterate_book fuel d0 d h (Data.setup_book' _ d0 h0 hI.init)

/-! ### arbitrary runs of the `LLLData` primitives -/

/-- the state-changing methods of `LLLData` -/
inductive DOp where
  | reduce (i k : Nat)
  | add (i k : Nat) (r : Int)
  | swap (k : Nat)
  | mul (i : Nat) (u : Int)
  | next
  | back

def Data.applyOp (d : Data) : DOp → Res Data
  | .reduce i k => d.reduce i k
  | .add i k r => d.addRowTo i k r
  | .swap k => d.swap k
  | .mul i u => d.mulRow i u
  | .next => pure d.next
  | .back => pure d.back

def Data.runOps (d : Data) : List DOp → Res Data
  | [] => pure d
  | op :: ops => do let d' ← d.applyOp op; d'.runOps ops

theorem Data.applyOp_book (d d' : Data) (op : DOp) (h : d.applyOp op = ok d') (hB : d.Book) : d'.Book := by
  cases op with
  | reduce i k => exact Data.reduce_book d d' i k h hB
  | add i k r => exact Data.addRowTo_book d d' i k r h hB
  | swap k => exact Data.swap_book d d' k h hB
  | mul i u => exact Data.mulRow_book d d' i u h hB
  | next => simp only [Data.applyOp, pure_eq, Res.ok.injEq] at h; subst h; exact Data.next_book d hB
  | back => simp only [Data.applyOp, pure_eq, Res.ok.injEq] at h; subst h; exact Data.back_book d hB

theorem Data.runOps_book (ops : List DOp) : ∀ (d d' : Data), d.runOps ops = ok d' → d.Book → d'.Book := by
  induction ops with
  | nil => intro d d' h hB; simp only [Data.runOps, pure_eq, Res.ok.injEq] at h; subst h; exact hB
  | cons op ops ih =>
    intro d d' h hB
    simp only [Data.runOps] at h
    rw [bind_eq_ok] at h
    obtain ⟨d1, h1, h2⟩ := h
    exact ih d1 d' h2 (Data.applyOp_book d d1 op h1 hB)

/-! ### the data are determined by the rows; what `lovasz_ok` and `reduce` mean in terms of them -/

/-- the integral Gram–Schmidt data are uniquely determined by the rows -/
theorem IsGSData.unique {m n : Nat} {B : Nat → Nat → Int} {bs mu bs' mu' : Nat → Nat → ℚ}
    {det det' : Nat → Int} {lam lam' : Nat → Nat → Int}
    (h : IsGSData m n B bs mu det lam) (h' : IsGSData m n B bs' mu' det' lam') :
    (∀ i < m, det i = det' i) ∧ (∀ i < m, ∀ j < i, lam i j = lam' i j) := by
  have hu := IsGS.unique h.gs h'.gs
  have hn : ∀ j < m, nrm n bs j = nrm n bs' j := by
    intro j hj
    unfold nrm
    exact Finset.sum_congr rfl (fun c hc => by rw [(hu j hj).1 c (mem_range.mp hc)])
  have hP : ∀ k ≤ m, gsP n bs k = gsP n bs' k :=
    fun k hk => gsP_congr n bs bs' k (fun j hj => hn j (by omega))
  constructor
  · intro i hi
    have := (h.det_eq i hi).trans ((hP (i + 1) (by omega)).trans (h'.det_eq i hi).symm)
    exact_mod_cast this
  · intro i hi j hj
    have e1 := h.lam_eq i hi j hj
    have e2 := h'.lam_eq i hi j hj
    rw [hP (j + 1) (by omega), (hu i hi).2 j hj] at e1
    exact_mod_cast e1.trans e2.symm

theorem detPrev_ok {d : Data} {k : Nat} {v : Int} (_hk : 0 < k) (h : detPrev d k = ok v) :
    v = if k ≥ 2 then d.det.getD (k - 2) 0 else 1 := by
  by_cases hk2 : k ≥ 2
  · rw [detPrev, if_pos hk2] at h
    rw [if_pos hk2]
    exact (detAt_ok h).2
  · rw [detPrev, if_neg hk2] at h
    rw [if_neg hk2]
    have h' : ok (1 : Int) = ok v := h
    injection h' with h'
    exact h'.symm

/-- the value `d0` read by `swap`/`lovasz_ok` is `d_{k-1}` -/
theorem IsGSData.detPrev_eq {m n : Nat} {B : Nat → Nat → Int} {bs mu : Nat → Nat → ℚ}
    {det : Nat → Int} {lam : Nat → Nat → Int} (h : IsGSData m n B bs mu det lam) {k : Nat} (hk : 0 < k) (hkm : k < m) :
    (((if k ≥ 2 then det (k - 2) else 1 : Int)) : ℚ) = gsP n bs (k - 1) := by
  split
  · rw [h.det_eq (k - 2) (by omega)]
    congr 1
    omega
  · have : k - 1 = 0 := by omega
    rw [this, gsP_zero]
    rfl

/-- `lovasz_ok(k)` decides the Lovász condition `|b*_k|² ≥ (3/4 − μ_{k,k-1}²)·|b*_{k-1}|²` of the current rows -/
theorem Data.lovaszOk_book (d : Data) (k : Nat) (b : Bool) (h : d.lovaszOk k = ok b) (hsz : d.det.size = d.tr.m)
    (bs mu : Nat → Nat → ℚ)
    (hD : IsGSData d.tr.m d.tr.n (ent d.tr.target) bs mu (fun i => d.det.getD i 0) (ent d.lam)) :
    0 < k ∧ k < d.tr.m ∧
      (b = true ↔ ((3 : ℚ) / 4 - mu k (k - 1) ^ 2) * nrm d.tr.n bs (k - 1) ≤ nrm d.tr.n bs k) := by
  unfold Data.lovaszOk at h
  rw [assert_bind] at h
  obtain ⟨hk, h⟩ := h
  simp only [decide_eq_true_eq] at hk
  simp only [alphaZ, bind_eq_ok] at h
  obtain ⟨d0, h0, d1, h1, d2, h2, h⟩ := h
  simp only [pure_eq, Res.ok.injEq] at h
  obtain ⟨hk2, e2⟩ := detAt_ok h2
  obtain ⟨_, e1⟩ := detAt_ok h1
  have e0 := detPrev_ok hk h0
  rw [hsz] at hk2
  refine ⟨hk, hk2, ?_⟩
  have c0 : (d0 : ℚ) = gsP d.tr.n bs (k - 1) := by
    rw [e0]; exact hD.detPrev_eq (det := fun i => d.det.getD i 0) hk hk2
  have c1 : (d1 : ℚ) = gsP d.tr.n bs (k - 1) * nrm d.tr.n bs (k - 1) := by
    rw [e1, hD.det_eq (k - 1) (by omega), ← gsP_succ]
  have c2 : (d2 : ℚ) = gsP d.tr.n bs (k - 1) * nrm d.tr.n bs (k - 1) * nrm d.tr.n bs k := by
    rw [e2, hD.det_eq k hk2, gsP_succ]
    congr 1
    have : k = (k - 1) + 1 := by omega
    rw [this, gsP_succ]
    simp
  have cl : (ent d.lam k (k - 1) : ℚ) = gsP d.tr.n bs (k - 1) * nrm d.tr.n bs (k - 1) * mu k (k - 1) := by
    rw [hD.lam_eq k hk2 (k - 1) (by omega), ← gsP_succ]
  have hP : 0 < gsP d.tr.n bs (k - 1) := hD.gs.gsP_pos (k - 1) (by omega)
  have hN : 0 < nrm d.tr.n bs (k - 1) := hD.gs.nrm_pos (by omega)
  have hb : b = true ↔ (3 * (d1 * d1) ≤ 4 * (d0 * d2 + ent d.lam k (k - 1) * ent d.lam k (k - 1))) := by
    subst h; exact decide_eq_true_iff
  rw [hb]
  have cast : (3 * (d1 * d1) ≤ 4 * (d0 * d2 + ent d.lam k (k - 1) * ent d.lam k (k - 1))) ↔
      ((3 : ℚ) * ((d1 : ℚ) * d1) ≤ 4 * ((d0 : ℚ) * d2 + (ent d.lam k (k - 1) : ℚ) * (ent d.lam k (k - 1) : ℚ))) := by
    constructor
    · intro hh; exact_mod_cast hh
    · intro hh; exact_mod_cast hh
  rw [cast, c0, c1, c2, cl]
  generalize gsP d.tr.n bs (k - 1) = P at hP ⊢
  generalize nrm d.tr.n bs (k - 1) = a at hN ⊢
  generalize nrm d.tr.n bs k = c
  generalize mu k (k - 1) = t
  have key : 4 * (P * (P * a * c) + P * a * t * (P * a * t)) - 3 * (P * a * (P * a))
      = (4 * P ^ 2 * a) * (c - (3 / 4 - t ^ 2) * a) := by ring
  rw [← sub_nonneg, key, mul_nonneg_iff_of_pos_left (by positivity), sub_nonneg]

theorem Data.addRowTo_facts (d d' : Data) (i k : Nat) (r : Int) (h : d.addRowTo i k r = ok d') :
    i < k ∧ k < d.tr.m ∧ d'.det = d.det ∧ d'.tr.m = d.tr.m ∧ d'.tr.n = d.tr.n ∧
      ent d'.lam k i = ent d.lam k i + r * d.det.getD i 0 := by
  unfold Data.addRowTo at h
  simp only [bind_eq_ok] at h
  obtain ⟨tr, h1, di, h2, h⟩ := h
  simp only [pure_eq, Res.ok.injEq] at h
  subst h
  unfold Tr.addRowTo at h1
  rw [assert_bind] at h1
  obtain ⟨hik, h1⟩ := h1
  rw [assert_bind] at h1
  obtain ⟨hk, h1⟩ := h1
  simp only [decide_eq_true_eq] at hik hk
  simp only [pure_eq, Res.ok.injEq] at h1
  subst h1
  obtain ⟨_, hdi⟩ := detAt_ok h2
  subst hdi
  refine ⟨hik, hk, rfl, rfl, rfl, ?_⟩
  show ent (mkMat d.tr.m d.tr.m _) k i = _
  rw [ent_mkMat _ hk (lt_trans hik hk), if_pos rfl, if_pos rfl]

/-- size reduction: after `reduce(i, k)` the invariant holds again and `|μ_{k,i}| ≤ 1/2` for the new rows -/
theorem Data.reduce_size (d d' : Data) (i k : Nat) (h : d.reduce i k = ok d') (hB : d.Book) :
    ∃ bs mu : Nat → Nat → ℚ,
      IsGSData d'.tr.m d'.tr.n (ent d'.tr.target) bs mu (fun i => d'.det.getD i 0) (ent d'.lam) ∧
      |mu k i| ≤ 1 / 2 := by
  unfold Data.reduce at h
  rw [assert_bind] at h
  obtain ⟨hik, h⟩ := h
  rw [assert_bind] at h
  obtain ⟨hk, h⟩ := h
  simp only [decide_eq_true_eq] at hik hk
  simp only [bind_eq_ok] at h
  obtain ⟨di, h1, q, h2, h⟩ := h
  obtain ⟨_, hdi⟩ := detAt_ok h1
  obtain ⟨_, hq⟩ := divRound_spec' _ _ _ h2
  -- in both branches: `d'.Book`, `det` unchanged at `i`, `λ'_{k,i} = λ_{k,i} − q·d_i`
  have key : d'.Book ∧ d'.tr.m = d.tr.m ∧ d'.det.getD i 0 = di ∧ ent d'.lam k i = ent d.lam k i - q * di := by
    split at h
    · obtain ⟨_, _, e1, e2, _, e3⟩ := Data.addRowTo_facts d d' i k (-q) h
      refine ⟨Data.addRowTo_book d d' i k (-q) h hB, e2, by rw [e1, hdi], ?_⟩
      rw [e3, hdi]; ring
    · rename_i hq0
      have hq0' : q = 0 := by
        by_contra hne; exact hq0 hne
      simp only [pure_eq, Res.ok.injEq] at h
      subst h
      refine ⟨hB, rfl, hdi.symm, ?_⟩
      rw [hq0']; ring
  obtain ⟨⟨_, bs, mu, hD⟩, hm, e1, e2⟩ := key
  refine ⟨bs, mu, hD, ?_⟩
  have hk' : k < d'.tr.m := by rw [hm]; exact hk
  have hP : 0 < gsP d'.tr.n bs (i + 1) := hD.gs.gsP_pos (i + 1) (by omega)
  have c1 : (di : ℚ) = gsP d'.tr.n bs (i + 1) := by rw [← e1]; exact hD.det_eq i (by omega)
  have c2 : ((ent d.lam k i - q * di : ℤ) : ℚ) = gsP d'.tr.n bs (i + 1) * mu k i := by
    rw [← e2]; exact hD.lam_eq k hk' i hik
  have hz : 2 * |ent d.lam k i - q * di| ≤ |di| := by
    rw [Int.abs_eq_natAbs, Int.abs_eq_natAbs]; exact_mod_cast hq
  have hzq : 2 * |((ent d.lam k i - q * di : ℤ) : ℚ)| ≤ |(di : ℚ)| := by exact_mod_cast hz
  rw [c1, c2, abs_mul, abs_of_pos hP] at hzq
  have h3 : gsP d'.tr.n bs (i + 1) * (2 * |mu k i|) ≤ gsP d'.tr.n bs (i + 1) * 1 := by linarith
  have := le_of_mul_le_mul_left h3 hP
  linarith

end Yuiv.C10
