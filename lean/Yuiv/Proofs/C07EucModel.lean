import Yuiv.Model.C07Calc
import Yuiv.Model.C09
/-
C07 over an arbitrary operation record — the GENERIC version of the code model.

`Model/C07.lean`, `Model/C07Trans.lean`, `Model/C07Calc.lean` are hard-wired to `Int` (`C07.Mat` has an `Array Int`,
`isUnitZ`, `== 0`).  The Rust code is generic (`HomologyCalc<R: EucRing>`, `Trans<R>`, `SnfResult<R>`), so this file
repeats THE SAME code, line by line, over an operation record (`o : C09.ROps α` for the matrix arithmetic,
`e : C09.EOps α` where `is_unit` is needed):

    Mat            ↦ GMat α          (`get`, `ofFn`, `id`, `dot`, `mul`, `isZero`, `rows`, `cols`, `stack`, `concat`)
    Trans          ↦ GTrans α        (`id`, `append`, `new`, `mulMat`, `forwardMat`, `backwardMat`)
    Snf            ↦ GSnf α          (`rank`, `factors`)
    rowsR … concatR, processSnf, calcResult, calcTrans, calculate   ↦   the same names with a suffix `G`
    toC09, ofC09, ofSt, snfC09 (Proofs/C07Full.lean)                 ↦   `toC09G`, `ofC09G`, `ofStG`, `snfC09G`

`0`, `1`, `+`, `*` become `o.zero`, `o.one`, `o.add`, `o.mul`; `x == 0` becomes `o.isZero x` (`is_zero`);
`isUnitZ x` becomes `e.isUnit x` (`is_unit`).  `Proofs/C07EucTie.lean` proves that at `C09.intOps` this code
computes exactly what the `Int` model (the one the driver runs) computes.

Core Lean only (no Mathlib), so that the definitions can be compiled into a driver.
-/
namespace Yuiv.C07
open Yuiv

/-- dense `r × c` matrix, row-major, over any carrier -/
structure GMat (α : Type) where
  r : Nat
  c : Nat
  e : Array α
deriving Inhabited

namespace GMat
variable {α : Type} (o : C09.ROps α)

/-- entry `(i, j)`; `0` outside the shape -/
@[inline] def get (A : GMat α) (i j : Nat) : α :=
  if i < A.r ∧ j < A.c then A.e.getD (i * A.c + j) o.zero else o.zero

/-- build from an entry function -/
def ofFn (r c : Nat) (f : Nat → Nat → α) : GMat α :=
  ⟨r, c, Array.ofFn (n := r * c) fun k => f (k.val / c) (k.val % c)⟩

def id (n : Nat) : GMat α := ofFn n n fun i j => if i = j then o.one else o.zero

/-- `(A·B)[i,j]`, summing over the columns of `A` -/
def dot (A B : GMat α) (i j : Nat) : α :=
  (List.range A.c).foldl (fun s k => o.add s (o.mul (A.get o i k) (B.get o k j))) o.zero

def mul (A B : GMat α) : GMat α := ofFn A.r B.c fun i j => dot o A B i j

def isZero (A : GMat α) : Bool := A.e.all (fun x => o.isZero x)

/-- `submat_rows(lo..hi)` -/
def rows (A : GMat α) (lo hi : Nat) : GMat α := ofFn (hi - lo) A.c fun i j => A.get o (lo + i) j
/-- `submat_cols(lo..hi)` -/
def cols (A : GMat α) (lo hi : Nat) : GMat α := ofFn A.r (hi - lo) fun i j => A.get o i (lo + j)
/-- `a.stack(b)`: `a` on top of `b` -/
def stack (A B : GMat α) : GMat α :=
  ofFn (A.r + B.r) A.c fun i j => if i < A.r then A.get o i j else B.get o (i - A.r) j
/-- `a.concat(b)`: `a` left of `b` -/
def concat (A B : GMat α) : GMat α :=
  ofFn A.r (A.c + B.c) fun i j => if j < A.c then A.get o i j else B.get o i (j - A.c)

end GMat

/-! ### `Trans` -/

structure GTrans (α : Type) where
  src : Nat
  tgt : Nat
  f : List (GMat α)
  b : List (GMat α)
deriving Inhabited

namespace GTrans
variable {α : Type} (o : C09.ROps α)

/-- `Trans::id(n)` -/
def id (n : Nat) : GTrans α := ⟨n, n, [], []⟩

/-- `Trans::append(f, b)` -/
def append (t : GTrans α) (f b : GMat α) : Res (GTrans α) := do
  Res.assert (f.c == b.r)
  Res.assert (f.r == b.c)
  Res.assert (f.c == t.tgt)
  pure ⟨t.src, f.r, t.f ++ [f], t.b ++ [b]⟩

/-- `Trans::new(f, b)` -/
def new (f b : GMat α) : Res (GTrans α) := (id f.c).append f b

/-- `SpMat * SpMat` -/
def mulMat (a b : GMat α) : Res (GMat α) := do
  Res.assert (a.c == b.r)
  pure (GMat.mul o a b)

/-- `Trans::forward_mat()`: the single factor, or `id(tgt) · f_k · … · f_0` -/
def forwardMat (t : GTrans α) : Res (GMat α) :=
  match t.f with
  | [f] => pure f
  | fs => fs.reverse.foldlM (fun res f => mulMat o res f) (GMat.id o t.tgt)

/-- `Trans::backward_mat()`: the single factor, or `b_0 · … · b_k · id(tgt)` -/
def backwardMat (t : GTrans α) : Res (GMat α) :=
  match t.b with
  | [b] => pure b
  | bs => bs.reverse.foldlM (fun res b => mulMat o b res) (GMat.id o t.tgt)

end GTrans

/-! ### `SnfResult` -/

structure GSnf (α : Type) where
  result : GMat α
  p : Option (GMat α)
  pinv : Option (GMat α)
  q : Option (GMat α)
  qinv : Option (GMat α)
deriving Inhabited

variable {α : Type}

/-- `SnfResult::rank`: index of the first zero diagonal entry -/
def GSnf.rank (o : C09.ROps α) (s : GSnf α) : Nat :=
  let n := min s.result.r s.result.c
  ((List.range n).find? fun i => o.isZero (s.result.get o i i)).getD n

/-- `SnfResult::factors`: the non-zero diagonal entries -/
def GSnf.factors (o : C09.ROps α) (s : GSnf α) : List α :=
  (List.range (min s.result.r s.result.c)).filterMap fun i =>
    let a := s.result.get o i i
    if !o.isZero a then some a else none

abbrev GSnfFn (α : Type) := GMat α → SnfFlags → Res (GSnf α)

/-- `submat_rows(lo..hi)` with its range assertion -/
def rowsRG (o : C09.ROps α) (A : GMat α) (lo hi : Nat) : Res (GMat α) := do
  Res.assert (decide (lo ≤ hi ∧ hi ≤ A.r))
  pure (A.rows o lo hi)

/-- `submat_cols(lo..hi)` with its range assertion -/
def colsRG (o : C09.ROps α) (A : GMat α) (lo hi : Nat) : Res (GMat α) := do
  Res.assert (decide (lo ≤ hi ∧ hi ≤ A.c))
  pure (A.cols o lo hi)

/-- `a.stack(b)` (`combine_blocks` asserts equal column counts) -/
def stackRG (o : C09.ROps α) (A B : GMat α) : Res (GMat α) := do
  Res.assert (A.c == B.c)
  pure (A.stack o B)

/-- `a.concat(b)` (`combine_blocks` asserts equal row counts) -/
def concatRG (o : C09.ROps α) (A B : GMat α) : Res (GMat α) := do
  Res.assert (A.r == B.r)
  pure (A.concat o B)

/-- `HomologyCalc::process_snf` -/
def processSnfG (o : C09.ROps α) (snf : GSnfFn α) (d1 d2 : GMat α) (withTrans : Bool) :
    Res (GSnf α × GSnf α) := do
  let n := d1.r
  let s1 ← snf d1 (withTrans, true, false, false)
  let r1 := s1.rank o
  let d2dns ←
    if r1 > 0 then do
      let p1inv ← unwrap s1.pinv
      let t2 ← colsRG o p1inv r1 n
      GTrans.mulMat o d2 t2
    else pure d2
  let s2 ← snf d2dns (false, false, withTrans, withTrans)
  pure (s1, s2)

/-- `HomologyCalc::result` -/
def calcResultG (e : C09.EOps α) (s1 s2 : GSnf α) : Res (Nat × List α) := do
  let n := s1.result.r
  let (r1, r2) := (s1.rank e.toROps, s2.rank e.toROps)
  Res.assert (decide (n ≥ r1 + r2))
  pure (n - r1 - r2, (s1.factors e.toROps).filter fun a => !e.isUnit a)

/-- `HomologyCalc::trans` -/
def calcTransG (e : C09.EOps α) (s1 s2 : GSnf α) : Res (GTrans α) := do
  let o := e.toROps
  let n := s1.result.r
  let (r1, r2) := (s1.rank o, s2.rank o)
  let r ← (subR n r1) >>= (subR · r2)
  let t := ((s1.factors o).filter fun a => !e.isUnit a).length
  let p1 ← unwrap s1.p
  let p11 ← rowsRG o p1 r1 n
  let p2 ← unwrap s2.qinv
  let nr1 ← subR n r1
  let p22 ← rowsRG o p2 r2 nr1
  let pFree ← GTrans.mulMat o p22 p11
  let lo ← subR r1 t
  let pTor ← rowsRG o p1 lo r1
  let p ← stackRG o pFree pTor
  Res.assert (p.r == r + t && p.c == n)
  let q1 ← unwrap s1.pinv
  let q12 ← colsRG o q1 r1 n
  let q2 ← unwrap s2.q
  let q22 ← colsRG o q2 r2 nr1
  let qFree ← GTrans.mulMat o q12 q22
  let qTor ← colsRG o q1 lo r1
  let q ← concatRG o qFree qTor
  Res.assert (q.r == n && q.c == r + t)
  GTrans.new p q

/-- `HomologyCalc::calculate` -/
def calculateG (e : C09.EOps α) (snf : GSnfFn α) (d1 d2 : GMat α) (withTrans : Bool) :
    Res (Nat × List α × Option (GTrans α)) := do
  Res.assert (d1.r == d2.c)
  if d1.isZero e.toROps && d2.isZero e.toROps then
    -- trivial_result
    pure (d1.r, [], if withTrans then some (GTrans.id d1.r) else none)
  else do
    let (s1, s2) ← processSnfG e.toROps snf d1 d2 withTrans
    let (rank, tors) ← calcResultG e s1 s2
    if withTrans then do
      let t ← calcTransG e s1 s2
      pure (rank, tors, some t)
    else pure (rank, tors, none)

/-! ### the adapter to the C09 code model (generic version of `toC09 … snfC09` of Proofs/C07Full.lean) -/

/-- a C07 matrix as a C09 matrix of the same shape -/
def toC09G (o : C09.ROps α) (A : GMat α) : C09.Mat α A.r A.c := C09.Mat.ofFn fun i j => A.get o i.val j.val

/-- a C09 matrix as a C07 matrix -/
def ofC09G (o : C09.ROps α) {m n : Nat} (B : C09.Mat α m n) : GMat α :=
  GMat.ofFn m n fun i j => if h : i < m ∧ j < n then B.get ⟨i, h.1⟩ ⟨j, h.2⟩ else o.zero

/-- `SnfResult` from the final state of `SnfCalc`: the flags `[p, pinv, q, qinv]` select what is handed out -/
def ofStG (o : C09.ROps α) {m n : Nat} (s : C09.St α m n) (fl : SnfFlags) : GSnf α :=
  ⟨ofC09G o s.t,
   if fl.1 then some (ofC09G o s.p) else none,
   if fl.2.1 then some (ofC09G o s.pinv) else none,
   if fl.2.2.1 then some (ofC09G o s.q) else none,
   if fl.2.2.2 then some (ofC09G o s.qinv) else none⟩

/-- the library's SNF over the operation record `e` (code model of C09: debug build, identity preprocessing) as the
SNF routine of C07 -/
def snfC09G (e : C09.EOps α) (fuel : Nat) : GSnfFn α := fun A fl =>
  match C09.snfCalc e true (fun s => .ok s) fuel (toC09G e.toROps A) with
  | .ok s => .ok (ofStG e.toROps s fl)
  | .panic => .panic
  | .err => .err

/-! ### `Int` matrices of the driver's model as generic matrices -/

/-- the same data, as a generic matrix -/
def Mat.toG (A : Mat) : GMat Int := ⟨A.r, A.c, A.e⟩
def Trans.toG (t : Trans) : GTrans Int := ⟨t.src, t.tgt, t.f.map Mat.toG, t.b.map Mat.toG⟩
def Snf.toG (s : Snf) : GSnf Int :=
  ⟨s.result.toG, s.p.map Mat.toG, s.pinv.map Mat.toG, s.q.map Mat.toG, s.qinv.map Mat.toG⟩

/-- … and back -/
def GMat.toZ (A : GMat Int) : Mat := ⟨A.r, A.c, A.e⟩

end Yuiv.C07
