import Yuiv.Proofs.C01SqDefs
/-
C01Sq — the BRIDGE from the reference's mask-level edge maps to the name-indexed functionals of `C01SqDefs`.

  (1) `isEdge_merge`, `isEdge_split`, `exists_edge` : the descriptor read off the gone / born index arrays; every
      `edgeOK` edge has one.  Conversely (`gone_of_rel`) ANY descriptor of an edge determines the gone / born index
      arrays up to the order of the two gone (born) circles.
  (2) `edgeCoef_eq_ecoef`, `edgeCoef_big` : the coefficient `edgeCoef h t cs cs' m m'` of the reference equals
      `ecoef h t cs cs' e (val cs m) (val cs' m')` for ANY descriptor `e`; targets `m' ≥ 2^|cs'|` never occur.
  (3) `pathSum_eq_pathF`, `pathSum_big` : the same for a path of two edges (sum over the intermediate labellings).
  (4) `ecoef_*_swap`, `pathF_swap*` : the order of the two gone / born names in a descriptor is immaterial;
      `ecoef_congr` : `ecoef` reads `f` on the names of `cs` only.
-/
namespace Yuiv.C01Sq
open Yuiv Yuiv.KhRef Yuiv.C02Mirror

/-! ### the structure constants are (co)commutative -/

theorem prodCoef_comm (h t : Int) (x1 x2 y : Bool) : prodCoef h t x1 x2 y = prodCoef h t x2 x1 y := by
  cases x1 <;> cases x2 <;> rfl

theorem coprodCoef_comm (h t : Int) (x y1 y2 : Bool) : coprodCoef h t x y1 y2 = coprodCoef h t x y2 y1 := by
  cases x <;> cases y1 <;> cases y2 <;> simp [coprodCoef, coprod]

theorem ov_comm (f : Name → Bool) (b0 b1 : Name) (hne : b0 ≠ b1) (y1 y2 : Bool) :
    ov (ov f b0 y1) b1 y2 = ov (ov f b1 y2) b0 y1 := by
  funext c
  unfold ov
  by_cases h1 : c = b1
  · have : ¬ b1 = b0 := fun e => hne e.symm
    simp [h1, this]
  · simp [h1]

theorem ecoef_merge_swap (h t) (cs cs' : Circ) (g0 g1 b : Name) (f f' : Name → Bool) :
    ecoef h t cs cs' (.merge g0 g1 b) f f' = ecoef h t cs cs' (.merge g1 g0 b) f f' := by
  unfold ecoef loc
  simp only [prodCoef_comm h t (f g0) (f g1)]

theorem ecoef_split_swap (h t) (cs cs' : Circ) (g b0 b1 : Name) (f f' : Name → Bool) :
    ecoef h t cs cs' (.split g b0 b1) f f' = ecoef h t cs cs' (.split g b1 b0) f f' := by
  unfold ecoef loc
  simp only [coprodCoef_comm h t (f g) (f' b0) (f' b1)]

theorem pathF_swap2_merge (h t) (cs1 cs2 : Circ) (e1 : Edge) (g0 g1 b : Name) (f f'' : Name → Bool) :
    pathF h t cs1 cs2 e1 (.merge g0 g1 b) f f'' = pathF h t cs1 cs2 e1 (.merge g1 g0 b) f f'' := by
  have e : ∀ f, ecoef h t cs1 cs2 (.merge g0 g1 b) f f'' = ecoef h t cs1 cs2 (.merge g1 g0 b) f f'' :=
    fun f => ecoef_merge_swap h t cs1 cs2 g0 g1 b f f''
  cases e1 <;> simp only [pathF, e]

theorem pathF_swap2_split (h t) (cs1 cs2 : Circ) (e1 : Edge) (g b0 b1 : Name) (f f'' : Name → Bool) :
    pathF h t cs1 cs2 e1 (.split g b0 b1) f f'' = pathF h t cs1 cs2 e1 (.split g b1 b0) f f'' := by
  have e : ∀ f, ecoef h t cs1 cs2 (.split g b0 b1) f f'' = ecoef h t cs1 cs2 (.split g b1 b0) f f'' :=
    fun f => ecoef_split_swap h t cs1 cs2 g b0 b1 f f''
  cases e1 <;> simp only [pathF, e]

theorem pathF_swap1_merge (h t) (cs1 cs2 : Circ) (e2 : Edge) (g0 g1 b : Name) (f f'' : Name → Bool) :
    pathF h t cs1 cs2 (.merge g0 g1 b) e2 f f'' = pathF h t cs1 cs2 (.merge g1 g0 b) e2 f f'' := by
  simp only [pathF, prodCoef_comm h t (f g0) (f g1)]

theorem pathF_swap1_split (h t) (cs1 cs2 : Circ) (e2 : Edge) (g b0 b1 : Name) (hne : b0 ≠ b1) (f f'' : Name → Bool) :
    pathF h t cs1 cs2 (.split g b0 b1) e2 f f'' = pathF h t cs1 cs2 (.split g b1 b0) e2 f f'' := by
  simp only [pathF, List.flatMap_cons, List.flatMap_nil, List.map_cons, List.map_nil, List.append_nil,
    List.cons_append, List.nil_append, List.sum_cons, List.sum_nil]
  rw [ov_comm f b1 b0 (fun e => hne e.symm) true true, ov_comm f b1 b0 (fun e => hne e.symm) true false,
    ov_comm f b1 b0 (fun e => hne e.symm) false true, ov_comm f b1 b0 (fun e => hne e.symm) false false,
    coprodCoef_comm h t (f g) true false]
  omega

/-! ### `compatB`, `ecoef` read `f` on the names of `cs` only -/

theorem compatB_iff (cs cs' : Circ) (f f' : Name → Bool) :
    compatB cs cs' f f' = true ↔ ∀ c, c ∈ cs → c ∈ cs' → f' c = f c := by
  unfold compatB
  rw [Array.all_eq_true_iff_forall_mem]
  constructor
  · intro H c hc hc'
    have := H c hc
    simpa [hc'] using this
  · intro H c hc
    by_cases hc' : c ∈ cs'
    · simp [H c hc hc']
    · simp [hc']

theorem compatB_congr (cs cs' : Circ) (f g f' : Name → Bool) (hfg : ∀ c, c ∈ cs → f c = g c) :
    compatB cs cs' f f' = compatB cs cs' g f' := by
  rw [Bool.eq_iff_iff, compatB_iff, compatB_iff]
  constructor
  · intro H c hc hc'; rw [← hfg c hc]; exact H c hc hc'
  · intro H c hc hc'; rw [hfg c hc]; exact H c hc hc'

theorem ecoef_congr (h t) (cs cs' : Circ) (e : Edge) (he : IsEdge cs cs' e) (f g f' : Name → Bool)
    (hfg : ∀ c, c ∈ cs → f c = g c) : ecoef h t cs cs' e f f' = ecoef h t cs cs' e g f' := by
  unfold ecoef
  rw [compatB_congr cs cs' f g f' hfg]
  cases e with
  | merge g0 g1 b =>
    have R : MergeRel cs cs' g0 g1 b := he
    simp only [loc, hfg g0 R.m0, hfg g1 R.m1]
  | split g0 b0 b1 =>
    have R : MergeRel cs' cs b0 b1 g0 := he
    have hg : g0 ∈ cs := (R.mem g0).2 (Or.inl rfl)
    simp only [loc, hfg g0 hg]

/-! ### (1) edge descriptors and the gone / born index arrays -/

theorem MergeRel.swap {cs cs' : Circ} {g0 g1 b : Name} (R : MergeRel cs cs' g0 g1 b) : MergeRel cs cs' g1 g0 b :=
  ⟨R.m1, R.m0, fun e => R.ne e.symm, R.nb, fun c => by
    rw [R.mem c]
    constructor
    · rintro (h | ⟨h1, h2, h3⟩)
      · exact Or.inl h
      · exact Or.inr ⟨h1, h3, h2⟩
    · rintro (h | ⟨h1, h2, h3⟩)
      · exact Or.inl h
      · exact Or.inr ⟨h1, h3, h2⟩⟩

theorem MergeRel.b_mem {cs cs' : Circ} {g0 g1 b : Name} (R : MergeRel cs cs' g0 g1 b) : b ∈ cs' :=
  (R.mem b).2 (Or.inl rfl)

theorem MergeRel.g0_not {cs cs' : Circ} {g0 g1 b : Name} (R : MergeRel cs cs' g0 g1 b) : g0 ∉ cs' := by
  intro hc
  rcases (R.mem g0).1 hc with h | ⟨_, h, _⟩
  · exact R.nb (h ▸ R.m0)
  · exact h rfl

theorem MergeRel.g1_not {cs cs' : Circ} {g0 g1 b : Name} (R : MergeRel cs cs' g0 g1 b) : g1 ∉ cs' :=
  R.swap.g0_not

theorem mergeRel_of_gone {cs cs' : Circ} (hP : Pair cs cs') {g0 g1 b : Nat}
    (hG : goneOf cs cs' = #[g0, g1]) (hB : goneOf cs' cs = #[b]) : MergeRel cs cs' cs[g0]! cs[g1]! cs'[b]! := by
  have hg0 : g0 ∈ goneOf cs cs' := by rw [hG]; simp
  have hg1 : g1 ∈ goneOf cs cs' := by rw [hG]; simp
  have hb : b ∈ goneOf cs' cs := by rw [hB]; simp
  obtain ⟨l0, n0⟩ := (mem_goneOf cs cs' g0).1 hg0
  obtain ⟨l1, n1⟩ := (mem_goneOf cs cs' g1).1 hg1
  obtain ⟨lb, nb⟩ := (mem_goneOf cs' cs b).1 hb
  have hne : g0 ≠ g1 := by
    have := goneOf_nodup cs cs'
    rw [hG] at this
    simpa using this
  refine ⟨getElem!_mem cs g0 l0, getElem!_mem cs g1 l1, fun e => hne (idx_inj cs hP.nd g0 g1 l0 l1 e), nb, fun c => ?_⟩
  constructor
  · intro hc
    by_cases hcs : c ∈ cs
    · right
      refine ⟨hcs, ?_, ?_⟩
      · rintro rfl; exact n0 hc
      · rintro rfl; exact n1 hc
    · left
      obtain ⟨h1, h2⟩ := ix_spec cs' c hc
      have : ix cs' c ∈ goneOf cs' cs := (mem_goneOf cs' cs _).2 ⟨h1, by rw [h2]; exact hcs⟩
      rw [hB] at this
      have : ix cs' c = b := by simpa using this
      rw [← this, h2]
  · rintro (rfl | ⟨hcs, h0, h1⟩)
    · exact getElem!_mem cs' b lb
    · by_cases hc : c ∈ cs'
      · exact hc
      · exfalso
        obtain ⟨k1, k2⟩ := ix_spec cs c hcs
        have : ix cs c ∈ goneOf cs cs' := (mem_goneOf cs cs' _).2 ⟨k1, by rw [k2]; exact hc⟩
        rw [hG] at this
        have : ix cs c = g0 ∨ ix cs c = g1 := by simpa using this
        rcases this with e | e
        · exact h0 (by rw [← e, k2])
        · exact h1 (by rw [← e, k2])

theorem isEdge_merge {cs cs' : Circ} (hP : Pair cs cs') {g0 g1 b : Nat}
    (hG : goneOf cs cs' = #[g0, g1]) (hB : goneOf cs' cs = #[b]) :
    IsEdge cs cs' (.merge cs[g0]! cs[g1]! cs'[b]!) := mergeRel_of_gone hP hG hB

theorem isEdge_split {cs cs' : Circ} (hP : Pair cs cs') {g b0 b1 : Nat}
    (hG : goneOf cs cs' = #[g]) (hB : goneOf cs' cs = #[b0, b1]) :
    IsEdge cs cs' (.split cs[g]! cs'[b0]! cs'[b1]!) := mergeRel_of_gone hP.symm hB hG

theorem exists_edge {cs cs' : Circ} (hP : Pair cs cs') (hok : edgeOK cs cs' = true) : ∃ e, IsEdge cs cs' e := by
  unfold edgeOK at hok
  rw [Bool.or_eq_true, Bool.and_eq_true, Bool.and_eq_true, beq_iff_eq, beq_iff_eq, beq_iff_eq, beq_iff_eq] at hok
  rcases hok with ⟨sG, sB⟩ | ⟨sG, sB⟩
  · exact ⟨_, isEdge_merge hP (arr_two _ sG) (arr_one _ sB)⟩
  · exact ⟨_, isEdge_split hP (arr_one _ sG) (arr_two _ sB)⟩

/-- a duplicate-free list with exactly the two members `a ≠ b` -/
theorem list_two (l : List Nat) (a b : Nat) (hnd : l.Nodup) (hab : a ≠ b) (h : ∀ x, x ∈ l ↔ x = a ∨ x = b) :
    l = [a, b] ∨ l = [b, a] := by
  have ha := (h a).2 (Or.inl rfl)
  have hb := (h b).2 (Or.inr rfl)
  match l, hnd, h, ha, hb with
  | [], _, _, ha, _ => simp at ha
  | [x], _, _, ha, hb =>
    simp at ha hb; omega
  | [x, y], hnd, h, ha, hb =>
    have h1 := (h x).1 (by simp)
    have h2 := (h y).1 (by simp)
    simp at hnd ha hb
    have : (x = a ∧ y = b) ∨ (x = b ∧ y = a) := by omega
    rcases this with ⟨rfl, rfl⟩ | ⟨rfl, rfl⟩ <;> simp
  | x :: y :: z :: r, hnd, h, _, _ =>
    have h1 := (h x).1 (by simp)
    have h2 := (h y).1 (by simp)
    have h3 := (h z).1 (by simp)
    simp at hnd
    omega

theorem list_one (l : List Nat) (a : Nat) (hnd : l.Nodup) (h : ∀ x, x ∈ l ↔ x = a) : l = [a] := by
  have ha := (h a).2 rfl
  match l, hnd, h, ha with
  | [], _, _, ha => simp at ha
  | [x], _, h, _ =>
    have h1 := (h x).1 (by simp)
    rw [h1]
  | x :: y :: r, hnd, h, _ =>
    have h1 := (h x).1 (by simp)
    have h2 := (h y).1 (by simp)
    simp at hnd
    omega

/-- the gone / born index arrays of an edge with descriptor `merge g0 g1 b` -/
theorem gone_of_rel {cs cs' : Circ} (hP : Pair cs cs') {g0 g1 b : Name} (R : MergeRel cs cs' g0 g1 b) :
    (goneOf cs cs' = #[ix cs g0, ix cs g1] ∨ goneOf cs cs' = #[ix cs g1, ix cs g0]) ∧
      goneOf cs' cs = #[ix cs' b] := by
  obtain ⟨l0, e0⟩ := ix_spec cs g0 R.m0
  obtain ⟨l1, e1⟩ := ix_spec cs g1 R.m1
  obtain ⟨lb, eb⟩ := ix_spec cs' b R.b_mem
  have hne : ix cs g0 ≠ ix cs g1 := fun e => R.ne (ix_inj cs g0 g1 R.m0 R.m1 e)
  have hgone : ∀ i, i ∈ (goneOf cs cs').toList ↔ i = ix cs g0 ∨ i = ix cs g1 := by
    intro i
    rw [Array.mem_toList_iff, mem_goneOf]
    constructor
    · rintro ⟨hi, hn⟩
      have hmem := getElem!_mem cs i hi
      by_cases h0 : cs[i]! = g0
      · left; rw [← h0, ix_getElem cs hP.nd i hi]
      · by_cases h1 : cs[i]! = g1
        · right; rw [← h1, ix_getElem cs hP.nd i hi]
        · exact absurd ((R.mem _).2 (Or.inr ⟨hmem, h0, h1⟩)) hn
    · rintro (rfl | rfl)
      · exact ⟨l0, by rw [e0]; exact R.g0_not⟩
      · exact ⟨l1, by rw [e1]; exact R.g1_not⟩
  have hborn : ∀ j, j ∈ (goneOf cs' cs).toList ↔ j = ix cs' b := by
    intro j
    rw [Array.mem_toList_iff, mem_goneOf]
    constructor
    · rintro ⟨hj, hn⟩
      rcases (R.mem _).1 (getElem!_mem cs' j hj) with h | ⟨h, _, _⟩
      · rw [← h, ix_getElem cs' hP.nd' j hj]
      · exact absurd h hn
    · rintro rfl
      exact ⟨lb, by rw [eb]; exact R.nb⟩
  refine ⟨?_, ?_⟩
  · rcases list_two _ _ _ (goneOf_nodup cs cs') hne hgone with h | h
    · left; exact Array.toList_inj.mp (by rw [h])
    · right; exact Array.toList_inj.mp (by rw [h])
  · exact Array.toList_inj.mp (by rw [list_one _ _ (goneOf_nodup cs' cs) hborn])

/-! ### (2) one edge -/

theorem compat_iff {cs cs' : Circ} (hP : Pair cs cs') (m m' : Nat) :
    Compat cs cs' m m' ↔ compatB cs cs' (val cs m) (val cs' m') = true := by
  rw [compatB_iff]
  unfold Compat val
  constructor
  · intro H c hc hc'
    obtain ⟨k1, k2⟩ := ix_spec cs c hc
    have := H (ix cs c) k1 (by rw [k2]; exact hc')
    rwa [k2] at this
  · intro H i hi hc
    have := H cs[i]! (getElem!_mem cs i hi) hc
    rwa [ix_getElem cs hP.nd i hi] at this

theorem edgeCoef_merge_aux {cs cs' : Circ} (hP : Pair cs cs') (h t : Int) {g0 g1 b : Name}
    (hG : goneOf cs cs' = #[ix cs g0, ix cs g1]) (hB : goneOf cs' cs = #[ix cs' b]) (m m' : Nat)
    (hm' : m' < 2 ^ cs'.size) :
    edgeCoef h t cs cs' m m' = ecoef h t cs cs' (.merge g0 g1 b) (val cs m) (val cs' m') := by
  obtain ⟨ts, e, c1, c2⟩ := coef_merge hP h t m m' _ _ _ hm' hG hB
  unfold edgeCoef ecoef
  rw [e]
  show coefOf ts m' = _
  by_cases hC : Compat cs cs' m m'
  · rw [if_pos ((compat_iff hP m m').1 hC)]; exact c1 hC
  · rw [if_neg (fun h => hC ((compat_iff hP m m').2 h))]; exact c2 hC

theorem edgeCoef_split_aux {cs cs' : Circ} (hP : Pair cs cs') (h t : Int) {g b0 b1 : Name}
    (hG : goneOf cs cs' = #[ix cs g]) (hB : goneOf cs' cs = #[ix cs' b0, ix cs' b1]) (m m' : Nat)
    (hm' : m' < 2 ^ cs'.size) :
    edgeCoef h t cs cs' m m' = ecoef h t cs cs' (.split g b0 b1) (val cs m) (val cs' m') := by
  obtain ⟨ts, e, c1, c2⟩ := coef_split hP h t m m' _ _ _ hm' hG hB
  unfold edgeCoef ecoef
  rw [e]
  show coefOf ts m' = _
  by_cases hC : Compat cs cs' m m'
  · rw [if_pos ((compat_iff hP m m').1 hC)]; exact c1 hC
  · rw [if_neg (fun h => hC ((compat_iff hP m m').2 h))]; exact c2 hC

theorem edgeCoef_eq_ecoef {cs cs' : Circ} (hP : Pair cs cs') (h t : Int) (e : Edge) (he : IsEdge cs cs' e)
    (m m' : Nat) (hm' : m' < 2 ^ cs'.size) :
    edgeCoef h t cs cs' m m' = ecoef h t cs cs' e (val cs m) (val cs' m') := by
  cases e with
  | merge g0 g1 b =>
    have R : MergeRel cs cs' g0 g1 b := he
    obtain ⟨hG | hG, hB⟩ := gone_of_rel hP R
    · exact edgeCoef_merge_aux hP h t hG hB m m' hm'
    · rw [ecoef_merge_swap]; exact edgeCoef_merge_aux hP h t hG hB m m' hm'
  | split g b0 b1 =>
    have R : MergeRel cs' cs b0 b1 g := he
    obtain ⟨hB | hB, hG⟩ := gone_of_rel hP.symm R
    · exact edgeCoef_split_aux hP h t hG hB m m' hm'
    · rw [ecoef_split_swap]; exact edgeCoef_split_aux hP h t hG hB m m' hm'

/-! explicit term lists -/

theorem edgeTerms_merge (h t : Int) {cs cs' : Circ} (m : Nat) {g0 g1 b : Nat}
    (hG : goneOf cs cs' = #[g0, g1]) (hB : goneOf cs' cs = #[b]) :
    edgeTerms h t cs cs' m = some ((prod h t (m.testBit g0) (m.testBit g1)).filterMap
      (fun (ya : Bool × Int) => if ya.2 != 0 then some (setBit (carry cs cs' m) b ya.1, ya.2) else none)) := by
  obtain ⟨sG, eG0, eG1⟩ := two_of_eq hG
  obtain ⟨sB, eB0⟩ := one_of_eq hB
  unfold edgeTerms
  simp only [sG, sB, eG0, eG1, eB0, beq_self_eq_true, Bool.and_self, if_true]

theorem edgeTerms_split (h t : Int) {cs cs' : Circ} (m : Nat) {g b0 b1 : Nat}
    (hG : goneOf cs cs' = #[g]) (hB : goneOf cs' cs = #[b0, b1]) :
    edgeTerms h t cs cs' m = some ((coprod h t (m.testBit g)).filterMap
      (fun (ya : Bool × Bool × Int) => if ya.2.2 != 0 then
        some (setBit (setBit (carry cs cs' m) b0 ya.1) b1 ya.2.1, ya.2.2) else none)) := by
  obtain ⟨sG, eG0⟩ := one_of_eq hG
  obtain ⟨sB, eB0, eB1⟩ := two_of_eq hB
  unfold edgeTerms
  simp only [sG, sB, eG0, eB0, eB1]
  rfl

theorem carry_hi {cs cs' : Circ} (hP : Pair cs cs') (m j : Nat) (hj : cs'.size ≤ j) :
    (carry cs cs' m).testBit j = false :=
  carry_off hP m j (fun i _ hc => by have := (ix_spec cs' cs[i]! hc).1; omega)

/-- all target labellings of an edge map are labellings of `cs'` -/
theorem terms_lt {cs cs' : Circ} (hP : Pair cs cs') (h t : Int) (m : Nat) (ts : List (Nat × Int))
    (he : edgeTerms h t cs cs' m = some ts) : ∀ x ∈ ts, x.1 < 2 ^ cs'.size := by
  have hok : edgeOK cs cs' = true := by rw [← edgeTerms_isSome h t cs cs' m, he]; rfl
  have hM := (carry_spec cs cs' m hP.nd hP.le').1
  have h64 := hP.le'
  unfold edgeOK at hok
  rw [Bool.or_eq_true, Bool.and_eq_true, Bool.and_eq_true, beq_iff_eq, beq_iff_eq, beq_iff_eq, beq_iff_eq] at hok
  rcases hok with ⟨sG, sB⟩ | ⟨sG, sB⟩
  · have hb : (goneOf cs' cs)[0]! < cs'.size :=
      ((mem_goneOf cs' cs _).1 (getElem!_mem_nat _ _ (by omega))).1
    rw [edgeTerms_merge h t m (arr_two _ sG) (arr_one _ sB)] at he
    injection he with he
    subst he
    intro x hx
    rw [List.mem_filterMap] at hx
    obtain ⟨ya, _, hya⟩ := hx
    split at hya
    · injection hya with hya
      subst hya
      apply Nat.lt_pow_two_of_testBit
      intro j hj
      rw [testBit_setBit _ _ _ _ hM (by omega), if_neg (by omega)]
      exact carry_hi hP m j hj
    · cases hya
  · have hb0 : (goneOf cs' cs)[0]! < cs'.size :=
      ((mem_goneOf cs' cs _).1 (getElem!_mem_nat _ _ (by omega))).1
    have hb1 : (goneOf cs' cs)[1]! < cs'.size :=
      ((mem_goneOf cs' cs _).1 (getElem!_mem_nat _ _ (by omega))).1
    rw [edgeTerms_split h t m (arr_one _ sG) (arr_two _ sB)] at he
    injection he with he
    subst he
    intro x hx
    rw [List.mem_filterMap] at hx
    obtain ⟨ya, _, hya⟩ := hx
    split at hya
    · injection hya with hya
      subst hya
      apply Nat.lt_pow_two_of_testBit
      intro j hj
      rw [testBit_setBit _ _ _ _ (setBit_lt _ _ _ hM (by omega)) (by omega), if_neg (by omega),
        testBit_setBit _ _ _ _ hM (by omega), if_neg (by omega)]
      exact carry_hi hP m j hj
    · cases hya

theorem coefOf_zero (ts : List (Nat × Int)) (m' : Nat) (h : ∀ x ∈ ts, x.1 ≠ m') : coefOf ts m' = 0 := by
  unfold coefOf
  have : ts.filter (fun x => x.1 == m') = [] := by
    rw [List.filter_eq_nil_iff]
    intro x hx e
    rw [beq_iff_eq] at e
    exact h x hx e
  rw [this]; rfl

theorem edgeCoef_big {cs cs' : Circ} (hP : Pair cs cs') (h t : Int) (m m' : Nat) (hm' : 2 ^ cs'.size ≤ m') :
    edgeCoef h t cs cs' m m' = 0 := by
  unfold edgeCoef
  cases he : edgeTerms h t cs cs' m with
  | none => rfl
  | some ts =>
    show coefOf ts m' = 0
    apply coefOf_zero
    intro x hx e
    have := terms_lt hP h t m ts he x hx
    omega

/-! ### (3) a path of two edges -/

theorem pathSum_big {cs0 cs1 cs2 : Circ} (hP12 : Pair cs1 cs2) (h t : Int) (m m'' : Nat)
    (hm'' : 2 ^ cs2.size ≤ m'') : pathSum h t cs0 cs1 cs2 m m'' = 0 := by
  unfold pathSum
  generalize (edgeTerms h t cs0 cs1 m).getD [] = L
  induction L with
  | nil => rfl
  | cons x L ih =>
    rw [List.map_cons, List.sum_cons, ih, edgeCoef_big hP12 h t x.1 m'' hm'']
    simp

/-- rows with coefficient `0` may be kept -/
theorem sum_filterMap {α : Type} (L : List α) (f : α → Nat) (a : α → Int) (G : Nat → Int) :
    ((L.filterMap (fun x => if a x != 0 then some (f x, a x) else none)).map (fun mc => mc.2 * G mc.1)).sum
      = (L.map (fun x => a x * G (f x))).sum := by
  induction L with
  | nil => rfl
  | cons x L ih =>
    rw [List.filterMap_cons, List.map_cons, List.sum_cons]
    by_cases ha : a x = 0
    · have : (a x != 0) = false := by simp [ha]
      simp only [this, Bool.false_eq_true, if_false]
      rw [ih, ha]
      simp
    · have : (a x != 0) = true := by simp [ha]
      simp only [this, if_true, List.map_cons, List.sum_cons]
      rw [ih]

theorem prod_sum (h t : Int) (x0 x1 : Bool) (F : Bool → Int) :
    ((prod h t x0 x1).map (fun r => r.2 * F r.1)).sum
      = ([true, false].map (fun y => prodCoef h t x0 x1 y * F y)).sum := by
  cases x0 <;> cases x1 <;> simp [prod, prodCoef]

theorem coprod_sum (h t : Int) (x : Bool) (F : Bool → Bool → Int) :
    ((coprod h t x).map (fun r => r.2.2 * F r.1 r.2.1)).sum
      = ([true, false].flatMap (fun y1 => [true, false].map (fun y2 => coprodCoef h t x y1 y2 * F y1 y2))).sum := by
  cases x <;> simp [coprod, coprodCoef]

theorem val_setBit (cs1 : Circ) (h64 : cs1.size ≤ 64) (X : Nat) (hX : X < 2 ^ 64) (b : Name) (hb : b ∈ cs1)
    (y : Bool) (c : Name) (hc : c ∈ cs1) :
    val cs1 (setBit X (ix cs1 b) y) c = if c = b then y else val cs1 X c := by
  unfold val
  rw [testBit_setBit _ _ _ _ hX (by have := (ix_spec cs1 b hb).1; omega)]
  by_cases e : c = b
  · subst e; simp
  · have : ix cs1 c ≠ ix cs1 b := fun e' => e (ix_inj cs1 c b hc hb e')
    simp [e, this]

theorem val_carry {cs0 cs1 : Circ} (hP : Pair cs0 cs1) (m : Nat) (c : Name) (h0 : c ∈ cs0) (h1 : c ∈ cs1) :
    val cs1 (carry cs0 cs1 m) c = val cs0 m c := by
  obtain ⟨k1, k2⟩ := ix_spec cs0 c h0
  have := carry_at hP m (ix cs0 c) k1 (by rw [k2]; exact h1)
  rwa [k2] at this

theorem pathSum_merge_aux {cs0 cs1 cs2 : Circ} (hP01 : Pair cs0 cs1) (hP12 : Pair cs1 cs2) (h t : Int)
    {g0 g1 b : Name} (R : MergeRel cs0 cs1 g0 g1 b)
    (hG : goneOf cs0 cs1 = #[ix cs0 g0, ix cs0 g1]) (hB : goneOf cs1 cs0 = #[ix cs1 b])
    (e2 : Edge) (h2 : IsEdge cs1 cs2 e2) (m m'' : Nat) (hm'' : m'' < 2 ^ cs2.size) :
    pathSum h t cs0 cs1 cs2 m m'' = pathF h t cs1 cs2 (.merge g0 g1 b) e2 (val cs0 m) (val cs2 m'') := by
  have hM := (carry_spec cs0 cs1 m hP01.nd hP01.le').1
  have key : ∀ y, edgeCoef h t cs1 cs2 (setBit (carry cs0 cs1 m) (ix cs1 b) y) m''
      = ecoef h t cs1 cs2 e2 (ov (val cs0 m) b y) (val cs2 m'') := by
    intro y
    rw [edgeCoef_eq_ecoef hP12 h t e2 h2 _ _ hm'']
    apply ecoef_congr _ _ _ _ _ h2
    intro c hc
    rw [val_setBit cs1 hP01.le' _ hM b R.b_mem y c hc]
    unfold ov
    by_cases e : c = b
    · rw [if_pos e, if_pos e]
    · rw [if_neg e, if_neg e]
      have hc0 : c ∈ cs0 := by
        rcases (R.mem c).1 hc with h | ⟨h, _, _⟩
        · exact absurd h e
        · exact h
      exact val_carry hP01 m c hc0 hc
  unfold pathSum
  rw [edgeTerms_merge h t m hG hB, Option.getD_some]
  rw [sum_filterMap (prod h t (m.testBit (ix cs0 g0)) (m.testBit (ix cs0 g1)))
    (fun ya => setBit (carry cs0 cs1 m) (ix cs1 b) ya.1) (fun ya => ya.2)
    (fun m' => edgeCoef h t cs1 cs2 m' m'')]
  simp only [key]
  exact prod_sum h t _ _ (fun y => ecoef h t cs1 cs2 e2 (ov (val cs0 m) b y) (val cs2 m''))

theorem pathSum_split_aux {cs0 cs1 cs2 : Circ} (hP01 : Pair cs0 cs1) (hP12 : Pair cs1 cs2) (h t : Int)
    {g b0 b1 : Name} (R : MergeRel cs1 cs0 b0 b1 g)
    (hG : goneOf cs0 cs1 = #[ix cs0 g]) (hB : goneOf cs1 cs0 = #[ix cs1 b0, ix cs1 b1])
    (e2 : Edge) (h2 : IsEdge cs1 cs2 e2) (m m'' : Nat) (hm'' : m'' < 2 ^ cs2.size) :
    pathSum h t cs0 cs1 cs2 m m'' = pathF h t cs1 cs2 (.split g b0 b1) e2 (val cs0 m) (val cs2 m'') := by
  have hM := (carry_spec cs0 cs1 m hP01.nd hP01.le').1
  have h64 := hP01.le'
  have key : ∀ y1 y2, edgeCoef h t cs1 cs2 (setBit (setBit (carry cs0 cs1 m) (ix cs1 b0) y1) (ix cs1 b1) y2) m''
      = ecoef h t cs1 cs2 e2 (ov (ov (val cs0 m) b0 y1) b1 y2) (val cs2 m'') := by
    intro y1 y2
    rw [edgeCoef_eq_ecoef hP12 h t e2 h2 _ _ hm'']
    apply ecoef_congr _ _ _ _ _ h2
    intro c hc
    have hj0 := (ix_spec cs1 b0 R.m0).1
    rw [val_setBit cs1 h64 _ (setBit_lt _ _ _ hM (by omega)) b1 R.m1 y2 c hc,
      val_setBit cs1 h64 _ hM b0 R.m0 y1 c hc]
    unfold ov
    by_cases e1 : c = b1
    · rw [if_pos e1, if_pos e1]
    · rw [if_neg e1, if_neg e1]
      by_cases e0 : c = b0
      · rw [if_pos e0, if_pos e0]
      · rw [if_neg e0, if_neg e0]
        exact val_carry hP01 m c ((R.mem c).2 (Or.inr ⟨hc, e0, e1⟩)) hc
  unfold pathSum
  rw [edgeTerms_split h t m hG hB, Option.getD_some]
  rw [sum_filterMap (coprod h t (m.testBit (ix cs0 g)))
    (fun ya => setBit (setBit (carry cs0 cs1 m) (ix cs1 b0) ya.1) (ix cs1 b1) ya.2.1) (fun ya => ya.2.2)
    (fun m' => edgeCoef h t cs1 cs2 m' m'')]
  simp only [key]
  exact coprod_sum h t _ (fun y1 y2 => ecoef h t cs1 cs2 e2 (ov (ov (val cs0 m) b0 y1) b1 y2) (val cs2 m''))

theorem pathSum_eq_pathF {cs0 cs1 cs2 : Circ} (hP01 : Pair cs0 cs1) (hP12 : Pair cs1 cs2) (h t : Int)
    (e1 e2 : Edge) (h1 : IsEdge cs0 cs1 e1) (h2 : IsEdge cs1 cs2 e2) (m m'' : Nat) (hm'' : m'' < 2 ^ cs2.size) :
    pathSum h t cs0 cs1 cs2 m m'' = pathF h t cs1 cs2 e1 e2 (val cs0 m) (val cs2 m'') := by
  cases e1 with
  | merge g0 g1 b =>
    have R : MergeRel cs0 cs1 g0 g1 b := h1
    obtain ⟨hG | hG, hB⟩ := gone_of_rel hP01 R
    · exact pathSum_merge_aux hP01 hP12 h t R hG hB e2 h2 m m'' hm''
    · rw [pathF_swap1_merge]; exact pathSum_merge_aux hP01 hP12 h t R.swap hG hB e2 h2 m m'' hm''
  | split g b0 b1 =>
    have R : MergeRel cs1 cs0 b0 b1 g := h1
    obtain ⟨hB | hB, hG⟩ := gone_of_rel hP01.symm R
    · exact pathSum_split_aux hP01 hP12 h t R hG hB e2 h2 m m'' hm''
    · rw [pathF_swap1_split h t cs1 cs2 e2 g b0 b1 R.ne]
      exact pathSum_split_aux hP01 hP12 h t R.swap hG hB e2 h2 m m'' hm''

end Yuiv.C01Sq
