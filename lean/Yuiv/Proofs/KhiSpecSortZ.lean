import Yuiv.Proofs.C04InvSort
/-
KhiSpec (helper): core `Array.qsort` SORTS when the comparison is `key a < key b` for an INTEGER key — a copy of
`Proofs/KhSpecSort.lean` (natural-number keys) with `Nat` order lemmas replaced by `Int` ones; used for the quantum degrees.
-/
open private Array.qsort.sort from Init.Data.Array.QSort.Basic
open private Array.qpartition.loop from Init.Data.Array.QSort.Basic

namespace Yuiv.KhiSpec.SortZ

/-- `as'` agrees with `as` outside `[lo, hi]`; predicates true on the segment of `as` are true on the segment of `as'` -/
structure Frame {α : Type} {n : Nat} (as as' : Vector α n) (lo hi : Nat) : Prop where
  out : ∀ j (h : j < n), (j < lo ∨ hi < j) → as'[j] = as[j]
  seg : ∀ P : α → Prop, (∀ j (h : j < n), lo ≤ j → j ≤ hi → P as[j]) → ∀ j (h : j < n), lo ≤ j → j ≤ hi → P as'[j]

theorem Frame.refl {α : Type} {n : Nat} (as : Vector α n) (lo hi : Nat) : Frame as as lo hi :=
  ⟨fun _ _ _ => rfl, fun _ h => h⟩

theorem Frame.trans {α : Type} {n : Nat} {a b c : Vector α n} {lo hi : Nat}
    (h1 : Frame a b lo hi) (h2 : Frame b c lo hi) : Frame a c lo hi :=
  ⟨fun j h hj => (h2.out j h hj).trans (h1.out j h hj), fun P hP => h2.seg P (h1.seg P hP)⟩

theorem Frame.mono {α : Type} {n : Nat} {a b : Vector α n} {lo hi lo' hi' : Nat}
    (h1 : Frame a b lo' hi') (hlo : lo ≤ lo') (hhi : hi' ≤ hi) : Frame a b lo hi := by
  refine ⟨fun j h hj => h1.out j h (by omega), fun P hP j h hj1 hj2 => ?_⟩
  by_cases hc : lo' ≤ j ∧ j ≤ hi'
  · exact h1.seg P (fun j h a b => hP j h (by omega) (by omega)) j h hc.1 hc.2
  · rw [h1.out j h (by omega)]; exact hP j h hj1 hj2

theorem Frame.swap {α : Type} {n : Nat} (as : Vector α n) (lo hi i k : Nat) (hi' : i < n) (hk : k < n)
    (h1 : lo ≤ i) (h2 : i ≤ hi) (h3 : lo ≤ k) (h4 : k ≤ hi) : Frame as (as.swap i k hi' hk) lo hi := by
  refine ⟨fun j h hj => ?_, fun P hP j h hj1 hj2 => ?_⟩
  · rw [Vector.getElem_swap_of_ne (by omega) (by omega)]
  · rw [Vector.getElem_swap]
    split
    · exact hP k hk h3 h4
    · split
      · exact hP i hi' h1 h2
      · exact hP j h hj1 hj2

theorem Frame.ite_swap {α : Type} {n : Nat} (c : Prop) [Decidable c] (as : Vector α n) (lo hi i k : Nat)
    (hi' : i < n) (hk : k < n) (h1 : lo ≤ i) (h2 : i ≤ hi) (h3 : lo ≤ k) (h4 : k ≤ hi) :
    Frame as (if c then as.swap i k hi' hk else as) lo hi := by
  split
  · exact Frame.swap as lo hi i k hi' hk h1 h2 h3 h4
  · exact Frame.refl ..

section
variable {α : Type} (key : α → Int)

/-- the comparison of `qsort_sorted_key` -/
abbrev ltK : α → α → Bool := fun a b => decide (key a < key b)

theorem loop_spec {n : Nat} (lo hi : Nat) (hhi : hi < n) (pivot : α) (as : Vector α n) (i k : Nat)
    (ilo : lo ≤ i) (ik : i ≤ k) (w : k ≤ hi) :
    (∀ j (h : j < n), lo ≤ j → j < i → key as[j] < key pivot) →
    (∀ j (h : j < n), i ≤ j → j < k → key pivot ≤ key as[j]) →
    key as[hi] = key pivot →
    (∀ j (h : j < n), lo ≤ j → j < (Array.qpartition.loop (ltK key) lo hi hhi pivot as i k ilo ik w).1.val →
      key (Array.qpartition.loop (ltK key) lo hi hhi pivot as i k ilo ik w).2[j] < key pivot) ∧
    (∀ j (h : j < n), (Array.qpartition.loop (ltK key) lo hi hhi pivot as i k ilo ik w).1.val < j → j ≤ hi →
      key pivot ≤ key (Array.qpartition.loop (ltK key) lo hi hhi pivot as i k ilo ik w).2[j]) ∧
    (∀ (h : (Array.qpartition.loop (ltK key) lo hi hhi pivot as i k ilo ik w).1.val < n),
      key (Array.qpartition.loop (ltK key) lo hi hhi pivot as i k ilo ik w).2[
        (Array.qpartition.loop (ltK key) lo hi hhi pivot as i k ilo ik w).1.val] = key pivot) ∧
    Frame as (Array.qpartition.loop (ltK key) lo hi hhi pivot as i k ilo ik w).2 lo hi := by
  fun_induction Array.qpartition.loop (ltK key) lo hi hhi pivot as i k ilo ik w with
  | case1 as i k ilo ik w h hlt ih =>
    intro H1 H2 H3
    simp only [ltK, decide_eq_true_eq] at hlt
    have := ih ?_ ?_ ?_
    · obtain ⟨a, b, c, d⟩ := this
      exact ⟨a, b, c, (Frame.swap as lo hi i k (by omega) (by omega) ilo (by omega) (by omega) (by omega)).trans d⟩
    · intro j hj h1 h2
      rw [Vector.getElem_swap]
      split
      · exact hlt
      · split
        · omega
        · exact H1 j hj h1 (by omega)
    · intro j hj h1 h2
      rw [Vector.getElem_swap]
      split
      · omega
      · split
        · exact H2 i (by omega) (by omega) (by omega)
        · exact H2 j hj (by omega) (by omega)
    · rw [Vector.getElem_swap_of_ne (by omega) (by omega)]; exact H3
  | case2 as i k ilo ik w h hlt ih =>
    intro H1 H2 H3
    simp only [ltK, decide_eq_true_eq, Int.not_lt] at hlt
    apply ih H1 ?_ H3
    intro j hj h1 h2
    by_cases hjk : j = k
    · subst hjk; exact hlt
    · exact H2 j hj h1 (by omega)
  | case3 as i k ilo ik w h =>
    intro H1 H2 H3
    have hk : k = hi := by omega
    subst hk
    refine ⟨?_, ?_, ?_, Frame.swap as lo k i k (by omega) (by omega) ilo (by omega) (by omega) (by omega)⟩
    · intro j hj h1 h2
      dsimp only at h2
      rw [Vector.getElem_swap_of_ne (by omega) (by omega)]
      exact H1 j hj h1 h2
    · intro j hj h1 h2
      dsimp only at h1
      rw [Vector.getElem_swap]
      split
      · omega
      · split
        · exact H2 i (by omega) (by omega) (by omega)
        · exact H2 j hj (by omega) (by omega)
    · intro _
      dsimp only
      rw [Vector.getElem_swap_left]; exact H3

theorem loop_lt {n : Nat} (lo hi : Nat) (hhi : hi < n) (pivot : α) (as : Vector α n) (i k : Nat)
    (ilo : lo ≤ i) (ik : i ≤ k) (w : k ≤ hi) :
    (∃ j, ∃ h : j < n, i ≤ j ∧ j < hi ∧ key pivot ≤ key as[j]) →
    (Array.qpartition.loop (ltK key) lo hi hhi pivot as i k ilo ik w).1.val < hi := by
  fun_induction Array.qpartition.loop (ltK key) lo hi hhi pivot as i k ilo ik w with
  | case1 as i k ilo ik w h hlt ih =>
    rintro ⟨j, hj, h1, h2, h3⟩
    simp only [ltK, decide_eq_true_eq] at hlt
    apply ih
    have hjk : j ≠ k := by rintro rfl; omega
    by_cases hji : j = i
    · subst hji
      refine ⟨k, by omega, by omega, h, ?_⟩
      rw [Vector.getElem_swap_right]; exact h3
    · refine ⟨j, hj, by omega, h2, ?_⟩
      rw [Vector.getElem_swap_of_ne hji hjk]; exact h3
  | case2 as i k ilo ik w h hlt ih =>
    intro H
    exact ih H
  | case3 as i k ilo ik w h =>
    rintro ⟨j, hj, h1, h2, h3⟩
    dsimp only
    omega

theorem med3 {n : Nat} (as : Vector α n) (mid hi : Nat) (hm : mid < n) (hhi : hi < n) :
    key (if ltK key as[mid] as[hi] then as.swap mid hi else as)[hi] ≤
      key (if ltK key as[mid] as[hi] then as.swap mid hi else as)[mid] := by
  split
  · rename_i h
    simp only [ltK, decide_eq_true_eq] at h
    rw [Vector.getElem_swap_right, Vector.getElem_swap_left]; omega
  · rename_i h
    simp only [ltK, decide_eq_true_eq, Int.not_lt] at h
    exact h

/-- what `qpartition as lo hi` returns -/
structure PartSpec {n : Nat} (as : Vector α n) (lo hi : Nat) (m : Nat) (as' : Vector α n) : Prop where
  lt : ∀ (hm : m < n) j (h : j < n), lo ≤ j → j < m → key as'[j] < key as'[m]
  ge : ∀ (hm : m < n) j (h : j < n), m < j → j ≤ hi → key as'[m] ≤ key as'[j]
  mlt : lo < hi → m < hi
  frame : Frame as as' lo hi

theorem part_core {n : Nat} (as as3 : Vector α n) (lo hi : Nat) (w : lo ≤ hi) (hlo : lo < n) (hhi : hi < n)
    (hF : Frame as as3 lo hi) (hmid : key as3[hi] ≤ key as3[(lo + hi) / 2]) :
    PartSpec key as lo hi
      (Array.qpartition.loop (ltK key) lo hi hhi as3[hi] as3 lo lo (Nat.le_refl _) (Nat.le_refl _) w).1.val
      (Array.qpartition.loop (ltK key) lo hi hhi as3[hi] as3 lo lo (Nat.le_refl _) (Nat.le_refl _) w).2 := by
  obtain ⟨a, b, c, d⟩ := loop_spec key lo hi hhi as3[hi] as3 lo lo (Nat.le_refl _) (Nat.le_refl _) w
    (fun j h h1 h2 => by omega) (fun j h h1 h2 => by omega) rfl
  refine ⟨?_, ?_, ?_, hF.trans d⟩
  · intro hm j h h1 h2
    rw [c hm]; exact a j h h1 h2
  · intro hm j h h1 h2
    rw [c hm]; exact b j h h1 h2
  · intro hlt
    apply loop_lt
    exact ⟨(lo + hi) / 2, by omega, by omega, by omega, hmid⟩

theorem qpartition_spec {n : Nat} (as : Vector α n) (lo hi : Nat) (w : lo ≤ hi) (hlo : lo < n) (hhi : hi < n) :
    PartSpec key as lo hi (Array.qpartition as (ltK key) lo hi w hlo hhi).1.val
      (Array.qpartition as (ltK key) lo hi w hlo hhi).2 := by
  unfold Array.qpartition
  dsimp only
  apply part_core
  · refine Frame.trans ?_ (Frame.ite_swap _ _ _ _ _ _ _ _ ?_ ?_ ?_ ?_)
    refine Frame.trans ?_ (Frame.ite_swap _ _ _ _ _ _ _ _ ?_ ?_ ?_ ?_)
    refine Frame.ite_swap _ _ _ _ _ _ _ _ ?_ ?_ ?_ ?_
    all_goals omega
  · exact med3 ..
  · exact hlo

theorem sort_spec {n : Nat} (as : Vector α n) (lo hi : Nat) (w : lo ≤ hi) (hlo : lo < n) (hhi : hi < n) :
    (∀ i j (hi' : i < n) (hj : j < n), lo ≤ i → i ≤ j → j ≤ hi →
      key (Array.qsort.sort (ltK key) as lo hi w hlo hhi)[i] ≤ key (Array.qsort.sort (ltK key) as lo hi w hlo hhi)[j]) ∧
    Frame as (Array.qsort.sort (ltK key) as lo hi w hlo hhi) lo hi := by
  fun_induction Array.qsort.sort (ltK key) as lo hi w hlo hhi with
  | case1 as lo hi w hlo hhi h1 mid hmid as' hx h2 =>
    have hp := qpartition_spec key as lo hi w hlo hhi
    rw [hx] at hp
    have := hp.mlt h1
    dsimp only at this
    omega
  | case2 as lo hi w hlo hhi h1 mid hmid as' hx h2 ih3 ih2 ih1 =>
    have hp := qpartition_spec key as lo hi w hlo hhi
    rw [hx] at hp
    dsimp only at hp
    clear ih3
    obtain ⟨s2, f2⟩ := ih2
    obtain ⟨s1, f1⟩ := ih1
    generalize Array.qsort.sort (ltK key) as' lo mid _ _ _ = as2 at s2 f2 s1 f1 ⊢
    generalize Array.qsort.sort (ltK key) as2 (mid + 1) hi _ _ _ = as3 at s1 f1 ⊢
    have hmn : mid < n := by omega
    refine ⟨?_, (hp.frame.trans (f2.mono (Nat.le_refl _) (by omega))).trans (f1.mono (by omega) (Nat.le_refl _))⟩
    -- everything in `[lo, mid]` of `as2` is `≤ pv`, everything in `[mid+1, hi]` of `as3` is `≥ pv`
    have hle2 : ∀ j (h : j < n), lo ≤ j → j ≤ mid → key as2[j] ≤ key as'[mid] := by
      apply f2.seg (fun x => key x ≤ key as'[mid])
      intro j h a b
      by_cases hjm : j = mid
      · subst hjm; exact Int.le_refl _
      · exact Int.le_of_lt (hp.lt hmn j h a (by omega))
    have hge3 : ∀ j (h : j < n), mid + 1 ≤ j → j ≤ hi → key as'[mid] ≤ key as3[j] := by
      apply f1.seg (fun x => key as'[mid] ≤ key x)
      intro j h a b
      rw [f2.out j h (by omega)]
      exact hp.ge hmn j h (by omega) b
    intro i j hi' hj a b c
    by_cases hjm : j ≤ mid
    · rw [f1.out i hi' (by omega), f1.out j hj (by omega)]
      exact s2 i j hi' hj a b hjm
    · by_cases him : mid + 1 ≤ i
      · exact s1 i j hi' hj him b c
      · rw [f1.out i hi' (by omega)]
        exact Int.le_trans (hle2 i hi' a (by omega)) (hge3 j hj (by omega) c)
  | case3 as lo hi w hlo hhi h1 =>
    refine ⟨?_, Frame.refl ..⟩
    intro i j hi' hj a b c
    have : i = j := by omega
    subst this; exact Int.le_refl _

end

/-- GOAL 1: `Array.qsort` with the comparison `key a < key b` returns an array with non-decreasing keys -/
theorem qsort_sorted_key {α : Type} (key : α → Int) (as : Array α) :
    ((as.qsort (fun a b => decide (key a < key b))).toList).Pairwise (fun a b => key a ≤ key b) := by
  unfold Array.qsort
  split
  · rename_i h
    have : as = #[] := Array.eq_empty_of_size_eq_zero h
    subst this; simp
  · rename_i h
    dsimp only
    rw [List.pairwise_iff_getElem]
    intro i j hi hj hij
    simp only [Array.length_toList, Vector.size_toArray] at hi hj
    simp only [Array.getElem_toList, Vector.getElem_toArray]
    exact (sort_spec key as.toVector _ _ _ _ _).1 i j hi hj (by omega) (by omega) (by omega)


end Yuiv.KhiSpec.SortZ
