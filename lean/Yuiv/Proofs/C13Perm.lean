import Yuiv.Proofs.C13
import Mathlib.Data.List.Perm.Basic
import Mathlib.Data.List.Nodup
/-
C13 — part 6: `util::perm_for_indices`.
-/
namespace Yuiv.C13
open Yuiv Res

set_option linter.unusedSectionVars false
set_option linter.unusedSimpArgs false
set_option linter.unusedVariables false

theorem fillInv_spec (l : List Nat) (inv : List Nat) (i : Nat) (hnd : l.Nodup) (hb : ∀ j ∈ l, j < inv.length) :
    ∃ inv', fillInv inv i l = ok inv' ∧ inv'.length = inv.length ∧
      (∀ pos (h : pos < l.length), inv'[l[pos]]? = some (i + pos)) ∧
      (∀ j, j ∉ l → inv'[j]? = inv[j]?) := by
  induction l generalizing inv i with
  | nil => exact ⟨inv, rfl, rfl, fun pos h => absurd h (by simp), fun _ _ => rfl⟩
  | cons j rest ih =>
    have hj : j < inv.length := hb j (by simp)
    have hnd' := List.nodup_cons.mp hnd
    obtain ⟨inv', h1, h2, h3, h4⟩ := ih (inv.set j i) (i + 1) hnd'.2
      (fun k hk => by rw [List.length_set]; exact hb k (by simp [hk]))
    refine ⟨inv', ?_, by rw [h2, List.length_set], ?_, ?_⟩
    · rw [fillInv, setIdx, if_pos hj]; exact h1
    · intro pos hpos
      cases pos with
      | zero =>
        simp only [List.getElem_cons_zero, Nat.add_zero]
        rw [h4 j hnd'.1, List.getElem?_set_self hj]
      | succ pos =>
        simp only [List.getElem_cons_succ]
        rw [h3 pos (by simpa using hpos)]
        congr 1; omega
    · intro k hk
      simp only [List.mem_cons, not_or] at hk
      rw [h4 k hk.2, List.getElem?_set_ne (fun e => hk.1 e.symm)]

theorem vec_perm_range (n : Nat) (indices : List Nat) (hnd : indices.Nodup) (hb : ∀ i ∈ indices, i < n) :
    (indices ++ (List.range n).filter (fun i => !indices.contains i)).Perm (List.range n) := by
  have h1 : ((List.range n).filter (fun i => indices.contains i)).Perm indices := by
    apply (List.perm_ext_iff_of_nodup ((List.nodup_range).filter _) hnd).mpr
    intro a
    simp only [List.mem_filter, List.mem_range, List.contains_iff_mem]
    constructor
    · intro h; exact h.2
    · intro h; exact ⟨hb a h, h⟩
  have h2 := List.filter_append_perm (fun i => indices.contains i) (List.range n)
  exact (List.Perm.append_right _ h1.symm).trans h2

/-- `perm_for_indices(n, indices)` for distinct indices below `n`: a valid permutation of `0..n` that sends the
`k`-th listed index to `k` and the remaining indices, in ascending order, to the positions after them -/
theorem permForIndices_spec (n : Nat) (indices : List Nat) (hnd : indices.Nodup) (hb : ∀ i ∈ indices, i < n) :
    ∃ p, permForIndices n indices = ok p ∧ p.Valid ∧ p.dim = n ∧
      ∀ pos (h : pos < (indices ++ (List.range n).filter (fun i => !indices.contains i)).length),
        p.fn ((indices ++ (List.range n).filter (fun i => !indices.contains i))[pos]) = pos := by
  unfold permForIndices
  rw [assert_true' (by rw [List.all_eq_true]; intro i hi; simpa using hb i hi)]
  simp only [bind_ok]
  generalize hvec : indices ++ (List.range n).filter (fun i => !indices.contains i) = vec
  have hperm : vec.Perm (List.range n) := hvec ▸ vec_perm_range n indices hnd hb
  have hlen : vec.length = n := by rw [hperm.length_eq, List.length_range]
  have hvnd : vec.Nodup := hperm.nodup_iff.mpr List.nodup_range
  have hvb : ∀ j ∈ vec, j < n := fun j hj => List.mem_range.mp (hperm.mem_iff.mp hj)
  obtain ⟨inv, h1, h2, h3, _⟩ := fillInv_spec vec (List.replicate n 0) 0 hvnd (by simpa using hvb)
  rw [h1]
  simp only [bind_ok]
  rw [List.length_replicate] at h2
  -- every index below n sits at some position of vec
  have hpos : ∀ j, j < n → ∃ pos, ∃ h : pos < vec.length, vec[pos] = j ∧ inv[j]? = some pos := by
    intro j hj
    have : j ∈ vec := hperm.mem_iff.mpr (List.mem_range.mpr hj)
    obtain ⟨pos, hp, e⟩ := List.getElem_of_mem this
    refine ⟨pos, hp, e, ?_⟩
    have := h3 pos hp
    rw [e, Nat.zero_add] at this
    exact this
  have hvals : ∀ x ∈ inv, x < inv.length := by
    intro x hx
    obtain ⟨j, hj, e⟩ := List.getElem_of_mem hx
    obtain ⟨pos, hp, _, e2⟩ := hpos j (by omega)
    rw [List.getElem?_eq_getElem hj, e] at e2
    cases e2; omega
  have hinvnd : inv.Nodup := by
    rw [List.nodup_iff_getElem?_ne_getElem?]
    intro i j hij hj
    obtain ⟨p1, hp1, e1, g1⟩ := hpos i (by omega)
    obtain ⟨p2, hp2, e2, g2⟩ := hpos j (by omega)
    rw [g1, g2]
    intro e
    cases e
    rw [e1] at e2
    omega
  obtain ⟨k1, k2⟩ := Perm.new_ok inv hvals hinvnd
  refine ⟨_, k1, k2, h2, ?_⟩
  intro pos hp
  obtain ⟨p', hp', e', g'⟩ := hpos vec[pos] (hvb _ (List.getElem_mem hp))
  have : p' = pos := (List.Nodup.getElem_inj_iff hvnd).mp e'
  subst this
  unfold Perm.fn
  simp only [List.getD_eq_getElem?_getD, g', Option.getD_some]

/-- the `k`-th listed index is placed at position `k` -/
theorem permForIndices_listed (n : Nat) (indices : List Nat) (hnd : indices.Nodup) (hb : ∀ i ∈ indices, i < n) :
    ∃ p, permForIndices n indices = ok p ∧ p.Valid ∧ p.dim = n ∧
      ∀ k (h : k < indices.length), p.fn indices[k] = k := by
  obtain ⟨p, h1, h2, h3, h4⟩ := permForIndices_spec n indices hnd hb
  refine ⟨p, h1, h2, h3, ?_⟩
  intro k hk
  have := h4 k (by rw [List.length_append]; omega)
  rw [List.getElem_append_left hk] at this
  exact this

theorem permForIndices_reject (n : Nat) (indices : List Nat) (h : ∃ i ∈ indices, ¬ i < n) :
    permForIndices n indices = panic := by
  unfold permForIndices
  rw [assert_false' (by
    rw [List.all_eq_false]
    obtain ⟨i, hi, hlt⟩ := h
    exact ⟨i, hi, by simpa using hlt⟩)]
  rfl

end Yuiv.C13
