import Yuiv.Proofs.C09EucGauss
import Mathlib.Algebra.QuadraticAlgebra.Basic
/-
C09 — the Eisenstein integers ℤ[ω] as an instance of `LawfulEuc`.

`eisOps : EOps (ℤ × ℤ)` follows `yui/src/types/qint.rs` (`QuadInt<I, -3>`, `ω = (1 + √−3)/2`, `ω² = ω − 1`):
 * product `(a + bω)(c + dω) = (ac − bd) + (ad + bc + bd)ω`, `conj(a + bω) = (a + b) − bω`, `N = a² + ab + b²`;
 * `/` = `div_round`: with `z·conj(w) = x + yω`, `(m, n) = ([(x + y)/N], [y/N])` (integer `div_round` of
   `int_ext.rs`, shared with the Gaussian file) and the result is `(m − n) + nω`;  `%` = `z − w·(z / w)`;
 * `normalizing_unit`: the sextant table (rotates `z` into `re > 0, im ≥ 0`);  `is_unit`/`inv` through the norm;
 * `gcdx`: the generic `EucRing::gcdx` (`genGcdx`);  `size` = norm.
`K = QuadraticAlgebra ℤ (-1) 1` (Mathlib; `ω² = -1 + 1·ω`), shown here to be a domain through its norm.
The Euclidean bound proved for the coordinatewise rounding of the code is `4·N(z % w) ≤ 3·N(w)`.
The record is not part of `Model/C09.lean` / the driver.
-/
set_option linter.unusedSimpArgs false
set_option linter.unnecessarySeqFocus false
namespace Yuiv.C09

/-- ℤ[ω], `ω² = ω − 1` (`ω = (1 + √−3)/2`) -/
abbrev EisK := QuadraticAlgebra ℤ (-1) 1

def eAdd (z w : Int × Int) : Int × Int := (z.1 + w.1, z.2 + w.2)
/-- `(a + bω)(c + dω) = (ac − bd) + (ad + bc + bd)ω` -/
def eMul (z w : Int × Int) : Int × Int := (z.1 * w.1 - z.2 * w.2, z.1 * w.2 + z.2 * w.1 + z.2 * w.2)
def eNeg (z : Int × Int) : Int × Int := (-z.1, -z.2)
def eNorm (z : Int × Int) : Int := z.1 * z.1 + z.1 * z.2 + z.2 * z.2
def eConj (z : Int × Int) : Int × Int := (z.1 + z.2, -z.2)
/-- the sextant table of `normalizing_unit` (`D = -3`) -/
def eNormUnit (z : Int × Int) : Int × Int :=
  if 0 < z.1 ∧ 0 ≤ z.2 then (1, 0)
  else if z.1 ≤ 0 ∧ 0 < z.1 + z.2 then (1, -1)
  else if z.1 + z.2 ≤ 0 ∧ 0 < z.2 then (0, -1)
  else if z.1 < 0 ∧ z.2 ≤ 0 then (-1, 0)
  else if 0 ≤ z.1 ∧ z.1 + z.2 < 0 then (-1, 1)
  else if 0 ≤ z.1 + z.2 ∧ z.2 < 0 then (0, 1)
  else (1, 0)
/-- `div_round` for `EisenInt`: `(m, n) = ([(x + y)/N], [y/N])`, result `(m − n) + nω` -/
def eQuo (z w : Int × Int) : Int × Int :=
  (divRound ((eMul z (eConj w)).1 + (eMul z (eConj w)).2) (eNorm w) - divRound (eMul z (eConj w)).2 (eNorm w),
   divRound (eMul z (eConj w)).2 (eNorm w))

def eisPre : EOps (Int × Int) where
  zero := (0, 0)
  one := (1, 0)
  add := eAdd
  mul := eMul
  neg := eNeg
  beq a b := a.1 == b.1 && a.2 == b.2
  normUnit := eNormUnit
  inv z := if eNorm z == 1 || eNorm z == -1 then some (eMul (eNorm z, 0) (eConj z)) else none
  isUnit z := eNorm z == 1 || eNorm z == -1
  quo := eQuo
  rem z w := eAdd z (eNeg (eMul w (eQuo z w)))
  gcdx _ _ := ((0, 0), (0, 0), (0, 0))
  size z := (eNorm z).natAbs

def eisOps : EOps (Int × Int) := { eisPre with gcdx := genGcdx eisPre }

theorem eis_gcdx (x y : Int × Int) : eisOps.gcdx x y = genGcdx eisOps x y :=
  (genGcdx_with eisPre _ x y).symm

def eφ (z : Int × Int) : EisK := ⟨z.1, z.2⟩

theorem eNorm_nonneg (z : Int × Int) : 0 ≤ eNorm z := by
  unfold eNorm; nlinarith [mul_self_nonneg (2 * z.1 + z.2), mul_self_nonneg z.2]

theorem eNorm_eq_zero (z : Int × Int) (h : eNorm z = 0) : z = (0, 0) := by
  unfold eNorm at h
  have h2 : z.2 = 0 := by nlinarith [mul_self_nonneg (2 * z.1 + z.2), mul_self_nonneg z.2]
  have h1 : z.1 = 0 := by rw [h2] at h; nlinarith [mul_self_nonneg z.1]
  exact Prod.ext h1 h2

theorem eφ_inj {a b : Int × Int} (h : eφ a = eφ b) : a = b := by
  have := QuadraticAlgebra.ext_iff.1 h
  exact Prod.ext this.1 this.2

theorem eφ_norm (z : Int × Int) : (eφ z).norm = eNorm z := by
  simp only [QuadraticAlgebra.norm_def, eφ, eNorm]; ring

theorem eφ_eq_zero (z : Int × Int) : eφ z = 0 ↔ eNorm z = 0 := by
  constructor
  · intro h; rw [← eφ_norm, h]; simp
  · intro h; rw [eNorm_eq_zero z h]; rfl

instance : NoZeroDivisors EisK where
  eq_zero_or_eq_zero_of_mul_eq_zero {x y} h := by
    have hx : x = eφ (x.re, x.im) := rfl
    have hy : y = eφ (y.re, y.im) := rfl
    have hn : (x * y).norm = 0 := by rw [h]; simp
    rw [map_mul, hx, hy, eφ_norm, eφ_norm] at hn
    rcases mul_eq_zero.1 hn with h1 | h1
    · left; rw [hx]; exact (eφ_eq_zero _).2 h1
    · right; rw [hy]; exact (eφ_eq_zero _).2 h1

instance : IsDomain EisK := NoZeroDivisors.to_isDomain _

@[simp] theorem eis_add (a b : Int × Int) : eisOps.toROps.add a b = eAdd a b := rfl
@[simp] theorem eis_mul (a b : Int × Int) : eisOps.toROps.mul a b = eMul a b := rfl
@[simp] theorem eis_neg (a : Int × Int) : eisOps.toROps.neg a = eNeg a := rfl
@[simp] theorem eis_normUnit (a : Int × Int) : eisOps.normUnit a = eNormUnit a := rfl
@[simp] theorem eis_quo (a b : Int × Int) : eisOps.quo a b = eQuo a b := rfl
@[simp] theorem eis_rem (a b : Int × Int) : eisOps.rem a b = eAdd a (eNeg (eMul b (eQuo a b))) := rfl
@[simp] theorem eis_size (a : Int × Int) : eisOps.size a = (eNorm a).natAbs := rfl

theorem eφ_add (a b : Int × Int) : eφ (eAdd a b) = eφ a + eφ b := by
  ext <;> simp [eφ, eAdd]
theorem eφ_mul (a b : Int × Int) : eφ (eMul a b) = eφ a * eφ b := by
  ext <;> simp [eφ, eMul] <;> ring
theorem eφ_neg (a : Int × Int) : eφ (eNeg a) = - eφ a := by
  ext <;> simp [eφ, eNeg]

theorem lawful_eis : Lawful eisOps.toROps eφ where
  zero := rfl
  one := rfl
  add := eφ_add
  mul := eφ_mul
  neg := eφ_neg
  beq a b := by
    show (a.1 == b.1 && a.2 == b.2) = true ↔ _
    rw [Bool.and_eq_true, beq_iff_eq, beq_iff_eq]
    constructor
    · rintro ⟨h1, h2⟩; ext <;> assumption
    · intro h; have := eφ_inj h; subst this; exact ⟨rfl, rfl⟩

theorem lawfulE_eis : LawfulE eisOps eφ where
  toLawful := lawful_eis
  inv_mul u v h := by
    have h' : (if (eNorm u == 1 || eNorm u == -1) = true then some (eMul (eNorm u, 0) (eConj u)) else none)
        = some v := h
    split at h'
    · rename_i hc
      injection h' with h'; subst h'
      have hN : eNorm u * eNorm u = 1 := by
        simp only [Bool.or_eq_true, beq_iff_eq] at hc
        rcases hc with hc | hc <;> rw [hc] <;> rfl
      rw [← eφ_mul]
      have : eMul u (eMul (eNorm u, 0) (eConj u)) = (1, 0) := by
        unfold eNorm at hN
        simp only [eMul, eConj, eNorm]
        ext
        · simp only; linear_combination hN
        · simp only; ring
      rw [this]; rfl
    · cases h'

/-- the six units of ℤ[ω] -/
theorem eis_units (p q : Int) (h : p * p + p * q + q * q = 1) :
    (p = 1 ∧ q = 0) ∨ (p = -1 ∧ q = 0) ∨ (p = 0 ∧ q = 1) ∨ (p = 0 ∧ q = -1) ∨ (p = 1 ∧ q = -1) ∨
      (p = -1 ∧ q = 1) := by
  have hq : q * q ≤ 1 := by nlinarith [mul_self_nonneg (2 * p + q)]
  have hp : p * p ≤ 1 := by nlinarith [mul_self_nonneg (2 * q + p)]
  have hp1 : -1 ≤ p ∧ p ≤ 1 := by constructor <;> nlinarith
  have hq1 : -1 ≤ q ∧ q ≤ 1 := by constructor <;> nlinarith
  obtain ⟨a1, a2⟩ := hp1
  obtain ⟨b1, b2⟩ := hq1
  have hp3 : p = -1 ∨ p = 0 ∨ p = 1 := by omega
  have hq3 : q = -1 ∨ q = 0 ∨ q = 1 := by omega
  rcases hp3 with rfl | rfl | rfl <;> rcases hq3 with rfl | rfl | rfl <;> omega

/-- normalised = the sextant `re > 0, im ≥ 0` (or zero) -/
theorem eNormUnit_eq_one (z : Int × Int) : eφ (eNormUnit z) = 1 ↔ (0 < z.1 ∧ 0 ≤ z.2) ∨ (z.1 = 0 ∧ z.2 = 0) := by
  have h1 : (1 : EisK) = eφ (1, 0) := rfl
  rw [h1]
  constructor
  · intro h
    have := eφ_inj h
    unfold eNormUnit at this
    split_ifs at this <;> simp_all <;> omega
  · intro h
    unfold eNormUnit
    rcases h with h | h
    · rw [if_pos h]
    · rw [if_neg (by omega), if_neg (by omega), if_neg (by omega), if_neg (by omega), if_neg (by omega),
        if_neg (by omega)]

theorem eNorm_pos_of_ne (b : Int × Int) (hb : eφ b ≠ 0) : 0 < eNorm b := by
  have h1 := eNorm_nonneg b
  have h2 : eNorm b ≠ 0 := fun h => hb ((eφ_eq_zero b).2 h)
  omega

/-- the Euclidean property of coordinatewise rounding division in ℤ[ω]: `N(a - b·[a/b]) ≤ (3/4)·N(b)` -/
theorem eis_rem_norm (a b : Int × Int) (hN : 0 < eNorm b) :
    4 * eNorm (eAdd a (eNeg (eMul b (eQuo a b)))) ≤ 3 * eNorm b := by
  have d1 := divRound_spec ((eMul a (eConj b)).1 + (eMul a (eConj b)).2) (eNorm b) hN
  have d2 := divRound_spec (eMul a (eConj b)).2 (eNorm b) hN
  unfold eQuo
  generalize divRound ((eMul a (eConj b)).1 + (eMul a (eConj b)).2) (eNorm b) = m at *
  generalize divRound (eMul a (eConj b)).2 (eNorm b) = n at *
  obtain ⟨a1, a2⟩ := a
  obtain ⟨b1, b2⟩ := b
  simp only [eMul, eConj, eNorm, eAdd, eNeg] at *
  generalize hN' : b1 * b1 + b1 * b2 + b2 * b2 = N at *
  generalize hx : a1 * (b1 + b2) - a2 * -b2 + (a1 * -b2 + a2 * (b1 + b2) + a2 * -b2) - m * N = α at d1
  generalize hy : a1 * -b2 + a2 * (b1 + b2) + a2 * -b2 - n * N = β at d2
  have key : ((a1 + -(b1 * (m - n) - b2 * n)) * (a1 + -(b1 * (m - n) - b2 * n)) +
      (a1 + -(b1 * (m - n) - b2 * n)) * (a2 + -(b1 * n + b2 * (m - n) + b2 * n)) +
      (a2 + -(b1 * n + b2 * (m - n) + b2 * n)) * (a2 + -(b1 * n + b2 * (m - n) + b2 * n))) * N =
      α * α - α * β + β * β := by
    rw [← hx, ← hy, ← hN']; ring
  have a1' := abs_le.1 (show |2 * α| ≤ N by rw [abs_mul]; simpa using d1)
  have b1' := abs_le.1 (show |2 * β| ≤ N by rw [abs_mul]; simpa using d2)
  have s1 : (2 * α) * (2 * α) ≤ N * N := by nlinarith
  have s2 : (2 * β) * (2 * β) ≤ N * N := by nlinarith
  have t1 : 0 ≤ (N - 2 * α) * (N + 2 * β) := mul_nonneg (by linarith) (by linarith)
  have t2 : 0 ≤ (N + 2 * α) * (N - 2 * β) := mul_nonneg (by linarith) (by linarith)
  have s3 : -(4 * (α * β)) ≤ N * N := by nlinarith
  generalize ((a1 + -(b1 * (m - n) - b2 * n)) * (a1 + -(b1 * (m - n) - b2 * n)) +
      (a1 + -(b1 * (m - n) - b2 * n)) * (a2 + -(b1 * n + b2 * (m - n) + b2 * n)) +
      (a2 + -(b1 * n + b2 * (m - n) + b2 * n)) * (a2 + -(b1 * n + b2 * (m - n) + b2 * n))) = R at key ⊢
  have hR : 4 * R * N ≤ 3 * N * N := by nlinarith
  by_contra hlt
  have : 3 * N + 1 ≤ 4 * R := by omega
  nlinarith

theorem lawfulEucBase_eis : LawfulEucBase eisOps eφ where
  toLawfulE := lawfulE_eis
  inv_normUnit a := by
    rw [eis_normUnit]
    unfold eNormUnit
    split_ifs <;> exact ⟨_, rfl⟩
  normUnit_congr a b h := by rw [eφ_inj h]
  norm_mul a := by
    rw [eis_normUnit, eis_normUnit, eis_mul, eNormUnit_eq_one]
    unfold eNormUnit
    split_ifs <;> simp only [eMul] <;> omega
  norm_unique a b ha hb h1 h2 := by
    rw [eis_normUnit, eNormUnit_eq_one] at ha hb
    obtain ⟨u, hu⟩ := dvd_dvd_iff_associated.1 ⟨h1, h2⟩
    have hn : (u : EisK).norm = 1 := by
      have h3 := (QuadraticAlgebra.isUnit_iff_norm_isUnit (x := (u : EisK))).1 u.isUnit
      have h4 : (u : EisK) = eφ ((u : EisK).re, (u : EisK).im) := rfl
      rw [Int.isUnit_iff] at h3
      have h5 := eNorm_nonneg ((u : EisK).re, (u : EisK).im)
      rw [h4, eφ_norm] at h3 ⊢
      omega
    rw [QuadraticAlgebra.norm_def] at hn
    have hre := (QuadraticAlgebra.ext_iff.1 hu).1
    have him := (QuadraticAlgebra.ext_iff.1 hu).2
    simp only [eφ, QuadraticAlgebra.re_mul, QuadraticAlgebra.im_mul] at hre him
    generalize (u : EisK).re = p at *
    generalize (u : EisK).im = q at *
    have hcases := eis_units p q (by linarith)
    have : a = b := by
      rcases hcases with ⟨rfl, rfl⟩ | ⟨rfl, rfl⟩ | ⟨rfl, rfl⟩ | ⟨rfl, rfl⟩ | ⟨rfl, rfl⟩ | ⟨rfl, rfl⟩ <;>
        (ext <;> omega)
    rw [this]
  isUnit_iff a := by
    show (eNorm a == 1 || eNorm a == -1) = true ↔ _
    rw [QuadraticAlgebra.isUnit_iff_norm_isUnit, eφ_norm, Int.isUnit_iff, Bool.or_eq_true, beq_iff_eq, beq_iff_eq]
  div_rem a b _ := by
    rw [eis_quo, eis_rem, eφ_add, eφ_neg, eφ_mul]; ring
  size_rem a b hb := by
    rw [eis_rem, eis_size, eis_size]
    have hN := eNorm_pos_of_ne b hb
    have h1 := eis_rem_norm a b hN
    have h2 := eNorm_nonneg (eAdd a (eNeg (eMul b (eQuo a b))))
    omega
  size_dvd a b hb h := by
    rw [eis_size, eis_size]
    obtain ⟨c, hc⟩ := h
    have hc0 : c ≠ 0 := by
      rintro rfl; rw [mul_zero] at hc; exact hb hc
    have hcφ : c = eφ (c.re, c.im) := rfl
    have h1 : eNorm b = eNorm a * eNorm (c.re, c.im) := by
      rw [← eφ_norm, ← eφ_norm, ← eφ_norm, ← hcφ, hc, map_mul]
    have h2 : 0 < eNorm (c.re, c.im) := eNorm_pos_of_ne _ (by rw [← hcφ]; exact hc0)
    have h3 := eNorm_nonneg a
    have h4 : eNorm a ≤ eNorm b := by nlinarith
    omega

/-- **the Eisenstein integers** (operations of `yui/src/types/qint.rs`, `D = -3`) are a lawful Euclidean record -/
theorem lawfulEuc_eis : LawfulEuc eisOps eφ :=
  lawfulEuc_of_genGcdx eisOps eφ lawfulEucBase_eis eis_gcdx

end Yuiv.C09
