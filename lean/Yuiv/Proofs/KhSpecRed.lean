import Yuiv.Proofs.KhSpecRowsOK
import Yuiv.Proofs.C01SqRed
/-
KhSpec — the REDUCED theory with `t = 0` (helper; no property theorem here).

The reduced cube `mkCube l p` (`base = some e`) has as generators exactly the generators of the unreduced cube
`cube0 l p := { mkCube l p with base := none }` whose base circle is labelled `X` (`mem_gbw_red`).  For `t = 0` this family
is closed under the unreduced differential (`C01Sq.dRaw_keep`), and on it the reduced differential IS the unreduced one
(`C01Sq.d_reduced_eq`).  Hence

  * `fam_reduced`            : `gensByWeight (mkCube l p)` is a `Fam` of `cube0 l p` — all matrix / homology statements of
                               `KhSpecMain`, `KhSpecHom`, `KhSpecRowsOK` apply to it;
  * `dTab_reduced`           : on the family the two tables agree;
  * `homologyOf_congr`       : `homologyOf` depends on the table only on the listed generators;
  * `khHomology_ok_reduced`  : `khHomology … false` succeeds and is `homologyOf` of the family inside the unreduced cube.

If `p.reduced = false` (or the diagram has no crossing) `mkCube l p` has `base = none` and all this is the unreduced
statement; the proofs treat both cases at once through `RedOr`.
-/
namespace Yuiv.KhSpec
open Yuiv Yuiv.KhRef Yuiv.KhSnf
open Yuiv.C06Cycle (baseKeep dRaw)
open Yuiv.C02Mirror (cubeOK)

/-- the unreduced cube underlying `mkCube l p` -/
def cube0 (l : Link) (p : Params) : Cube := { mkCube l p with base := none }

theorem ctx_cube0 (l : Link) (hv : C06Cycle.validK l = true) (hL : (edgeLabels l).size ≤ 64) (p : Params)
    (hok : C02Mirror.cubeOK (mkCube l p)) : Ctx (cube0 l p) p :=
  ⟨rfl, hok, fun s s' hs hs' => C02Mirror.cube_pair l p hL s s' hs hs', Yuiv.C01Sq.faceComm_mkCube l hv hL p hok⟩

/-! ### `homologyOf` reads the table only on the listed generators -/

theorem invAt_congr (gens : Array (Array Gen)) (d d' : Gen → Array Term) (i : Nat)
    (h : ∀ g ∈ (gens[i]!).toList, d g = d' g) : invAt gens d i = invAt gens d' i := by
  unfold invAt
  rw [rowsAt_congr gens d d' i h]

theorem homologyOf_congr (k : Coeff) (gens : Array (Array Gen)) (d d' : Gen → Array Term)
    (h : ∀ i : Nat, ∀ g ∈ (gens[i]!).toList, d g = d' g) : homologyOf k gens d = homologyOf k gens d' := by
  have e : ∀ i, invAt gens d i = invAt gens d' i := fun i => invAt_congr gens d d' i (h i)
  rw [homologyOf_eq, homologyOf_eq]
  congr 1
  apply List.map_congr_left
  intro i _
  unfold groupAt
  simp only [e]

/-! ### a cube and its unreduced companion `{ c with base := none }` -/

section cube
variable {c : Cube} {labels : Array Nat} {p : Params}

/-- the two cases treated at once: no base point, or a base point with the hypotheses of `C01SqRed` -/
def RedOr (c : Cube) (labels : Array Nat) : Prop := c.base = none ∨ ∃ e, Yuiv.C01Sq.RedHyp c labels e

theorem baseKeep_of_none (hb : c.base = none) (g : Gen) : baseKeep c g = true := by
  unfold baseKeep Cube.baseCircle
  simp only [hb]

/-- generators at a vertex: labellings with the base circle (if any) labelled `X` -/
theorem mem_gensAt_iff (c : Cube) (s : Nat) (g : Gen) :
    g ∈ (c.gensAt s).toList ↔ (g.s = s ∧ g.mask < 2 ^ (c.circ[s]!).size) ∧ baseKeep c g = true := by
  rw [gensAt_toList]
  obtain ⟨gs, gm⟩ := g
  unfold baseKeep
  constructor
  · intro h
    split at h
    · rename_i hbc
      obtain ⟨m, hm, e⟩ := List.mem_map.1 h
      injection e with e1 e2
      subst e1; subst e2
      refine ⟨⟨rfl, List.mem_range.1 hm⟩, ?_⟩
      simp only [hbc]
    · rename_i b hbc
      obtain ⟨h1, h2⟩ := List.mem_filter.1 h
      obtain ⟨m, hm, e⟩ := List.mem_map.1 h1
      injection e with e1 e2
      subst e1; subst e2
      refine ⟨⟨rfl, List.mem_range.1 hm⟩, ?_⟩
      simp only [hbc]
      exact h2
  · rintro ⟨⟨e1, hm⟩, hk⟩
    simp only at e1 hm hk
    subst e1
    have hmem : (⟨gs, gm⟩ : Gen) ∈ (List.range (2 ^ (c.circ[gs]!).size)).map (Gen.mk gs) :=
      List.mem_map.2 ⟨gm, List.mem_range.2 hm, rfl⟩
    split
    · exact hmem
    · rename_i b hbc
      simp only [hbc] at hk
      exact List.mem_filter.2 ⟨hmem, hk⟩

/-- the generators of `c` are the generators of the unreduced companion that keep the base -/
theorem mem_gbw_red (c : Cube) (w : Nat) (g : Gen) :
    g ∈ ((gensByWeight c)[w]!).toList ↔
      g ∈ ((gensByWeight ({ c with base := none } : Cube))[w]!).toList ∧ baseKeep c g = true := by
  rw [mem_gensByWeight, mem_gensByWeight, mem_gensAt_iff,
    mem_gensAt_unreduced ({ c with base := none } : Cube) rfl]
  constructor
  · rintro ⟨h1, h2, h3, h4, h5⟩
    exact ⟨⟨h1, h2, h3, h4⟩, h5⟩
  · rintro ⟨⟨h1, h2, h3, h4⟩, h5⟩
    exact ⟨h1, h2, h3, h4, h5⟩

/-- on a generator that keeps the base, the differential is the unreduced one (`t = 0`) -/
theorem d_red_eq (hR : RedOr c labels) (ht : p.t = 0) (g : Gen) (hs : g.s < 2 ^ c.n) (hg : baseKeep c g = true) :
    c.d p g = ({ c with base := none } : Cube).d p g := by
  rcases hR with hb | ⟨e, H⟩
  · rw [Yuiv.C01Sq.d_of_base_none { c with base := none } rfl, Yuiv.C01Sq.d_of_base_none c hb]
    rfl
  · exact Yuiv.C01Sq.d_reduced_eq H p ht g hs hg

/-- the targets of the unreduced differential of a generator that keeps the base keep the base (`t = 0`) -/
theorem keep_closed (hR : RedOr c labels) (ht : p.t = 0) (g : Gen) (hs : g.s < 2 ^ c.n) (hg : baseKeep c g = true)
    (ts : Array Term) (hd : ({ c with base := none } : Cube).d p g = some ts) :
    ∀ t ∈ ts.toList, baseKeep c t.1 = true := by
  rcases hR with hb | ⟨e, H⟩
  · intro t _
    exact baseKeep_of_none hb t.1
  · rw [Yuiv.C01Sq.d_of_base_none { c with base := none } rfl] at hd
    change (dRaw c p g).map List.toArray = some ts at hd
    cases hr : dRaw c p g with
    | none => rw [hr] at hd; cases hd
    | some out =>
      rw [hr, Option.map_some] at hd
      injection hd with hd
      subst hd
      intro t hm
      exact (Yuiv.C01Sq.dRaw_keep H p ht g hs hg out hr t (by simpa using hm)).2

/-- the generators of `c` form a family of the unreduced companion, closed under `d` -/
theorem fam_red (H0 : Ctx ({ c with base := none } : Cube) p) (hR : RedOr c labels) (ht : p.t = 0) :
    Fam ({ c with base := none } : Cube) p (gensByWeight c) := by
  refine ⟨gensByWeight_size c, gensByWeight_nodup c, fun i g hg => ((mem_gbw_red c i g).1 hg).1, ?_⟩
  intro i g hg t hm
  obtain ⟨hg0, hk⟩ := (mem_gbw_red c i g).1 hg
  have hs := (gen_props H0 hg0).2.1
  obtain ⟨ts, hd⟩ := d_defined H0 hs
  rw [dTab_of_mem hg0, hd] at hm
  change t ∈ ts.toList at hm
  have h1 := d_targets_mem _ p H0.hb H0.hok H0.hP i g hg0 ts hd t hm
  exact (mem_gbw_red c (i + 1) t.1).2 ⟨h1, keep_closed hR ht g hs hk ts hd t hm⟩

/-- on the generators of `c` the table of `c` is the table of the unreduced companion -/
theorem dTab_red (H0 : Ctx ({ c with base := none } : Cube) p) (hR : RedOr c labels) (ht : p.t = 0) (w : Nat) (g : Gen)
    (hg : g ∈ ((gensByWeight c)[w]!).toList) :
    dTab c p (gensByWeight c) g =
      dTab ({ c with base := none } : Cube) p (gensByWeight ({ c with base := none } : Cube)) g := by
  obtain ⟨hg0, hk⟩ := (mem_gbw_red c w g).1 hg
  rw [dTab_of_mem hg, dTab_of_mem hg0, d_red_eq hR ht g (gen_props H0 hg0).2.1 hk]

/-- `d` of `c` is defined on the generators of `c` -/
theorem d_defined_red (H0 : Ctx ({ c with base := none } : Cube) p) (hR : RedOr c labels) (ht : p.t = 0) (w : Nat)
    (g : Gen) (hg : g ∈ ((gensByWeight c)[w]!).toList) : (c.d p g).isSome = true := by
  obtain ⟨hg0, hk⟩ := (mem_gbw_red c w g).1 hg
  have hs := (gen_props H0 hg0).2.1
  obtain ⟨ts, hd⟩ := d_defined H0 hs
  rw [d_red_eq hR ht g hs hk, hd]
  rfl

/-- `d ∘ d = 0` on the table of `c` -/
theorem dTab_dd_red (H0 : Ctx ({ c with base := none } : Cube) p) (hR : RedOr c labels) (ht : p.t = 0) (w : Nat)
    (g : Gen) (hg : g ∈ ((gensByWeight c)[w]!).toList) (z : Gen) :
    C06Cycle.chainSum (fun y => (dTab c p (gensByWeight c) y).toList) (dTab c p (gensByWeight c) g).toList z = 0 := by
  have F := fam_red H0 hR ht
  have hg0 := F.sub w g hg
  rw [dTab_red H0 hR ht w g hg, ← dTab_dd H0 hg0 z]
  apply C06Cycle.chainSum_congr
  intro ga hga
  exact congrArg Array.toList (dTab_red H0 hR ht (w + 1) ga.1 (F.tgt w g hg ga hga))

end cube

/-! ### the cube of a diagram -/

theorem redOr_mkCube (l : Link) (hv : C06Cycle.validK l = true) (hL : (edgeLabels l).size ≤ 64) (p : Params) :
    RedOr (mkCube l p) (edgeLabels l) := by
  cases hb : (mkCube l p).base with
  | none => exact Or.inl hb
  | some e => exact Or.inr ⟨e, Yuiv.C01Sq.redHyp_mkCube l hv hL p e hb⟩

/-- the generators of the reduced cube form a family of the unreduced cube closed under `d` (needs `t = 0`) -/
theorem fam_reduced (l : Link) (hv : C06Cycle.validK l = true) (hL : (edgeLabels l).size ≤ 64) (p : Params)
    (ht : p.t = 0) (hok : C02Mirror.cubeOK (mkCube l p)) : Fam (cube0 l p) p (gensByWeight (mkCube l p)) :=
  fam_red (ctx_cube0 l hv hL p hok) (redOr_mkCube l hv hL p) ht

/-- on these generators the reduced table is the unreduced one -/
theorem dTab_reduced (l : Link) (hv : C06Cycle.validK l = true) (hL : (edgeLabels l).size ≤ 64) (p : Params)
    (ht : p.t = 0) (hok : C02Mirror.cubeOK (mkCube l p)) (w : Nat) (g : Gen)
    (hg : g ∈ ((gensByWeight (mkCube l p))[w]!).toList) :
    dTab (mkCube l p) p (gensByWeight (mkCube l p)) g = dTab (cube0 l p) p (gensByWeight (cube0 l p)) g :=
  dTab_red (ctx_cube0 l hv hL p hok) (redOr_mkCube l hv hL p) ht w g hg

/-- END TO END for the reduced theory, `t = 0`, unbigraded: success, and the result is `homologyOf` of the family
`gensByWeight (mkCube l p)` inside the unreduced cube -/
theorem khHomology_ok_reduced (l : Link) (hv : C06Cycle.validK l = true) (hL : (edgeLabels l).size ≤ 64) (p : Params)
    (ht : p.t = 0) (hok : C02Mirror.cubeOK (mkCube l p)) (signs : Array Int) (k : Coeff) :
    khHomology l signs p k false =
      .ok ⟨(cellsUn (h0Of signs) none
        (homologyOf k (gensByWeight (mkCube l p)) (dTab (cube0 l p) p (gensByWeight (cube0 l p))))).toArray⟩ := by
  have H0 := ctx_cube0 l hv hL p hok
  have hR := redOr_mkCube l hv hL p
  rw [khHomology_unbigraded l signs p k
    (by
      intro gs hgs g hg
      obtain ⟨w, rfl⟩ := gens_cases hgs
      exact d_defined_red H0 hR ht w g hg)
    (by
      intro gs hgs g hg z
      obtain ⟨w, rfl⟩ := gens_cases hgs
      exact dTab_dd_red H0 hR ht w g hg z)]
  rw [homologyOf_congr k _ _ _ (fun i g hg => dTab_reduced l hv hL p ht hok i g hg)]

end Yuiv.KhSpec
