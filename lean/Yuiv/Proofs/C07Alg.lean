import Mathlib.Data.Matrix.ColumnRowPartitioned
import Mathlib.Data.Matrix.Block
/-
C07 — algebraic core of `HomologyCalc::trans` (yui-homology/src/utils/homology_calc.rs).

        d1             d2
   C1 ------> C2 ------------> C3          index types:  C1 = `M`, C2 = `N`, C3 = `K`

`s1 = snf(d1)` gives `P1`, `P1⁻¹` (flags `[with_trans, true, false, false]`), `S1 = P1·d1·Q1`;
`d2' = d2 · P1⁻¹[:, r1..n]`;  `s2 = snf(d2')` gives `Q2`, `Q2⁻¹`, `S2 = P2·d2'·Q2`.

Row/column *ranges* of the code are modelled by arbitrary index maps, so that one statement covers every
way of cutting out the blocks (in particular the `Fin` ranges of the code, see `Props/C07.lean`):

    iB : B → N      rows  r1..n            of P1 / columns of P1⁻¹      ("C21'", complement of the image part)
    iT : T → N      rows  r1-t..r1                                      (torsion part)
    iF : F → B      rows  r2..n-r1         of Q2⁻¹ / columns of Q2      ("C22'", free part)

The matrices built by the code:

    p = [ Q2⁻¹[r2.., :] · P1[r1.., :] ;  P1[r1-t..r1, :] ]            (stack)
    q = [ P1⁻¹[:, r1..] · Q2[:, r2..] |  P1⁻¹[:, r1-t..r1] ]          (concat)
-/
set_option linter.unusedSectionVars false

namespace Yuiv.C07
open Matrix

variable {R : Type*} [CommRing R]
variable {M N K B F T : Type*}
variable [Fintype M] [Fintype N] [Fintype K] [Fintype B] [Fintype F] [Fintype T]
variable [DecidableEq M] [DecidableEq N] [DecidableEq K] [DecidableEq B] [DecidableEq F] [DecidableEq T]

/-- `d2' = d2 * p1_inv.submat_cols(r1..n)` -/
def d2' (d2 : Matrix K N R) (P1i : Matrix N N R) (iB : B → N) : Matrix K B R :=
  d2 * P1i.submatrix id iB

/-- `p_free = p22 * p11`, `p22 = qinv2.submat_rows(r2..n-r1)`, `p11 = p1.submat_rows(r1..n)` -/
def pFree (P1 : Matrix N N R) (Q2i : Matrix B B R) (iB : B → N) (iF : F → B) : Matrix F N R :=
  Q2i.submatrix iF id * P1.submatrix iB id

/-- `p_tor = p1.submat_rows(r1-t..r1)` -/
def pTor (P1 : Matrix N N R) (iT : T → N) : Matrix T N R := P1.submatrix iT id

/-- `p = p_free.stack(&p_tor)` -/
def pMat (P1 : Matrix N N R) (Q2i : Matrix B B R) (iB : B → N) (iT : T → N) (iF : F → B) :
    Matrix (F ⊕ T) N R :=
  fromRows (pFree P1 Q2i iB iF) (pTor P1 iT)

/-- `q_free = q12 * q22`, `q12 = pinv1.submat_cols(r1..n)`, `q22 = q2.submat_cols(r2..n-r1)` -/
def qFree (P1i : Matrix N N R) (Q2 : Matrix B B R) (iB : B → N) (iF : F → B) : Matrix N F R :=
  P1i.submatrix id iB * Q2.submatrix id iF

/-- `q_tor = pinv1.submat_cols(r1-t..r1)` -/
def qTor (P1i : Matrix N N R) (iT : T → N) : Matrix N T R := P1i.submatrix id iT

/-- `q = q_free.concat(&q_tor)` -/
def qMat (P1i : Matrix N N R) (Q2 : Matrix B B R) (iB : B → N) (iT : T → N) (iF : F → B) :
    Matrix N (F ⊕ T) R :=
  fromCols (qFree P1i Q2 iB iF) (qTor P1i iT)

/-! ### helper lemmas -/

/-- rows/columns `lo .. lo+len` of an index set of size `n`: the `Range<usize>` of `submat_rows` / `submat_cols` -/
def rangeMap (lo len n : Nat) (h : lo + len ≤ n) : Fin len → Fin n := fun i => ⟨lo + i.val, by omega⟩

theorem rangeMap_injective (lo len n : Nat) (h : lo + len ≤ n) : Function.Injective (rangeMap lo len n h) := by
  intro i j hij
  simp only [rangeMap, Fin.mk.injEq] at hij
  exact Fin.ext (by omega)

/-- general form of `sub_rows_mul_sub_cols` -/
theorem sub_rows_mul_sub_cols' {A C L : Type*} [Fintype L] (X : Matrix A L R) (Y : Matrix L C R)
    {A' C' : Type*} (f : A' → A) (g : C' → C) :
    X.submatrix f id * Y.submatrix id g = (X * Y).submatrix f g := by
  ext i j; simp [Matrix.mul_apply]

theorem sub_rows_mul_sub_cols {A : Type*} {C : Type*} (X Y : Matrix N N R) (f : A → N) (g : C → N) :
    X.submatrix f id * Y.submatrix id g = (X * Y).submatrix f g := by
  ext i j; simp [Matrix.mul_apply]

theorem one_submatrix_disjoint {A C : Type*} (f : A → N) (g : C → N) (h : ∀ a c, f a ≠ g c) :
    (1 : Matrix N N R).submatrix f g = 0 := by
  ext i j; simp [h i j]

/-- `P·Q = I` for the assembled maps -/
theorem pq_eq_one (P1 P1i : Matrix N N R) (Q2 Q2i : Matrix B B R) (iB : B → N) (iT : T → N) (iF : F → B)
    (h1 : P1 * P1i = 1) (h2 : Q2i * Q2 = 1)
    (hB : Function.Injective iB) (hT : Function.Injective iT) (hF : Function.Injective iF)
    (hBT : ∀ b t, iB b ≠ iT t) :
    pMat P1 Q2i iB iT iF * qMat P1i Q2 iB iT iF = 1 := by
  unfold pMat qMat
  rw [fromRows_mul_fromCols, ← fromBlocks_one]
  have e1 : P1.submatrix iB id * P1i.submatrix id iB = 1 := by
    rw [sub_rows_mul_sub_cols, h1, submatrix_one _ hB]
  have e2 : P1.submatrix iB id * P1i.submatrix id iT = 0 := by
    rw [sub_rows_mul_sub_cols, h1, one_submatrix_disjoint _ _ hBT]
  have e3 : P1.submatrix iT id * P1i.submatrix id iB = 0 := by
    rw [sub_rows_mul_sub_cols, h1, one_submatrix_disjoint _ _ (fun t b => (hBT b t).symm)]
  have e4 : P1.submatrix iT id * P1i.submatrix id iT = 1 := by
    rw [sub_rows_mul_sub_cols, h1, submatrix_one _ hT]
  congr 1
  · unfold pFree qFree
    calc Q2i.submatrix iF id * P1.submatrix iB id * (P1i.submatrix id iB * Q2.submatrix id iF)
        = Q2i.submatrix iF id * (P1.submatrix iB id * P1i.submatrix id iB) * Q2.submatrix id iF := by
          simp only [Matrix.mul_assoc]
      _ = 1 := by rw [e1, Matrix.mul_one, sub_rows_mul_sub_cols, h2, submatrix_one _ hF]
  · unfold pFree qTor
    rw [Matrix.mul_assoc, e2, Matrix.mul_zero]
  · unfold pTor qFree
    rw [← Matrix.mul_assoc, e3, Matrix.zero_mul]

/-- the torsion generators are cycles: columns `iT t` of `d2·P1⁻¹` vanish, because `d2·P1⁻¹·S1 = d2·d1·Q1 = 0`
and column `cT t` of `S1` is `a t ≠ 0` at row `iT t` and zero elsewhere -/
theorem d2_mul_qTor [NoZeroDivisors R] (d1 : Matrix N M R) (d2 : Matrix K N R) (P1 P1i : Matrix N N R)
    (Q1 : Matrix M M R) (S1 : Matrix N M R) (iT : T → N) (cT : T → M) (a : T → R)
    (hdd : d2 * d1 = 0) (hS1 : S1 = P1 * d1 * Q1) (h1 : P1i * P1 = 1)
    (hcol : ∀ t i, S1 i (cT t) = if i = iT t then a t else 0) (ha : ∀ t, a t ≠ 0) :
    d2 * qTor P1i iT = 0 := by
  have hX : (d2 * P1i) * S1 = 0 := by
    rw [hS1]
    calc d2 * P1i * (P1 * d1 * Q1) = d2 * (P1i * P1) * d1 * Q1 := by simp only [Matrix.mul_assoc]
      _ = 0 := by rw [h1, Matrix.mul_one, hdd, Matrix.zero_mul]
  ext k t
  have := congrFun (congrFun hX k) (cT t)
  simp only [Matrix.mul_apply, hcol, Matrix.zero_apply] at this
  rw [Finset.sum_eq_single (iT t)] at this
  · simp only [if_true] at this
    have h0 := (mul_eq_zero.mp this).resolve_right (ha t)
    simp only [qTor, Matrix.mul_apply, Matrix.submatrix_apply, id, Matrix.zero_apply]
    exact h0
  · intro b _ hb; simp [hb]
  · intro h; exact absurd (Finset.mem_univ _) h

/-- the free generators are cycles: `d2·q_free = (d2'·Q2)[:, r2..] = (P2⁻¹·S2)[:, r2..] = 0` -/
theorem d2_mul_qFree (d2 : Matrix K N R) (P1i : Matrix N N R) (Q2 : Matrix B B R)
    (P2 P2i : Matrix K K R) (S2 : Matrix K B R) (iB : B → N) (iF : F → B)
    (hS2 : S2 = P2 * d2' d2 P1i iB * Q2) (h2 : P2i * P2 = 1) (hcol : ∀ i f, S2 i (iF f) = 0) :
    d2 * qFree P1i Q2 iB iF = 0 := by
  have hX : d2' d2 P1i iB * Q2 = P2i * S2 := by
    rw [hS2]
    calc d2' d2 P1i iB * Q2 = (P2i * P2) * d2' d2 P1i iB * Q2 := by rw [h2, Matrix.one_mul]
      _ = P2i * (P2 * d2' d2 P1i iB * Q2) := by simp only [Matrix.mul_assoc]
  unfold qFree
  rw [← Matrix.mul_assoc]
  change d2' d2 P1i iB * Q2.submatrix id iF = 0
  have : d2' d2 P1i iB * Q2.submatrix id iF = (d2' d2 P1i iB * Q2).submatrix id iF := by
    ext i j; simp [Matrix.mul_apply]
  rw [this, hX]
  ext i f
  simp [Matrix.mul_apply, hcol]

/-- `P1·d1 = S1·Q1⁻¹` -/
theorem p1_mul_d1 (d1 : Matrix N M R) (P1 : Matrix N N R) (Q1 Q1i : Matrix M M R) (S1 : Matrix N M R)
    (hS1 : S1 = P1 * d1 * Q1) (hq : Q1 * Q1i = 1) : P1 * d1 = S1 * Q1i := by
  rw [hS1, Matrix.mul_assoc (P1 * d1), hq, Matrix.mul_one]

/-- boundaries have zero free coordinates -/
theorem pFree_mul_d1 (d1 : Matrix N M R) (P1 : Matrix N N R) (Q1 Q1i : Matrix M M R) (S1 : Matrix N M R)
    (Q2i : Matrix B B R) (iB : B → N) (iF : F → B)
    (hS1 : S1 = P1 * d1 * Q1) (hq : Q1 * Q1i = 1) (hrow : ∀ b j, S1 (iB b) j = 0) :
    pFree P1 Q2i iB iF * d1 = 0 := by
  unfold pFree
  have : P1.submatrix iB id * d1 = (P1 * d1).submatrix iB id := by
    ext i j; simp [Matrix.mul_apply]
  rw [Matrix.mul_assoc, this, p1_mul_d1 d1 P1 Q1 Q1i S1 hS1 hq]
  have : (S1 * Q1i).submatrix iB id = 0 := by
    ext i j; simp [Matrix.mul_apply, hrow]
  rw [this, Matrix.mul_zero]

/-- torsion coordinates of boundaries: row `t` of `p_tor·d1` is `a t` times row `cT t` of `Q1⁻¹` -/
theorem pTor_mul_d1 (d1 : Matrix N M R) (P1 : Matrix N N R) (Q1 Q1i : Matrix M M R) (S1 : Matrix N M R)
    (iT : T → N) (cT : T → M) (a : T → R)
    (hS1 : S1 = P1 * d1 * Q1) (hq : Q1 * Q1i = 1)
    (hrow : ∀ t j, S1 (iT t) j = if j = cT t then a t else 0) :
    pTor P1 iT * d1 = Matrix.of fun t j => a t * Q1i (cT t) j := by
  unfold pTor
  have : P1.submatrix iT id * d1 = (P1 * d1).submatrix iT id := by
    ext i j; simp [Matrix.mul_apply]
  rw [this, p1_mul_d1 d1 P1 Q1 Q1i S1 hS1 hq]
  ext t j
  simp only [Matrix.submatrix_apply, id, Matrix.mul_apply, hrow, Matrix.of_apply]
  rw [Finset.sum_eq_single (cT t)]
  · simp
  · intro b _ hb; simp [hb]
  · intro h; exact absurd (Finset.mem_univ _) h

end Yuiv.C07

/-! ### completeness: a cycle whose coordinates vanish (modulo the orders) is a boundary -/

namespace Yuiv.C07
open Matrix

section inj
variable {R : Type*} [CommRing R] [NoZeroDivisors R]
variable {M N K A B B2 F T : Type*}
variable [Fintype M] [Fintype N] [Fintype K] [Fintype A] [Fintype B] [Fintype B2] [Fintype F] [Fintype T]
variable [DecidableEq M] [DecidableEq N] [DecidableEq K] [DecidableEq A] [DecidableEq B] [DecidableEq B2]
variable [DecidableEq F] [DecidableEq T]

/-- columns `iA a` of `d2·P1⁻¹` vanish (same argument as `d2_mul_qTor`, for the whole image part) -/
theorem d2P1i_col_zero (d1 : Matrix N M R) (d2 : Matrix K N R) (P1 P1i : Matrix N N R)
    (Q1 : Matrix M M R) (S1 : Matrix N M R) (iA : A → N) (cA : A → M) (α : A → R)
    (hdd : d2 * d1 = 0) (hS1 : S1 = P1 * d1 * Q1) (h1 : P1i * P1 = 1)
    (hcol : ∀ a i, S1 i (cA a) = if i = iA a then α a else 0) (ha : ∀ a, α a ≠ 0) (k : K) (a : A) :
    (d2 * P1i) k (iA a) = 0 := by
  have := congrFun (congrFun (d2_mul_qTor d1 d2 P1 P1i Q1 S1 iA cA α hdd hS1 h1 hcol ha) k) a
  simpa [qTor, Matrix.mul_apply] using this

/-- **completeness of the coordinates.**  With the full SNF specification (`eN : A ⊕ B ≃ N` splits the rows of
`S1` into the non-zero diagonal part `A` and the zero part `B`; `eB : B2 ⊕ F ≃ B` splits the columns of `S2`
likewise; outside the torsion block `jT : T → A` the diagonal entries of `S1` are units): a cycle `z` whose free
coordinates vanish and whose torsion coordinates are divisible by the orders is a boundary. -/
theorem cycle_with_zero_coords_is_boundary
    (d1 : Matrix N M R) (d2 : Matrix K N R) (P1 P1i : Matrix N N R) (Q1 : Matrix M M R) (S1 : Matrix N M R)
    (P2 : Matrix K K R) (Q2 Q2i : Matrix B B R) (S2 : Matrix K B R)
    (eN : A ⊕ B ≃ N) (eB : B2 ⊕ F ≃ B) (jT : T → A) (cA : A → M) (rB : B2 → K) (α : A → R) (β : B2 → R)
    (hdd : d2 * d1 = 0)
    (hS1 : S1 = P1 * d1 * Q1) (hP1 : P1i * P1 = 1)
    (hrowA : ∀ a j, S1 (eN (Sum.inl a)) j = if j = cA a then α a else 0)
    (hcolA : ∀ a i, S1 i (cA a) = if i = eN (Sum.inl a) then α a else 0)
    (hrowB : ∀ b j, S1 (eN (Sum.inr b)) j = 0)
    (hα : ∀ a, α a ≠ 0) (hunit : ∀ a, (∃ t, a = jT t) ∨ IsUnit (α a))
    (hS2 : S2 = P2 * d2' d2 P1i (fun b => eN (Sum.inr b)) * Q2) (hQ2 : Q2 * Q2i = 1)
    (hrow2 : ∀ b j, S2 (rB b) j = if j = eB (Sum.inl b) then β b else 0) (hβ : ∀ b, β b ≠ 0)
    (z : N → R) (hz : d2 *ᵥ z = 0)
    (hfree : pFree P1 Q2i (fun b => eN (Sum.inr b)) (fun f => eB (Sum.inr f)) *ᵥ z = 0)
    (htor : ∀ t, α (jT t) ∣ (pTor P1 (fun t => eN (Sum.inl (jT t))) *ᵥ z) t) :
    ∃ x : M → R, d1 *ᵥ x = z := by
  set iA : A → N := fun a => eN (Sum.inl a) with hiA
  set iB : B → N := fun b => eN (Sum.inr b) with hiB
  set y : N → R := P1 *ᵥ z with hy
  have hzy : z = P1i *ᵥ y := by rw [hy, Matrix.mulVec_mulVec, hP1, Matrix.one_mulVec]
  set yB : B → R := fun b => y (iB b) with hyB
  -- d2' yB = 0
  have h2' : d2' d2 P1i iB *ᵥ yB = 0 := by
    have : d2 *ᵥ z = (d2 * P1i) *ᵥ y := by rw [hzy, Matrix.mulVec_mulVec]
    rw [this] at hz
    ext k
    have hk := congrFun hz k
    simp only [Matrix.mulVec, dotProduct, Pi.zero_apply] at hk ⊢
    rw [← Equiv.sum_comp eN, Fintype.sum_sum_type] at hk
    have hA : ∑ a : A, (d2 * P1i) k (eN (Sum.inl a)) * y (eN (Sum.inl a)) = 0 := by
      apply Finset.sum_eq_zero; intro a _
      rw [d2P1i_col_zero d1 d2 P1 P1i Q1 S1 iA cA α hdd hS1 hP1 hcolA hα k a, zero_mul]
    rw [hA, zero_add] at hk
    simpa [d2', Matrix.mul_apply, yB, iB] using hk
  -- w = Q2⁻¹ yB vanishes
  set w : B → R := Q2i *ᵥ yB with hw
  have hyw : yB = Q2 *ᵥ w := by rw [hw, Matrix.mulVec_mulVec, hQ2, Matrix.one_mulVec]
  have hS2w : S2 *ᵥ w = 0 := by
    rw [hS2, ← Matrix.mulVec_mulVec, ← Matrix.mulVec_mulVec, ← hyw, h2', Matrix.mulVec_zero]
  have hw0 : w = 0 := by
    ext b
    obtain ⟨s, rfl⟩ := eB.surjective b
    cases s with
    | inl b2 =>
      have := congrFun hS2w (rB b2)
      simp only [Matrix.mulVec, dotProduct, hrow2, Pi.zero_apply] at this
      rw [Finset.sum_eq_single (eB (Sum.inl b2))] at this
      · simp only [if_true] at this
        exact (mul_eq_zero.mp this).resolve_left (hβ b2)
      · intro c _ hc; simp [hc]
      · intro h; exact absurd (Finset.mem_univ _) h
    | inr f =>
      have := congrFun hfree f
      simp only [pFree, Pi.zero_apply] at this
      rw [← Matrix.mulVec_mulVec] at this
      have e : (P1.submatrix iB id) *ᵥ z = yB := by
        ext b; simp [Matrix.mulVec, dotProduct, yB, y]
      rw [e] at this
      simpa [Matrix.mulVec, dotProduct, w] using this
  have hyB0 : ∀ b, y (iB b) = 0 := by
    intro b
    have := congrFun hyw b
    rw [hw0, Matrix.mulVec_zero] at this
    exact this
  -- the image part is divisible by the diagonal
  have hdiv : ∀ a, α a ∣ y (iA a) := by
    intro a
    rcases hunit a with ⟨t, rfl⟩ | hu
    · have := htor t
      simpa [pTor, Matrix.mulVec, dotProduct, y, iA] using this
    · exact hu.dvd
  choose c hc using hdiv
  have hcA : Function.Injective cA := by
    intro a a' h
    have h1 := hrowA a (cA a')
    have h2 := hcolA a' (eN (Sum.inl a))
    rw [if_pos h.symm] at h1
    rw [h1] at h2
    by_cases he : eN (Sum.inl a) = eN (Sum.inl a')
    · exact Sum.inl_injective (eN.injective he)
    · rw [if_neg he] at h2; exact absurd h2 (hα a)
  -- x' has entry c a at column cA a
  let x' : M → R := fun j => ∑ a, if j = cA a then c a else 0
  have hx' : ∀ a, x' (cA a) = c a := by
    intro a
    simp only [x']
    rw [Finset.sum_eq_single a]
    · simp
    · intro b _ hb
      have : cA a ≠ cA b := fun h => hb (hcA h).symm
      simp [this]
    · intro h; exact absurd (Finset.mem_univ _) h
  have hSx : S1 *ᵥ x' = y := by
    ext i
    obtain ⟨s, rfl⟩ := eN.surjective i
    cases s with
    | inl a =>
      simp only [Matrix.mulVec, dotProduct, hrowA]
      rw [Finset.sum_eq_single (cA a)]
      · simp only [if_true]; rw [hx' a]; exact (hc a).symm
      · intro j _ hj; simp [hj]
      · intro h; exact absurd (Finset.mem_univ _) h
    | inr b =>
      simp only [Matrix.mulVec, dotProduct, hrowB, zero_mul, Finset.sum_const_zero]
      exact (hyB0 b).symm
  refine ⟨Q1 *ᵥ x', ?_⟩
  rw [hzy, ← hSx, hS1, Matrix.mulVec_mulVec, Matrix.mulVec_mulVec]
  congr 1
  calc d1 * Q1 = (P1i * P1) * d1 * Q1 := by rw [hP1, Matrix.one_mul]
    _ = P1i * (P1 * d1 * Q1) := by simp only [Matrix.mul_assoc]

end inj
end Yuiv.C07
