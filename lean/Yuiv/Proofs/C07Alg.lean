import Mathlib.Data.Matrix.ColumnRowPartitioned
import Mathlib.Data.Matrix.Block
/-
C07 — algebraic core of `HomologyCalc::trans` (yui-homology/src/utils/homology_calc.rs).

        d1             d2
   C1 ------> C2 ------------> C3          index types:  C1 = `M`, C2 = `N`, C3 = `K`

`s1 = snf(d1)` gives `P1`, `P1⁻¹` (flags `[with_trans, true, false, false]`), `S1 = P1·d1·Q1`;
`d2' = d2 · P1⁻¹[:, r1..n]`;  `s2 = snf(d2')` gives `Q2`, `Q2⁻¹`, `S2 = P2·d2'·Q2`.

Row/column *ranges* of the code are modelled by arbitrary index maps, so that one statement covers every
way of cutting out the blocks (in particular the `Fin` ranges of the code, see `Props/C07.lean`):

    iB : B → N      rows  r1..n            of P1 / columns of P1⁻¹      ("C21'", complement of the image part)
    iT : T → N      rows  r1-t..r1                                      (torsion part)
    iF : F → B      rows  r2..n-r1         of Q2⁻¹ / columns of Q2      ("C22'", free part)

The matrices built by the code:

    p = [ Q2⁻¹[r2.., :] · P1[r1.., :] ;  P1[r1-t..r1, :] ]            (stack)
    q = [ P1⁻¹[:, r1..] · Q2[:, r2..] |  P1⁻¹[:, r1-t..r1] ]          (concat)
-/
set_option linter.unusedSectionVars false

namespace Yuiv.C07
open Matrix

variable {R : Type*} [CommRing R]
variable {M N K B F T : Type*}
variable [Fintype M] [Fintype N] [Fintype K] [Fintype B] [Fintype F] [Fintype T]
variable [DecidableEq M] [DecidableEq N] [DecidableEq K] [DecidableEq B] [DecidableEq F] [DecidableEq T]

/-- `d2' = d2 * p1_inv.submat_cols(r1..n)` -/
def d2' (d2 : Matrix K N R) (P1i : Matrix N N R) (iB : B → N) : Matrix K B R :=
  d2 * P1i.submatrix id iB

/-- `p_free = p22 * p11`, `p22 = qinv2.submat_rows(r2..n-r1)`, `p11 = p1.submat_rows(r1..n)` -/
def pFree (P1 : Matrix N N R) (Q2i : Matrix B B R) (iB : B → N) (iF : F → B) : Matrix F N R :=
  Q2i.submatrix iF id * P1.submatrix iB id

/-- `p_tor = p1.submat_rows(r1-t..r1)` -/
def pTor (P1 : Matrix N N R) (iT : T → N) : Matrix T N R := P1.submatrix iT id

/-- `p = p_free.stack(&p_tor)` -/
def pMat (P1 : Matrix N N R) (Q2i : Matrix B B R) (iB : B → N) (iT : T → N) (iF : F → B) :
    Matrix (F ⊕ T) N R :=
  fromRows (pFree P1 Q2i iB iF) (pTor P1 iT)

/-- `q_free = q12 * q22`, `q12 = pinv1.submat_cols(r1..n)`, `q22 = q2.submat_cols(r2..n-r1)` -/
def qFree (P1i : Matrix N N R) (Q2 : Matrix B B R) (iB : B → N) (iF : F → B) : Matrix N F R :=
  P1i.submatrix id iB * Q2.submatrix id iF

/-- `q_tor = pinv1.submat_cols(r1-t..r1)` -/
def qTor (P1i : Matrix N N R) (iT : T → N) : Matrix N T R := P1i.submatrix id iT

/-- `q = q_free.concat(&q_tor)` -/
def qMat (P1i : Matrix N N R) (Q2 : Matrix B B R) (iB : B → N) (iT : T → N) (iF : F → B) :
    Matrix N (F ⊕ T) R :=
  fromCols (qFree P1i Q2 iB iF) (qTor P1i iT)

/-! ### helper lemmas -/

theorem sub_rows_mul_sub_cols {A : Type*} {C : Type*} (X Y : Matrix N N R) (f : A → N) (g : C → N) :
    X.submatrix f id * Y.submatrix id g = (X * Y).submatrix f g := by
  ext i j; simp [Matrix.mul_apply]

theorem one_submatrix_disjoint {A C : Type*} (f : A → N) (g : C → N) (h : ∀ a c, f a ≠ g c) :
    (1 : Matrix N N R).submatrix f g = 0 := by
  ext i j; simp [h i j]

/-- `P·Q = I` for the assembled maps -/
theorem pq_eq_one (P1 P1i : Matrix N N R) (Q2 Q2i : Matrix B B R) (iB : B → N) (iT : T → N) (iF : F → B)
    (h1 : P1 * P1i = 1) (h2 : Q2i * Q2 = 1)
    (hB : Function.Injective iB) (hT : Function.Injective iT) (hF : Function.Injective iF)
    (hBT : ∀ b t, iB b ≠ iT t) :
    pMat P1 Q2i iB iT iF * qMat P1i Q2 iB iT iF = 1 := by
  unfold pMat qMat
  rw [fromRows_mul_fromCols, ← fromBlocks_one]
  have e1 : P1.submatrix iB id * P1i.submatrix id iB = 1 := by
    rw [sub_rows_mul_sub_cols, h1, submatrix_one _ hB]
  have e2 : P1.submatrix iB id * P1i.submatrix id iT = 0 := by
    rw [sub_rows_mul_sub_cols, h1, one_submatrix_disjoint _ _ hBT]
  have e3 : P1.submatrix iT id * P1i.submatrix id iB = 0 := by
    rw [sub_rows_mul_sub_cols, h1, one_submatrix_disjoint _ _ (fun t b => (hBT b t).symm)]
  have e4 : P1.submatrix iT id * P1i.submatrix id iT = 1 := by
    rw [sub_rows_mul_sub_cols, h1, submatrix_one _ hT]
  congr 1
  · unfold pFree qFree
    calc Q2i.submatrix iF id * P1.submatrix iB id * (P1i.submatrix id iB * Q2.submatrix id iF)
        = Q2i.submatrix iF id * (P1.submatrix iB id * P1i.submatrix id iB) * Q2.submatrix id iF := by
          simp only [Matrix.mul_assoc]
      _ = 1 := by rw [e1, Matrix.mul_one, sub_rows_mul_sub_cols, h2, submatrix_one _ hF]
  · unfold pFree qTor
    rw [Matrix.mul_assoc, e2, Matrix.mul_zero]
  · unfold pTor qFree
    rw [← Matrix.mul_assoc, e3, Matrix.zero_mul]

/-- the torsion generators are cycles: columns `iT t` of `d2·P1⁻¹` vanish, because `d2·P1⁻¹·S1 = d2·d1·Q1 = 0`
and column `cT t` of `S1` is `a t ≠ 0` at row `iT t` and zero elsewhere -/
theorem d2_mul_qTor [NoZeroDivisors R] (d1 : Matrix N M R) (d2 : Matrix K N R) (P1 P1i : Matrix N N R)
    (Q1 : Matrix M M R) (S1 : Matrix N M R) (iT : T → N) (cT : T → M) (a : T → R)
    (hdd : d2 * d1 = 0) (hS1 : S1 = P1 * d1 * Q1) (h1 : P1i * P1 = 1)
    (hcol : ∀ t i, S1 i (cT t) = if i = iT t then a t else 0) (ha : ∀ t, a t ≠ 0) :
    d2 * qTor P1i iT = 0 := by
  have hX : (d2 * P1i) * S1 = 0 := by
    rw [hS1]
    calc d2 * P1i * (P1 * d1 * Q1) = d2 * (P1i * P1) * d1 * Q1 := by simp only [Matrix.mul_assoc]
      _ = 0 := by rw [h1, Matrix.mul_one, hdd, Matrix.zero_mul]
  ext k t
  have := congrFun (congrFun hX k) (cT t)
  simp only [Matrix.mul_apply, hcol, Matrix.zero_apply] at this
  rw [Finset.sum_eq_single (iT t)] at this
  · simp only [if_true] at this
    have h0 := (mul_eq_zero.mp this).resolve_right (ha t)
    simp only [qTor, Matrix.mul_apply, Matrix.submatrix_apply, id, Matrix.zero_apply]
    exact h0
  · intro b _ hb; simp [hb]
  · intro h; exact absurd (Finset.mem_univ _) h

/-- the free generators are cycles: `d2·q_free = (d2'·Q2)[:, r2..] = (P2⁻¹·S2)[:, r2..] = 0` -/
theorem d2_mul_qFree (d2 : Matrix K N R) (P1i : Matrix N N R) (Q2 : Matrix B B R)
    (P2 P2i : Matrix K K R) (S2 : Matrix K B R) (iB : B → N) (iF : F → B)
    (hS2 : S2 = P2 * d2' d2 P1i iB * Q2) (h2 : P2i * P2 = 1) (hcol : ∀ i f, S2 i (iF f) = 0) :
    d2 * qFree P1i Q2 iB iF = 0 := by
  have hX : d2' d2 P1i iB * Q2 = P2i * S2 := by
    rw [hS2]
    calc d2' d2 P1i iB * Q2 = (P2i * P2) * d2' d2 P1i iB * Q2 := by rw [h2, Matrix.one_mul]
      _ = P2i * (P2 * d2' d2 P1i iB * Q2) := by simp only [Matrix.mul_assoc]
  unfold qFree
  rw [← Matrix.mul_assoc]
  change d2' d2 P1i iB * Q2.submatrix id iF = 0
  have : d2' d2 P1i iB * Q2.submatrix id iF = (d2' d2 P1i iB * Q2).submatrix id iF := by
    ext i j; simp [Matrix.mul_apply]
  rw [this, hX]
  ext i f
  simp [Matrix.mul_apply, hcol]

/-- `P1·d1 = S1·Q1⁻¹` -/
theorem p1_mul_d1 (d1 : Matrix N M R) (P1 : Matrix N N R) (Q1 Q1i : Matrix M M R) (S1 : Matrix N M R)
    (hS1 : S1 = P1 * d1 * Q1) (hq : Q1 * Q1i = 1) : P1 * d1 = S1 * Q1i := by
  rw [hS1, Matrix.mul_assoc (P1 * d1), hq, Matrix.mul_one]

/-- boundaries have zero free coordinates -/
theorem pFree_mul_d1 (d1 : Matrix N M R) (P1 : Matrix N N R) (Q1 Q1i : Matrix M M R) (S1 : Matrix N M R)
    (Q2i : Matrix B B R) (iB : B → N) (iF : F → B)
    (hS1 : S1 = P1 * d1 * Q1) (hq : Q1 * Q1i = 1) (hrow : ∀ b j, S1 (iB b) j = 0) :
    pFree P1 Q2i iB iF * d1 = 0 := by
  unfold pFree
  have : P1.submatrix iB id * d1 = (P1 * d1).submatrix iB id := by
    ext i j; simp [Matrix.mul_apply]
  rw [Matrix.mul_assoc, this, p1_mul_d1 d1 P1 Q1 Q1i S1 hS1 hq]
  have : (S1 * Q1i).submatrix iB id = 0 := by
    ext i j; simp [Matrix.mul_apply, hrow]
  rw [this, Matrix.mul_zero]

/-- torsion coordinates of boundaries: row `t` of `p_tor·d1` is `a t` times row `cT t` of `Q1⁻¹` -/
theorem pTor_mul_d1 (d1 : Matrix N M R) (P1 : Matrix N N R) (Q1 Q1i : Matrix M M R) (S1 : Matrix N M R)
    (iT : T → N) (cT : T → M) (a : T → R)
    (hS1 : S1 = P1 * d1 * Q1) (hq : Q1 * Q1i = 1)
    (hrow : ∀ t j, S1 (iT t) j = if j = cT t then a t else 0) :
    pTor P1 iT * d1 = Matrix.of fun t j => a t * Q1i (cT t) j := by
  unfold pTor
  have : P1.submatrix iT id * d1 = (P1 * d1).submatrix iT id := by
    ext i j; simp [Matrix.mul_apply]
  rw [this, p1_mul_d1 d1 P1 Q1 Q1i S1 hS1 hq]
  ext t j
  simp only [Matrix.submatrix_apply, id, Matrix.mul_apply, hrow, Matrix.of_apply]
  rw [Finset.sum_eq_single (cT t)]
  · simp
  · intro b _ hb; simp [hb]
  · intro h; exact absurd (Finset.mem_univ _) h

end Yuiv.C07
