import Yuiv.Gen.FFFn
import Yuiv.Model.C14
/-
Helper definitions and lemmas for `Yuiv/Props/C14GenF.lean` (no property theorem here).

`Yuiv.GenFF.*` is GENERATED from `/repo/yui/src/types/ff.rs` and `f2.rs` by `tools/rs2lean_fn.py fn:ff`.  The hand
model `C14.FF.*` represents an element of `FF<p>` by its representative (an `Int`), `C14.FF2.*` by a `Bool`; the
generated tuple structs `FFS`, `FF2S` are mapped to them by the field `f0`.
-/
namespace Yuiv.GenF
open Yuiv Res Yuiv.Rust Yuiv.GenFF

def mapR {α β} (f : α → β) : Res α → Res β
  | .ok a => .ok (f a)
  | .panic => .panic
  | .err => .err

theorem mapR_ok {α β} (f : α → β) (a : α) : mapR f (ok a) = ok (f a) := rfl
theorem mapR_panic {α β} (f : α → β) : mapR f (.panic : Res α) = .panic := rfl
theorem mapR_err {α β} (f : α → β) : mapR f (.err : Res α) = .err := rfl
theorem mapR_bind {α β γ} (f : β → γ) (x : Res α) (g : α → Res β) :
    mapR f (x >>= g) = x >>= fun a => mapR f (g a) := by cases x <;> rfl
theorem mapR_ite {α β} (f : α → β) (c : Prop) [Decidable c] (x y : Res α) :
    mapR f (if c then x else y) = if c then mapR f x else mapR f y := by split <;> rfl
theorem bind_assoc' {α β γ} (x : Res α) (f : α → Res β) (g : β → Res γ) :
    ((x >>= f) >>= g) = (x >>= fun a => f a >>= g) := by cases x <;> rfl
theorem ite_bind {α β} (c : Prop) [Decidable c] (x y : Res α) (f : α → Res β) :
    ((if c then x else y) >>= f) = if c then x >>= f else y >>= f := by split <;> rfl
theorem bind_congr' {α β} (x : Res α) {f g : α → Res β} (h : ∀ a, f a = g a) : (x >>= f) = (x >>= g) := by
  cases x <;> simp [h]
theorem assert_true : Res.assert true = ok () := rfl
theorem assert_false : Res.assert false = (.panic : Res Unit) := rfl

/-! ### the checked i32 operations of `RustI32` are the model's `chk32` arithmetic -/

theorem chk_eq (x : Int) : I32.chk x = C14.chk32 x := rfl
theorem add_eq (a b : Int) : I32.add a b = C14.chk32 (a + b) := rfl
theorem sub_eq (a b : Int) : I32.sub a b = C14.chk32 (a - b) := rfl
theorem mul_eq (a b : Int) : I32.mul a b = C14.chk32 (a * b) := rfl
theorem neg_eq (a : Int) : I32.neg a = C14.chk32 (-a) := rfl

theorem xgcdLoop_eq (n : Nat) (r s t : Int × Int) : I32.xgcdLoop n r s t = C14.FF.xgcdLoop n r s t := by
  induction n generalizing r s t with
  | zero => rfl
  | succ n ih => simp only [I32.xgcdLoop, C14.FF.xgcdLoop, ih]

theorem gcdx_eq (x y : Int) : I32.gcdx x y = C14.FF.gcdx x y := by
  unfold I32.gcdx C14.FF.gcdx
  simp only [xgcdLoop_eq]

end Yuiv.GenF
