import Yuiv.Proofs.C10TermHnfP
import Mathlib.Data.Prod.Lex
/-
C10 — TERMINATION of the Hermite variant `lll_hnf` (helper lemmas; no property theorem here).

Every iteration of `LLLHNFCalc::iterate` strictly decreases the lexicographic measure (all components in ℕ)

    ( C1 = Σ_i (n − L_i),  C2 = Σ_i V_i,  C3 = Σ_i i·L_i,  C4 = Σ_i (m − i)·V_i,  pot = ∏_i det[i],  m − step )

with `L_i` the leading column of row `i` of `target` (`n` for a zero row) and `V_i = |target[i][L_i]|` (0 for a zero
row):
  * `reduce(i, k)` only changes the key `(L_k, V_k)` of row `k`: the leading column moves right (C1 ↓) or stays with
    `V_k` not larger (C2 ↓ or everything unchanged); it never touches `det`;
  * a swap of rows `k-1, k` is done because
      – `L_{k-1} < L_k` (including a zero row `k`): C1, C2 unchanged, C3 ↓;
      – `L_{k-1} = L_k < n`: after `reduce(k-1,k)`, `V_k < V_{k-1}`: C1, C2, C3 unchanged, C4 ↓ (a Euclidean step);
      – both rows are zero and the Lovász test on the Gram–Schmidt data of `P` failed: C1 … C4 unchanged, `pot` ↓;
  * otherwise `step` advances.
No explicit fuel bound comes out of this (after a swap of the first two kinds `pot` may grow).
-/
namespace Yuiv.C10
open Yuiv Res Finset

/-! ### sums that change in one or two places -/

theorem sum_change_one (m k : Nat) (hk : k < m) (g g' : Nat → Nat) (h : ∀ i < m, i ≠ k → g' i = g i) :
    ∑ i ∈ range m, g' i + g k = ∑ i ∈ range m, g i + g' k := by
  have hmem : k ∈ range m := mem_range.mpr hk
  rw [← Finset.add_sum_erase _ g hmem, ← Finset.add_sum_erase _ g' hmem]
  have : ∑ x ∈ (range m).erase k, g' x = ∑ x ∈ (range m).erase k, g x :=
    Finset.sum_congr rfl (fun i hi => h i (mem_range.mp (Finset.mem_of_mem_erase hi)) (Finset.ne_of_mem_erase hi))
  rw [this]
  omega

theorem sum_change_two (m a b : Nat) (ha : a < m) (hb : b < m) (hab : a ≠ b) (g g' : Nat → Nat)
    (h : ∀ i < m, i ≠ a → i ≠ b → g' i = g i) :
    ∑ i ∈ range m, g' i + g a + g b = ∑ i ∈ range m, g i + g' a + g' b := by
  let g1 : Nat → Nat := fun i => if i = a then g' a else g i
  have e1 := sum_change_one m a ha g g1 (fun i _ hi => by simp [g1, hi])
  have e2 := sum_change_one m b hb g1 g' (fun i hi hib => by
    by_cases hia : i = a
    · simp [g1, hia]
    · simp only [g1, if_neg hia]; exact h i hi hia hib)
  have e3 : g1 a = g' a := by simp [g1]
  have e4 : g1 b = g b := by simp only [g1, if_neg (Ne.symm hab)]
  omega

/-! ### keys and the components of the measure -/

/-- `|pivot|` of row `i` (0 for a zero row) -/
def hV (n : Nat) (T : Nat → Nat → Int) (i : Nat) : Nat :=
  if leadF n T i < n then (T i (leadF n T i)).natAbs else 0

def hC1 (m n : Nat) (T : Nat → Nat → Int) : Nat := ∑ i ∈ range m, (n - leadF n T i)
def hC2 (m n : Nat) (T : Nat → Nat → Int) : Nat := ∑ i ∈ range m, hV n T i
def hC3 (m n : Nat) (T : Nat → Nat → Int) : Nat := ∑ i ∈ range m, i * leadF n T i
def hC4 (m n : Nat) (T : Nat → Nat → Int) : Nat := ∑ i ∈ range m, (m - i) * hV n T i

abbrev HM := ℕ ×ₗ ℕ ×ₗ ℕ ×ₗ ℕ ×ₗ ℕ

def hmk (a b c e f : Nat) : HM := toLex (a, toLex (b, toLex (c, toLex (e, f))))

/-- the first five components of the measure -/
def hnfM (d : Data) : HM :=
  hmk (hC1 d.tr.m d.tr.n (ent d.tr.target)) (hC2 d.tr.m d.tr.n (ent d.tr.target))
    (hC3 d.tr.m d.tr.n (ent d.tr.target)) (hC4 d.tr.m d.tr.n (ent d.tr.target)) d.pot

theorem hmk_le {a b c e f a' b' c' e' f' : ℕ}
    (h : a' < a ∨ (a' = a ∧ (b' < b ∨ (b' = b ∧ (c' < c ∨ (c' = c ∧ (e' < e ∨ (e' = e ∧ f' ≤ f)))))))) :
    hmk a' b' c' e' f' ≤ hmk a b c e f := by
  unfold hmk
  simp only [Prod.Lex.toLex_le_toLex]
  exact h

theorem hmk_lt {a b c e f a' b' c' e' f' : ℕ}
    (h : a' < a ∨ (a' = a ∧ (b' < b ∨ (b' = b ∧ (c' < c ∨ (c' = c ∧ (e' < e ∨ (e' = e ∧ f' < f)))))))) :
    hmk a' b' c' e' f' < hmk a b c e f := by
  unfold hmk
  simp only [Prod.Lex.toLex_lt_toLex]
  exact h

theorem hV_congr (n : Nat) (T T' : Nat → Nat → Int) (i i' : Nat) (h : ∀ c < n, T' i' c = T i c) :
    hV n T' i' = hV n T i := by
  unfold hV
  rw [leadF_congr n T T' i i' h]
  split
  · rename_i hl; rw [h _ hl]
  · rfl

theorem hV_sign (n : Nat) (T T' : Nat → Nat → Int) (i : Nat) (u : Int) (hu : u = 1 ∨ u = -1)
    (h : ∀ c < n, T' i c = T i c * u) : leadF n T' i = leadF n T i ∧ hV n T' i = hV n T i := by
  obtain ⟨s1, s2, s3⟩ := leadF_spec n T i
  have hL : leadF n T' i = leadF n T i := by
    refine leadF_unique n T' i _ s1 (fun j hj => ?_) (fun hlt => ?_)
    · rw [h j (by omega), s2 j hj, zero_mul]
    · rw [h _ hlt]
      rcases hu with rfl | rfl
      · simpa using s3 hlt
      · simpa using s3 hlt
  refine ⟨hL, ?_⟩
  unfold hV
  rw [hL]
  split
  · rename_i hl
    rw [h _ hl]
    rcases hu with rfl | rfl
    · rw [mul_one]
    · rw [mul_neg, mul_one, Int.natAbs_neg]
  · rfl

/-- what `reduce(i, k)` does to the key of row `k` -/
theorem row_reduce_keys (n : Nat) (T T' : Nat → Nat → Int) (i k : Nat) (u r : Int)
    (hTk : ∀ c < n, T' k c = T k c + T i c * u * r)
    (hb : leadF n T i < n → 0 < T i (leadF n T i) * u ∧
      |T k (leadF n T i) + T i (leadF n T i) * u * r| ≤ |T k (leadF n T i)|) :
    leadF n T k < leadF n T' k ∨ (leadF n T' k = leadF n T k ∧ hV n T' k ≤ hV n T k) := by
  obtain ⟨i1, i2, i3⟩ := leadF_spec n T i
  obtain ⟨k1, k2, k3⟩ := leadF_spec n T k
  obtain ⟨k1', k2', k3'⟩ := leadF_spec n T' k
  have hsame : (∀ c < n, T' k c = T k c) → leadF n T' k = leadF n T k ∧ hV n T' k ≤ hV n T k :=
    fun h => ⟨leadF_congr n T T' k k h, le_of_eq (hV_congr n T T' k k h)⟩
  rcases Nat.lt_or_ge (leadF n T i) n with hl | hl
  · obtain ⟨p1, p2⟩ := hb hl
    have hne : T i (leadF n T i) * u ≠ 0 := ne_of_gt p1
    rcases Nat.lt_trichotomy (leadF n T k) (leadF n T i) with hlt | heq | hgt
    · -- row `i` vanishes on the columns `≤ L_k`
      right
      have hc : ∀ c < n, c ≤ leadF n T k → T' k c = T k c := by
        intro c hc hle
        rw [hTk c hc, i2 c (by omega), zero_mul, zero_mul, add_zero]
      have hL := leadF_congr_le n T T' k hc
      refine ⟨hL, ?_⟩
      unfold hV
      rw [hL, if_pos (by omega), if_pos (by omega), hc _ (by omega) (le_refl _)]
    · rw [← heq] at p2 hne i2
      have hz : ∀ c < leadF n T k, T' k c = 0 := by
        intro c hc
        rw [hTk c (by omega), k2 c hc, i2 c hc, zero_mul, zero_mul, add_zero]
      have hkn : leadF n T k < n := by omega
      by_cases hzero : T' k (leadF n T k) = 0
      · left
        by_contra hcon
        have hle : leadF n T' k ≤ leadF n T k := by omega
        have := k3' (by omega)
        rcases Nat.lt_or_ge (leadF n T' k) (leadF n T k) with h1 | h1
        · exact this (hz _ h1)
        · have : leadF n T' k = leadF n T k := by omega
          rw [this] at k3'
          exact k3' hkn hzero
      · right
        have hL : leadF n T' k = leadF n T k := leadF_unique n T' k _ k1 hz (fun _ => hzero)
        refine ⟨hL, ?_⟩
        unfold hV
        rw [hL, if_pos hkn, if_pos hkn, hTk _ hkn]
        have := p2
        rw [Int.abs_eq_natAbs, Int.abs_eq_natAbs] at this
        exact_mod_cast this
    · -- `T k (L_i) = 0`, so nothing is added
      right
      have hz : T k (leadF n T i) = 0 := k2 _ hgt
      rw [hz, zero_add, abs_zero] at p2
      have hr : r = 0 := by
        have h0 : T i (leadF n T i) * u * r = 0 := abs_nonpos_iff.mp p2
        rcases mul_eq_zero.mp h0 with h | h
        · exact absurd h hne
        · exact h
      exact hsame (fun c hc => by rw [hTk c hc, hr, mul_zero, add_zero])
  · right
    exact hsame (fun c hc => by rw [hTk c hc, i2 c (by omega), zero_mul, zero_mul, add_zero])

/-- a change of the key of one row `k` that moves its leading column to the right, or keeps it and does not increase
`|pivot|`, does not increase `(C1, C2, C3, C4)` lexicographically -/
theorem hmk_le_of_row_change (m n : Nat) (T T' : Nat → Nat → Int) (k : Nat) (hk : k < m) (p : Nat)
    (hoth : ∀ i < m, i ≠ k → leadF n T' i = leadF n T i ∧ hV n T' i = hV n T i)
    (hrow : leadF n T k < leadF n T' k ∨ (leadF n T' k = leadF n T k ∧ hV n T' k ≤ hV n T k)) :
    hmk (hC1 m n T') (hC2 m n T') (hC3 m n T') (hC4 m n T') p
      ≤ hmk (hC1 m n T) (hC2 m n T) (hC3 m n T) (hC4 m n T) p := by
  apply hmk_le
  rcases hrow with hlt | ⟨hL, hV'⟩
  · left
    have e : ∑ i ∈ range m, (n - leadF n T' i) + (n - leadF n T k)
        = ∑ i ∈ range m, (n - leadF n T i) + (n - leadF n T' k) :=
      sum_change_one m k hk (fun i => n - leadF n T i) (fun i => n - leadF n T' i)
        (fun i hi hik => by show n - leadF n T' i = n - leadF n T i; rw [(hoth i hi hik).1])
    have := (leadF_spec n T' k).1
    unfold hC1
    omega
  · right
    have hLall : ∀ i < m, leadF n T' i = leadF n T i := by
      intro i hi
      by_cases hik : i = k
      · rw [hik]; exact hL
      · exact (hoth i hi hik).1
    refine ⟨Finset.sum_congr rfl (fun i hi => by rw [hLall i (mem_range.mp hi)]), ?_⟩
    rcases Nat.lt_or_ge (hV n T' k) (hV n T k) with hlt | hge
    · left
      have e : ∑ i ∈ range m, hV n T' i + hV n T k = ∑ i ∈ range m, hV n T i + hV n T' k :=
        sum_change_one m k hk (fun i => hV n T i) (fun i => hV n T' i) (fun i hi hik => (hoth i hi hik).2)
      unfold hC2
      omega
    · right
      have hVall : ∀ i < m, hV n T' i = hV n T i := by
        intro i hi
        by_cases hik : i = k
        · rw [hik]; omega
        · exact (hoth i hi hik).2
      refine ⟨Finset.sum_congr rfl (fun i hi => hVall i (mem_range.mp hi)), Or.inr ⟨?_, Or.inr ⟨?_, le_refl p⟩⟩⟩
      · exact Finset.sum_congr rfl (fun i hi => by rw [hLall i (mem_range.mp hi)])
      · exact Finset.sum_congr rfl (fun i hi => by rw [hVall i (mem_range.mp hi)])

theorem Data.pot_congr (d d' : Data) (hm : d'.tr.m = d.tr.m) (hdet : d'.det = d.det) : d'.pot = d.pot := by
  unfold Data.pot Data.dv
  rw [hm, hdet]

/-- `LLLHNFCalc::reduce(i, k)` does not increase `(C1, C2, C3, C4, pot)` -/
theorem hnfReduce_M_le (d d' : Data) (i k : Nat) (h : hnfReduce d i k = ok d') : hnfM d' ≤ hnfM d := by
  obtain ⟨hik, hk, u, r, hu, ⟨m1, n1, _, t1⟩, hb, hdet⟩ := hnfReduce_tgt d d' i k h
  unfold hnfM
  rw [Data.pot_congr d d' m1 hdet, m1, n1]
  apply hmk_le_of_row_change _ _ _ _ k hk
  · intro a ha hak
    by_cases hai : a = i
    · subst hai
      exact hV_sign _ _ _ a u hu (fun c hc => by
        rw [t1 a ha c hc]
        show (if a = a then _ else _) = _
        rw [if_pos rfl])
    · have e : ∀ c < d.tr.n, ent d'.tr.target a c = ent d.tr.target a c := by
        intro c hc
        rw [t1 a ha c hc]
        show (if a = i then _ else if a = k then _ else _) = _
        rw [if_neg hai, if_neg hak]
      exact ⟨leadF_congr _ _ _ a a e, hV_congr _ _ _ a a e⟩
  · refine row_reduce_keys _ _ _ i k u r (fun c hc => ?_) (fun hl => ⟨(hb hl).1, (hb hl).2.2⟩)
    rw [t1 k hk c hc]
    show (if k = i then _ else if k = k then _ else _) = _
    rw [if_neg (by omega), if_pos rfl]

theorem revLoop_hnf_M_le (k : Nat) : ∀ (cnt : Nat) (d d' : Data),
    revLoop (fun d i => hnfReduce d i k) d cnt = ok d' → hnfM d' ≤ hnfM d := by
  intro cnt
  induction cnt with
  | zero =>
    intro d d' h
    simp only [revLoop, pure_eq, Res.ok.injEq] at h
    subst h
    exact le_refl _
  | succ cnt ih =>
    intro d d' h
    simp only [revLoop, bind_eq_ok] at h
    obtain ⟨d1, h1, h2⟩ := h
    exact le_trans (ih d1 d' h2) (hnfReduce_M_le d d1 cnt k h1)

/-- exchanging the adjacent rows `k-1`, `k` -/
theorem hmk_swap (m n : Nat) (T T' : Nat → Nat → Int) (k : Nat) (hk0 : 1 ≤ k) (hk : k < m)
    (hsw : ∀ a < m, ∀ c < n, T' a c = T (if a = k - 1 then k else if a = k then k - 1 else a) c) (p p' : Nat)
    (hcase : leadF n T (k - 1) < leadF n T k ∨
      (leadF n T (k - 1) = leadF n T k ∧ hV n T k < hV n T (k - 1)) ∨
      (leadF n T (k - 1) = leadF n T k ∧ hV n T k = hV n T (k - 1) ∧ p' < p)) :
    hmk (hC1 m n T') (hC2 m n T') (hC3 m n T') (hC4 m n T') p'
      < hmk (hC1 m n T) (hC2 m n T) (hC3 m n T) (hC4 m n T) p := by
  obtain ⟨q, rfl⟩ : ∃ q, k = q + 1 := ⟨k - 1, by omega⟩
  simp only [Nat.add_sub_cancel] at hsw hcase
  have hq : q < m := by omega
  have hne : q ≠ q + 1 := by omega
  -- rows of `T'`
  have r1 : ∀ c < n, T' q c = T (q + 1) c := fun c hc => by rw [hsw q hq c hc, if_pos rfl]
  have r2 : ∀ c < n, T' (q + 1) c = T q c := fun c hc => by
    rw [hsw (q + 1) hk c hc, if_neg (by omega), if_pos rfl]
  have r3 : ∀ a < m, a ≠ q → a ≠ q + 1 → ∀ c < n, T' a c = T a c := fun a ha h1 h2 c hc => by
    rw [hsw a ha c hc, if_neg h1, if_neg h2]
  have L1 := leadF_congr n T T' (q + 1) q r1
  have L2 := leadF_congr n T T' q (q + 1) r2
  have L3 : ∀ a < m, a ≠ q → a ≠ q + 1 → leadF n T' a = leadF n T a :=
    fun a ha h1 h2 => leadF_congr n T T' a a (r3 a ha h1 h2)
  have V1 := hV_congr n T T' (q + 1) q r1
  have V2 := hV_congr n T T' q (q + 1) r2
  have V3 : ∀ a < m, a ≠ q → a ≠ q + 1 → hV n T' a = hV n T a :=
    fun a ha h1 h2 => hV_congr n T T' a a (r3 a ha h1 h2)
  -- the symmetric sums do not change
  have e1 : hC1 m n T' = hC1 m n T := by
    have e : ∑ i ∈ range m, (n - leadF n T' i) + (n - leadF n T q) + (n - leadF n T (q + 1))
        = ∑ i ∈ range m, (n - leadF n T i) + (n - leadF n T' q) + (n - leadF n T' (q + 1)) :=
      sum_change_two m q (q + 1) hq hk hne (fun i => n - leadF n T i) (fun i => n - leadF n T' i)
        (fun i hi h1 h2 => by show n - leadF n T' i = n - leadF n T i; rw [L3 i hi h1 h2])
    unfold hC1
    rw [L1, L2] at e
    omega
  have e2 : hC2 m n T' = hC2 m n T := by
    have e : ∑ i ∈ range m, hV n T' i + hV n T q + hV n T (q + 1)
        = ∑ i ∈ range m, hV n T i + hV n T' q + hV n T' (q + 1) :=
      sum_change_two m q (q + 1) hq hk hne (fun i => hV n T i) (fun i => hV n T' i) (fun i hi h1 h2 => V3 i hi h1 h2)
    unfold hC2
    rw [V1, V2] at e
    omega
  have e3 : ∑ i ∈ range m, i * leadF n T' i + q * leadF n T q + (q + 1) * leadF n T (q + 1)
      = ∑ i ∈ range m, i * leadF n T i + q * leadF n T (q + 1) + (q + 1) * leadF n T q := by
    have e : ∑ i ∈ range m, i * leadF n T' i + q * leadF n T q + (q + 1) * leadF n T (q + 1)
        = ∑ i ∈ range m, i * leadF n T i + q * leadF n T' q + (q + 1) * leadF n T' (q + 1) :=
      sum_change_two m q (q + 1) hq hk hne (fun i => i * leadF n T i) (fun i => i * leadF n T' i)
        (fun i hi h1 h2 => by show i * leadF n T' i = i * leadF n T i; rw [L3 i hi h1 h2])
    rw [L1, L2] at e
    exact e
  have e4 : ∑ i ∈ range m, (m - i) * hV n T' i + (m - q) * hV n T q + (m - (q + 1)) * hV n T (q + 1)
      = ∑ i ∈ range m, (m - i) * hV n T i + (m - q) * hV n T (q + 1) + (m - (q + 1)) * hV n T q := by
    have e : ∑ i ∈ range m, (m - i) * hV n T' i + (m - q) * hV n T q + (m - (q + 1)) * hV n T (q + 1)
        = ∑ i ∈ range m, (m - i) * hV n T i + (m - q) * hV n T' q + (m - (q + 1)) * hV n T' (q + 1) :=
      sum_change_two m q (q + 1) hq hk hne (fun i => (m - i) * hV n T i) (fun i => (m - i) * hV n T' i)
        (fun i hi h1 h2 => by show (m - i) * hV n T' i = (m - i) * hV n T i; rw [V3 i hi h1 h2])
    rw [V1, V2] at e
    exact e
  apply hmk_lt
  refine Or.inr ⟨e1, Or.inr ⟨e2, ?_⟩⟩
  rcases hcase with hlt | ⟨hL, hV'⟩ | ⟨hL, hV', hp⟩
  · left
    unfold hC3
    rw [Nat.add_mul, Nat.add_mul, Nat.one_mul, Nat.one_mul] at e3
    have := Nat.mul_le_mul_left q (le_of_lt hlt)
    omega
  · right
    rw [hL] at e3
    refine ⟨by unfold hC3; omega, Or.inl ?_⟩
    unfold hC4
    obtain ⟨w, hw⟩ : ∃ w, m - q = w + 1 := ⟨m - q - 1, by omega⟩
    have hw' : m - (q + 1) = w := by omega
    rw [hw, hw', Nat.add_mul, Nat.add_mul, Nat.one_mul, Nat.one_mul] at e4
    have := Nat.mul_le_mul_left w (le_of_lt hV')
    omega
  · right
    rw [hL] at e3
    rw [hV'] at e4
    exact ⟨by unfold hC3; omega, Or.inr ⟨by unfold hC4; omega, hp⟩⟩

/-- `LLLHNFCalc::is_ok(k)` rejected -/
theorem hnfIsOk_false (d : Data) (k : Nat) (h : hnfIsOk d k = ok false) :
    (leadF d.tr.n (ent d.tr.target) (k - 1) < d.tr.n ∧
      leadF d.tr.n (ent d.tr.target) (k - 1) ≤ leadF d.tr.n (ent d.tr.target) k) ∨
    (leadF d.tr.n (ent d.tr.target) (k - 1) = d.tr.n ∧ leadF d.tr.n (ent d.tr.target) k = d.tr.n ∧
      d.lovaszOk k = ok false) := by
  unfold hnfIsOk at h
  rw [assert_bind] at h
  obtain ⟨_, h⟩ := h
  split at h
  · rename_i j l hj hl
    simp only [pure_eq, Res.ok.injEq, decide_eq_false_iff_not] at h
    rw [(nzColIn_some hj).1, (nzColIn_some hl).1]
    exact Or.inl ⟨(nzColIn_some hj).2, by omega⟩
  · rename_i j hj hl
    rw [(nzColIn_some hj).1, nzColIn_none hl]
    exact Or.inl ⟨(nzColIn_some hj).2, le_of_lt (nzColIn_some hj).2⟩
  · simp only [pure_eq, Res.ok.injEq] at h
    cases h
  · rename_i h1 h2
    exact Or.inr ⟨nzColIn_none h1, nzColIn_none h2, h⟩

/-- a swap done because the Lovász test failed makes `pot` smaller (only positivity of `det` is used) -/
theorem swap_pot_lt (d1 d2 : Data) (k : Nat) (hk0 : 0 < k) (hk : k < d1.tr.m) (hsz : d1.det.size = d1.tr.m)
    (hpos : ∀ i < d1.tr.m, 0 < d1.dv i) (hpos2 : 0 < d2.dv (k - 1)) (r2 : d1.swap k = ok d2)
    (hL : ¬ 3 * (d1.dv (k - 1) * d1.dv (k - 1))
      ≤ 4 * (d1.dprev k * d1.dv k + ent d1.lam k (k - 1) * ent d1.lam k (k - 1))) :
    d2.pot < d1.pot := by
  have hpos1 := hpos (k - 1) (by omega)
  obtain ⟨d2', r2', _, m2, _, e2, _⟩ := Data.swap_ok d1 k hk0 hk hsz (ne_of_gt hpos1)
  rw [r2] at r2'
  injection r2' with r2'
  subst r2'
  have hk1sz : k - 1 < d1.det.size := by omega
  have dv2 : ∀ j, d2.dv j = if j = k - 1 then
      (d1.dprev k * d1.dv k + ent d1.lam k (k - 1) * ent d1.lam k (k - 1)).tdiv (d1.dv (k - 1)) else d1.dv j := by
    intro j
    show d2.det.getD j 0 = _
    rw [e2, Data.swap_getD_set _ _ _ _ hk1sz]
    rfl
  have hdp : 0 < d1.dprev k := by
    unfold Data.dprev
    split
    · exact hpos (k - 2) (by omega)
    · exact one_pos
  have hX0 : 0 ≤ d1.dprev k * d1.dv k + ent d1.lam k (k - 1) * ent d1.lam k (k - 1) := by
    have a2 := hpos k hk
    have a3 := mul_self_nonneg (ent d1.lam k (k - 1))
    have a4 := mul_pos hdp a2
    omega
  have hlt : d2.dv (k - 1) < d1.dv (k - 1) := by
    rw [dv2, if_pos rfl, Int.tdiv_eq_ediv_of_nonneg hX0]
    apply Int.ediv_lt_of_lt_mul hpos1
    have := mul_pos hpos1 hpos1
    omega
  show (∏ i ∈ range d2.tr.m, (d2.dv i).toNat) < ∏ i ∈ range d1.tr.m, (d1.dv i).toNat
  rw [m2]
  apply Finset.prod_lt_prod
  · intro i hi
    by_cases hik : i = k - 1
    · rw [hik]; omega
    · rw [dv2, if_neg hik]
      have := hpos i (mem_range.mp hi)
      omega
  · intro i _
    by_cases hik : i = k - 1
    · rw [hik]; omega
    · rw [dv2, if_neg hik]
  · exact ⟨k - 1, mem_range.mpr (by omega), by omega⟩

theorem hV_zero_row (n : Nat) (T : Nat → Nat → Int) (i : Nat) (h : leadF n T i = n) : hV n T i = 0 := by
  unfold hV; rw [h, if_neg (lt_irrefl n)]

/-- ONE ITERATION of the Hermite loop strictly decreases the lexicographic measure -/
theorem hnfIterate_decreases (m n : Nat) (d d' : Data) (h : hnfIterate d = ok d') (hB : d.BookP)
    (hS : HState m n d) (hlt : d.step < d.tr.m) :
    (toLex (hnfM d', m - d'.step) : HM ×ₗ ℕ) < toLex (hnfM d, m - d.step) := by
  obtain ⟨hm, hn, hs1, _, _⟩ := hS
  unfold hnfIterate at h
  simp only [bind_eq_ok] at h
  obtain ⟨d1, h1, b, hb, h⟩ := h
  obtain ⟨k, hk⟩ : ∃ k, d.step = k := ⟨_, rfl⟩
  rw [hk] at h1 hb h hs1
  have hkm : k < m := by omega
  have hM1 := hnfReduce_M_le d d1 (k - 1) k h1
  obtain ⟨_, _, u, r, hu, ⟨m1, n1, s1, t1⟩, hbnd, _⟩ := hnfReduce_tgt d d1 (k - 1) k h1
  rw [Prod.Lex.toLex_lt_toLex]
  cases b with
  | true =>
    simp only [if_true, bind_eq_ok, pure_eq, Res.ok.injEq] at h
    obtain ⟨d2, h2, h⟩ := h
    subst h
    have hM2 := revLoop_hnf_M_le k (k - 1) d1 d2 h2
    have s2 : d2.step = d1.step := by
      obtain ⟨d2', r2', _, s2'⟩ := revLoop_hnf_ok k (k - 1) d1 (hnfReduce_bookP d d1 _ _ h1 hB) (by omega)
        (by omega)
      rw [h2] at r2'
      injection r2' with r2'
      subst r2'
      exact s2'
    have hMn : hnfM d2.next = hnfM d2 := rfl
    have hle : hnfM d2.next ≤ hnfM d := by rw [hMn]; exact le_trans hM2 hM1
    rcases lt_or_eq_of_le hle with hlt' | heq
    · exact Or.inl hlt'
    · refine Or.inr ⟨heq, ?_⟩
      show m - (d2.step + 1) < m - d.step
      rw [s2, s1, hk]
      omega
  | false =>
    simp only [Bool.false_eq_true, if_false, bind_eq_ok, pure_eq, Res.ok.injEq] at h
    obtain ⟨d2, h2, h⟩ := h
    subst h
    left
    have hB1 := hnfReduce_bookP d d1 _ _ h1 hB
    have hB2 := Data.swap_bookP d1 d2 k h2 hB1
    obtain ⟨_, _, m2, n2, _, t2⟩ := Data.swap_tgt d1 d2 k h2
    have hMb : hnfM d2.back = hnfM d2 := by
      unfold hnfM
      rw [Data.back_tr, Data.pot_congr d2 d2.back (by rw [Data.back_tr]) (Data.back_det d2)]
    rw [hMb]
    refine lt_of_lt_of_le ?_ hM1
    unfold hnfM
    rw [m2, n2]
    apply hmk_swap _ _ _ _ k hs1 (by omega) t2
    rcases hnfIsOk_false d1 k hb with ⟨hjn, hle⟩ | ⟨hz1, hz2, hlov⟩
    · rcases lt_or_eq_of_le hle with hlt' | heq
      · exact Or.inl hlt'
      · -- equal leading columns: the Euclidean step made the pivot of row `k` smaller
        refine Or.inr (Or.inl ⟨heq, ?_⟩)
        rw [hm] at t1
        rw [n1] at hjn heq ⊢
        rw [hn] at t1 hbnd hjn heq ⊢
        have hrowk1 : ∀ c < n, ent d1.tr.target (k - 1) c = ent d.tr.target (k - 1) c * u := by
          intro c hc
          rw [t1 (k - 1) (by omega) c hc]
          show (if k - 1 = k - 1 then _ else _) = _
          rw [if_pos rfl]
        have hLk1 : leadF n (ent d1.tr.target) (k - 1) = leadF n (ent d.tr.target) (k - 1) :=
          (hV_sign n _ _ (k - 1) u hu hrowk1).1
        have hl : leadF n (ent d.tr.target) (k - 1) < n := by rw [← hLk1]; exact hjn
        unfold hV
        rw [← heq, if_pos hjn, if_pos hjn, hLk1, hrowk1 _ hl, t1 k hkm _ hl]
        show Int.natAbs (if k = k - 1 then _ else if k = k then _ else _) < _
        rw [if_neg (by omega), if_pos rfl]
        have hb2 := (hbnd hl).2.1
        have habs : (ent d.tr.target (k - 1) (leadF n (ent d.tr.target) (k - 1)) * u).natAbs
            = (ent d.tr.target (k - 1) (leadF n (ent d.tr.target) (k - 1))).natAbs := by
          rcases hu with rfl | rfl
          · rw [mul_one]
          · rw [mul_neg, mul_one, Int.natAbs_neg]
        rw [habs]
        rw [Int.abs_eq_natAbs, Int.abs_eq_natAbs] at hb2
        exact_mod_cast hb2
    · refine Or.inr (Or.inr ⟨by rw [hz1, hz2], ?_, ?_⟩)
      · rw [hV_zero_row _ _ _ hz1, hV_zero_row _ _ _ hz2]
      · have hk1 : k < d1.tr.m := by rw [m1]; omega
        have hlov' := Data.lovaszOk_eq d1 k (by omega) hk1 hB1.1
        rw [hlov] at hlov'
        have hL : ¬ 3 * (d1.dv (k - 1) * d1.dv (k - 1))
            ≤ 4 * (d1.dprev k * d1.dv k + ent d1.lam k (k - 1) * ent d1.lam k (k - 1)) := by
          intro hcon
          rw [decide_eq_true hcon] at hlov'
          cases hlov'
        exact swap_pot_lt d1 d2 k (by omega) hk1 hB1.1 (fun i hi => hB1.dv_pos hi)
          (hB2.dv_pos (by rw [m2]; omega)) h2 hL

/-- the Hermite loop terminates from every state satisfying the two invariants (no explicit bound) -/
theorem loopWhile_hnf_terminates (m n : Nat) (d : Data) (hB : d.BookP) (hS : HState m n d) :
    ∃ fuel d', loopWhile hnfIterate fuel d = ok d' := by
  have key : ∀ x : HM ×ₗ ℕ, ∀ d : Data, (toLex (hnfM d, m - d.step) : HM ×ₗ ℕ) = x → d.BookP → HState m n d →
      ∃ fuel d', loopWhile hnfIterate fuel d = ok d' := by
    intro x
    refine WellFoundedLT.induction (motive := fun x => ∀ d : Data, (toLex (hnfM d, m - d.step) : HM ×ₗ ℕ) = x →
      d.BookP → HState m n d → ∃ fuel d', loopWhile hnfIterate fuel d = ok d') x ?_
    intro x ih d hx hB hS
    by_cases hlt : d.step < d.tr.m
    · obtain ⟨d1, r1, hB1, _, _⟩ := hnfIterate_ok d hB hS.step_pos hlt
      have hS1 := hnfIterate_inv m n d d1 r1 hlt hS
      have hdec := hnfIterate_decreases m n d d1 r1 hB hS hlt
      rw [hx] at hdec
      obtain ⟨fuel, d', h⟩ := ih _ hdec d1 rfl hB1 hS1
      refine ⟨fuel + 1, d', ?_⟩
      simp only [loopWhile, if_pos hlt, r1, bind_ok]
      exact h
    · exact ⟨0, d, by simp only [loopWhile, if_neg hlt, pure_eq]⟩
  exact key _ d rfl hB hS

/-- TERMINATION of `lll_hnf` (model) for every input: some fuel suffices, and then every larger fuel gives the same
result -/
theorem lllHnf_terminates' (m n : Nat) (A : Mat) : ∃ N t, ∀ fuel ≥ N, lllHnf fuel m n A = ok t := by
  have hS0 : HState m n (Data.new m n A) :=
    ⟨rfl, rfl, le_refl 1, by show 1 ≤ max m 1; omega, HInv.of_le_one _ _ _ (le_refl 1)⟩
  obtain ⟨N, d1, r1⟩ := loopWhile_hnf_terminates m n _ (Data.new_bookP m n A) hS0
  obtain ⟨d2, r2, _⟩ := hnfNormalizeLast_ok d1
  obtain ⟨t, r3⟩ := reverseRows_ok (d2.tr.m / 2) 0 d2.tr (by omega)
  have hN : lllHnf N m n A = ok t := by
    unfold lllHnf
    simp only [r1, bind_ok, r2, r3]
  refine ⟨N, t, fun fuel hf => ?_⟩
  rw [lllHnf_mono m n A N fuel (by rw [hN]; exact fun h => by cases h) hf, hN]

end Yuiv.C10
