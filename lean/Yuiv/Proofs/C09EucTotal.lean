import Yuiv.Proofs.C09EucTerm
/-
C09 — for ANY lawful Euclidean operation record the code model of `SnfCalc::process` never panics (unless the
preprocessing does), so with enough fuel it returns:
 * `mul_row/mul_col` are only called with a normalising unit (on which `inv` succeeds);
 * `eliminate_at` is only called on a non-zero NORMALISED pivot; there the coefficients handed out by the wrapper
   `SnfCalc::gcdx` satisfy `s·a + t·b = 1`, so the `debug_assert!((a*d - b*c).is_one())` hold, and the pivot stays
   normalised; `assert!(modified)` cannot fire while the loop condition is true;
 * `diag_normalize` is only called on a diagonal matrix, `diag_normalize_step` only on non-zero entries, and its
   third branch only when `x ∤ y` (so `x/d` is not a unit and the wrapper hands out the ring's Bézout coefficients).
-/
set_option linter.unusedSectionVars false
set_option linter.unusedSimpArgs false
set_option linter.unusedVariables false
namespace Yuiv.C09.Euc
open Yuiv Yuiv.C09

variable {α K : Type} [CommRing K] [IsDomain K] {e : EOps α} {φ : α → K} {m n : Nat}

section total
variable (L : LawfulEuc e φ)
include L

theorem colStep_total (dbg : Bool) (i : Fin m) (jc : Fin n) (sm : St α m n × Bool) (i1 : Fin m)
    (hp : φ (sm.1.t.get i jc) ≠ 0 ∧ φ (e.normUnit (sm.1.t.get i jc)) = 1) :
    ∃ sm', eliminateColStep e dbg i jc sm i1 = .ok sm' ∧
      (φ (sm'.1.t.get i jc) ≠ 0 ∧ φ (e.normUnit (sm'.1.t.get i jc)) = 1) := by
  have key : ∃ sm', eliminateColStep e dbg i jc sm i1 = .ok sm' := by
    unfold eliminateColStep
    simp only
    split
    · exact ⟨_, rfl⟩
    · unfold sLeft
      rw [L.det_ok _ _ hp.1 (Or.inl hp.2)]
      simp
  obtain ⟨sm', h⟩ := key
  refine ⟨sm', h, ?_⟩
  rcases colStep_ok L dbg i jc sm sm' i1 h hp.1 hp.2 with
    ⟨rfl, _⟩ | ⟨hne, _, _, s', t', a, b, d, hd, hdn, hx, hy', hbez, _, hT⟩
  · exact hp
  · have hpiv : φ (sm'.1.t.get i jc) = φ d := by
      rw [hT, leftElem_get L, if_neg hne, if_pos rfl, hx, hy']
      linear_combination φ d * hbez
    rw [L.normUnit_congr _ _ hpiv, hpiv]; exact ⟨hd, hdn⟩

theorem rowStep_total (dbg : Bool) (i : Fin m) (jc : Fin n) (sm : St α m n × Bool) (j1 : Fin n)
    (hp : φ (sm.1.t.get i jc) ≠ 0 ∧ φ (e.normUnit (sm.1.t.get i jc)) = 1) :
    ∃ sm', eliminateRowStep e dbg i jc sm j1 = .ok sm' ∧
      (φ (sm'.1.t.get i jc) ≠ 0 ∧ φ (e.normUnit (sm'.1.t.get i jc)) = 1) := by
  have key : ∃ sm', eliminateRowStep e dbg i jc sm j1 = .ok sm' := by
    unfold eliminateRowStep
    simp only
    split
    · exact ⟨_, rfl⟩
    · unfold sRight
      rw [L.det_ok _ _ hp.1 (Or.inl hp.2)]
      simp
  obtain ⟨sm', h⟩ := key
  refine ⟨sm', h, ?_⟩
  rcases rowStep_ok L dbg i jc sm sm' j1 h hp.1 hp.2 with
    ⟨rfl, _⟩ | ⟨hne, _, _, s', t', a, b, d, hd, hdn, hx, hy', hbez, _, hT⟩
  · exact hp
  · have hpiv : φ (sm'.1.t.get i jc) = φ d := by
      rw [hT, rightElem_get L, if_neg hne, if_pos rfl, hx, hy']
      linear_combination φ d * hbez
    rw [L.normUnit_congr _ _ hpiv, hpiv]; exact ⟨hd, hdn⟩

theorem eliminateCol_total (dbg : Bool) (s : St α m n) (i : Fin m) (jc : Fin n) (hp : φ (s.t.get i jc) ≠ 0)
    (hn : φ (e.normUnit (s.t.get i jc)) = 1) : ∃ r, eliminateCol e dbg s i jc = .ok r := by
  obtain ⟨r, h, _⟩ := foldlM_total (eliminateColStep e dbg i jc)
    (fun sm => φ (sm.1.t.get i jc) ≠ 0 ∧ φ (e.normUnit (sm.1.t.get i jc)) = 1)
    (fun sm i1 hsm => colStep_total L dbg i jc sm i1 hsm) (List.finRange m) (s, false) ⟨hp, hn⟩
  exact ⟨r, h⟩

theorem eliminateRow_total (dbg : Bool) (s : St α m n) (i : Fin m) (jc : Fin n) (hp : φ (s.t.get i jc) ≠ 0)
    (hn : φ (e.normUnit (s.t.get i jc)) = 1) : ∃ r, eliminateRow e dbg s i jc = .ok r := by
  obtain ⟨r, h, _⟩ := foldlM_total (eliminateRowStep e dbg i jc)
    (fun sm => φ (sm.1.t.get i jc) ≠ 0 ∧ φ (e.normUnit (sm.1.t.get i jc)) = 1)
    (fun sm j1 hsm => rowStep_total L dbg i jc sm j1 hsm) (List.finRange n) (s, false) ⟨hp, hn⟩
  exact ⟨r, h⟩

/-- `eliminate_at` on a non-zero normalised pivot never panics: the determinant assertions hold, and the
`assert!(modified)` cannot fire while the loop condition is true -/
theorem eliminateAt_ne_panic (dbg : Bool) (i : Fin m) (jc : Fin n) : ∀ (fuel : Nat) (s : St α m n),
    φ (s.t.get i jc) ≠ 0 → φ (e.normUnit (s.t.get i jc)) = 1 → eliminateAt e dbg i jc fuel s ≠ .panic := by
  intro fuel
  induction fuel with
  | zero => intro s _ _; simp [eliminateAt]
  | succ fuel ih =>
    intro s hp hn h
    rw [eliminateAt] at h
    split at h
    · rename_i hc
      obtain ⟨r1, h1⟩ := eliminateCol_total L dbg s i jc hp hn
      obtain ⟨_, c2, cn, _, c4⟩ := eliminateCol_post L (frameOK_true i jc) dbg s r1 h1 trivial hp hn
      obtain ⟨r2, h2⟩ := eliminateRow_total L dbg r1.1 i jc c2 cn
      obtain ⟨_, d2, dn, _, _, _⟩ := eliminateRow_post L (frameOK_true i jc) dbg r1.1 r2 h2 trivial c2 cn c4
      rw [h1] at h; simp only at h
      rw [h2] at h; simp only at h
      split at h
      · rename_i hfl
        simp only [Bool.not_eq_true', Bool.or_eq_false_iff] at hfl
        obtain ⟨e1, e2⟩ := eliminateCol_flag e dbg s i jc r1 h1 hfl.1
        obtain ⟨_, e4⟩ := eliminateRow_flag e dbg r1.1 i jc r2 h2 hfl.2
        rw [e1] at e4
        have h1' := (rowNz_le_one_iff L s.t i jc hp).2 (fun c hc => (L.isZero_iff _).1 (e4 c hc))
        have h2' := (colNz_le_one_iff L s.t i jc hp).2 (fun r hr => (L.isZero_iff _).1 (e2 r hr))
        simp only [Bool.or_eq_true, decide_eq_true_eq] at hc
        omega
      · exact ih r2.1 d2 dn h
    · cases h

/-- the optional `mul_col` by the normalising unit never panics (`inv` succeeds on a normalising unit) -/
theorem normCol_total (s1 : St α m n) (i : Fin m) (jc : Fin n) :
    ∃ s2, (if (!e.isOne (e.normUnit (s1.t.get i jc))) = true then sMulCol e s1 jc (e.normUnit (s1.t.get i jc))
      else Res.ok s1) = .ok s2 := by
  split
  · unfold sMulCol
    obtain ⟨v, hv⟩ := L.inv_normUnit (s1.t.get i jc)
    rw [hv]
    exact ⟨_, rfl⟩
  · exact ⟨_, rfl⟩

/-- `eliminate_step` never panics: `mul_col` by the normalising unit is fine and the pivot handed to
`eliminate_at` is non-zero and normalised -/
theorem eliminateStep_ne_panic (dbg : Bool) (fuel : Nat) (s : St α m n) (i : Fin m) (j : Fin n) (hi : i.1 < n)
    (hij : i.1 ≤ j.1) : eliminateStep e dbg fuel s i j hi ≠ .panic := by
  have hsel := selectPivot_spec L s.t i.1 j
  unfold eliminateStep
  split
  · simp
  · rename_i ip hsome
    obtain ⟨hip, hnz⟩ := hsel.1 ip hsome
    have hx : φ ((stepPrep s i ip ⟨i.1, hi⟩ j).t.get i ⟨i.1, hi⟩) ≠ 0 := by
      rw [stepPrep_get s i ip ⟨i.1, hi⟩ j hip hij, if_pos rfl, if_pos rfl]; exact hnz
    generalize stepPrep s i ip ⟨i.1, hi⟩ j = s1 at hx
    simp only
    obtain ⟨s2, h2⟩ := normCol_total L s1 i ⟨i.1, hi⟩
    obtain ⟨hn2, hp2, _⟩ := normCol_post L s1 s2 i ⟨i.1, hi⟩ h2
    rw [h2]
    simp only
    rw [if_neg (by rw [L.isZero_iff]; exact hp2 hx)]
    have := eliminateAt_ne_panic L dbg i ⟨i.1, hi⟩ fuel s2 (hp2 hx) hn2
    split
    · simp
    · rename_i h; exact absurd h this
    · simp

theorem eliminateAllStep_ne_panic (dbg : Bool) (fuel : Nat) (si : St α m n × Nat) (j : Fin n) :
    eliminateAllStep e dbg fuel si j ≠ .panic := by
  unfold eliminateAllStep
  split
  · rename_i hc
    have := eliminateStep_ne_panic L dbg fuel si.1 ⟨si.2, hc.1⟩ j (Nat.lt_of_le_of_lt hc.2 j.2) hc.2
    split
    · simp
    · simp
    · rename_i h; exact absurd h this
    · simp
  · simp

theorem eliminateAll_ne_panic (dbg : Bool) (fuel : Nat) (s : St α m n) :
    eliminateAll e dbg fuel s ≠ .panic := by
  have := foldlM_ne_panic (eliminateAllStep e dbg fuel) (eliminateAllStep_ne_panic L dbg fuel)
    (List.finRange n) (s, 0)
  unfold eliminateAll
  split
  · simp
  · rename_i h; exact absurd h this
  · simp

theorem diagNormalizeStep_ne_panic (dbg : Bool) (s : St α m n) (i : Nat) (hm : i + 1 < m) (hn : i + 1 < n)
    (hx : φ (s.t.get ⟨i, Nat.lt_of_succ_lt hm⟩ ⟨i, Nat.lt_of_succ_lt hn⟩) ≠ 0)
    (hy : φ (s.t.get ⟨i + 1, hm⟩ ⟨i + 1, hn⟩) ≠ 0) : diagNormalizeStep e dbg s i hm hn ≠ .panic := by
  unfold diagNormalizeStep
  simp only
  generalize s.t.get ⟨i, Nat.lt_of_succ_lt hm⟩ ⟨i, Nat.lt_of_succ_lt hn⟩ = x at hx ⊢
  generalize s.t.get ⟨i + 1, hm⟩ ⟨i + 1, hn⟩ = y at hy ⊢
  rw [if_neg (by simp [L.isZero_iff, hx, hy])]
  split
  · simp
  · rename_i hxy
    have hxy' : ¬ (φ x ∣ φ y) := fun hh => hxy ((L.dvd_iff _ _).2 ⟨hx, hh⟩)
    split
    · simp
    · obtain ⟨_, _, _, _, g4, _⟩ := L.gcdxW_data x y hx (Or.inr hxy')
      have hdet1 : detIsOne e.toROps e.one e.one
          (e.neg (e.mul (gcdxW e x y).2.2 (e.quo y (gcdxW e x y).1)))
          (e.mul (gcdxW e x y).2.1 (e.quo x (gcdxW e x y).1)) = true := by
        rw [detIsOne_iff L.lawful, L.phi_one, L.phi_neg, L.phi_mul, L.phi_mul]
        linear_combination g4
      unfold sLeft sRight
      rw [hdet1, L.det_ok x y hx (Or.inr hxy')]
      simp

theorem diagPass_ne_panic (dbg : Bool) (r : Nat) : ∀ (cnt i : Nat) (s : St α m n),
    (∀ k, k < r → dgz e φ s.t k ≠ 0) → diagPass e dbg r cnt i s ≠ .panic := by
  intro cnt
  induction cnt with
  | zero => intro i s _; rw [diagPass]; simp
  | succ cnt ih =>
    intro i s hnz
    rw [diagPass]
    split
    · rename_i hc
      have hx := hnz i (by omega)
      have hy := hnz (i + 1) hc.1
      rw [dgz_eq L _ i (Nat.lt_of_succ_lt hc.2.1) (Nat.lt_of_succ_lt hc.2.2)] at hx
      rw [dgz_eq L _ (i + 1) hc.2.1 hc.2.2] at hy
      have := diagNormalizeStep_ne_panic L dbg s i hc.2.1 hc.2.2 hx hy
      split
      · rename_i r1 h1
        split
        · rename_i hb
          obtain ⟨s1, b1⟩ := r1
          simp only at hb
          subst hb
          obtain ⟨e1, _⟩ := diagNormalizeStep_true dbg s i hc.2.1 hc.2.2 s1 h1
          subst e1
          exact ih _ _ hnz
        · simp
      · rename_i h; exact absurd h this
      · simp
    · simp

theorem diagOuter_ne_panic (dbg : Bool) (r : Nat) : ∀ (fuel : Nat) (s : St α m n), DiagZ φ s.t →
    (∀ k, k < r → dgz e φ s.t k ≠ 0) → diagOuter e dbg r fuel s ≠ .panic := by
  intro fuel
  induction fuel with
  | zero => intro s _ _; simp [diagOuter]
  | succ fuel ih =>
    intro s hD hnz h
    rw [diagOuter] at h
    split at h
    · rename_i r1 h1
      rcases diagPass_spec dbg r r 0 s r1 h1 with rfl | ⟨i0, hm, hn, hir, hb, hstep⟩
      · simp at h
      · rw [if_neg (by simp [hb])] at h
        obtain ⟨d1, d2, _, _, d5, d6, _⟩ := diagStep_dg L dbg s i0 hm hn r1 hstep hD
        have hnz1 : ∀ k, k < r → dgz e φ r1.1.t k ≠ 0 := by
          intro k hk
          by_cases e1 : k = i0
          · rw [e1]; exact d5
          · by_cases e2 : k = i0 + 1
            · rw [e2]; exact d6
            · rw [d2 k e1 e2]; exact hnz k hk
        exact ih r1.1 d1 hnz1 h
    · rename_i h1
      exact diagPass_ne_panic L dbg r _ _ _ hnz h1
    · cases h

theorem normalizeStep_ne_panic (s : St α m n) (k : Nat) : normalizeStep e s k ≠ .panic := by
  unfold normalizeStep
  split
  · rename_i hk
    simp only
    split
    · unfold sMulRow
      obtain ⟨v, hv⟩ := L.inv_normUnit (s.t.get ⟨k, hk.1⟩ ⟨k, hk.2⟩)
      rw [hv]
      simp
    · simp
  · simp

theorem diagNormalize_ne_panic (dbg : Bool) (fuel : Nat) (s : St α m n) (hD : DiagZ φ s.t) :
    diagNormalize e dbg fuel s ≠ .panic := by
  obtain ⟨_, z2, _⟩ := firstZeroDiag_spec L s.t
  have hdiag : isDiag e.toROps s.t = true := (isDiag_iff L.lawful s.t).2 hD
  have := diagOuter_ne_panic L dbg _ fuel s hD z2
  unfold diagNormalize
  rw [hdiag]
  rw [if_neg (by simp)]
  split
  · simp
  · split
    · exact foldlM_ne_panic _ (normalizeStep_ne_panic L) _ _
    · rename_i h; exact absurd h this
    · simp

/-- the code model of `SnfCalc::process` never panics (unless the preprocessing does) -/
theorem snfCalc_ne_panic (dbg : Bool) (pre : St α m n → Res (St α m n)) (fuel : Nat) (A : Mat α m n)
    (hpre : pre (St.init e.toROps A) ≠ .panic) : snfCalc e dbg pre fuel A ≠ .panic := by
  unfold snfCalc
  split
  · simp
  · split
    · rename_i s1 h1
      have h2 := eliminateAll_ne_panic L dbg fuel s1
      split
      · rename_i s2 h2'
        exact diagNormalize_ne_panic L dbg fuel s2 (eliminateAll_post L dbg fuel s1 s2 h2').1
      · rename_i h; exact absurd h h2
      · simp
    · rename_i h; exact absurd h hpre
    · simp

/-- **totality**: if the preprocessing returns, there are a fuel bound `N` and a state `s` such that the code
model returns `s` for every `fuel ≥ N` -/
theorem snfCalc_total (dbg : Bool) (pre : St α m n → Res (St α m n)) (A : Mat α m n) (s1 : St α m n)
    (hpre : pre (St.init e.toROps A) = .ok s1) :
    ∃ N s, ∀ fuel, N ≤ fuel → snfCalc e dbg pre fuel A = .ok s := by
  obtain ⟨N, hN⟩ := snfCalc_exists_fuel L dbg pre A (by rw [hpre]; simp)
  have h1 := hN N (Nat.le_refl _)
  have h2 := snfCalc_ne_panic L dbg pre N A (by rw [hpre]; simp)
  cases h : snfCalc e dbg pre N A with
  | ok s =>
    refine ⟨N, s, fun fuel hf => ?_⟩
    rw [snfCalc_mono e dbg pre N A h1 fuel hf, h]
  | panic => exact absurd h h2
  | err => exact absurd h h1

end total

end Yuiv.C09.Euc
