import Yuiv.Proofs.C14
import Mathlib.Algebra.Order.Field.Rat
import Mathlib.Tactic.FieldSimp
/-
C14: bridge from the cross-multiplication identities of `Proofs/C14.lean` to Mathlib's ℚ (no property theorem here).
-/
namespace Yuiv.C14
open Yuiv Res

/-- the rational number a `Ratio` denotes -/
def toRat (r : Ratio) : ℚ := (r.num : ℚ) / (r.den : ℚ)

theorem toRat_eq_of_cross {c : Ratio} {n d : Int} (hc : c.den ≠ 0) (hd : d ≠ 0) (h : c.num * d = n * c.den) :
    toRat c = (n : ℚ) / (d : ℚ) := by
  unfold toRat
  have hc' : (c.den : ℚ) ≠ 0 := by exact_mod_cast hc
  have hd' : (d : ℚ) ≠ 0 := by exact_mod_cast hd
  rw [div_eq_div_iff hc' hd']
  exact_mod_cast h

theorem toRat_lt_iff (a b : Ratio) (ha : 0 < a.den) (hb : 0 < b.den) :
    toRat a < toRat b ↔ a.num * b.den < b.num * a.den := by
  unfold toRat
  have ha' : (0 : ℚ) < a.den := by exact_mod_cast ha
  have hb' : (0 : ℚ) < b.den := by exact_mod_cast hb
  rw [div_lt_div_iff₀ ha' hb']
  exact_mod_cast Iff.rfl

theorem toRat_eq_iff (a b : Ratio) (ha : 0 < a.den) (hb : 0 < b.den) :
    toRat a = toRat b ↔ a.num * b.den = b.num * a.den := by
  unfold toRat
  have ha' : (a.den : ℚ) ≠ 0 := by exact_mod_cast ha.ne'
  have hb' : (b.den : ℚ) ≠ 0 := by exact_mod_cast hb.ne'
  rw [div_eq_div_iff ha' hb']
  exact_mod_cast Iff.rfl

theorem compare_toRat (a b : Ratio) (ha : 0 < a.den) (hb : 0 < b.den) :
    compare (toRat a) (toRat b) = compare (a.num * b.den) (b.num * a.den) := by
  rcases lt_trichotomy (a.num * b.den) (b.num * a.den) with h | h | h
  · rw [compare_lt_iff_lt.2 h, compare_lt_iff_lt.2 ((toRat_lt_iff a b ha hb).2 h)]
  · rw [compare_eq_iff_eq.2 h, compare_eq_iff_eq.2 ((toRat_eq_iff a b ha hb).2 h)]
  · rw [compare_gt_iff_gt.2 h, compare_gt_iff_gt.2 ((toRat_lt_iff b a hb ha).2 h)]


theorem add_toRat (a b c : Ratio) (ha : 0 < a.den) (hb : 0 < b.den) (hc : 0 < c.den)
    (h : c.num * (a.den * b.den) = (a.num * b.den + b.num * a.den) * c.den) :
    toRat c = toRat a + toRat b := by
  unfold toRat
  have ha' : (a.den : ℚ) ≠ 0 := by exact_mod_cast ha.ne'
  have hb' : (b.den : ℚ) ≠ 0 := by exact_mod_cast hb.ne'
  have hc' : (c.den : ℚ) ≠ 0 := by exact_mod_cast hc.ne'
  rw [div_add_div _ _ ha' hb', div_eq_div_iff hc' (mul_ne_zero ha' hb')]
  have h' : (c.num : ℚ) * (a.den * b.den) = (a.num * b.den + b.num * a.den) * c.den := by exact_mod_cast h
  rw [h']; ring

theorem sub_toRat (a b c : Ratio) (ha : 0 < a.den) (hb : 0 < b.den) (hc : 0 < c.den)
    (h : c.num * (a.den * b.den) = (a.num * b.den - b.num * a.den) * c.den) :
    toRat c = toRat a - toRat b := by
  unfold toRat
  have ha' : (a.den : ℚ) ≠ 0 := by exact_mod_cast ha.ne'
  have hb' : (b.den : ℚ) ≠ 0 := by exact_mod_cast hb.ne'
  have hc' : (c.den : ℚ) ≠ 0 := by exact_mod_cast hc.ne'
  rw [div_sub_div _ _ ha' hb', div_eq_div_iff hc' (mul_ne_zero ha' hb')]
  have h' : (c.num : ℚ) * (a.den * b.den) = (a.num * b.den - b.num * a.den) * c.den := by exact_mod_cast h
  rw [h']; ring

theorem mul_toRat (a b c : Ratio) (ha : 0 < a.den) (hb : 0 < b.den) (hc : 0 < c.den)
    (h : c.num * (a.den * b.den) = (a.num * b.num) * c.den) :
    toRat c = toRat a * toRat b := by
  unfold toRat
  have ha' : (a.den : ℚ) ≠ 0 := by exact_mod_cast ha.ne'
  have hb' : (b.den : ℚ) ≠ 0 := by exact_mod_cast hb.ne'
  have hc' : (c.den : ℚ) ≠ 0 := by exact_mod_cast hc.ne'
  rw [div_mul_div_comm, div_eq_div_iff hc' (mul_ne_zero ha' hb')]
  exact_mod_cast h

theorem neg_toRat (a c : Ratio) (ha : 0 < a.den) (hc : 0 < c.den)
    (h : c.num * a.den = -a.num * c.den) : toRat c = -toRat a := by
  unfold toRat
  have ha' : (a.den : ℚ) ≠ 0 := by exact_mod_cast ha.ne'
  have hc' : (c.den : ℚ) ≠ 0 := by exact_mod_cast hc.ne'
  rw [← neg_div, div_eq_div_iff hc' ha']
  exact_mod_cast h

theorem inv_toRat (a c : Ratio) (ha : a.num ≠ 0) (hc : 0 < c.den)
    (h : c.num * a.num = a.den * c.den) : toRat c = (toRat a)⁻¹ := by
  unfold toRat
  have ha' : (a.num : ℚ) ≠ 0 := by exact_mod_cast ha
  have hc' : (c.den : ℚ) ≠ 0 := by exact_mod_cast hc.ne'
  rw [inv_div, div_eq_div_iff hc' ha']
  exact_mod_cast h

theorem div_toRat (a b c : Ratio) (ha : 0 < a.den) (hb : b.num ≠ 0) (hc : 0 < c.den)
    (h : c.num * (a.den * b.num) = (a.num * b.den) * c.den) :
    toRat c = toRat a / toRat b := by
  unfold toRat
  have ha' : (a.den : ℚ) ≠ 0 := by exact_mod_cast ha.ne'
  have hb' : (b.num : ℚ) ≠ 0 := by exact_mod_cast hb
  have hc' : (c.den : ℚ) ≠ 0 := by exact_mod_cast hc.ne'
  rw [div_div_div_eq, div_eq_div_iff hc' (mul_ne_zero ha' hb')]
  exact_mod_cast h


/-! operations in ℚ -/

theorem add_q (a b : Ratio) (ha : Canon a) (hb : Canon b) :
    ∃ c, Ratio.add a b = ok c ∧ Canon c ∧ toRat c = toRat a + toRat b := by
  obtain ⟨c, h1, h2, h3⟩ := addSub_spec false a b ha hb
  exact ⟨c, h1, h2, add_toRat a b c ha.1 hb.1 h2.1 (by simpa [Ratio.pm] using h3)⟩
theorem sub_q (a b : Ratio) (ha : Canon a) (hb : Canon b) :
    ∃ c, Ratio.sub a b = ok c ∧ Canon c ∧ toRat c = toRat a - toRat b := by
  obtain ⟨c, h1, h2, h3⟩ := addSub_spec true a b ha hb
  exact ⟨c, h1, h2, sub_toRat a b c ha.1 hb.1 h2.1 (by simpa [Ratio.pm] using h3)⟩
theorem mul_q (a b : Ratio) (ha : Canon a) (hb : Canon b) :
    ∃ c, Ratio.mul a b = ok c ∧ Canon c ∧ toRat c = toRat a * toRat b := by
  obtain ⟨c, h1, h2, h3⟩ := mul_spec a b ha hb
  exact ⟨c, h1, h2, mul_toRat a b c ha.1 hb.1 h2.1 h3⟩
theorem neg_q (a : Ratio) (ha : Canon a) :
    ∃ c, Ratio.neg a = ok c ∧ Canon c ∧ toRat c = -toRat a := by
  obtain ⟨c, h1, h2, h3⟩ := neg_spec a ha
  exact ⟨c, h1, h2, neg_toRat a c ha.1 h2.1 h3⟩
theorem inv_q (a : Ratio) (hn : a.num ≠ 0) :
    ∃ c, Ratio.inv a = ok (some c) ∧ Canon c ∧ toRat c = (toRat a)⁻¹ := by
  obtain ⟨c, h1, h2, h3⟩ := inv_spec a hn
  exact ⟨c, h1, h2, inv_toRat a c hn h2.1 h3⟩
theorem div_q (a b : Ratio) (ha : Canon a) (hn : b.num ≠ 0) :
    ∃ c, Ratio.div a b = ok c ∧ Canon c ∧ toRat c = toRat a / toRat b := by
  obtain ⟨c, h1, h2, h3⟩ := div_spec a b ha hn
  exact ⟨c, h1, h2, div_toRat a b c ha.1 hn h2.1 h3⟩

/-! histories -/

/-- one step of an operation history: the operand is itself canonical (it comes from `new`/`from`) -/
inductive HStep where
  | add (b : Ratio) (hb : Canon b)
  | sub (b : Ratio) (hb : Canon b)
  | mul (b : Ratio) (hb : Canon b)
  | div (b : Ratio) (hb : Canon b)
  | radd (b : Ratio) (hb : Canon b)
  | rsub (b : Ratio) (hb : Canon b)
  | rmul (b : Ratio) (hb : Canon b)
  | rdiv (b : Ratio) (hb : Canon b)
  | neg
  | inv

/-- the code model applied to one step -/
def runStep (a : Ratio) : HStep → Res Ratio
  | .add b _ => Ratio.add a b
  | .sub b _ => Ratio.sub a b
  | .mul b _ => Ratio.mul a b
  | .div b _ => Ratio.div a b
  | .radd b _ => Ratio.add b a
  | .rsub b _ => Ratio.sub b a
  | .rmul b _ => Ratio.mul b a
  | .rdiv b _ => Ratio.div b a
  | .neg => Ratio.neg a
  | .inv => do
    match (← Ratio.inv a) with
    | some i => ok i
    | none => err

/-- the same step in ℚ (division by zero does not occur on runs that return `ok`) -/
noncomputable def evalStep (x : ℚ) : HStep → ℚ
  | .add b _ => x + toRat b
  | .sub b _ => x - toRat b
  | .mul b _ => x * toRat b
  | .div b _ => x / toRat b
  | .radd b _ => toRat b + x
  | .rsub b _ => toRat b - x
  | .rmul b _ => toRat b * x
  | .rdiv b _ => toRat b / x
  | .neg => -x
  | .inv => x⁻¹

def runHistory (a : Ratio) : List HStep → Res Ratio
  | [] => ok a
  | s :: ss =>
    match runStep a s with
    | .ok b => runHistory b ss
    | .panic => .panic
    | .err => .err

noncomputable def evalHistory (x : ℚ) : List HStep → ℚ
  | [] => x
  | s :: ss => evalHistory (evalStep x s) ss


theorem step_spec (s : HStep) (a b : Ratio) (ha : Canon a) (h : runStep a s = ok b) :
    Canon b ∧ toRat b = evalStep (toRat a) s := by
  cases s with
  | add x hx =>
    obtain ⟨c, h1, h2, h3⟩ := add_q a x ha hx
    simp only [runStep, h1, ok.injEq] at h; subst h; exact ⟨h2, h3⟩
  | sub x hx =>
    obtain ⟨c, h1, h2, h3⟩ := sub_q a x ha hx
    simp only [runStep, h1, ok.injEq] at h; subst h; exact ⟨h2, h3⟩
  | mul x hx =>
    obtain ⟨c, h1, h2, h3⟩ := mul_q a x ha hx
    simp only [runStep, h1, ok.injEq] at h; subst h; exact ⟨h2, h3⟩
  | div x hx =>
    by_cases hn : x.num = 0
    · simp [runStep, div_zero a x hn] at h
    · obtain ⟨c, h1, h2, h3⟩ := div_q a x ha hn
      simp only [runStep, h1, ok.injEq] at h; subst h; exact ⟨h2, h3⟩
  | radd x hx =>
    obtain ⟨c, h1, h2, h3⟩ := add_q x a hx ha
    simp only [runStep, h1, ok.injEq] at h; subst h; exact ⟨h2, h3⟩
  | rsub x hx =>
    obtain ⟨c, h1, h2, h3⟩ := sub_q x a hx ha
    simp only [runStep, h1, ok.injEq] at h; subst h; exact ⟨h2, h3⟩
  | rmul x hx =>
    obtain ⟨c, h1, h2, h3⟩ := mul_q x a hx ha
    simp only [runStep, h1, ok.injEq] at h; subst h; exact ⟨h2, h3⟩
  | rdiv x hx =>
    by_cases hn : a.num = 0
    · simp [runStep, div_zero x a hn] at h
    · obtain ⟨c, h1, h2, h3⟩ := div_q x a hx hn
      simp only [runStep, h1, ok.injEq] at h; subst h; exact ⟨h2, h3⟩
  | neg =>
    obtain ⟨c, h1, h2, h3⟩ := neg_q a ha
    simp only [runStep, h1, ok.injEq] at h; subst h; exact ⟨h2, h3⟩
  | inv =>
    by_cases hn : a.num = 0
    · simp [runStep, inv_zero a hn] at h
    · obtain ⟨c, h1, h2, h3⟩ := inv_q a hn
      simp only [runStep, h1, Res.bind_ok, ok.injEq] at h; subst h; exact ⟨h2, h3⟩

end Yuiv.C14
