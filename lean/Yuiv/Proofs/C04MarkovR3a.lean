import Yuiv.Proofs.C04MarkovSim
/-
C04Markov (helper, no property theorem here): a decidable connectivity check on pair lists of NUMERALS and its transfer,
along a labelling `ρ : ℕ → ℕ` of formal symbols by actual edge labels, to class counts of diagrams
(`count_transfer`).  Used for the 16 smoothings of the braid relation.
-/
open Yuiv.KhRef Yuiv.C04
namespace Yuiv.C04Inv
open Relation

/-! ### decidable reachability -/

def reachStep (A : List (Nat × Nat)) (cur : List Nat) : List Nat :=
  cur ++ A.filterMap (fun p => if cur.contains p.1 then some p.2 else if cur.contains p.2 then some p.1 else none)

def reach (A : List (Nat × Nat)) : Nat → List Nat → List Nat
  | 0, cur => cur
  | k + 1, cur => reach A k (reachStep A cur)

def connB (A : List (Nat × Nat)) (u v : Nat) : Bool := (reach A A.length [u]).contains v

theorem reachStep_sound (A : List (Nat × Nat)) (cur : List Nat) (w : Nat) (hw : w ∈ reachStep A cur) :
    ∃ u ∈ cur, Conn A u w := by
  unfold reachStep at hw
  rcases List.mem_append.1 hw with h | h
  · exact ⟨w, h, Conn.refl _⟩
  · rw [List.mem_filterMap] at h
    obtain ⟨p, hp, hq⟩ := h
    split at hq
    · rename_i h1
      cases hq
      exact ⟨p.1, by simpa using h1, Conn.of_mem hp⟩
    · split at hq
      · rename_i h2
        cases hq
        exact ⟨p.2, by simpa using h2, Conn.of_mem_symm hp⟩
      · cases hq

theorem reach_sound (A : List (Nat × Nat)) (k : Nat) (cur : List Nat) (w : Nat) (hw : w ∈ reach A k cur) :
    ∃ u ∈ cur, Conn A u w := by
  induction k generalizing cur with
  | zero => exact ⟨w, hw, Conn.refl _⟩
  | succ k ih =>
    obtain ⟨u, hu, c⟩ := ih _ hw
    obtain ⟨u0, hu0, c0⟩ := reachStep_sound A cur u hu
    exact ⟨u0, hu0, c0.trans c⟩

theorem connB_sound {A : List (Nat × Nat)} {u v : Nat} (h : connB A u v = true) : Conn A u v := by
  unfold connB at h
  obtain ⟨u0, hu0, c⟩ := reach_sound A _ _ v (by simpa using h)
  simp only [List.mem_cons, List.mem_nil_iff, or_false] at hu0
  subst hu0
  exact c

/-! ### transfer along a labelling -/

/-- the collapse map induced on actual labels by a map `g0` of formal symbols: the labels `ρ v`, `v ∈ inn0`, go to
`ρ (g0 v)`, everything else stays -/
def liftG (ρ : Nat → Nat) (inn0 : List Nat) (g0 : Nat → Nat) (z : Nat) : Nat :=
  match inn0.find? (fun v => ρ v == z) with
  | some v => ρ (g0 v)
  | none => z

theorem liftG_rho (ρ : Nat → Nat) (inn0 all0 : List Nat) (g0 : Nat → Nat)
    (hinj : ∀ u ∈ all0, ∀ v ∈ inn0, ρ u = ρ v → u = v) (hfix : ∀ u ∈ all0, u ∉ inn0 → g0 u = u)
    (u : Nat) (hu : u ∈ all0) : liftG ρ inn0 g0 (ρ u) = ρ (g0 u) := by
  unfold liftG
  cases hf : inn0.find? (fun v => ρ v == ρ u) with
  | some v =>
    have h1 := List.find?_some hf
    have h2 := List.mem_of_find?_eq_some hf
    simp only [beq_iff_eq] at h1
    rw [hinj u hu v h2 h1.symm]
  | none =>
    rw [List.find?_eq_none] at hf
    have : u ∉ inn0 := fun h => by have := hf u h; simp at this
    simp only
    rw [hfix u hu this]

theorem liftG_other (ρ : Nat → Nat) (inn0 : List Nat) (g0 : Nat → Nat) (z : Nat) (hz : ∀ v ∈ inn0, ρ v ≠ z) :
    liftG ρ inn0 g0 z = z := by
  unfold liftG
  have : inn0.find? (fun v => ρ v == z) = none := by
    rw [List.find?_eq_none]; intro v hv; simpa using hz v hv
  rw [this]

/-- TRANSFER: formal inner symbols `inn0`, formal target symbols `tgt0`, all formal symbols `all0`; `A0`, `B0` pair lists
of formal symbols; `g0` collapses the inner symbols into the targets.  If the three connectivity checks hold on the
NUMERALS, then for every diagram `lm` in which the labels `ρ v` of the inner symbols do not occur, the class counts of
`A0.map ρ ++ (state of lm)` on all labels and of `B0.map ρ ++ (state of lm)` on the target labels agree. -/
theorem count_transfer (ρ : Nat → Nat) (A0 B0 : List (Nat × Nat)) (g0 : Nat → Nat) (inn0 tgt0 all0 : List Nat)
    (lm : Link) (hwf : WF lm)
    (hinj : ∀ u ∈ all0, ∀ v ∈ inn0, ρ u = ρ v → u = v)
    (hfresh : ∀ v ∈ inn0, ρ v ∉ labelSet lm)
    (hfix : ∀ u ∈ all0, u ∉ inn0 → g0 u = u)
    (htgt_fix : ∀ u ∈ tgt0, g0 u = u)
    (hall : ∀ u ∈ all0, g0 u ∈ tgt0)
    (htgt_sub : ∀ u ∈ tgt0, u ∈ all0)
    (hA0 : ∀ p ∈ A0, p.1 ∈ all0 ∧ p.2 ∈ all0)
    (chkA : ∀ p ∈ A0, connB B0 (g0 p.1) (g0 p.2) = true)
    (chkB : ∀ p ∈ B0, connB A0 p.1 p.2 = true)
    (chk3 : ∀ u ∈ all0, connB A0 u (g0 u) = true) (s : Nat) :
    classCount ({z | z ∈ all0.map ρ} ∪ labelSet lm) (A0.map (pmap ρ) ++ statePairs lm s)
      = classCount ({z | z ∈ tgt0.map ρ} ∪ labelSet lm) (B0.map (pmap ρ) ++ statePairs lm s) := by
  have hG := liftG_rho ρ inn0 all0 g0 hinj hfix
  have hGlm : ∀ z ∈ labelSet lm, liftG ρ inn0 g0 z = z := by
    intro z hz
    exact liftG_other ρ inn0 g0 z (fun v hv h => hfresh v hv (h ▸ hz))
  refine classCount_collapse_append (liftG ρ inn0 g0) ?_ ?_ ?_ ?_ ?_
  · intro p hp
    obtain ⟨m1, m2⟩ := statePairs_sub lm hwf s p hp
    exact ⟨hGlm _ m1, hGlm _ m2⟩
  · intro p hp
    obtain ⟨p0, hp0, rfl⟩ := List.mem_map.1 hp
    simp only [pmap]
    rw [hG _ (hA0 p0 hp0).1, hG _ (hA0 p0 hp0).2]
    exact (connB_sound (chkA p0 hp0)).map ρ
  · intro p hp
    obtain ⟨p0, hp0, rfl⟩ := List.mem_map.1 hp
    exact (connB_sound (chkB p0 hp0)).map ρ
  · intro z hz
    rcases hz with hz | hz
    · obtain ⟨u, hu, rfl⟩ := List.mem_map.1 hz
      rw [hG u hu]
      exact (connB_sound (chk3 u hu)).map ρ
    · rw [hGlm z hz]; exact Conn.refl _
  · ext z; constructor
    · rintro ⟨w, hw, rfl⟩
      rcases hw with hw | hw
      · obtain ⟨u, hu, rfl⟩ := List.mem_map.1 hw
        rw [hG u hu]
        exact Or.inl (List.mem_map.2 ⟨g0 u, hall u hu, rfl⟩)
      · rw [hGlm w hw]; exact Or.inr hw
    · rintro (hz | hz)
      · obtain ⟨u, hu, rfl⟩ := List.mem_map.1 hz
        refine ⟨ρ u, Or.inl (List.mem_map.2 ⟨u, htgt_sub u hu, rfl⟩), ?_⟩
        rw [hG u (htgt_sub u hu), htgt_fix u hu]
      · exact ⟨z, Or.inr hz, hGlm z hz⟩

/-- one target symbol `k` that no pair of `B0` touches is a class of its own -/
theorem count_isolated (ρ : Nat → Nat) (B0 : List (Nat × Nat)) (k : Nat) (tgt0 : List Nat) (lm : Link) (hwf : WF lm)
    (hk : ρ k ∉ labelSet lm) (hkt : ∀ u ∈ tgt0, ρ u ≠ ρ k) (hB : ∀ p ∈ B0, p.1 ∈ tgt0 ∧ p.2 ∈ tgt0) (s : Nat) :
    classCount ({z | z ∈ (k :: tgt0).map ρ} ∪ labelSet lm) (B0.map (pmap ρ) ++ statePairs lm s)
      = classCount ({z | z ∈ tgt0.map ρ} ∪ labelSet lm) (B0.map (pmap ρ) ++ statePairs lm s) + 1 := by
  have hset : ({z | z ∈ (k :: tgt0).map ρ} ∪ labelSet lm : Set Nat) = insert (ρ k) ({z | z ∈ tgt0.map ρ} ∪ labelSet lm) := by
    ext z; simp only [List.map_cons, List.mem_cons, Set.mem_union, Set.mem_ofPred_eq, Set.mem_insert_iff]; tauto
  rw [hset]
  apply classCount_insert_isolated
  · exact Set.Finite.union (List.finite_toSet _) (labelSet_finite lm)
  · rintro (h | h)
    · obtain ⟨u, hu, e⟩ := List.mem_map.1 h
      exact hkt u hu e
    · exact hk h
  · intro p hp
    rcases List.mem_append.1 hp with hp | hp
    · obtain ⟨p0, hp0, rfl⟩ := List.mem_map.1 hp
      simp only [pmap]
      constructor
      · intro h; exact absurd h (hkt _ (hB p0 hp0).1)
      · intro h; exact absurd h (hkt _ (hB p0 hp0).2)
    · obtain ⟨n1, n2⟩ := statePairs_ne hwf hk s p hp
      constructor
      · intro h; exact absurd h n1
      · intro h; exact absurd h n2

end Yuiv.C04Inv
