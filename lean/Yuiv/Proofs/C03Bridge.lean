import Yuiv.Proofs.C03Uct
import Yuiv.Props.C09Full
import Yuiv.Props.C07Full
/-
C03Bridge — helper lemmas connecting the abstract diagonal forms of `Proofs/C03Uct.lean` (`EquivDiag`, `cellOf`,
`torsOf`) with the CODE MODELS of the library's Smith normal form (`C09.snfCalc intOps`, Model/C09.lean) and of
`HomologyCalc::calculate` running on it (`C07.calculate (C07.snfC09 fuel)`, Model/C07Calc.lean + Proofs/C07Full.lean).
-/
namespace Yuiv.C03Bridge
open Matrix Yuiv Yuiv.C03 Yuiv.C03Uct

/-! ### C09: the final target of the SNF model as a `rectDiag` -/

theorem diagL_length {m n : ℕ} (T : C09.Mat Int m n) : (C09.diagL T).length = min m n := by
  simp [C09.diagL]

theorem diagL_getD {m n : ℕ} (T : C09.Mat Int m n) (k : ℕ) (hm : k < m) (hn : k < n) :
    (C09.diagL T).getD k 0 = T.get ⟨k, hm⟩ ⟨k, hn⟩ := by
  have hk : k < min m n := by omega
  simp [C09.diagL, List.getD_eq_getElem?_getD, hk]

/-- a diagonal `C09.Mat` is the `rectDiag` of its diagonal list -/
theorem toM_eq_rectDiag {m n : ℕ} (T : C09.Mat Int m n)
    (hD : ∀ (i : Fin m) (j : Fin n), i.1 ≠ j.1 → T.get i j = 0) :
    C09.toM id T = rectDiag m n (fun k => (C09.diagL T).getD k 0) := by
  ext i j
  rw [C09.toM_apply, rectDiag_apply]
  by_cases h : i.val = j.val
  · rw [if_pos h, diagL_getD T i.val i.2 (by rw [h]; exact j.2)]
    have : (⟨i.val, by rw [h]; exact j.2⟩ : Fin n) = j := Fin.ext h
    simp [this]
  · rw [if_neg h, hD i j h]; rfl

/-- `ShapeSpec (0 ≤ ·)` unfolded: all entries `≥ 0`, and EVERY entry divides the next one (the zeros at the end
included, everything divides `0`) -/
theorem shapeSpec_nonneg_chain (d : List Int) (h : C09.ShapeSpec (fun x : Int => 0 ≤ x) d) :
    (∀ x ∈ d, 0 ≤ x) ∧ (∀ i (hi : i + 1 < d.length), d[i] ∣ d[i + 1]) := by
  obtain ⟨r, _, hnz, hz, hch⟩ := h
  constructor
  · intro x hx
    obtain ⟨i, hi, rfl⟩ := List.getElem_of_mem hx
    by_cases hir : i < r
    · exact (hnz i hi hir).2
    · rw [hz i hi (by omega)]
  · intro i hi
    by_cases hir : i + 1 < r
    · exact hch i hi hir
    · rw [hz (i + 1) hi (by omega)]; exact Int.dvd_zero _

/-! ### C07: the reported numbers in the vocabulary of `cellOf` -/

theorem nzCount_eq_nz {m n : ℕ} (st : C09.St Int m n) : C07.nzCount st = nz (C09.diagL st.t) := rfl

/-- on a non-negative diagonal the library's `≠ 0, ≠ 1` filter is `torsOf` (`|x| ≠ 1`) -/
theorem nonUnitFactors_eq_torsOf {m n : ℕ} (st : C09.St Int m n) (hnn : ∀ x ∈ C09.diagL st.t, 0 ≤ x) :
    C07.nonUnitFactors st = torsOf (C09.diagL st.t) := by
  unfold C07.nonUnitFactors torsOf
  apply List.filter_congr
  intro x hx
  have h0 := hnn x hx
  by_cases hx0 : x = 0
  · simp [hx0]
  · by_cases hx1 : x = 1
    · simp [hx1]
    · have : x.natAbs ≠ 1 := by omega
      simp [hx0, hx1, this]

/-- transporting a diagonal form along an equality of the column dimension -/
theorem equivDiag_cast {r c c' : ℕ} (M : C07.Mat) (d : List ℤ) (hc : c = c')
    (h : EquivDiag (M.toM r c) d) : EquivDiag (M.toM r c') d := by
  subst hc; exact h

end Yuiv.C03Bridge
