import Yuiv.Proofs.C03Uct
import Mathlib.LinearAlgebra.FreeModule.PID
import Mathlib.LinearAlgebra.Matrix.Basis
import Mathlib.LinearAlgebra.Matrix.ToLin
/-
C03Uct, part 4 — every integer matrix HAS a diagonal form: `∀ A, ∃ d, EquivDiag A d`.
Derived from Mathlib's Smith normal form for submodules of free modules over a PID
(`Submodule.exists_smith_normal_form_of_le`) applied to the image of `A`, plus a splitting of the domain as
`im A ⊕ ker A` (the image is free, so `A` has a section).  With this the hypotheses `EquivDiag A dA`,
`EquivDiag B dB` of the counting theorems are satisfiable for EVERY complex.
-/
namespace Yuiv.C03Uct
open Matrix Module

section splitting
variable {R M N : Type*} [Ring R] [AddCommGroup M] [AddCommGroup N] [Module R M] [Module R N]

theorem split_bijective (f : M →ₗ[R] N) (s : LinearMap.range f →ₗ[R] M) (hs : ∀ y, f (s y) = y) :
    Function.Bijective (s.coprod (LinearMap.ker f).subtype) := by
  constructor
  · rw [← LinearMap.ker_eq_bot, LinearMap.ker_eq_bot']
    rintro ⟨y, z⟩ h
    simp only [LinearMap.coprod_apply, Submodule.subtype_apply] at h
    have h1 : f (s y + (z : M)) = 0 := by rw [h, map_zero]
    have hz : f (z : M) = 0 := z.2
    rw [map_add, hs, hz, add_zero] at h1
    have hy : y = 0 := Subtype.ext h1
    subst hy
    rw [map_zero, zero_add] at h
    have hz0 : z = 0 := Subtype.ext h
    rw [hz0]; rfl
  · intro x
    have hk : x - s (f.rangeRestrict x) ∈ LinearMap.ker f := by
      rw [LinearMap.mem_ker, map_sub, hs]; simp
    refine ⟨(f.rangeRestrict x, ⟨_, hk⟩), ?_⟩
    simp

/-- a linear map with a section on its range splits the domain as `range × ker` -/
noncomputable def splitEquiv (f : M →ₗ[R] N) (s : LinearMap.range f →ₗ[R] M) (hs : ∀ y, f (s y) = y) :
    (LinearMap.range f × LinearMap.ker f) ≃ₗ[R] M :=
  LinearEquiv.ofBijective (s.coprod (LinearMap.ker f).subtype) (split_bijective f s hs)

@[simp] theorem splitEquiv_apply (f : M →ₗ[R] N) (s : LinearMap.range f →ₗ[R] M) (hs : ∀ y, f (s y) = y)
    (y : LinearMap.range f) (z : LinearMap.ker f) : splitEquiv f s hs (y, z) = s y + (z : M) := by
  unfold splitEquiv
  rw [LinearEquiv.ofBijective_apply, LinearMap.coprod_apply, Submodule.subtype_apply]

end splitting

/-- existence of a diagonal form (Smith normal form without the divisibility chain) for every integer matrix -/
theorem exists_equivDiag {m n : ℕ} (A : Matrix (Fin m) (Fin n) ℤ) : ∃ d : List ℤ, EquivDiag A d := by
  classical
  obtain ⟨r, o, hro, bO, bN, a, ha⟩ :=
    (LinearMap.range A.mulVecLin).exists_smith_normal_form_of_le (Pi.basisFun ℤ (Fin m)) ⊤ le_top
  let bM : Basis (Fin o) ℤ (Fin m → ℤ) := bO.map (LinearEquiv.ofTop ⊤ rfl)
  have hbM : ∀ i, bM i = (bO i : Fin m → ℤ) := fun i => by simp [bM]
  have ho : o = m := by
    simpa using Fintype.card_congr (bM.indexEquiv (Pi.basisFun ℤ (Fin m)))
  subst ho
  -- preimages of the basis of the image, and the section
  have hv : ∀ i : Fin r, ∃ v, A.mulVecLin v = (bN i : Fin o → ℤ) := fun i => (bN i).2
  choose v hv using hv
  let s : LinearMap.range A.mulVecLin →ₗ[ℤ] (Fin n → ℤ) := bN.constr ℤ v
  have hs : ∀ y, A.mulVecLin (s y) = y := by
    intro y
    have h : A.mulVecLin.comp s = (LinearMap.range A.mulVecLin).subtype :=
      bN.ext (fun i => by simp [s, hv])
    exact LinearMap.congr_fun h y
  -- basis of the kernel
  obtain ⟨k', bK⟩ := Submodule.basisOfPid (Pi.basisFun ℤ (Fin n)) (LinearMap.ker A.mulVecLin)
  let bL0 : Basis (Fin r ⊕ Fin k') ℤ (Fin n → ℤ) := (bN.prod bK).map (splitEquiv A.mulVecLin s hs)
  have hn : r + k' = n := by
    simpa using Fintype.card_congr (bL0.indexEquiv (Pi.basisFun ℤ (Fin n)))
  subst hn
  let bL : Basis (Fin (r + k')) ℤ (Fin (r + k') → ℤ) := bL0.reindex finSumFinEquiv
  have hL1 : ∀ j : Fin r, A.mulVecLin (bL (finSumFinEquiv (Sum.inl j))) = a j • bM (Fin.castLE hro j) := by
    intro j
    simp only [bL, bL0, Basis.reindex_apply, Equiv.symm_apply_apply, Basis.map_apply, Basis.prod_apply,
      Sum.elim_inl, Function.comp_apply, LinearMap.coe_inl, splitEquiv_apply, ZeroMemClass.coe_zero, add_zero]
    rw [hs, ha j, hbM]
  have hL2 : ∀ j : Fin k', A.mulVecLin (bL (finSumFinEquiv (Sum.inr j))) = 0 := by
    intro j
    simp only [bL, bL0, Basis.reindex_apply, Equiv.symm_apply_apply, Basis.map_apply, Basis.prod_apply,
      Sum.elim_inr, Function.comp_apply, LinearMap.coe_inr, splitEquiv_apply, map_zero, zero_add]
    exact (bK j).2
  refine ⟨List.ofFn a, by simp; omega, bM.toMatrix (Pi.basisFun ℤ (Fin o)),
    (Pi.basisFun ℤ (Fin (r + k'))).toMatrix bL, ?_, ?_, ?_⟩
  · exact Matrix.isUnit_det_of_right_inverse (Basis.toMatrix_mul_toMatrix_flip _ _)
  · exact Matrix.isUnit_det_of_right_inverse (Basis.toMatrix_mul_toMatrix_flip _ _)
  · have hA : LinearMap.toMatrix (Pi.basisFun ℤ (Fin (r + k'))) (Pi.basisFun ℤ (Fin o)) A.mulVecLin = A := by
      ext i j
      simp [LinearMap.toMatrix_apply]
    have h := basis_toMatrix_mul_linearMap_toMatrix_mul_basis_toMatrix bL
      (Pi.basisFun ℤ (Fin (r + k'))) bM (Pi.basisFun ℤ (Fin o)) A.mulVecLin
    rw [hA] at h
    rw [h]
    ext i j
    obtain ⟨x, rfl⟩ := finSumFinEquiv.surjective j
    rw [LinearMap.toMatrix_apply, rectDiag_apply]
    cases x with
    | inl j' =>
      rw [hL1 j', map_smul, Basis.repr_self, Finsupp.smul_apply, Finsupp.single_apply, smul_eq_mul]
      simp only [finSumFinEquiv_apply_left, Fin.val_castAdd]
      by_cases hij : i.val = j'.val
      · have : Fin.castLE hro j' = i := Fin.ext (by simp [hij])
        simp [this, hij, List.getD_eq_getElem?_getD]
      · have : ¬ Fin.castLE hro j' = i := fun e => hij (by rw [← e]; simp)
        simp [this, hij]
    | inr j'' =>
      rw [hL2 j'', map_zero]
      simp only [finSumFinEquiv_apply_right, Fin.val_natAdd, Finsupp.coe_zero, Pi.zero_apply]
      by_cases h : i.val = r + j''.val
      · simp [h]
      · simp [h]

end Yuiv.C03Uct
