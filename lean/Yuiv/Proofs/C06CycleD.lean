import Yuiv.Proofs.C06CycleDefs
/-
C06CycleD — the imperative reference differential `KhRef.Cube.d` (`Id.run do`: outer `for k in [0:c.n]` with the
mutable `out : Array Term`, inner `for` building `m0`, the `prod` / `coprod` loops, early `return none`, final filter
of the reduced theory) equals, for ALL inputs, its loop-free functional form of `Proofs/C06CycleDefs.lean`:

    theorem cube_d_eq (c) (p) (g) : c.d p g = (dRaw c p g).map (fun out => match c.base with
        | none => out.toArray | some _ => (out.filter (fun t => baseKeep c t.1)).toArray)

Method (as `C18BridgeModel.crossingSigns_eq`): `Cube.d` is first shown equal to a copy `DModel.dM` whose loop bodies are
named functions (definitional unfolding + case split for the final `match`es); the range loops become `forIn` over
`List.range'` and then folds (`carry_loop`, `push_loop`); the outer loop with its early exit becomes `List.foldlM` in
`Option` on `Array` accumulators (`outer_loop`, `stepA`), which is carried over to `List` accumulators
(`foldlM_toArray`).  No hypotheses on the input.
-/
namespace Yuiv.C06Cycle
open Yuiv Yuiv.KhRef

namespace DModel

abbrev St := Option (Option (Array Term)) × Array Term

def carryBody (cs cs' : Array (Array Nat)) (mask : Nat) (i : Nat) (m0 : Nat) : Id (ForInStep Nat) :=
  if cs'.contains cs[i]! = true then
    pure (ForInStep.yield (setBit m0 ((cs'.findIdx? (· == cs[i]!)).getD 0) (mask.testBit i)))
  else pure (ForInStep.yield m0)

def prodBody (s' m0 b0 : Nat) (sign : Int) (x : Bool × Int) (out : Array Term) : Id (ForInStep (Array Term)) :=
  if (x.2 != 0) = true then pure (ForInStep.yield (out.push (⟨s', setBit m0 b0 x.1⟩, sign * x.2)))
  else pure (ForInStep.yield out)

def coprodBody (s' m0 b0 b1 : Nat) (sign : Int) (x : Bool × Bool × Int) (out : Array Term) :
    Id (ForInStep (Array Term)) :=
  if (x.2.2 != 0) = true then
    pure (ForInStep.yield (out.push (⟨s', setBit (setBit m0 b0 x.1) b1 x.2.1⟩, sign * x.2.2)))
  else pure (ForInStep.yield out)

def dBody (c : Cube) (p : Params) (g : Gen) (k : Nat) (st : St) : Id (ForInStep St) :=
  let cs := c.circ[g.s]!
  if (!g.s.testBit k) = true then
    let s' := g.s ||| 1 <<< k
    let cs' := c.circ[s']!
    let sign := edgeSign g.s k
    let gone := goneOf cs cs'
    let born := bornOf cs cs'
    do
      let m0 ← forIn [:cs.size] 0 (carryBody cs cs' g.mask)
      if (gone.size == 2 && born.size == 1) = true then do
        let out ← forIn (prod p.h p.t (g.mask.testBit gone[0]!) (g.mask.testBit gone[1]!)) st.2
          (prodBody s' m0 born[0]! sign)
        pure (ForInStep.yield (none, out))
      else if (gone.size == 1 && born.size == 2) = true then do
        let out ← forIn (coprod p.h p.t (g.mask.testBit gone[0]!)) st.2
          (coprodBody s' m0 born[0]! born[1]! sign)
        pure (ForInStep.yield (none, out))
      else pure (ForInStep.done (some none, st.2))
  else pure (ForInStep.yield (none, st.2))

def dM (c : Cube) (p : Params) (g : Gen) : Option (Array Term) := Id.run do
  let r ← forIn [:c.n] ((none, #[]) : St) (dBody c p g)
  match r.1 with
  | some r => pure r
  | none =>
    match c.base with
    | none => pure (some r.2)
    | some _ => pure (some (r.2.filter (fun t => baseKeep c t.1)))

theorem d_eqM (c : Cube) (p : Params) (g : Gen) : c.d p g = dM c p g := by
  unfold Cube.d dM
  show Id.run (forIn [:c.n] _ _ >>= _) = Id.run (forIn [:c.n] _ _ >>= _)
  congr 2
  funext r
  obtain ⟨a, b⟩ := r
  cases a
  · show (match c.base with | none => _ | some _ => _) = (match c.base with | none => _ | some _ => _)
    cases c.base <;> rfl
  · rfl


theorem forIn_yield {α β : Type} (g : α → β → β) (f : α → β → Id (ForInStep β))
    (h : ∀ a b, f a b = pure (ForInStep.yield (g a b))) (l : List α) (b : β) :
    forIn (m := Id) l b f = pure (l.foldl (fun b a => g a b) b) := by
  induction l generalizing b with
  | nil => rfl
  | cons a l ih =>
    rw [List.forIn_cons, h]
    exact ih _

theorem carry_loop (cs cs' : Array (Array Nat)) (mask : Nat) :
    forIn (m := Id) [:cs.size] 0 (carryBody cs cs' mask) = pure (carry cs cs' mask) := by
  rw [Std.Legacy.Range.forIn_eq_forIn_range',
    forIn_yield (fun i m0 => if cs'.contains cs[i]! then
      setBit m0 ((cs'.findIdx? (· == cs[i]!)).getD 0) (mask.testBit i) else m0)]
  · simp only [Std.Legacy.Range.size, Nat.sub_zero, Nat.add_sub_cancel, Nat.div_one, carry,
      List.range_eq_range']
  · intro i m0
    unfold carryBody
    split <;> rfl

theorem push_loop {α : Type} (f : α → Option Term) (body : α → Array Term → Id (ForInStep (Array Term)))
    (hb : ∀ x s, body x s = match f x with
      | some t => pure (ForInStep.yield (s.push t))
      | none => pure (ForInStep.yield s)) (xs : List α) (out : Array Term) :
    forIn (m := Id) xs out body = pure (out ++ (xs.filterMap f).toArray) := by
  induction xs generalizing out with
  | nil => simp
  | cons x xs ih =>
    rw [List.forIn_cons, hb, List.filterMap_cons]
    cases f x with
    | none => exact ih _
    | some t =>
      simp only [pure_bind]
      rw [ih]
      simp

/-- one step of the outer loop on `Array` accumulators -/
def stepA (c : Cube) (p : Params) (g : Gen) (out : Array Term) (k : Nat) : Option (Array Term) :=
  if g.s.testBit k then some out else (edgeTerms c p g k).map (fun ts => out ++ ts.toArray)

theorem dBody_eq (c : Cube) (p : Params) (g : Gen) (k : Nat) (st : St) :
    dBody c p g k st = match stepA c p g st.2 k with
      | some o => pure (ForInStep.yield (none, o))
      | none => pure (ForInStep.done (some none, st.2)) := by
  unfold dBody stepA edgeTerms
  cases hk : g.s.testBit k
  · simp only [Bool.not_false, if_true, carry_loop, pure_bind]
    generalize goneOf c.circ[g.s]! c.circ[g.s ||| 1 <<< k]! = gone
    generalize bornOf c.circ[g.s]! c.circ[g.s ||| 1 <<< k]! = born
    generalize carry c.circ[g.s]! c.circ[g.s ||| 1 <<< k]! g.mask = m0
    generalize edgeSign g.s k = sign
    generalize g.s ||| 1 <<< k = s'
    by_cases h1 : (gone.size == 2 && born.size == 1) = true
    · simp only [h1, if_true, Bool.false_eq_true, if_false, Option.map_some]
      rw [push_loop (fun ya : Bool × Int => if (ya.2 != 0) = true then
        some ((⟨s', setBit m0 born[0]! ya.1⟩ : Gen), sign * ya.2) else none)]
      · rfl
      · intro x o
        unfold prodBody
        split <;> rfl
    · by_cases h2 : (gone.size == 1 && born.size == 2) = true
      · simp only [h1, h2, if_true, Bool.false_eq_true, if_false, Option.map_some]
        rw [push_loop (fun yya : Bool × Bool × Int => if (yya.2.2 != 0) = true then
          some ((⟨s', setBit (setBit m0 born[0]! yya.1) born[1]! yya.2.1⟩ : Gen), sign * yya.2.2) else none)]
        · rfl
        · intro x o
          unfold coprodBody
          split <;> rfl
      · simp only [h1, h2, Bool.false_eq_true, if_false, Option.map_none]
  · rfl


theorem outer_loop (F : Array Term → Nat → Option (Array Term)) (body : Nat → St → Id (ForInStep St))
    (hb : ∀ k st, body k st = match F st.2 k with
      | some o => pure (ForInStep.yield (none, o))
      | none => pure (ForInStep.done (some none, st.2))) (xs : List Nat) (out : Array Term) :
    match xs.foldlM F out with
    | some o => forIn (m := Id) xs (none, out) body = pure (none, o)
    | none => ∃ o, forIn (m := Id) xs (none, out) body = pure (some none, o) := by
  induction xs generalizing out with
  | nil => rfl
  | cons x xs ih =>
    rw [List.forIn_cons, hb, List.foldlM_cons]
    cases h : F out x with
    | none => exact ⟨out, rfl⟩
    | some o => exact ih o

theorem foldlM_toArray (c : Cube) (p : Params) (g : Gen) (xs : List Nat) (out : List Term) :
    xs.foldlM (stepA c p g) out.toArray = (xs.foldlM (fun out k =>
      if g.s.testBit k then some out else (edgeTerms c p g k).map (fun ts => out ++ ts)) out).map List.toArray := by
  induction xs generalizing out with
  | nil => rfl
  | cons x xs ih =>
    rw [List.foldlM_cons, List.foldlM_cons]
    unfold stepA
    cases g.s.testBit x
    · cases edgeTerms c p g x with
      | none => rfl
      | some ts =>
        simp only [Bool.false_eq_true, if_false, Option.map_some, List.append_toArray]
        exact ih _
    · exact ih _

theorem dM_eq (c : Cube) (p : Params) (g : Gen) :
    dM c p g = (dRaw c p g).map (fun out =>
      match c.base with
      | none => out.toArray
      | some _ => (out.filter (fun t => baseKeep c t.1)).toArray) := by
  unfold dM dRaw
  rw [Std.Legacy.Range.forIn_eq_forIn_range']
  have h := outer_loop (stepA c p g) (dBody c p g) (dBody_eq c p g) (List.range' 0 [:c.n].size 1) #[]
  have e : List.range' 0 [:c.n].size 1 = List.range c.n := by
    simp only [Std.Legacy.Range.size, Nat.sub_zero, Nat.add_sub_cancel, Nat.div_one, List.range_eq_range']
  rw [e] at h ⊢
  have h2 := foldlM_toArray c p g (List.range c.n) []
  rw [h2] at h
  cases hd : List.foldlM (fun out k =>
      if g.s.testBit k then some out else (edgeTerms c p g k).map (fun ts => out ++ ts)) [] (List.range c.n) with
  | none =>
    rw [hd] at h
    obtain ⟨o, ho⟩ := h
    rw [ho]
    rfl
  | some o =>
    rw [hd] at h
    simp only [Option.map_some] at h
    rw [h]
    simp only [Option.map_some]
    cases c.base with
    | none => rfl
    | some b =>
      simp only [Id.run, pure_bind, List.size_toArray, List.filter_toArray']
      rfl

end DModel

theorem cube_d_eq (c : Cube) (p : Params) (g : Gen) :
    c.d p g = (dRaw c p g).map (fun out =>
      match c.base with
      | none => out.toArray
      | some _ => (out.filter (fun t => baseKeep c t.1)).toArray) :=
  (DModel.d_eqM c p g).trans (DModel.dM_eq c p g)

end Yuiv.C06Cycle
