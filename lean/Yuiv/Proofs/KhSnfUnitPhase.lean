import Yuiv.Proofs.KhSnfGInv
import Yuiv.Proofs.KhSnfUnit
import Mathlib.Tactic.Ring
import Mathlib.Tactic.LinearCombination
/-
KhSnf — the unit-pivot phase `unitLoop` preserves the elimination invariant `GInv` (helper): every round is a family
of row operations with the pivot row as source, a family of column operations with the pivot column as source
(implicit in the code: the pivot row is simply dropped), and the removal of the pivot row/column pair and of the rows
that became empty.
-/
namespace Yuiv.KhSnf
open Yuiv Yuiv.KhRef Matrix Yuiv.C03Uct

/-- the hypothesis on `rowAxpy` in the form used by `unitStep_spec` -/
def RowAxpySpecNe : Prop := ∀ (n : Nat) (a b : Row) (k : Int), k ≠ 0 → RowOK n a → RowOK n b →
  RowOK n (rowAxpy a k b) ∧ ∀ c, rval (rowAxpy a k b) c = rval a c + k * rval b c

theorem unit_sq {u : Int} (hu : u = 1 ∨ u = -1) : u * u = 1 := by
  rcases hu with rfl | rfl <;> rfl

/-- one round of the unit-pivot elimination preserves the invariant -/
theorem unitStep_ginv (hg : RowGetSpec) (ha : RowAxpySpecNe) {m n : Nat} {A : Matrix (Fin m) (Fin n) ℤ}
    (rows next : Array Row) (units : Nat) (hok : ∀ r ∈ rows.toList, RowOK n r)
    (hG : GInv m n A rows.size n (rowsFn rows) units) (h : unitStep rows = some next) :
    (∀ r ∈ next.toList, RowOK n r) ∧ GInv m n A next.size n (rowsFn next) (units + 1) := by
  obtain ⟨i, j, u, idx, hi, hj, hu, hij, hnext, hpw, hidx, hsz, hval, hzero⟩ := unitStep_spec hg ha n rows next hok h
  refine ⟨fun r hr => (hnext r hr).1, ?_⟩
  have uu := unit_sq hu
  -- row operations with source row `i`
  have G1 := ginv_rowOps i hi (fun k => if k = i then 0 else -(rowsFn rows k j * u)) (by simp) hG
  -- column operations with source column `j`
  have G2 := ginv_colOps j hj
    (fun c => if c = j then 0 else
      -(u * ((fun k c => rowsFn rows k c + (if k = i then 0 else -(rowsFn rows k j * u)) * rowsFn rows i c) i c)))
    (by simp) ⟨i, hi, by
      show rowsFn rows i j + (if i = i then 0 else -(rowsFn rows i j * u)) * rowsFn rows i j ≠ 0
      have : rowsFn rows i j = u := hij
      rw [this]; simp
      rcases hu with rfl | rfl <;> decide⟩
    (by
      intro c _ hz
      by_cases hcj : c = j
      · simp [hcj]
      · simp only [hcj, if_false]
        have := hz i hi
        simp only at this
        rw [this]; simp) G1
  have hiju : rowsFn rows i j = u := hij
  -- peel the pivot
  have G3 := ginv_peel i j hi hj
    (by
      show (rowsFn rows i j + (if i = i then 0 else -(rowsFn rows i j * u)) * rowsFn rows i j) +
        (if j = j then 0 else _) * _ = 1 ∨ _ = -1
      simp only [if_true, zero_mul, add_zero, hiju]
      exact hu)
    (by
      intro c hc hcj
      show (rowsFn rows i c + (if i = i then 0 else -(rowsFn rows i j * u)) * rowsFn rows i c) +
        (if c = j then 0 else -(u * (rowsFn rows i c + (if i = i then 0 else -(rowsFn rows i j * u)) * rowsFn rows i c))) *
          (rowsFn rows i j + (if i = i then 0 else -(rowsFn rows i j * u)) * rowsFn rows i j) = 0
      simp only [if_true, zero_mul, add_zero, hcj, if_false, hiju]
      linear_combination (-(rowsFn rows i c)) * uu)
    (by
      intro k hk hki
      show (rowsFn rows k j + (if k = i then 0 else -(rowsFn rows k j * u)) * rowsFn rows i j) +
        (if j = j then 0 else _) * _ = 0
      simp only [if_true, zero_mul, add_zero, hki, if_false, hiju]
      linear_combination (-(rowsFn rows k j)) * uu)
    next.size (fun p => idx.getD p 0)
    (by
      intro p hp
      have : idx.getD p 0 ∈ idx := by
        rw [List.getD_eq_getElem?_getD, List.getElem?_eq_getElem (by omega)]
        simp
      exact hidx _ this)
    (by
      intro p p' hp hp' e
      rw [hsz] at hp hp'
      rw [List.getD_eq_getElem?_getD, List.getD_eq_getElem?_getD, List.getElem?_eq_getElem hp,
        List.getElem?_eq_getElem hp'] at e
      simp only [Option.getD_some] at e
      have hnd : idx.Nodup := hpw.imp (fun h => Nat.ne_of_lt h)
      exact (List.Nodup.getElem_inj_iff hnd).1 e)
    (by
      intro k hk hki hnot c hc
      have hk' : k ∉ idx := by
        intro hmem
        obtain ⟨p, hp, rfl⟩ := List.getElem_of_mem hmem
        apply hnot p (by omega)
        rw [List.getD_eq_getElem?_getD, List.getElem?_eq_getElem hp]; rfl
      have hz := hzero k hk hki hk'
      show (rowsFn rows k c + (if k = i then 0 else -(rowsFn rows k j * u)) * rowsFn rows i c) +
        (if c = j then 0 else _) * (rowsFn rows k j + (if k = i then 0 else -(rowsFn rows k j * u)) * rowsFn rows i j) = 0
      simp only [hki, if_false, hiju]
      have e1 : rowsFn rows k j + -(rowsFn rows k j * u) * u = 0 := by
        linear_combination (-(rowsFn rows k j)) * uu
      rw [e1, mul_zero, add_zero]
      have := hz c
      unfold rowsFn
      linear_combination this)
    G2
  refine ginv_congr ?_ G3
  intro p c hp hc
  have hpi : idx.getD p 0 ≠ i := by
    have : idx.getD p 0 ∈ idx := by
      rw [List.getD_eq_getElem?_getD, List.getElem?_eq_getElem (by omega)]
      simp
    exact (hidx _ this).2
  show (rowsFn rows (idx.getD p 0) c +
      (if idx.getD p 0 = i then 0 else -(rowsFn rows (idx.getD p 0) j * u)) * rowsFn rows i c) +
    (if c = j then 0 else _) * (rowsFn rows (idx.getD p 0) j +
      (if idx.getD p 0 = i then 0 else -(rowsFn rows (idx.getD p 0) j * u)) * rowsFn rows i j) = rowsFn next p c
  simp only [hpi, if_false, hiju]
  have e1 : rowsFn rows (idx.getD p 0) j + -(rowsFn rows (idx.getD p 0) j * u) * u = 0 := by
    linear_combination (-(rowsFn rows (idx.getD p 0) j)) * uu
  rw [e1, mul_zero, add_zero]
  have := hval p (by omega) c
  unfold rowsFn
  rw [this]
  ring

/-- the unit-pivot phase preserves the invariant (whatever the fuel) -/
theorem unitLoop_ginv (hg : RowGetSpec) (ha : RowAxpySpecNe) {m n : Nat} {A : Matrix (Fin m) (Fin n) ℤ} :
    ∀ (fuel : Nat) (rows : Array Row) (units : Nat), (∀ r ∈ rows.toList, RowOK n r) →
      GInv m n A rows.size n (rowsFn rows) units →
      (∀ r ∈ (unitLoop fuel rows units).1.toList, RowOK n r) ∧
      GInv m n A (unitLoop fuel rows units).1.size n (rowsFn (unitLoop fuel rows units).1) (unitLoop fuel rows units).2 := by
  intro fuel
  induction fuel with
  | zero => intro rows units hok hG; exact ⟨hok, hG⟩
  | succ fuel ih =>
    intro rows units hok hG
    unfold unitLoop
    cases h : unitStep rows with
    | none => exact ⟨hok, hG⟩
    | some next =>
      obtain ⟨h1, h2⟩ := unitStep_ginv hg ha rows next units hok hG h
      exact ih next (units + 1) h1 h2

end Yuiv.KhSnf
