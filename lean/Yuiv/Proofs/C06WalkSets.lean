import Yuiv.Proofs.C06WalkDefs
import Yuiv.Proofs.C06CycleEdge
import Yuiv.Proofs.KhSpecSort
import Yuiv.Drv.C06
/-
C06Walk — the driver's `sets` flag as a consequence of the two specifications (helper; property theorems in
`Props/C06Walk.lean`): if `paths` partition the labels into the classes of `Conn P` (walk model) and `cs` lists the same
classes, each increasingly, ordered by least label (cube reference), then sorting every path and sorting the paths by
their heads gives exactly the list `cs`.
-/
namespace Yuiv.C06Walk
open Yuiv Yuiv.KhRef Yuiv.C06Canon Yuiv.C04Inv Yuiv.C06Cycle Yuiv.Drv.C06

theorem sortNat_perm (xs : List Nat) : (sortNat xs).Perm xs := by
  unfold sortNat
  have := (qsort_perm xs.toArray (· < ·)).toList
  simpa using this

theorem sortNat_sorted (xs : List Nat) : (sortNat xs).Pairwise (· ≤ ·) := by
  unfold sortNat
  exact KhSpec.qsort_sorted_key (fun a : Nat => a) xs.toArray

theorem sortNat_strict (xs : List Nat) (hn : xs.Nodup) : (sortNat xs).Pairwise (· < ·) := by
  have h1 := sortNat_sorted xs
  have h2 : (sortNat xs).Pairwise (· ≠ ·) := (sortNat_perm xs).nodup_iff.2 hn
  exact (h1.and h2).imp (fun h => by omega)

/-- strictly increasing lists with the same members are equal -/
theorem eq_of_strict {a b : List Nat} (ha : a.Pairwise (· < ·)) (hb : b.Pairwise (· < ·))
    (h : ∀ x, x ∈ a ↔ x ∈ b) : a = b := by
  have hnd : ∀ {M : List Nat}, M.Pairwise (· < ·) → M.Nodup := fun h => h.imp (fun h => by omega)
  refine List.Perm.eq_of_pairwise (le := (· ≤ ·)) (fun a b _ _ h1 h2 => by omega)
    (ha.imp (fun h => by omega)) (hb.imp (fun h => by omega)) ?_
  rw [List.perm_ext_iff_of_nodup (hnd ha) (hnd hb)]
  exact h

theorem sets_of_specs (labels : Array Nat) (P : List (Nat × Nat)) (paths : List Path) (cs : Array (Array Nat))
    (hcov : ∀ e, e ∈ labels ↔ ∃ p ∈ paths, e ∈ p.edges)
    (hnd : (paths.flatMap (·.edges)).Nodup)
    (hne : ∀ p ∈ paths, p.edges ≠ [])
    (hcls : ∀ p ∈ paths, ∀ e ∈ p.edges, ∀ e', Conn P e e' ↔ e' ∈ p.edges)
    (spec : CirclesSpec labels P cs)
    (hsort : ∀ i, i < cs.size → (cs[i]!).toList.Pairwise (· < ·))
    (hord : ∀ i j, i < j → j < cs.size → (cs[i]!)[0]! < (cs[j]!)[0]!) :
    ((paths.map (fun p => sortNat p.edges)).toArray.qsort (fun x y => x.headD 0 < y.headD 0)).toList =
      cs.toList.map (·.toList) := by
  have hnd' := (List.pairwise_flatMap (R := (· ≠ ·))).1 hnd
  -- a path and a circle sharing a label are the same set, hence the same sorted list
  have hsame : ∀ p ∈ paths, ∀ i, i < cs.size → ∀ e, e ∈ p.edges → e ∈ cs[i]! →
      sortNat p.edges = (cs[i]!).toList := by
    intro p hp i hi e hep hei
    have hpn : p.edges.Nodup := hnd'.1 p hp
    apply eq_of_strict (sortNat_strict _ hpn) (hsort i hi)
    intro x
    rw [(sortNat_perm p.edges).mem_iff, Array.mem_toList_iff, spec.mem_iff hi hei x, ← hcls p hp e hep x]
    constructor
    · intro c
      exact ⟨(hcov x).2 ⟨p, hp, (hcls p hp e hep x).1 c⟩, c⟩
    · exact fun h => h.2
  have hhead : ∀ i, i < cs.size → ((cs[i]!).toList).headD 0 = (cs[i]!)[0]! := by
    intro i hi
    obtain ⟨x, hx⟩ := spec.nonempty hi
    have hpos : 0 < (cs[i]!).size := by
      rcases Nat.eq_zero_or_pos (cs[i]!).size with h | h
      · rw [Array.size_eq_zero_iff.1 h] at hx; simp at hx
      · exact h
    rw [getElem!_pos (cs[i]!) 0 hpos]
    have aux : ∀ (l : List Nat) (h : 0 < l.length), l.headD 0 = l[0] := by
      intro l h; cases l with
      | nil => simp at h
      | cons a r => rfl
    rw [aux _ (by simpa using hpos), Array.getElem_toList]
  -- the reference list is strictly increasing by heads
  have hB : (cs.toList.map (·.toList)).Pairwise (fun x y => x.headD 0 < y.headD 0) := by
    rw [List.pairwise_iff_getElem]
    intro i j hi hj hij
    simp only [List.length_map, Array.length_toList] at hi hj
    simp only [List.getElem_map, Array.getElem_toList]
    have e1 := hhead i hi
    have e2 := hhead j hj
    rw [getElem!_pos cs i hi] at e1
    rw [getElem!_pos cs j hj] at e2
    rw [e1, e2]
    have := hord i j hij hj
    rwa [getElem!_pos cs i hi, getElem!_pos cs j hj] at this
  have hBnd : (cs.toList.map (·.toList)).Nodup := hB.imp (fun h e => by rw [e] at h; omega)
  -- the sorted paths are pairwise different
  have hAnd : (paths.map (fun p => sortNat p.edges)).Nodup := by
    unfold List.Nodup
    rw [List.pairwise_map]
    refine hnd'.2.imp_of_mem ?_
    intro p q hp hq hd e
    obtain ⟨x, hx⟩ := List.exists_mem_of_ne_nil _ (hne p hp)
    have : x ∈ sortNat q.edges := by rw [← e]; exact (sortNat_perm _).mem_iff.2 hx
    exact hd x hx x ((sortNat_perm _).mem_iff.1 this) rfl
  -- same members
  have hAB : (paths.map (fun p => sortNat p.edges)).Perm (cs.toList.map (·.toList)) := by
    rw [List.perm_ext_iff_of_nodup hAnd hBnd]
    intro x
    simp only [List.mem_map]
    constructor
    · rintro ⟨p, hp, rfl⟩
      obtain ⟨e, he⟩ := List.exists_mem_of_ne_nil _ (hne p hp)
      obtain ⟨i, hi, hei⟩ := spec.cover e ((hcov e).2 ⟨p, hp, he⟩)
      refine ⟨cs[i]!, ?_, (hsame p hp i hi e he hei).symm⟩
      rw [getElem!_pos cs i hi]; exact Array.getElem_mem_toList hi
    · rintro ⟨c, hc, rfl⟩
      obtain ⟨i, hi, rfl⟩ := List.getElem_of_mem hc
      simp only [Array.length_toList] at hi
      simp only [Array.getElem_toList]
      obtain ⟨e, he⟩ := spec.nonempty hi
      obtain ⟨p, hp, hep⟩ := (hcov e).1 (spec.mem_labels hi he)
      refine ⟨p, hp, ?_⟩
      have := hsame p hp i hi e hep he
      rwa [getElem!_pos cs i hi] at this
  -- the sorted list
  have hQs := KhSpec.qsort_sorted_key (fun x : List Nat => x.headD 0) (paths.map (fun p => sortNat p.edges)).toArray
  have hQp : ((paths.map (fun p => sortNat p.edges)).toArray.qsort (fun x y => x.headD 0 < y.headD 0)).toList.Perm
      (cs.toList.map (·.toList)) := by
    have := (qsort_perm (paths.map (fun p => sortNat p.edges)).toArray (fun x y => x.headD 0 < y.headD 0)).toList
    rw [List.toList_toArray] at this
    exact this.trans hAB
  refine List.Perm.eq_of_pairwise (le := fun x y => x.headD 0 ≤ y.headD 0) ?_ hQs (hB.imp (fun h => by omega)) hQp
  intro a b ha hb h1 h2
  have ha' := hQp.mem_iff.1 ha
  obtain ⟨i, hi, rfl⟩ := List.getElem_of_mem ha'
  obtain ⟨j, hj, rfl⟩ := List.getElem_of_mem hb
  have hpw := List.pairwise_iff_getElem.1 hB
  rcases Nat.lt_trichotomy i j with h | h | h
  · have := hpw i j hi hj h; omega
  · subst h; rfl
  · have := hpw j i hj hi h; omega

end Yuiv.C06Walk
