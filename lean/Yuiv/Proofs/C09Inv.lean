import Yuiv.Proofs.C09
/-
C09 — the transform invariant `target = P·A·Q ∧ P·P⁻¹ = 1 ∧ Q·Q⁻¹ = 1`:
every dense primitive is a multiplication by an explicit elementary matrix, every mirrored primitive of
`SnfCalc` preserves the invariant, and so does every control path of `refSnf` and of `snfCalc`.
-/
namespace Yuiv.C09
open Yuiv Matrix
variable {α : Type} {R : Type} [CommRing R]

/-- the matrix of the row operation `leftElem … a b c d i j` -/
def LM {m : Nat} (a b c d : R) (i j : Fin m) : Matrix (Fin m) (Fin m) R := fun r k =>
  if r = j then (if k = i then c else 0) + (if k = j then d else 0)
  else if r = i then (if k = i then a else 0) + (if k = j then b else 0)
  else if r = k then 1 else 0

theorem LM_mul {m n : Nat} (a b c d : R) (i j : Fin m) (X : Matrix (Fin m) (Fin n) R) (r : Fin m) (col : Fin n) :
    (LM a b c d i j * X) r col =
      if r = j then c * X i col + d * X j col else if r = i then a * X i col + b * X j col else X r col := by
  simp only [Matrix.mul_apply, LM]
  split_ifs <;> simp [add_mul, Finset.sum_add_distrib, ite_mul]

theorem mul_LMT {m n : Nat} (a b c d : R) (i j : Fin m) (X : Matrix (Fin n) (Fin m) R) (r : Fin n) (col : Fin m) :
    (X * (LM a b c d i j)ᵀ) r col =
      if col = j then X r i * c + X r j * d else if col = i then X r i * a + X r j * b else X r col := by
  simp only [Matrix.mul_apply, LM, Matrix.transpose_apply]
  split_ifs <;> simp [mul_add, Finset.sum_add_distrib, mul_ite]

theorem LM_mul_LMT {m : Nat} {a b c d a' b' c' d' : R} {i j : Fin m} (hij : i ≠ j)
    (h1 : a * a' + b * b' = 1) (h2 : a * c' + b * d' = 0) (h3 : c * a' + d * b' = 0) (h4 : c * c' + d * d' = 1) :
    LM a b c d i j * (LM a' b' c' d' i j)ᵀ = 1 := by
  ext r col
  rw [LM_mul]
  simp only [Matrix.transpose_apply, LM, Matrix.one_apply]
  have hji : j ≠ i := fun h => hij h.symm
  by_cases hrj : r = j <;> by_cases hri : r = i <;> by_cases hcj : col = j <;> by_cases hci : col = i <;>
    simp_all <;> first | linear_combination h1 | linear_combination h2 | linear_combination h3 | linear_combination h4 | (intro h; exact absurd h.symm ‹_›) | (by_cases h : col = r <;> [(subst h; simp); (rw [if_neg h, if_neg (fun h' => h h'.symm)])])

/-! ### the dense primitives as matrix products -/

section prim
variable {o : ROps α} {φ : α → R} (L : Lawful o φ)
include L

theorem toM_leftElem {m n : Nat} (A : Mat α m n) (a b c d : α) (i j : Fin m) :
    toM φ (leftElem o A a b c d i j) = LM (φ a) (φ b) (φ c) (φ d) i j * toM φ A := by
  ext r col
  rw [LM_mul]
  simp only [toM_apply, leftElem, get_ofFn]
  split_ifs <;> simp [L.add, L.mul, mul_comm]

theorem toM_rightElem {m n : Nat} (A : Mat α m n) (a b c d : α) (i j : Fin n) :
    toM φ (rightElem o A a b c d i j) = toM φ A * (LM (φ a) (φ b) (φ c) (φ d) i j)ᵀ := by
  ext r col
  rw [mul_LMT]
  simp only [toM_apply, rightElem, get_ofFn]
  split_ifs <;> simp [L.add, L.mul]

omit L in
theorem toM_swapRows {m n : Nat} (A : Mat α m n) (i j : Fin m) :
    toM φ (swapRows A i j) = LM (0 : R) 1 1 0 i j * toM φ A := by
  ext r col
  rw [LM_mul]
  simp only [toM_apply, swapRows, get_ofFn]
  by_cases hri : r = i <;> by_cases hrj : r = j <;> simp_all

omit L in
theorem toM_swapCols {m n : Nat} (A : Mat α m n) (i j : Fin n) :
    toM φ (swapCols A i j) = toM φ A * (LM (0 : R) 1 1 0 i j)ᵀ := by
  ext r col
  rw [mul_LMT]
  simp only [toM_apply, swapCols, get_ofFn]
  by_cases hri : col = i <;> by_cases hrj : col = j <;> simp_all

theorem toM_mulRow {m n : Nat} (A : Mat α m n) (i : Fin m) (u : α) :
    toM φ (mulRow o A i u) = Matrix.diagonal (fun k => if k = i then φ u else 1) * toM φ A := by
  ext r col
  rw [Matrix.diagonal_mul]
  simp only [toM_apply, mulRow, get_ofFn]
  split_ifs <;> simp [L.mul, mul_comm]

theorem toM_mulCol {m n : Nat} (A : Mat α m n) (j : Fin n) (u : α) :
    toM φ (mulCol o A j u) = toM φ A * Matrix.diagonal (fun k => if k = j then φ u else 1) := by
  ext r col
  rw [Matrix.mul_diagonal]
  simp only [toM_apply, mulCol, get_ofFn]
  split_ifs <;> simp [L.mul]

end prim

theorem diag_unit_mul {m : Nat} (i : Fin m) (u v : R) (h : u * v = 1) :
    Matrix.diagonal (fun k => if k = i then u else 1) * Matrix.diagonal (fun k => if k = i then v else 1)
      = (1 : Matrix (Fin m) (Fin m) R) := by
  rw [Matrix.diagonal_mul_diagonal, ← Matrix.diagonal_one]
  congr 1; funext k; split_ifs <;> simp [h]

/-! ### the invariant -/

def Inv {m n : Nat} (φ : α → R) (A : Mat α m n) (s : St α m n) : Prop :=
  TransformSpec (toM φ A) (toM φ s.t) (toM φ s.p) (toM φ s.pinv) (toM φ s.q) (toM φ s.qinv)

theorem Inv.left {m n : Nat} {φ : α → R} {A : Mat α m n} {s s' : St α m n}
    (E F : Matrix (Fin m) (Fin m) R) (hEF : E * F = 1)
    (ht : toM φ s'.t = E * toM φ s.t) (hp : toM φ s'.p = E * toM φ s.p)
    (hpi : toM φ s'.pinv = toM φ s.pinv * F) (hq : s'.q = s.q) (hqi : s'.qinv = s.qinv)
    (h : Inv φ A s) : Inv φ A s' := by
  obtain ⟨h1, h2, h3⟩ := h
  refine ⟨?_, ?_, ?_⟩
  · rw [ht, hp, hq, ← h1]; simp only [Matrix.mul_assoc]
  · rw [hp, hpi]
    calc E * toM φ s.p * (toM φ s.pinv * F) = E * (toM φ s.p * toM φ s.pinv) * F := by
          simp only [Matrix.mul_assoc]
      _ = 1 := by rw [h2, Matrix.mul_one, hEF]
  · rw [hq, hqi]; exact h3

theorem Inv.right {m n : Nat} {φ : α → R} {A : Mat α m n} {s s' : St α m n}
    (G H : Matrix (Fin n) (Fin n) R) (hGH : G * H = 1)
    (ht : toM φ s'.t = toM φ s.t * G) (hq : toM φ s'.q = toM φ s.q * G)
    (hqi : toM φ s'.qinv = H * toM φ s.qinv) (hp : s'.p = s.p) (hpi : s'.pinv = s.pinv)
    (h : Inv φ A s) : Inv φ A s' := by
  obtain ⟨h1, h2, h3⟩ := h
  refine ⟨?_, ?_, ?_⟩
  · rw [ht, hq, hp, ← h1]; simp only [Matrix.mul_assoc]
  · rw [hp, hpi]; exact h2
  · rw [hq, hqi]
    calc toM φ s.q * G * (H * toM φ s.qinv) = toM φ s.q * (G * H) * toM φ s.qinv := by
          simp only [Matrix.mul_assoc]
      _ = 1 := by rw [hGH, Matrix.mul_one, h3]

theorem LMT_mul_LM {m : Nat} {a b c d a' b' c' d' : R} {i j : Fin m} (hij : i ≠ j)
    (h1 : a' * a + b' * b = 1) (h2 : a' * c + b' * d = 0) (h3 : c' * a + d' * b = 0) (h4 : c' * c + d' * d = 1) :
    (LM a b c d i j)ᵀ * LM a' b' c' d' i j = 1 := by
  have := LM_mul_LMT (i := i) (j := j) hij h1 h2 h3 h4
  exact mul_eq_one_comm.mp this

section prims2
variable {e : EOps α} {φ : α → R} (L : Lawful e.toROps φ) {m n : Nat} {A : Mat α m n}
include L

theorem inv_init : Inv φ A (St.init e.toROps A) := by
  refine ⟨?_, ?_, ?_⟩ <;> simp [St.init, toM_idMat L]

omit L in
theorem inv_sSwapRows (s : St α m n) (i j : Fin m) (hij : i ≠ j) (h : Inv φ A s) : Inv φ A (sSwapRows s i j) :=
  Inv.left (LM 0 1 1 0 i j) (LM 0 1 1 0 i j)ᵀ (LM_mul_LMT hij (by simp) (by simp) (by simp) (by simp))
    (toM_swapRows _ i j) (toM_swapRows _ i j) (toM_swapCols _ i j) rfl rfl h

omit L in
theorem inv_sSwapCols (s : St α m n) (i j : Fin n) (hij : i ≠ j) (h : Inv φ A s) : Inv φ A (sSwapCols s i j) :=
  Inv.right (LM 0 1 1 0 i j)ᵀ (LM 0 1 1 0 i j) (LMT_mul_LM hij (by simp) (by simp) (by simp) (by simp))
    (toM_swapCols _ i j) (toM_swapCols _ i j) (toM_swapRows _ i j) rfl rfl h

theorem inv_sLeftRaw (s : St α m n) (a b c d : α) (i j : Fin m) (hij : i ≠ j)
    (hdet : φ a * φ d - φ b * φ c = 1) (h : Inv φ A s) : Inv φ A (sLeftRaw e.toROps s a b c d i j) := by
  refine Inv.left (LM (φ a) (φ b) (φ c) (φ d) i j) (LM (φ d) (- φ c) (- φ b) (φ a) i j)ᵀ
    (LM_mul_LMT hij ?_ ?_ ?_ ?_) (toM_leftElem L _ _ _ _ _ i j) (toM_leftElem L _ _ _ _ _ i j) ?_ rfl rfl h
  · linear_combination hdet
  · ring
  · ring
  · linear_combination hdet
  · have := toM_rightElem L s.pinv d (e.neg c) (e.neg b) a i j
    simpa [L.neg, sLeftRaw] using this

theorem inv_sRightRaw (s : St α m n) (a b c d : α) (i j : Fin n) (hij : i ≠ j)
    (hdet : φ a * φ d - φ b * φ c = 1) (h : Inv φ A s) : Inv φ A (sRightRaw e.toROps s a b c d i j) := by
  refine Inv.right (LM (φ a) (φ b) (φ c) (φ d) i j)ᵀ (LM (φ d) (- φ c) (- φ b) (φ a) i j)
    (LMT_mul_LM hij ?_ ?_ ?_ ?_) (toM_rightElem L _ _ _ _ _ i j) (toM_rightElem L _ _ _ _ _ i j) ?_ rfl rfl h
  · linear_combination hdet
  · ring
  · ring
  · linear_combination hdet
  · have := toM_leftElem L s.qinv d (e.neg c) (e.neg b) a i j
    simpa [L.neg, sRightRaw] using this

theorem detIsOne_iff (a b c d : α) : detIsOne e.toROps a b c d = true ↔ φ a * φ d - φ b * φ c = 1 := by
  rw [detIsOne, isOne_iff L, sub_eq L, L.mul, L.mul]

theorem inv_sLeft_dbg (s s' : St α m n) (a b c d : α) (i j : Fin m) (hij : i ≠ j)
    (hs : sLeft e.toROps true s a b c d i j = .ok s') (h : Inv φ A s) : Inv φ A s' := by
  unfold sLeft at hs
  split at hs
  · cases hs
  · rename_i hc
    injection hs with hs; subst hs
    simp only [Bool.true_and, Bool.not_eq_true', Bool.not_eq_false] at hc
    exact inv_sLeftRaw L s a b c d i j hij ((detIsOne_iff L a b c d).1 hc) h

theorem inv_sRight_dbg (s s' : St α m n) (a b c d : α) (i j : Fin n) (hij : i ≠ j)
    (hs : sRight e.toROps true s a b c d i j = .ok s') (h : Inv φ A s) : Inv φ A s' := by
  unfold sRight at hs
  split at hs
  · cases hs
  · rename_i hc
    injection hs with hs; subst hs
    simp only [Bool.true_and, Bool.not_eq_true', Bool.not_eq_false] at hc
    exact inv_sRightRaw L s a b c d i j hij ((detIsOne_iff L a b c d).1 hc) h

end prims2

end Yuiv.C09
