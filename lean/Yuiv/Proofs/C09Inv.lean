import Yuiv.Proofs.C09
/-
C09 — the transform invariant `target = P·A·Q ∧ P·P⁻¹ = 1 ∧ Q·Q⁻¹ = 1`:
every dense primitive is a multiplication by an explicit elementary matrix, every mirrored primitive of
`SnfCalc` preserves the invariant, and so does every control path of `refSnf` and of `snfCalc`.
-/
namespace Yuiv.C09
open Yuiv Matrix
variable {α : Type} {R : Type} [CommRing R]

/-- the matrix of the row operation `leftElem … a b c d i j` -/
def LM {m : Nat} (a b c d : R) (i j : Fin m) : Matrix (Fin m) (Fin m) R := fun r k =>
  if r = j then (if k = i then c else 0) + (if k = j then d else 0)
  else if r = i then (if k = i then a else 0) + (if k = j then b else 0)
  else if r = k then 1 else 0

theorem LM_mul {m n : Nat} (a b c d : R) (i j : Fin m) (X : Matrix (Fin m) (Fin n) R) (r : Fin m) (col : Fin n) :
    (LM a b c d i j * X) r col =
      if r = j then c * X i col + d * X j col else if r = i then a * X i col + b * X j col else X r col := by
  simp only [Matrix.mul_apply, LM]
  split_ifs <;> simp [add_mul, Finset.sum_add_distrib, ite_mul]

theorem mul_LMT {m n : Nat} (a b c d : R) (i j : Fin m) (X : Matrix (Fin n) (Fin m) R) (r : Fin n) (col : Fin m) :
    (X * (LM a b c d i j)ᵀ) r col =
      if col = j then X r i * c + X r j * d else if col = i then X r i * a + X r j * b else X r col := by
  simp only [Matrix.mul_apply, LM, Matrix.transpose_apply]
  split_ifs <;> simp [mul_add, Finset.sum_add_distrib, mul_ite]

theorem LM_mul_LMT {m : Nat} {a b c d a' b' c' d' : R} {i j : Fin m} (hij : i ≠ j)
    (h1 : a * a' + b * b' = 1) (h2 : a * c' + b * d' = 0) (h3 : c * a' + d * b' = 0) (h4 : c * c' + d * d' = 1) :
    LM a b c d i j * (LM a' b' c' d' i j)ᵀ = 1 := by
  ext r col
  rw [LM_mul]
  simp only [Matrix.transpose_apply, LM, Matrix.one_apply]
  have hji : j ≠ i := fun h => hij h.symm
  by_cases hrj : r = j <;> by_cases hri : r = i <;> by_cases hcj : col = j <;> by_cases hci : col = i <;>
    simp_all <;> first | linear_combination h1 | linear_combination h2 | linear_combination h3 | linear_combination h4 | (intro h; exact absurd h.symm ‹_›) | (by_cases h : col = r <;> [(subst h; simp); (rw [if_neg h, if_neg (fun h' => h h'.symm)])])

/-! ### the dense primitives as matrix products -/

section prim
variable {o : ROps α} {φ : α → R} (L : Lawful o φ)
include L

theorem toM_leftElem {m n : Nat} (A : Mat α m n) (a b c d : α) (i j : Fin m) :
    toM φ (leftElem o A a b c d i j) = LM (φ a) (φ b) (φ c) (φ d) i j * toM φ A := by
  ext r col
  rw [LM_mul]
  simp only [toM_apply, leftElem, get_ofFn]
  split_ifs <;> simp [L.add, L.mul, mul_comm]

theorem toM_rightElem {m n : Nat} (A : Mat α m n) (a b c d : α) (i j : Fin n) :
    toM φ (rightElem o A a b c d i j) = toM φ A * (LM (φ a) (φ b) (φ c) (φ d) i j)ᵀ := by
  ext r col
  rw [mul_LMT]
  simp only [toM_apply, rightElem, get_ofFn]
  split_ifs <;> simp [L.add, L.mul]

omit L in
theorem toM_swapRows {m n : Nat} (A : Mat α m n) (i j : Fin m) :
    toM φ (swapRows A i j) = LM (0 : R) 1 1 0 i j * toM φ A := by
  ext r col
  rw [LM_mul]
  simp only [toM_apply, swapRows, get_ofFn]
  by_cases hri : r = i <;> by_cases hrj : r = j <;> simp_all

omit L in
theorem toM_swapCols {m n : Nat} (A : Mat α m n) (i j : Fin n) :
    toM φ (swapCols A i j) = toM φ A * (LM (0 : R) 1 1 0 i j)ᵀ := by
  ext r col
  rw [mul_LMT]
  simp only [toM_apply, swapCols, get_ofFn]
  by_cases hri : col = i <;> by_cases hrj : col = j <;> simp_all

theorem toM_mulRow {m n : Nat} (A : Mat α m n) (i : Fin m) (u : α) :
    toM φ (mulRow o A i u) = Matrix.diagonal (fun k => if k = i then φ u else 1) * toM φ A := by
  ext r col
  rw [Matrix.diagonal_mul]
  simp only [toM_apply, mulRow, get_ofFn]
  split_ifs <;> simp [L.mul, mul_comm]

theorem toM_mulCol {m n : Nat} (A : Mat α m n) (j : Fin n) (u : α) :
    toM φ (mulCol o A j u) = toM φ A * Matrix.diagonal (fun k => if k = j then φ u else 1) := by
  ext r col
  rw [Matrix.mul_diagonal]
  simp only [toM_apply, mulCol, get_ofFn]
  split_ifs <;> simp [L.mul]

end prim

theorem diag_unit_mul {m : Nat} (i : Fin m) (u v : R) (h : u * v = 1) :
    Matrix.diagonal (fun k => if k = i then u else 1) * Matrix.diagonal (fun k => if k = i then v else 1)
      = (1 : Matrix (Fin m) (Fin m) R) := by
  rw [Matrix.diagonal_mul_diagonal, ← Matrix.diagonal_one]
  congr 1; funext k; split_ifs <;> simp [h]

/-! ### the invariant -/

def Inv {m n : Nat} (φ : α → R) (A : Mat α m n) (s : St α m n) : Prop :=
  TransformSpec (toM φ A) (toM φ s.t) (toM φ s.p) (toM φ s.pinv) (toM φ s.q) (toM φ s.qinv)

theorem Inv.left {m n : Nat} {φ : α → R} {A : Mat α m n} {s s' : St α m n}
    (E F : Matrix (Fin m) (Fin m) R) (hEF : E * F = 1)
    (ht : toM φ s'.t = E * toM φ s.t) (hp : toM φ s'.p = E * toM φ s.p)
    (hpi : toM φ s'.pinv = toM φ s.pinv * F) (hq : s'.q = s.q) (hqi : s'.qinv = s.qinv)
    (h : Inv φ A s) : Inv φ A s' := by
  obtain ⟨h1, h2, h3⟩ := h
  refine ⟨?_, ?_, ?_⟩
  · rw [ht, hp, hq, ← h1]; simp only [Matrix.mul_assoc]
  · rw [hp, hpi]
    calc E * toM φ s.p * (toM φ s.pinv * F) = E * (toM φ s.p * toM φ s.pinv) * F := by
          simp only [Matrix.mul_assoc]
      _ = 1 := by rw [h2, Matrix.mul_one, hEF]
  · rw [hq, hqi]; exact h3

theorem Inv.right {m n : Nat} {φ : α → R} {A : Mat α m n} {s s' : St α m n}
    (G H : Matrix (Fin n) (Fin n) R) (hGH : G * H = 1)
    (ht : toM φ s'.t = toM φ s.t * G) (hq : toM φ s'.q = toM φ s.q * G)
    (hqi : toM φ s'.qinv = H * toM φ s.qinv) (hp : s'.p = s.p) (hpi : s'.pinv = s.pinv)
    (h : Inv φ A s) : Inv φ A s' := by
  obtain ⟨h1, h2, h3⟩ := h
  refine ⟨?_, ?_, ?_⟩
  · rw [ht, hq, hp, ← h1]; simp only [Matrix.mul_assoc]
  · rw [hp, hpi]; exact h2
  · rw [hq, hqi]
    calc toM φ s.q * G * (H * toM φ s.qinv) = toM φ s.q * (G * H) * toM φ s.qinv := by
          simp only [Matrix.mul_assoc]
      _ = 1 := by rw [hGH, Matrix.mul_one, h3]

theorem LMT_mul_LM {m : Nat} {a b c d a' b' c' d' : R} {i j : Fin m} (hij : i ≠ j)
    (h1 : a' * a + b' * b = 1) (h2 : a' * c + b' * d = 0) (h3 : c' * a + d' * b = 0) (h4 : c' * c + d' * d = 1) :
    (LM a b c d i j)ᵀ * LM a' b' c' d' i j = 1 := by
  have := LM_mul_LMT (i := i) (j := j) hij h1 h2 h3 h4
  exact mul_eq_one_comm.mp this

section prims2
variable {e : EOps α} {φ : α → R} (L : Lawful e.toROps φ) {m n : Nat} {A : Mat α m n}
include L

theorem inv_init : Inv φ A (St.init e.toROps A) := by
  refine ⟨?_, ?_, ?_⟩ <;> simp [St.init, toM_idMat L]

omit L in
theorem inv_sSwapRows (s : St α m n) (i j : Fin m) (hij : i ≠ j) (h : Inv φ A s) : Inv φ A (sSwapRows s i j) :=
  Inv.left (LM 0 1 1 0 i j) (LM 0 1 1 0 i j)ᵀ (LM_mul_LMT hij (by simp) (by simp) (by simp) (by simp))
    (toM_swapRows _ i j) (toM_swapRows _ i j) (toM_swapCols _ i j) rfl rfl h

omit L in
theorem inv_sSwapCols (s : St α m n) (i j : Fin n) (hij : i ≠ j) (h : Inv φ A s) : Inv φ A (sSwapCols s i j) :=
  Inv.right (LM 0 1 1 0 i j)ᵀ (LM 0 1 1 0 i j) (LMT_mul_LM hij (by simp) (by simp) (by simp) (by simp))
    (toM_swapCols _ i j) (toM_swapCols _ i j) (toM_swapRows _ i j) rfl rfl h

theorem inv_sLeftRaw (s : St α m n) (a b c d : α) (i j : Fin m) (hij : i ≠ j)
    (hdet : φ a * φ d - φ b * φ c = 1) (h : Inv φ A s) : Inv φ A (sLeftRaw e.toROps s a b c d i j) := by
  refine Inv.left (LM (φ a) (φ b) (φ c) (φ d) i j) (LM (φ d) (- φ c) (- φ b) (φ a) i j)ᵀ
    (LM_mul_LMT hij ?_ ?_ ?_ ?_) (toM_leftElem L _ _ _ _ _ i j) (toM_leftElem L _ _ _ _ _ i j) ?_ rfl rfl h
  · linear_combination hdet
  · ring
  · ring
  · linear_combination hdet
  · have := toM_rightElem L s.pinv d (e.neg c) (e.neg b) a i j
    simpa [L.neg, sLeftRaw] using this

theorem inv_sRightRaw (s : St α m n) (a b c d : α) (i j : Fin n) (hij : i ≠ j)
    (hdet : φ a * φ d - φ b * φ c = 1) (h : Inv φ A s) : Inv φ A (sRightRaw e.toROps s a b c d i j) := by
  refine Inv.right (LM (φ a) (φ b) (φ c) (φ d) i j)ᵀ (LM (φ d) (- φ c) (- φ b) (φ a) i j)
    (LMT_mul_LM hij ?_ ?_ ?_ ?_) (toM_rightElem L _ _ _ _ _ i j) (toM_rightElem L _ _ _ _ _ i j) ?_ rfl rfl h
  · linear_combination hdet
  · ring
  · ring
  · linear_combination hdet
  · have := toM_leftElem L s.qinv d (e.neg c) (e.neg b) a i j
    simpa [L.neg, sRightRaw] using this

theorem detIsOne_iff (a b c d : α) : detIsOne e.toROps a b c d = true ↔ φ a * φ d - φ b * φ c = 1 := by
  rw [detIsOne, isOne_iff L, sub_eq L, L.mul, L.mul]

theorem inv_sLeft_dbg (s s' : St α m n) (a b c d : α) (i j : Fin m) (hij : i ≠ j)
    (hs : sLeft e.toROps true s a b c d i j = .ok s') (h : Inv φ A s) : Inv φ A s' := by
  unfold sLeft at hs
  split at hs
  · cases hs
  · rename_i hc
    injection hs with hs; subst hs
    simp only [Bool.true_and, Bool.not_eq_true', Bool.not_eq_false] at hc
    exact inv_sLeftRaw L s a b c d i j hij ((detIsOne_iff L a b c d).1 hc) h

theorem inv_sRight_dbg (s s' : St α m n) (a b c d : α) (i j : Fin n) (hij : i ≠ j)
    (hs : sRight e.toROps true s a b c d i j = .ok s') (h : Inv φ A s) : Inv φ A s' := by
  unfold sRight at hs
  split at hs
  · cases hs
  · rename_i hc
    injection hs with hs; subst hs
    simp only [Bool.true_and, Bool.not_eq_true', Bool.not_eq_false] at hc
    exact inv_sRightRaw L s a b c d i j hij ((detIsOne_iff L a b c d).1 hc) h

end prims2

/-- lawfulness of the Euclidean-ring operations as far as the transform invariant needs it:
`inv` returns an inverse -/
structure LawfulE (e : EOps α) (φ : α → R) : Prop extends Lawful e.toROps φ where
  inv_mul : ∀ u v, e.inv u = some v → φ u * φ v = 1

theorem Res.bind_eq_ok {σ τ : Type} {x : Res σ} {g : σ → Res τ} {b : τ} (h : (x >>= g) = .ok b) :
    ∃ y, x = .ok y ∧ g y = .ok b := by
  cases x with
  | ok y => exact ⟨y, rfl, h⟩
  | panic => cases h
  | err => cases h

theorem foldl_inv {σ β : Type} (P : σ → Prop) (f : σ → β → σ) (hf : ∀ s x, P s → P (f s x)) :
    ∀ (l : List β) (s : σ), P s → P (l.foldl f s)
  | [], _, h => h
  | x :: l, s, h => foldl_inv P f hf l (f s x) (hf s x h)

theorem foldlM_inv {σ β : Type} (P : σ → Prop) (f : σ → β → Res σ)
    (hf : ∀ s x s', f s x = .ok s' → P s → P s') :
    ∀ (l : List β) (s s' : σ), l.foldlM f s = .ok s' → P s → P s'
  | [], s, s', h, hp => by
    simp only [List.foldlM_nil] at h
    cases h; exact hp
  | x :: l, s, s', h, hp => by
    rw [List.foldlM_cons] at h
    obtain ⟨y, hy, h⟩ := Res.bind_eq_ok h
    exact foldlM_inv P f hf l y s' h (hf s x y hy hp)

section flow
variable {e : EOps α} {φ : α → R} (L : LawfulE e φ) {m n : Nat} {A : Mat α m n}
include L

theorem inv_sMulRow (s s' : St α m n) (i : Fin m) (u : α) (hs : sMulRow e s i u = .ok s') (h : Inv φ A s) :
    Inv φ A s' := by
  unfold sMulRow at hs
  split at hs
  · cases hs
  · rename_i ui hui
    injection hs with hs; subst hs
    exact Inv.left _ _ (diag_unit_mul i (φ u) (φ ui) (L.inv_mul u ui hui))
      (toM_mulRow L.toLawful _ i u) (toM_mulRow L.toLawful _ i u) (toM_mulCol L.toLawful _ i ui) rfl rfl h

theorem inv_sMulCol (s s' : St α m n) (j : Fin n) (u : α) (hs : sMulCol e s j u = .ok s') (h : Inv φ A s) :
    Inv φ A s' := by
  unfold sMulCol at hs
  split at hs
  · cases hs
  · rename_i ui hui
    injection hs with hs; subst hs
    exact Inv.right _ _ (diag_unit_mul j (φ u) (φ ui) (L.inv_mul u ui hui))
      (toM_mulCol L.toLawful _ j u) (toM_mulCol L.toLawful _ j u) (toM_mulRow L.toLawful _ j ui) rfl rfl h

/-! ### reference -/

theorem inv_refReduceCol (s : St α m n) (ti : Fin m) (tj : Fin n) (h : Inv φ A s) :
    Inv φ A (refReduceCol e s ti tj) := by
  unfold refReduceCol
  refine foldl_inv (Inv φ A) _ ?_ _ s h
  intro s r hs
  split
  · rename_i hc
    simp only [Bool.and_eq_true, bne_iff_ne, ne_eq, decide_eq_true_eq] at hc
    refine inv_sLeftRaw L.toLawful s _ _ _ _ ti r (fun h => hc.1 h.symm) ?_ hs
    simp [L.one, L.zero]
  · exact hs

theorem inv_refReduceRow (s : St α m n) (ti : Fin m) (tj : Fin n) (h : Inv φ A s) :
    Inv φ A (refReduceRow e s ti tj) := by
  unfold refReduceRow
  refine foldl_inv (Inv φ A) _ ?_ _ s h
  intro s c hs
  split
  · rename_i hc
    simp only [Bool.and_eq_true, bne_iff_ne, ne_eq, decide_eq_true_eq] at hc
    refine inv_sRightRaw L.toLawful s _ _ _ _ tj c (fun h => hc.1 h.symm) ?_ hs
    simp [L.one, L.zero]
  · exact hs


theorem inv_refPrep (s : St α m n) (ti : Fin m) (tj : Fin n) (i : Fin m) (j : Fin n) (h : Inv φ A s) :
    Inv φ A (refPrep e s ti tj i j) := by
  unfold refPrep
  refine inv_refReduceRow L _ ti tj (inv_refReduceCol L _ ti tj ?_)
  have h1 : Inv φ A (if i = ti then s else sSwapRows s ti i) := by
    split
    · exact h
    · rename_i hne; exact inv_sSwapRows s ti i (fun h' => hne h'.symm) h
  split
  · exact h1
  · rename_i hne; exact inv_sSwapCols _ tj j (fun h' => hne h'.symm) h1

theorem inv_refLoop : ∀ (fuel t : Nat) (s s' : St α m n), refLoop e fuel t s = .ok s' → Inv φ A s → Inv φ A s' := by
  intro fuel
  induction fuel with
  | zero => intro t s s' hs; simp [refLoop] at hs
  | succ fuel ih =>
    intro t s s' hs h
    rw [refLoop] at hs
    split at hs
    · rename_i hlt
      split at hs
      · cases hs; exact h
      · rename_i i j _
        have h1 := inv_refPrep L s ⟨t, hlt.1⟩ ⟨t, hlt.2⟩ i j h
        generalize refPrep e s ⟨t, hlt.1⟩ ⟨t, hlt.2⟩ i j = s1 at hs h1
        simp only at hs
        split at hs
        · split at hs
          · rename_i i' _
            split at hs
            · cases hs
            · rename_i hne
              refine ih t _ s' hs (inv_sLeftRaw L.toLawful s1 _ _ _ _ _ i' (fun h' => hne h'.symm) ?_ h1)
              simp [L.one, L.zero]
          · split at hs
            · exact ih _ _ s' hs h1
            · split at hs
              · rename_i s2 hs2
                exact ih _ _ s' hs (inv_sMulRow L s1 s2 _ _ hs2 h1)
              · rename_i hr
                exact absurd hs (hr s')
        · exact ih _ _ s' hs h1
    · cases hs; exact h

theorem inv_refSnf (fuel : Nat) (s : St α m n) (hs : refSnf e fuel A = .ok s) : Inv φ A s :=
  inv_refLoop L fuel 0 _ s hs (inv_init L.toLawful)


/-! ### code model of `SnfCalc` (debug build: the `debug_assert!`s are compiled in) -/

theorem inv_eliminateColStep (i : Fin m) (j : Fin n) (sm sm' : St α m n × Bool) (i1 : Fin m)
    (hf : eliminateColStep e true i j sm i1 = .ok sm') (hsm : Inv φ A sm.1) : Inv φ A sm'.1 := by
  unfold eliminateColStep at hf
  simp only at hf
  split at hf
  · injection hf with hf; subst hf; exact hsm
  · rename_i hc
    simp only [Bool.or_eq_true, decide_eq_true_eq, not_or] at hc
    split at hf
    · rename_i s' h1
      injection hf with hf; subst hf
      exact inv_sLeft_dbg L.toLawful sm.1 s' _ _ _ _ i i1 hc.1 h1 hsm
    · cases hf
    · cases hf

theorem inv_eliminateRowStep (i : Fin m) (j : Fin n) (sm sm' : St α m n × Bool) (j1 : Fin n)
    (hf : eliminateRowStep e true i j sm j1 = .ok sm') (hsm : Inv φ A sm.1) : Inv φ A sm'.1 := by
  unfold eliminateRowStep at hf
  simp only at hf
  split at hf
  · injection hf with hf; subst hf; exact hsm
  · rename_i hc
    simp only [Bool.or_eq_true, decide_eq_true_eq, not_or] at hc
    split at hf
    · rename_i s' h1
      injection hf with hf; subst hf
      exact inv_sRight_dbg L.toLawful sm.1 s' _ _ _ _ j j1 hc.1 h1 hsm
    · cases hf
    · cases hf

theorem inv_eliminateCol (s : St α m n) (i : Fin m) (j : Fin n) (r : St α m n × Bool)
    (hs : eliminateCol e true s i j = .ok r) (h : Inv φ A s) : Inv φ A r.1 := by
  unfold eliminateCol at hs
  have := foldlM_inv (σ := St α m n × Bool) (β := Fin m) (fun sm => Inv φ A sm.1) (eliminateColStep e true i j)
    (fun sm i1 sm' hf hsm => inv_eliminateColStep L i j sm sm' i1 hf hsm)
  exact this (List.finRange m) (s, false) r hs h

theorem inv_eliminateRow (s : St α m n) (i : Fin m) (j : Fin n) (r : St α m n × Bool)
    (hs : eliminateRow e true s i j = .ok r) (h : Inv φ A s) : Inv φ A r.1 := by
  unfold eliminateRow at hs
  have := foldlM_inv (σ := St α m n × Bool) (β := Fin n) (fun sm => Inv φ A sm.1) (eliminateRowStep e true i j)
    (fun sm j1 sm' hf hsm => inv_eliminateRowStep L i j sm sm' j1 hf hsm)
  exact this (List.finRange n) (s, false) r hs h

theorem inv_eliminateAt (i : Fin m) (j : Fin n) : ∀ (fuel : Nat) (s s' : St α m n),
    eliminateAt e true i j fuel s = .ok s' → Inv φ A s → Inv φ A s' := by
  intro fuel
  induction fuel with
  | zero => intro s s' hs; simp [eliminateAt] at hs
  | succ fuel ih =>
    intro s s' hs h
    rw [eliminateAt] at hs
    split at hs
    · split at hs
      · rename_i r1 h1
        split at hs
        · rename_i r2 h2
          split at hs
          · cases hs
          · exact ih r2.1 s' hs (inv_eliminateRow L r1.1 i j _ h2 (inv_eliminateCol L s i j _ h1 h))
        · cases hs
        · cases hs
      · cases hs
      · cases hs
    · injection hs with hs; subst hs; exact h

omit L in
theorem inv_stepPrep (s : St α m n) (i ip : Fin m) (ic j : Fin n) (h : Inv φ A s) :
    Inv φ A (stepPrep s i ip ic j) := by
  unfold stepPrep
  have h1 : Inv φ A (if ip.1 > i.1 then sSwapRows s i ip else s) := by
    split
    · rename_i hgt; exact inv_sSwapRows s i ip (fun h' => by rw [h'] at hgt; exact Nat.lt_irrefl _ hgt) h
    · exact h
  simp only
  split
  · rename_i hgt; exact inv_sSwapCols _ ic j (fun h' => by rw [h'] at hgt; exact Nat.lt_irrefl _ hgt) h1
  · exact h1

theorem inv_eliminateStep (fuel : Nat) (s : St α m n) (i : Fin m) (j : Fin n) (hi : i.1 < n) (s' : St α m n)
    (hs : eliminateStep e true fuel s i j hi = .ok (some s')) (h : Inv φ A s) : Inv φ A s' := by
  unfold eliminateStep at hs
  split at hs
  · cases hs
  · rename_i ip _
    have h1 := inv_stepPrep (φ := φ) (A := A) s i ip ⟨i.1, hi⟩ j h
    generalize stepPrep s i ip ⟨i.1, hi⟩ j = s1 at hs h1
    simp only at hs
    split at hs
    · rename_i s2 h2
      have h2' : Inv φ A s2 := by
        split at h2
        · exact inv_sMulCol L s1 s2 _ _ h2 h1
        · injection h2 with h2; subst h2; exact h1
      split at hs
      · cases hs
      · split at hs
        · rename_i s3 h3
          injection hs with hs; injection hs with hs; subst hs
          exact inv_eliminateAt L i ⟨i.1, hi⟩ fuel s2 s3 h3 h2'
        · cases hs
        · cases hs
    · cases hs
    · cases hs

theorem inv_eliminateAllStep (fuel : Nat) (si si' : St α m n × Nat) (j : Fin n)
    (hf : eliminateAllStep e true fuel si j = .ok si') (h : Inv φ A si.1) : Inv φ A si'.1 := by
  unfold eliminateAllStep at hf
  split at hf
  · split at hf
    · injection hf with hf; subst hf; exact h
    · rename_i s' h1
      injection hf with hf; subst hf
      exact inv_eliminateStep L fuel si.1 _ j _ s' h1 h
    · cases hf
    · cases hf
  · injection hf with hf; subst hf; exact h

theorem inv_eliminateAll (fuel : Nat) (s s' : St α m n) (hs : eliminateAll e true fuel s = .ok s')
    (h : Inv φ A s) : Inv φ A s' := by
  unfold eliminateAll at hs
  split at hs
  · rename_i si h1
    injection hs with hs; subst hs
    have := foldlM_inv (σ := St α m n × Nat) (β := Fin n) (fun si => Inv φ A si.1) (eliminateAllStep e true fuel)
      (fun si j si' hf hsi => inv_eliminateAllStep L fuel si si' j hf hsi)
    exact this (List.finRange n) (s, 0) si h1 h
  · cases hs
  · cases hs

theorem inv_diagNormalizeStep (s : St α m n) (i : Nat) (hm : i + 1 < m) (hn : i + 1 < n) (r : St α m n × Bool)
    (hs : diagNormalizeStep e true s i hm hn = .ok r) (h : Inv φ A s) : Inv φ A r.1 := by
  unfold diagNormalizeStep at hs
  simp only at hs
  have hne_m : (⟨i, Nat.lt_of_succ_lt hm⟩ : Fin m) ≠ ⟨i + 1, hm⟩ := by
    intro h'; have := congrArg Fin.val h'; simp at this
  have hne_n : (⟨i, Nat.lt_of_succ_lt hn⟩ : Fin n) ≠ ⟨i + 1, hn⟩ := by
    intro h'; have := congrArg Fin.val h'; simp at this
  split at hs
  · cases hs
  · split at hs
    · injection hs with hs; subst hs; exact h
    · split at hs
      · injection hs with hs; subst hs
        exact inv_sSwapCols _ _ _ hne_n (inv_sSwapRows s _ _ hne_m h)
      · split at hs
        · rename_i s1 h1
          split at hs
          · rename_i s2 h2
            injection hs with hs; subst hs
            exact inv_sRight_dbg L.toLawful s1 s2 _ _ _ _ _ _ hne_n h2
              (inv_sLeft_dbg L.toLawful s s1 _ _ _ _ _ _ hne_m h1 h)
          · cases hs
          · cases hs
        · cases hs
        · cases hs

theorem inv_diagPass (r : Nat) : ∀ (cnt i : Nat) (s : St α m n) (r' : St α m n × Bool),
    diagPass e true r cnt i s = .ok r' → Inv φ A s → Inv φ A r'.1 := by
  intro cnt
  induction cnt with
  | zero => intro i s r' hs h; rw [diagPass] at hs; injection hs with hs; subst hs; exact h
  | succ cnt ih =>
    intro i s r' hs h
    rw [diagPass] at hs
    split at hs
    · split at hs
      · rename_i r1 h1
        have h1' := inv_diagNormalizeStep L s i _ _ r1 h1 h
        split at hs
        · exact ih _ _ r' hs h1'
        · injection hs with hs; subst hs; exact h1'
      · cases hs
      · cases hs
    · injection hs with hs; subst hs; exact h

theorem inv_diagOuter (r : Nat) : ∀ (fuel : Nat) (s s' : St α m n),
    diagOuter e true r fuel s = .ok s' → Inv φ A s → Inv φ A s' := by
  intro fuel
  induction fuel with
  | zero => intro s s' hs; simp [diagOuter] at hs
  | succ fuel ih =>
    intro s s' hs h
    rw [diagOuter] at hs
    split at hs
    · rename_i r1 h1
      have h1' := inv_diagPass L r r 0 s r1 h1 h
      split at hs
      · injection hs with hs; subst hs; exact h1'
      · exact ih _ s' hs h1'
    · cases hs
    · cases hs

theorem inv_normalizeStep (s s' : St α m n) (i : Nat) (hs : normalizeStep e s i = .ok s') (h : Inv φ A s) :
    Inv φ A s' := by
  unfold normalizeStep at hs
  split at hs
  · simp only at hs
    split at hs
    · exact inv_sMulRow L s s' _ _ hs h
    · injection hs with hs; subst hs; exact h
  · injection hs with hs; subst hs; exact h

theorem inv_diagNormalize (fuel : Nat) (s s' : St α m n) (hs : diagNormalize e true fuel s = .ok s')
    (h : Inv φ A s) : Inv φ A s' := by
  unfold diagNormalize at hs
  split at hs
  · cases hs
  · split at hs
    · injection hs with hs; subst hs; exact h
    · split at hs
      · rename_i s1 h1
        have := foldlM_inv (σ := St α m n) (β := Nat) (Inv φ A) (normalizeStep e)
          (fun s i s' hf hs => inv_normalizeStep L s s' i hf hs)
        exact this _ s1 s' hs (inv_diagOuter L _ fuel s s1 h1 h)
      · cases hs
      · cases hs

theorem inv_snfCalc (pre : St α m n → Res (St α m n))
    (hpre : ∀ s s', pre s = .ok s' → Inv φ A s → Inv φ A s') (fuel : Nat) (s : St α m n)
    (hs : snfCalc e true pre fuel A = .ok s) : Inv φ A s := by
  unfold snfCalc at hs
  split at hs
  · injection hs with hs; subst hs; exact inv_init L.toLawful
  · split at hs
    · rename_i s1 h1
      split at hs
      · rename_i s2 h2
        exact inv_diagNormalize L fuel s2 s hs
          (inv_eliminateAll L fuel s1 s2 h2 (hpre _ s1 h1 (inv_init L.toLawful)))
      · cases hs
      · cases hs
    · cases hs
    · cases hs

end flow

/-! ### instances -/

theorem lawfulE_int : LawfulE intOps (id : Int → Int) where
  toLawful := lawful_int
  inv_mul u v h := by
    simp only [intOps] at h
    split at h
    · rename_i hc
      injection h with h; subst h
      simp only [Bool.or_eq_true, beq_iff_eq] at hc
      rcases hc with rfl | rfl <;> rfl
    · cases h

theorem lawfulE_rat : LawfulE ratOps (id : Rat → Rat) where
  toLawful := lawful_rat
  inv_mul u v h := by
    simp only [ratOps] at h
    split at h
    · cases h
    · rename_i hc
      injection h with h; subst h
      simp only [beq_iff_eq] at hc
      exact mul_inv_cancel₀ hc

theorem lawfulE_fp (p : Nat) [NeZero p] : LawfulE (fpOps p) (fun a : Nat => (a : ZMod p)) where
  toLawful := lawful_fp p
  inv_mul u v h := by
    simp only [fpOps] at h
    split at h
    · cases h
    · split at h
      · rename_i hc
        injection h with h; subst h
        simp only [beq_iff_eq] at hc
        have : ((u * fpInv p (u % p) % p : Nat) : ZMod p) = ((1 : Nat) : ZMod p) := by rw [hc]
        simpa using this
      · cases h

end Yuiv.C09
