import Yuiv.Proofs.KhSnfMain
import Yuiv.Proofs.KhSnfHom
import Yuiv.Proofs.C02MirrorAlg
/-
KhSnf — what `KhRef.homologyOf` reports (helper): with `diagOf inv` = the diagonal read off the Smith invariants
(`r − |d|` ones followed by `d`), the group at position `i` is the cell `cellOf n dIn dOut` of `Proofs/C03Uct` built from
diagonal forms of the incoming and the outgoing differential.
-/
namespace Yuiv.KhSnf
open Yuiv Yuiv.KhRef Matrix Yuiv.C03Uct Yuiv.C03

instance (n : Nat) (r : Row) : Decidable (RowOK n r) := by unfold RowOK; infer_instance

/-- the diagonal read off a pair (rank, invariant factors ≠ 1) -/
def diagOf (inv : Nat × Array Int) : List ℤ := List.replicate (inv.1 - inv.2.size) 1 ++ inv.2.toList

/-- the pairs `smithInvariants` returns: at most `rank` factors, all `> 1` -/
def InvOK (inv : Nat × Array Int) : Prop := inv.2.size ≤ inv.1 ∧ ∀ x ∈ inv.2.toList, 1 < x

theorem nz_diagOf {inv : Nat × Array Int} (h : InvOK inv) : nz (diagOf inv) = inv.1 := by
  unfold nz diagOf
  have : (List.replicate (inv.1 - inv.2.size) (1 : ℤ) ++ inv.2.toList).filter (fun x => x != 0) =
      List.replicate (inv.1 - inv.2.size) (1 : ℤ) ++ inv.2.toList := by
    rw [List.filter_eq_self]
    intro x hx
    rcases List.mem_append.1 hx with hx | hx
    · rw [List.mem_replicate] at hx; rw [hx.2]; decide
    · have := h.2 x hx
      simp only [bne_iff_ne, ne_eq]; omega
  rw [this, List.length_append, List.length_replicate, Array.length_toList]
  have := h.1
  omega

theorem torsOf_diagOf {inv : Nat × Array Int} (h : InvOK inv) : torsOf (diagOf inv) = inv.2.toList := by
  unfold torsOf diagOf
  rw [List.filter_append]
  have e1 : (List.replicate (inv.1 - inv.2.size) (1 : ℤ)).filter (fun x => decide (x != 0 ∧ x.natAbs != 1)) = [] := by
    rw [List.filter_eq_nil_iff]
    intro x hx
    rw [List.mem_replicate] at hx
    rw [hx.2]; decide
  have e2 : inv.2.toList.filter (fun x => decide (x != 0 ∧ x.natAbs != 1)) = inv.2.toList := by
    rw [List.filter_eq_self]
    intro x hx
    have := h.2 x hx
    simp only [bne_iff_ne, ne_eq, decide_eq_true_eq]
    omega
  rw [e1, e2, List.nil_append]

theorem ndiv_diagOf {inv : Nat × Array Int} (h : InvOK inv) (p : Nat) (hp : 2 ≤ p) :
    ndiv (p : ℤ) (diagOf inv) = rankOver (.Fp p) inv := by
  show _ = inv.1 - (inv.2.filter (fun x => x % (p : Int) == 0)).size
  unfold ndiv diagOf
  rw [List.filter_append, List.length_append]
  have e1 : (List.replicate (inv.1 - inv.2.size) (1 : ℤ)).filter (fun x => !(x % (p : ℤ) == 0)) =
      List.replicate (inv.1 - inv.2.size) (1 : ℤ) := by
    rw [List.filter_eq_self]
    intro x hx
    rw [List.mem_replicate] at hx
    rw [hx.2]
    have : (1 : ℤ) % (p : ℤ) = 1 := Int.emod_eq_of_lt (by omega) (by omega)
    rw [this]; decide
  rw [e1, List.length_replicate]
  have e2 : (inv.2.toList.filter (fun x => !(x % (p : ℤ) == 0))).length +
      (inv.2.filter (fun x => x % (p : Int) == 0)).size = inv.2.size := by
    rw [← Array.length_toList (xs := inv.2.filter _), Array.toList_filter, ← Array.length_toList (xs := inv.2)]
    generalize inv.2.toList = l
    induction l with
    | nil => rfl
    | cons x l ih =>
      by_cases hx : (x % (p : ℤ) == 0) = true
      · simp only [List.filter_cons, hx, Bool.not_true, Bool.false_eq_true, if_false, if_true, List.length_cons]
        omega
      · have hx' : (x % (p : ℤ) == 0) = false := by simpa using hx
        simp only [List.filter_cons, hx', Bool.not_false, if_true, Bool.false_eq_true, if_false, List.length_cons]
        omega
  have := h.1
  omega

theorem invOK_zero : InvOK (0, #[]) := ⟨by simp, by simp⟩

theorem invOK_smith (n : Nat) (rows : Array Row) (hok : ∀ r ∈ rows.toList, RowOK n r) : InvOK (smithInvariants rows) :=
  ⟨(smithInvariants_spec n rows hok).1, (smithInvariants_spec n rows hok).2.2.1⟩

theorem equivDiag_smith (n : Nat) (rows : Array Row) (hok : ∀ r ∈ rows.toList, RowOK n r) :
    EquivDiag (matOf n rows) (diagOf (smithInvariants rows)) :=
  (smithInvariants_spec n rows hok).2.1

/-- all rows that `homologyOf` builds are well-formed (a decidable per-instance condition: `normalizeRow` sorts with
`Array.qsort`, whose sortedness is not verified) -/
def RowsOK (gens : Array (Array Gen)) (d : Gen → Array Term) : Prop :=
  ∀ j, j + 1 < gens.size → ∀ r ∈ (rowsAt gens d j).toList, RowOK (gens[j + 1]!).size r

theorem invAt_ok (gens : Array (Array Gen)) (d : Gen → Array Term) (hok : RowsOK gens d) (j : Nat) :
    InvOK (invAt gens d j) := by
  unfold invAt
  split
  · rename_i h; exact invOK_smith _ _ (hok j h)
  · exact invOK_zero

/-- THE SPECIFICATION OF `homologyOf` at position `i`: with `dIn`, `dOut` the diagonals read off the Smith invariants of
the incoming and the outgoing differential (empty at the ends of the complex) — which ARE diagonal forms of the matrices
of these differentials — the reported group is `cellOf n dIn dOut` over ℤ, has rank `n − nz dIn − nz dOut` and no
torsion over ℚ, and rank `n − ndiv p dIn − ndiv p dOut` over `𝔽_p` -/
theorem homologyOf_spec' (gens : Array (Array Gen)) (d : Gen → Array Term) (hok : RowsOK gens d) (i : Nat)
    (hi : i < gens.size) :
    ∃ dIn dOut : List ℤ,
      (if i + 1 < gens.size then EquivDiag (matOf (gens[i + 1]!).size (rowsAt gens d i)) dOut else dOut = []) ∧
      (if 0 < i then EquivDiag (matOf (gens[i]!).size (rowsAt gens d (i - 1))) dIn ∧
          EquivDiag (matOf (gens[i]!).size (rowsAt gens d (i - 1)))ᵀ dIn else dIn = []) ∧
      ((homologyOf .Z gens d)[i]!).rank = (cellOf (gens[i]!).size dIn dOut).rank ∧
      ((homologyOf .Z gens d)[i]!).tors.toList = (cellOf (gens[i]!).size dIn dOut).tors ∧
      ((homologyOf .Q gens d)[i]!).rank = (gens[i]!).size - nz dIn - nz dOut ∧
      ((homologyOf .Q gens d)[i]!).tors = #[] ∧
      ∀ p, 2 ≤ p → ((homologyOf (.Fp p) gens d)[i]!).rank = (gens[i]!).size - ndiv (p : ℤ) dIn - ndiv (p : ℤ) dOut ∧
        ((homologyOf (.Fp p) gens d)[i]!).tors = #[] := by
  have hprev : ∀ (h0 : 0 < i), i - 1 + 1 < gens.size := fun h0 => by omega
  let inPrev : Nat × Array Int := if i == 0 then (0, #[]) else invAt gens d (i - 1)
  have hprevOK : InvOK inPrev := by
    show InvOK (if i == 0 then (0, #[]) else invAt gens d (i - 1))
    split
    · exact invOK_zero
    · exact invAt_ok gens d hok _
  have houtOK := invAt_ok gens d hok i
  refine ⟨diagOf inPrev, diagOf (invAt gens d i), ?_, ?_, ?_, ?_, ?_, ?_, ?_⟩
  · split
    · rename_i h
      have : invAt gens d i = smithInvariants (rowsAt gens d i) := by unfold invAt; rw [if_pos h]
      rw [this]
      exact equivDiag_smith _ _ (hok i h)
    · rename_i h
      have : invAt gens d i = (0, #[]) := by unfold invAt; rw [if_neg h]
      rw [this]; rfl
  · split
    · rename_i h0
      have hne : (i == 0) = false := by simp; omega
      have e : inPrev = smithInvariants (rowsAt gens d (i - 1)) := by
        show (if i == 0 then (0, #[]) else invAt gens d (i - 1)) = _
        rw [hne]; simp only [Bool.false_eq_true, if_false]
        unfold invAt; rw [if_pos (hprev h0)]
      rw [e]
      have hk := hok (i - 1) (hprev h0)
      have e2 : i - 1 + 1 = i := by omega
      rw [e2] at hk
      have := equivDiag_smith _ _ hk
      exact ⟨this, Yuiv.C02Mirror.equivDiag_transpose _ _ this⟩
    · rename_i h0
      have : i = 0 := by omega
      subst this
      rfl
  · rw [homologyOf_getElem .Z gens d i hi]
    show (gens[i]!).size - rankOver .Z (invAt gens d i) - rankOver .Z inPrev = _
    unfold cellOf
    simp only [rankOver]
    rw [nz_diagOf hprevOK, nz_diagOf houtOK]
    omega
  · rw [homologyOf_getElem .Z gens d i hi]
    show inPrev.2.toList = _
    unfold cellOf
    simp only
    rw [torsOf_diagOf hprevOK]
  · rw [homologyOf_getElem .Q gens d i hi]
    show (gens[i]!).size - rankOver .Q (invAt gens d i) - rankOver .Q inPrev = _
    simp only [rankOver]
    rw [nz_diagOf hprevOK, nz_diagOf houtOK]
    omega
  · rw [homologyOf_getElem .Q gens d i hi]
    rfl
  · intro p hp
    rw [homologyOf_getElem (.Fp p) gens d i hi]
    refine ⟨?_, rfl⟩
    show (gens[i]!).size - rankOver (.Fp p) (invAt gens d i) - rankOver (.Fp p) inPrev = _
    rw [ndiv_diagOf hprevOK p hp, ndiv_diagOf houtOK p hp]
    omega

end Yuiv.KhSnf
