import Yuiv.Proofs.C19CommBits
/-
C19Comm — ONE EDGE of the cube, abstractly: two vertices with circle lists `cs` (source) and `cs'` (target), their images
`ds`, `ds'` under the involution, and the circle correspondences `m : cs → ds`, `m' : cs' → ds'` (mutually inverse
bijections with `mi`, `mi'`) that respect EQUALITY OF CIRCLES across the edge (`Sit.corr`).  Then the edge map (merge /
split / undefined) of `ds → ds'` applied to the τ-image of a labelling is the τ-image of the edge map of `cs → cs'`,
as a list of terms up to a permutation (the order of the two born circles of a split may be exchanged).
-/
namespace Yuiv.C19Comm
open Yuiv Yuiv.KhRef Yuiv.C19 Yuiv.C06Cycle Yuiv.C19Inv

structure Sit (cs cs' ds ds' : Array (Array Nat)) (m m' mi mi' : Array Nat) : Prop where
  szd : ds.size = cs.size
  szd' : ds'.size = cs'.size
  szm : m.size = cs.size
  szm' : m'.size = cs'.size
  bij : ∀ i < cs.size, m[i]! < cs.size ∧ mi[m[i]!]! = i
  bijI : ∀ i < cs.size, mi[i]! < cs.size ∧ m[mi[i]!]! = i
  bij' : ∀ j < cs'.size, m'[j]! < cs'.size ∧ mi'[m'[j]!]! = j
  bijI' : ∀ j < cs'.size, mi'[j]! < cs'.size ∧ m'[mi'[j]!]! = j
  inj : ArrInj cs
  inj' : ArrInj cs'
  injd : ArrInj ds
  injd' : ArrInj ds'
  le64 : cs'.size ≤ 64
  corr : ∀ i < cs.size, ∀ j < cs'.size, (cs[i]! = cs'[j]! ↔ ds[m[i]!]! = ds'[m'[j]!]!)

variable {cs cs' ds ds' : Array (Array Nat)} {m m' mi mi' : Array Nat}

/-! ### gone / born -/

theorem mem_goneOf (cs cs' : Array (Array Nat)) (i : Nat) :
    i ∈ (goneOf cs cs').toList ↔ i < cs.size ∧ ¬ ∃ j, j < cs'.size ∧ cs'[j]! = cs[i]! := by
  unfold goneOf
  rw [Array.toList_filter, Array.toList_range, List.mem_filter, List.mem_range, ← contains_iff_idx]
  simp

theorem mem_bornOf (cs cs' : Array (Array Nat)) (j : Nat) :
    j ∈ (bornOf cs cs').toList ↔ j < cs'.size ∧ ¬ ∃ i, i < cs.size ∧ cs[i]! = cs'[j]! := by
  unfold bornOf
  rw [Array.toList_filter, Array.toList_range, List.mem_filter, List.mem_range, ← contains_iff_idx]
  simp

theorem nodup_goneOf (cs cs' : Array (Array Nat)) : (goneOf cs cs').toList.Nodup := by
  unfold goneOf
  rw [Array.toList_filter, Array.toList_range]
  exact List.nodup_range.filter _

theorem nodup_bornOf (cs cs' : Array (Array Nat)) : (bornOf cs cs').toList.Nodup := by
  unfold bornOf
  rw [Array.toList_filter, Array.toList_range]
  exact List.nodup_range.filter _

theorem gone_perm (S : Sit cs cs' ds ds' m m' mi mi') :
    (goneOf ds ds').toList.Perm ((goneOf cs cs').toList.map (fun i => m[i]!)) := by
  apply (List.perm_ext_iff_of_nodup (nodup_goneOf _ _) _).2
  · intro a
    rw [mem_goneOf, List.mem_map, S.szd, S.szd']
    constructor
    · rintro ⟨ha, hn⟩
      refine ⟨mi[a]!, (mem_goneOf _ _ _).2 ⟨(S.bijI a ha).1, ?_⟩, (S.bijI a ha).2⟩
      rintro ⟨j, hj, e⟩
      apply hn
      refine ⟨m'[j]!, (S.bij' j hj).1, ?_⟩
      have := (S.corr _ (S.bijI a ha).1 j hj).1 e.symm
      rw [(S.bijI a ha).2] at this
      exact this.symm
    · rintro ⟨i, hi, rfl⟩
      obtain ⟨hi1, hi2⟩ := (mem_goneOf _ _ _).1 hi
      refine ⟨(S.bij i hi1).1, ?_⟩
      rintro ⟨j', hj', e⟩
      apply hi2
      refine ⟨mi'[j']!, (S.bijI' j' hj').1, ?_⟩
      apply Eq.symm
      apply (S.corr i hi1 _ (S.bijI' j' hj').1).2
      rw [(S.bijI' j' hj').2]
      exact e.symm
  · apply List.Nodup.map_on _ (nodup_goneOf _ _)
    intro a ha b hb e
    have ha1 := ((mem_goneOf _ _ _).1 ha).1
    have hb1 := ((mem_goneOf _ _ _).1 hb).1
    rw [← (S.bij a ha1).2, ← (S.bij b hb1).2, e]

theorem born_perm (S : Sit cs cs' ds ds' m m' mi mi') :
    (bornOf ds ds').toList.Perm ((bornOf cs cs').toList.map (fun j => m'[j]!)) := by
  apply (List.perm_ext_iff_of_nodup (nodup_bornOf _ _) _).2
  · intro a
    rw [mem_bornOf, List.mem_map, S.szd, S.szd']
    constructor
    · rintro ⟨ha, hn⟩
      refine ⟨mi'[a]!, (mem_bornOf _ _ _).2 ⟨(S.bijI' a ha).1, ?_⟩, (S.bijI' a ha).2⟩
      rintro ⟨i, hi, e⟩
      apply hn
      refine ⟨m[i]!, (S.bij i hi).1, ?_⟩
      have := (S.corr i hi _ (S.bijI' a ha).1).1 e
      rw [(S.bijI' a ha).2] at this
      exact this
    · rintro ⟨j, hj, rfl⟩
      obtain ⟨hj1, hj2⟩ := (mem_bornOf _ _ _).1 hj
      refine ⟨(S.bij' j hj1).1, ?_⟩
      rintro ⟨i', hi', e⟩
      apply hj2
      refine ⟨mi[i']!, (S.bijI i' hi').1, ?_⟩
      apply (S.corr _ (S.bijI i' hi').1 j hj1).2
      rw [(S.bijI i' hi').2]
      exact e
  · apply List.Nodup.map_on _ (nodup_bornOf _ _)
    intro a ha b hb e
    have ha1 := ((mem_bornOf _ _ _).1 ha).1
    have hb1 := ((mem_bornOf _ _ _).1 hb).1
    rw [← (S.bij' a ha1).2, ← (S.bij' b hb1).2, e]

theorem perm_pair {α : Type} [DecidableEq α] (l : List α) (a b : α) (h : l.Perm [a, b]) : l = [a, b] ∨ l = [b, a] := by
  have hl := h.length_eq
  match l, hl with
  | [c, d], _ =>
    have hc : c ∈ [a, b] := h.subset (by simp)
    have hd : d ∈ [a, b] := h.subset (by simp)
    have ha : a ∈ [c, d] := h.symm.subset (by simp)
    have hb : b ∈ [c, d] := h.symm.subset (by simp)
    simp only [List.mem_cons, List.not_mem_nil, or_false] at hc hd ha hb
    by_cases e : c = a
    · subst e
      rcases hd with rfl | rfl
      · rcases hb with rfl | rfl <;> simp
      · simp
    · have hcb : c = b := by rcases hc with h' | h'; exact absurd h' e; exact h'
      subst hcb
      rcases hd with rfl | rfl
      · simp
      · rcases ha with rfl | rfl <;> simp

/-! ### transport of labellings -/

theorem tauMask_bit (S : Sit cs cs' ds ds' m m' mi mi') (x j : Nat) :
    (tauMask m x).testBit j = (decide (j < cs.size) && x.testBit (mi[j]!)) :=
  tauMask_bit_of_inverse m mi cs.size x j S.szm S.bijI S.bij

theorem tauMask_bit' (S : Sit cs cs' ds ds' m m' mi mi') (x j : Nat) :
    (tauMask m' x).testBit j = (decide (j < cs'.size) && x.testBit (mi'[j]!)) :=
  tauMask_bit_of_inverse m' mi' cs'.size x j S.szm' S.bijI' S.bij'

theorem tauMask'_lt (S : Sit cs cs' ds ds' m m' mi mi') (x : Nat) : tauMask m' x < 2 ^ 64 := by
  apply Nat.lt_pow_two_of_testBit
  intro j hj
  rw [tauMask_bit' S]
  have := S.le64
  simp [show ¬ j < cs'.size by omega]

/-- (T1) τ of a labelling with one label replaced -/
theorem tauMask_setBit (S : Sit cs cs' ds ds' m m' mi mi') (M j : Nat) (y : Bool) (hM : M < 2 ^ 64)
    (hj : j < cs'.size) : tauMask m' (setBit M j y) = setBit (tauMask m' M) (m'[j]!) y := by
  have h64 := S.le64
  apply Nat.eq_of_testBit_eq
  intro a
  rw [tauMask_bit' S, setBit_testBit _ _ _ _ (tauMask'_lt S M) (by have := (S.bij' j hj).1; omega),
    setBit_testBit _ _ _ _ hM (by omega), tauMask_bit' S]
  by_cases ha : a < cs'.size
  · simp only [ha, decide_true, Bool.true_and]
    by_cases e : a = m'[j]!
    · subst e
      simp [(S.bij' j hj).2]
    · have : ¬ mi'[a]! = j := by
        intro e'
        apply e
        rw [← e', (S.bijI' a ha).2]
      simp [e, this]
  · have : ¬ a = m'[j]! := by
      intro e
      have := (S.bij' j hj).1
      omega
    simp [ha, this]

/-- (T2) the labels carried over along the image edge are the images of the labels carried over -/
theorem tauMask_carry (S : Sit cs cs' ds ds' m m' mi mi') (x : Nat) :
    tauMask m' (carry cs cs' x) = carry ds ds' (tauMask m x) := by
  apply Nat.eq_of_testBit_eq
  intro a
  rw [Bool.eq_iff_iff, carry_testBit ds ds' _ a S.injd S.injd' (by rw [S.szd']; exact S.le64), tauMask_bit' S,
    S.szd, S.szd']
  simp only [Bool.and_eq_true, decide_eq_true_eq]
  rw [carry_testBit cs cs' x _ S.inj S.inj' S.le64]
  constructor
  · rintro ⟨ha, _, i, hi, e, hx⟩
    refine ⟨ha, m[i]!, (S.bij i hi).1, ?_, ?_⟩
    · have := (S.corr i hi _ (S.bijI' a ha).1).1 e
      rw [(S.bijI' a ha).2] at this
      exact this
    · rw [tauMask_bit S, (S.bij i hi).2]
      simp [(S.bij i hi).1, hx]
  · rintro ⟨ha, i', hi', e, hx⟩
    rw [tauMask_bit S] at hx
    simp only [Bool.and_eq_true, decide_eq_true_eq] at hx
    refine ⟨ha, (S.bijI' a ha).1, mi[i']!, (S.bijI i' hi').1, ?_, hx.2⟩
    apply (S.corr _ (S.bijI i' hi').1 _ (S.bijI' a ha).1).2
    rw [(S.bijI i' hi').2, (S.bijI' a ha).2]
    exact e

/-! ### the edge map -/

/-- `edgeTerms` of `Proofs/C06CycleDefs` on the two circle lists, without the sign of the cube edge -/
def edgeCore (cs cs' : Array (Array Nat)) (p : Params) (x s' : Nat) : Option (List Term) :=
  let gone := goneOf cs cs'
  let born := bornOf cs cs'
  let m0 := carry cs cs' x
  if gone.size == 2 && born.size == 1 then
    some ((prod p.h p.t (x.testBit gone[0]!) (x.testBit gone[1]!)).filterMap (fun (ya : Bool × Int) =>
      if ya.2 != 0 then some ((⟨s', setBit m0 born[0]! ya.1⟩ : Gen), ya.2) else none))
  else if gone.size == 1 && born.size == 2 then
    some ((coprod p.h p.t (x.testBit gone[0]!)).filterMap (fun (yya : Bool × Bool × Int) =>
      if yya.2.2 != 0 then
        some ((⟨s', setBit (setBit m0 born[0]! yya.1) born[1]! yya.2.1⟩ : Gen), yya.2.2) else none))
  else none

theorem edgeTerms_eq_core (c : Cube) (p : Params) (g : Gen) (k : Nat) :
    edgeTerms c p g k = (edgeCore (c.circ[g.s]!) (c.circ[g.s ||| 1 <<< k]!) p g.mask (g.s ||| 1 <<< k)).map
      (List.map (fun t => (t.1, edgeSign g.s k * t.2))) := by
  unfold edgeTerms edgeCore
  simp only
  split
  · simp only [Option.map_some, List.map_filterMap]
    congr 2
    funext ya
    split <;> rfl
  · split
    · simp only [Option.map_some, List.map_filterMap]
      congr 2
      funext ya
      split <;> rfl
    · rfl

theorem prod_comm (h t : Int) (a b : Bool) : prod h t a b = prod h t b a := by
  cases a <;> cases b <;> rfl

theorem toList_eq_of_size1 (a : Array Nat) (h : a.size = 1) : a.toList = [a[0]!] := by
  obtain ⟨l⟩ := a
  match l, h with
  | [x], _ => rfl

theorem toList_eq_of_size2 (a : Array Nat) (h : a.size = 2) : a.toList = [a[0]!, a[1]!] := by
  obtain ⟨l⟩ := a
  match l, h with
  | [x, y], _ => rfl

theorem setBit_comm (M p q : Nat) (u v : Bool) (hM : M < 2 ^ 64) (hp : p < 64) (hq : q < 64) (hne : p ≠ q) :
    setBit (setBit M p u) q v = setBit (setBit M q v) p u := by
  apply Nat.eq_of_testBit_eq
  intro a
  rw [setBit_testBit _ _ _ _ (setBit_lt _ _ _ hM hp) hq, setBit_testBit _ _ _ _ hM hp,
    setBit_testBit _ _ _ _ (setBit_lt _ _ _ hM hq) hp, setBit_testBit _ _ _ _ hM hq]
  by_cases h1 : a = q
  · subst h1
    have : ¬ a = p := fun e => hne e.symm
    simp [this]
  · simp [h1]

theorem coprod_swap_perm (h t : Int) (b : Bool) (G : Bool → Bool → Gen) :
    ((coprod h t b).filterMap (fun (yya : Bool × Bool × Int) =>
      if yya.2.2 != 0 then some (G yya.2.1 yya.1, yya.2.2) else none)).Perm
    ((coprod h t b).filterMap (fun (yya : Bool × Bool × Int) =>
      if yya.2.2 != 0 then some (G yya.1 yya.2.1, yya.2.2) else none)) := by
  cases b
  · simp only [coprod, List.filterMap_cons]
    have : ((1 : Int) != 0) = true := by decide
    simp only [this, if_true]
    exact List.Perm.swap _ _ _
  · exact List.Perm.refl _

/-- τ on a target generator of the edge -/
def tauT (m' : Array Nat) (t' : Nat) (t : Term) : Term := ((⟨t', tauMask m' t.1.mask⟩ : Gen), t.2)

/-- ONE EDGE, abstractly: the edge map of the image edge on the image labelling is the image of the edge map -/
theorem edgeCore_tau (S : Sit cs cs' ds ds' m m' mi mi') (p : Params) (x s' t' : Nat) :
    match edgeCore cs cs' p x s' with
    | none => edgeCore ds ds' p (tauMask m x) t' = none
    | some ts => ∃ ts', edgeCore ds ds' p (tauMask m x) t' = some ts' ∧ (ts.map (tauT m' t')).Perm ts' := by
  have hg := gone_perm S
  have hb := born_perm S
  have hgl : (goneOf ds ds').size = (goneOf cs cs').size := by
    have := hg.length_eq; simpa using this
  have hbl : (bornOf ds ds').size = (bornOf cs cs').size := by
    have := hb.length_eq; simpa using this
  have hc64 := carry_lt cs cs' x S.inj S.inj' S.le64
  have h64 := S.le64
  have xbit : ∀ i, i < cs.size → (tauMask m x).testBit (m[i]!) = x.testBit i := by
    intro i hi
    rw [tauMask_bit S, (S.bij i hi).2]
    simp [(S.bij i hi).1]
  unfold edgeCore
  simp only [hgl, hbl]
  by_cases h1 : ((goneOf cs cs').size == 2 && (bornOf cs cs').size == 1) = true
  · simp only [h1, if_true]
    simp only [Bool.and_eq_true, beq_iff_eq] at h1
    obtain ⟨hg2, hb1⟩ := h1
    refine ⟨_, rfl, ?_⟩
    rw [toList_eq_of_size2 _ hg2, toList_eq_of_size2 _ (hgl.trans hg2)] at hg
    rw [toList_eq_of_size1 _ hb1, toList_eq_of_size1 _ (hbl.trans hb1)] at hb
    have hb0 : (bornOf ds ds')[0]! = m'[(bornOf cs cs')[0]!]! := by
      have := List.perm_singleton.1 hb; simpa using this
    have hj0 : (bornOf cs cs')[0]! < cs'.size :=
      ((mem_bornOf cs cs' _).1 (by rw [toList_eq_of_size1 _ hb1]; simp)).1
    have hi0 : (goneOf cs cs')[0]! < cs.size :=
      ((mem_goneOf cs cs' _).1 (by rw [toList_eq_of_size2 _ hg2]; simp)).1
    have hi1 : (goneOf cs cs')[1]! < cs.size :=
      ((mem_goneOf cs cs' _).1 (by rw [toList_eq_of_size2 _ hg2]; simp)).1
    have hprod : prod p.h p.t ((tauMask m x).testBit (goneOf ds ds')[0]!) ((tauMask m x).testBit (goneOf ds ds')[1]!) =
        prod p.h p.t (x.testBit (goneOf cs cs')[0]!) (x.testBit (goneOf cs cs')[1]!) := by
      rcases perm_pair _ _ _ hg with e | e
      · simp only [List.cons.injEq, and_true] at e
        rw [e.1, e.2, xbit _ hi0, xbit _ hi1]
      · simp only [List.cons.injEq, and_true] at e
        rw [e.1, e.2, xbit _ hi0, xbit _ hi1, prod_comm]
    rw [hprod, List.map_filterMap]
    apply List.Perm.of_eq
    apply List.filterMap_congr
    intro ya _
    by_cases hy : (ya.2 != 0) = true
    · simp only [hy, if_true, Option.map_some, tauT, hb0]
      rw [tauMask_setBit S _ _ _ hc64 hj0, tauMask_carry S]
    · simp [hy]
  · simp only [h1, Bool.false_eq_true, if_false]
    by_cases h2 : ((goneOf cs cs').size == 1 && (bornOf cs cs').size == 2) = true
    · simp only [h2, if_true]
      simp only [Bool.and_eq_true, beq_iff_eq] at h2
      obtain ⟨hg1, hb2⟩ := h2
      refine ⟨_, rfl, ?_⟩
      rw [toList_eq_of_size1 _ hg1, toList_eq_of_size1 _ (hgl.trans hg1)] at hg
      rw [toList_eq_of_size2 _ hb2, toList_eq_of_size2 _ (hbl.trans hb2)] at hb
      have hg0 : (goneOf ds ds')[0]! = m[(goneOf cs cs')[0]!]! := by
        have := List.perm_singleton.1 hg; simpa using this
      have hi0 : (goneOf cs cs')[0]! < cs.size :=
        ((mem_goneOf cs cs' _).1 (by rw [toList_eq_of_size1 _ hg1]; simp)).1
      have hj0 : (bornOf cs cs')[0]! < cs'.size :=
        ((mem_bornOf cs cs' _).1 (by rw [toList_eq_of_size2 _ hb2]; simp)).1
      have hj1 : (bornOf cs cs')[1]! < cs'.size :=
        ((mem_bornOf cs cs' _).1 (by rw [toList_eq_of_size2 _ hb2]; simp)).1
      have hne : (bornOf cs cs')[0]! ≠ (bornOf cs cs')[1]! := by
        have := nodup_bornOf cs cs'
        rw [toList_eq_of_size2 _ hb2] at this
        simpa using this
      rw [hg0, xbit _ hi0]
      have hT : ∀ y1 y2, tauMask m' (setBit (setBit (carry cs cs' x) (bornOf cs cs')[0]! y1) (bornOf cs cs')[1]! y2) =
          setBit (setBit (carry ds ds' (tauMask m x)) (m'[(bornOf cs cs')[0]!]!) y1) (m'[(bornOf cs cs')[1]!]!) y2 := by
        intro y1 y2
        rw [tauMask_setBit S _ _ _ (setBit_lt _ _ _ hc64 (by omega)) hj1, tauMask_setBit S _ _ _ hc64 hj0,
          tauMask_carry S]
      rcases perm_pair _ _ _ hb with e | e
      · simp only [List.cons.injEq, and_true] at e
        rw [e.1, e.2, List.map_filterMap]
        apply List.Perm.of_eq
        apply List.filterMap_congr
        intro yya _
        by_cases hy : (yya.2.2 != 0) = true
        · simp only [hy, if_true, Option.map_some, tauT]
          rw [hT]
        · simp [hy]
      · simp only [List.cons.injEq, and_true] at e
        rw [e.1, e.2, List.map_filterMap]
        have hmne : m'[(bornOf cs cs')[1]!]! ≠ m'[(bornOf cs cs')[0]!]! := by
          intro e'
          apply hne
          rw [← (S.bij' _ hj0).2, ← (S.bij' _ hj1).2, e']
        have hm0 := (S.bij' _ hj0).1
        have hm1 := (S.bij' _ hj1).1
        have hcd64 : carry ds ds' (tauMask m x) < 2 ^ 64 := by rw [← tauMask_carry S]; exact tauMask'_lt S _
        refine List.Perm.trans (List.Perm.of_eq ?_) (coprod_swap_perm p.h p.t _ (fun u v =>
          (⟨t', setBit (setBit (carry ds ds' (tauMask m x)) (m'[(bornOf cs cs')[1]!]!) u) (m'[(bornOf cs cs')[0]!]!) v⟩ : Gen)))
        apply List.filterMap_congr
        intro yya _
        by_cases hy : (yya.2.2 != 0) = true
        · simp only [hy, if_true, Option.map_some, tauT]
          rw [hT, setBit_comm _ _ _ _ _ hcd64 (by omega) (by omega) hmne.symm]
        · simp [hy]
    · simp only [h2, Bool.false_eq_true, if_false]

end Yuiv.C19Comm
