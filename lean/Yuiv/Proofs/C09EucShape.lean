import Yuiv.Proofs.C09Euc
/-
C09 — the full Smith shape of the code model for ANY lawful Euclidean operation record (`LawfulEuc e φ`),
part 1: `eliminate_at` / `eliminate_all`.  Same structure as the ℤ proof (`Proofs/C09Shape2.lean`); entries are
compared through `φ`; "`0 < d`" becomes "`d ≠ 0` and `d` normalised", "`|d| < |x|`" becomes `size d < size x`.
The pivot handed to `eliminate_at` is normalised (`eliminate_step` multiplies by the normalising unit first); this
is an invariant of the loop and is what makes the unit branch of the wrapper `SnfCalc::gcdx` hand out valid
Bézout coefficients.
-/
set_option linter.unusedSectionVars false
set_option linter.unusedSimpArgs false
set_option linter.unusedVariables false
namespace Yuiv.C09.Euc
open Yuiv Yuiv.C09

variable {α K : Type} [CommRing K] [IsDomain K] {e : EOps α} {φ : α → K} {m n : Nat}

/-! entries of the elementary operations, through `φ` -/

section entries
variable (L : LawfulEuc e φ)
include L

theorem leftElem_get (T : Mat α m n) (a b c d : α) (i j : Fin m) (r : Fin m) (col : Fin n) :
    φ ((leftElem e.toROps T a b c d i j).get r col) =
      if r = j then φ (T.get i col) * φ c + φ (T.get j col) * φ d
      else if r = i then φ (T.get i col) * φ a + φ (T.get j col) * φ b else φ (T.get r col) := by
  simp only [leftElem, get_ofFn]
  split_ifs <;> simp [L.phi_add, L.phi_mul]

theorem rightElem_get (T : Mat α m n) (a b c d : α) (i j : Fin n) (r : Fin m) (col : Fin n) :
    φ ((rightElem e.toROps T a b c d i j).get r col) =
      if col = j then φ (T.get r i) * φ c + φ (T.get r j) * φ d
      else if col = i then φ (T.get r i) * φ a + φ (T.get r j) * φ b else φ (T.get r col) := by
  simp only [rightElem, get_ofFn]
  split_ifs <;> simp [L.phi_add, L.phi_mul]

theorem mulCol_get (T : Mat α m n) (j c : Fin n) (r : Fin m) (u : α) :
    φ ((mulCol e.toROps T j u).get r c) = if c = j then φ (T.get r c) * φ u else φ (T.get r c) := by
  simp only [mulCol, get_ofFn]
  split_ifs <;> simp [L.phi_mul]

theorem mulRow_get (T : Mat α m n) (i r : Fin m) (c : Fin n) (u : α) :
    φ ((mulRow e.toROps T i u).get r c) = if r = i then φ (T.get r c) * φ u else φ (T.get r c) := by
  simp only [mulRow, get_ofFn]
  split_ifs <;> simp [L.phi_mul]

/-- what one iteration of `eliminate_col` does (when it returns), on a non-zero normalised pivot -/
theorem colStep_ok (dbg : Bool) (i : Fin m) (jc : Fin n) (sm sm' : St α m n × Bool) (i1 : Fin m)
    (h : eliminateColStep e dbg i jc sm i1 = .ok sm') (hp : φ (sm.1.t.get i jc) ≠ 0)
    (hn : φ (e.normUnit (sm.1.t.get i jc)) = 1) :
    (sm' = sm ∧ (i = i1 ∨ φ (sm.1.t.get i1 jc) = 0)) ∨
    (i ≠ i1 ∧ φ (sm.1.t.get i1 jc) ≠ 0 ∧ sm'.2 = true ∧ ∃ s t a b d : α, φ d ≠ 0 ∧ φ (e.normUnit d) = 1 ∧
      φ (sm.1.t.get i jc) = φ a * φ d ∧ φ (sm.1.t.get i1 jc) = φ b * φ d ∧ φ s * φ a + φ t * φ b = 1 ∧
      (φ t = 0 ∨ e.size d < e.size (sm.1.t.get i jc)) ∧
      sm'.1.t = leftElem e.toROps sm.1.t s t (e.neg b) a i i1) := by
  unfold eliminateColStep at h
  simp only at h
  split at h
  · rename_i hc
    injection h with h
    left
    refine ⟨h.symm, ?_⟩
    simpa [L.isZero_iff] using hc
  · rename_i hc
    right
    simp only [Bool.or_eq_true, decide_eq_true_eq, L.isZero_iff, not_or] at hc
    split at h
    · rename_i s' h1
      injection h with h; subst h
      unfold sLeft at h1
      split at h1
      · cases h1
      · injection h1 with h1; subst h1
        obtain ⟨g1, g2, g3, g4, g5, g6⟩ := L.gcdxW_data (sm.1.t.get i jc) (sm.1.t.get i1 jc) hp (Or.inl hn)
        exact ⟨hc.1, hc.2, rfl, _, _, _, _, _, g1, g2, g3, g4, g5, g6, rfl⟩
    · cases h
    · cases h

theorem rowStep_ok (dbg : Bool) (i : Fin m) (jc : Fin n) (sm sm' : St α m n × Bool) (j1 : Fin n)
    (h : eliminateRowStep e dbg i jc sm j1 = .ok sm') (hp : φ (sm.1.t.get i jc) ≠ 0)
    (hn : φ (e.normUnit (sm.1.t.get i jc)) = 1) :
    (sm' = sm ∧ (jc = j1 ∨ φ (sm.1.t.get i j1) = 0)) ∨
    (jc ≠ j1 ∧ φ (sm.1.t.get i j1) ≠ 0 ∧ sm'.2 = true ∧ ∃ s t a b d : α, φ d ≠ 0 ∧ φ (e.normUnit d) = 1 ∧
      φ (sm.1.t.get i jc) = φ a * φ d ∧ φ (sm.1.t.get i j1) = φ b * φ d ∧ φ s * φ a + φ t * φ b = 1 ∧
      (φ t = 0 ∨ e.size d < e.size (sm.1.t.get i jc)) ∧
      sm'.1.t = rightElem e.toROps sm.1.t s t (e.neg b) a jc j1) := by
  unfold eliminateRowStep at h
  simp only at h
  split at h
  · rename_i hc
    injection h with h
    left
    refine ⟨h.symm, ?_⟩
    simpa [L.isZero_iff] using hc
  · rename_i hc
    right
    simp only [Bool.or_eq_true, decide_eq_true_eq, L.isZero_iff, not_or] at hc
    split at h
    · rename_i s' h1
      injection h with h; subst h
      unfold sRight at h1
      split at h1
      · cases h1
      · injection h1 with h1; subst h1
        obtain ⟨g1, g2, g3, g4, g5, g6⟩ := L.gcdxW_data (sm.1.t.get i jc) (sm.1.t.get i j1) hp (Or.inl hn)
        exact ⟨hc.1, hc.2, rfl, _, _, _, _, _, g1, g2, g3, g4, g5, g6, rfl⟩
    · cases h
    · cases h

theorem rowNz_le_one_iff (T : Mat α m n) (i : Fin m) (jc : Fin n) (hp : φ (T.get i jc) ≠ 0) :
    rowNz e T i ≤ 1 ↔ ∀ c, c ≠ jc → φ (T.get i c) = 0 := by
  unfold rowNz
  rw [foldl_count (fun j => e.isZero (T.get i j)), Nat.zero_add,
    countP_le_one_iff _ _ (List.nodup_finRange n) jc (List.mem_finRange jc)]
  · simp only [List.mem_finRange, true_implies, Bool.not_eq_false', L.isZero_iff]
  · simpa [L.isZero_false] using hp

theorem colNz_le_one_iff (T : Mat α m n) (i : Fin m) (jc : Fin n) (hp : φ (T.get i jc) ≠ 0) :
    colNz e T jc ≤ 1 ↔ ∀ r, r ≠ i → φ (T.get r jc) = 0 := by
  unfold colNz
  rw [foldl_count (fun r => e.isZero (T.get r jc)), Nat.zero_add,
    countP_le_one_iff _ _ (List.nodup_finRange m) i (List.mem_finRange i)]
  · simp only [List.mem_finRange, true_implies, Bool.not_eq_false', L.isZero_iff]
  · simpa [L.isZero_false] using hp

end entries

/-! ### `eliminate_at` -/

/-- a "frame": a predicate on the target that the elementary operations of `eliminate_at(i, jc)` preserve -/
structure FrameOK (e : EOps α) (φ : α → K) (i : Fin m) (jc : Fin n) (F : Mat α m n → Prop) : Prop where
  left : ∀ (T : Mat α m n) (s t b a : α) (i1 : Fin m), F T → i ≠ i1 → φ (T.get i1 jc) ≠ 0 →
    F (leftElem e.toROps T s t b a i i1)
  right : ∀ (T : Mat α m n) (s t b a : α) (j1 : Fin n), F T → jc ≠ j1 → φ (T.get i j1) ≠ 0 →
    F (rightElem e.toROps T s t b a jc j1)

theorem frameOK_true (i : Fin m) (jc : Fin n) : FrameOK e φ i jc (fun _ => True) :=
  ⟨fun _ _ _ _ _ _ _ _ _ => trivial, fun _ _ _ _ _ _ _ _ _ => trivial⟩

section elimAt
variable (L : LawfulEuc e φ)
include L

/-- `eliminate_col`: the pivot stays non-zero and normalised and is replaced by a divisor, the frame is kept, the
pivot's column is cleared -/
theorem eliminateCol_post {i : Fin m} {jc : Fin n} {F : Mat α m n → Prop} (hF : FrameOK e φ i jc F) (dbg : Bool)
    (s : St α m n) (r : St α m n × Bool) (h : eliminateCol e dbg s i jc = .ok r)
    (hF0 : F s.t) (hp : φ (s.t.get i jc) ≠ 0) (hn : φ (e.normUnit (s.t.get i jc)) = 1) :
    F r.1.t ∧ φ (r.1.t.get i jc) ≠ 0 ∧ φ (e.normUnit (r.1.t.get i jc)) = 1 ∧
      φ (r.1.t.get i jc) ∣ φ (s.t.get i jc) ∧ (∀ r', r' ≠ i → φ (r.1.t.get r' jc) = 0) := by
  unfold eliminateCol at h
  have key := foldlM_prefix (σ := St α m n × Bool) (β := Fin m) (eliminateColStep e dbg i jc)
    (fun pre sm => F sm.1.t ∧ φ (sm.1.t.get i jc) ≠ 0 ∧ φ (e.normUnit (sm.1.t.get i jc)) = 1 ∧
      φ (sm.1.t.get i jc) ∣ φ (s.t.get i jc) ∧
      ∀ r' ∈ pre, r' ≠ i → φ (sm.1.t.get r' jc) = 0) ?_ (List.finRange m) [] (s, false) r
      ⟨hF0, hp, hn, dvd_refl _, by simp⟩ h
  · obtain ⟨k1, k2, k3, k4, k5⟩ := key
    exact ⟨k1, k2, k3, k4, fun r' hr' => k5 r' (by simp) hr'⟩
  · intro pre i1 sm sm' ⟨p1, p2, pn, p3, p4⟩ hstep
    rcases colStep_ok L dbg i jc sm sm' i1 hstep p2 pn with
      ⟨rfl, hc⟩ | ⟨hne, hy, _, s', t', a, b, d, hd, hdn, hx, hy', hbez, _, hT⟩
    · refine ⟨p1, p2, pn, p3, ?_⟩
      intro r' hr' hri
      rw [List.mem_append, List.mem_singleton] at hr'
      rcases hr' with hr' | rfl
      · exact p4 r' hr' hri
      · rcases hc with hc | hc
        · exact absurd hc.symm hri
        · exact hc
    · have hpiv : φ (sm'.1.t.get i jc) = φ d := by
        rw [hT, leftElem_get L, if_neg hne, if_pos rfl, hx, hy']
        linear_combination φ d * hbez
      have hz : φ (sm'.1.t.get i1 jc) = 0 := by
        rw [hT, leftElem_get L, if_pos rfl, hx, hy', L.phi_neg]; ring
      refine ⟨?_, ?_, ?_, ?_, ?_⟩
      · rw [hT]; exact hF.left _ _ _ _ _ _ p1 hne hy
      · rw [hpiv]; exact hd
      · rw [L.normUnit_congr _ _ hpiv]; exact hdn
      · rw [hpiv]; exact dvd_trans ⟨φ a, by rw [hx]; ring⟩ p3
      · intro r' hr' hri
        by_cases h1 : r' = i1
        · rw [h1]; exact hz
        · rw [List.mem_append, List.mem_singleton] at hr'
          rcases hr' with hr' | hr'
          · rw [hT, leftElem_get L, if_neg h1, if_neg hri]; exact p4 r' hr' hri
          · exact absurd hr' h1

/-- `eliminate_row` after `eliminate_col`: the pivot's row is cleared; its column stays cleared unless the
pivot became strictly smaller -/
theorem eliminateRow_post {i : Fin m} {jc : Fin n} {F : Mat α m n → Prop} (hF : FrameOK e φ i jc F) (dbg : Bool)
    (s : St α m n) (r : St α m n × Bool) (h : eliminateRow e dbg s i jc = .ok r)
    (hF0 : F s.t) (hp : φ (s.t.get i jc) ≠ 0) (hn : φ (e.normUnit (s.t.get i jc)) = 1)
    (hcol : ∀ r', r' ≠ i → φ (s.t.get r' jc) = 0) :
    F r.1.t ∧ φ (r.1.t.get i jc) ≠ 0 ∧ φ (e.normUnit (r.1.t.get i jc)) = 1 ∧
      φ (r.1.t.get i jc) ∣ φ (s.t.get i jc) ∧ (∀ c, c ≠ jc → φ (r.1.t.get i c) = 0) ∧
      ((∀ r', r' ≠ i → φ (r.1.t.get r' jc) = 0) ∨ e.size (r.1.t.get i jc) < e.size (s.t.get i jc)) := by
  unfold eliminateRow at h
  have key := foldlM_prefix (σ := St α m n × Bool) (β := Fin n) (eliminateRowStep e dbg i jc)
    (fun pre sm => F sm.1.t ∧ φ (sm.1.t.get i jc) ≠ 0 ∧ φ (e.normUnit (sm.1.t.get i jc)) = 1 ∧
      φ (sm.1.t.get i jc) ∣ φ (s.t.get i jc) ∧
      (∀ c ∈ pre, c ≠ jc → φ (sm.1.t.get i c) = 0) ∧
      ((∀ r', r' ≠ i → φ (sm.1.t.get r' jc) = 0) ∨ e.size (sm.1.t.get i jc) < e.size (s.t.get i jc)))
      ?_ (List.finRange n) [] (s, false) r ⟨hF0, hp, hn, dvd_refl _, by simp, Or.inl hcol⟩ h
  · obtain ⟨k1, k2, k3, k4, k5, k6⟩ := key
    exact ⟨k1, k2, k3, k4, fun c hc => k5 c (by simp) hc, k6⟩
  · intro pre j1 sm sm' ⟨p1, p2, pn, p3, p4, p5⟩ hstep
    rcases rowStep_ok L dbg i jc sm sm' j1 hstep p2 pn with
      ⟨rfl, hc⟩ | ⟨hne, hy, _, s', t', a, b, d, hd, hdn, hx, hy', hbez, hlt, hT⟩
    · refine ⟨p1, p2, pn, p3, ?_, p5⟩
      intro c hc' hcj
      rw [List.mem_append, List.mem_singleton] at hc'
      rcases hc' with hc' | rfl
      · exact p4 c hc' hcj
      · rcases hc with hc | hc
        · exact absurd hc.symm hcj
        · exact hc
    · have hpiv : φ (sm'.1.t.get i jc) = φ d := by
        rw [hT, rightElem_get L, if_neg hne, if_pos rfl, hx, hy']
        linear_combination φ d * hbez
      have hz : φ (sm'.1.t.get i j1) = 0 := by
        rw [hT, rightElem_get L, if_pos rfl, hx, hy', L.phi_neg]; ring
      have hsz : e.size (sm'.1.t.get i jc) = e.size d := L.size_congr _ _ hpiv hd
      have hle : e.size d ≤ e.size (sm.1.t.get i jc) :=
        L.size_dvd _ _ p2 ⟨φ a, by rw [hx]; ring⟩
      have hles : e.size (sm.1.t.get i jc) ≤ e.size (s.t.get i jc) := L.size_dvd _ _ hp p3
      refine ⟨?_, ?_, ?_, ?_, ?_, ?_⟩
      · rw [hT]; exact hF.right _ _ _ _ _ _ p1 hne hy
      · rw [hpiv]; exact hd
      · rw [L.normUnit_congr _ _ hpiv]; exact hdn
      · rw [hpiv]; exact dvd_trans ⟨φ a, by rw [hx]; ring⟩ p3
      · intro c hc' hcj
        by_cases h1 : c = j1
        · rw [h1]; exact hz
        · rw [List.mem_append, List.mem_singleton] at hc'
          rcases hc' with hc' | hc'
          · rw [hT, rightElem_get L, if_neg h1, if_neg hcj]; exact p4 c hc' hcj
          · exact absurd hc' h1
      · rcases p5 with p5 | p5
        · rcases hlt with ht0 | hlt
          · left
            intro r' hr'
            rw [hT, rightElem_get L, if_neg hne, if_pos rfl, p5 r' hr', ht0]; ring
          · right
            omega
        · right
          omega

/-- `eliminate_at(i, jc)` on a non-zero normalised pivot: whenever it returns, the frame is kept, the pivot is
non-zero and normalised (a divisor of the old one) and the only non-zero entry of its row and of its column -/
theorem eliminateAt_post {i : Fin m} {jc : Fin n} {F : Mat α m n → Prop} (hF : FrameOK e φ i jc F) (dbg : Bool) :
    ∀ (fuel : Nat) (s s' : St α m n), eliminateAt e dbg i jc fuel s = .ok s' → F s.t → φ (s.t.get i jc) ≠ 0 →
      φ (e.normUnit (s.t.get i jc)) = 1 →
      F s'.t ∧ φ (s'.t.get i jc) ≠ 0 ∧ φ (e.normUnit (s'.t.get i jc)) = 1 ∧ φ (s'.t.get i jc) ∣ φ (s.t.get i jc) ∧
        (∀ c, c ≠ jc → φ (s'.t.get i c) = 0) ∧ (∀ r, r ≠ i → φ (s'.t.get r jc) = 0) := by
  intro fuel
  induction fuel with
  | zero => intro s s' h; simp [eliminateAt] at h
  | succ fuel ih =>
    intro s s' h hF0 hp hn
    rw [eliminateAt] at h
    split at h
    · split at h
      · rename_i r1 h1
        obtain ⟨c1, c2, cn, c3, c4⟩ := eliminateCol_post L hF dbg s r1 h1 hF0 hp hn
        split at h
        · rename_i r2 h2
          obtain ⟨d1, d2, dn, d3, _, _⟩ := eliminateRow_post L hF dbg r1.1 r2 h2 c1 c2 cn c4
          split at h
          · cases h
          · obtain ⟨e1, e2, en, e3, e4, e5⟩ := ih r2.1 s' h d1 d2 dn
            exact ⟨e1, e2, en, dvd_trans e3 (dvd_trans d3 c3), e4, e5⟩
        · cases h
        · cases h
      · cases h
      · cases h
    · rename_i hc
      injection h with h; subst h
      simp only [Bool.or_eq_true, decide_eq_true_eq, not_or, Nat.not_lt] at hc
      exact ⟨hF0, hp, hn, dvd_refl _, (rowNz_le_one_iff L s.t i jc hp).1 hc.1,
        (colNz_le_one_iff L s.t i jc hp).1 hc.2⟩

end elimAt

/-! ### the loop invariant of `eliminate_all` -/

section elimAll
variable (L : LawfulEuc e φ)
include L

/-- `select_pivot(below, j)`: a row `≥ below` with a non-zero entry; `None` only if the column is zero from
`below` on -/
theorem selectPivot_spec (T : Mat α m n) (below : Nat) (j : Fin n) :
    (∀ ip, selectPivot e T below j = some ip → below ≤ ip.1 ∧ φ (T.get ip j) ≠ 0) ∧
    (selectPivot e T below j = none → ∀ r : Fin m, below ≤ r.1 → φ (T.get r j) = 0) := by
  unfold selectPivot
  have key := foldl_prefix (σ := Option (Fin m × Nat)) (β := Fin m)
    (fun (acc : Option (Fin m × Nat)) i =>
      if below ≤ i.1 && !e.isZero (T.get i j) then
        let k := rowNz e T i
        match acc with
        | none => some (i, k)
        | some (_, k0) => if k < k0 then some (i, k) else acc
      else acc)
    (fun pre acc => (∀ p, acc = some p → below ≤ p.1.1 ∧ φ (T.get p.1 j) ≠ 0) ∧
      (acc = none → ∀ r ∈ pre, below ≤ r.1 → φ (T.get r j) = 0)) ?_ (List.finRange m) [] none
      ⟨by simp, by simp⟩
  · generalize List.foldl _ none (List.finRange m) = acc at key
    obtain ⟨k1, k2⟩ := key
    constructor
    · intro ip h
      cases acc with
      | none => simp at h
      | some p =>
        simp only [Option.map_some, Option.some.injEq] at h
        rw [← h]; exact k1 p rfl
    · intro h r hr
      cases acc with
      | none => exact k2 rfl r (by simp) hr
      | some p => simp at h
  · intro pre x acc ⟨p1, p2⟩
    split
    · rename_i hc
      simp only [Bool.and_eq_true, decide_eq_true_eq, Bool.not_eq_true', L.isZero_false] at hc
      cases acc with
      | none =>
        refine ⟨?_, by simp⟩
        intro p hp; simp only [Option.some.injEq] at hp; rw [← hp]; exact hc
      | some p0 =>
        obtain ⟨i0, k0⟩ := p0
        simp only
        split
        · refine ⟨?_, by simp⟩
          intro p hp; simp only [Option.some.injEq] at hp; rw [← hp]; exact hc
        · exact ⟨p1, by simp⟩
    · rename_i hc
      refine ⟨p1, ?_⟩
      intro hn r hr hb
      rw [List.mem_append, List.mem_singleton] at hr
      rcases hr with hr | rfl
      · exact p2 hn r hr hb
      · simp only [Bool.and_eq_true, decide_eq_true_eq, Bool.not_eq_true', L.isZero_false, not_and,
          Decidable.not_not] at hc
        exact not_not.1 (hc hb)

end elimAll

/-- invariant of `eliminate_all`: the pivots `< i` are isolated and non-zero, the columns `lo ≤ c < hi` are zero -/
structure EAinv (φ : α → K) (i lo hi : Nat) (T : Mat α m n) : Prop where
  off : ∀ (r : Fin m) (c : Fin n), r.1 ≠ c.1 → (r.1 < i ∨ c.1 < i) → φ (T.get r c) = 0
  dia : ∀ (r : Fin m) (c : Fin n), r.1 = c.1 → r.1 < i → φ (T.get r c) ≠ 0
  zc : ∀ (r : Fin m) (c : Fin n), lo ≤ c.1 → c.1 < hi → φ (T.get r c) = 0

/-- entries after the two swaps of `eliminate_step` -/
theorem stepPrep_get (s : St α m n) (i ip : Fin m) (ic j : Fin n) (h1 : i.1 ≤ ip.1) (h2 : ic.1 ≤ j.1)
    (r : Fin m) (c : Fin n) :
    (stepPrep s i ip ic j).t.get r c =
      s.t.get (if r = i then ip else if r = ip then i else r) (if c = ic then j else if c = j then ic else c) := by
  unfold stepPrep
  simp only
  have e1 : ∀ r c, (if ip.1 > i.1 then sSwapRows s i ip else s).t.get r c =
      s.t.get (if r = i then ip else if r = ip then i else r) c := by
    intro r c
    split
    · simp only [sSwapRows]; rw [swapRows_get]
    · rename_i hgt
      have : ip = i := Fin.ext (by omega)
      subst this
      split <;> simp_all
  split
  · simp only [sSwapCols]; rw [swapCols_get, e1]
  · rename_i hgt
    have : j = ic := Fin.ext (by omega)
    subst this
    rw [e1]
    congr 1
    by_cases hcj : c = j <;> simp [hcj]

/-- the swaps move the (zero) column `i` to position `j` and keep the isolated pivots -/
theorem EAinv_stepPrep (s : St α m n) (i ip : Fin m) (ic j : Fin n) (hic : ic.1 = i.1) (h1 : i.1 ≤ ip.1)
    (h2 : ic.1 ≤ j.1) (hT : EAinv φ i.1 i.1 j.1 s.t) :
    EAinv φ i.1 (i.1 + 1) (j.1 + 1) (stepPrep s i ip ic j).t := by
  constructor
  · intro r c hrc hlt
    rw [stepPrep_get s i ip ic j h1 h2]
    apply hT.off
    · split <;> split <;> (try split) <;> (try split) <;> simp_all <;> omega
    · split <;> split <;> (try split) <;> (try split) <;> simp_all <;> omega
  · intro r c hrc hlt
    rw [stepPrep_get s i ip ic j h1 h2]
    have e1 : r ≠ i := fun h => by subst h; omega
    have e2 : r ≠ ip := fun h => by subst h; omega
    have e3 : c ≠ ic := fun h => by subst h; omega
    have e4 : c ≠ j := fun h => by subst h; omega
    rw [if_neg e1, if_neg e2, if_neg e3, if_neg e4]
    exact hT.dia r c hrc hlt
  · intro r c hlo hhi
    rw [stepPrep_get s i ip ic j h1 h2]
    have e3 : c ≠ ic := fun h => by subst h; omega
    rw [if_neg e3]
    generalize (if r = i then ip else if r = ip then i else r) = r'
    by_cases h : c = j
    · subst h
      rw [if_pos rfl]
      exact hT.zc _ ic (by omega) (by omega)
    · rw [if_neg h]
      have : c.1 ≠ j.1 := fun h' => h (Fin.ext h')
      exact hT.zc _ c (by omega) (by omega)

section elimAll2
variable (L : LawfulEuc e φ)
include L

/-- clearing pivot `i` does not re-fill the rows/columns of the pivots `< i`, nor the zero columns -/
theorem frameOK_EAinv (I : Fin m) (jc : Fin n) (hI : jc.1 = I.1) (j : Nat) :
    FrameOK e φ I jc (EAinv (m := m) (n := n) φ I.1 (I.1 + 1) (j + 1)) := by
  constructor
  · intro T s t b a i1 hT hne hy
    have hi1 : I.1 < i1.1 := by
      by_contra hlt
      have hne' : I.1 ≠ i1.1 := fun h => hne (Fin.ext h)
      exact hy (hT.off i1 jc (by omega) (Or.inl (by omega)))
    constructor
    · intro r c hrc hlt
      rw [leftElem_get L]
      split
      · rename_i h; subst h
        have hc : c.1 < I.1 := by omega
        rw [hT.off I c (by omega) (Or.inr hc), hT.off r c hrc (Or.inr hc)]; ring
      · split
        · rename_i _ h; subst h
          have hc : c.1 < r.1 := by omega
          rw [hT.off r c hrc (Or.inr hc), hT.off i1 c (by omega) (Or.inr hc)]; ring
        · exact hT.off r c hrc hlt
    · intro r c hrc hlt
      rw [leftElem_get L, if_neg (fun h => by subst h; omega), if_neg (fun h => by subst h; omega)]
      exact hT.dia r c hrc hlt
    · intro r c h1 h2
      rw [leftElem_get L, hT.zc I c h1 h2, hT.zc i1 c h1 h2, hT.zc r c h1 h2]
      simp
  · intro T s t b a j1 hT hne hy
    have hne' : jc.1 ≠ j1.1 := fun h => hne (Fin.ext h)
    have hj1 : j < j1.1 := by
      by_contra hlt
      by_cases h : j1.1 < I.1
      · exact hy (hT.off I j1 (by omega) (Or.inr h))
      · exact hy (hT.zc I j1 (by omega) (by omega))
    have hj1' : I.1 < j1.1 := by
      by_contra hlt
      exact hy (hT.off I j1 (by omega) (Or.inr (by omega)))
    constructor
    · intro r c hrc hlt
      rw [rightElem_get L]
      split
      · rename_i h; subst h
        have hr : r.1 < I.1 := by omega
        rw [hT.off r jc (by omega) (Or.inl hr), hT.off r c hrc (Or.inl hr)]; ring
      · split
        · rename_i _ h; subst h
          have hr : r.1 < I.1 := by omega
          rw [hT.off r c hrc (Or.inl hr), hT.off r j1 (by omega) (Or.inl hr)]; ring
        · exact hT.off r c hrc hlt
    · intro r c hrc hlt
      rw [rightElem_get L, if_neg (fun h => by subst h; omega), if_neg (fun h => by subst h; omega)]
      exact hT.dia r c hrc hlt
    · intro r c h1 h2
      rw [rightElem_get L, if_neg (fun h => by subst h; omega), if_neg (fun h => by subst h; omega)]
      exact hT.zc r c h1 h2

theorem EAinv_mulCol (T : Mat α m n) (jc : Fin n) (u : α) (i lo hi : Nat) (hjc : i ≤ jc.1)
    (hT : EAinv φ i lo hi T) : EAinv φ i lo hi (mulCol e.toROps T jc u) := by
  constructor
  · intro r c hrc hlt
    rw [mulCol_get L, hT.off r c hrc hlt]; simp
  · intro r c hrc hlt
    rw [mulCol_get L, if_neg (fun h => by subst h; omega)]
    exact hT.dia r c hrc hlt
  · intro r c h1 h2
    rw [mulCol_get L, hT.zc r c h1 h2]; simp

/-- the optional `mul_col` of `eliminate_step` by the normalising unit: whenever it returns, the pivot is
normalised, non-zero iff it was, and the invariant is kept -/
theorem normCol_post (s1 s2 : St α m n) (i : Fin m) (jc : Fin n)
    (h2 : (if (!e.isOne (e.normUnit (s1.t.get i jc))) = true then sMulCol e s1 jc (e.normUnit (s1.t.get i jc))
      else Res.ok s1) = .ok s2) :
    φ (e.normUnit (s2.t.get i jc)) = 1 ∧ (φ (s1.t.get i jc) ≠ 0 → φ (s2.t.get i jc) ≠ 0) ∧
      (∀ k lo hi, k ≤ jc.1 → EAinv φ k lo hi s1.t → EAinv φ k lo hi s2.t) := by
  split at h2
  · unfold sMulCol at h2
    split at h2
    · cases h2
    · injection h2 with h2; subst h2
      refine ⟨?_, ?_, ?_⟩
      · simp only [mulCol, get_ofFn, if_pos]
        exact L.norm_mul _
      · intro hp
        rw [mulCol_get L, if_pos rfl]
        exact mul_ne_zero hp (L.normUnit_ne_zero _)
      · intro k lo hi hk hT
        exact EAinv_mulCol L _ _ _ _ _ _ hk hT
  · rename_i hc
    injection h2 with h2; subst h2
    simp only [Bool.not_eq_true', Bool.not_eq_false] at hc
    exact ⟨(L.isOne_iff _).1 hc, fun h => h, fun _ _ _ _ h => h⟩

/-- `eliminate_step(i, j)` keeps the invariant: with a pivot, `i` becomes an isolated non-zero pivot and the zero
columns shift; without one, column `j` is zero -/
theorem eliminateStep_post (dbg : Bool) (fuel : Nat) (s : St α m n) (i : Fin m) (j : Fin n) (hi : i.1 < n)
    (hij : i.1 ≤ j.1) (hT : EAinv φ i.1 i.1 j.1 s.t) :
    (eliminateStep e dbg fuel s i j hi = .ok none → EAinv φ i.1 i.1 (j.1 + 1) s.t) ∧
    (∀ s', eliminateStep e dbg fuel s i j hi = .ok (some s') → EAinv φ (i.1 + 1) (i.1 + 1) (j.1 + 1) s'.t) := by
  have hsel := selectPivot_spec L s.t i.1 j
  unfold eliminateStep
  split
  · rename_i hnone
    refine ⟨fun _ => ?_, fun s' h => by cases h⟩
    refine ⟨hT.off, hT.dia, ?_⟩
    intro r c h1 h2
    by_cases hc : c.1 < j.1
    · exact hT.zc r c h1 hc
    · have : c = j := Fin.ext (by omega)
      subst this
      by_cases hr : i.1 ≤ r.1
      · exact hsel.2 hnone r hr
      · exact hT.off r c (by omega) (Or.inl (by omega))
  · rename_i ip hsome
    have hip := (hsel.1 ip hsome).1
    have hP := EAinv_stepPrep s i ip ⟨i.1, hi⟩ j rfl hip hij hT
    generalize stepPrep s i ip ⟨i.1, hi⟩ j = s1 at hP
    simp only
    split
    · rename_i s2 h2
      obtain ⟨hn2, _, hkeep⟩ := normCol_post L s1 s2 i ⟨i.1, hi⟩ h2
      have hP2 : EAinv φ i.1 (i.1 + 1) (j.1 + 1) s2.t := hkeep _ _ _ (Nat.le_refl _) hP
      split
      · exact ⟨nofun, nofun⟩
      · rename_i hz
        have hpz : φ (s2.t.get i ⟨i.1, hi⟩) ≠ 0 := by
          intro h0; exact hz ((L.isZero_iff _).2 h0)
        split
        · rename_i s3 h3
          refine ⟨nofun, fun s' h => ?_⟩
          injection h with h; injection h with h; subst h
          obtain ⟨f1, f2, _, _, f4, f5⟩ :=
            eliminateAt_post L (frameOK_EAinv L i ⟨i.1, hi⟩ rfl j.1) dbg fuel s2 s3 h3 hP2 hpz hn2
          refine ⟨?_, ?_, f1.zc⟩
          · intro r c hrc hlt
            by_cases hr : r = i
            · subst hr
              exact f4 c (fun h => by subst h; exact hrc rfl)
            · by_cases hc : c = ⟨i.1, hi⟩
              · subst hc; exact f5 r hr
              · have h1 : r.1 ≠ i.1 := fun h => hr (Fin.ext h)
                have h2 : c.1 ≠ i.1 := fun h => hc (Fin.ext h)
                exact f1.off r c hrc (by omega)
          · intro r c hrc hlt
            by_cases hr : r = i
            · subst hr
              have : c = ⟨r.1, hi⟩ := Fin.ext hrc.symm
              subst this; exact f2
            · have h1 : r.1 ≠ i.1 := fun h => hr (Fin.ext h)
              exact f1.dia r c hrc (by omega)
        · exact ⟨nofun, nofun⟩
        · exact ⟨nofun, nofun⟩
    · exact ⟨nofun, nofun⟩
    · exact ⟨nofun, nofun⟩

end elimAll2

/-- what `eliminate_all` establishes -/
def DiagZ (φ : α → K) (T : Mat α m n) : Prop := ∀ (r : Fin m) (c : Fin n), r.1 ≠ c.1 → φ (T.get r c) = 0

/-- the `k`-th diagonal entry through `φ` (`0` outside) -/
def dgz (e : EOps α) (φ : α → K) (T : Mat α m n) (k : Nat) : K := φ (dg e.toROps T k)

/-- the non-zero diagonal entries come first -/
def NzFirst (e : EOps α) (φ : α → K) (T : Mat α m n) : Prop :=
  ∀ k l, k ≤ l → dgz e φ T k = 0 → dgz e φ T l = 0

/-- the state of the `for j` loop of `eliminate_all` before iteration `j` -/
structure AllInv (φ : α → K) (j : Nat) (si : St α m n × Nat) : Prop where
  le_j : si.2 ≤ j
  le_m : si.2 ≤ m
  off : ∀ (r : Fin m) (c : Fin n), r.1 ≠ c.1 → (r.1 < si.2 ∨ c.1 < si.2) → φ (si.1.t.get r c) = 0
  dia : ∀ (r : Fin m) (c : Fin n), r.1 = c.1 → r.1 < si.2 → φ (si.1.t.get r c) ≠ 0
  zc : si.2 < m → ∀ (r : Fin m) (c : Fin n), si.2 ≤ c.1 → c.1 < j → φ (si.1.t.get r c) = 0

section elimAll3
variable (L : LawfulEuc e φ)
include L

theorem allInv_step (dbg : Bool) (fuel : Nat) (j : Fin n) (si si' : St α m n × Nat) (hinv : AllInv φ j.1 si)
    (h : eliminateAllStep e dbg fuel si j = .ok si') : AllInv φ (j.1 + 1) si' := by
  unfold eliminateAllStep at h
  split at h
  · rename_i hc
    have hT : EAinv φ si.2 si.2 j.1 si.1.t := ⟨hinv.off, hinv.dia, hinv.zc hc.1⟩
    have hpost := eliminateStep_post L dbg fuel si.1 ⟨si.2, hc.1⟩ j (Nat.lt_of_le_of_lt hc.2 j.2) hc.2 hT
    split at h
    · rename_i h1
      injection h with h; subst h
      have := hpost.1 h1
      exact ⟨by have := hinv.le_j; omega, hinv.le_m, this.off, this.dia, fun _ => this.zc⟩
    · rename_i s' h1
      injection h with h; subst h
      have := hpost.2 s' h1
      exact ⟨by have := hinv.le_j; simp only; omega, by simp only; omega, this.off, this.dia, fun _ => this.zc⟩
    · cases h
    · cases h
  · rename_i hc
    injection h with h; subst h
    have h1 := hinv.le_j
    have h2 := hinv.le_m
    exact ⟨by omega, h2, hinv.off, hinv.dia, fun hlt => absurd ⟨hlt, h1⟩ hc⟩

/-- **post-condition of `eliminate_all`** (any start state): the target is diagonal and its non-zero diagonal
entries come first -/
theorem eliminateAll_post (dbg : Bool) (fuel : Nat) (s s' : St α m n)
    (h : eliminateAll e dbg fuel s = .ok s') : DiagZ φ s'.t ∧ NzFirst e φ s'.t := by
  unfold eliminateAll at h
  split at h
  · rename_i si h1
    injection h with h; subst h
    have key := foldlM_finRange (eliminateAllStep e dbg fuel) (fun j si => AllInv (m := m) (n := n) φ j si)
      (fun j si si' hp hf => allInv_step L dbg fuel j si si' hp hf) (s, 0) si
      ⟨Nat.le_refl _, Nat.zero_le _, fun r c _ h => by simp at h, fun r c _ h => by simp at h,
        fun _ r c _ h => by simp at h⟩ h1
    constructor
    · intro r c hrc
      by_cases hlt : r.1 < si.2 ∨ c.1 < si.2
      · exact key.off r c hrc hlt
      · exact key.zc (by omega) r c (by omega) c.2
    · intro k l hkl hk
      unfold dgz dg at hk ⊢
      split
      · rename_i hl
        rw [dif_pos ⟨by omega, by omega⟩] at hk
        have hki : ¬ k < si.2 := fun hlt => key.dia ⟨k, by omega⟩ ⟨k, by omega⟩ rfl hlt hk
        exact key.zc (by omega) _ _ (by simp only; omega) hl.2
      · exact L.phi_zero
  · cases h
  · cases h

end elimAll3

end Yuiv.C09.Euc
