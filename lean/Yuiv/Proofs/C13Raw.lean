import Yuiv.Proofs.C13
/-
C13 — part 5: the raw CSC arrays: `disassemble` / `try_from_csc_data`, `extend_cols`, `from_col_vecs`,
`SpVec::from_sorted_entries`.
-/
namespace Yuiv.C13
open Yuiv Res

set_option linter.unusedSectionVars false
set_option linter.unusedSimpArgs false
set_option linter.unusedVariables false

variable {R : Type} [CommRing R] [DecidableEq R]

/-! ### offsets -/

theorem offsetsFrom_eq_cons (s : Nat) (cs : List (List (Nat × R))) :
    offsetsFrom s cs = s :: (offsetsFrom s cs).tail := by
  cases cs <;> rfl

theorem offsetsFrom_length (s : Nat) (cs : List (List (Nat × R))) : (offsetsFrom s cs).length = cs.length + 1 := by
  induction cs generalizing s with
  | nil => rfl
  | cons c cs ih => simp [offsetsFrom, ih]

theorem offsetsFrom_getLast (s : Nat) (cs : List (List (Nat × R))) :
    (offsetsFrom s cs).getLast? = some (s + cs.flatten.length) := by
  induction cs generalizing s with
  | nil => simp [offsetsFrom]
  | cons c cs ih =>
    rw [offsetsFrom, offsetsFrom_eq_cons, List.getLast?_cons_cons, ← offsetsFrom_eq_cons, ih]
    simp [Nat.add_assoc]

theorem offsetsFrom_monotone (s : Nat) (cs : List (List (Nat × R))) : monotone (offsetsFrom s cs) = true := by
  induction cs generalizing s with
  | nil => rfl
  | cons c cs ih =>
    rw [offsetsFrom, offsetsFrom_eq_cons, monotone, ← offsetsFrom_eq_cons, ih]
    simp

theorem offsetsFrom_append (s : Nat) (as bs : List (List (Nat × R))) :
    offsetsFrom s (as ++ bs) = (offsetsFrom s as).dropLast ++ offsetsFrom (s + as.flatten.length) bs := by
  induction as generalizing s with
  | nil => simp [offsetsFrom]
  | cons a as ih =>
    rw [List.cons_append, offsetsFrom, ih, offsetsFrom]
    rw [offsetsFrom_eq_cons (s + a.length) as, List.dropLast_cons₂, ← offsetsFrom_eq_cons]
    simp [Nat.add_assoc]

theorem offsetsFrom_map_add (k s : Nat) (cs : List (List (Nat × R))) :
    (offsetsFrom s cs).map (fun i => k + i) = offsetsFrom (k + s) cs := by
  induction cs generalizing s with
  | nil => rfl
  | cons c cs ih => simp [offsetsFrom, ih, Nat.add_assoc]

/-! ### lanes -/

theorem splitLanes_offsets {α : Type} (lens : List (List α)) (offs : Nat → List (List α) → List Nat)
    (h0 : ∀ s, offs s [] = [s]) (h1 : ∀ s c cs, offs s (c :: cs) = s :: offs (s + c.length) cs)
    (pre post : List α) :
    splitLanes (pre ++ (lens.flatten ++ post)) (offs pre.length lens) = lens := by
  induction lens generalizing pre with
  | nil => rw [h0]; rfl
  | cons c cs ih =>
    rw [h1]
    have hc : offs (pre.length + c.length) cs = (pre.length + c.length) :: (offs (pre.length + c.length) cs).tail := by
      cases cs with
      | nil => rw [h0]; rfl
      | cons d ds => rw [h1]; rfl
    rw [hc, splitLanes, ← hc]
    have e1 : ((pre ++ ((c :: cs).flatten ++ post)).drop pre.length).take (pre.length + c.length - pre.length) = c := by
      rw [List.drop_left' rfl]
      simp
    rw [e1]
    have e2 : pre ++ ((c :: cs).flatten ++ post) = (pre ++ c) ++ (cs.flatten ++ post) := by simp
    have := ih (pre ++ c)
    rw [List.length_append] at this
    rw [e2, this]

theorem splitLanes_disassemble (cs : List (List (Nat × R))) :
    splitLanes cs.flatten (offsetsFrom 0 cs) = cs := by
  have := splitLanes_offsets cs (fun s l => offsetsFrom s l) (fun s => rfl) (fun s c cs => rfl) [] []
  simpa using this

theorem splitLanes_map {α β : Type} (f : α → β) (xs : List α) (offs : List Nat) :
    splitLanes (xs.map f) offs = (splitLanes xs offs).map (List.map f) := by
  induction offs with
  | nil => rfl
  | cons a rest ih =>
    cases rest with
    | nil => rfl
    | cons b rest' =>
      simp only [splitLanes, List.map_cons] at ih ⊢
      rw [ih]
      simp [List.map_take, List.map_drop]

theorem zip_fst_snd {α β : Type} (l : List (α × β)) : (l.map (·.1)).zip (l.map (·.2)) = l := by
  induction l with
  | nil => rfl
  | cons p l ih => simp [ih]

theorem strictInc_of_pairwise (l : List Nat) (h : l.Pairwise (· < ·)) : strictInc l = true := by
  induction l with
  | nil => rfl
  | cons a l ih =>
    cases l with
    | nil => rfl
    | cons b l' =>
      rw [strictInc]
      have h' := List.pairwise_cons.mp h
      simp [h'.1 b (by simp), ih h'.2]

/-- `try_from_csc_data` accepts the arrays of well-formed columns and rebuilds exactly these columns -/
theorem tryFromCsc_cols (m : Nat) (cs : List (List (Nat × R)))
    (hb : ∀ c ∈ cs, ∀ p ∈ c, p.1 < m) (hs : ∀ c ∈ cs, (c.map (·.1)).Pairwise (· < ·)) :
    tryFromCsc m cs.length (offsetsFrom 0 cs) (cs.flatten.map (·.1)) (cs.flatten.map (·.2)) = ok ⟨m, cs.length, cs⟩ := by
  unfold tryFromCsc
  rw [if_pos, zip_fst_snd, splitLanes_disassemble]
  refine ⟨offsetsFrom_length 0 cs, by rw [offsetsFrom_eq_cons]; rfl, ?_, offsetsFrom_monotone 0 cs,
    by rw [List.length_map, List.length_map], ?_⟩
  · rw [offsetsFrom_getLast, List.length_map, Nat.zero_add]
  · rw [splitLanes_map, splitLanes_disassemble, List.all_eq_true]
    intro l hl
    simp only [List.mem_map] at hl
    obtain ⟨c, hc, rfl⟩ := hl
    rw [Bool.and_eq_true, List.all_eq_true]
    refine ⟨?_, strictInc_of_pairwise _ (hs c hc)⟩
    intro x hx
    simp only [List.mem_map] at hx
    obtain ⟨p, hp, rfl⟩ := hx
    simpa using hb c hc p hp

/-! ### `extend_cols` -/

/-- `extend_cols`: the popped last offset plus the shifted offsets of `b` are the offsets of the
concatenated columns; the result has exactly the columns of `self` followed by those of `b` -/
theorem extendCols_spec (A B : SpMat R) (hA : A.WF) (hB : B.WF) (h : A.nrows = B.nrows) :
    A.extendCols B = ok ⟨A.nrows, A.ncols + B.ncols, A.cols ++ B.cols⟩ := by
  unfold SpMat.extendCols
  rw [assert_true' (by simp [h])]
  simp only [bind_ok]
  by_cases h0 : B.ncols = 0
  · rw [if_pos h0]
    have : B.cols = [] := List.length_eq_zero_iff.mp (by rw [hB.len, h0])
    rw [this, h0]; simp
  · rw [if_neg h0]
    simp only [SpMat.disassemble, offsetsFrom_getLast, Nat.zero_add]
    have e1 : (offsetsFrom 0 A.cols).dropLast ++ (offsetsFrom 0 B.cols).map (fun i => A.cols.flatten.length + i)
        = offsetsFrom 0 (A.cols ++ B.cols) := by
      rw [offsetsFrom_append, offsetsFrom_map_add]; simp
    rw [e1, ← List.map_append, ← List.map_append, ← List.flatten_append]
    have := tryFromCsc_cols A.nrows (A.cols ++ B.cols)
      (by intro c hc p hp
          rcases List.mem_append.mp hc with hc | hc
          · exact hA.bound c hc p hp
          · rw [h]; exact hB.bound c hc p hp)
      (by intro c hc
          rcases List.mem_append.mp hc with hc | hc
          · exact hA.sorted c hc
          · exact hB.sorted c hc)
    rw [List.length_append, hA.len, hB.len] at this
    exact this

theorem extendCols_reject (A B : SpMat R) (h : A.nrows ≠ B.nrows) : A.extendCols B = panic := by
  unfold SpMat.extendCols
  rw [assert_false' (by simp [h])]; rfl

theorem entry_append_cols (m n : Nat) (as bs : List (List (Nat × R))) (i j : Nat) :
    (⟨m, n, as ++ bs⟩ : SpMat R).entry i j
      = if j < as.length then (⟨m, as.length, as⟩ : SpMat R).entry i j
        else (⟨m, bs.length, bs⟩ : SpMat R).entry i (j - as.length) := by
  unfold SpMat.entry
  simp only [List.getD_eq_getElem?_getD]
  by_cases hj : j < as.length
  · rw [if_pos hj, List.getElem?_append_left hj]
  · rw [if_neg hj, List.getElem?_append_right (by omega)]

/-- entries after `extend_cols`: `[A B]` -/
theorem extendCols_entry (A B : SpMat R) (hA : A.WF) (hB : B.WF) (i j : Nat) :
    (⟨A.nrows, A.ncols + B.ncols, A.cols ++ B.cols⟩ : SpMat R).entry i j
      = if j < A.ncols then A.entry i j else B.entry i (j - A.ncols) := by
  rw [entry_append_cols, hA.len]; rfl

theorem extendCols_wf (A B : SpMat R) (hA : A.WF) (hB : B.WF) (h : A.nrows = B.nrows) :
    (⟨A.nrows, A.ncols + B.ncols, A.cols ++ B.cols⟩ : SpMat R).WF := by
  refine ⟨by simp [hA.len, hB.len], ?_, ?_⟩
  · intro c hc p hp
    rcases List.mem_append.mp hc with hc | hc
    · exact hA.bound c hc p hp
    · show p.1 < A.nrows; rw [h]; exact hB.bound c hc p hp
  · intro c hc
    rcases List.mem_append.mp hc with hc | hc
    · exact hA.sorted c hc
    · exact hB.sorted c hc

/-! ### `from_col_vecs` -/

theorem fromColVecs_fold (vs : List (SpVec R)) (offs rows : List Nat) (vals : List R) :
    vs.foldl (fun (acc : List Nat × List Nat × List R) v =>
        let rows := acc.2.1 ++ v.ents.map (·.1)
        (acc.1 ++ [rows.length], rows, acc.2.2 ++ v.ents.map (·.2))) (offs, rows, vals)
      = (offs ++ (offsetsFrom rows.length (vs.map (·.ents))).tail,
         rows ++ (vs.map (·.ents)).flatten.map (·.1), vals ++ (vs.map (·.ents)).flatten.map (·.2)) := by
  induction vs generalizing offs rows vals with
  | nil => simp [offsetsFrom]
  | cons v vs ih =>
    rw [List.foldl_cons, ih]
    simp only [List.map_cons, offsetsFrom, List.tail_cons, List.flatten_cons, List.map_append, List.length_append,
      List.length_map, List.append_assoc, List.singleton_append]
    rw [← offsetsFrom_eq_cons]

/-- `from_col_vecs(nrows, vecs)`: the matrix whose `j`-th column holds the stored entries of the `j`-th vector -/
theorem fromColVecs_spec (m : Nat) (vs : List (SpVec R)) (hv : ∀ v ∈ vs, v.WF ∧ v.dim = m) :
    fromColVecs m vs = ok ⟨m, vs.length, vs.map (·.ents)⟩ := by
  unfold fromColVecs
  rw [assert_true' (by rw [List.all_eq_true]; intro v hv'; simp [(hv v hv').2])]
  simp only [bind_ok]
  rw [fromColVecs_fold]
  simp only [List.nil_append, List.length_nil]
  have e : [0] ++ (offsetsFrom 0 (vs.map (·.ents))).tail = offsetsFrom 0 (vs.map (·.ents)) := by
    rw [offsetsFrom_eq_cons 0]; rfl
  rw [e, offsetsFrom_length]
  have := tryFromCsc_cols m (vs.map (·.ents))
    (by intro c hc p hp
        simp only [List.mem_map] at hc
        obtain ⟨v, hv', rfl⟩ := hc
        have := (hv v hv').1.bound v.ents (by simp [SpVec.toMat]) p hp
        simpa [SpVec.toMat, (hv v hv').2] using this)
    (by intro c hc
        simp only [List.mem_map] at hc
        obtain ⟨v, hv', rfl⟩ := hc
        exact (hv v hv').1.sorted v.ents (by simp [SpVec.toMat]))
  simpa using this

theorem fromColVecs_reject (m : Nat) (vs : List (SpVec R)) (h : ∃ v ∈ vs, v.dim ≠ m) : fromColVecs m vs = panic := by
  unfold fromColVecs
  rw [assert_false' (by
    rw [List.all_eq_false]
    obtain ⟨v, hv, hd⟩ := h
    exact ⟨v, hv, by simpa using fun e => hd e.symm⟩)]
  rfl

/-- the `j`-th column of `from_col_vecs` is the `j`-th vector -/
theorem fromColVecs_entry (m : Nat) (vs : List (SpVec R)) (i j : Nat) (hj : j < vs.length) :
    (⟨m, vs.length, vs.map (·.ents)⟩ : SpMat R).entry i j = (vs[j]).entry i := by
  unfold SpMat.entry SpVec.entry
  simp [List.getD_eq_getElem?_getD, hj]

/-! ### `SpVec::from_sorted_entries` -/

theorem fromSortedEntries_spec (d : Nat) (es : List (Nat × R))
    (hb : ∀ p ∈ es, p.1 < d) (hs : (es.map (·.1)).Pairwise (· < ·)) :
    SpVec.fromSortedEntries d es = ok ⟨d, es⟩ ∧ (⟨d, es⟩ : SpVec R).WF := by
  have hwf : (⟨d, es⟩ : SpVec R).WF := by
    refine ⟨rfl, ?_, ?_⟩
    · intro c hc p hp; simp only [SpVec.toMat, List.mem_singleton] at hc; subst hc; exact hb p hp
    · intro c hc; simp only [SpVec.toMat, List.mem_singleton] at hc; subst hc; exact hs
  refine ⟨?_, hwf⟩
  unfold SpVec.fromSortedEntries SpVec.fromRawData
  rw [assert_true' (by rw [List.all_eq_true]; intro p hp; simpa using hb p hp)]
  simp only [bind_ok]
  have := tryFromCsc_cols d [es] (by intro c hc p hp; simp at hc; subst hc; exact hb p hp)
    (by intro c hc; simp at hc; subst hc; exact hs)
  simp only [offsetsFrom, List.flatten_cons, List.flatten_nil, List.append_nil, List.length_cons, List.length_nil,
    Nat.zero_add] at this
  rw [List.length_map, this]
  rfl

/-- unsorted, repeated or out-of-range indices are rejected (never a corrupt vector) -/
theorem fromSortedEntries_reject (d : Nat) (es : List (Nat × R))
    (h : ¬ ((∀ p ∈ es, p.1 < d) ∧ strictInc (es.map (·.1)) = true)) : SpVec.fromSortedEntries d es = panic := by
  unfold SpVec.fromSortedEntries SpVec.fromRawData
  by_cases hb : ∀ p ∈ es, p.1 < d
  · rw [assert_true' (by rw [List.all_eq_true]; intro p hp; simpa using hb p hp)]
    simp only [bind_ok]
    have hs : ¬ strictInc (es.map (·.1)) = true := fun e => h ⟨hb, e⟩
    unfold tryFromCsc
    rw [if_neg]
    · rfl
    · rintro ⟨_, _, _, _, _, h6⟩
      apply hs
      simp only [splitLanes, List.drop_zero, Nat.sub_zero, List.all_cons, List.all_nil, Bool.and_true,
        Bool.and_eq_true] at h6
      rw [List.take_of_length_le (by simp)] at h6
      exact h6.2
  · rw [assert_false' (by
      rw [List.all_eq_false]
      simp only [not_forall] at hb
      obtain ⟨p, hp, hlt⟩ := hb
      exact ⟨p, hp, by simpa using hlt⟩)]
    rfl

end Yuiv.C13
