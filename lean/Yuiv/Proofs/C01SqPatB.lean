import Yuiv.Proofs.C01SqDefs
import Mathlib.Tactic.Ring
import Mathlib.Tactic.Linarith
/-
C01Sq, pattern B — FACE COMMUTATION at the level of circle names (`pathF`), for arbitrary `h t : Int`:

  * `face_frob` : a merge and a split sharing one circle (Frobenius law  Δ(x·y) = Σ (x'·y) ⊗ x'');
  * `face_11`   : one circle split in two different ways and re-merged (both paths are `m ∘ Δ`);
  * `face_same` : the path functional depends on the intermediate circle list only through membership.

Helper lemmas: `compatB_iffB` (the Boolean compatibility test as a statement about names), `ecoef_eq`.
-/
namespace Yuiv.C01Sq
open Yuiv Yuiv.KhRef Yuiv.C02Mirror

/-- `compatB` says: `f'` agrees with `f` on the names common to `cs` and `cs'` -/
theorem compatB_iffB (cs cs' : Circ) (f f' : Name → Bool) :
    compatB cs cs' f f' = true ↔ ∀ c ∈ cs, c ∈ cs' → f' c = f c := by
  unfold compatB
  rw [Array.all_eq_true_iff_forall_mem]
  constructor
  · intro H c hc hc'
    have := H c hc
    simpa [Array.contains_iff_mem, hc'] using this
  · intro H c hc
    by_cases hc' : c ∈ cs'
    · simp [H c hc hc']
    · simp [hc']

/-- `compatB` depends on the first list only through membership -/
theorem compatB_congr_left (cs1 cs2 cs' : Circ) (hmem : ∀ c, c ∈ cs1 ↔ c ∈ cs2) (f f' : Name → Bool) :
    compatB cs1 cs' f f' = compatB cs2 cs' f f' := by
  rw [Bool.eq_iff_iff, compatB_iffB, compatB_iffB]
  constructor
  · intro H c hc; exact H c ((hmem c).2 hc)
  · intro H c hc; exact H c ((hmem c).1 hc)

theorem ecoef_eq (h t : Int) (cs cs' : Circ) (e : Edge) (f f' : Name → Bool)
    [Decidable (∀ c ∈ cs, c ∈ cs' → f' c = f c)] :
    ecoef h t cs cs' e f f' = if (∀ c ∈ cs, c ∈ cs' → f' c = f c) then loc h t e f f' else 0 := by
  unfold ecoef
  by_cases hc : ∀ c ∈ cs, c ∈ cs' → f' c = f c
  · rw [if_pos hc, if_pos ((compatB_iffB cs cs' f f').2 hc)]
  · rw [if_neg hc, if_neg (fun h' => hc ((compatB_iffB cs cs' f f').1 h'))]

set_option linter.unnecessarySeqFocus false in
/-- the Frobenius law for the structure constants -/
theorem frob_coef (h t : Int) (a b u v : Bool) :
    prodCoef h t a b true * coprodCoef h t true u v + prodCoef h t a b false * coprodCoef h t false u v =
      coprodCoef h t a true v * prodCoef h t true b u + coprodCoef h t a false v * prodCoef h t false b u := by
  cases a <;> cases b <;> cases u <;> cases v <;> simp [prodCoef, coprodCoef, prod, coprod] <;> ring

/-- FROBENIUS face: a merges C1, C2 ↦ P; b splits C1 ↦ D1, D2; then b splits P ↦ F, D2, resp. a merges
D1, C2 ↦ F  (Δ(x·y) = Σ (x'·y) ⊗ x'') -/
theorem face_frob (h t : Int) (cs00 cs10 cs01 cs11 : Circ) (C1 C2 P D1 D2 F : Name)
    (ha0 : IsEdge cs00 cs10 (.merge C1 C2 P)) (hb0 : IsEdge cs00 cs01 (.split C1 D1 D2))
    (hb1 : IsEdge cs10 cs11 (.split P F D2)) (ha1 : IsEdge cs01 cs11 (.merge D1 C2 F)) (f f'' : Name → Bool) :
    pathF h t cs10 cs11 (.merge C1 C2 P) (.split P F D2) f f'' =
      pathF h t cs01 cs11 (.split C1 D1 D2) (.merge D1 C2 F) f f'' := by
  classical
  have ha0' : MergeRel cs00 cs10 C1 C2 P := ha0
  have hb0' : MergeRel cs01 cs00 D1 D2 C1 := hb0
  have hb1' : MergeRel cs11 cs10 F D2 P := hb1
  have ha1' : MergeRel cs01 cs11 D1 C2 F := ha1
  -- name facts
  have hD12 : D1 ≠ D2 := hb0'.ne
  have hD2_00 : D2 ∉ cs00 := by
    intro hm
    rcases (hb0'.mem D2).1 hm with e | ⟨_, _, e⟩
    · exact hb0'.nb (e ▸ hb0'.m1)
    · exact e rfl
  have hC2D1 : C2 ≠ D1 := ha1'.ne.symm
  have hC2D2 : C2 ≠ D2 := fun e => hD2_00 (e ▸ ha0'.m1)
  have hD2_01 : D2 ∈ cs01 := hb0'.m1
  have hD2_11 : D2 ∈ cs11 := hb1'.m1
  -- common names of cs10, cs11 and of cs01, cs11
  have common : ∀ c, (c ∈ cs10 ∧ c ∈ cs11) ↔ (c ∈ cs01 ∧ c ∈ cs11 ∧ c ≠ D2) := by
    intro c
    constructor
    · rintro ⟨h10, h11⟩
      have hP : c ≠ P := fun e => hb1'.nb (e ▸ h11)
      rcases (hb1'.mem c).1 h10 with e | ⟨_, hF, hD2⟩
      · exact absurd e hP
      · rcases (ha1'.mem c).1 h11 with e | ⟨h01, _, _⟩
        · exact absurd e hF
        · exact ⟨h01, h11, hD2⟩
    · rintro ⟨h01, h11, hD2⟩
      have hF : c ≠ F := fun e => ha1'.nb (e ▸ h01)
      exact ⟨(hb1'.mem c).2 (Or.inr ⟨h11, hF, hD2⟩), h11⟩
  have common_ne : ∀ c, c ∈ cs01 → c ∈ cs11 → c ≠ D1 := by
    intro c h01 h11
    rcases (ha1'.mem c).1 h11 with e | ⟨_, h1, _⟩
    · exact absurd (e ▸ h01) ha1'.nb
    · exact h1
  -- the compatibility conditions
  let K : Prop := ∀ c ∈ cs10, c ∈ cs11 → f'' c = f c
  have condL : ∀ y, (∀ c ∈ cs10, c ∈ cs11 → f'' c = ov f P y c) ↔ K := by
    intro y
    have hov : ∀ c, c ∈ cs11 → ov f P y c = f c := by
      intro c h11
      have hP : c ≠ P := fun e => hb1'.nb (e ▸ h11)
      simp [ov, hP]
    constructor
    · intro H c h10 h11; rw [H c h10 h11, hov c h11]
    · intro H c h10 h11; rw [H c h10 h11, hov c h11]
  have condR : ∀ y1 y2, (∀ c ∈ cs01, c ∈ cs11 → f'' c = ov (ov f D1 y1) D2 y2 c) ↔ (K ∧ f'' D2 = y2) := by
    intro y1 y2
    constructor
    · intro H
      refine ⟨?_, ?_⟩
      · intro c h10 h11
        obtain ⟨h01, _, hD2⟩ := (common c).1 ⟨h10, h11⟩
        have hD1 := common_ne c h01 h11
        rw [H c h01 h11]; simp [ov, hD1, hD2]
      · rw [H D2 hD2_01 hD2_11]; simp [ov]
    · rintro ⟨H, hy⟩ c h01 h11
      by_cases hD2 : c = D2
      · subst hD2; simp [ov, hy]
      · have hD1 := common_ne c h01 h11
        obtain ⟨h10, _⟩ := (common c).2 ⟨h01, h11, hD2⟩
        rw [H c h10 h11]; simp [ov, hD1, hD2]
  have gD1 : ∀ y1 y2, ov (ov f D1 y1) D2 y2 D1 = y1 := by intro y1 y2; simp [ov, hD12]
  have gC2 : ∀ y1 y2, ov (ov f D1 y1) D2 y2 C2 = f C2 := by intro y1 y2; simp [ov, hC2D1, hC2D2]
  have gP : ∀ y, ov f P y P = y := by intro y; simp [ov]
  simp only [pathF, List.map, List.flatMap_cons, List.flatMap_nil, List.append_nil, List.cons_append,
    List.nil_append, List.sum_cons, List.sum_nil, ecoef_eq, condL, condR, loc, gD1, gC2, gP]
  have key := frob_coef h t (f C1) (f C2) (f'' F) (f'' D2)
  generalize f C1 = a at key ⊢
  generalize f C2 = b at key ⊢
  generalize f'' F = u at key ⊢
  generalize f'' D2 = v at key ⊢
  by_cases hK : K
  · cases v <;> simp [hK] at key ⊢ <;> linarith
  · simp [hK]

/-- GENUS face: one circle R is split by a into P1, P2 and by b into Q1, Q2; then b merges P1, P2 ↦ R', resp. a
merges Q1, Q2 ↦ R' (both paths are m ∘ Δ) -/
theorem face_11 (h t : Int) (cs00 cs10 cs01 cs11 : Circ) (R P1 P2 Q1 Q2 R' : Name)
    (ha0 : IsEdge cs00 cs10 (.split R P1 P2)) (hb0 : IsEdge cs00 cs01 (.split R Q1 Q2))
    (hb1 : IsEdge cs10 cs11 (.merge P1 P2 R')) (ha1 : IsEdge cs01 cs11 (.merge Q1 Q2 R')) (f f'' : Name → Bool) :
    pathF h t cs10 cs11 (.split R P1 P2) (.merge P1 P2 R') f f'' =
      pathF h t cs01 cs11 (.split R Q1 Q2) (.merge Q1 Q2 R') f f'' := by
  classical
  let K : Prop := ∀ c ∈ cs00, c ≠ R → f'' c = f c
  -- one side, generically
  have side : ∀ (cs1 : Circ) (S1 S2 : Name), MergeRel cs1 cs00 S1 S2 R → MergeRel cs1 cs11 S1 S2 R' →
      pathF h t cs1 cs11 (.split R S1 S2) (.merge S1 S2 R') f f'' =
        if K then
          coprodCoef h t (f R) true true * prodCoef h t true true (f'' R') +
          (coprodCoef h t (f R) true false * prodCoef h t true false (f'' R') +
          (coprodCoef h t (f R) false true * prodCoef h t false true (f'' R') +
          (coprodCoef h t (f R) false false * prodCoef h t false false (f'' R') + 0)))
        else 0 := by
    intro cs1 S1 S2 h0 h1
    have hS12 : S1 ≠ S2 := h0.ne
    have cond : ∀ y1 y2, (∀ c ∈ cs1, c ∈ cs11 → f'' c = ov (ov f S1 y1) S2 y2 c) ↔ K := by
      intro y1 y2
      constructor
      · intro H c h00 hR
        rcases (h0.mem c).1 h00 with e | ⟨hc1, hS1, hS2⟩
        · exact absurd e hR
        · have h11 : c ∈ cs11 := (h1.mem c).2 (Or.inr ⟨hc1, hS1, hS2⟩)
          rw [H c hc1 h11]; simp [ov, hS1, hS2]
      · intro H c hc1 h11
        have hR' : c ≠ R' := fun e => h1.nb (e ▸ hc1)
        have hR : c ≠ R := fun e => h0.nb (e ▸ hc1)
        rcases (h1.mem c).1 h11 with e | ⟨_, hS1, hS2⟩
        · exact absurd e hR'
        · have h00 : c ∈ cs00 := (h0.mem c).2 (Or.inr ⟨hc1, hS1, hS2⟩)
          rw [H c h00 hR]; simp [ov, hS1, hS2]
    have g1 : ∀ y1 y2, ov (ov f S1 y1) S2 y2 S1 = y1 := by intro y1 y2; simp [ov, hS12]
    have g2 : ∀ y1 y2, ov (ov f S1 y1) S2 y2 S2 = y2 := by intro y1 y2; simp [ov]
    simp only [pathF, List.map, List.flatMap_cons, List.flatMap_nil, List.append_nil, List.cons_append,
      List.nil_append, List.sum_cons, List.sum_nil, ecoef_eq, cond, loc, g1, g2]
    by_cases hK : K
    · simp only [if_pos hK]
    · simp only [if_neg hK, mul_zero, add_zero]
  rw [side cs10 P1 P2 ha0 hb1, side cs01 Q1 Q2 hb0 ha1]

/-- the two intermediate states have the same circles (e.g. a and b merge the same two circles): the path
functional depends on the intermediate list only through membership -/
theorem face_same (h t : Int) (cs10 cs01 cs11 : Circ) (e1 e2 : Edge) (hmem : ∀ c, c ∈ cs10 ↔ c ∈ cs01)
    (f f'' : Name → Bool) :
    pathF h t cs10 cs11 e1 e2 f f'' = pathF h t cs01 cs11 e1 e2 f f'' := by
  have hE : ∀ g, ecoef h t cs10 cs11 e2 g f'' = ecoef h t cs01 cs11 e2 g f'' := by
    intro g
    unfold ecoef
    rw [compatB_congr_left cs10 cs01 cs11 hmem]
  cases e1 <;> simp only [pathF, hE]

end Yuiv.C01Sq
