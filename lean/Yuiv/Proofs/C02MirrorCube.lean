import Yuiv.Proofs.C04InvModel
import Yuiv.Proofs.C01
/-
C02Mirror, part B (helper): the imperative `KhRef.Cube.d` (nested `for` loops over the cube edges, the common
circles and the table rows, with an early `return none`) equals, for ALL inputs of the unreduced theory
(`c.base = none`), the loop-free functional form `dF`:

    dF c p g = foldlM over k < c.n:  bit k of g.s clear ⇒ append  sign(g.s,k) • edgeTerms h t circ[s] circ[s|2^k] mask

`edgeTerms h t cs cs' mask` is the unsigned edge map between two circle lists (merge: `prod`, split: `coprod`,
`none` if the lists do not differ by one merge/split); it depends on the two circle lists only.
-/
namespace Yuiv.C02Mirror
open Yuiv Yuiv.KhRef

def carry (cs cs' : Array (Array Nat)) (mask : Nat) : Nat :=
  (List.range' 0 cs.size).foldl (fun m0 i =>
    if cs'.contains cs[i]! then setBit m0 ((cs'.findIdx? (· == cs[i]!)).getD 0) (mask.testBit i) else m0) 0

def goneOf (cs cs' : Array (Array Nat)) : Array Nat :=
  (Array.range cs.size).filter (fun i => !cs'.contains cs[i]!)

/-- the (unsigned) edge map `cs → cs'` on a labelling `mask` of `cs`: target labellings with coefficients;
`none` if the two circle lists do not differ by one merge or one split -/
def edgeTerms (h t : Int) (cs cs' : Array (Array Nat)) (mask : Nat) : Option (List (Nat × Int)) :=
  let gone := goneOf cs cs'
  let born := goneOf cs' cs
  let m0 := carry cs cs' mask
  if gone.size == 2 && born.size == 1 then
    some ((prod h t (mask.testBit gone[0]!) (mask.testBit gone[1]!)).filterMap
      (fun (ya : Bool × Int) => if ya.2 != 0 then some (setBit m0 born[0]! ya.1, ya.2) else none))
  else if gone.size == 1 && born.size == 2 then
    some ((coprod h t (mask.testBit gone[0]!)).filterMap
      (fun (ya : Bool × Bool × Int) => if ya.2.2 != 0 then some (setBit (setBit m0 born[0]! ya.1) born[1]! ya.2.1, ya.2.2) else none))
  else none

def dStep (c : Cube) (p : Params) (g : Gen) (out : Array Term) (k : Nat) : Option (Array Term) :=
  if !g.s.testBit k then
    match edgeTerms p.h p.t c.circ[g.s]! c.circ[g.s ||| 1 <<< k]! g.mask with
    | none => none
    | some ts => some (out ++ (ts.map (fun mt => ((⟨g.s ||| 1 <<< k, mt.1⟩ : Gen), edgeSign g.s k * mt.2))).toArray)
  else some out

def dF (c : Cube) (p : Params) (g : Gen) : Option (Array Term) :=
  (List.range' 0 c.n).foldlM (dStep c p g) #[]

def stepOut {β : Type} (s : β) : Option β → ForInStep (Option (Option β) × β)
  | some o => ForInStep.yield (none, o)
  | none => ForInStep.done (some none, s)

def optOut {β : Type} (s : Option (Option β) × β) : Option β :=
  match s.1 with
  | some r => r
  | none => some s.2

theorem forIn_opt {β : Type} (f : β → Nat → Option β)
    (body : Nat → Option (Option β) × β → Id (ForInStep (Option (Option β) × β)))
    (hb : ∀ k s, body k s = stepOut s.2 (f s.2 k)) (xs : List Nat) (out : β) :
    optOut (forIn (m := Id) xs (none, out) body) = xs.foldlM f out := by
  induction xs generalizing out with
  | nil => rfl
  | cons x xs ih =>
    rw [List.forIn_cons, List.foldlM_cons, hb]
    cases h : f out x with
    | none => rfl
    | some o => exact ih o

theorem push_loop {α β : Type} (xs : List α) (q : α → Bool) (f : α → β) (mk : β → Term) (out : Array Term) :
    (forIn (m := Id) xs out (fun x out => if q x = true then pure (ForInStep.yield (out.push (mk (f x))))
        else pure (ForInStep.yield out)))
      = out ++ ((xs.filterMap (fun x => if q x then some (f x) else none)).map mk).toArray := by
  induction xs generalizing out with
  | nil => simp; rfl
  | cons x xs ih =>
    rw [List.forIn_cons]
    by_cases h : q x = true
    · simp only [h, if_true, List.filterMap_cons]
      show forIn xs (out.push (mk (f x))) _ = _
      rw [ih]; simp
    · simp only [h, List.filterMap_cons]
      show forIn xs out _ = _
      rw [ih]; simp

abbrev DS := Option (Option (Array Term)) × Array Term

def dBody (c : Cube) (p : Params) (g : Gen) (k : Nat) (st : DS) : Id (ForInStep DS) := do
  let out := st.2
  let cs := c.circ[g.s]!
  if !g.s.testBit k then
    let s' := g.s ||| (1 <<< k)
    let cs' := c.circ[s']!
    let sign : Int := edgeSign g.s k
    let gone := (Array.range cs.size).filter (fun i => !cs'.contains cs[i]!)
    let born := (Array.range cs'.size).filter (fun i => !cs.contains cs'[i]!)
    let mut m0 := 0
    for i in [0:cs.size] do
      if cs'.contains cs[i]! then
        let i' := (cs'.findIdx? (· == cs[i]!)).getD 0
        m0 := setBit m0 i' (g.mask.testBit i)
    if gone.size == 2 && born.size == 1 then
      let mut out := out
      for (y, a) in prod p.h p.t (g.mask.testBit gone[0]!) (g.mask.testBit gone[1]!) do
        if a != 0 then out := out.push (⟨s', setBit m0 born[0]! y⟩, sign * a)
      pure (ForInStep.yield (none, out))
    else if gone.size == 1 && born.size == 2 then
      let mut out := out
      for (y1, y2, a) in coprod p.h p.t (g.mask.testBit gone[0]!) do
        if a != 0 then out := out.push (⟨s', setBit (setBit m0 born[0]! y1) born[1]! y2⟩, sign * a)
      pure (ForInStep.yield (none, out))
    else pure (ForInStep.done (some none, out))
  else pure (ForInStep.yield (none, out))

def dM (c : Cube) (p : Params) (g : Gen) : Option (Array Term) := Id.run do
  let s ← forIn [:c.n] ((none, #[]) : DS) (dBody c p g)
  match s.1 with
  | some r => pure r
  | none =>
    match c.base with
    | none => pure (some s.2)
    | some _ =>
      pure (some (s.2.filter (fun (y, _) => match c.baseCircle y.s with
        | some b => y.mask.testBit b
        | none => true)))

theorem d_eqM0 (c : Cube) (p : Params) (g : Gen) : c.d p g = dM c p g := by
  unfold Cube.d dM
  show Id.run (forIn [:c.n] _ _ >>= _) = Id.run (forIn [:c.n] _ _ >>= _)
  congr 2
  funext s
  obtain ⟨a, b⟩ := s
  cases a
  · cases hb : c.base <;> rfl
  · rfl

theorem d_eqM (c : Cube) (p : Params) (g : Gen) (hb : c.base = none) :
    c.d p g = optOut (forIn (m := Id) [:c.n] ((none, #[]) : DS) (dBody c p g)) := by
  rw [d_eqM0]
  unfold dM
  simp only [hb]
  generalize (forIn (m := Id) [:c.n] ((none, #[]) : DS) (dBody c p g)) = s
  obtain ⟨a, b⟩ := s
  cases a <;> rfl

theorem dBody_eq (c : Cube) (p : Params) (g : Gen) (k : Nat) (s : DS) :
    dBody c p g k s = stepOut s.2 (dStep c p g s.2 k) := by
  unfold dBody dStep edgeTerms goneOf carry
  by_cases h1 : (!g.s.testBit k) = true
  · simp only [h1, if_true, Std.Legacy.Range.forIn_eq_forIn_range', Std.Legacy.Range.size, Nat.sub_zero, Nat.add_sub_cancel,
      Nat.div_one]
    have hm := C04Inv.id_forIn_yield (List.range' 0 c.circ[g.s]!.size) 0
      (fun i m0 => if c.circ[g.s ||| 1 <<< k]!.contains c.circ[g.s]![i]! then
          setBit m0 ((Array.findIdx? (fun x => x == c.circ[g.s]![i]!) c.circ[g.s ||| 1 <<< k]!).getD 0) (g.mask.testBit i) else m0)
      (fun i __s =>
            if c.circ[g.s ||| 1 <<< k]!.contains c.circ[g.s]![i]! = true then
              pure
                (ForInStep.yield
                  (setBit __s ((Array.findIdx? (fun x => x == c.circ[g.s]![i]!) c.circ[g.s ||| 1 <<< k]!).getD 0)
                    (g.mask.testBit i)))
            else pure (ForInStep.yield __s)) (by intro a b; split <;> rfl)
    generalize hM : (forIn (m := Id) (List.range' 0 c.circ[g.s]!.size) 0 _) = M at hm ⊢
    change M = _ at hm
    subst hm
    show (if _ then _ else _) = _
    by_cases h2 : ((Array.filter (fun i => !c.circ[g.s ||| 1 <<< k]!.contains c.circ[g.s]![i]!)
                      (Array.range c.circ[g.s]!.size)).size == 2 &&
                (Array.filter (fun i => !c.circ[g.s]!.contains c.circ[g.s ||| 1 <<< k]![i]!)
                      (Array.range c.circ[g.s ||| 1 <<< k]!.size)).size == 1) = true
    · simp only [h2, if_true]
      exact congrArg (fun o => ForInStep.yield ((none : Option (Option (Array Term))), o))
        (push_loop _ (fun (x : Bool × Int) => x.2 != 0) (fun (x : Bool × Int) => (setBit _ _ x.1, x.2))
          (fun mt => (({ s := g.s ||| 1 <<< k, mask := mt.1 } : Gen), edgeSign g.s k * mt.2)) s.2)
    · simp only [h2]
      by_cases h3 : ((Array.filter (fun i => !c.circ[g.s ||| 1 <<< k]!.contains c.circ[g.s]![i]!)
                      (Array.range c.circ[g.s]!.size)).size == 1 &&
                (Array.filter (fun i => !c.circ[g.s]!.contains c.circ[g.s ||| 1 <<< k]![i]!)
                      (Array.range c.circ[g.s ||| 1 <<< k]!.size)).size == 2) = true
      · simp only [h3, if_true]
        exact congrArg (fun o => ForInStep.yield ((none : Option (Option (Array Term))), o))
          (push_loop _ (fun (x : Bool × Bool × Int) => x.2.2 != 0) (fun (x : Bool × Bool × Int) => (setBit (setBit _ _ x.1) _ x.2.1, x.2.2))
            (fun mt => (({ s := g.s ||| 1 <<< k, mask := mt.1 } : Gen), edgeSign g.s k * mt.2)) s.2)
      · simp only [h3]
        rfl
  · simp only [h1]
    rfl

theorem d_eq (c : Cube) (p : Params) (g : Gen) (hb : c.base = none) : c.d p g = dF c p g := by
  rw [d_eqM c p g hb]
  unfold dF
  simp only [Std.Legacy.Range.forIn_eq_forIn_range', Std.Legacy.Range.size, Nat.sub_zero, Nat.add_sub_cancel,
    Nat.div_one]
  exact forIn_opt (dStep c p g) (dBody c p g) (dBody_eq c p g) _ _

end Yuiv.C02Mirror
