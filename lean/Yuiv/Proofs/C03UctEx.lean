import Yuiv.Proofs.C03Uct
import Mathlib.Tactic.FinCases
import Mathlib.LinearAlgebra.Matrix.Determinant.Basic
/-
C03Uct — concrete complexes used for the non-vacuity examples in `Props/C03Uct.lean`
(kept out of the Props file so that it contains property theorems only).
-/
namespace Yuiv.C03Uct.Ex
open Matrix Yuiv.C03 Yuiv.C03Uct

def exA : Matrix (Fin 2) (Fin 2) ℤ := !![2, 0; 0, 3]
def exP : Matrix (Fin 2) (Fin 2) ℤ := !![1, 1; -3, -2]
def exQ : Matrix (Fin 2) (Fin 2) ℤ := !![-1, 3; 1, -2]

/-- `diag(2,3)` with its own diagonal … -/
theorem exA_diag : EquivDiag exA [2, 3] :=
  ⟨by decide, 1, 1, by simp, by simp, by
    ext i j; fin_cases i <;> fin_cases j <;> simp [exA, rectDiag]⟩

/-- … and with its Smith normal form `diag(1,-6)` through non-trivial unimodular transforms -/
theorem exA_snf : EquivDiag exA [1, -6] :=
  ⟨by decide, exP, exQ, by simp [exP, Matrix.det_fin_two], by simp [exQ, Matrix.det_fin_two], by
    ext i j; fin_cases i <;> fin_cases j <;>
      simp [exA, exP, exQ, rectDiag, Matrix.mul_apply, Fin.sum_univ_two]⟩

/-- the complex `ℤ --(2,0)ᵀ--> ℤ² --(0 3)--> ℤ` : `H = ℤ/2`, next group `ℤ/3` -/
def exA1 : Matrix (Fin 2) (Fin 1) ℤ := !![2; 0]
def exB1 : Matrix (Fin 1) (Fin 2) ℤ := !![0, 3]
def exSwap : Matrix (Fin 2) (Fin 2) ℤ := !![0, 1; 1, 0]

theorem exBA : exB1 * exA1 = 0 := by
  ext i j; fin_cases i; fin_cases j; simp [exA1, exB1, Matrix.mul_apply, Fin.sum_univ_two]

theorem exA1_snf : EquivDiag exA1 [2] :=
  ⟨by decide, 1, 1, by simp, by simp, by
    ext i j; fin_cases i <;> fin_cases j <;> simp [exA1, rectDiag]⟩

theorem exB1_snf : EquivDiag exB1 [3] :=
  ⟨by decide, 1, exSwap, by simp, by simp [exSwap, Matrix.det_fin_two], by
    ext i j; fin_cases i; fin_cases j <;>
      simp [exB1, exSwap, rectDiag, Matrix.mul_apply, Fin.sum_univ_two]⟩

instance : Fact (Nat.Prime 5) := ⟨by decide⟩

theorem exZero : (0 : Matrix (Fin 0) (Fin 2) ℤ) * exA = 0 := by simp
theorem exZero_snf : EquivDiag (0 : Matrix (Fin 0) (Fin 2) ℤ) [] :=
  ⟨by decide, 1, 1, by simp, by simp, by ext i j; exact i.elim0⟩

end Yuiv.C03Uct.Ex
