import Yuiv.Proofs.KhSpecFn
import Yuiv.Proofs.KhSpecGens
import Yuiv.Proofs.KhSpecRows
import Yuiv.Props.C01Sq
/-
KhSpec — assembly for the UNBIGRADED computation of `khHomology` (helper; property theorems in `Props/KhSpec.lean`).

Setting `Ctx`: valid diagram, ≤ 64 labels, unreduced, all edges merges/splits.  Then
  * `d` is defined on every generator and its targets are generators of the next weight (`KhSpecGens`);
  * `d ∘ d = 0` (`Props/C01Sq`), so `khHomology` never returns `malformed` / `notComplex` (`KhSpecFn`);
  * the matrix that `homologyOf` builds between the weights `i`, `i+1` is `dMat` (`KhSpecRows`), `dMat i · dMat (i+1) = 0`;
  * with `khInstanceOk` (rows well-formed) the Smith invariants are a diagonal form of `dMat i` (`Props/KhSnf`).
-/
namespace Yuiv.KhSpec
open Yuiv Yuiv.KhRef Matrix Yuiv.KhSnf Yuiv.C03Uct Yuiv.C03
open Yuiv.C02Mirror (cubeOK Pair dCoef coefT)

/-- the standing hypotheses on a cube: unreduced, every edge a merge or a split, circle lists duplicate-free of size ≤ 64,
faces commute -/
structure Ctx (c : Cube) (p : Params) : Prop where
  hb : c.base = none
  hok : cubeOK c
  hP : ∀ s s', s < 2 ^ c.n → s' < 2 ^ c.n → Pair c.circ[s]! c.circ[s']!
  hF : Yuiv.C01Sq.FaceComm c p

theorem ctx_mkCube (l : Link) (hv : C06Cycle.validK l = true) (hL : (edgeLabels l).size ≤ 64) (p : Params)
    (hr : p.reduced = false) (hok : cubeOK (mkCube l p)) : Ctx (mkCube l p) p :=
  ⟨C02Mirror.mkCube_base l p hr, hok, fun s s' hs hs' => C02Mirror.cube_pair l p hL s s' hs hs',
    Yuiv.C01Sq.faceComm_mkCube l hv hL p hok⟩

section ctx
variable {c : Cube} {p : Params}

theorem mem_toList_getElem {α : Type} [Inhabited α] {xs : Array α} {x : α} (h : x ∈ xs.toList) :
    ∃ w, w < xs.size ∧ xs[w]! = x := by
  obtain ⟨w, hw, e⟩ := List.getElem_of_mem h
  simp only [Array.length_toList] at hw
  refine ⟨w, hw, ?_⟩
  rw [getElem!_pos xs w hw]
  simpa using e

/-- a generator listed at weight `w` -/
theorem gen_props (H : Ctx c p) {w : Nat} {g : Gen} (hg : g ∈ ((gensByWeight c)[w]!).toList) :
    w ≤ c.n ∧ g.s < 2 ^ c.n ∧ popcount g.s c.n = w ∧ g.mask < 2 ^ (c.circ[g.s]!).size := by
  obtain ⟨h1, h2, h3, h4⟩ := (mem_gensByWeight c w g).1 hg
  exact ⟨h1, h2, h3, ((mem_gensAt_unreduced c H.hb g.s g).1 h4).2⟩

theorem d_defined (H : Ctx c p) {g : Gen} (hs : g.s < 2 ^ c.n) : ∃ ts, c.d p g = some ts :=
  (C02Mirror.d_coef c p g H.hb hs H.hok).1

theorem inGens_of_mem {w : Nat} {g : Gen} (hg : g ∈ ((gensByWeight c)[w]!).toList) :
    inGens (gensByWeight c) g = true := by
  obtain ⟨_, h2, _, h4⟩ := (mem_gensByWeight c w g).1 hg
  exact (inGens_iff c g).2 ⟨h2, h4⟩

theorem dTab_of_mem {w : Nat} {g : Gen} (hg : g ∈ ((gensByWeight c)[w]!).toList) :
    dTab c p (gensByWeight c) g = (c.d p g).getD #[] := by
  unfold dTab
  rw [inGens_of_mem hg]; rfl

/-- the targets of the table entries are generators of the next weight -/
theorem dTab_targets (H : Ctx c p) {w : Nat} {g : Gen} (hg : g ∈ ((gensByWeight c)[w]!).toList) :
    ∀ t ∈ (dTab c p (gensByWeight c) g).toList, t.1 ∈ ((gensByWeight c)[w + 1]!).toList := by
  obtain ⟨ts, hd⟩ := d_defined H (gen_props H hg).2.1
  rw [dTab_of_mem hg, hd]
  exact d_targets_mem c p H.hb H.hok H.hP w g hg ts hd

/-- `d ∘ d = 0` on the table -/
theorem dTab_dd (H : Ctx c p) {w : Nat} {g : Gen} (hg : g ∈ ((gensByWeight c)[w]!).toList) (z : Gen) :
    C06Cycle.chainSum (fun y => (dTab c p (gensByWeight c) y).toList) (dTab c p (gensByWeight c) g).toList z = 0 := by
  have hs := (gen_props H hg).2.1
  obtain ⟨ts, hd, h2⟩ := Yuiv.C01Sq.d_squared_zero_of_faces c p H.hb H.hok H.hF g hs
  have h3 := ((C06Cycle.dOfChain_nil_iff c p ts.toList).1 h2).2 z
  have e : dTab c p (gensByWeight c) g = ts := by rw [dTab_of_mem hg, hd]; rfl
  rw [e, ← h3]
  apply C06Cycle.chainSum_congr
  intro ga hga
  have htm := d_targets_mem c p H.hb H.hok H.hP w g hg ts hd ga hga
  rw [dTab_of_mem htm]

theorem gens_cases {gs : Array Gen} (h : gs ∈ (gensByWeight c).toList) : ∃ w : Nat, gs = (gensByWeight c)[w]! := by
  obtain ⟨w, _, e⟩ := mem_toList_getElem h
  exact ⟨w, e.symm⟩

/-- `khHomology` succeeds and is `homologyOf` of the table -/
theorem khHomology_ok {l : Link} {p : Params} (H : Ctx (mkCube l p) p) (signs : Array Int) (k : Coeff) :
    khHomology l signs p k false =
      .ok ⟨(cellsUn (h0Of signs) none
        (homologyOf k (gensByWeight (mkCube l p)) (dTab (mkCube l p) p (gensByWeight (mkCube l p))))).toArray⟩ := by
  apply khHomology_unbigraded
  · intro gs hgs g hg
    obtain ⟨w, rfl⟩ := gens_cases hgs
    obtain ⟨ts, hd⟩ := d_defined H (gen_props H hg).2.1
    rw [hd]; rfl
  · intro gs hgs g hg z
    obtain ⟨w, rfl⟩ := gens_cases hgs
    exact dTab_dd H hg z

/-! ### the matrices, for a family `G` of generator lists closed under `d` (all generators, or one `q`-slice) -/

/-- a family of generator lists by weight: sub-lists of the generators, duplicate-free, closed under the targets of `d` -/
structure Fam (c : Cube) (p : Params) (G : Array (Array Gen)) : Prop where
  size : G.size = c.n + 1
  nd : ∀ i : Nat, ((G[i]!).toList).Nodup
  sub : ∀ (i : Nat) (g : Gen), g ∈ (G[i]!).toList → g ∈ ((gensByWeight c)[i]!).toList
  tgt : ∀ (i : Nat) (g : Gen), g ∈ (G[i]!).toList → ∀ t ∈ (dTab c p (gensByWeight c) g).toList, t.1 ∈ (G[i + 1]!).toList

theorem fam_all (H : Ctx c p) : Fam c p (gensByWeight c) :=
  ⟨gensByWeight_size c, gensByWeight_nodup c, fun _ _ h => h, fun _ _ hg t ht => dTab_targets H hg t ht⟩

variable {G : Array (Array Gen)}

/-- the matrix that `homologyOf` builds is the matrix of `Cube.d` -/
theorem matOf_rowsAt_entry (H : Ctx c p) (F : Fam c p G) (i : Nat) (a b : Nat) (ha : a < (G[i]!).size)
    (hb : b < (G[i + 1]!).size) :
    rval (rowsAt G (dTab c p (gensByWeight c)) i)[a]! b = dCoef c p (G[i]!)[a]! (G[i + 1]!)[b]! := by
  rw [rowsAt_entry G (dTab c p (gensByWeight c)) i (F.nd (i + 1))
    (fun g hg t ht => F.tgt i g hg t ht) a b ha hb]
  have hmem : (G[i]!)[a]! ∈ (G[i]!).toList := by
    rw [getElem!_pos _ a ha]; simp
  have hmem' := F.sub i _ hmem
  obtain ⟨ts, hd⟩ := d_defined H (gen_props H hmem').2.1
  rw [dTab_of_mem hmem']
  unfold dCoef
  rw [hd]; rfl

theorem equivDiag_cast {m m' n : Nat} (h : m' = m) (A : Matrix (Fin m) (Fin n) ℤ) (d : List ℤ)
    (hA : EquivDiag A d) : EquivDiag (A.submatrix (Fin.cast h) id) d := by
  subst h
  exact hA

/-- a diagonal form of the built matrix is a diagonal form of `dMat` -/
theorem equivDiag_dMat (H : Ctx c p) (F : Fam c p G) (i : Nat) (d : List ℤ)
    (h : EquivDiag (matOf (G[i + 1]!).size (rowsAt G (dTab c p (gensByWeight c)) i)) d) :
    EquivDiag (dMat c p G i) d := by
  have hsz := rowsAt_size G (dTab c p (gensByWeight c)) i
  have := equivDiag_cast hsz.symm _ d h
  have e : dMat c p G i =
      (matOf (G[i + 1]!).size (rowsAt G (dTab c p (gensByWeight c)) i)).submatrix (Fin.cast hsz.symm) id := by
    ext a b
    show dCoef c p _ _ = rval (rowsAt G (dTab c p (gensByWeight c)) i)[(Fin.cast hsz.symm a).val]! b.val
    rw [Fin.val_cast]
    exact (matOf_rowsAt_entry H F i a.val b.val a.isLt b.isLt).symm
  rw [e]; exact this

theorem list_sum_range_eq (n : Nat) (f : Nat → ℤ) : ((List.range n).map f).sum = ∑ i : Fin n, f i.val := by
  induction n with
  | zero => simp
  | succ n ih =>
    rw [List.range_succ, List.map_append, List.sum_append, ih, Fin.sum_univ_castSucc]
    simp

/-- consecutive differentials compose to zero -/
theorem dMat_mul (H : Ctx c p) (F : Fam c p G) (i : Nat) : dMat c p G i * dMat c p G (i + 1) = 0 := by
  ext a z
  rw [Matrix.mul_apply, Matrix.zero_apply]
  have hmem : (G[i]!)[a.val]! ∈ (G[i]!).toList := by
    rw [getElem!_pos _ a.val a.isLt]; simp
  have hmem' := F.sub i _ hmem
  have hs := (gen_props H hmem').2.1
  obtain ⟨ts, hd, h2⟩ := Yuiv.C01Sq.d_squared_zero_of_faces c p H.hb H.hok H.hF _ hs
  have h3 := ((C06Cycle.dOfChain_nil_iff c p ts.toList).1 h2).2 ((G[i + 1 + 1]!)[z.val]!)
  have htm : ∀ t ∈ ts.toList, t.1 ∈ (G[i + 1]!).toList := by
    intro t ht
    apply F.tgt i _ hmem t
    rw [dTab_of_mem hmem', hd]; exact ht
  have hsum := sum_by_target ts (G[i + 1]!) (F.nd (i + 1)) htm (fun y => dCoef c p y ((G[i + 1 + 1]!)[z.val]!))
  have e1 : C06Cycle.chainSum (fun g => ((c.d p g).getD #[]).toList) ts.toList ((G[i + 1 + 1]!)[z.val]!) =
      (ts.toList.map (fun t => t.2 * dCoef c p t.1 ((G[i + 1 + 1]!)[z.val]!))).sum := by
    unfold C06Cycle.chainSum
    congr 1
    apply List.map_congr_left
    intro t _
    rw [← Yuiv.C01Sq.termSum_dList]
    rfl
  rw [e1, hsum, list_sum_range_eq] at h3
  rw [← h3]
  apply Finset.sum_congr rfl
  intro b _
  show dCoef c p _ _ * dCoef c p _ _ = coefT ts _ * dCoef c p _ _
  congr 1
  unfold dCoef
  rw [hd]

end ctx

/-! ### the per-instance condition -/

theorem rowsOK_of_rowsOkB {gens : Array (Array Gen)} {d : Gen → Array Term} (h : rowsOkB gens d = true) :
    RowsOK gens d := by
  intro j hj r hr
  unfold rowsOkB at h
  rw [List.all_eq_true] at h
  have := h j (List.mem_range.2 (by omega))
  simp only [hj, decide_true, Bool.not_true, Bool.false_or, Array.all_eq_true_iff_forall_mem] at this
  have := this r (by simpa using hr)
  simpa using this

end Yuiv.KhSpec
