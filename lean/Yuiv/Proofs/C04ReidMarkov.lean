import Yuiv.Proofs.C04ReidBraid2
/-
C04Reid (helper, no property theorem here): Markov stabilisation (Reidemeister I in braid form).
`closure (n+1) (w ++ [s])` with `|s| = n` versus `closure n w`.
-/
open Yuiv.KhRef Yuiv.C04
namespace Yuiv.C04Inv
open Relation
open Yuiv.C18 (closureStep closurePD closure connRename hasFreeLoop CInv PD flatPD fromPD4)
open Yuiv.C18Bridge (toKh crossingKh)

variable {R : Type} [CommRing R]

/-- the shift of the labels `≥ n` by one (one more top label) -/
def sh1 (n z : Nat) : Nat := if n ≤ z then z + 1 else z

theorem sh1_inj (n : Nat) : Function.Injective (sh1 n) := by
  intro u v h
  unfold sh1 at h
  split at h <;> split at h <;> omega

theorem sh1_ne (n z : Nat) : sh1 n z ≠ n := by
  unfold sh1; split <;> omega

/-- one step of the closure loop with an additional, untouched last strand -/
theorem mk_step (n : Nat) (st st' : Nat × List Nat × PD) (s : Int) (hn : n ≤ st.1) (hlen : st.2.1.length = n)
    (h : closureStep st s = .ok st') :
    n ≤ st'.1 ∧ st'.2.1.length = n ∧ ∃ xnew, st'.2.2 = st.2.2 ++ [xnew] ∧
      ∀ P, closureStep (st.1 + 1, st.2.1.map (sh1 n) ++ [n], P) s
        = .ok (st'.1 + 1, st'.2.1.map (sh1 n) ++ [n], P ++ [map4 (sh1 n) xnew]) := by
  obtain ⟨a, b, hs0, ha, hb, rfl⟩ := C18.closureStep_ok h
  have i2 : s.natAbs - 1 + 1 < st.2.1.length := by
    rcases Nat.lt_or_ge (s.natAbs - 1 + 1) st.2.1.length with h | h
    · exact h
    · rw [List.getElem?_eq_none h] at hb; cases hb
  refine ⟨by simp only; omega, by simp [hlen], _, rfl, ?_⟩
  intro P
  have g1 : sh1 n st.1 = st.1 + 1 := by unfold sh1; rw [if_pos hn]
  have g2 : sh1 n (st.1 + 1) = st.1 + 1 + 1 := by unfold sh1; rw [if_pos (by omega)]
  have e1 : (st.2.1.map (sh1 n) ++ [n])[s.natAbs - 1]? = some (sh1 n a) := by
    rw [List.getElem?_append_left (by simp; omega), List.getElem?_map, ha]; rfl
  have e2 : (st.2.1.map (sh1 n) ++ [n])[s.natAbs - 1 + 1]? = some (sh1 n b) := by
    rw [List.getElem?_append_left (by simpa using i2), List.getElem?_map, hb]; rfl
  simp only [closureStep, hs0, if_false, e1, e2, List.map_set, g1, g2]
  rw [List.set_append_left _ _ (by simp; omega), List.set_append_left _ _ (by simpa using i2)]
  congr 3
  split <;> simp [map4, g1, g2]

theorem mk_fold (n : Nat) (w : List Int) (st st' : Nat × List Nat × PD) (hn : n ≤ st.1) (hlen : st.2.1.length = n)
    (h : w.foldlM closureStep st = .ok st') :
    ∃ pd2, st'.2.2 = st.2.2 ++ pd2 ∧ ∀ P, w.foldlM closureStep (st.1 + 1, st.2.1.map (sh1 n) ++ [n], P)
      = .ok (st'.1 + 1, st'.2.1.map (sh1 n) ++ [n], P ++ pd2.map (map4 (sh1 n))) := by
  induction w generalizing st with
  | nil =>
    simp only [List.foldlM_nil, pure] at h; cases h
    exact ⟨[], by simp, fun P => by simp [List.foldlM_nil, pure]⟩
  | cons s w ih =>
    simp only [List.foldlM_cons] at h
    cases hs : closureStep st s with
    | panic => rw [hs] at h; cases h
    | err => rw [hs] at h; cases h
    | ok st1 =>
      rw [hs] at h
      obtain ⟨hn1, hlen1, xnew, hx, hstep⟩ := mk_step n st st1 s hn hlen hs
      obtain ⟨pd2, hpd, hfold⟩ := ih st1 hn1 hlen1 h
      refine ⟨xnew :: pd2, by rw [hpd, hx]; simp, fun P => ?_⟩
      simp only [List.foldlM_cons, hstep P, bind, Res.bind]
      rw [hfold]
      simp

theorem range_succ_sh1 (n : Nat) : List.range (n + 1) = (List.range n).map (sh1 n) ++ [n] := by
  rw [List.range_succ]
  congr 1
  apply List.ext_getElem (by simp)
  intro i h1 h2
  simp only [List.getElem_range, List.getElem_map]
  unfold sh1
  rw [if_neg (by simp at h1; omega)]

/-- collapse of the closing arc of the new strand -/
def fTop (c' n z : Nat) : Nat := if z = c' + 1 then n else z

/-- the crossing written by the last letter `s = ±n` -/
def lastX (s : Int) (a' c' n : Nat) : Nat × Nat × Nat × Nat :=
  if s > 0 then (a', c', c' + 1, n) else (n, a', c', c' + 1)

/-- the final state of the closure loop for `w ++ [s]` on `n + 1` strands -/
theorem markov_state (n : Nat) (w : List Int) (s : Int) (st : Nat × List Nat × PD)
    (hf : w.foldlM closureStep (n, List.range n, []) = .ok st) (hI : CInv n st) (hs : s.natAbs = n) (hn : 0 < n) :
    ∃ b0, st.2.1[n - 1]? = some b0 ∧
      (w ++ [s]).foldlM closureStep (n + 1, List.range (n + 1), []) =
        .ok (st.1 + 1 + 2, (st.2.1.map (sh1 n)).set (n - 1) (st.1 + 1) ++ [st.1 + 1 + 1],
          st.2.2.map (map4 (sh1 n)) ++ [lastX s (sh1 n b0) (st.1 + 1) n]) := by
  have hlen := hI.len
  have hle := hI.le
  obtain ⟨pd2, hpd, hsim⟩ := mk_fold n w (n, List.range n, []) st (Nat.le_refl _) (by simp) hf
  simp only [List.nil_append] at hpd
  have hsim' := hsim []
  simp only [List.nil_append, ← range_succ_sh1, ← hpd] at hsim'
  have hb0 : n - 1 < st.2.1.length := by omega
  refine ⟨st.2.1[n - 1], List.getElem?_eq_getElem hb0, ?_⟩
  refine (foldlM_append_ok _ _ _ _ _).2 ⟨_, hsim', ?_⟩
  simp only [List.foldlM_cons, List.foldlM_nil]
  have e1 : (st.2.1.map (sh1 n) ++ [n])[n - 1]? = some (sh1 n st.2.1[n - 1]) := by
    rw [List.getElem?_append_left (by simpa using hb0), List.getElem?_map, List.getElem?_eq_getElem hb0]; rfl
  have e2 : (st.2.1.map (sh1 n) ++ [n])[n - 1 + 1]? = some n := by
    rw [List.getElem?_append_right (by simp; omega)]
    have : n - 1 + 1 - (st.2.1.map (sh1 n)).length = 0 := by simp; omega
    rw [this]; rfl
  have h0 : s.natAbs ≠ 0 := by omega
  simp only [closureStep, hs, if_neg (by omega : ¬ n = 0), e1, e2, bind, Res.bind, pure]
  have e3 : ((st.2.1.map (sh1 n) ++ [n]).set (n - 1) (st.1 + 1)).set (n - 1 + 1) (st.1 + 1 + 1)
      = (st.2.1.map (sh1 n)).set (n - 1) (st.1 + 1) ++ [st.1 + 1 + 1] := by
    rw [List.set_append_left _ _ (by simpa using hb0), List.set_append, if_neg (by simp; omega)]
    have : n - 1 + 1 - ((st.2.1.map (sh1 n)).set (n - 1) (st.1 + 1)).length = 0 := by simp; omega
    rw [this]; rfl
  rw [e3]
  rfl

theorem rawLinkP_snoc_close (pd : PD) (ps : List (Nat × Nat)) (u k : Nat) :
    rawLinkP pd (ps ++ [(u, k)]) = ((rawLinkP pd ps).toList ++ [(⟨.H, #[u, k, k, u]⟩ : Crossing)]).toArray := by
  simp [rawLinkP, closeX]

theorem rawLinkP_perm_snoc (A : PD) (u : Nat × Nat × Nat × Nat) (ps : List (Nat × Nat)) :
    (rawLinkP (A ++ [u]) ps).toList.Perm (pdX u :: (rawLinkP A ps).toList) := by
  simp only [rawLinkP, pdLink, List.map_append, List.map_cons, List.map_nil, List.append_assoc, List.cons_append,
    List.nil_append]
  exact List.perm_middle

theorem rawLinkP_congr (pd pd' : PD) (ps ps' : List (Nat × Nat)) (h1 : pd = pd') (h2 : ps = ps') :
    rawLinkP pd ps = rawLinkP pd' ps' := by rw [h1, h2]

theorem map4_fix (f : Nat → Nat) (pd : PD) (h : ∀ z ∈ flatPD pd, f z = z) : pd.map (map4 f) = pd := by
  have : ∀ t ∈ pd, map4 f t = t := by
    intro t ht
    have m4 : ∀ z ∈ [t.1, t.2.1, t.2.2.1, t.2.2.2], f z = z := by
      intro z hz
      apply h
      simp only [flatPD, List.mem_flatMap]
      exact ⟨t, ht, hz⟩
    simp only [map4]
    rw [m4 _ (by simp), m4 _ (by simp), m4 _ (by simp), m4 _ (by simp)]
  rw [List.map_congr_left this, List.map_id']

theorem pmap_fix (f : Nat → Nat) (ps : List (Nat × Nat)) (h : ∀ p ∈ ps, f p.1 = p.1 ∧ f p.2 = p.2) :
    ps.map (pmap f) = ps := by
  have : ∀ p ∈ ps, pmap f p = p := by
    intro p hp
    unfold pmap; rw [(h p hp).1, (h p hp).2]
  rw [List.map_congr_left this, List.map_id']

/-- MARKOV STABILISATION, state-sum level: `closure (n+1) (w ++ [±n])` exists and its state sum is that of
`closure n w` times `y + x` (positive letter) resp. `1 + x·y` (negative letter) -/
theorem markov_stateSum (x y : R) (n : Nat) (w : List Int) (s : Int) (l : C18.Link)
    (h : closure n w = .ok l) (hs : s.natAbs = n) (hn : 0 < n) :
    ∃ l', closure (n + 1) (w ++ [s]) = .ok l' ∧
      stateSum x y (toKh l') = (if s > 0 then y + x else 1 + x * y) * stateSum x y (toKh l) := by
  obtain ⟨st, hf, hfl, hsO, _⟩ := closure_stateSum x y n w l h
  have hI := C18.cinv_foldl n w _ st (C18.cinv_init n) hf
  obtain ⟨b0, hb0, hfN⟩ := markov_state n w s st hf hI hs hn
  obtain ⟨hnd, hlt, hpdlt, hlab⟩ := cinv_facts hI
  obtain ⟨c, bot, pd⟩ := st
  simp only at hb0 hfN hfl hsO hnd hlt hpdlt hlab
  have hlen : bot.length = n := hI.len
  have hnc : n ≤ c := hI.le
  have hne := C18.hasFreeLoop_false bot hfl
  have hb0m : b0 ∈ bot := List.mem_of_getElem? hb0
  have hb0c : b0 < c := hlt b0 hb0m
  have sh1_le : ∀ z, z < c → sh1 n z ≤ c := by intro z hz; unfold sh1; split <;> omega
  -- labels of the shifted old code
  have L1 : ∀ z ∈ flatPD (pd.map (map4 (sh1 n))), z ≤ c ∧ z ≠ n := by
    intro z hz
    rw [flatPD_map4] at hz
    obtain ⟨z', hz', rfl⟩ := List.mem_map.1 hz
    exact ⟨sh1_le z' (hpdlt z' hz'), sh1_ne n z'⟩
  have L2 : ∀ p ∈ ((bot.map (sh1 n)).set (n - 1) (c + 1)).zipIdx, p.1 ≤ c + 1 ∧ p.1 ≠ n ∧ p.2 < n := by
    intro p hp
    obtain ⟨_, h2, h3⟩ := List.mem_zipIdx (x := p.1) (i := p.2) (k := 0) hp
    have hmem : p.1 ∈ (bot.map (sh1 n)).set (n - 1) (c + 1) := h3 ▸ List.getElem_mem _
    refine ⟨?_, ?_, by simpa [hlen] using h2⟩
    · rcases List.mem_or_eq_of_mem_set hmem with h | h
      · obtain ⟨z', hz', e⟩ := List.mem_map.1 h
        have := sh1_le z' (hlt z' hz'); omega
      · omega
    · rcases List.mem_or_eq_of_mem_set hmem with h | h
      · obtain ⟨z', hz', e⟩ := List.mem_map.1 h
        rw [← e]; exact sh1_ne n z'
      · omega
  -- the new closure exists
  have hflN : hasFreeLoop ((bot.map (sh1 n)).set (n - 1) (c + 1) ++ [c + 1 + 1]) = false := by
    unfold hasFreeLoop
    rw [Bool.eq_false_iff]
    intro hany
    rw [List.any_eq_true] at hany
    obtain ⟨i, hi, hb⟩ := hany
    have hi' : i < n + 1 := by simpa [hlen] using List.mem_range.1 hi
    rw [List.getD_eq_getElem?_getD] at hb
    by_cases hin : i = n
    · subst hin
      rw [List.getElem?_append_right (by simp [hlen])] at hb
      simp [hlen] at hb
      omega
    · have hil : i < bot.length := by omega
      rw [List.getElem?_append_left (by simpa using hil), List.getElem?_set] at hb
      by_cases hi1 : n - 1 = i
      · simp [hi1, hil] at hb; omega
      · simp only [hi1, if_false, List.getElem?_map, List.getElem?_eq_getElem hil, Option.map, Option.getD,
          beq_iff_eq] at hb
        have := hne i hil
        unfold sh1 at hb
        split at hb <;> omega
  obtain ⟨l', hl'⟩ := closure_of_state (n + 1) _ _ hfN hflN
  refine ⟨l', hl', ?_⟩
  obtain ⟨stN, hfN', _, hsN, _⟩ := closure_stateSum x y (n + 1) _ l' hl'
  rw [hfN] at hfN'
  cases hfN'
  simp only at hsN
  rw [hsN, hsO]
  -- stage 1: collapse the closing arc of the new strand
  have hz1 : ((bot.map (sh1 n)).set (n - 1) (c + 1) ++ [c + 1 + 1]).zipIdx
      = ((bot.map (sh1 n)).set (n - 1) (c + 1)).zipIdx ++ [(c + 1 + 1, n)] := by
    rw [List.zipIdx_append]; simp [hlen]
  rw [hz1, rawLinkP_snoc_close]
  have hXn : n ∈ flatPD (pd.map (map4 (sh1 n)) ++ [lastX s (sh1 n b0) (c + 1) n]) := by
    rw [C18.flatPD_append]; apply List.mem_append_right
    unfold lastX flatPD; split <;> simp
  have st1 := extra_stateSum x y
    (rawLinkP (pd.map (map4 (sh1 n)) ++ [lastX s (sh1 n b0) (c + 1) n]) ((bot.map (sh1 n)).set (n - 1) (c + 1)).zipIdx)
    [(⟨.H, #[c + 1 + 1, n, n, c + 1 + 1]⟩ : Crossing)] (fTop (c + 1) n) (WF_rawLinkP _ _)
    (by intro d hd; simp at hd; subst hd; rfl) (by intro d hd; simp at hd; subst hd; rfl)
    (by
      intro p hp
      simp only [extraArcs, List.flatMap_cons, List.flatMap_nil, List.append_nil, arcs, arcIdx, List.map_cons,
        List.map_nil, List.mem_cons, List.mem_nil_iff, or_false] at hp
      have : fTop (c + 1) n n = n := by unfold fTop; rw [if_neg (by omega)]
      rcases hp with rfl | rfl <;> simp [fTop])
    (by
      intro z _
      unfold fTop
      split
      · rename_i hz; subst hz
        exact Conn.of_mem (by simp [extraArcs, arcs, arcIdx])
      · exact Conn.refl _)
    (by
      rintro z ⟨d, hd, hz⟩
      simp only [List.mem_cons, List.mem_nil_iff, or_false] at hd
      subst hd
      have hn' : fTop (c + 1) n n = n := by unfold fTop; rw [if_neg (by omega)]
      have : fTop (c + 1) n z = n := by
        simp at hz
        rcases hz with rfl | rfl | rfl
        · simp [fTop]
        · exact hn'
        · simp [fTop]
      rw [this]
      exact ⟨n, (mem_labelSet_rawLinkP _ _ n).2 (Or.inl hXn), hn'⟩)
  rw [st1.1, renumber_rawLinkP]
  -- the renamed last crossing is a kink crossing
  have fle : ∀ z, z ≤ c + 1 → fTop (c + 1) n z = z := by intro z hz; unfold fTop; rw [if_neg (by omega)]
  have hpdF : (pd.map (map4 (sh1 n)) ++ [lastX s (sh1 n b0) (c + 1) n]).map (map4 (fTop (c + 1) n))
      = pd.map (map4 (sh1 n)) ++ [if s > 0 then (sh1 n b0, c + 1, n, n) else (n, sh1 n b0, c + 1, n)] := by
    rw [List.map_append, map4_fix _ _ (fun z hz => fle z (by have := (L1 z hz).1; omega))]
    congr 1
    have e1 := fle (sh1 n b0) (by have := sh1_le b0 hb0c; omega)
    have e2 := fle (c + 1) (Nat.le_refl _)
    have e3 := fle n (by omega)
    have e4 : fTop (c + 1) n (c + 1 + 1) = n := by simp [fTop]
    unfold lastX
    split <;> simp [map4, e1, e2, e3, e4]
  have hpsF : (((bot.map (sh1 n)).set (n - 1) (c + 1)).zipIdx).map (pmap (fTop (c + 1) n))
      = ((bot.map (sh1 n)).set (n - 1) (c + 1)).zipIdx :=
    pmap_fix _ _ (fun p hp => ⟨fle _ (L2 p hp).1, fle _ (by have := (L2 p hp).2.2; omega)⟩)
  rw [hpdF, hpsF]
  -- stage 2: the kink
  have hperm := rawLinkP_perm_snoc (pd.map (map4 (sh1 n)))
    (if s > 0 then (sh1 n b0, c + 1, n, n) else (n, sh1 n b0, c + 1, n)) ((bot.map (sh1 n)).set (n - 1) (c + 1)).zipIdx
  have hwf := WF_rawLinkP (pd.map (map4 (sh1 n))) ((bot.map (sh1 n)).set (n - 1) (c + 1)).zipIdx
  have hcol : ∀ z, z ≤ c → z ≠ n → collapse (sh1 n b0) (c + 1) n z = z :=
    fun z h1 h2 => collapse_other _ _ _ _ (by omega) h2
  have hren2 : renumber (collapse (sh1 n b0) (c + 1) n)
        (rawLinkP (pd.map (map4 (sh1 n))) ((bot.map (sh1 n)).set (n - 1) (c + 1)).zipIdx)
      = renumber (sh1 n) (rawLinkP pd bot.zipIdx) := by
    rw [renumber_rawLinkP, renumber_rawLinkP, map4_fix _ _ (fun z hz => hcol z (L1 z hz).1 (L1 z hz).2)]
    congr 1
    apply List.ext_getElem (by simp)
    intro k h1 h2
    have hk : k < bot.length := by simpa using h2
    simp only [List.getElem_map, List.getElem_zipIdx, List.getElem_set, pmap, Nat.zero_add]
    have ek : collapse (sh1 n b0) (c + 1) n k = k := hcol k (by omega) (by omega)
    have ek' : sh1 n k = k := by unfold sh1; rw [if_neg (by omega)]
    rw [ek, ek']
    congr 1
    split
    · rename_i hkk
      subst hkk
      rw [collapse_u]
      rw [List.getElem?_eq_getElem hk] at hb0
      rw [Option.some.inj hb0]
    · exact hcol _ (sh1_le _ (hlt _ (List.getElem_mem hk))) (sh1_ne n _)
  have he : sh1 n b0 ∈ labelSet (renumber (collapse (sh1 n b0) (c + 1) n)
      (rawLinkP (pd.map (map4 (sh1 n))) ((bot.map (sh1 n)).set (n - 1) (c + 1)).zipIdx)) := by
    rw [hren2, labelSet_renumber]
    refine ⟨b0, (mem_labelSet_rawLinkP _ _ _).2 (Or.inr ⟨(b0, n - 1), ?_, Or.inl rfl⟩), rfl⟩
    exact List.mem_zipIdx_iff_getElem?.2 hb0
  have hv : n ∉ labelSet (rawLinkP (pd.map (map4 (sh1 n))) ((bot.map (sh1 n)).set (n - 1) (c + 1)).zipIdx) := by
    rw [mem_labelSet_rawLinkP]
    rintro (h | ⟨p, hp, h | h⟩)
    · exact (L1 n h).2 rfl
    · exact (L2 p hp).2.1 h.symm
    · have := (L2 p hp).2.2; omega
  have hve : n ≠ sh1 n b0 := fun h => sh1_ne n b0 h.symm
  have hvu : n ≠ c + 1 := by omega
  have hold := stateSum_renumber x y (rawLinkP pd bot.zipIdx) (sh1_inj n).injOn (WF_rawLinkP _ _)
  by_cases hpos : s > 0
  · simp only [hpos, if_true] at hperm ⊢
    have hjl := kink_join_loop 1 (sh1 n b0) (c + 1) n hve hvu
    simp only [Nat.reduceAdd, OfNat.one_ne_ofNat, one_ne_zero, or_self, if_false] at hjl
    rw [kink_stateSum_pos x y hwf (kink_size 1 _ _ _) rfl hperm (kink_mem 1 _ _ _) he hv hve hvu hjl.1 hjl.2,
      hren2, hold]
  · simp only [hpos, if_false] at hperm ⊢
    have hjl := kink_join_loop 2 (sh1 n b0) (c + 1) n hve hvu
    simp only [or_true, if_true] at hjl
    rw [kink_stateSum_neg x y hwf (kink_size 2 _ _ _) rfl hperm (kink_mem 2 _ _ _) he hv hve hvu hjl.1 hjl.2,
      hren2, hold]

end Yuiv.C04Inv
