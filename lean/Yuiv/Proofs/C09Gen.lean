import Yuiv.Gen.SnfFn
/-
Helper definitions and lemmas for `Yuiv/Props/C09Gen.lean` (no property theorem here).

`Yuiv.GenSnf.*` is GENERATED from `/repo/yui-matrix/src/dense/snf.rs` by `tools/rs2lean_fn.py fn:snf`; `Yuiv.C09.*` is the
hand-written model of `SnfCalc` (all four transforms always tracked, `Fin` indices).  `ofSt` embeds a model state into
the generated struct (all four `Option` fields `some`); `mapR` lifts it to results.
-/
namespace Yuiv.C09Gen
open Yuiv Res Yuiv.Rust Yuiv.GenSnf Yuiv.C09

variable {α : Type} {m n : Nat}

def ofSt (s : St α m n) : SnfCalcS α m n := ⟨s.t, some s.p, some s.pinv, some s.q, some s.qinv⟩

def mapR {β γ} (f : β → γ) : Res β → Res γ
  | .ok a => .ok (f a)
  | .panic => .panic
  | .err => .err

theorem mapR_ok {β γ} (f : β → γ) (a : β) : mapR f (ok a) = ok (f a) := rfl
theorem mapR_panic {β γ} (f : β → γ) : mapR f (.panic : Res β) = .panic := rfl
theorem mapR_err {β γ} (f : β → γ) : mapR f (.err : Res β) = .err := rfl
theorem bind_assoc' {β γ δ} (x : Res β) (f : β → Res γ) (g : γ → Res δ) :
    ((x >>= f) >>= g) = (x >>= fun a => f a >>= g) := by cases x <;> rfl
theorem ite_bind {β γ} (c : Prop) [Decidable c] (x y : Res β) (f : β → Res γ) :
    ((if c then x else y) >>= f) = if c then x >>= f else y >>= f := by split <;> rfl
theorem bind_congr' {β γ} (x : Res β) {f g : β → Res γ} (h : ∀ a, f a = g a) : (x >>= f) = (x >>= g) := by
  cases x <;> simp [h]
theorem assert_true : Res.assert true = ok () := rfl
theorem assert_false : Res.assert false = (.panic : Res Unit) := rfl

instance : LawfulMonad Res := LawfulMonad.mk'
  (id_map := fun x => by cases x <;> rfl)
  (pure_bind := fun _ _ => rfl)
  (bind_assoc := fun x _ _ => by cases x <;> rfl)

/-! ### dense primitives in range -/

theorem get_in (A : Mat α m n) (i : Fin m) (j : Fin n) : Dense.get A i.1 j.1 = ok (A.get i j) := by
  simp [Dense.get, i.2, j.2]
theorem swap_rows_in {k l : Nat} (A : Mat α k l) (i j : Fin k) : Dense.swap_rows A i.1 j.1 = ok (swapRows A i j) := by
  simp [Dense.swap_rows, i.2, j.2]
theorem swap_cols_in {k l : Nat} (A : Mat α k l) (i j : Fin l) : Dense.swap_cols A i.1 j.1 = ok (swapCols A i j) := by
  simp [Dense.swap_cols, i.2, j.2]
theorem mul_row_in {k l : Nat} (e : EOps α) (A : Mat α k l) (i : Fin k) (u : α) :
    Dense.mul_row e A i.1 u = ok (mulRow e.toROps A i u) := by simp [Dense.mul_row, i.2]
theorem mul_col_in {k l : Nat} (e : EOps α) (A : Mat α k l) (j : Fin l) (u : α) :
    Dense.mul_col e A j.1 u = ok (mulCol e.toROps A j u) := by simp [Dense.mul_col, j.2]
theorem left_in {k l : Nat} (e : EOps α) (A : Mat α k l) (a b c d : α) (i j : Fin k) :
    Dense.left_elementary e A (a, b, c, d) i.1 j.1 = ok (leftElem e.toROps A a b c d i j) := by
  simp [Dense.left_elementary, i.2, j.2]
theorem right_in {k l : Nat} (e : EOps α) (A : Mat α k l) (a b c d : α) (i j : Fin l) :
    Dense.right_elementary e A (a, b, c, d) i.1 j.1 = ok (rightElem e.toROps A a b c d i j) := by
  simp [Dense.right_elementary, i.2, j.2]


/-! ### counting -/

theorem count_foldl {ι : Type} (z : ι → Bool) (l : List ι) (c : Nat) :
    l.foldl (fun c j => if z j then c else c + 1) c = c + (l.filter fun j => !z j).length := by
  induction l generalizing c with
  | nil => simp
  | cons x xs ih =>
    simp only [List.foldl_cons, List.filter_cons]
    cases hz : z x <;> simp [ih] <;> omega

/-! ### `for k in 0..n` against a fold over `List.finRange n` -/

/-- a `for` body that never breaks, on states related by an embedding `φ` of the model's state: `Loop.forGo` is the
monadic fold of the per-index step -/
theorem forGo_eq_foldlM {σ τ : Type} (φ : τ → σ) : ∀ (k : Nat) (g : τ → Fin k → Res τ) (f : Nat → σ → Res (Ctl σ))
    (k0 : Nat) (s : τ),
    (∀ (i : Nat) (h : i < k) (s : τ), f (k0 + i) (φ s) = (g s ⟨i, h⟩ >>= fun s' => ok (Ctl.next (φ s')))) →
    Loop.forGo f k k0 (φ s) = ((List.finRange k).foldlM g s >>= fun s' => ok (φ s', true)) := by
  intro k
  induction k with
  | zero => intro g f k0 s _; simp [Loop.forGo]
  | succ k ih =>
    intro g f k0 s hf
    have h0 := hf 0 (Nat.succ_pos k) s
    simp only [Nat.add_zero] at h0
    rw [List.finRange_succ, List.foldlM_cons]
    simp only [List.foldlM_map]
    unfold Loop.forGo
    rw [h0, show g s (0 : Fin (k + 1)) = g s ⟨0, Nat.succ_pos k⟩ from rfl]
    cases hg : g s ⟨0, Nat.succ_pos k⟩ with
    | ok s1 =>
      simp only [bind_ok]
      exact ih (fun s i => g s i.succ) f (k0 + 1) s1 (by
        intro i h s'
        have := hf (i + 1) (Nat.succ_lt_succ h) s'
        rw [show k0 + 1 + i = k0 + (i + 1) by omega]
        exact this)
    | panic => rfl
    | err => rfl

theorem forRange_eq_foldlM {σ τ : Type} (φ : τ → σ) (k : Nat) (g : τ → Fin k → Res τ) (f : Nat → σ → Res (Ctl σ)) (s : τ)
    (hf : ∀ (i : Nat) (h : i < k) (s : τ), f i (φ s) = (g s ⟨i, h⟩ >>= fun s' => ok (Ctl.next (φ s')))) :
    Loop.forRange 0 k f (φ s) = ((List.finRange k).foldlM g s >>= fun s' => ok (φ s', true)) := by
  unfold Loop.forRange
  exact forGo_eq_foldlM φ k g f 0 s (by intro i h s'; simpa using hf i h s')


/-! ### `row_nz` (used by `select_pivot`) -/

theorem row_nz_eq' (e : EOps α) (dbg : Bool) (s : St α m n) (i : Fin m) :
    SnfCalc.row_nz e dbg (ofSt s) i.1 = ok (rowNz e s.t i) := by
  unfold SnfCalc.row_nz rowNz
  simp only [ofSt, Dense.row, i.2, dite_true, bind_ok, count_foldl, Nat.zero_add, List.filter_map, List.length_map]
  rfl

/-! ### generic list lemmas -/

theorem foldlM_ok {ι σ : Type} (st : σ → ι → σ) (l : List ι) (a : σ) :
    l.foldlM (fun a i => (ok (st a i) : Res σ)) a = ok (l.foldl st a) := by
  induction l generalizing a with
  | nil => rfl
  | cons x xs ih => simp [List.foldlM_cons, ih]

theorem foldl_filter {ι σ : Type} (p : ι → Bool) (f : σ → ι → σ) (l : List ι) (a : σ) :
    l.foldl (fun acc i => if p i then f acc i else acc) a = (l.filter p).foldl f a := by
  induction l generalizing a with
  | nil => rfl
  | cons x xs ih =>
    cases hp : p x <;> simp [List.filter_cons, hp, ih]

theorem forGo_pure {σ : Type} (st : σ → Nat → σ) (d b : Nat) (a : σ) :
    Loop.forGo (fun k acc => ok (Ctl.next (st acc k))) d b a = ok ((List.range' b d).foldl st a, true) := by
  induction d generalizing b a with
  | zero => rfl
  | succ d ih => simp [Loop.forGo, List.range', ih]

theorem filterM_ok {ι : Type} (p : ι → Res Bool) (q : ι → Bool) (l : List ι) (h : ∀ x ∈ l, p x = ok (q x)) :
    Iter.filterM p l = ok (l.filter q) := by
  induction l with
  | nil => rfl
  | cons x xs ih =>
    have hx := h x (by simp)
    have hxs := ih (fun y hy => h y (by simp [hy]))
    simp only [Iter.filterM, hx, hxs, bind_ok, List.filter_cons]

theorem mapM_ok {ι κ : Type} (f : ι → Res κ) (g : ι → κ) (l : List ι) (h : ∀ x ∈ l, f x = ok (g x)) :
    Iter.mapM f l = ok (l.map g) := by
  induction l with
  | nil => rfl
  | cons x xs ih =>
    have hx := h x (by simp)
    have hxs := ih (fun y hy => h y (by simp [hy]))
    simp only [Iter.mapM, hx, hxs, bind_ok, List.map_cons]

/-- "first minimal" fold with an optional accumulator = `Iter.minBy` -/
theorem minBy_fold {κ : Type} (key : κ → Nat) (l : List κ) :
    l.foldl (fun (acc : Option κ) y => match acc with
        | none => some y
        | some b => if key y < key b then some y else acc) none =
      Iter.minBy (fun a b => compare (key a) (key b)) l := by
  cases l with
  | nil => rfl
  | cons x xs =>
    simp only [List.foldl_cons, Iter.minBy]
    generalize x = b
    induction xs generalizing b with
    | nil => rfl
    | cons y ys ih =>
      simp only [List.foldl_cons]
      by_cases h : key y < key b
      · have hc : compare (key b) (key y) = .gt := Nat.compare_eq_gt.2 h
        simp [h, hc, ih]
      · have hc : ¬ compare (key b) (key y) = .gt := fun hh => h (Nat.compare_eq_gt.1 hh)
        have : (compare (key b) (key y) == Ordering.gt) = false := by simpa using hc
        simp [h, this, ih]


theorem range'_split (s a b : Nat) : List.range' s (a + b) = List.range' s a ++ List.range' (s + a) b := by
  induction a generalizing s with
  | zero => simp
  | succ a ih =>
    rw [show a + 1 + b = (a + b) + 1 by omega]
    simp only [List.range'_succ, List.cons_append]
    rw [ih (s + 1), show s + 1 + a = s + (a + 1) by omega]

/-! ### `select_pivot` -/

section pivot
variable (e : EOps α) (T : Mat α m n) (j : Fin n) (below : Nat)

def qN (k : Nat) : Bool := if h : k < m then !e.isZero (T.get ⟨k, h⟩ j) else false
def rN (k : Nat) : Nat := if h : k < m then rowNz e T ⟨k, h⟩ else 0
def keyStep (acc : Option (Nat × Nat)) (y : Nat × Nat) : Option (Nat × Nat) :=
  match acc with
  | none => some y
  | some b => if y.2 < b.2 then some y else acc
def stepN (acc : Option (Nat × Nat)) (k : Nat) : Option (Nat × Nat) :=
  if below ≤ k && qN e T j k then keyStep acc (k, rN e T k) else acc
/-- the step function of the model's `selectPivot` -/
def stepF (acc : Option (Fin m × Nat)) (i : Fin m) : Option (Fin m × Nat) :=
  if below ≤ i.1 && !e.isZero (T.get i j) then
    let k := rowNz e T i
    match acc with
    | none => some (i, k)
    | some (_, k0) => if k < k0 then some (i, k) else acc
  else acc
def phi (acc : Option (Fin m × Nat)) : Option (Nat × Nat) := acc.map fun p => (p.1.1, p.2)

theorem selectPivot_def : selectPivot e T below j = ((List.finRange m).foldl (stepF e T j below) none).map (·.1) := rfl

theorem phi_step (acc : Option (Fin m × Nat)) (k : Nat) (h : k < m) :
    phi (stepF e T j below acc ⟨k, h⟩) = stepN e T j below (phi acc) k := by
  unfold stepF stepN qN rN keyStep phi
  by_cases hb : below ≤ k
  · cases hz : e.isZero (T.get ⟨k, h⟩ j)
    · cases acc with
      | none => simp [hb, hz, h]
      | some p =>
        obtain ⟨i0, k0⟩ := p
        by_cases hlt : rowNz e T ⟨k, h⟩ < k0 <;> simp [hb, hz, h, hlt]
    · simp [hb, hz, h]
  · simp [hb]

theorem hand_nat :
    phi ((List.finRange m).foldl (stepF e T j below) none) = (List.range' 0 m).foldl (stepN e T j below) none := by
  have h1 := forGo_eq_foldlM (phi (m := m)) m (fun acc i => ok (stepF e T j below acc i))
    (fun k a => ok (Ctl.next (stepN e T j below a k))) 0 none (by
      intro i h s
      simp only [Nat.zero_add, bind_ok, phi_step])
  rw [forGo_pure, foldlM_ok] at h1
  simp only [bind_ok, Res.ok.injEq, Prod.mk.injEq, and_true] at h1
  exact h1.symm

theorem stepN_noop (l : List Nat) (a : Option (Nat × Nat)) (h : ∀ k ∈ l, k < below) :
    l.foldl (stepN e T j below) a = a := by
  induction l generalizing a with
  | nil => rfl
  | cons x xs ih =>
    have hx : ¬ below ≤ x := Nat.not_le.2 (h x (by simp))
    simp only [List.foldl_cons]
    rw [show stepN e T j below a x = a by simp [stepN, hx]]
    exact ih a (fun k hk => h k (by simp [hk]))

theorem stepN_above (l : List Nat) (a : Option (Nat × Nat)) (h : ∀ k ∈ l, below ≤ k) :
    l.foldl (stepN e T j below) a =
      ((l.filter (qN e T j)).map fun k => (k, rN e T k)).foldl keyStep a := by
  rw [List.foldl_map, ← foldl_filter]
  induction l generalizing a with
  | nil => rfl
  | cons x xs ih =>
    have hx : below ≤ x := h x (by simp)
    simp only [List.foldl_cons]
    rw [show stepN e T j below a x = (if qN e T j x then keyStep a (x, rN e T x) else a) by simp [stepN, hx]]
    exact ih _ (fun k hk => h k (by simp [hk]))

theorem keyStep_minBy (l : List (Nat × Nat)) :
    l.foldl keyStep none = Iter.minBy (fun a b => compare a.2 b.2) l := by
  have := minBy_fold (fun p : Nat × Nat => p.2) l
  rw [← this]
  congr 1
  funext acc y
  cases acc <;> rfl

theorem nat_fold_eq :
    (List.range' 0 m).foldl (stepN e T j below) none =
      Iter.minBy (fun a b => compare a.2 b.2)
        (((List.range' below (m - below)).filter (qN e T j)).map fun k => (k, rN e T k)) := by
  rw [← keyStep_minBy]
  by_cases hb : below ≤ m
  · have hsplit := range'_split 0 below (m - below)
    rw [show below + (m - below) = m by omega, Nat.zero_add] at hsplit
    rw [hsplit, List.foldl_append, stepN_noop e T j below _ none (by
      intro k hk; have := List.mem_range'_1.1 hk; omega)]
    exact stepN_above e T j below _ none (by intro k hk; have := List.mem_range'_1.1 hk; omega)
  · rw [show m - below = 0 by omega]
    simp only [List.range'_zero, List.filter_nil, List.map_nil, List.foldl_nil]
    exact stepN_noop e T j below _ none (by intro k hk; have := List.mem_range'_1.1 hk; omega)

end pivot

theorem select_pivot_eq' (e : EOps α) (dbg : Bool) (s : St α m n) (below : Nat) (j : Fin n) :
    SnfCalc.select_pivot e dbg (ofSt s) below j.1 = ok ((selectPivot e s.t below j).map Fin.val) := by
  unfold SnfCalc.select_pivot
  have hf : Iter.filterM (SnfCalc.select_pivot_closure1 (m := m) (n := n) e dbg (ofSt s) j.1)
      (List.range' below (m - below)) = ok ((List.range' below (m - below)).filter (qN e s.t j)) := by
    apply filterM_ok
    intro k hk
    have hk' : k < m := by have := List.mem_range'_1.1 hk; omega
    have := get_in s.t ⟨k, hk'⟩ j
    simp only [] at this
    simp [SnfCalc.select_pivot_closure1, ofSt, this, qN, hk']
  have hm : Iter.mapM (SnfCalc.select_pivot_closure2 (m := m) (n := n) e dbg (ofSt s))
      ((List.range' below (m - below)).filter (qN e s.t j)) =
      ok (((List.range' below (m - below)).filter (qN e s.t j)).map fun k => (k, rN e s.t k)) := by
    apply mapM_ok
    intro k hk
    have hk1 := (List.mem_filter.1 hk).1
    have hk' : k < m := by have := List.mem_range'_1.1 hk1; omega
    have := row_nz_eq' e dbg s ⟨k, hk'⟩
    simp only [] at this
    simp [SnfCalc.select_pivot_closure2, this, rN, hk']
  simp only [hf, hm, bind_ok]
  rw [selectPivot_def, Option.map_map]
  have h4 : (SnfCalc.select_pivot_closure4 (m := m) (n := n) e dbg) = fun p : Nat × Nat => p.1 := by
    funext p; cases p; rfl
  have h3 : (SnfCalc.select_pivot_closure3 (m := m) (n := n) e dbg) = fun a b : Nat × Nat => compare a.2 b.2 := rfl
  rw [h4, h3, ← nat_fold_eq e s.t j below, ← hand_nat e s.t j below]
  simp [phi, Option.map_map, Function.comp_def]


/-- a `for` body that never breaks against a monadic fold over the `Nat` list of the indices -/
theorem forGo_eq_foldlM_range {σ τ : Type} (φ : τ → σ) (g : τ → Nat → Res τ) (f : Nat → σ → Res (Ctl σ)) :
    ∀ (d b : Nat) (s : τ),
      (∀ (k : Nat) (s : τ), b ≤ k → k < b + d → f k (φ s) = (g s k >>= fun s' => ok (Ctl.next (φ s')))) →
      Loop.forGo f d b (φ s) = ((List.range' b d).foldlM g s >>= fun s' => ok (φ s', true)) := by
  intro d
  induction d with
  | zero => intro b s _; simp [Loop.forGo]
  | succ d ih =>
    intro b s hf
    have h0 := hf b s (Nat.le_refl b) (by omega)
    unfold Loop.forGo
    rw [h0, List.range'_succ, List.foldlM_cons]
    cases hg : g s b with
    | ok s1 =>
      simp only [bind_ok]
      exact ih (b + 1) s1 (fun k s' h1 h2 => hf k s' (by omega) (by omega))
    | panic => rfl
    | err => rfl

end Yuiv.C09Gen
