import Yuiv.Gen.SnfFn
/-
Helper definitions and lemmas for `Yuiv/Props/C09Gen.lean` (no property theorem here).

`Yuiv.GenSnf.*` is GENERATED from `/repo/yui-matrix/src/dense/snf.rs` by `tools/rs2lean_fn.py fn:snf`; `Yuiv.C09.*` is the
hand-written model of `SnfCalc` (all four transforms always tracked, `Fin` indices).  `ofSt` embeds a model state into
the generated struct (all four `Option` fields `some`); `mapR` lifts it to results.
-/
namespace Yuiv.C09Gen
open Yuiv Res Yuiv.Rust Yuiv.GenSnf Yuiv.C09

variable {α : Type} {m n : Nat}

def ofSt (s : St α m n) : SnfCalcS α m n := ⟨s.t, some s.p, some s.pinv, some s.q, some s.qinv⟩

def mapR {β γ} (f : β → γ) : Res β → Res γ
  | .ok a => .ok (f a)
  | .panic => .panic
  | .err => .err

theorem mapR_ok {β γ} (f : β → γ) (a : β) : mapR f (ok a) = ok (f a) := rfl
theorem mapR_panic {β γ} (f : β → γ) : mapR f (.panic : Res β) = .panic := rfl
theorem mapR_err {β γ} (f : β → γ) : mapR f (.err : Res β) = .err := rfl
theorem bind_assoc' {β γ δ} (x : Res β) (f : β → Res γ) (g : γ → Res δ) :
    ((x >>= f) >>= g) = (x >>= fun a => f a >>= g) := by cases x <;> rfl
theorem ite_bind {β γ} (c : Prop) [Decidable c] (x y : Res β) (f : β → Res γ) :
    ((if c then x else y) >>= f) = if c then x >>= f else y >>= f := by split <;> rfl
theorem bind_congr' {β γ} (x : Res β) {f g : β → Res γ} (h : ∀ a, f a = g a) : (x >>= f) = (x >>= g) := by
  cases x <;> simp [h]
theorem assert_true : Res.assert true = ok () := rfl
theorem assert_false : Res.assert false = (.panic : Res Unit) := rfl

instance : LawfulMonad Res := LawfulMonad.mk'
  (id_map := fun x => by cases x <;> rfl)
  (pure_bind := fun _ _ => rfl)
  (bind_assoc := fun x _ _ => by cases x <;> rfl)

/-! ### dense primitives in range -/

theorem get_in (A : Mat α m n) (i : Fin m) (j : Fin n) : Dense.get A i.1 j.1 = ok (A.get i j) := by
  simp [Dense.get, i.2, j.2]
theorem swap_rows_in {k l : Nat} (A : Mat α k l) (i j : Fin k) : Dense.swap_rows A i.1 j.1 = ok (swapRows A i j) := by
  simp [Dense.swap_rows, i.2, j.2]
theorem swap_cols_in {k l : Nat} (A : Mat α k l) (i j : Fin l) : Dense.swap_cols A i.1 j.1 = ok (swapCols A i j) := by
  simp [Dense.swap_cols, i.2, j.2]
theorem mul_row_in {k l : Nat} (e : EOps α) (A : Mat α k l) (i : Fin k) (u : α) :
    Dense.mul_row e A i.1 u = ok (mulRow e.toROps A i u) := by simp [Dense.mul_row, i.2]
theorem mul_col_in {k l : Nat} (e : EOps α) (A : Mat α k l) (j : Fin l) (u : α) :
    Dense.mul_col e A j.1 u = ok (mulCol e.toROps A j u) := by simp [Dense.mul_col, j.2]
theorem left_in {k l : Nat} (e : EOps α) (A : Mat α k l) (a b c d : α) (i j : Fin k) :
    Dense.left_elementary e A (a, b, c, d) i.1 j.1 = ok (leftElem e.toROps A a b c d i j) := by
  simp [Dense.left_elementary, i.2, j.2]
theorem right_in {k l : Nat} (e : EOps α) (A : Mat α k l) (a b c d : α) (i j : Fin l) :
    Dense.right_elementary e A (a, b, c, d) i.1 j.1 = ok (rightElem e.toROps A a b c d i j) := by
  simp [Dense.right_elementary, i.2, j.2]


/-! ### counting -/

theorem count_foldl {ι : Type} (z : ι → Bool) (l : List ι) (c : Nat) :
    l.foldl (fun c j => if z j then c else c + 1) c = c + (l.filter fun j => !z j).length := by
  induction l generalizing c with
  | nil => simp
  | cons x xs ih =>
    simp only [List.foldl_cons, List.filter_cons]
    cases hz : z x <;> simp [ih] <;> omega

/-! ### `for k in 0..n` against a fold over `List.finRange n` -/

/-- a `for` body that never breaks, on states related by an embedding `φ` of the model's state: `Loop.forGo` is the
monadic fold of the per-index step -/
theorem forGo_eq_foldlM {σ τ : Type} (φ : τ → σ) : ∀ (k : Nat) (g : τ → Fin k → Res τ) (f : Nat → σ → Res (Ctl σ))
    (k0 : Nat) (s : τ),
    (∀ (i : Nat) (h : i < k) (s : τ), f (k0 + i) (φ s) = (g s ⟨i, h⟩ >>= fun s' => ok (Ctl.next (φ s')))) →
    Loop.forGo f k k0 (φ s) = ((List.finRange k).foldlM g s >>= fun s' => ok (φ s', true)) := by
  intro k
  induction k with
  | zero => intro g f k0 s _; simp [Loop.forGo]
  | succ k ih =>
    intro g f k0 s hf
    have h0 := hf 0 (Nat.succ_pos k) s
    simp only [Nat.add_zero] at h0
    rw [List.finRange_succ, List.foldlM_cons]
    simp only [List.foldlM_map]
    unfold Loop.forGo
    rw [h0, show g s (0 : Fin (k + 1)) = g s ⟨0, Nat.succ_pos k⟩ from rfl]
    cases hg : g s ⟨0, Nat.succ_pos k⟩ with
    | ok s1 =>
      simp only [bind_ok]
      exact ih (fun s i => g s i.succ) f (k0 + 1) s1 (by
        intro i h s'
        have := hf (i + 1) (Nat.succ_lt_succ h) s'
        rw [show k0 + 1 + i = k0 + (i + 1) by omega]
        exact this)
    | panic => rfl
    | err => rfl

theorem forRange_eq_foldlM {σ τ : Type} (φ : τ → σ) (k : Nat) (g : τ → Fin k → Res τ) (f : Nat → σ → Res (Ctl σ)) (s : τ)
    (hf : ∀ (i : Nat) (h : i < k) (s : τ), f i (φ s) = (g s ⟨i, h⟩ >>= fun s' => ok (Ctl.next (φ s')))) :
    Loop.forRange 0 k f (φ s) = ((List.finRange k).foldlM g s >>= fun s' => ok (φ s', true)) := by
  unfold Loop.forRange
  exact forGo_eq_foldlM φ k g f 0 s (by intro i h s'; simpa using hf i h s')

end Yuiv.C09Gen
