import Yuiv.Proofs.C06WalkReply
import Yuiv.Proofs.C06WalkGen
import Yuiv.Proofs.C06WalkKnot
import Yuiv.Proofs.C18InvMain
import Yuiv.Proofs.C18BridgeMain
/-
C06Walk — the reply of the C06 driver on braid closures (helper; property theorems in `Props/C06Walk.lean`).
-/
namespace Yuiv.C06Walk
open Yuiv Yuiv.KhRef Yuiv.C06Canon Yuiv.C04Inv Yuiv.C06Cycle Yuiv.Drv.C06 Yuiv.C06Closure
open Yuiv.C18 (closure posLab)
open Yuiv.C18Bridge (toKh encSign)

/-- the pair `(hypOk, setsOk)` of `Drv/C06.canonReply`, verbatim -/
def replyFlags (l : Link) (signs : List Int) (h : Int) (base : Option Nat) (zs : List Chain) : Bool × Bool :=
  let s := oriPresState signs
  let cube : Cube := { (mkCube l ⟨h, 0, false⟩) with base := base }
  let circ := (cube.circ[s]!).toList
  let start := match base with | some e => some e | none => firstEdge l
  match start with
  | none => (zs.isEmpty, zs.isEmpty)
  | some e =>
    if zs.isEmpty then (true, true) else
    match coloredSeifertCircles l signs e with
    | .ok cc =>
      let a := (cc.map (fun pc => sortNat pc.1.edges)).toArray.qsort (fun x y => x.headD 0 < y.headD 0)
      (crossingsBicoloured l cc, a.toList == circ.map (·.toList))
    | _ => (false, false)

/-- the flag `dzOk` of `canonReply`, verbatim -/
def replyDz (l : Link) (h : Int) (base : Option Nat) (zs : List Chain) : Bool :=
  zs.all (fun z => match dOfChain { (mkCube l ⟨h, 0, false⟩) with base := base } ⟨h, 0, base.isSome⟩ z with
    | some [] => true | _ => false)

/-- cycles are only built for knots -/
theorem canonCyclesAt_knot (l : Link) (signs : List Int) (h : Int) (base : Option Nat) (zs : List Chain)
    (hz : canonCyclesAt l signs h base = .ok zs) :
    zs = [] ∨ ∃ comps, components l = .ok comps ∧ comps.length = 1 := by
  unfold canonCyclesAt at hz
  split at hz
  · rename_i comps hc
    split at hz
    · left; cases hz; rfl
    · rename_i hne
      right
      exact ⟨comps, hc, by simpa using hne⟩
  · cases hz
  · cases hz

/-- for a KNOT closure: the word uses every generator and the reference's orientation preserving state is
`braidState w` -/
theorem knot_closure_facts (n : Nat) (w : List Int) (l : C18.Link) (hcl : closure n w = .ok l)
    (comps : List Path) (hc : components (toKh l) = .ok comps) (h1 : comps.length = 1)
    (sg : Array Int) (hsg : KhRef.crossingSigns (toKh l) = some sg) :
    (∀ g, g + 1 < n → ∃ j, j < w.length ∧ (w.getD j 0).natAbs - 1 = g) ∧
    oriPresState sg.toList = braidState w := by
  refine ⟨every_generator_of_knot n w l hcl comps hc h1, ?_⟩
  have hv := C18.closure_valid' n w l hcl
  have hD := determined_of_knot l hv comps hc h1
  obtain ⟨hO, hU⟩ := C18.closure_orient n w l hcl
  have e1 : KhRef.crossingSigns (toKh l) = some ((w.map C18.braidSign).map encSign).toArray := by
    rw [C18Bridge.khSigns_enc l hv, C18.crossingSigns_determined' l hv _ hO hU hD, C18.closure_signs_braid n w l hcl]
    rfl
  rw [e1] at hsg
  rw [← Option.some.inj hsg, braidState_eq, List.map_map]
  congr 1
  apply List.map_congr_left
  intro s _
  by_cases hs : s > 0 <;> simp [C18.braidSign, hs, encSign]

/-- **every flag of the driver's reply is `true` on every braid closure** (links: no cycles are built; knots: the
checks `hyp`, `sets` hold by the walk specification and the strand structure, `dz` by `canon_is_cycle`) -/
theorem reply_flags_closure (n : Nat) (w : List Int) (l : C18.Link) (hcl : closure n w = .ok l)
    (sg : Array Int) (hsg : KhRef.crossingSigns (toKh l) = some sg) (h : Int) (base : Option Nat) (zs : List Chain)
    (hz : canonCyclesAt (toKh l) sg.toList h base = .ok zs) :
    replyDz (toKh l) h base zs = true ∧ replyFlags (toKh l) sg.toList h base zs = (true, true) := by
  have hv := validK_toKh l (C18.closure_valid' n w l hcl)
  rcases canonCyclesAt_knot _ _ _ _ _ hz with rfl | ⟨comps, hc, h1⟩
  · refine ⟨rfl, ?_⟩
    unfold replyFlags
    dsimp only
    split <;> rfl
  · obtain ⟨hgen, hso⟩ := knot_closure_facts n w l hcl comps hc h1 sg hsg
    have hs : braidState w < 2 ^ crossingNum (toKh l) := by
      obtain ⟨ins, outs, hB⟩ := C18.closure_bform n w l hcl
      rw [crossingNum_toKh_closure hB]; exact braidState_lt w
    have hchk : ∀ start cc, (match base with | some e => some e | none => firstEdge (toKh l)) = some start →
        coloredSeifertCircles (toKh l) sg.toList start = .ok cc →
        crossingsBicoloured (toKh l) cc = true ∧
        (((cc.map (fun pc => sortNat pc.1.edges)).toArray.qsort (fun x y => x.headD 0 < y.headD 0)).toList
          == ((({ mkCube (toKh l) ⟨h, 0, false⟩ with base := base } : Cube).circ[oriPresState sg.toList]!).toList.map
                (·.toList))) = true := by
      intro start cc _ hcc
      obtain ⟨c1, c2⟩ := closure_checks n w l hcl hgen sg.toList hso start cc hcc
      refine ⟨c1, ?_⟩
      rw [hso, mkCube_circ _ _ base _ hs, c2]
      exact beq_self_eq_true _
    refine ⟨canon_reply_dz (toKh l) hv sg hsg h base zs hz hchk, ?_⟩
    unfold replyFlags
    dsimp only
    rcases canonCyclesAt_cc _ _ _ _ _ hz with rfl | ⟨start, cc, hstart, hcc, _⟩
    · split <;> rfl
    · obtain ⟨c1, c2⟩ := hchk start cc hstart hcc
      cases base with
      | some e =>
        simp only [Option.some.injEq] at hstart
        subst hstart
        dsimp only
        split
        · rfl
        · rw [hcc]
          exact Prod.ext c1 c2
      | none =>
        simp only at hstart
        dsimp only
        rw [hstart]
        dsimp only
        split
        · rfl
        · rw [hcc]
          exact Prod.ext c1 c2

end Yuiv.C06Walk
