import Yuiv.Proofs.C11Seq
/-
C11 — well-formedness checker, triangular orders, soundness of the output checkers.
-/
namespace Yuiv.C11
open Yuiv Res Std

theorem incrB_sound : ∀ (l : List Nat), incrB l = true → l.Pairwise (· < ·) := by
  intro l
  induction l with
  | nil => intro _; exact List.Pairwise.nil
  | cons a l ih =>
    intro h
    simp only [incrB, Bool.and_eq_true, List.all_eq_true, decide_eq_true_eq] at h
    exact List.pairwise_cons.2 ⟨h.1, ih h.2⟩

theorem getD_oob {α} (a : Array α) (i : Nat) (d : α) (h : a.size ≤ i) : a.getD i d = d := by
  unfold Array.getD
  rw [dif_neg (by omega)]

theorem Str.wfB_sound (s : Str) (h : s.wfB = true) : s.WF := by
  unfold Str.wfB at h
  rw [List.all_eq_true] at h
  constructor
  · intro i
    by_cases hi : i < max s.ent.size s.cnd.size
    · have := h i (List.mem_range.2 hi)
      simp only [Bool.and_eq_true] at this
      exact incrB_sound _ this.1
    · have : colsIn s i = [] := getD_oob _ _ _ (by omega)
      rw [this]; exact List.Pairwise.nil
  · intro i j hc
    unfold isCand at hc
    by_cases hi : i < max s.ent.size s.cnd.size
    · have := h i (List.mem_range.2 hi)
      simp only [Bool.and_eq_true, List.all_eq_true] at this
      have h2 := this.2 j (by simpa using hc)
      simpa [colsIn] using h2
    · have : s.cnd.getD i [] = [] := getD_oob _ _ _ (by omega)
      rw [this] at hc; simp at hc

/-! ### triangular orders -/

/-- `L` lists the pivots so that the row of a later pivot has no entry in the column of an earlier one:
after moving the rows/columns of `L` to the front in this order, the leading block is upper triangular
(internal orientation; for `PivotType::Cols` the matrix is transposed, giving lower triangular) -/
def Triangular (s : Str) (L : List (Nat × Nat)) : Prop :=
  L.Pairwise (fun p q => p.2 ∉ colsIn s q.1)

theorem checkTri_sound (s : Str) : ∀ L, checkTri s L = true → Triangular s L := by
  intro L
  induction L with
  | nil => intro _; exact List.Pairwise.nil
  | cons p L ih =>
    intro h
    simp only [checkTri, Bool.and_eq_true, List.all_eq_true, Bool.not_eq_true', List.contains_eq_mem,
      decide_eq_false_iff_not] at h
    exact List.pairwise_cons.2 ⟨h.1, ih h.2⟩

theorem nodupB_sound : ∀ (l : List Nat), nodupB l = true → l.Nodup := by
  intro l
  induction l with
  | nil => intro _; exact List.nodup_nil
  | cons a l ih =>
    intro h
    simp only [nodupB, Bool.and_eq_true, Bool.not_eq_true', List.contains_eq_mem,
      decide_eq_false_iff_not] at h
    exact List.nodup_cons.2 ⟨h.1, ih h.2⟩

/-- an order is triangular ⇒ the set is acyclic (rank = position from the end) -/
theorem triangular_acyclic (s : Str) : ∀ (L : List (Nat × Nat)), (L.map (·.2)).Nodup → Triangular s L →
    Acyclic s L := by
  intro L
  induction L with
  | nil => intro _ _; exact ⟨fun _ => 0, by simp⟩
  | cons a L ih =>
    intro hnd ht
    have hnd' := List.nodup_cons.1 hnd
    have ht' := List.pairwise_cons.1 ht
    obtain ⟨rk, hrk⟩ := ih hnd'.2 ht'.2
    obtain ⟨N, hN⟩ := rank_bound rk L
    refine ⟨fun j => if j = a.2 then N else rk j, ?_⟩
    have hne : ∀ p ∈ L, p.2 ≠ a.2 := fun p hp e => hnd'.1 (List.mem_map.2 ⟨p, hp, e⟩)
    intro p hp q hq hpq hE
    rcases List.mem_cons.1 hp with hp1 | hp1
    · rcases List.mem_cons.1 hq with hq1 | hq1
      · rw [hp1, hq1] at hpq; exact absurd rfl hpq
      · rw [hp1]; simp only [hne q hq1, if_false, if_true]; exact hN q hq1
    · rcases List.mem_cons.1 hq with hq1 | hq1
      · rw [hq1] at hE; exact absurd hE (ht'.1 p hp1)
      · simp only [hne p hp1, hne q hq1, if_false]; exact hrk p hp1 q hq1 hpq hE

/-- an acyclic pivot set with distinct columns admits a triangular order -/
theorem acyclic_triangular_core (s : Str) (S : Pivs) (hc : (S.map (·.2)).Nodup) (hA : Acyclic s S) :
    ∃ L, L.Perm S ∧ Triangular s L := by
  obtain ⟨rk, hrk⟩ := hA
  let le : (Nat × Nat) → (Nat × Nat) → Bool := fun p q => decide (rk q.2 ≤ rk p.2)
  refine ⟨S.mergeSort le, List.mergeSort_perm S le, ?_⟩
  have hperm := List.mergeSort_perm S le
  have hsorted : (S.mergeSort le).Pairwise (fun p q => le p q = true) :=
    List.pairwise_mergeSort (fun a b c h1 h2 => by simp only [le, decide_eq_true_eq] at *; omega)
      (fun a b => by simp only [le, Bool.or_eq_true, decide_eq_true_eq]; omega) S
  have hnd : ((S.mergeSort le).map (·.2)).Nodup := (hperm.map _).nodup_iff.2 hc
  have hne : (S.mergeSort le).Pairwise (fun p q => p.2 ≠ q.2) := List.pairwise_map.1 hnd
  refine (hsorted.and hne).imp_of_mem ?_
  intro p q hp hq h
  obtain ⟨h1, h2⟩ := h
  simp only [le, decide_eq_true_eq] at h1
  intro hE
  have := hrk q (hperm.mem_iff.1 hq) p (hperm.mem_iff.1 hp) (fun e => h2 e.symm) hE
  omega

theorem checkPivots_sound (s : Str) (L : List (Nat × Nat)) (h : checkPivots s L = true) :
    PInv s L ∧ Triangular s L := by
  simp only [checkPivots, Bool.and_eq_true, List.all_eq_true] at h
  obtain ⟨⟨⟨h1, h2⟩, h3⟩, h4⟩ := h
  have ht := checkTri_sound s L h4
  have hc := nodupB_sound _ h2
  exact ⟨⟨nodupB_sound _ h1, hc, h3, triangular_acyclic s L hc ht⟩, ht⟩

theorem PInv.perm {s : Str} {L S : Pivs} (h : PInv s L) (hp : L.Perm S) : PInv s S := by
  refine ⟨(hp.map _).nodup_iff.1 h.rows, (hp.map _).nodup_iff.1 h.cols, ?_, ?_⟩
  · intro p hpS; exact h.cand p (hp.mem_iff.2 hpS)
  · obtain ⟨rk, hrk⟩ := h.acyc
    exact ⟨rk, fun p hp' q hq' => hrk p (hp.mem_iff.2 hp') q (hp.mem_iff.2 hq')⟩

theorem checkInit_sound (s : Str) (S : Pivs) (h : checkInit s S = true) : PInv s S := by
  unfold checkInit at h
  split at h
  · rename_i L _
    simp only [Bool.and_eq_true] at h
    exact (checkPivots_sound s L h.1).1.perm (List.isPerm_iff.1 h.2)
  · simp at h

/-- a table that passes the checker, together with the rows that remain, is a state satisfying the global
invariant: the parallel phase may be started from it -/
theorem checkInit_ginv (s : Str) (S : Pivs) (h : checkInit s S = true) : GInv s ⟨S, remainRows s S, []⟩ :=
  ⟨checkInit_sound s S h, by simp, remainRows_nodup s S, by simp, remainRows_not_pivot s S, by simp⟩

/-! ### the sequential phases always return (no `err`: there is no fuel in them) -/

theorem bind_ne_err {α β} {x : Res α} {f : α → Res β} (hx : x ≠ .err) (hf : ∀ a, f a ≠ .err) :
    (x >>= f) ≠ .err := by
  cases x with
  | ok a => exact hf a
  | err => exact absurd rfl hx
  | panic => intro h; cases h

theorem set_ne_err (S : Pivs) (i j : Nat) : S.set i j ≠ .err := by
  unfold Pivs.set; split <;> intro h <;> cases h

theorem flLoop_ne_err (s : Str) (is : List Nat) : ∀ S, flLoop s is S ≠ .err := by
  induction is with
  | nil => intro S h; cases h
  | cons i is ih =>
    intro S
    rw [flLoop]
    split
    · exact ih S
    · split
      · exact bind_ne_err (set_ne_err S _ _) (fun S' => ih S')
      · exact ih S

theorem flColLoop_ne_err (s : Str) (is : List Nat) : ∀ occ S, flColLoop s is occ S ≠ .err := by
  induction is with
  | nil => intro occ S h; cases h
  | cons i is ih =>
    intro occ S
    rw [flColLoop]
    split
    · exact ih occ S
    · exact bind_ne_err (set_ne_err S _ _) (fun S' => ih _ S')

theorem initState_ne_err (s : Str) : initState s ≠ .err := by
  unfold initState seqPhases
  refine bind_ne_err (bind_ne_err ?_ ?_) (fun S h => by cases h)
  · exact flLoop_ne_err s _ _
  · intro S; exact flColLoop_ne_err s _ _ _

end Yuiv.C11
