import Yuiv.Proofs.C04ReidBraid
/-
C04Reid (helper, no property theorem here): Reidemeister II in braid form, assembly.
-/
open Yuiv.KhRef Yuiv.C04
namespace Yuiv.C04Inv
open Relation
open Yuiv.C18 (closureStep closurePD closure connRename hasFreeLoop CInv PD flatPD fromPD4)
open Yuiv.C18Bridge (toKh crossingKh)

variable {R : Type} [CommRing R]

/-- the two crossings written by the letters `s`, `−s` on the strands with current bottom labels `a`, `b`, count `c` -/
def pairX (s : Int) (a b c : Nat) : (Nat × Nat × Nat × Nat) × (Nat × Nat × Nat × Nat) :=
  if s > 0 then ((a, c, c + 1, b), (c + 1, c, c + 2, c + 3)) else ((b, a, c, c + 1), (c, c + 2, c + 3, c + 1))

/-- facts about a state of the closure loop that follow from `CInv` -/
theorem cinv_facts {n : Nat} {st : Nat × List Nat × PD} (hI : CInv n st) :
    st.2.1.Nodup ∧ (∀ z ∈ st.2.1, z < st.1) ∧ (∀ z ∈ flatPD st.2.2, z < st.1) ∧
      (∀ z ∈ st.2.1, z < n ∨ z ∈ flatPD st.2.2) := by
  obtain ⟨hlen, hle, hcb, hown, hcnt⟩ := hI
  refine ⟨List.nodup_iff_count.2 hcb, ?_, ?_, ?_⟩
  · intro z hz
    have c := hcnt z
    have : 0 < st.2.1.count z := List.count_pos_iff.2 hz
    by_contra h
    rw [if_neg h] at c
    omega
  · intro z hz
    have c := hcnt z
    have : 0 < (flatPD st.2.2).count z := List.count_pos_iff.2 hz
    by_contra h
    rw [if_neg h] at c
    omega
  · intro z hz
    by_cases h : z < n
    · exact Or.inl h
    · right
      have c := hcnt z
      have h1 : 0 < st.2.1.count z := List.count_pos_iff.2 hz
      have h2 := hcb z
      rw [if_neg h] at c
      apply List.count_pos_iff.1
      split at c <;> omega

/-- the state after the inserted pair `s, −s` -/
theorem pair_steps {n : Nat} {st q m : Nat × List Nat × PD} {s : Int} (hI : CInv n st)
    (h1 : closureStep st s = .ok q) (h2 : closureStep q (-s) = .ok m) :
    ∃ a b, a < st.1 ∧ b < st.1 ∧ a ∈ st.2.1 ∧ b ∈ st.2.1 ∧ s ≠ 0 ∧
      m = (st.1 + 4, st.2.1.map (gShift a b st.1), st.2.2 ++ [(pairX s a b st.1).1, (pairX s a b st.1).2]) := by
  obtain ⟨hnd, hlt, _, _⟩ := cinv_facts hI
  obtain ⟨a, b, hs0, ha, hb, rfl⟩ := C18.closureStep_ok h1
  obtain ⟨a', b', _, ha', hb', rfl⟩ := C18.closureStep_ok h2
  obtain ⟨c, bot, pd⟩ := st
  simp only at ha hb ha' hb' hnd hlt ⊢
  rw [Int.natAbs_neg] at ha' hb' ⊢
  generalize hi : s.natAbs - 1 = i at *
  have hil : i < bot.length := by
    rcases Nat.lt_or_ge i bot.length with h | h
    · exact h
    · rw [List.getElem?_eq_none h] at ha; cases ha
  have hil1 : i + 1 < bot.length := by
    rcases Nat.lt_or_ge (i + 1) bot.length with h | h
    · exact h
    · rw [List.getElem?_eq_none h] at hb; cases hb
  have ea : bot[i] = a := by rw [List.getElem?_eq_getElem hil] at ha; exact Option.some.inj ha
  have eb : bot[i + 1] = b := by rw [List.getElem?_eq_getElem hil1] at hb; exact Option.some.inj hb
  have ea' : c = a' := by
    rw [List.getElem?_set_ne (by omega), List.getElem?_set_self hil] at ha'; exact Option.some.inj ha'
  have eb' : c + 1 = b' := by
    rw [List.getElem?_set_self (by simpa using hil1)] at hb'; exact Option.some.inj hb'
  have ham : a ∈ bot := ea ▸ List.getElem_mem hil
  have hbm : b ∈ bot := eb ▸ List.getElem_mem hil1
  have hab : a ≠ b := by
    intro h
    have := (List.Nodup.getElem_inj_iff hnd (hi := hil) (hj := hil1)).1 (by rw [ea, eb, h])
    omega
  have hs : s ≠ 0 := by intro h; subst h; simp at hs0
  refine ⟨a, b, hlt a ham, hlt b hbm, ham, hbm, hs, ?_⟩
  subst ea' eb'
  refine Prod.ext (by simp only) (Prod.ext ?_ ?_)
  · simp only
    apply List.ext_getElem (by simp)
    intro k hk1 hk2
    simp only [List.getElem_set, List.getElem_map]
    have hk : k < bot.length := by simpa using hk2
    by_cases hki1 : i + 1 = k
    · subst hki1
      rw [if_pos rfl, eb]
      unfold gShift
      rw [if_neg (fun h => hab h.symm), if_pos rfl]
    · rw [if_neg hki1]
      by_cases hki : i = k
      · subst hki
        rw [if_pos rfl, ea]
        unfold gShift
        rw [if_pos rfl]
      · rw [if_neg hki, if_neg hki1, if_neg hki]
        have n1 : bot[k] ≠ a := by
          intro h
          exact hki ((List.Nodup.getElem_inj_iff hnd (hi := hil) (hj := hk)).1 (by rw [ea, h]))
        have n2 : bot[k] ≠ b := by
          intro h
          exact hki1 ((List.Nodup.getElem_inj_iff hnd (hi := hil1) (hj := hk)).1 (by rw [eb, h]))
        have n3 : bot[k] < c := hlt _ (List.getElem_mem hk)
        unfold gShift
        rw [if_neg n1, if_neg n2, if_neg (by omega)]
  · simp only [pairX, List.append_assoc, List.cons_append, List.nil_append]
    by_cases hpos : s > 0
    · have h' : 0 ≤ s := by omega
      simp [hpos, h']
    · have h' : s < 0 := by omega
      simp [hpos, h']

theorem mem_labelSet_rawLinkP (pd : PD) (ps : List (Nat × Nat)) (z : Nat) :
    z ∈ labelSet (rawLinkP pd ps) ↔ z ∈ flatPD pd ∨ ∃ p ∈ ps, z = p.1 ∨ z = p.2 := by
  simp only [labelSet, rawLinkP, Set.mem_ofPred_eq, List.mem_toArray, List.mem_append, Array.mem_toList_iff]
  constructor
  · rintro ⟨c, hc | hc, hz⟩
    · exact Or.inl ((mem_labelSet_pdLink pd z).1 ⟨c, hc, hz⟩)
    · simp only [closeX, List.mem_map] at hc
      obtain ⟨p, hp, rfl⟩ := hc
      right; refine ⟨p, hp, ?_⟩
      simp at hz; tauto
  · rintro (h | ⟨p, hp, h⟩)
    · obtain ⟨c, hc, hz⟩ := (mem_labelSet_pdLink pd z).2 h
      exact ⟨c, Or.inl hc, hz⟩
    · exact ⟨_, Or.inr (List.mem_map.2 ⟨p, hp, rfl⟩), by simp; tauto⟩

theorem WF_rawLinkP (pd : PD) (ps : List (Nat × Nat)) : WF (rawLinkP pd ps) := by
  intro c hc
  simp only [rawLinkP, List.mem_toArray, List.mem_append, Array.mem_toList_iff] at hc
  rcases hc with hc | hc
  · exact WF_pdLink pd c hc
  · simp only [closeX, List.mem_map] at hc
    obtain ⟨p, _, rfl⟩ := hc
    rfl

theorem renumber_rawLinkP (f : Nat → Nat) (pd : PD) (ps : List (Nat × Nat)) :
    renumber f (rawLinkP pd ps) = rawLinkP (pd.map (map4 f)) (ps.map (pmap f)) := by
  simp [renumber, rawLinkP, pdLink, closeX, pdX, map4, pmap, Function.comp_def]

theorem stateSum_renumber (x y : R) {f : Nat → Nat} (l : Link) (hf : Set.InjOn f (labelSet l)) (hwf : WF l) :
    stateSum x y (renumber f l) = stateSum x y l := by
  unfold stateSum
  rw [crossingNum_renumber, funext (circleCount_renumber_on l hf hwf)]

/-- the shift of the labels `≥ c` by 4 -/
def shift4 (c : Nat) (z : Nat) : Nat := if c ≤ z then z + 4 else z

theorem shift4_inj (c : Nat) : Function.Injective (shift4 c) := by
  intro u v h
  unfold shift4 at h
  split at h <;> split at h <;> omega

set_option linter.unusedVariables false in
theorem collapse2_gShift (a b c : Nat) (ha : a < c) (hb : b < c) (z : Nat) :
    collapse2 a b c (c + 1) (c + 2) (c + 3) (gShift a b c z) = shift4 c z := by
  unfold collapse2 gShift shift4
  by_cases h1 : z = a
  · subst h1; simp; omega
  · by_cases h2 : z = b
    · subst h2
      rw [if_neg h1, if_pos rfl, if_neg (by omega), if_pos (by omega), if_neg (by omega)]
    · rw [if_neg h1, if_neg h2]
      by_cases h3 : c ≤ z
      · rw [if_pos h3, if_neg (by omega), if_neg (by omega)]
      · rw [if_neg h3, if_neg (by omega), if_neg (by omega)]

theorem collapse2_lt (a b c : Nat) (z : Nat) (hz : z < c) :
    collapse2 a b c (c + 1) (c + 2) (c + 3) z = shift4 c z := by
  unfold collapse2 shift4
  rw [if_neg (by omega), if_neg (by omega), if_neg (by omega)]

theorem gShift_ne (a b c z : Nat) (ha : a < c) (hb : b < c) : gShift a b c z ≠ c ∧ gShift a b c z ≠ c + 1 := by
  unfold gShift
  split
  · omega
  · split
    · omega
    · split <;> omega

theorem flatPD_map4 (f : Nat → Nat) (pd : PD) : flatPD (pd.map (map4 f)) = (flatPD pd).map f :=
  C18.flatPD_map f pd

theorem rawLinkP_perm (A B : PD) (u v : Nat × Nat × Nat × Nat) (ps : List (Nat × Nat)) :
    (rawLinkP (A ++ [u, v] ++ B) ps).toList.Perm (pdX u :: pdX v :: (rawLinkP (A ++ B) ps).toList) := by
  simp only [rawLinkP, pdLink, List.map_append, List.map_cons, List.append_assoc, List.cons_append,
    List.nil_append]
  exact List.perm_middle.trans (List.Perm.cons _ List.perm_middle)

/-- REIDEMEISTER II IN BRAID FORM, state-sum level -/
theorem braid_r2_stateSum (x y : R) (n : Nat) (w1 w2 : List Int) (s : Int) (l l' : C18.Link)
    (h : closure n (w1 ++ w2) = .ok l) (h' : closure n (w1 ++ [s, -s] ++ w2) = .ok l') :
    ∃ T : R, stateSum x y (toKh l') = x * stateSum x y (toKh l) + (1 + x * y + x ^ 2) * T := by
  obtain ⟨stO, hfO, _, hsO, _⟩ := closure_stateSum x y n _ l h
  obtain ⟨stN, hfN, _, hsN, _⟩ := closure_stateSum x y n _ l' h'
  obtain ⟨st1, hf1, hf2⟩ := (foldlM_append_ok _ _ _ _ _).1 hfO
  rw [List.append_assoc] at hfN
  obtain ⟨st1', hf1', hrest⟩ := (foldlM_append_ok _ _ _ _ _).1 hfN
  have e1 : st1' = st1 := by rw [hf1] at hf1'; exact (Res.ok.inj hf1').symm
  subst e1
  obtain ⟨m, hpair, hf2N⟩ := (foldlM_append_ok _ [s, -s] w2 _ _).1 hrest
  simp only [List.foldlM_cons, List.foldlM_nil] at hpair
  cases hq : closureStep st1' s with
  | panic => rw [hq] at hpair; cases hpair
  | err => rw [hq] at hpair; cases hpair
  | ok q =>
    rw [hq] at hpair
    simp only [bind, Res.bind] at hpair
    cases hq2 : closureStep q (-s) with
    | panic => rw [hq2] at hpair; cases hpair
    | err => rw [hq2] at hpair; cases hpair
    | ok m' =>
      rw [hq2] at hpair
      simp only [pure] at hpair
      cases hpair
      have hI1 := C18.cinv_foldl n w1 _ st1' (C18.cinv_init n) hf1
      have hIO := C18.cinv_foldl n _ _ stO (C18.cinv_init n) hfO
      obtain ⟨a, b, ha, hb, ham, hbm, hs, rfl⟩ := pair_steps hI1 hq hq2
      obtain ⟨hnd, hlt, hpdlt, hlab⟩ := cinv_facts hI1
      obtain ⟨pd2, hpd, hsim⟩ := sim_fold a b st1'.1 ha hb w2 st1' stO (Nat.le_refl _) hf2
      rw [hsim] at hf2N
      cases hf2N
      obtain ⟨c, bot, pd1⟩ := st1'
      obtain ⟨cO, botO, pdO⟩ := stO
      simp only at ha hb ham hbm hlt hpdlt hlab hpd hsO hsN ⊢
      subst hpd
      have hnc : n ≤ c := hI1.le
      have hlenO : botO.length = n := hIO.len
      -- the rest of the new diagram and the collapse map
      have hperm := rawLinkP_perm pd1 (pd2.map (map4 (gShift a b c))) (pairX s a b c).1 (pairX s a b c).2
        ((botO.map (gShift a b c)).zipIdx)
      have hwf := WF_rawLinkP (pd1 ++ pd2.map (map4 (gShift a b c))) ((botO.map (gShift a b c)).zipIdx)
      have hzip : ∀ p ∈ botO.zipIdx, p.2 < c := by
        intro p hp
        have := (List.mem_zipIdx (x := p.1) (i := p.2) (k := 0) hp).2.1
        omega
      -- collapsed rest = shifted old diagram
      have hren : renumber (collapse2 a b c (c + 1) (c + 2) (c + 3))
            (rawLinkP (pd1 ++ pd2.map (map4 (gShift a b c))) ((botO.map (gShift a b c)).zipIdx))
          = renumber (shift4 c) (rawLinkP (pd1 ++ pd2) botO.zipIdx) := by
        rw [renumber_rawLinkP, renumber_rawLinkP]
        congr 1
        · rw [List.map_append, List.map_append, List.map_map]
          congr 1
          · apply List.map_congr_left
            intro t ht
            have m4 : ∀ z ∈ [t.1, t.2.1, t.2.2.1, t.2.2.2], z < c := by
              intro z hz
              apply hpdlt
              simp only [flatPD, List.mem_flatMap]
              exact ⟨t, ht, hz⟩
            simp only [map4]
            rw [collapse2_lt _ _ _ _ (m4 _ (by simp)), collapse2_lt _ _ _ _ (m4 _ (by simp)),
              collapse2_lt _ _ _ _ (m4 _ (by simp)), collapse2_lt _ _ _ _ (m4 _ (by simp))]
          · apply List.map_congr_left
            intro t _
            simp only [Function.comp, map4, collapse2_gShift a b c ha hb]
        · rw [List.zipIdx_map, List.map_map]
          apply List.map_congr_left
          intro p hp
          simp only [Function.comp, pmap, Prod.map, id]
          rw [collapse2_gShift a b c ha hb, collapse2_lt _ _ _ _ (hzip p hp)]
      have hlabOld : ∀ z ∈ bot, z ∈ labelSet (rawLinkP (pd1 ++ pd2) botO.zipIdx) := by
        intro z hz
        rw [mem_labelSet_rawLinkP]
        rcases hlab z hz with h | h
        · right
          exact ⟨(botO[z]'(by omega), z), List.mem_zipIdx_iff_getElem?.2 (by simp [hlenO, h]),
            Or.inr rfl⟩
        · left; rw [C18.flatPD_append]; exact List.mem_append_left _ h
      have hmemC : ∀ z ∈ bot, z ∈ labelSet (renumber (collapse2 a b c (c + 1) (c + 2) (c + 3))
            (rawLinkP (pd1 ++ pd2.map (map4 (gShift a b c))) ((botO.map (gShift a b c)).zipIdx))) := by
        intro z hz
        rw [hren, labelSet_renumber]
        refine ⟨z, hlabOld z hz, ?_⟩
        unfold shift4; rw [if_neg (by have := hlt z hz; omega)]
      have hBL : BigonLabels (rawLinkP (pd1 ++ pd2.map (map4 (gShift a b c))) ((botO.map (gShift a b c)).zipIdx))
          a b c (c + 1) (c + 2) (c + 3) := by
        have key : ∀ z, z ∈ labelSet (rawLinkP (pd1 ++ pd2.map (map4 (gShift a b c)))
            ((botO.map (gShift a b c)).zipIdx)) → z ≠ c ∧ z ≠ c + 1 := by
          intro z hz
          rw [mem_labelSet_rawLinkP, C18.flatPD_append, List.mem_append, flatPD_map4] at hz
          rcases hz with (hz | hz) | ⟨p, hp, hz⟩
          · have := hpdlt z hz; omega
          · obtain ⟨z', _, rfl⟩ := List.mem_map.1 hz
            exact gShift_ne a b c z' ha hb
          · rw [List.zipIdx_map, List.mem_map] at hp
            obtain ⟨p', hp', rfl⟩ := hp
            rcases hz with rfl | rfl
            · exact gShift_ne a b c _ ha hb
            · have := hzip p' hp'
              simp only [Prod.map, id]; omega
        refine ⟨fun hc => (key c hc).1 rfl, fun hd => (key (c + 1) hd).2 rfl, ?_, ?_, ?_, ?_, ?_, ?_, ?_, ?_, ?_, ?_, ?_, ?_⟩ <;> omega
      have hold : stateSum x y (rawLinkP (pd1 ++ pd2) botO.zipIdx) =
          stateSum x y (renumber (collapse2 a b c (c + 1) (c + 2) (c + 3))
            (rawLinkP (pd1 ++ pd2.map (map4 (gShift a b c))) ((botO.map (gShift a b c)).zipIdx))) := by
        rw [hren, stateSum_renumber x y _ (shift4_inj c).injOn (WF_rawLinkP _ _)]
      rw [hsN, hsO, hold]
      by_cases hpos : s > 0
      · have hX : pairX s a b c = ((a, c, c + 1, b), (c + 1, c, c + 2, c + 3)) := by simp [pairX, hpos]
        rw [hX] at hperm ⊢
        exact ⟨_, bigon_stateSum_PN x y hwf hBL (hmemC a ham) (hmemC b hbm) hperm⟩
      · have hX : pairX s a b c = ((b, a, c, c + 1), (c, c + 2, c + 3, c + 1)) := by simp [pairX, hpos]
        rw [hX] at hperm ⊢
        exact ⟨_, bigon_stateSum_NP x y hwf hBL (hmemC a ham) (hmemC b hbm) hperm⟩

/-! ### existence of the new closure -/

theorem closureStep_isOk {n : Nat} {st : Nat × List Nat × PD} (hI : CInv n st) (s : Int) (h1 : s ≠ 0)
    (h2 : s.natAbs < n) : ∃ q, closureStep st s = .ok q := by
  have hlen := hI.len
  have i1 : s.natAbs - 1 < st.2.1.length := by omega
  have i2 : s.natAbs - 1 + 1 < st.2.1.length := by omega
  have h0 : s.natAbs ≠ 0 := by omega
  unfold closureStep
  simp only [if_neg h0, List.getElem?_eq_getElem i1, List.getElem?_eq_getElem i2]
  exact ⟨_, rfl⟩

theorem closure_of_state (n : Nat) (w : List Int) (st : Nat × List Nat × PD)
    (hf : w.foldlM closureStep (n, List.range n, []) = .ok st) (hfl : hasFreeLoop st.2.1 = false) :
    ∃ l, closure n w = .ok l := by
  unfold closure closurePD
  rw [hf]
  simp only [bind, Res.bind, hfl, Bool.false_eq_true, if_false, pure]
  exact ⟨_, rfl⟩

theorem hasFreeLoop_map_gShift (a b c n : Nat) (hnc : n ≤ c) (bot : List Nat) (hlen : bot.length = n)
    (h : hasFreeLoop bot = false) : hasFreeLoop (bot.map (gShift a b c)) = false := by
  have hne := C18.hasFreeLoop_false bot h
  unfold hasFreeLoop
  rw [Bool.eq_false_iff]
  intro hany
  rw [List.any_eq_true] at hany
  obtain ⟨i, hi, hb⟩ := hany
  have hi' : i < bot.length := by simpa using List.mem_range.1 hi
  have e : (bot.map (gShift a b c)).getD i 0 = gShift a b c bot[i] := by
    rw [List.getD_eq_getElem?_getD, List.getElem?_map, List.getElem?_eq_getElem hi']; rfl
  rw [e] at hb
  have hb' : gShift a b c bot[i] = i := by simpa using hb
  have := hne i hi'
  unfold gShift at hb'
  split at hb'
  · omega
  · split at hb'
    · omega
    · split at hb' <;> omega

/-- if the closure of `w₁ ++ w₂` exists and the letter `s` is in range, the closure of `w₁ ++ [s, −s] ++ w₂` exists -/
theorem braid_r2_exists (n : Nat) (w1 w2 : List Int) (s : Int) (l : C18.Link) (h : closure n (w1 ++ w2) = .ok l)
    (hs0 : s ≠ 0) (hsn : s.natAbs < n) : ∃ l', closure n (w1 ++ [s, -s] ++ w2) = .ok l' := by
  obtain ⟨stO, hfO, hflO, _, _⟩ := closure_stateSum (R := Int) 0 0 n _ l h
  obtain ⟨st1, hf1, hf2⟩ := (foldlM_append_ok _ _ _ _ _).1 hfO
  have hI1 := C18.cinv_foldl n w1 _ st1 (C18.cinv_init n) hf1
  have hIO := C18.cinv_foldl n _ _ stO (C18.cinv_init n) hfO
  obtain ⟨q, hq⟩ := closureStep_isOk hI1 s hs0 hsn
  have hIq := C18.cinv_step n st1 q s hI1 hq
  obtain ⟨m, hm⟩ := closureStep_isOk hIq (-s) (by omega) (by rw [Int.natAbs_neg]; exact hsn)
  obtain ⟨a, b, ha, hb, _, _, _, rfl⟩ := pair_steps hI1 hq hm
  obtain ⟨pd2, _, hsim⟩ := sim_fold a b st1.1 ha hb w2 st1 stO (Nat.le_refl _) hf2
  refine closure_of_state n _ (stO.1 + 4, stO.2.1.map (gShift a b st1.1),
    (st1.2.2 ++ [(pairX s a b st1.1).1, (pairX s a b st1.1).2]) ++ pd2.map (map4 (gShift a b st1.1))) ?_
    (hasFreeLoop_map_gShift a b st1.1 n hI1.le stO.2.1 hIO.len hflO)
  · rw [List.append_assoc]
    refine (foldlM_append_ok _ _ _ _ _).2 ⟨st1, hf1, (foldlM_append_ok _ [s, -s] w2 _ _).2 ⟨_, ?_, hsim _⟩⟩
    simp only [List.foldlM_cons, List.foldlM_nil, hq, bind, Res.bind, hm, pure]

end Yuiv.C04Inv
