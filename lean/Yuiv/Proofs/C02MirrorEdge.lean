import Yuiv.Proofs.C02MirrorCube
import Yuiv.Proofs.C02MirrorAlg
/-
C02Mirror, part C (helper): the EDGE-WISE TRANSPOSE.  For two circle lists `cs`, `cs'` without repeated circles and
with at most 64 circles each (the reference's `setBit` works on 64-bit masks), and `h = 0`:

    coefficient of the labelling `m'` of `cs'` in  edgeTerms 0 t cs cs' m
      = coefficient of the labelling `flip m` of `cs` in  edgeTerms 0 t cs' cs (flip m'),

where `flip` swaps the labels `1 ↔ X` on every circle (`flipMask r m = 2^r − 1 − m`); a merge read backwards is a
split and vice versa, and `edgeTerms … cs cs' = none ↔ edgeTerms … cs' cs = none`.
-/
namespace Yuiv.C02Mirror
open Yuiv Yuiv.KhRef

abbrev Circ := Array (Array Nat)

/-- position of the circle `x` in the list `cs` (as computed by `Cube.d`) -/
def ix (cs : Circ) (x : Array Nat) : Nat := (cs.findIdx? (fun y => y == x)).getD 0

theorem ix_spec (cs : Circ) (x : Array Nat) (hx : x ∈ cs) : ix cs x < cs.size ∧ cs[ix cs x]! = x := by
  unfold ix
  cases h : cs.findIdx? (fun y => y == x) with
  | none =>
    rw [Array.findIdx?_eq_none_iff] at h
    have := h x hx
    simp at this
  | some i =>
    rw [Array.findIdx?_eq_some_iff_getElem] at h
    obtain ⟨hi, hp, _⟩ := h
    simp only [Option.getD_some]
    refine ⟨hi, ?_⟩
    rw [getElem!_pos cs i hi]
    simpa using hp

theorem getElem!_mem (cs : Circ) (i : Nat) (hi : i < cs.size) : cs[i]! ∈ cs := by
  rw [getElem!_pos cs i hi]; exact Array.getElem_mem hi

theorem ix_getElem (cs : Circ) (hnd : cs.toList.Nodup) (i : Nat) (hi : i < cs.size) : ix cs cs[i]! = i := by
  obtain ⟨h1, h2⟩ := ix_spec cs cs[i]! (getElem!_mem cs i hi)
  generalize ix cs cs[i]! = j at h1 h2 ⊢
  rw [getElem!_pos cs j h1, getElem!_pos cs i hi] at h2
  exact (List.getElem_inj (xs := cs.toList) (h₀ := by simpa using h1) (h₁ := by simpa using hi) hnd).mp
    (by simpa using h2)

theorem contains_iff (cs : Circ) (x : Array Nat) : cs.contains x = true ↔ x ∈ cs := by
  simp

/-! ### `setBit` on 64-bit masks -/

theorem testBit_setBit (x i j : Nat) (b : Bool) (hx : x < 2 ^ 64) (hi : i < 64) :
    (setBit x i b).testBit j = if j = i then b else x.testBit j := by
  unfold setBit
  cases b
  · simp only [Bool.false_eq_true, if_false, Nat.testBit_and, Nat.testBit_xor, Nat.testBit_two_pow_sub_one,
      Nat.one_shiftLeft, Nat.testBit_two_pow]
    by_cases hj : j = i
    · subst hj; simp [hi]
    · have : ¬ i = j := fun e => hj e.symm
      by_cases h64 : j < 64
      · simp [hj, this, h64]
      · have : x.testBit j = false :=
          Nat.testBit_lt_two_pow (Nat.lt_of_lt_of_le hx (Nat.pow_le_pow_right (by omega) (by omega)))
        simp [hj, this]
  · simp only [if_true, Nat.testBit_or, Nat.one_shiftLeft, Nat.testBit_two_pow]
    by_cases hj : j = i
    · subst hj; simp
    · have : ¬ i = j := fun e => hj e.symm
      simp [hj, this]

theorem setBit_lt (x i : Nat) (b : Bool) (hx : x < 2 ^ 64) (hi : i < 64) : setBit x i b < 2 ^ 64 := by
  unfold setBit
  cases b
  · exact Nat.lt_of_le_of_lt Nat.and_le_left hx
  · simp only [if_true, Nat.one_shiftLeft]
    exact Nat.or_lt_two_pow hx (Nat.pow_lt_pow_right (by omega) hi)

/-- swap the labels `1 ↔ X` on all `r` circles -/
def flipMask (r m : Nat) : Nat := 2 ^ r - 1 - m

theorem testBit_flipMask (r m i : Nat) (hm : m < 2 ^ r) :
    (flipMask r m).testBit i = (decide (i < r) && !m.testBit i) := by
  unfold flipMask
  have : 2 ^ r - 1 - m = 2 ^ r - (m + 1) := by omega
  rw [this, Nat.testBit_two_pow_sub_succ hm]

theorem flipMask_lt (r m : Nat) : flipMask r m < 2 ^ r := by
  unfold flipMask
  have : 0 < 2 ^ r := Nat.two_pow_pos r
  omega

theorem flipMask_flipMask (r m : Nat) (hm : m < 2 ^ r) : flipMask r (flipMask r m) = m := by
  unfold flipMask; omega

/-! ### the labels carried over on the common circles -/

theorem ix_inj (cs : Circ) (x y : Array Nat) (hx : x ∈ cs) (hy : y ∈ cs) (h : ix cs x = ix cs y) : x = y := by
  rw [← (ix_spec cs x hx).2, ← (ix_spec cs y hy).2, h]

theorem idx_inj (cs : Circ) (hnd : cs.toList.Nodup) (i j : Nat) (hi : i < cs.size) (hj : j < cs.size)
    (h : cs[i]! = cs[j]!) : i = j := by
  rw [← ix_getElem cs hnd i hi, ← ix_getElem cs hnd j hj, h]

/-- the step function of `carry` -/
def carryStep (cs cs' : Circ) (m : Nat) (m0 i : Nat) : Nat :=
  if cs'.contains cs[i]! then setBit m0 (ix cs' cs[i]!) (m.testBit i) else m0

theorem carry_eq (cs cs' : Circ) (m : Nat) :
    carry cs cs' m = (List.range' 0 cs.size).foldl (carryStep cs cs' m) 0 := rfl

theorem carry_fold (cs cs' : Circ) (m : Nat) (hnd : cs.toList.Nodup) (h64 : cs'.size ≤ 64) :
    ∀ (is : List Nat) (acc : Nat), acc < 2 ^ 64 → (∀ i ∈ is, i < cs.size) → is.Nodup →
      (∀ i ∈ is, cs[i]! ∈ cs' → acc.testBit (ix cs' cs[i]!) = false) →
      (is.foldl (carryStep cs cs' m) acc) < 2 ^ 64 ∧
      ∀ j, (is.foldl (carryStep cs cs' m) acc).testBit j =
        (acc.testBit j || is.any (fun i => cs'.contains cs[i]! && (ix cs' cs[i]! == j) && m.testBit i)) := by
  intro is
  induction is with
  | nil => intro acc h _ _ _; exact ⟨h, fun j => by simp⟩
  | cons i is ih =>
    intro acc hacc hlt hnd' hfresh
    have hi : i < cs.size := hlt i (by simp)
    have hnd2 : is.Nodup := (List.nodup_cons.mp hnd').2
    have hni : i ∉ is := (List.nodup_cons.mp hnd').1
    rw [List.foldl_cons]
    by_cases hc : cs[i]! ∈ cs'
    · have hc' : cs'.contains cs[i]! = true := (contains_iff _ _).2 hc
      have hi' := (ix_spec cs' cs[i]! hc).1
      have e : carryStep cs cs' m acc i = setBit acc (ix cs' cs[i]!) (m.testBit i) := by
        unfold carryStep; rw [if_pos hc']
      rw [e]
      have hlt' := setBit_lt acc (ix cs' cs[i]!) (m.testBit i) hacc (by omega)
      have hfresh' : ∀ i2 ∈ is, cs[i2]! ∈ cs' →
          (setBit acc (ix cs' cs[i]!) (m.testBit i)).testBit (ix cs' cs[i2]!) = false := by
        intro i2 hi2 hc2
        rw [testBit_setBit _ _ _ _ hacc (by omega)]
        have hne : ix cs' cs[i2]! ≠ ix cs' cs[i]! := by
          intro heq
          have := ix_inj cs' _ _ hc2 hc heq
          have := idx_inj cs hnd i2 i (hlt i2 (by simp [hi2])) hi this
          subst this
          exact hni hi2
        rw [if_neg hne]
        exact hfresh i2 (by simp [hi2]) hc2
      obtain ⟨r1, r2⟩ := ih _ hlt' (fun x hx => hlt x (by simp [hx])) hnd2 hfresh'
      refine ⟨r1, fun j => ?_⟩
      rw [r2 j, testBit_setBit _ _ _ _ hacc (by omega), List.any_cons, hc']
      by_cases hj : j = ix cs' cs[i]!
      · subst hj
        rw [hfresh i (by simp) hc]
        simp
      · have hb : (ix cs' cs[i]! == j) = false := beq_false_of_ne (fun e => hj e.symm)
        simp [hj, hb]
    · have hc' : cs'.contains cs[i]! = false := by
        cases h : cs'.contains cs[i]!
        · rfl
        · exact absurd ((contains_iff _ _).1 h) hc
      have e : carryStep cs cs' m acc i = acc := by unfold carryStep; rw [hc']; rfl
      rw [e]
      obtain ⟨r1, r2⟩ := ih acc hacc (fun x hx => hlt x (by simp [hx])) hnd2
        (fun x hx => hfresh x (by simp [hx]))
      refine ⟨r1, fun j => ?_⟩
      rw [r2 j, List.any_cons, hc']
      simp

theorem carry_spec (cs cs' : Circ) (m : Nat) (hnd : cs.toList.Nodup) (h64 : cs'.size ≤ 64) :
    carry cs cs' m < 2 ^ 64 ∧ ∀ j, (carry cs cs' m).testBit j = true ↔
      ∃ i, i < cs.size ∧ cs[i]! ∈ cs' ∧ ix cs' cs[i]! = j ∧ m.testBit i = true := by
  obtain ⟨r1, r2⟩ := carry_fold cs cs' m hnd h64 (List.range' 0 cs.size) 0 (by omega)
    (by intro i hi; simp [List.mem_range'] at hi; omega) (List.nodup_range' (step := 1) (by omega))
    (by intro i _ _; simp)
  rw [← carry_eq] at r1 r2
  refine ⟨r1, fun j => ?_⟩
  rw [r2 j]
  simp only [Nat.zero_testBit, Bool.false_or, List.any_eq_true, List.mem_range', Bool.and_eq_true, beq_iff_eq,
    contains_iff]
  constructor
  · rintro ⟨i, ⟨k, hk, rfl⟩, ⟨h1, h2⟩, h3⟩
    exact ⟨_, by omega, h1, h2, h3⟩
  · rintro ⟨i, hi, h1, h2, h3⟩
    exact ⟨i, ⟨i, hi, by omega⟩, ⟨h1, h2⟩, h3⟩

end Yuiv.C02Mirror
namespace Yuiv.C02Mirror
open Yuiv Yuiv.KhRef

structure Pair (cs cs' : Circ) : Prop where
  nd : cs.toList.Nodup
  nd' : cs'.toList.Nodup
  le : cs.size ≤ 64
  le' : cs'.size ≤ 64

theorem Pair.symm {cs cs' : Circ} (h : Pair cs cs') : Pair cs' cs := ⟨h.nd', h.nd, h.le', h.le⟩

/-- the labelling `m'` of `cs'` agrees with the labelling `m` of `cs` on the circles common to both lists -/
def Compat (cs cs' : Circ) (m m' : Nat) : Prop :=
  ∀ i, i < cs.size → cs[i]! ∈ cs' → m'.testBit (ix cs' cs[i]!) = m.testBit i

theorem mem_goneOf (cs cs' : Circ) (i : Nat) : i ∈ goneOf cs cs' ↔ i < cs.size ∧ cs[i]! ∉ cs' := by
  unfold goneOf
  rw [Array.mem_filter, Array.mem_range]
  simp

theorem goneOf_nodup (cs cs' : Circ) : (goneOf cs cs').toList.Nodup := by
  unfold goneOf
  rw [Array.toList_filter]
  apply List.Nodup.filter
  simp [Array.toList_range, List.nodup_range]

theorem carry_at {cs cs' : Circ} (hP : Pair cs cs') (m i : Nat) (hi : i < cs.size) (hc : cs[i]! ∈ cs') :
    (carry cs cs' m).testBit (ix cs' cs[i]!) = m.testBit i := by
  have h := (carry_spec cs cs' m hP.nd hP.le').2 (ix cs' cs[i]!)
  cases hm : m.testBit i
  · cases hb : (carry cs cs' m).testBit (ix cs' cs[i]!)
    · rfl
    · obtain ⟨i2, hi2, hc2, he, hm2⟩ := h.1 hb
      have := idx_inj cs hP.nd i2 i hi2 hi (ix_inj cs' _ _ hc2 hc he)
      subst this
      rw [hm] at hm2; cases hm2
  · exact h.2 ⟨i, hi, hc, rfl, hm⟩

theorem carry_off {cs cs' : Circ} (hP : Pair cs cs') (m j : Nat)
    (hj : ∀ i, i < cs.size → cs[i]! ∈ cs' → ix cs' cs[i]! ≠ j) : (carry cs cs' m).testBit j = false := by
  have h := (carry_spec cs cs' m hP.nd hP.le').2 j
  cases hb : (carry cs cs' m).testBit j
  · rfl
  · obtain ⟨i, hi, hc, he, _⟩ := h.1 hb
    exact absurd he (hj i hi hc)

/-- every position of `cs'` is a common circle (the image of a position of `cs`) or a born circle -/
theorem pos_cases {cs cs' : Circ} (hP : Pair cs cs') (j : Nat) (hj : j < cs'.size) :
    (∃ i, i < cs.size ∧ cs[i]! ∈ cs' ∧ ix cs' cs[i]! = j) ∨ j ∈ goneOf cs' cs := by
  by_cases h : cs'[j]! ∈ cs
  · left
    obtain ⟨h1, h2⟩ := ix_spec cs cs'[j]! h
    refine ⟨ix cs cs'[j]!, h1, ?_, ?_⟩
    · rw [h2]; exact getElem!_mem cs' j hj
    · rw [h2]; exact ix_getElem cs' hP.nd' j hj
  · right
    exact (mem_goneOf cs' cs j).2 ⟨hj, h⟩

/-- a common position is not a born position -/
theorem common_not_born {cs cs' : Circ} (i b : Nat) (hc : cs[i]! ∈ cs') (hi : i < cs.size)
    (hb : b ∈ goneOf cs' cs) : ix cs' cs[i]! ≠ b := by
  intro e
  have := ((mem_goneOf cs' cs b).1 hb).2
  rw [← e, (ix_spec cs' cs[i]! hc).2] at this
  exact this (getElem!_mem cs i hi)

/-- a labelling `X` of `cs'` that carries the labels of `m` on the common circles equals `m'` iff `m'` is compatible
with `m` and agrees with `X` on the born circles -/
theorem target_iff {cs cs' : Circ} (hP : Pair cs cs') (m m' X : Nat) (hm' : m' < 2 ^ cs'.size)
    (hX : ∀ j, cs'.size ≤ j → X.testBit j = false)
    (hc : ∀ i, i < cs.size → cs[i]! ∈ cs' → X.testBit (ix cs' cs[i]!) = m.testBit i) :
    X = m' ↔ Compat cs cs' m m' ∧ ∀ j ∈ goneOf cs' cs, m'.testBit j = X.testBit j := by
  constructor
  · rintro rfl
    exact ⟨hc, fun _ _ => rfl⟩
  · rintro ⟨h1, h2⟩
    apply Nat.eq_of_testBit_eq
    intro j
    by_cases hj : j < cs'.size
    · rcases pos_cases hP j hj with ⟨i, hi, hci, rfl⟩ | hb
      · rw [hc i hi hci, h1 i hi hci]
      · exact (h2 j hb).symm
    · rw [hX j (by omega)]
      exact (Nat.testBit_lt_two_pow (Nat.lt_of_lt_of_le hm' (Nat.pow_le_pow_right (by omega) (by omega)))).symm

theorem compat_flip {cs cs' : Circ} (hP : Pair cs cs') (m m' : Nat) (hm : m < 2 ^ cs.size) (hm' : m' < 2 ^ cs'.size)
    (h : Compat cs cs' m m') : Compat cs' cs (flipMask cs'.size m') (flipMask cs.size m) := by
  intro j hj hc
  obtain ⟨h1, h2⟩ := ix_spec cs cs'[j]! hc
  rw [testBit_flipMask _ _ _ hm, testBit_flipMask _ _ _ hm']
  have hmem : cs[ix cs cs'[j]!]! ∈ cs' := by rw [h2]; exact getElem!_mem cs' j hj
  have := h (ix cs cs'[j]!) h1 hmem
  rw [h2, ix_getElem cs' hP.nd' j hj] at this
  rw [this]
  simp only [h1, hj, decide_true]

theorem compat_unflip {cs cs' : Circ} (hP : Pair cs cs') (m m' : Nat) (hm : m < 2 ^ cs.size) (hm' : m' < 2 ^ cs'.size)
    (h : Compat cs' cs (flipMask cs'.size m') (flipMask cs.size m)) : Compat cs cs' m m' := by
  have := compat_flip hP.symm _ _ (flipMask_lt _ _) (flipMask_lt _ _) h
  rwa [flipMask_flipMask _ _ hm, flipMask_flipMask _ _ hm'] at this

end Yuiv.C02Mirror
namespace Yuiv.C02Mirror
open Yuiv Yuiv.KhRef

/-- coefficient of the labelling `m'` in a list of (labelling, coefficient) terms -/
def coefOf (ts : List (Nat × Int)) (m' : Nat) : Int := ((ts.filter (fun x => x.1 == m')).map (fun x => x.2)).sum

theorem coefOf_filterMap {α : Type} (L : List α) (f : α → Nat) (a : α → Int) (m' : Nat) :
    coefOf (L.filterMap (fun x => if a x != 0 then some (f x, a x) else none)) m'
      = ((L.filter (fun x => f x == m')).map a).sum := by
  unfold coefOf
  induction L with
  | nil => rfl
  | cons x L ih =>
    rw [List.filterMap_cons, List.filter_cons]
    by_cases ha : a x = 0
    · have : (a x != 0) = false := by simp [ha]
      simp only [this, Bool.false_eq_true, if_false]
      rw [ih]
      split
      · simp [ha]
      · rfl
    · have : (a x != 0) = true := by simp [ha]
      simp only [this, if_true, List.filter_cons]
      split
      · simp only [List.map_cons, List.sum_cons]; rw [ih]
      · exact ih

theorem two_of_eq {a : Array Nat} {x y : Nat} (h : a = #[x, y]) : a.size = 2 ∧ a[0]! = x ∧ a[1]! = y := by
  subst h; exact ⟨rfl, rfl, rfl⟩
theorem one_of_eq {a : Array Nat} {x : Nat} (h : a = #[x]) : a.size = 1 ∧ a[0]! = x := by
  subst h; exact ⟨rfl, rfl⟩

/-- MERGE: two circles `g0, g1` of `cs` disappear, one circle `b` of `cs'` appears -/
theorem coef_merge {cs cs' : Circ} (hP : Pair cs cs') (h t : Int) (m m' g0 g1 b : Nat) (hm' : m' < 2 ^ cs'.size)
    (hG : goneOf cs cs' = #[g0, g1]) (hB : goneOf cs' cs = #[b]) :
    ∃ ts, edgeTerms h t cs cs' m = some ts ∧
      (Compat cs cs' m m' → coefOf ts m' = prodCoef h t (m.testBit g0) (m.testBit g1) (m'.testBit b)) ∧
      (¬ Compat cs cs' m m' → coefOf ts m' = 0) := by
  obtain ⟨sG, eG0, eG1⟩ := two_of_eq hG
  obtain ⟨sB, eB0⟩ := one_of_eq hB
  have hbmem : b ∈ goneOf cs' cs := by rw [hB]; simp
  have hb := ((mem_goneOf cs' cs b).1 hbmem).1
  have hM := (carry_spec cs cs' m hP.nd hP.le').1
  have hE : edgeTerms h t cs cs' m = some ((prod h t (m.testBit g0) (m.testBit g1)).filterMap
      (fun (ya : Bool × Int) => if ya.2 != 0 then some (setBit (carry cs cs' m) b ya.1, ya.2) else none)) := by
    unfold edgeTerms
    simp only [sG, sB, eG0, eG1, eB0, beq_self_eq_true, Bool.and_self, if_true]
  refine ⟨_, hE, ?_⟩
  have key : ∀ y : Bool, setBit (carry cs cs' m) b y = m' ↔ Compat cs cs' m m' ∧ m'.testBit b = y := by
    intro y
    rw [target_iff hP m m' _ hm']
    · rw [hB]
      simp only [List.mem_toArray, List.mem_singleton, forall_eq, testBit_setBit _ _ _ _ hM (show b < 64 by have := hP.le'; omega), if_true]
    · intro j hj
      rw [testBit_setBit _ _ _ _ hM (by have := hP.le'; omega), if_neg (by omega)]
      exact carry_off hP m j (fun i hi hc => by have := (ix_spec cs' cs[i]! hc).1; omega)
    · intro i hi hc
      rw [testBit_setBit _ _ _ _ hM (by have := hP.le'; omega), if_neg (common_not_born i b hc hi hbmem)]
      exact carry_at hP m i hi hc
  have hc := coefOf_filterMap (prod h t (m.testBit g0) (m.testBit g1))
    (fun ya => setBit (carry cs cs' m) b ya.1) (fun ya => ya.2) m'
  constructor
  · intro hC
    rw [hc]
    unfold prodCoef
    congr 2
    apply List.filter_congr
    intro x _
    have := key x.1
    by_cases hx : x.1 = m'.testBit b
    · have e1 : (setBit (carry cs cs' m) b x.1 == m') = true := by
        rw [beq_iff_eq]; exact this.2 ⟨hC, hx.symm⟩
      rw [e1]; simp [hx]
    · have e1 : (setBit (carry cs cs' m) b x.1 == m') = false := by
        apply beq_false_of_ne; intro e; exact hx (this.1 e).2.symm
      rw [e1]; exact (beq_false_of_ne hx).symm
  · intro hC
    rw [hc]
    have : (prod h t (m.testBit g0) (m.testBit g1)).filter (fun x => setBit (carry cs cs' m) b x.1 == m') = [] := by
      rw [List.filter_eq_nil_iff]
      intro x _ e
      rw [beq_iff_eq] at e
      exact hC ((key x.1).1 e).1
    rw [this]; rfl

end Yuiv.C02Mirror
namespace Yuiv.C02Mirror
open Yuiv Yuiv.KhRef

/-- SPLIT: one circle `g` of `cs` disappears, two circles `b0, b1` of `cs'` appear -/
theorem coef_split {cs cs' : Circ} (hP : Pair cs cs') (h t : Int) (m m' g b0 b1 : Nat) (hm' : m' < 2 ^ cs'.size)
    (hG : goneOf cs cs' = #[g]) (hB : goneOf cs' cs = #[b0, b1]) :
    ∃ ts, edgeTerms h t cs cs' m = some ts ∧
      (Compat cs cs' m m' → coefOf ts m' = coprodCoef h t (m.testBit g) (m'.testBit b0) (m'.testBit b1)) ∧
      (¬ Compat cs cs' m m' → coefOf ts m' = 0) := by
  obtain ⟨sG, eG0⟩ := one_of_eq hG
  obtain ⟨sB, eB0, eB1⟩ := two_of_eq hB
  have hb0mem : b0 ∈ goneOf cs' cs := by rw [hB]; simp
  have hb1mem : b1 ∈ goneOf cs' cs := by rw [hB]; simp
  have hb0 := ((mem_goneOf cs' cs b0).1 hb0mem).1
  have hb1 := ((mem_goneOf cs' cs b1).1 hb1mem).1
  have hne : b0 ≠ b1 := by
    have := goneOf_nodup cs' cs
    rw [hB] at this
    simpa using this
  have h64 := hP.le'
  have hM := (carry_spec cs cs' m hP.nd hP.le').1
  have hE : edgeTerms h t cs cs' m = some ((coprod h t (m.testBit g)).filterMap
      (fun (ya : Bool × Bool × Int) => if ya.2.2 != 0 then
        some (setBit (setBit (carry cs cs' m) b0 ya.1) b1 ya.2.1, ya.2.2) else none)) := by
    unfold edgeTerms
    simp only [sG, sB, eG0, eB0, eB1]
    rfl
  refine ⟨_, hE, ?_⟩
  have key : ∀ y1 y2 : Bool, setBit (setBit (carry cs cs' m) b0 y1) b1 y2 = m' ↔
      Compat cs cs' m m' ∧ m'.testBit b0 = y1 ∧ m'.testBit b1 = y2 := by
    intro y1 y2
    have hM1 := setBit_lt _ b0 y1 hM (by omega)
    have tb : ∀ j, (setBit (setBit (carry cs cs' m) b0 y1) b1 y2).testBit j =
        if j = b1 then y2 else if j = b0 then y1 else (carry cs cs' m).testBit j := by
      intro j
      rw [testBit_setBit _ _ _ _ hM1 (by omega), testBit_setBit _ _ _ _ hM (by omega)]
    rw [target_iff hP m m' _ hm']
    · rw [hB]
      simp only [List.mem_toArray, List.mem_cons, List.not_mem_nil, or_false, forall_eq_or_imp, forall_eq, tb,
        if_true, if_neg hne]
    · intro j hj
      rw [tb, if_neg (by omega), if_neg (by omega)]
      exact carry_off hP m j (fun i hi hc => by have := (ix_spec cs' cs[i]! hc).1; omega)
    · intro i hi hc
      rw [tb, if_neg (common_not_born i b1 hc hi hb1mem), if_neg (common_not_born i b0 hc hi hb0mem)]
      exact carry_at hP m i hi hc
  have hc := coefOf_filterMap (coprod h t (m.testBit g))
    (fun ya => setBit (setBit (carry cs cs' m) b0 ya.1) b1 ya.2.1) (fun ya => ya.2.2) m'
  constructor
  · intro hC
    rw [hc]
    unfold coprodCoef
    congr 2
    apply List.filter_congr
    intro x _
    have := key x.1 x.2.1
    by_cases hx : x.1 = m'.testBit b0 ∧ x.2.1 = m'.testBit b1
    · have e1 : (setBit (setBit (carry cs cs' m) b0 x.1) b1 x.2.1 == m') = true := by
        rw [beq_iff_eq]; exact this.2 ⟨hC, hx.1.symm, hx.2.symm⟩
      rw [e1]; simp [hx.1, hx.2]
    · have e1 : (setBit (setBit (carry cs cs' m) b0 x.1) b1 x.2.1 == m') = false := by
        apply beq_false_of_ne; intro e
        have := (this.1 e).2
        exact hx ⟨this.1.symm, this.2.symm⟩
      rw [e1]
      symm
      rw [Bool.and_eq_false_iff]
      by_cases h1 : x.1 = m'.testBit b0
      · right; exact beq_false_of_ne (fun h2 => hx ⟨h1, h2⟩)
      · left; exact beq_false_of_ne h1
  · intro hC
    rw [hc]
    have : (coprod h t (m.testBit g)).filter
        (fun x => setBit (setBit (carry cs cs' m) b0 x.1) b1 x.2.1 == m') = [] := by
      rw [List.filter_eq_nil_iff]
      intro x _ e
      rw [beq_iff_eq] at e
      exact hC ((key x.1 x.2.1).1 e).1
    rw [this]; rfl

end Yuiv.C02Mirror
namespace Yuiv.C02Mirror
open Yuiv Yuiv.KhRef

theorem arr_two (a : Array Nat) (h : a.size = 2) : a = #[a[0]!, a[1]!] := by
  apply Array.ext
  · simp [h]
  · intro i h1 h2
    have : i = 0 ∨ i = 1 := by omega
    rcases this with rfl | rfl <;> simp [getElem!_pos, h]

theorem arr_one (a : Array Nat) (h : a.size = 1) : a = #[a[0]!] := by
  apply Array.ext
  · simp [h]
  · intro i h1 h2
    have : i = 0 := by omega
    subst this
    simp [getElem!_pos, h]

theorem getElem!_mem_nat (a : Array Nat) (i : Nat) (hi : i < a.size) : a[i]! ∈ a := by
  rw [getElem!_pos a i hi]; exact Array.getElem_mem hi

/-- the two circle lists differ by one merge or one split -/
def edgeOK (cs cs' : Circ) : Bool :=
  ((goneOf cs cs').size == 2 && (goneOf cs' cs).size == 1) || ((goneOf cs cs').size == 1 && (goneOf cs' cs).size == 2)

theorem edgeOK_symm (cs cs' : Circ) : edgeOK cs cs' = edgeOK cs' cs := by
  unfold edgeOK
  rw [Bool.or_comm]
  congr 1 <;> rw [Bool.and_comm]

theorem edgeTerms_isSome (h t : Int) (cs cs' : Circ) (m : Nat) : (edgeTerms h t cs cs' m).isSome = edgeOK cs cs' := by
  unfold edgeTerms edgeOK
  by_cases h1 : ((goneOf cs cs').size == 2 && (goneOf cs' cs).size == 1) = true
  · simp only [h1, if_true, Option.isSome_some, Bool.true_or]
  · by_cases h2 : ((goneOf cs cs').size == 1 && (goneOf cs' cs).size == 2) = true
    · simp only [h1, h2, if_true, Bool.or_true]
      rfl
    · simp only [h1, h2]
      rfl

/-- EDGE-WISE TRANSPOSE (`h = 0`, any `t`) -/
theorem edge_transpose {cs cs' : Circ} (hP : Pair cs cs') (t : Int) (m m' : Nat) (hm : m < 2 ^ cs.size)
    (hm' : m' < 2 ^ cs'.size) :
    (edgeOK cs cs' = false ∧ edgeTerms 0 t cs cs' m = none ∧ edgeTerms 0 t cs' cs (flipMask cs'.size m') = none) ∨
    ∃ ts ts', edgeTerms 0 t cs cs' m = some ts ∧ edgeTerms 0 t cs' cs (flipMask cs'.size m') = some ts' ∧
      coefOf ts m' = coefOf ts' (flipMask cs.size m) := by
  have hμ := flipMask_lt cs.size m
  have hμ' := flipMask_lt cs'.size m'
  by_cases hok : edgeOK cs cs' = true
  · right
    unfold edgeOK at hok
    rw [Bool.or_eq_true, Bool.and_eq_true, Bool.and_eq_true, beq_iff_eq, beq_iff_eq, beq_iff_eq, beq_iff_eq] at hok
    rcases hok with ⟨sG, sB⟩ | ⟨sG, sB⟩
    · have hG := arr_two _ sG
      have hB := arr_one _ sB
      obtain ⟨ts, e1, c1, c1'⟩ := coef_merge hP 0 t m m' _ _ _ hm' hG hB
      obtain ⟨ts', e2, c2, c2'⟩ := coef_split hP.symm 0 t (flipMask cs'.size m') (flipMask cs.size m) _ _ _ hμ hB hG
      refine ⟨ts, ts', e1, e2, ?_⟩
      have hg0 : (goneOf cs cs')[0]! < cs.size :=
        ((mem_goneOf cs cs' _).1 (getElem!_mem_nat _ _ (by omega))).1
      have hg1 : (goneOf cs cs')[1]! < cs.size :=
        ((mem_goneOf cs cs' _).1 (getElem!_mem_nat _ _ (by omega))).1
      have hb : (goneOf cs' cs)[0]! < cs'.size :=
        ((mem_goneOf cs' cs _).1 (getElem!_mem_nat _ _ (by omega))).1
      by_cases hC : Compat cs cs' m m'
      · rw [c1 hC, c2 (compat_flip hP m m' hm hm' hC), testBit_flipMask _ _ _ hm', testBit_flipMask _ _ _ hm,
          testBit_flipMask _ _ _ hm, prod_coprod_adjoint']
        simp only [hg0, hg1, hb, decide_true, Bool.true_and]
      · rw [c1' hC, c2' (fun h => hC (compat_unflip hP m m' hm hm' h))]
    · have hG := arr_one _ sG
      have hB := arr_two _ sB
      obtain ⟨ts, e1, c1, c1'⟩ := coef_split hP 0 t m m' _ _ _ hm' hG hB
      obtain ⟨ts', e2, c2, c2'⟩ := coef_merge hP.symm 0 t (flipMask cs'.size m') (flipMask cs.size m) _ _ _ hμ hB hG
      refine ⟨ts, ts', e1, e2, ?_⟩
      have hg : (goneOf cs cs')[0]! < cs.size :=
        ((mem_goneOf cs cs' _).1 (getElem!_mem_nat _ _ (by omega))).1
      have hb0 : (goneOf cs' cs)[0]! < cs'.size :=
        ((mem_goneOf cs' cs _).1 (getElem!_mem_nat _ _ (by omega))).1
      have hb1 : (goneOf cs' cs)[1]! < cs'.size :=
        ((mem_goneOf cs' cs _).1 (getElem!_mem_nat _ _ (by omega))).1
      by_cases hC : Compat cs cs' m m'
      · rw [c1 hC, c2 (compat_flip hP m m' hm hm' hC), testBit_flipMask _ _ _ hm', testBit_flipMask _ _ _ hm',
          testBit_flipMask _ _ _ hm, prod_coprod_adjoint']
        simp only [hg, hb0, hb1, decide_true, Bool.true_and, Bool.not_not]
      · rw [c1' hC, c2' (fun h => hC (compat_unflip hP m m' hm hm' h))]
  · left
    have hok' : edgeOK cs cs' = false := by simpa using hok
    refine ⟨hok', ?_, ?_⟩
    · have := edgeTerms_isSome 0 t cs cs' m
      rw [hok'] at this
      cases h : edgeTerms 0 t cs cs' m with
      | none => rfl
      | some _ => rw [h] at this; cases this
    · have := edgeTerms_isSome 0 t cs' cs (flipMask cs'.size m')
      rw [← edgeOK_symm, hok'] at this
      cases h : edgeTerms 0 t cs' cs (flipMask cs'.size m') with
      | none => rfl
      | some _ => rw [h] at this; cases this

end Yuiv.C02Mirror
