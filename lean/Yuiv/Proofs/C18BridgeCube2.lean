import Yuiv.Proofs.C18BridgeCube
/-
C18 bridge, part 2 (helper, no property theorem here): the REDUCED theory (`p.reduced = true`).
The generators at a vertex are the masks whose bit `b` = index of the circle through the base edge is set.  The
number of masks `m < 2^r` with bit `b < r` set and a given `popcount` does not depend on `b` (`cntBit_eq`), so the
reduced chain ranks are again a state sum with a summand depending on (weight, circle count) only — provided the
base edge lies on a circle of every state, which is proved for every non-empty well-formed diagram
(`baseCircle_some`, from a description of the CONTENT of the output of `KhRef.circles`, `circles_eq`).
-/
open Yuiv Yuiv.KhRef Yuiv.C04 Yuiv.C04Inv
namespace Yuiv.C18Bridge

/-! ### counting masks with a prescribed bit -/

/-- number of masks `m < 2^r` with `Q (popcount m r)` -/
def cntAll (r : Nat) (Q : Nat → Bool) : Nat :=
  ∑ m ∈ Finset.range (2 ^ r), if Q (popcount m r) then 1 else 0

/-- number of masks `m < 2^r` with bit `b` set and `Q (popcount m r)` -/
def cntBit (r b : Nat) (Q : Nat → Bool) : Nat :=
  ∑ m ∈ Finset.range (2 ^ r), if m.testBit b && Q (popcount m r) then 1 else 0

theorem cntAll_succ (r : Nat) (Q : Nat → Bool) :
    cntAll (r + 1) Q = cntAll r Q + cntAll r (fun k => Q (k + 1)) := by
  unfold cntAll
  rw [pow_succ, Nat.mul_comm, sum_range_doubleG, ← Finset.sum_add_distrib]
  apply Finset.sum_congr rfl
  intro t _
  rw [popcount_succ', popcount_succ']
  have e0 : (2 * t).testBit 0 = false := by simp [Nat.testBit_zero]
  have e1 : (2 * t + 1).testBit 0 = true := by simp [Nat.testBit_zero]
  have d0 : 2 * t / 2 = t := by omega
  have d1 : (2 * t + 1) / 2 = t := by omega
  simp only [e0, e1, d0, d1, if_true, Bool.false_eq_true, if_false, Nat.zero_add, Nat.add_comm 1]

theorem cntBit_zero (r : Nat) (Q : Nat → Bool) : cntBit (r + 1) 0 Q = cntAll r (fun k => Q (k + 1)) := by
  unfold cntBit cntAll
  rw [pow_succ, Nat.mul_comm, sum_range_doubleG]
  apply Finset.sum_congr rfl
  intro t _
  rw [popcount_succ', popcount_succ']
  have e0 : (2 * t).testBit 0 = false := by simp [Nat.testBit_zero]
  have e1 : (2 * t + 1).testBit 0 = true := by simp [Nat.testBit_zero]
  have d1 : (2 * t + 1) / 2 = t := by omega
  simp only [e0, e1, d1, if_true, Bool.false_and, Bool.true_and, Bool.false_eq_true, if_false, Nat.zero_add,
    Nat.add_comm 1]

theorem cntBit_succ (r b : Nat) (Q : Nat → Bool) :
    cntBit (r + 1) (b + 1) Q = cntBit r b Q + cntBit r b (fun k => Q (k + 1)) := by
  unfold cntBit
  rw [pow_succ, Nat.mul_comm, sum_range_doubleG, ← Finset.sum_add_distrib]
  apply Finset.sum_congr rfl
  intro t _
  rw [popcount_succ', popcount_succ']
  have e0 : (2 * t).testBit 0 = false := by simp [Nat.testBit_zero]
  have e1 : (2 * t + 1).testBit 0 = true := by simp [Nat.testBit_zero]
  have d0 : 2 * t / 2 = t := by omega
  have d1 : (2 * t + 1) / 2 = t := by omega
  simp only [Nat.testBit_succ, e0, e1, d0, d1, if_true, Bool.false_eq_true, if_false, Nat.zero_add, Nat.add_comm 1]

/-- the number of masks `m < 2^r` with bit `b < r` set and `Q (popcount m)` does not depend on `b`: it is the number
of masks `m' < 2^(r-1)` with `Q (popcount m' + 1)` -/
theorem cntBit_eq (r b : Nat) (hb : b < r) (Q : Nat → Bool) :
    cntBit r b Q = cntAll (r - 1) (fun k => Q (k + 1)) := by
  induction r generalizing b Q with
  | zero => omega
  | succ r ih =>
    cases b with
    | zero => exact cntBit_zero r Q
    | succ b =>
      have hb' : b < r := by omega
      obtain ⟨r', rfl⟩ : ∃ r', r = r' + 1 := ⟨r - 1, by omega⟩
      rw [cntBit_succ, ih b hb', ih b hb']
      simp only [Nat.add_sub_cancel]
      rw [cntAll_succ]

theorem filter_range_size (n : Nat) (p : Nat → Bool) :
    ((Array.range n).filter p).size = ∑ m ∈ Finset.range n, if p m then 1 else 0 := by
  rw [← Array.length_toList, Array.toList_filter, Array.toList_range]
  induction n with
  | zero => simp
  | succ n ih =>
    rw [List.range_succ, List.filter_append, List.length_append, ih, Finset.sum_range_succ]
    cases h : p n <;> simp [h]

/-! ### the content of `circles`: every label lies on a circle -/


theorem out_loop_eq {γ} (rs : List Nat) (p : Nat → Prop) [DecidablePred p] (g : Nat → Id γ) (out : Array γ) :
    (forIn rs out (fun r out => if p r then (fun a => ForInStep.yield (out.push a)) <$> g r
        else pure (ForInStep.yield out))).run
      = out ++ ((rs.filter (fun r => decide (p r))).map (fun r => (g r).run)).toArray := by
  induction rs generalizing out with
  | nil => simp
  | cons r rs ih =>
    by_cases hp : p r
    · simp [hp, ih]
    · simp [hp, ih]

theorem inner_loop_eq {γ} (xs : List Nat) (q : Nat → Prop) [DecidablePred q] (f : Nat → γ) (out : Array γ) :
    (forIn xs out (fun x (out : Array γ) => if q x then (pure (ForInStep.yield (out.push (f x))) : Id _)
        else pure (ForInStep.yield out))).run
      = out ++ ((xs.filter (fun x => decide (q x))).map f).toArray := by
  induction xs generalizing out with
  | nil => simp
  | cons x xs ih =>
    by_cases hq : q x
    · simp [hq, ih]
    · simp [hq, ih]

/-- the CONTENT of the output of `KhRef.circles`: one circle per root `r` of the final component array, consisting of
the labels whose component is `r` -/
theorem circles_eq (l : Link) (labels : Array Nat) (s : Nat) :
    circles l labels s =
      (((List.range' 0 labels.size).filter
          (fun r => decide ((unionAll l labels (resolvedTypes l s))[r]! = r))).map
        (fun r => (((List.range' 0 labels.size).filter
          (fun x => decide ((unionAll l labels (resolvedTypes l s))[x]! = r))).map (fun x => labels[x]!)).toArray)).toArray := by
  unfold circles
  simp
  generalize hc : Id.run (List.foldlM (m := Id) (s := Array Nat) (α := Nat) _ (Array.range labels.size) (List.range' 0 (Array.size l))) = comp
  have h := out_loop_eq (List.range' 0 labels.size) (fun r => comp[r]! = r)
    (fun r => forIn (List.range' 0 labels.size) #[] fun x (out : Array Nat) =>
              if comp[x]! = r then pure (ForInStep.yield (out.push labels[x]!)) else pure (ForInStep.yield out)) #[]
  rw [h]
  have : comp = unionAll l labels (resolvedTypes l s) := by
    subst hc
    rw [id_foldlM]
    unfold unionAll
    congr 1
    funext comp i
    unfold unionStep
    rw [id_forIn_yield (g := fun x comp => mergeStep comp (indexOf labels l[i]!.e[x.1]!) (indexOf labels l[i]!.e[x.2]!))]
    · rfl
    · intro x c
      unfold mergeStep
      split
      · rfl
      · rename_i hne
        by_cases hlt : c[indexOf labels l[i]!.e[x.1]!]! < c[indexOf labels l[i]!.e[x.2]!]!
        · simp only [hlt, if_true]; rw [Nat.max_eq_right (Nat.le_of_lt hlt), Nat.min_eq_left (Nat.le_of_lt hlt)]
        · simp only [hlt, if_false]; rw [Nat.max_eq_left (by omega), Nat.min_eq_right (by omega)]
  rw [← this]
  simp only [inner_loop_eq]
  simp


theorem inv_unionAll (l : Link) (hwf : WF l) (s : Nat) :
    Inv (edgeLabels l) (unionAll l (edgeLabels l) (resolvedTypes l s)) (statePairs l s) := by
  rw [unionAll_eq _ _ _ (resolvedTypes_size l s).symm, resolvedTypes_toList]
  have := (Inv.init (edgeLabels l)).fold (statePairs l s) (fun p hp => by
    obtain ⟨c, hc, h1, h2⟩ := mem_pairsL (fun c hc => hwf c (by simpa using hc)) hp
    exact ⟨(mem_edgeLabels l _).mpr ⟨c, by simpa using hc, h1⟩, (mem_edgeLabels l _).mpr ⟨c, by simpa using hc, h2⟩⟩)
  simpa [statePairs] using this

/-- every edge label lies on some circle of every state -/
theorem mem_circles (l : Link) (hwf : WF l) (s : Nat) (e : Nat) (he : e ∈ edgeLabels l) :
    ∃ cs ∈ circles l (edgeLabels l) s, e ∈ cs := by
  have h := inv_unionAll l hwf s
  have hidx := indexOf_getElem (edgeLabels l) (edgeLabels_nodup l)
  obtain ⟨hi, hxi⟩ := indexOf_spec (edgeLabels l) e he
  have hc := h.conn _ hi
  have hlt := h.lt _ hi
  have hr := h.eq_of_conn hc
  rw [hidx _ hlt, hidx _ hi] at hr
  rw [circles_eq]
  generalize unionAll l (edgeLabels l) (resolvedTypes l s) = comp at *
  refine ⟨_, List.mem_toArray.mpr (List.mem_map.mpr ⟨comp[indexOf (edgeLabels l) e]!, ?_, rfl⟩), ?_⟩
  · simp [List.mem_range', hlt, hr]
  · refine List.mem_toArray.mpr (List.mem_map.mpr ⟨indexOf (edgeLabels l) e, ?_, hxi⟩)
    simp [List.mem_range', hi]

theorem foldl_min_mem (xs : List Nat) (a : Nat) : xs.foldl min a = a ∨ xs.foldl min a ∈ xs := by
  induction xs generalizing a with
  | nil => simp
  | cons x xs ih =>
    rw [List.foldl_cons]
    rcases ih (min a x) with h | h
    · rw [h]
      rcases Nat.le_total a x with h' | h'
      · left; exact Nat.min_eq_left h'
      · right; rw [Nat.min_eq_right h']; simp
    · right; exact List.mem_cons_of_mem _ h

/-- the base edge of the reduced theory: least edge label of the FIRST crossing -/
def baseEdge (l : Link) : Option Nat :=
  if h : 0 < l.size then some ((l[0]).e.foldl min (l[0]).e[0]!) else none

theorem mkCube_base_red (l : Link) (p : Params) (hp : p.reduced = true) : (mkCube l p).base = baseEdge l := by
  simp [mkCube, hp, baseEdge]

theorem baseEdge_mem (l : Link) (hwf : WF l) (e : Nat) (h : baseEdge l = some e) : e ∈ edgeLabels l := by
  unfold baseEdge at h
  split at h
  · rename_i h0
    have h4 : (l[0]).e.size = 4 := hwf _ (Array.getElem_mem h0)
    have hm : (l[0]).e[0]! ∈ (l[0]).e := by
      rw [getElem!_pos _ 0 (by omega)]; exact Array.getElem_mem _
    have he : e ∈ (l[0]).e := by
      injection h with h
      rw [← h, ← Array.foldl_toList]
      rcases foldl_min_mem (l[0]).e.toList (l[0]).e[0]! with h' | h'
      · rw [h']; exact hm
      · exact Array.mem_toList_iff.mp h' 
    exact (mem_edgeLabels l e).mpr ⟨l[0], Array.getElem_mem h0, he⟩
  · cases h

/-- for a non-empty well-formed diagram the base circle exists at every vertex of the cube -/
theorem baseCircle_some (l : Link) (hwf : WF l) (h0 : 0 < l.size) (p : Params) (hp : p.reduced = true)
    (s : Nat) (hs : s < 2 ^ crossingNum l) :
    ∃ b, b < circleCount l s ∧ (mkCube l p).baseCircle s = some b := by
  obtain ⟨e, he⟩ : ∃ e, baseEdge l = some e := by simp [baseEdge, h0]
  obtain ⟨cs, hcs, hecs⟩ := mem_circles l hwf s e (baseEdge_mem l hwf e he)
  unfold Cube.baseCircle
  rw [mkCube_base_red l p hp, he, mkCube_circ' l p s hs]
  simp only
  cases hf : (circles l (edgeLabels l) s).findIdx? (fun cs => cs.contains e) with
  | none =>
    rw [Array.findIdx?_eq_none_iff] at hf
    have := hf cs hcs
    simp [hecs] at this
  | some b =>
    rw [Array.findIdx?_eq_some_iff_getElem] at hf
    exact ⟨b, hf.1, rfl⟩


/-! ### the reduced chain ranks -/


/-- contribution of ONE vertex of weight `w` with `r ≥ 1` circles to bidegree `(i, j)` in the REDUCED theory: the
number of masks `m' < 2^(r-1)` (labels of the circles other than the base circle, which carries `X`) with
`q0 − 2·(popcount m' + 1) + r + w = j`, if `h0 + w = i` -/
def rankAtRed (h0 q0 i j : Int) (w r : Nat) : Nat :=
  cntAll (r - 1) (fun k => decide (h0 + (w : Int) = i) && decide (q0 + (-2 : Int) * ((k + 1 : Nat) : Int) + r + w = j))

theorem ite_and_comm (a b : Bool) : (if (a && b) = true then 1 else 0 : Nat) = if (b && a) = true then 1 else 0 := by
  rw [Bool.and_comm]

theorem renumber_empty (f : Nat → Nat) : renumber f #[] = #[] := by simp [renumber]

theorem mkCube_gensAt_red (l : Link) (p : Params) (s : Nat) (hs : s < 2 ^ crossingNum l) (b : Nat)
    (hb : (mkCube l p).baseCircle s = some b) :
    (mkCube l p).gensAt s =
      ((Array.range (2 ^ circleCount l s)).map (fun m => Gen.mk s m)).filter (fun g => g.mask.testBit b) := by
  unfold Cube.gensAt
  rw [hb]
  simp only [mkCube_circ' l p s hs]
  rfl

/-- the hypothesis under which the reduced chain rank is a (weight, circle count) state sum: the base circle exists at
every vertex -/
def HasBase (l : Link) (p : Params) : Prop :=
  ∀ s < 2 ^ crossingNum l, ∃ b, b < circleCount l s ∧ (mkCube l p).baseCircle s = some b

theorem chainRank_eq_stateSum_red (l : Link) (p : Params) (hp : p.reduced = true) (hB : HasBase l p)
    (nPos nNeg : Nat) (i j : Int) :
    chainRank l p nPos nNeg i j =
      ∑ s ∈ Finset.range (2 ^ crossingNum l),
        rankAtRed (-(nNeg : Int)) ((nPos : Int) - 2 * nNeg + 1) i j (popcount s (crossingNum l)) (circleCount l s) := by
  unfold chainRank
  simp only [mkCube_n', hp, if_true]
  apply Finset.sum_congr rfl
  intro s hs
  have hs' : s < 2 ^ crossingNum l := Finset.mem_range.mp hs
  obtain ⟨b, hbr, hb⟩ := hB s hs'
  rw [mkCube_gensAt_red l p s hs' b hb, Array.filter_filter, Array.filter_map, Array.size_map, filter_range_size]
  unfold rankAtRed
  refine Eq.trans ?_ (cntBit_eq (circleCount l s) b hbr (fun k => decide (-(nNeg : Int) + (popcount s (crossingNum l) : Int) = i)
    && decide ((nPos : Int) - 2 * nNeg + 1 + (-2 : Int) * (k : Int) + circleCount l s + popcount s (crossingNum l) = j)))
  unfold cntBit
  apply Finset.sum_congr rfl
  intro m _
  simp only [Function.comp, mkCube_qDeg' l p _ s m hs']
  exact ite_and_comm _ _

theorem chainRankH_eq_stateSum_red (l : Link) (p : Params) (hB : HasBase l p) (nNeg : Nat) (i : Int) :
    chainRankH l p nNeg i =
      ∑ s ∈ Finset.range (2 ^ crossingNum l),
        cntAll (circleCount l s - 1) (fun _ => decide (-(nNeg : Int) + (popcount s (crossingNum l) : Int) = i)) := by
  unfold chainRankH
  simp only [mkCube_n']
  apply Finset.sum_congr rfl
  intro s hs
  have hs' : s < 2 ^ crossingNum l := Finset.mem_range.mp hs
  obtain ⟨b, hbr, hb⟩ := hB s hs'
  rw [mkCube_gensAt_red l p s hs' b hb, Array.filter_filter, Array.filter_map, Array.size_map, filter_range_size]
  refine Eq.trans ?_ (cntBit_eq (circleCount l s) b hbr
    (fun _ => decide (-(nNeg : Int) + (popcount s (crossingNum l) : Int) = i)))
  unfold cntBit
  apply Finset.sum_congr rfl
  intro m _
  exact ite_and_comm _ _

theorem hasBase_of_WF (l : Link) (hwf : WF l) (h0 : 0 < l.size) (p : Params) (hp : p.reduced = true) : HasBase l p :=
  fun s hs => baseCircle_some l hwf h0 p hp s hs

/-- REDUCED theory, under the explicit hypothesis that the base circle exists at every vertex of both cubes -/
theorem chainRank_perm_red_partial {l l' : Link} (hwf : WF l) (hperm : l'.toList.Perm l.toList)
    (p : Params) (hp : p.reduced = true) (hB : HasBase l p) (hB' : HasBase l' p) (nPos nNeg : Nat) (i j : Int) :
    chainRank l' p nPos nNeg i j = chainRank l p nPos nNeg i j := by
  rw [chainRank_eq_stateSum_red _ p hp hB, chainRank_eq_stateSum_red _ p hp hB']
  exact stateSumG_perm _ hwf hperm

theorem chainRank_renumber_red_partial {f : Nat → Nat} (l : Link) (hf : Set.InjOn f (labelSet l)) (hwf : WF l)
    (p : Params) (hp : p.reduced = true) (hB : HasBase l p) (hB' : HasBase (renumber f l) p)
    (nPos nNeg : Nat) (i j : Int) :
    chainRank (renumber f l) p nPos nNeg i j = chainRank l p nPos nNeg i j := by
  rw [chainRank_eq_stateSum_red _ p hp hB, chainRank_eq_stateSum_red _ p hp hB']
  exact stateSumG_renumber _ l hf hwf

theorem size_renumber (f : Nat → Nat) (l : Link) : (renumber f l).size = l.size := by simp [renumber]

theorem size_perm {l l' : Link} (hperm : l'.toList.Perm l.toList) : l'.size = l.size := by
  simpa using hperm.length_eq

/-- (ii) REDUCED theory, unconditional: the chain ranks are invariant under any permutation of the crossing list, for
every well-formed diagram (although the base edge — least label of the FIRST crossing — changes) -/
theorem chainRank_perm_red {l l' : Link} (hwf : WF l) (hperm : l'.toList.Perm l.toList)
    (p : Params) (hp : p.reduced = true) (nPos nNeg : Nat) (i j : Int) :
    chainRank l' p nPos nNeg i j = chainRank l p nPos nNeg i j := by
  by_cases h0 : 0 < l.size
  · exact chainRank_perm_red_partial hwf hperm p hp (hasBase_of_WF l hwf h0 p hp)
      (hasBase_of_WF l' (WF_perm hperm hwf) (by rw [size_perm hperm]; exact h0) p hp) _ _ _ _
  · have e : l = #[] := by apply Array.eq_empty_of_size_eq_zero; omega
    have e' : l' = #[] := by
      apply Array.eq_empty_of_size_eq_zero; rw [size_perm hperm]; omega
    rw [e, e']

/-- (i) REDUCED theory, unconditional: invariance under injective renumbering of the edge labels (the base edge is
renumbered along, but need not stay the LEAST label of the first crossing) -/
theorem chainRank_renumber_red {f : Nat → Nat} (l : Link) (hf : Set.InjOn f (labelSet l)) (hwf : WF l)
    (p : Params) (hp : p.reduced = true) (nPos nNeg : Nat) (i j : Int) :
    chainRank (renumber f l) p nPos nNeg i j = chainRank l p nPos nNeg i j := by
  by_cases h0 : 0 < l.size
  · exact chainRank_renumber_red_partial l hf hwf p hp (hasBase_of_WF l hwf h0 p hp)
      (hasBase_of_WF _ (WF_renumber hwf) (by rw [size_renumber]; exact h0) p hp) _ _ _ _
  · have e : l = #[] := by apply Array.eq_empty_of_size_eq_zero; omega
    rw [e, renumber_empty]

/-! ### both theories at once -/

/-- (ii) the ranks of the chain groups of the reference cube in every bidegree — for EVERY parameter triple
`(h, t, reduced)` — are invariant under any permutation of the crossing list of a well-formed diagram -/
theorem chainRank_perm_all {l l' : Link} (hwf : WF l) (hperm : l'.toList.Perm l.toList)
    (p : Params) (nPos nNeg : Nat) (i j : Int) :
    chainRank l' p nPos nNeg i j = chainRank l p nPos nNeg i j := by
  cases hp : p.reduced
  · exact chainRank_perm hwf hperm p hp _ _ _ _
  · exact chainRank_perm_red hwf hperm p hp _ _ _ _

/-- (i) … and under injective renumbering of the edge labels -/
theorem chainRank_renumber_all {f : Nat → Nat} (l : Link) (hf : Set.InjOn f (labelSet l)) (hwf : WF l)
    (p : Params) (nPos nNeg : Nat) (i j : Int) :
    chainRank (renumber f l) p nPos nNeg i j = chainRank l p nPos nNeg i j := by
  cases hp : p.reduced
  · exact chainRank_renumber l hf hwf p hp _ _ _ _
  · exact chainRank_renumber_red l hf hwf p hp _ _ _ _

/-- (i)+(ii) combined -/
theorem chainRank_renumber_perm_all {f : Nat → Nat} {l l' : Link} (hf : Set.InjOn f (labelSet l)) (hwf : WF l)
    (hperm : l'.toList.Perm (renumber f l).toList) (p : Params) (nPos nNeg : Nat) (i j : Int) :
    chainRank l' p nPos nNeg i j = chainRank l p nPos nNeg i j := by
  rw [chainRank_perm_all (WF_renumber hwf) hperm, chainRank_renumber_all l hf hwf]

theorem chainRankH_perm_all {l l' : Link} (hwf : WF l) (hperm : l'.toList.Perm l.toList)
    (p : Params) (nNeg : Nat) (i : Int) : chainRankH l' p nNeg i = chainRankH l p nNeg i := by
  cases hp : p.reduced
  · exact chainRankH_perm hwf hperm p hp _ _
  · by_cases h0 : 0 < l.size
    · rw [chainRankH_eq_stateSum_red _ p (hasBase_of_WF l hwf h0 p hp),
        chainRankH_eq_stateSum_red _ p
          (hasBase_of_WF l' (WF_perm hperm hwf) (by rw [size_perm hperm]; exact h0) p hp)]
      exact stateSumG_perm (fun w r => cntAll (r - 1) (fun _ => decide (-(nNeg : Int) + (w : Int) = i))) hwf hperm
    · have e : l = #[] := by apply Array.eq_empty_of_size_eq_zero; omega
      have e' : l' = #[] := by
        apply Array.eq_empty_of_size_eq_zero; rw [size_perm hperm]; omega
      rw [e, e']

theorem chainRankH_renumber_all {f : Nat → Nat} (l : Link) (hf : Set.InjOn f (labelSet l)) (hwf : WF l)
    (p : Params) (nNeg : Nat) (i : Int) : chainRankH (renumber f l) p nNeg i = chainRankH l p nNeg i := by
  cases hp : p.reduced
  · exact chainRankH_renumber l hf hwf p hp _ _
  · by_cases h0 : 0 < l.size
    · rw [chainRankH_eq_stateSum_red _ p (hasBase_of_WF l hwf h0 p hp),
        chainRankH_eq_stateSum_red _ p
          (hasBase_of_WF _ (WF_renumber hwf) (by rw [size_renumber]; exact h0) p hp)]
      exact stateSumG_renumber (fun w r => cntAll (r - 1) (fun _ => decide (-(nNeg : Int) + (w : Int) = i))) l hf hwf
    · have e : l = #[] := by apply Array.eq_empty_of_size_eq_zero; omega
      rw [e, renumber_empty]

/-! ### non-vacuity -/

/-- the rotated trefoil, REDUCED theory: the base edge changes from `1` (first crossing `[1,4,2,5]`) to `2`
(first crossing `[5,2,6,3]`) -/
example : baseEdge trefoil = some 1 ∧
    baseEdge #[⟨.X, #[5, 2, 6, 3]⟩, ⟨.X, #[1, 4, 2, 5]⟩, ⟨.X, #[3, 6, 4, 1]⟩] = some 2 := by decide

example (h t i j : Int) (red : Bool) :
    chainRank #[⟨.X, #[5, 2, 6, 3]⟩, ⟨.X, #[1, 4, 2, 5]⟩, ⟨.X, #[3, 6, 4, 1]⟩] ⟨h, t, red⟩ 0 3 i j
      = chainRank trefoil ⟨h, t, red⟩ 0 3 i j :=
  chainRank_perm_all
    (by intro c hc; simp [trefoil] at hc; rcases hc with rfl | rfl | rfl <;> rfl)
    (by
      show List.Perm [_, _, _] [_, _, _]
      exact (List.Perm.swap _ _ _).trans (List.Perm.cons _ (List.Perm.swap _ _ _)))
    _ _ _ _ _

/-- the relabelled trefoil (`x ↦ 10 x + 3`), both theories -/
example (h t i j : Int) (red : Bool) :
    chainRank (renumber (fun x => 10 * x + 3) trefoil) ⟨h, t, red⟩ 0 3 i j = chainRank trefoil ⟨h, t, red⟩ 0 3 i j :=
  chainRank_renumber_all trefoil (Function.Injective.injOn (by intro a b h; dsimp only at h; omega))
    (by intro c hc; simp [trefoil] at hc; rcases hc with rfl | rfl | rfl <;> rfl) _ _ _ _ _

/-- a renumbering that is injective on the labels but not monotone (`x ↦ 3x mod 7` : 1,2,3,4,5,6 ↦ 3,6,2,5,1,4):
the base edge of the renumbered diagram (`1 = f 5`) is NOT the image of the base edge (`f 1 = 3`) -/
example (h t i j : Int) :
    chainRank (renumber (fun x => (x * 3) % 7) trefoil) ⟨h, t, true⟩ 0 3 i j = chainRank trefoil ⟨h, t, true⟩ 0 3 i j :=
  chainRank_renumber_all trefoil
    (by
      intro a ha b hb h
      simp [labelSet, trefoil] at ha hb
      dsimp only at h
      omega)
    (by intro c hc; simp [trefoil] at hc; rcases hc with rfl | rfl | rfl <;> rfl) _ _ _ _ _

example : baseEdge (renumber (fun x => (x * 3) % 7) trefoil) = some 1 := by decide +kernel

/-- the reduced summand is not constant -/
example : rankAtRed (-3) (-5) 0 (-3) 3 3 = 2 ∧ rankAtRed (-3) (-5) 0 (-2) 3 3 = 0 := by decide


end Yuiv.C18Bridge
