import Yuiv.Model.C12
import Mathlib.Logic.Relation
import Mathlib.Tactic.Common

namespace Yuiv.C12
open Yuiv Relation

namespace UF

/-- the invariant the code maintains: parents never point upwards -/
def Inv (p : Array Nat) : Prop := ∀ i (h : i < p.size), p[i] ≤ i

/-- `r` is reached from `i` by following parent pointers and is a fixed point -/
inductive IsRoot (p : Array Nat) : Nat → Nat → Prop
  | base {i : Nat} (h : i < p.size) (hp : p[i] = i) : IsRoot p i i
  | step {i r : Nat} (h : i < p.size) (hp : p[i] ≠ i) (hr : IsRoot p p[i] r) : IsRoot p i r

theorem IsRoot.lt {p : Array Nat} {i r : Nat} (h : IsRoot p i r) : i < p.size := by
  cases h <;> assumption

theorem IsRoot.root_fix {p : Array Nat} {i r : Nat} (h : IsRoot p i r) : ∃ hr : r < p.size, p[r] = r := by
  induction h with
  | base h hp => exact ⟨h, hp⟩
  | step _ _ _ ih => exact ih

theorem IsRoot.unique {p : Array Nat} {i r r' : Nat} (h : IsRoot p i r) (h' : IsRoot p i r') : r = r' := by
  induction h with
  | base h hp =>
    cases h' with
    | base _ _ => rfl
    | step _ hp' _ => exact absurd hp hp'
  | step h hp _ ih =>
    cases h' with
    | base _ hp' => exact absurd hp' hp
    | step _ _ hr' => exact ih hr'

theorem IsRoot.le {p : Array Nat} (hI : Inv p) {i r : Nat} (h : IsRoot p i r) : r ≤ i := by
  induction h with
  | base _ _ => exact Nat.le_refl _
  | step h _ _ ih => exact Nat.le_trans ih (hI _ h)

/-- under the invariant `root` terminates (fuel `> i` suffices) and returns the root -/
theorem rootF_ok {p : Array Nat} (hI : Inv p) (i : Nat) (hi : i < p.size) (f : Nat) (hf : i < f) :
    ∃ r, rootF f p i = .ok r ∧ IsRoot p i r := by
  induction i using Nat.strongRecOn generalizing f with
  | _ i ih =>
    cases f with
    | zero => omega
    | succ f =>
      unfold rootF
      rw [Array.getElem?_eq_getElem hi]
      by_cases hp : p[i] = i
      · simp only [hp, beq_self_eq_true, if_true]
        exact ⟨i, rfl, IsRoot.base hi hp⟩
      · have hlt : p[i] < i := Nat.lt_of_le_of_ne (hI i hi) hp
        have hne : (p[i] == i) = false := by simpa using hp
        simp only [hne, Bool.false_eq_true, if_false]
        obtain ⟨r, h1, h2⟩ := ih p[i] hlt (by omega) f (by omega)
        exact ⟨r, h1, IsRoot.step hi hp h2⟩

theorem root_ok {u : UF} (hI : Inv u.p) (i : Nat) (hi : i < u.p.size) :
    ∃ r, root u i = .ok r ∧ IsRoot u.p i r :=
  rootF_ok hI i hi _ (by omega)

/-- linking root `b` below root `a < b` -/
theorem IsRoot.link {p : Array Nat} {a b : Nat} (ha : a < p.size) (hb : b < p.size) (hpa : p[a] = a) (hpb : p[b] = b)
    (hab : a ≠ b) {x r : Nat} (h : IsRoot p x r) :
    IsRoot (p.setIfInBounds b a) x (if r = b then a else r) := by
  have hsz : (p.setIfInBounds b a).size = p.size := by simp
  have hget : ∀ k (hk : k < p.size), (p.setIfInBounds b a)[k]'(by rw [hsz]; exact hk) = if b = k then a else p[k] := by
    intro k hk; rw [Array.getElem_setIfInBounds]
  induction h with
  | @base i h hp =>
    by_cases hib : i = b
    · subst hib
      simp only [if_true]
      refine IsRoot.step (by rw [hsz]; exact h) (by rw [hget _ h]; simpa using hab) ?_
      have : (p.setIfInBounds i a)[i]'(by rw [hsz]; exact h) = a := by rw [hget _ h]; simp
      rw [this]
      exact IsRoot.base (by rw [hsz]; exact ha) (by rw [hget _ ha]; simp [Ne.symm hab, hpa])
    · simp only [hib, if_false]
      exact IsRoot.base (by rw [hsz]; exact h) (by rw [hget _ h]; simp [Ne.symm hib, hp])
  | @step i r h hp hr ih =>
    have hib : i ≠ b := fun hh => hp (hh ▸ hpb)
    have e : (p.setIfInBounds b a)[i]'(by rw [hsz]; exact h) = p[i] := by rw [hget _ h]; simp [Ne.symm hib]
    refine IsRoot.step (by rw [hsz]; exact h) (by rw [e]; exact hp) ?_
    rw [e]; exact ih

theorem Inv.link {p : Array Nat} (hI : Inv p) {a b : Nat} (hab : a < b) : Inv (p.setIfInBounds b a) := by
  intro k hk
  have hk' : k < p.size := by simpa using hk
  rw [Array.getElem_setIfInBounds]
  split
  · omega
  · exact hI k hk'


/-! ### `union`, `is_same` -/

structure Good (u : UF) (n : Nat) : Prop where
  size : u.p.size = n
  inv : Inv u.p

theorem new_good (n : Nat) : Good (new n) n :=
  ⟨by simp [new], fun i h => by simp [new]⟩

theorem new_isRoot (n i : Nat) (h : i < n) : IsRoot (new n).p i i :=
  IsRoot.base (by simpa [new] using h) (by simp [new])

theorem union_spec {u : UF} {n : Nat} (hG : Good u n) (i j : Nat) (hi : i < n) (hj : j < n) :
    ∃ u' ri rj, union u i j = .ok u' ∧ Good u' n ∧ IsRoot u.p i ri ∧ IsRoot u.p j rj ∧
      ∀ x r, IsRoot u.p x r → IsRoot u'.p x (if r = max ri rj then min ri rj else r) := by
  obtain ⟨ri, h1, hri⟩ := root_ok hG.inv i (by rw [hG.size]; exact hi)
  obtain ⟨rj, h2, hrj⟩ := root_ok hG.inv j (by rw [hG.size]; exact hj)
  obtain ⟨hri_lt, hri_fix⟩ := hri.root_fix
  obtain ⟨hrj_lt, hrj_fix⟩ := hrj.root_fix
  unfold union
  rw [h1, h2]
  simp only
  by_cases hlt : ri < rj
  · rw [if_pos hlt]
    refine ⟨_, ri, rj, rfl, ⟨by simp [hG.size], hG.inv.link hlt⟩, hri, hrj, fun x r hr => ?_⟩
    rw [Nat.max_eq_right (Nat.le_of_lt hlt), Nat.min_eq_left (Nat.le_of_lt hlt)]
    exact hr.link hri_lt hrj_lt hri_fix hrj_fix (Nat.ne_of_lt hlt)
  · rw [if_neg hlt]
    by_cases heq : ri = rj
    · subst heq
      simp only [beq_self_eq_true, if_true]
      refine ⟨u, ri, ri, rfl, hG, hri, hrj, fun x r hr => ?_⟩
      simp only [Nat.max_self, Nat.min_self]
      split
      · rename_i h; rw [← h]; exact hr
      · exact hr
    · have hne : (ri == rj) = false := by simpa using heq
      have hgt : rj < ri := by omega
      simp only [hne, Bool.false_eq_true, if_false]
      refine ⟨_, ri, rj, rfl, ⟨by simp [hG.size], hG.inv.link hgt⟩, hri, hrj, fun x r hr => ?_⟩
      rw [Nat.max_eq_left (Nat.le_of_lt hgt), Nat.min_eq_right (Nat.le_of_lt hgt)]
      exact hr.link hrj_lt hri_lt hrj_fix hri_fix (Nat.ne_of_lt hgt)

theorem isSame_spec {u : UF} {n : Nat} (hG : Good u n) (i j : Nat) (hi : i < n) (hj : j < n) :
    ∃ ri rj, IsRoot u.p i ri ∧ IsRoot u.p j rj ∧ isSame u i j = .ok (ri == rj) := by
  obtain ⟨ri, h1, hri⟩ := root_ok hG.inv i (by rw [hG.size]; exact hi)
  obtain ⟨rj, h2, hrj⟩ := root_ok hG.inv j (by rw [hG.size]; exact hj)
  exact ⟨ri, rj, hri, hrj, by unfold isSame; rw [h1, h2]⟩

/-! ### equivalence closure -/

theorem eqvGen_mono' {α : Type} {R R' : α → α → Prop} (h : ∀ a b, R a b → R' a b) {x y : α}
    (hxy : EqvGen R x y) : EqvGen R' x y := by
  induction hxy with
  | rel a b hab => exact EqvGen.rel _ _ (h a b hab)
  | refl a => exact EqvGen.refl _
  | symm a b _ ih => exact EqvGen.symm _ _ ih
  | trans a b c _ _ ih1 ih2 => exact EqvGen.trans _ _ _ ih1 ih2

theorem eqvGen_insert {α : Type} (R : α → α → Prop) (i j x y : α) :
    EqvGen (fun a b => R a b ∨ (a = i ∧ b = j)) x y ↔
      EqvGen R x y ∨ (EqvGen R x i ∧ EqvGen R j y) ∨ (EqvGen R x j ∧ EqvGen R i y) := by
  have T := @EqvGen.trans _ R
  have S := @EqvGen.symm _ R
  constructor
  · intro h
    induction h with
    | rel a b hab =>
      rcases hab with hab | ⟨rfl, rfl⟩
      · exact Or.inl (EqvGen.rel _ _ hab)
      · exact Or.inr (Or.inl ⟨EqvGen.refl _, EqvGen.refl _⟩)
    | refl a => exact Or.inl (EqvGen.refl _)
    | symm a b _ ih =>
      rcases ih with h | ⟨h1, h2⟩ | ⟨h1, h2⟩
      · exact Or.inl (S _ _ h)
      · exact Or.inr (Or.inr ⟨S _ _ h2, S _ _ h1⟩)
      · exact Or.inr (Or.inl ⟨S _ _ h2, S _ _ h1⟩)
    | trans a b c _ _ ih1 ih2 =>
      rcases ih1 with h | ⟨h1, h2⟩ | ⟨h1, h2⟩ <;> rcases ih2 with g | ⟨g1, g2⟩ | ⟨g1, g2⟩
      · exact Or.inl (T _ _ _ h g)
      · exact Or.inr (Or.inl ⟨T _ _ _ h g1, g2⟩)
      · exact Or.inr (Or.inr ⟨T _ _ _ h g1, g2⟩)
      · exact Or.inr (Or.inl ⟨h1, T _ _ _ h2 g⟩)
      · exact Or.inr (Or.inl ⟨h1, g2⟩)
      · exact Or.inl (T _ _ _ h1 g2)
      · exact Or.inr (Or.inr ⟨h1, T _ _ _ h2 g⟩)
      · exact Or.inl (T _ _ _ h1 g2)
      · exact Or.inr (Or.inr ⟨h1, g2⟩)
  · have M : ∀ a b, EqvGen R a b → EqvGen (fun a b => R a b ∨ (a = i ∧ b = j)) a b :=
      fun a b h => eqvGen_mono' (fun _ _ h => Or.inl h) h
    have ij : EqvGen (fun a b => R a b ∨ (a = i ∧ b = j)) i j := EqvGen.rel _ _ (Or.inr ⟨rfl, rfl⟩)
    rintro (h | ⟨h1, h2⟩ | ⟨h1, h2⟩)
    · exact M _ _ h
    · exact EqvGen.trans _ _ _ (M _ _ h1) (EqvGen.trans _ _ _ ij (M _ _ h2))
    · exact EqvGen.trans _ _ _ (M _ _ h1) (EqvGen.trans _ _ _ (EqvGen.symm _ _ ij) (M _ _ h2))

theorem eqvGen_congr {α : Type} {R R' : α → α → Prop} (h : ∀ a b, R a b ↔ R' a b) (x y : α) :
    EqvGen R x y ↔ EqvGen R' x y :=
  ⟨eqvGen_mono' fun a b => (h a b).1, eqvGen_mono' fun a b => (h a b).2⟩

theorem eqvGen_false {α : Type} (x y : α) : EqvGen (fun _ _ : α => False) x y ↔ x = y := by
  constructor
  · intro h
    induction h with
    | rel _ _ h => exact h.elim
    | refl _ => rfl
    | symm _ _ _ ih => exact ih.symm
    | trans _ _ _ _ _ ih1 ih2 => exact ih1.trans ih2
  · rintro rfl; exact EqvGen.refl _

/-- the state represents the equivalence closure of `R` on `0..n` -/
structure Rep (u : UF) (n : Nat) (R : Nat → Nat → Prop) : Prop where
  good : Good u n
  rel : ∀ x y, x < n → y < n → ∀ rx ry, IsRoot u.p x rx → IsRoot u.p y ry → (rx = ry ↔ EqvGen R x y)

theorem Rep.congr {u : UF} {n : Nat} {R R' : Nat → Nat → Prop} (h : Rep u n R) (hR : ∀ a b, R a b ↔ R' a b) :
    Rep u n R' :=
  ⟨h.good, fun x y hx hy rx ry h1 h2 => (h.rel x y hx hy rx ry h1 h2).trans (eqvGen_congr hR x y)⟩

theorem new_rep (n : Nat) : Rep (new n) n (fun _ _ => False) := by
  refine ⟨new_good n, fun x y hx hy rx ry h1 h2 => ?_⟩
  rw [IsRoot.unique h1 (new_isRoot n x hx), IsRoot.unique h2 (new_isRoot n y hy), eqvGen_false]

theorem union_rep {u : UF} {n : Nat} {R : Nat → Nat → Prop} (h : Rep u n R) (i j : Nat) (hi : i < n) (hj : j < n) :
    ∃ u', union u i j = .ok u' ∧ Rep u' n (fun a b => R a b ∨ (a = i ∧ b = j)) := by
  obtain ⟨u', ri, rj, hu, hG', hri, hrj, hmap⟩ := union_spec h.good i j hi hj
  refine ⟨u', hu, hG', fun x y hx hy rx' ry' h1 h2 => ?_⟩
  obtain ⟨rx, _, hrx⟩ := root_ok h.good.inv x (by rw [h.good.size]; exact hx)
  obtain ⟨ry, _, hry⟩ := root_ok h.good.inv y (by rw [h.good.size]; exact hy)
  rw [IsRoot.unique h1 (hmap x rx hrx), IsRoot.unique h2 (hmap y ry hry), eqvGen_insert,
    ← h.rel x y hx hy rx ry hrx hry, ← h.rel x i hx hi rx ri hrx hri, ← h.rel j y hj hy rj ry hrj hry,
    ← h.rel x j hx hj rx rj hrx hrj, ← h.rel i y hi hy ri ry hri hry]
  rcases Nat.lt_trichotomy ri rj with hlt | heq | hgt
  · rw [Nat.max_eq_right (Nat.le_of_lt hlt), Nat.min_eq_left (Nat.le_of_lt hlt)]
    split <;> split <;> omega
  · subst heq; simp only [Nat.max_self, Nat.min_self]
    split <;> split <;> omega
  · rw [Nat.max_eq_left (Nat.le_of_lt hgt), Nat.min_eq_right (Nat.le_of_lt hgt)]
    split <;> split <;> omega

/-- a sequence of `union` calls -/
def unions : UF → List (Nat × Nat) → Res UF
  | u, [] => .ok u
  | u, e :: es => match union u e.1 e.2 with
    | .ok u' => unions u' es
    | .panic => .panic
    | .err => .err

theorem unions_rep {u : UF} {n : Nat} {R : Nat → Nat → Prop} (h : Rep u n R) (es : List (Nat × Nat))
    (hes : ∀ e ∈ es, e.1 < n ∧ e.2 < n) :
    ∃ u', unions u es = .ok u' ∧ Rep u' n (fun a b => R a b ∨ (a, b) ∈ es) := by
  induction es generalizing u R with
  | nil => exact ⟨u, rfl, h.congr (by simp)⟩
  | cons e es ih =>
    obtain ⟨u1, h1, hr1⟩ := union_rep h e.1 e.2 (hes e (by simp)).1 (hes e (by simp)).2
    obtain ⟨u2, h2, hr2⟩ := ih hr1 (fun e' h' => hes e' (by simp [h']))
    refine ⟨u2, by unfold unions; rw [h1]; exact h2, hr2.congr (fun a b => ?_)⟩
    simp only [List.mem_cons, Prod.ext_iff]
    tauto


/-! ### roots are class minima ⇒ independence of the union order -/

theorem Rep.root_min {u : UF} {n : Nat} {R : Nat → Nat → Prop} (h : Rep u n R) (x : Nat) (hx : x < n)
    (r : Nat) (hr : IsRoot u.p x r) :
    r < n ∧ EqvGen R x r ∧ ∀ y, y < n → EqvGen R x y → r ≤ y := by
  obtain ⟨hlt, hfix⟩ := hr.root_fix
  have hrn : r < n := by rw [← h.good.size]; exact hlt
  refine ⟨hrn, (h.rel x r hx hrn r r hr (IsRoot.base hlt hfix)).1 rfl, fun y hy hxy => ?_⟩
  obtain ⟨ry, _, hry⟩ := root_ok h.good.inv y (by rw [h.good.size]; exact hy)
  rw [(h.rel x y hx hy r ry hr hry).2 hxy]
  exact hry.le h.good.inv

theorem root_determined {u u' : UF} {n : Nat} {R R' : Nat → Nat → Prop} (h : Rep u n R) (h' : Rep u' n R')
    (hRR : ∀ a b, EqvGen R a b ↔ EqvGen R' a b) (x : Nat) (hx : x < n) : root u x = root u' x := by
  obtain ⟨r, e, hr⟩ := root_ok h.good.inv x (by rw [h.good.size]; exact hx)
  obtain ⟨r', e', hr'⟩ := root_ok h'.good.inv x (by rw [h'.good.size]; exact hx)
  obtain ⟨a1, a2, a3⟩ := h.root_min x hx r hr
  obtain ⟨b1, b2, b3⟩ := h'.root_min x hx r' hr'
  have : r = r' := Nat.le_antisymm (a3 r' b1 ((hRR _ _).2 b2)) (b3 r a1 ((hRR _ _).1 a2))
  rw [e, e', this]

theorem mapMRes_congr {β γ : Type} (f g : β → Res γ) (l : List β) (h : ∀ x ∈ l, f x = g x) :
    mapMRes f l = mapMRes g l := by
  induction l with
  | nil => rfl
  | cons x l ih =>
    unfold mapMRes
    rw [h x (by simp), ih (fun y hy => h y (by simp [hy]))]

theorem group_determined {u u' : UF} {n : Nat} {R R' : Nat → Nat → Prop} (h : Rep u n R) (h' : Rep u' n R')
    (hRR : ∀ a b, EqvGen R a b ↔ EqvGen R' a b) : group u = group u' := by
  unfold group
  rw [h.good.size, h'.good.size]
  dsimp only
  rw [mapMRes_congr (root u) (root u') _ (fun x hx => root_determined h h' hRR x (List.mem_range.1 hx))]

theorem isSame_determined {u u' : UF} {n : Nat} {R R' : Nat → Nat → Prop} (h : Rep u n R) (h' : Rep u' n R')
    (hRR : ∀ a b, EqvGen R a b ↔ EqvGen R' a b) (x y : Nat) (hx : x < n) (hy : y < n) :
    isSame u x y = isSame u' x y := by
  unfold isSame
  rw [root_determined h h' hRR x hx, root_determined h h' hRR y hy]

/-- `is_same` decides the equivalence closure -/
theorem Rep.isSame_iff {u : UF} {n : Nat} {R : Nat → Nat → Prop} (h : Rep u n R) (x y : Nat) (hx : x < n) (hy : y < n) :
    ∃ b, isSame u x y = .ok b ∧ (b = true ↔ EqvGen R x y) := by
  obtain ⟨rx, ry, h1, h2, e⟩ := isSame_spec h.good x y hx hy
  exact ⟨_, e, by rw [beq_iff_eq]; exact h.rel x y hx hy rx ry h1 h2⟩

/-- the list `group()` builds from a root function: classes keyed by root in ascending order, members ascending -/
def classesOf (n : Nat) (rt : Nat → Nat) : List (List Nat) :=
  (List.range n).filterMap fun r =>
    let g := (List.range n).filter fun i => rt i == r
    if g.isEmpty then none else some g

theorem mapMRes_ok {β γ : Type} (f : β → Res γ) (g : β → γ) (l : List β) (h : ∀ x ∈ l, f x = .ok (g x)) :
    mapMRes f l = .ok (l.map g) := by
  induction l with
  | nil => rfl
  | cons x l ih =>
    unfold mapMRes
    rw [h x (by simp), ih (fun y hy => h y (by simp [hy]))]; rfl

theorem Rep.group_eq {u : UF} {n : Nat} {R : Nat → Nat → Prop} (h : Rep u n R) :
    ∃ rt : Nat → Nat, (∀ x, x < n → root u x = .ok (rt x) ∧ IsRoot u.p x (rt x)) ∧ group u = .ok (classesOf n rt) := by
  classical
  have hex : ∀ x, ∃ r, x < n → root u x = .ok r ∧ IsRoot u.p x r := by
    intro x
    by_cases hx : x < n
    · obtain ⟨r, e, hr⟩ := root_ok h.good.inv x (by rw [h.good.size]; exact hx)
      exact ⟨r, fun _ => ⟨e, hr⟩⟩
    · exact ⟨0, fun hh => absurd hh hx⟩
  choose rt hrt using hex
  refine ⟨rt, hrt, ?_⟩
  unfold group
  rw [h.good.size]
  dsimp only
  rw [mapMRes_ok (root u) rt _ (fun x hx => (hrt x (List.mem_range.1 hx)).1)]
  simp only [classesOf]
  have : ∀ r, ((List.range n).filter fun i => ((List.range n).map rt).toArray.getD i 0 == r) =
      (List.range n).filter fun i => rt i == r := by
    intro r
    apply List.filter_congr
    intro i hi
    have hi' : i < n := List.mem_range.1 hi
    simp [hi']
  simp only [this]

end UF
end Yuiv.C12
