import Yuiv.Proofs.C11Worker
/-
C11 — the global invariant of the parallel phase and its preservation by every step of every worker.
-/
namespace Yuiv.C11
open Yuiv Res Std

/-- between `choose_candidate` and the critical section: the chosen column is still marked `Candidate`
and the traversal is complete -/
def ChosenOk (w : Worker) : Prop := ∀ j, w.chosen = some j → w.mark j = Mark.cand ∧ w.queue = []

structure WGood (s : Str) (S : Pivs) (w : Worker) : Prop where
  kle : w.k ≤ S.length
  inv : WInv s (S.take w.k) w
  rowm : RowMarked s w
  chosen : ChosenOk w

structure GInv (s : Str) (st : State) : Prop where
  pinv : PInv s st.S
  wsNodup : (st.ws.map (·.row)).Nodup
  todoNodup : st.todo.Nodup
  wsRows : ∀ w ∈ st.ws, w.row ∉ st.S.map (·.1) ∧ w.row ∉ st.todo
  todoRows : ∀ i ∈ st.todo, i ∉ st.S.map (·.1)
  workers : ∀ w ∈ st.ws, WGood s st.S w

theorem findWorker_some {ws : List Worker} {i : Nat} {w : Worker} (h : findWorker ws i = some w) :
    w ∈ ws ∧ w.row = i := by
  unfold findWorker at h
  have h1 := List.mem_of_find?_eq_some h
  have h2 := List.find?_some h
  simp at h2
  exact ⟨h1, h2⟩

theorem mem_dropWorker {ws : List Worker} {i : Nat} {w : Worker} (h : w ∈ dropWorker ws i) :
    w ∈ ws ∧ w.row ≠ i := by
  unfold dropWorker at h
  rw [List.mem_filter] at h
  refine ⟨h.1, ?_⟩
  have := h.2
  simpa using this

theorem dropWorker_nodup {ws : List Worker} (i : Nat) (h : (ws.map (·.row)).Nodup) :
    ((dropWorker ws i).map (·.row)).Nodup :=
  h.sublist (List.filter_sublist.map _)

theorem row_not_in_drop {ws : List Worker} (i : Nat) : i ∉ (dropWorker ws i).map (·.row) := by
  intro h
  obtain ⟨w, hw, e⟩ := List.mem_map.1 h
  exact (mem_dropWorker hw).2 e

/-- changing only `k`/`chosen` does not affect the worker invariant's core -/
theorem WCore.congr {s : Str} {P : Pivs} {w w' : Worker} (h : WCore s P w)
    (hm : w'.marks = w.marks) (hn : w'.ncand = w.ncand) (hq : w'.queue = w.queue) (hqd : w'.queued = w.queued)
    (hr : w'.row = w.row) : WCore s P w' := by
  have hmk : ∀ j, w'.mark j = w.mark j := fun j => by simp [Worker.mark, hm]
  obtain ⟨C, h1, h2, h3⟩ := h.count
  refine ⟨⟨C, h1, fun j => by rw [hmk]; exact h2 j, by rw [hn]; exact h3⟩, ?_, ?_, ?_, ?_⟩
  · intro j hj; rw [hmk] at hj; rw [hr]; exact h.candOk j hj
  · intro j h1 h2; rw [hmk] at h1; rw [hqd]; exact h.q1 j h1 h2
  · intro j h1; rw [hqd] at h1; exact h.q3 j h1
  · intro j h1; rw [hq] at h1; rw [hqd]; exact h.qsub j h1

theorem pinv_take {s : Str} {S : Pivs} (h : PInv s S) (k : Nat) : ((S.take k).map (·.2)).Nodup :=
  h.cols.sublist ((List.take_sublist k S).map _)

/-- the heart: a validated commit keeps the table's invariant -/
theorem commit_pinv {s : Str} {S : Pivs} {w : Worker} {js : Nat}
    (hp : PInv s S) (_hk : w.k ≤ S.length) (hw : WInv s (S.take w.k) w) (hrm : RowMarked s w)
    (hcand : w.mark js = Mark.cand) (hq : w.queue = [])
    (hnew : ∀ p ∈ S.drop w.k, w.mark p.2 = Mark.none)
    (hrow : w.row ∉ S.map (·.1)) :
    hasCol S js = false ∧ PInv s (S ++ [(w.row, js)]) := by
  have hS : S.take w.k ++ S.drop w.k = S := List.take_append_drop _ _
  have hmemS : ∀ p, p ∈ S → p ∈ S.take w.k ∨ p ∈ S.drop w.k := by
    intro p hp'; rw [← hS] at hp'; exact List.mem_append.1 hp'
  have hnc : w.ncand ≠ 0 := hw.count.pos hcand
  have hdone : ∀ j ∈ w.queued, Done s (S.take w.k) w j := by
    intro j hj
    rcases hw.q2 with h0 | h
    · exact absurd h0 hnc
    · rcases h j hj with hin | hd
      · rw [hq] at hin; simp at hin
      · exact hd
  -- marked pivots belong to the snapshot and their rows are done
  have hreach : ∀ p ∈ S, w.mark p.2 ≠ Mark.none → ∀ j2 ∈ colsIn s p.1, w.mark j2 = Mark.occ := by
    intro p hpS hm
    rcases hmemS p hpS with hin | hin
    · have hrf : rowFor (S.take w.k) p.2 = some p.1 := rowFor_of_mem (pinv_take hp _) hin
      have hq' := hw.q1 p.2 hm (hasCol_of_rowFor hrf)
      exact hdone p.2 hq' p.1 hrf
    · exact absurd (hnew p hin) hm
  have hfree : js ∉ S.map (·.2) := by
    intro h
    obtain ⟨p, hpS, e⟩ := List.mem_map.1 h
    rcases hmemS p hpS with hin | hin
    · have := (hw.candOk js hcand).1
      rw [hasCol_false_iff] at this
      exact this (List.mem_map.2 ⟨p, hin, e⟩)
    · have := hnew p hin
      have e' : p.2 = js := e
      rw [e', hcand] at this
      simp at this
  refine ⟨hasCol_false_iff.2 hfree, ?_, ?_, ?_, ?_⟩
  · rw [List.map_append, List.nodup_append]
    refine ⟨hp.rows, by simp, ?_⟩
    intro a ha b hb
    simp at hb
    subst hb
    exact fun e => hrow (e ▸ ha)
  · rw [List.map_append, List.nodup_append]
    refine ⟨hp.cols, by simp, ?_⟩
    intro a ha b hb
    simp at hb
    subst hb
    exact fun e => hfree (e ▸ ha)
  · intro p hpS
    rcases List.mem_append.1 hpS with h | h
    · exact hp.cand p h
    · simp at h; subst h; exact (hw.candOk js hcand).2
  · apply commit_acyclic_core s S w.row js (fun j => w.mark j ≠ Mark.none) hp.acyc hfree hrm
    · intro p hpS hm j2 hj2
      rw [hreach p hpS hm j2 hj2]; simp
    · intro p hpS hm hjs
      have := hreach p hpS hm js hjs
      rw [hcand] at this; simp at this

theorem step_good (s : Str) (hwf : s.WF) (st : State) (h : GInv s st) (a : Act) :
    Good (step s st a) (fun r => GInv s r.1) := by
  cases a with
  | start i k =>
    rw [step]
    by_cases hc : (st.todo.contains i && decide (k ≤ st.S.length) && (findWorker st.ws i).isNone) = true
    · simp only [hc, if_true]
      simp only [Bool.and_eq_true, decide_eq_true_eq, List.contains_iff_mem] at hc
      obtain ⟨⟨hi, hk⟩, _⟩ := hc
      apply Good.bind (init_good s hwf (st.S.take k) i)
      rintro w ⟨hinv, hrm, hr, hwk, hch⟩
      have hwk' : w.k = k := by rw [hwk, List.length_take]; omega
      refine ⟨h.pinv, ?_, h.todoNodup.erase i, ?_, ?_, ?_⟩
      · simp only [List.map_cons, List.nodup_cons]
        refine ⟨?_, h.wsNodup⟩
        intro hmem
        obtain ⟨w', hw', e⟩ := List.mem_map.1 hmem
        have := (h.wsRows w' hw').2
        have e' : w'.row = w.row := e
        rw [e', hr] at this
        exact this hi
      · intro w' hw'
        rcases List.mem_cons.1 hw' with e | hw'
        · subst e
          rw [hr]
          refine ⟨h.todoRows i hi, ?_⟩
          rw [h.todoNodup.mem_erase_iff]
          exact fun hh => hh.1 rfl
        · exact ⟨(h.wsRows w' hw').1, fun hh => (h.wsRows w' hw').2 (List.mem_of_mem_erase hh)⟩
      · intro i' hi'; exact h.todoRows i' (List.mem_of_mem_erase hi')
      · intro w' hw'
        rcases List.mem_cons.1 hw' with e | hw'
        · subst e
          refine ⟨by rw [hwk']; exact hk, by rw [hwk']; exact hinv, hrm, ?_⟩
          intro j hj; rw [hch] at hj; simp at hj
        · exact h.workers w' hw'
    · simp only [hc, Bool.false_eq_true, if_false]
      trivial
  | search i choice =>
    rw [step]
    cases hf : findWorker st.ws i with
    | none => trivial
    | some w =>
      simp only
      obtain ⟨hw, hr⟩ := findWorker_some hf
      have hg := h.workers w hw
      by_cases hch : w.chosen.isSome = true
      · simp only [hch, if_true]; trivial
      · simp only [hch, Bool.false_eq_true, if_false]
        apply Good.bind (traverse_good s (st.S.take w.k) w hg.inv)
        rintro w1 ⟨hinv1, hm1, hend1⟩
        have hdropRows : ∀ w' ∈ dropWorker st.ws i, w'.row ∉ st.S.map (·.1) ∧ w'.row ∉ st.todo :=
          fun w' hw' => h.wsRows w' (mem_dropWorker hw').1
        have hdropGood : ∀ w' ∈ dropWorker st.ws i, WGood s st.S w' :=
          fun w' hw' => h.workers w' (mem_dropWorker hw').1
        cases choice with
        | none =>
          exact ⟨h.pinv, dropWorker_nodup i h.wsNodup, h.todoNodup, hdropRows, h.todoRows, hdropGood⟩
        | some j =>
          simp only
          by_cases hcj : w1.isCandidate j = true
          · simp only [hcj, if_true]
            have hmj : w1.mark j = Mark.cand := by simpa [Worker.isCandidate] using hcj
            have hrow1 : w1.row = i := by rw [hm1.row]; exact hr
            refine ⟨h.pinv, ?_, h.todoNodup, ?_, h.todoRows, ?_⟩
            · simp only [List.map_cons, List.nodup_cons]
              refine ⟨?_, dropWorker_nodup i h.wsNodup⟩
              rw [hrow1]; exact row_not_in_drop i
            · intro w' hw'
              rcases List.mem_cons.1 hw' with e | hw'
              · subst e
                show w1.row ∉ _ ∧ w1.row ∉ _
                rw [hm1.row]; exact h.wsRows w hw
              · exact hdropRows w' hw'
            · intro w' hw'
              rcases List.mem_cons.1 hw' with e | hw'
              · subst e
                refine ⟨?_, ?_, ?_, ?_⟩
                · show w1.k ≤ _; rw [hm1.k]; exact hg.kle
                · show WInv s (st.S.take w1.k) _
                  rw [hm1.k]
                  exact ⟨hinv1.toWCore.congr rfl rfl rfl rfl rfl, hinv1.q2⟩
                · intro j' hj'
                  have hj'' : j' ∈ colsIn s w.row := by
                    have : ({ w1 with chosen := some j } : Worker).row = w.row := hm1.row
                    rw [this] at hj'; exact hj'
                  exact hm1.marked j' (hg.rowm j' hj'')
                · intro j' hj'
                  have e : j = j' := by simpa using hj'
                  subst e
                  refine ⟨hmj, ?_⟩
                  rcases hend1 with h0 | hq
                  · exact absurd h0 (hinv1.count.pos hmj)
                  · exact hq
              · exact hdropGood w' hw'
          · simp only [hcj, Bool.false_eq_true, if_false]
            trivial
  | validate i =>
    rw [step]
    cases hf : findWorker st.ws i with
    | none => trivial
    | some w =>
      simp only
      obtain ⟨hw, hr⟩ := findWorker_some hf
      have hg := h.workers w hw
      cases hch : w.chosen with
      | none => trivial
      | some j =>
        simp only
        obtain ⟨hmj, hq0⟩ := hg.chosen j hch
        have hnc : w.ncand ≠ 0 := hg.inv.count.pos hmj
        have hstrong : ∀ j ∈ w.queued, j ∈ w.queue ∨ Done s (st.S.take w.k) w j := by
          rcases hg.inv.q2 with h0 | hh
          · exact absurd h0 hnc
          · exact hh
        have hS : st.S.take w.k ++ st.S.drop w.k = st.S := List.take_append_drop _ _
        apply Good.bind (updateDiff_good s (st.S.drop w.k) (st.S.take w.k) w hg.inv.toWCore hstrong)
        rintro w' ⟨hc', hq', hm', hlen', hsame'⟩
        rw [hS] at hc' hq'
        have hdropRows : ∀ w2 ∈ dropWorker st.ws i, w2.row ∉ st.S.map (·.1) ∧ w2.row ∉ st.todo :=
          fun w2 hw2 => h.wsRows w2 (mem_dropWorker hw2).1
        have hdropGood : ∀ w2 ∈ dropWorker st.ws i, WGood s st.S w2 :=
          fun w2 hw2 => h.workers w2 (mem_dropWorker hw2).1
        by_cases hre : w'.shouldRetry = true
        · simp only [hre, if_true]
          have hrow' : w'.row = i := by rw [hm'.row]; exact hr
          refine ⟨h.pinv, ?_, h.todoNodup, ?_, h.todoRows, ?_⟩
          · simp only [List.map_cons, List.nodup_cons]
            refine ⟨?_, dropWorker_nodup i h.wsNodup⟩
            rw [hrow']; exact row_not_in_drop i
          · intro w2 hw2
            rcases List.mem_cons.1 hw2 with e | hw2
            · subst e
              show w'.row ∉ _ ∧ w'.row ∉ _
              rw [hm'.row]; exact h.wsRows w hw
            · exact hdropRows w2 hw2
          · intro w2 hw2
            rcases List.mem_cons.1 hw2 with e | hw2
            · subst e
              refine ⟨Nat.le_refl _, ?_, ?_, ?_⟩
              · show WInv s (st.S.take st.S.length) _
                rw [List.take_length]
                exact ⟨hc'.congr rfl rfl rfl rfl rfl, Or.inr hq'⟩
              · intro j' hj'
                have hj'' : j' ∈ colsIn s w.row := by
                  have : ({ w' with k := st.S.length, chosen := none } : Worker).row = w.row := hm'.row
                  rw [this] at hj'; exact hj'
                exact hm'.marked j' (hg.rowm j' hj'')
              · intro j' hj'; simp at hj'
            · exact hdropGood w2 hw2
        · simp only [hre, Bool.false_eq_true, if_false]
          have hqe : w'.queue = [] := by
            simp only [Worker.shouldRetry, Bool.not_eq_true, Bool.not_eq_false', List.isEmpty_iff] at hre
            simpa using hre
          obtain ⟨e, hnew⟩ := hsame' (by rw [hqe, hq0])
          obtain ⟨hfree, hpinv'⟩ := commit_pinv h.pinv hg.kle hg.inv hg.rowm hmj hq0 hnew (h.wsRows w hw).1
          simp only [Pivs.set, hfree, Bool.false_eq_true, if_false]
          show Good (Res.ok _) _
          refine ⟨hpinv', dropWorker_nodup i h.wsNodup, h.todoNodup, ?_, ?_, ?_⟩
          · intro w2 hw2
            obtain ⟨hw2', hne⟩ := mem_dropWorker hw2
            refine ⟨?_, (h.wsRows w2 hw2').2⟩
            simp only [List.map_append, List.mem_append, List.map_cons, List.map_nil, List.mem_singleton, not_or]
            exact ⟨(h.wsRows w2 hw2').1, fun e2 => hne (e2.trans hr)⟩
          · intro i' hi'
            simp only [List.map_append, List.mem_append, List.map_cons, List.map_nil, List.mem_singleton, not_or]
            refine ⟨h.todoRows i' hi', ?_⟩
            intro e2
            exact (h.wsRows w hw).2 (e2 ▸ hi')
          · intro w2 hw2
            have hg2 := hdropGood w2 hw2
            refine ⟨?_, ?_, hg2.rowm, hg2.chosen⟩
            · rw [List.length_append]; exact Nat.le_trans hg2.kle (Nat.le_add_right _ _)
            · rw [List.take_append_of_le_length hg2.kle]; exact hg2.inv

/-- every schedule: the invariant holds in every reachable state and no step panics -/
theorem run_good (s : Str) (hwf : s.WF) : ∀ (acts : List Act) (st : State), GInv s st →
    Good (run s st acts) (fun r => GInv s r.1) := by
  intro acts
  induction acts with
  | nil => intro st h; exact h
  | cons a acts ih =>
    intro st h
    rw [run]
    apply Good.bind (step_good s hwf st h a)
    rintro ⟨st1, o⟩ h1
    apply Good.bind (ih st1 h1)
    rintro ⟨st2, os⟩ h2
    exact h2

end Yuiv.C11
