import Yuiv.Proofs.C13
import Yuiv.Proofs.C13Raw
/-
C13 — part 7: sparse vectors: `from_entries`, `extract`, `permute`, `subvec`, `split`, `stack`.
-/
namespace Yuiv.C13
open Yuiv Res

set_option linter.unusedSectionVars false
set_option linter.unusedSimpArgs false
set_option linter.unusedVariables false

variable {R : Type} [CommRing R] [DecidableEq R]

theorem entryT_col0 (es : List (Nat × R)) (i : Nat) :
    entryT (es.map (fun p => (p.1, 0, p.2))) i 0 = sumAt es i := by
  induction es with
  | nil => rfl
  | cons p es ih =>
    obtain ⟨k, a⟩ := p
    simp only [List.map_cons, entryT_cons, sumAt_cons, ih]
    by_cases h : k = i <;> simp [h]

/-- `SpVec::from_entries`: defined iff every non-zero entry is below `dim`; entries = sums of the given pairs -/
theorem vfromEntries_ok (d : Nat) (es : List (Nat × R)) (h : ∀ p ∈ es, p.2 ≠ 0 → p.1 < d) :
    ∃ v, SpVec.fromEntries d es = ok v ∧ v.dim = d ∧ v.WF ∧ ∀ i, v.entry i = if i < d then sumAt es i else 0 := by
  have hs : InShape d 1 (es.map (fun p => (p.1, 0, p.2))) := by
    intro t ht hnz
    simp only [List.mem_map] at ht
    obtain ⟨p, hp, rfl⟩ := ht
    exact ⟨h p hp hnz, by simp⟩
  obtain ⟨h1, h2, h3, h4⟩ := fromEntries_spec _ _ _ _ (fromEntries_ok _ _ _ hs)
  obtain ⟨v, g1, g2, g3, g4⟩ := intoSpVec_spec _ h3 h2
  refine ⟨v, by unfold SpVec.fromEntries; rw [fromEntries_ok _ _ _ hs]; exact g1, by rw [g2, h1], g3, ?_⟩
  intro i
  rw [g4, h4, entryT_col0]
  simp

theorem vfromEntries_panic (d : Nat) (es : List (Nat × R)) (h : ∃ p ∈ es, p.2 ≠ 0 ∧ ¬ p.1 < d) :
    SpVec.fromEntries d es = panic := by
  unfold SpVec.fromEntries
  rw [fromEntries_panic]
  · rfl
  · intro hs
    obtain ⟨p, hp, hnz, hlt⟩ := h
    exact hlt (hs (p.1, 0, p.2) (List.mem_map.mpr ⟨p, hp, rfl⟩) hnz).1

theorem mapEnts_ok (f : Nat → Res (Option Nat)) (g : Nat → Option Nat) (es : List (Nat × R))
    (h : ∀ p ∈ es, f p.1 = ok (g p.1)) :
    mapEnts f es = ok (es.filterMap (fun p => (g p.1).map (fun i' => (i', p.2)))) := by
  induction es with
  | nil => rfl
  | cons p es ih =>
    obtain ⟨i, a⟩ := p
    have h0 := h (i, a) (by simp)
    simp only at h0
    rw [mapEnts, h0, ih (fun q hq => h q (by simp [hq]))]
    cases hg : g i with
    | none => simp [List.filterMap_cons, hg]
    | some x => simp [List.filterMap_cons, hg]

theorem sumAt_filterMap (g : Nat → Option Nat) (es : List (Nat × R)) (i' : Nat) :
    sumAt (es.filterMap (fun p => (g p.1).map (fun x => (x, p.2)))) i'
      = ((es.filter (fun p => g p.1 = some i')).map (·.2)).sum := by
  induction es with
  | nil => rfl
  | cons p es ih =>
    obtain ⟨i, a⟩ := p
    rw [List.filterMap_cons, List.filter_cons]
    cases hg : g i with
    | none => simp [ih]
    | some x =>
      simp only [Option.map_some, sumAt_cons, ih]
      by_cases hx : x = i'
      · subst hx; simp
      · simp [hx]

/-- if exactly the stored entries at index `i` are sent to `i'`, the new entry is the old one -/
theorem sumAt_filterMap_of_iff (g : Nat → Option Nat) (es : List (Nat × R)) (i i' : Nat)
    (h : ∀ p ∈ es, g p.1 = some i' ↔ p.1 = i) :
    sumAt (es.filterMap (fun p => (g p.1).map (fun x => (x, p.2)))) i' = sumAt es i := by
  rw [sumAt_filterMap]
  unfold sumAt
  congr 2
  apply List.filter_congr
  intro p hp
  by_cases e : p.1 = i
  · have h1 := (h p hp).mpr e
    rw [decide_eq_true h1]; simp [e]
  · have : ¬ g p.1 = some i' := fun x => e ((h p hp).mp x)
    simp [this, e]

theorem SpVec.WF.bound {v : SpVec R} (h : v.WF) : ∀ p ∈ v.ents, p.1 < v.dim := by
  intro p hp
  exact SpMat.WF.bound h v.ents (by simp [SpVec.toMat]) p hp

theorem SpVec.WF.entry_oob {v : SpVec R} (h : v.WF) (i : Nat) (hi : ¬ i < v.dim) : v.entry i = 0 := by
  apply sumAt_eq_zero
  intro p hp e
  have := h.bound p hp
  omega

/-- general description of `SpVec::extract` for a total relocation `g` -/
theorem vextract_spec (v : SpVec R) (d : Nat) (f : Nat → Res (Option Nat)) (g : Nat → Option Nat)
    (hf : ∀ p ∈ v.ents, f p.1 = ok (g p.1)) (hg : ∀ p ∈ v.ents, ∀ x, g p.1 = some x → x < d) :
    ∃ w, v.extract d f = ok w ∧ w.dim = d ∧ w.WF ∧
      ∀ i', i' < d → w.entry i' = ((v.ents.filter (fun p => g p.1 = some i')).map (·.2)).sum := by
  unfold SpVec.extract
  rw [mapEnts_ok f g _ hf]
  simp only [bind_ok]
  obtain ⟨w, h1, h2, h3, h4⟩ := vfromEntries_ok d (v.ents.filterMap (fun p => (g p.1).map (fun i' => (i', p.2)))) (by
    intro q hq _
    rw [List.mem_filterMap] at hq
    obtain ⟨p, hp, e⟩ := hq
    cases hgp : g p.1 with
    | none => simp [hgp] at e
    | some x => simp [hgp] at e; subst e; exact hg p hp x hgp)
  refine ⟨w, h1, h2, h3, ?_⟩
  intro i' hi
  rw [h4, if_pos hi, sumAt_filterMap]

/-- `SpVec::permute(p)`: `entry (permute p v) (p i) = entry v i` -/
theorem vpermute_spec (v : SpVec R) (hv : v.WF) (p : Perm) (hp : p.Valid) (hd : p.dim = v.dim) :
    ∃ w, v.permute p = ok w ∧ w.dim = v.dim ∧ w.WF ∧ ∀ i, i < v.dim → w.entry (p.fn i) = v.entry i := by
  unfold SpVec.permute
  obtain ⟨w, h1, h2, h3, h4⟩ := vextract_spec v v.dim (fun i => do let i' ← p.at i; ok (some i'))
    (fun i => some (p.fn i))
    (by intro q hq; simp [p.at_ok hp q.1 (by rw [hd]; exact hv.bound q hq)])
    (by intro q hq x hx
        simp only [Option.some.injEq] at hx; subst hx
        rw [← hd]; exact p.fn_lt hp _ (by rw [hd]; exact hv.bound q hq))
  refine ⟨w, h1, h2, h3, ?_⟩
  intro i hi
  rw [h4 _ (by rw [← hd]; exact p.fn_lt hp _ (by omega))]
  unfold SpVec.entry sumAt
  congr 2
  apply List.filter_congr
  intro q hq
  have hb := hv.bound q hq
  by_cases e : q.1 = i
  · simp [e]
  · have : ¬ p.fn q.1 = p.fn i := fun x => e (p.fn_inj hp _ _ (by omega) (by omega) x)
    simp [this, e]

/-- `SpVec::subvec(a..b)` -/
theorem subvec_spec (v : SpVec R) (hv : v.WF) (a b : Nat) (hab : a ≤ b) :
    ∃ w, v.subvec a b = ok w ∧ w.dim = b - a ∧ w.WF ∧ ∀ i, i < b - a → w.entry i = v.entry (a + i) := by
  unfold SpVec.subvec
  rw [assert_true' (by simp [hab])]
  simp only [bind_ok]
  obtain ⟨w, h1, h2, h3, h4⟩ := vextract_spec v (b - a)
    (fun i => ok (if a ≤ i && i < b then some (i - a) else none))
    (fun i => if a ≤ i && i < b then some (i - a) else none)
    (fun _ _ => rfl)
    (by intro q _ x hx
        split at hx
        · rename_i hc
          simp only [Bool.and_eq_true, decide_eq_true_eq] at hc
          simp only [Option.some.injEq] at hx; omega
        · cases hx)
  refine ⟨w, h1, h2, h3, ?_⟩
  intro i hi
  rw [h4 i hi]
  unfold SpVec.entry sumAt
  congr 2
  apply List.filter_congr
  intro q hq
  split
  · rename_i hc
    simp only [Bool.and_eq_true, decide_eq_true_eq] at hc
    by_cases e : q.1 = a + i
    · have : q.1 - a = i := by omega
      simp [e, this]
    · have : ¬ q.1 - a = i := by omega
      simp [e, this]
  · rename_i hc
    simp only [Bool.and_eq_true, decide_eq_true_eq] at hc
    have : ¬ q.1 = a + i := by omega
    simp [this]

theorem subvec_reject (v : SpVec R) (a b : Nat) (hab : ¬ a ≤ b) : v.subvec a b = panic := by
  unfold SpVec.subvec
  rw [assert_false' (by simp [hab])]; rfl

theorem sumAt_filter_lt (es : List (Nat × R)) (k i : Nat) (hi : i < k) :
    sumAt (es.filter (fun p => p.1 < k)) i = sumAt es i := by
  induction es with
  | nil => rfl
  | cons p es ih =>
    obtain ⟨j, a⟩ := p
    rw [List.filter_cons]
    by_cases h : j < k
    · simp only [h, decide_true, if_true, sumAt_cons, ih]
    · have : ¬ j = i := by omega
      simp only [h, decide_false, Bool.false_eq_true, if_false, sumAt_cons, ih, this]; simp

theorem sumAt_filter_ge_shift (es : List (Nat × R)) (k i : Nat) :
    sumAt ((es.filter (fun p => !(decide (p.1 < k)))).map (fun p => (p.1 - k, p.2))) i = sumAt es (k + i) := by
  induction es with
  | nil => rfl
  | cons p es ih =>
    obtain ⟨j, a⟩ := p
    rw [List.filter_cons]
    by_cases h : j < k
    · have : ¬ j = k + i := by omega
      simp only [h, decide_true, Bool.not_true, Bool.false_eq_true, if_false, sumAt_cons, ih, this]; simp
    · simp only [h, decide_false, Bool.not_false, if_true, List.map_cons, sumAt_cons, ih]
      by_cases e : j = k + i
      · have : j - k = i := by omega
        simp [e, this]
      · have : ¬ j - k = i := by omega
        simp [e, this]

/-- `SpVec::split(k)` -/
theorem split_spec (v : SpVec R) (hv : v.WF) (k : Nat) (hk : k ≤ v.dim) :
    ∃ x y, v.split k = ok (x, y) ∧ x.dim = k ∧ y.dim = v.dim - k ∧ x.WF ∧ y.WF ∧
      (∀ i, i < k → x.entry i = v.entry i) ∧ (∀ i, i < v.dim - k → y.entry i = v.entry (k + i)) := by
  unfold SpVec.split
  rw [assert_true' (by simp [hk])]
  simp only [bind_ok]
  obtain ⟨x, x1, x2, x3, x4⟩ := vfromEntries_ok k (v.ents.filter (fun p => p.1 < k)) (by
    intro p hp _
    simpa using (List.mem_filter.mp hp).2)
  obtain ⟨y, y1, y2, y3, y4⟩ := vfromEntries_ok (v.dim - k)
    ((v.ents.filter (fun p => !(decide (p.1 < k)))).map (fun p => (p.1 - k, p.2))) (by
    intro q hq _
    simp only [List.mem_map, List.mem_filter] at hq
    obtain ⟨p, ⟨hp, hlt⟩, rfl⟩ := hq
    have := hv.bound p hp
    simp only [Bool.not_eq_true', decide_eq_false_iff_not] at hlt
    simp only; omega)
  rw [x1, y1]
  refine ⟨x, y, rfl, x2, y2, x3, y3, ?_, ?_⟩
  · intro i hi
    rw [x4, if_pos hi, sumAt_filter_lt _ _ _ hi]; rfl
  · intro i hi
    rw [y4, if_pos hi, sumAt_filter_ge_shift]; rfl

theorem split_reject (v : SpVec R) (k : Nat) (hk : ¬ k ≤ v.dim) : v.split k = panic := by
  unfold SpVec.split
  rw [assert_false' (by simp [hk])]; rfl

theorem sumAt_map_shift (es : List (Nat × R)) (n i : Nat) :
    sumAt (es.map (fun p => (n + p.1, p.2))) i = if n ≤ i then sumAt es (i - n) else 0 := by
  induction es with
  | nil => simp
  | cons p es ih =>
    obtain ⟨j, a⟩ := p
    simp only [List.map_cons, sumAt_cons, ih]
    by_cases h : n ≤ i
    · by_cases e : j = i - n
      · have : n + j = i := by omega
        simp [h, e, this]
      · have : ¬ n + j = i := by omega
        simp [h, e, this]
    · have : ¬ n + j = i := by omega
      simp [h, this]

/-- `SpVec::stack` -/
theorem vstack_spec (v w : SpVec R) (hv : v.WF) (hw : w.WF) :
    ∃ u, v.stack w = ok u ∧ u.dim = v.dim + w.dim ∧ u.WF ∧
      ∀ i, i < v.dim + w.dim → u.entry i = if i < v.dim then v.entry i else w.entry (i - v.dim) := by
  unfold SpVec.stack
  obtain ⟨u, h1, h2, h3, h4⟩ := vfromEntries_ok (v.dim + w.dim)
    (v.ents.filter (fun p => p.2 ≠ 0) ++ (w.ents.filter (fun p => p.2 ≠ 0)).map (fun p => (v.dim + p.1, p.2))) (by
    intro q hq _
    rcases List.mem_append.mp hq with hq | hq
    · have := hv.bound q (List.mem_of_mem_filter hq); omega
    · simp only [List.mem_map] at hq
      obtain ⟨p, hp, rfl⟩ := hq
      have := hw.bound p (List.mem_of_mem_filter hp)
      simp only; omega)
  refine ⟨u, h1, h2, h3, ?_⟩
  intro i hi
  rw [h4, if_pos hi, sumAt_append, sumAt_filter_ne_zero, sumAt_map_shift, sumAt_filter_ne_zero]
  by_cases h : i < v.dim
  · rw [if_pos h, if_neg (by omega)]; simp; rfl
  · rw [if_neg h, if_pos (by omega)]
    have : sumAt v.ents i = 0 := hv.entry_oob i h
    rw [this]; simp; rfl

/-! ### dense data → sparse, `col_vec` -/

theorem sumAt_zipIdx (l : List R) (k i : Nat) :
    sumAt ((l.zipIdx k).map (fun x => match x with | (a, j) => (j, a))) i = if k ≤ i then l.getD (i - k) 0 else 0 := by
  induction l generalizing k with
  | nil => simp
  | cons a l ih =>
    simp only [List.zipIdx_cons, List.map_cons, sumAt_cons, ih]
    by_cases h1 : k = i
    · subst h1; simp
    · by_cases h2 : k + 1 ≤ i
      · have e : i - k = (i - (k + 1)) + 1 := by omega
        have h3 : k ≤ i := by omega
        simp [h1, h2, h3, e]
      · have h3 : ¬ k ≤ i := by omega
        simp [h1, h2, h3]

/-- `SpVec::from(Vec<R>)`: the entries are the given values -/
theorem ofDense_spec (l : List R) :
    ∃ v, SpVec.ofDense l = ok v ∧ v.dim = l.length ∧ v.WF ∧ ∀ i, v.entry i = l.getD i 0 := by
  unfold SpVec.ofDense
  obtain ⟨v, h1, h2, h3, h4⟩ := vfromEntries_ok l.length (l.zipIdx.map (fun x => match x with | (a, i) => (i, a))) (by
    intro q hq _
    simp only [List.mem_map] at hq
    obtain ⟨x, hx, rfl⟩ := hq
    obtain ⟨a, j⟩ := x
    have := List.mem_zipIdx hx
    simp only; omega)
  refine ⟨v, h1, h2, h3, ?_⟩
  intro i
  rw [h4, sumAt_zipIdx]
  by_cases hi : i < l.length
  · simp [hi]
  · simp [hi]

theorem entryT_zipIdx (l : List R) (n k i j : Nat) (hj : j < n) :
    entryT ((l.zipIdx k).map (fun x => match x with | (a, q) => (q / n, q % n, a))) i j
      = if k ≤ i * n + j then l.getD (i * n + j - k) 0 else 0 := by
  have key : ∀ q, (q / n = i ∧ q % n = j) ↔ q = i * n + j := by
    intro q
    constructor
    · rintro ⟨h1, h2⟩
      have := Nat.div_add_mod q n
      rw [h1, h2] at this
      rw [← this]; ring
    · intro h
      subst h
      constructor
      · rw [Nat.add_comm, Nat.add_mul_div_right _ _ (by omega), Nat.div_eq_of_lt hj, Nat.zero_add]
      · rw [Nat.add_comm, Nat.add_mul_mod_self_right, Nat.mod_eq_of_lt hj]
  induction l generalizing k with
  | nil => simp
  | cons a l ih =>
    simp only [List.zipIdx_cons, List.map_cons, entryT_cons, ih, key]
    by_cases h1 : k = i * n + j
    · rw [if_pos h1, ← h1]; simp
    · by_cases h2 : k + 1 ≤ i * n + j
      · have e : i * n + j - k = (i * n + j - (k + 1)) + 1 := by omega
        have h3 : k ≤ i * n + j := by omega
        simp [h1, h2, h3, e]
      · have h3 : ¬ k ≤ i * n + j := by omega
        simp [h1, h2, h3]

/-- `SpMat::from_dense_data(shape, data)` (row-major) -/
theorem fromDenseData_spec (m n : Nat) (data : List R) (hl : data.length = m * n) :
    ∃ A, fromDenseData m n data = ok A ∧ A.nrows = m ∧ A.ncols = n ∧ A.WF ∧
      ∀ i j, i < m → j < n → A.entry i j = data.getD (i * n + j) 0 := by
  unfold fromDenseData
  have hs : InShape m n (data.zipIdx.map (fun x => match x with | (a, k) => (k / n, k % n, a))) := by
    intro t ht _
    simp only [List.mem_map] at ht
    obtain ⟨x, hx, rfl⟩ := ht
    obtain ⟨a, q⟩ := x
    have hq := List.mem_zipIdx hx
    simp only [Nat.zero_add] at hq
    have hq' : q < m * n := by omega
    have hn : 0 < n := by
      rcases Nat.eq_zero_or_pos n with h | h
      · subst h; simp at hq'
      · exact h
    simp only
    exact ⟨by rw [Nat.div_lt_iff_lt_mul hn]; exact hq', Nat.mod_lt _ hn⟩
  obtain ⟨h1, h2, h3, h4⟩ := fromEntries_spec _ _ _ _ (fromEntries_ok _ _ _ hs)
  refine ⟨_, fromEntries_ok _ _ _ hs, h1, h2, h3, ?_⟩
  intro i j hi hj
  rw [h4, if_pos ⟨hi, hj⟩, entryT_zipIdx _ _ _ _ _ hj]
  simp

/-- `col_vec(j)` -/
theorem colVec_spec (A : SpMat R) (hA : A.WF) (j : Nat) (hj : j < A.ncols) :
    ∃ v, A.colVec j = ok v ∧ v.dim = A.nrows ∧ v.WF ∧ ∀ i, v.entry i = A.entry i j := by
  unfold SpMat.colVec
  rw [if_pos hj]
  have hmem : A.cols.getD j [] ∈ A.cols := by
    rw [List.getD_eq_getElem?_getD, List.getElem?_eq_getElem (by rw [hA.len]; exact hj)]
    exact List.getElem_mem _
  obtain ⟨v, h1, h2, h3, h4⟩ := vfromEntries_ok A.nrows (A.cols.getD j []) (fun p hp _ => hA.bound _ hmem p hp)
  refine ⟨v, h1, h2, h3, ?_⟩
  intro i
  rw [h4]
  by_cases hi : i < A.nrows
  · rw [if_pos hi]; rfl
  · rw [if_neg hi, hA.entry_oob i j (by omega)]

theorem colVec_reject (A : SpMat R) (j : Nat) (hj : ¬ j < A.ncols) : A.colVec j = panic := by
  unfold SpMat.colVec; rw [if_neg hj]

/-! ### `to_dense` / `into_vec` -/

theorem toDense_fold (es : List (Nat × R)) (l0 : List R) (hb : ∀ p ∈ es, p.1 < l0.length)
    (hnd : (es.map (·.1)).Nodup) :
    ∃ l', es.foldl (fun (acc : Res (List R)) p => do
        let l ← acc
        if p.2 = 0 then ok l else if p.1 < l.length then ok (l.set p.1 p.2) else panic) (ok l0) = ok l' ∧
      l'.length = l0.length ∧ ∀ i, l'[i]? = if sumAt es i = 0 then l0[i]? else some (sumAt es i) := by
  induction es generalizing l0 with
  | nil => exact ⟨l0, rfl, rfl, fun i => by simp⟩
  | cons p es ih =>
    obtain ⟨k, a⟩ := p
    have hk : k < l0.length := hb (k, a) (by simp)
    have hnd' : k ∉ es.map (·.1) ∧ (es.map (·.1)).Nodup := List.nodup_cons.mp hnd
    have hz : sumAt es k = 0 := sumAt_eq_zero es k (fun q hq e => hnd'.1 (List.mem_map.mpr ⟨q, hq, e⟩))
    rw [List.foldl_cons]
    by_cases ha : a = 0
    · obtain ⟨l', h1, h2, h3⟩ := ih l0 (fun q hq => hb q (by simp [hq])) hnd'.2
      refine ⟨l', by simpa [ha] using h1, h2, ?_⟩
      intro i; rw [h3 i, sumAt_cons, ha]; simp
    · obtain ⟨l', h1, h2, h3⟩ := ih (l0.set k a)
        (fun q hq => by rw [List.length_set]; exact hb q (by simp [hq])) hnd'.2
      refine ⟨l', by simpa [ha, hk] using h1, by rw [h2, List.length_set], ?_⟩
      intro i
      rw [h3 i, sumAt_cons]
      by_cases e : k = i
      · subst e
        rw [hz, if_pos rfl, List.getElem?_set_self hk]
        simp [ha]
      · rw [if_neg e, List.getElem?_set_ne e]; simp

/-- `to_dense` / `into_vec`: the list of entries -/
theorem toDense_spec (v : SpVec R) (hv : v.WF) :
    ∃ l, v.toDense = ok l ∧ l.length = v.dim ∧ ∀ i, i < v.dim → l.getD i 0 = v.entry i := by
  have hs := SpMat.WF.sorted hv v.ents (by simp [SpVec.toMat])
  obtain ⟨l, h1, h2, h3⟩ := toDense_fold v.ents (List.replicate v.dim 0)
    (by intro p hp; rw [List.length_replicate]; exact hv.bound p hp)
    (hs.imp (fun h => Nat.ne_of_lt h))
  rw [List.length_replicate] at h2
  refine ⟨l, h1, h2, ?_⟩
  intro i hi
  rw [List.getD_eq_getElem?_getD, h3 i]
  unfold SpVec.entry
  by_cases hz : sumAt v.ents i = 0
  · rw [if_pos hz, hz]; simp [hi]
  · rw [if_neg hz]; rfl

/-! ### `stack_vecs` -/

/-- the stored entries of `stack_vecs(vs)`, the first vector starting at row `n0` -/
def shiftedEnts (n0 : Nat) : List (SpVec R) → List (Nat × R)
  | [] => []
  | v :: vs => v.ents.map (fun p => (p.1 + n0, p.2)) ++ shiftedEnts (n0 + v.dim) vs

def totalDim : List (SpVec R) → Nat
  | [] => 0
  | v :: vs => v.dim + totalDim vs

theorem stackVecs_fold (vs : List (SpVec R)) (n0 : Nat) (rows : List Nat) (vals : List R) :
    vs.foldl (fun (acc : Nat × List Nat × List R) v =>
        let n1 := acc.1
        (n1 + v.dim, acc.2.1 ++ v.ents.map (fun p => p.1 + n1), acc.2.2 ++ v.ents.map (·.2))) (n0, rows, vals)
      = (n0 + totalDim vs, rows ++ (shiftedEnts n0 vs).map (·.1), vals ++ (shiftedEnts n0 vs).map (·.2)) := by
  induction vs generalizing n0 rows vals with
  | nil => simp [totalDim, shiftedEnts]
  | cons v vs ih =>
    rw [List.foldl_cons, ih]
    simp [totalDim, shiftedEnts, Nat.add_assoc, List.map_map, Function.comp_def]

theorem shiftedEnts_wf (vs : List (SpVec R)) (n0 : Nat) (hv : ∀ v ∈ vs, v.WF) :
    (∀ p ∈ shiftedEnts n0 vs, n0 ≤ p.1 ∧ p.1 < n0 + totalDim vs) ∧
    ((shiftedEnts n0 vs).map (·.1)).Pairwise (· < ·) := by
  induction vs generalizing n0 with
  | nil => simp [shiftedEnts]
  | cons v vs ih =>
    have hw := hv v (by simp)
    obtain ⟨ih1, ih2⟩ := ih (n0 + v.dim) (fun w hw' => hv w (by simp [hw']))
    constructor
    · intro p hp
      simp only [shiftedEnts, List.mem_append, List.mem_map] at hp
      rcases hp with ⟨q, hq, rfl⟩ | hp
      · have := hw.bound q hq; simp only [totalDim]; omega
      · have := ih1 p hp; simp only [totalDim]; omega
    · simp only [shiftedEnts, List.map_append, List.map_map]
      rw [List.pairwise_append]
      refine ⟨?_, ih2, ?_⟩
      · have hs := SpMat.WF.sorted hw v.ents (by simp [SpVec.toMat])
        have : ((fun p : Nat × R => p.1) ∘ fun p : Nat × R => (p.1 + n0, p.2)) = (fun x => x + n0) ∘ (fun p => p.1) := by
          funext p; rfl
        rw [this, ← List.map_map]
        exact hs.map _ (fun a b h => by omega)
      · intro a ha b hb
        simp only [List.mem_map, Function.comp] at ha hb
        obtain ⟨q, hq, rfl⟩ := ha
        obtain ⟨r, hr, rfl⟩ := hb
        have := hw.bound q hq
        have := ih1 r hr
        omega

/-- `stack_vecs`: shifting the row indices by the running dimension keeps the raw data valid; the result holds
the entries of the vectors one after the other -/
theorem stackVecs_spec (vs : List (SpVec R)) (hv : ∀ v ∈ vs, v.WF) :
    SpVec.stackVecs vs = ok ⟨totalDim vs, shiftedEnts 0 vs⟩ ∧ (⟨totalDim vs, shiftedEnts 0 vs⟩ : SpVec R).WF := by
  obtain ⟨hb, hs⟩ := shiftedEnts_wf vs 0 hv
  have hb' : ∀ p ∈ shiftedEnts 0 vs, p.1 < totalDim vs := fun p hp => by have := hb p hp; omega
  obtain ⟨h1, h2⟩ := fromSortedEntries_spec (totalDim vs) (shiftedEnts 0 vs) hb' hs
  refine ⟨?_, h2⟩
  unfold SpVec.stackVecs
  rw [stackVecs_fold]
  simp only [Nat.zero_add, List.nil_append]
  unfold SpVec.fromSortedEntries at h1
  rw [assert_true' (by rw [List.all_eq_true]; intro p hp; simpa using hb' p hp)] at h1
  exact h1

theorem shiftedEnts_entry (v : SpVec R) (vs : List (SpVec R)) (hv : v.WF) (hvs : ∀ w ∈ vs, w.WF) (n0 i : Nat) :
    sumAt (shiftedEnts n0 (v :: vs)) i
      = if i < n0 + v.dim then (if n0 ≤ i then v.entry (i - n0) else 0) else sumAt (shiftedEnts (n0 + v.dim) vs) i := by
  have h1 : sumAt (v.ents.map (fun p => (p.1 + n0, p.2))) i = if n0 ≤ i then v.entry (i - n0) else 0 := by
    have := sumAt_map_shift v.ents n0 i
    simp only [Nat.add_comm n0] at this
    exact this
  rw [shiftedEnts, sumAt_append, h1]
  by_cases hi : i < n0 + v.dim
  · rw [if_pos hi]
    have : sumAt (shiftedEnts (n0 + v.dim) vs) i = 0 := by
      apply sumAt_eq_zero
      intro p hp e
      have := (shiftedEnts_wf vs (n0 + v.dim) hvs).1 p hp
      omega
    rw [this]; simp
  · rw [if_neg hi, if_pos (by omega), hv.entry_oob (i - n0) (by omega)]; simp

end Yuiv.C13
