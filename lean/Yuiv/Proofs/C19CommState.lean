import Yuiv.Proofs.C19Inv
import Yuiv.Proofs.C19CommDefs
/-
C19Comm — τ on the states of the cube (`Model/C19.tState`): the loop (in the `Option` monad) is a fold; when every
unresolved crossing has an image crossing (`piOf l k = some (π k)`), `tState` is the bit map `t_k = s_{π k}`; when `π` is an
involution of the positions, `tState` is an involution of the states, preserves the weight and maps the cube edge
`s → s + e_k` to the edge `τ s → τ s + e_{π k}`.
-/
namespace Yuiv.C19Comm
open Yuiv Yuiv.KhRef Yuiv.C19 Yuiv.C19Inv

theorem forIn_option_yield {β : Type} (F : β → Nat → Option β) (body : Nat → β → Option (ForInStep β))
    (hb : ∀ k t, body k t = (F t k).map ForInStep.yield) (l : List Nat) (init : β) :
    forIn l init body = l.foldlM F init := by
  induction l generalizing init with
  | nil => rfl
  | cons k l ih =>
    rw [List.forIn_cons, hb, List.foldlM_cons]
    cases F init k with
    | none => rfl
    | some b => exact ih b

/-- `tState` without the loop -/
theorem tState_eq (l : InvLink) (s : Nat) :
    tState l s = (List.range (realIdx l.link).size).foldlM (fun t k =>
      (piOf l k).map (fun kj => if s.testBit kj then t ||| 1 <<< k else t)) 0 := by
  unfold tState
  simp only [Std.Legacy.Range.forIn_eq_forIn_range', Std.Legacy.Range.size, Nat.sub_zero, Nat.add_sub_cancel, Nat.div_one]
  rw [forIn_option_yield (fun t k => (piOf l k).map (fun kj => if s.testBit kj then t ||| 1 <<< k else t))]
  · rw [List.range_eq_range']
    cases List.foldlM (m := Option) _ 0 (List.range' 0 (realIdx l.link).size) <;> rfl
  · intro k t
    unfold piOf
    cases l.invX (realIdx l.link)[k]! with
    | none => rfl
    | some j =>
      show (Array.findIdx? (fun x => x == j) (realIdx l.link)).bind _ =
        Option.map _ (Option.map _ (Array.findIdx? (fun x => x == j) (realIdx l.link)))
      cases Array.findIdx? (fun x => x == j) (realIdx l.link) with
      | none => rfl
      | some kj =>
        simp only [Option.bind_some, Option.map_some]
        split <;> rfl

theorem tState_fold (l : InvLink) (π : Nat → Nat) (s : Nat) (ks : List Nat) (hπ : ∀ k ∈ ks, piOf l k = some (π k))
    (acc : Nat) :
    ∃ t, ks.foldlM (fun t k => (piOf l k).map (fun kj => if s.testBit kj then t ||| 1 <<< k else t)) acc = some t ∧
      ∀ j, t.testBit j = (acc.testBit j || ks.any (fun k => k == j && s.testBit (π k))) := by
  induction ks generalizing acc with
  | nil => exact ⟨acc, rfl, by simp⟩
  | cons k ks ih =>
    rw [List.foldlM_cons, hπ k (by simp)]
    obtain ⟨t, e, hb⟩ := ih (fun k' hk' => hπ k' (List.mem_cons_of_mem _ hk'))
      (if s.testBit (π k) then acc ||| 1 <<< k else acc)
    refine ⟨t, e, fun j => ?_⟩
    rw [hb j, List.any_cons]
    by_cases hs : s.testBit (π k) = true
    · simp only [hs, if_true, Nat.testBit_or, Nat.one_shiftLeft, Nat.testBit_two_pow, Bool.and_true, Bool.or_assoc]
      congr 2
    · simp [hs]

/-- `tState` as a bit map: `t_k = s_{π k}` for `k < n`, where `n` = number of unresolved crossings -/
theorem tState_bits (l : InvLink) (π : Nat → Nat) (hπ : ∀ k < (realIdx l.link).size, piOf l k = some (π k)) (s : Nat) :
    ∃ t, tState l s = some t ∧ t < 2 ^ (realIdx l.link).size ∧
      ∀ j, t.testBit j = (decide (j < (realIdx l.link).size) && s.testBit (π j)) := by
  obtain ⟨t, e, hb⟩ := tState_fold l π s (List.range (realIdx l.link).size)
    (fun k hk => hπ k (List.mem_range.1 hk)) 0
  have hb' : ∀ j, t.testBit j = (decide (j < (realIdx l.link).size) && s.testBit (π j)) := by
    intro j
    rw [hb j, Nat.zero_testBit, Bool.false_or, Bool.eq_iff_iff]
    simp only [List.any_eq_true, List.mem_range, Bool.and_eq_true, beq_iff_eq, decide_eq_true_eq]
    constructor
    · rintro ⟨k, hk, rfl, hs⟩; exact ⟨hk, hs⟩
    · rintro ⟨hj, hs⟩; exact ⟨j, hj, rfl, hs⟩
  refine ⟨t, by rw [tState_eq]; exact e, ?_, hb'⟩
  apply Nat.lt_pow_two_of_testBit
  intro j hj
  rw [hb' j]
  simp [show ¬ j < (realIdx l.link).size by omega]

/-- `π` is an involution of the positions `0..n` -/
def PiInvol (n : Nat) (π : Nat → Nat) : Prop := ∀ k < n, π k < n ∧ π (π k) = k

/-- τ on states, for an involution `π` of the crossing positions: defined, an involution, weight preserving, and an
automorphism of the cube (edge along `k` ↦ edge along `π k`) -/
theorem tState_props (l : InvLink) (π : Nat → Nat) (hπ : ∀ k < (realIdx l.link).size, piOf l k = some (π k))
    (hinv : PiInvol (realIdx l.link).size π) (s : Nat) (hs : s < 2 ^ (realIdx l.link).size) :
    ∃ t, tState l s = some t ∧ t < 2 ^ (realIdx l.link).size ∧ tState l t = some s ∧
      popcount t (realIdx l.link).size = popcount s (realIdx l.link).size ∧
      ∀ k < (realIdx l.link).size, s.testBit k = false →
        t.testBit (π k) = false ∧ tState l (s ||| 1 <<< k) = some (t ||| 1 <<< π k) := by
  obtain ⟨t, e, hlt, hb⟩ := tState_bits l π hπ s
  refine ⟨t, e, hlt, ?_, ?_, ?_⟩
  · obtain ⟨t2, e2, _, hb2⟩ := tState_bits l π hπ t
    rw [e2]
    congr 1
    apply Nat.eq_of_testBit_eq
    intro j
    rw [hb2 j, hb (π j)]
    by_cases hj : j < (realIdx l.link).size
    · simp [hj, (hinv j hj).1, (hinv j hj).2]
    · simp only [hj, decide_false, Bool.false_and]
      exact (testBit_false_of_lt s _ j hs (by omega)).symm
  · unfold popcount
    rw [← count_perm (realIdx l.link).size π π hinv hinv (fun i => s.testBit i)]
    congr 1
    apply List.filter_congr
    intro j hj
    rw [hb j]
    simp [List.mem_range.1 hj]
  · intro k hk hsk
    refine ⟨by rw [hb]; simp [(hinv k hk).2, hsk], ?_⟩
    obtain ⟨t2, e2, _, hb2⟩ := tState_bits l π hπ (s ||| 1 <<< k)
    rw [e2]
    congr 1
    apply Nat.eq_of_testBit_eq
    intro j
    rw [hb2 j, Nat.testBit_or, Nat.testBit_or, hb j, Nat.one_shiftLeft, Nat.one_shiftLeft, Nat.testBit_two_pow,
      Nat.testBit_two_pow, Bool.and_or_distrib_left]
    congr 1
    rw [Bool.eq_iff_iff]
    simp only [Bool.and_eq_true, decide_eq_true_eq]
    constructor
    · rintro ⟨hj, e'⟩
      rw [e', (hinv j hj).2]
    · intro e'
      rw [← e']
      exact ⟨(hinv k hk).1, ((hinv k hk).2).symm⟩

/-! ### `mkICube` stores `tState` -/

theorem toList_eq_map_range (l : Link) : l.toList = (List.range l.size).map (fun i => l[i]!) := by
  apply List.ext_getElem
  · simp
  · intro i h1 h2
    simp only [List.getElem_map, List.getElem_range, Array.getElem_toList]
    rw [getElem!_pos l i (by simpa using h1)]

/-- the number of positions of `tState` is the dimension of the cube -/
theorem realIdx_size (l : Link) : (realIdx l).size = crossingNum l := by
  unfold realIdx crossingNum
  have h1 : ((Array.range l.size).filter (fun i => !(l[i]!).ct.isResolved)).size =
      ((List.range l.size).filter (fun i => !(l[i]!).ct.isResolved)).length := by
    rw [← Array.length_toList (xs := (Array.range l.size).filter _), Array.toList_filter, Array.toList_range]
  have h2 : (l.filter (fun c => !c.ct.isResolved)).size = (l.toList.filter (fun c => !c.ct.isResolved)).length := by
    rw [← Array.length_toList (xs := l.filter _), Array.toList_filter]
  rw [h1, h2, toList_eq_map_range l, List.filter_map, List.length_map]
  simp only [Function.comp_def]

theorem forIn_option_yield' {α β : Type} (F : β → α → Option β) (body : α → β → Option (ForInStep β))
    (hb : ∀ k t, body k t = (F t k).map ForInStep.yield) (l : List α) (init : β) :
    forIn l init body = l.foldlM F init := by
  induction l generalizing init with
  | nil => rfl
  | cons k l ih =>
    rw [List.forIn_cons, hb, List.foldlM_cons]
    cases F init k with
    | none => rfl
    | some b => exact ih b

/-- the inner loop of `mkICube` (circle correspondence at one state) -/
def tlabAt (l : InvLink) (c : Cube) (s t : Nat) : Option (Array Nat) :=
  forIn (c.circ[s]!) #[] (fun ci m => do
    let j ← (c.circ[t]!).findIdx? (fun cj => cj.contains (l.invE (ci.foldl min ci[0]!)))
    pure (ForInStep.yield (m.push j)))

def icStep (l : InvLink) (c : Cube) (st : Array Nat × Array (Array Nat)) (s : Nat) :
    Option (Array Nat × Array (Array Nat)) :=
  (tState l s).bind (fun t => (tlabAt l c s t).map (fun m => (st.1.push t, st.2.push m)))

/-- the cube of `mkICube`: the cube of the link, based at the on-axis base point in the reduced theory -/
def icCube (l : InvLink) (p : Params) : Cube :=
  ⟨(mkCube l.link p).n, (mkCube l.link p).circ, if p.reduced then l.base else none⟩

theorem mkICube_eq (l : InvLink) (p : Params) :
    mkICube l p =
      ((List.range (2 ^ (icCube l p).n)).foldlM (icStep l (icCube l p)) (#[], #[])).map
        (fun st => ⟨icCube l p, st.1, st.2⟩) := by
  unfold mkICube
  simp only [Std.Legacy.Range.forIn_eq_forIn_range', Std.Legacy.Range.size, Nat.sub_zero, Nat.add_sub_cancel, Nat.div_one]
  rw [forIn_option_yield' (icStep l (icCube l p))]
  · rw [List.range_eq_range']
    show Option.bind (List.foldlM (icStep l (icCube l p)) (#[], #[]) (List.range' 0 (2 ^ (icCube l p).n))) _ = _
    cases List.foldlM (icStep l (icCube l p)) (#[], #[]) (List.range' 0 (2 ^ (icCube l p).n)) <;> rfl
  · intro s st
    unfold icStep
    cases tState l s with
    | none => rfl
    | some t =>
      show (tlabAt l (icCube l p) s t).bind _ = Option.map _ (Option.map _ (tlabAt l (icCube l p) s t))
      cases tlabAt l (icCube l p) s t <;> rfl
theorem icStep_fold (l : InvLink) (c : Cube) : ∀ (len a : Nat) (st st' : Array Nat × Array (Array Nat)),
    (List.range' a len).foldlM (icStep l c) st = some st' → st.1.size = a →
    (∀ s < a, tState l s = some st.1[s]!) →
    st'.1.size = a + len ∧ ∀ s < a + len, tState l s = some st'.1[s]! := by
  intro len
  induction len with
  | zero =>
    intro a st st' h hsz hall
    simp only [List.range'_zero, List.foldlM_nil] at h
    cases h
    exact ⟨hsz, hall⟩
  | succ len ih =>
    intro a st st' h hsz hall
    rw [List.range'_succ, List.foldlM_cons] at h
    cases h1 : icStep l c st a with
    | none => rw [h1] at h; cases h
    | some st1 =>
      rw [h1] at h
      unfold icStep at h1
      cases ht : tState l a with
      | none => rw [ht] at h1; cases h1
      | some t =>
        rw [ht] at h1
        simp only [Option.bind_some] at h1
        cases hm : tlabAt l c a t with
        | none => rw [hm] at h1; cases h1
        | some m =>
          rw [hm] at h1
          simp only [Option.map_some, Option.some.injEq] at h1
          subst h1
          have h' : List.foldlM (icStep l c) (st.1.push t, st.2.push m) (List.range' (a + 1) len) = some st' := h
          have := ih (a + 1) _ st' h' (by simp [hsz]) (by
            intro s hs
            simp only
            by_cases e : s = a
            · subst e
              rw [ht, getElem!_pos _ _ (by simp [hsz])]
              simp [← hsz]
            · have hs' : s < a := by omega
              have hp : (st.1.push t).size = a + 1 := by simp [hsz]
              rw [hall s hs', getElem!_pos (st.1.push t) s (by omega), getElem!_pos st.1 s (by omega),
                Array.getElem_push_lt (by omega)])
          rw [show a + (len + 1) = a + 1 + len by omega]
          exact this

/-- `mkICube` stores `tState` state by state, on the cube of the link (dimension = number of unresolved crossings) -/
theorem mkICube_tst (l : InvLink) (p : Params) (ic : ICube) (h : mkICube l p = some ic) :
    ic.cube = icCube l p ∧ ic.cube.n = (realIdx l.link).size ∧ ic.tst.size = 2 ^ ic.cube.n ∧
    ∀ s < 2 ^ ic.cube.n, tState l s = some ic.tst[s]! := by
  rw [mkICube_eq] at h
  cases hf : (List.range (2 ^ (icCube l p).n)).foldlM (icStep l (icCube l p)) (#[], #[]) with
  | none => rw [hf] at h; cases h
  | some st =>
    rw [hf] at h
    simp only [Option.map_some, Option.some.injEq] at h
    subst h
    rw [List.range_eq_range'] at hf
    have := icStep_fold l (icCube l p) _ 0 _ st hf rfl (fun s hs => absurd hs (by omega))
    simp only [Nat.zero_add] at this
    exact ⟨rfl, (realIdx_size l.link).symm, this.1, this.2⟩


/-! ### the states part of the well-formedness checks, for the cube built by `mkICube` -/

theorem tState_some_pi (l : InvLink) (s t : Nat) (h : tState l s = some t) :
    ∀ k < (realIdx l.link).size, (piOf l k).isSome = true := by
  rw [tState_eq] at h
  have key : ∀ (ks : List Nat) (acc : Nat), (∃ k ∈ ks, piOf l k = none) →
      ks.foldlM (fun t k => (piOf l k).map (fun kj => if s.testBit kj then t ||| 1 <<< k else t)) acc = none := by
    intro ks
    induction ks with
    | nil => intro acc ⟨k, hk, _⟩; cases hk
    | cons k ks ih =>
      intro acc hbad
      rw [List.foldlM_cons]
      cases hp : piOf l k with
      | none => rfl
      | some kj =>
        simp only [Option.map_some]
        apply ih
        obtain ⟨k0, hk0, he⟩ := hbad
        rcases List.mem_cons.1 hk0 with rfl | hk0
        · rw [hp] at he; cases he
        · exact ⟨k0, hk0, he⟩
  intro k hk
  cases hp : piOf l k with
  | some _ => rfl
  | none =>
    rw [key _ 0 ⟨k, List.mem_range.2 hk, hp⟩] at h
    cases h

/-- for the cube built by `mkICube`, the check `piInvolB` on the link gives everything the well-formedness checks say
about τ on STATES: an involution of the states, weight preserving, edges to edges (clause (4) of `icubeWf'`) -/
theorem mkICube_states (l : InvLink) (p : Params) (ic : ICube) (h : mkICube l p = some ic) (hpi : piInvolB l = true)
    (s : Nat) (hs : s < 2 ^ ic.cube.n) :
    ic.tst[s]! < 2 ^ ic.cube.n ∧ ic.tst[ic.tst[s]!]! = s ∧ popcount (ic.tst[s]!) ic.cube.n = popcount s ic.cube.n ∧
    ∀ k < ic.cube.n, s.testBit k = false →
      (ic.tst[s]!).testBit ((piOf l k).getD 0) = false ∧ (piOf l k).getD 0 < ic.cube.n ∧
      ic.tst[s ||| 1 <<< k]! = ic.tst[s]! ||| 1 <<< ((piOf l k).getD 0) := by
  obtain ⟨_, hn, _, htst⟩ := mkICube_tst l p ic h
  have hsome := tState_some_pi l s _ (htst s hs)
  have hπ : ∀ k < (realIdx l.link).size, piOf l k = some ((piOf l k).getD 0) := by
    intro k hk
    obtain ⟨v, hv⟩ := Option.isSome_iff_exists.1 (hsome k hk)
    rw [hv]; rfl
  have hinv : PiInvol (realIdx l.link).size (fun k => (piOf l k).getD 0) := by
    intro k hk
    unfold piInvolB at hpi
    have := (allBelow_spec _ _).1 hpi k hk
    simpa using this
  rw [hn] at hs ⊢
  obtain ⟨t, e, hlt, e2, hw, hedge⟩ := tState_props l _ hπ hinv s hs
  have et : ic.tst[s]! = t := by
    have := htst s (by rw [hn]; exact hs)
    rw [e] at this
    exact (Option.some.inj this).symm
  rw [et]
  refine ⟨hlt, ?_, hw, ?_⟩
  · have := htst t (by rw [hn]; exact hlt)
    rw [e2] at this
    exact (Option.some.inj this).symm
  · intro k hk hb
    obtain ⟨h1, h2⟩ := hedge k hk hb
    refine ⟨h1, (hinv k hk).1, ?_⟩
    have hlt' : s ||| 1 <<< k < 2 ^ (realIdx l.link).size := by
      apply Nat.or_lt_two_pow hs
      rw [Nat.one_shiftLeft]
      exact Nat.pow_lt_pow_right (by omega) hk
    have := htst _ (by rw [hn]; exact hlt')
    rw [h2] at this
    exact (Option.some.inj this).symm

end Yuiv.C19Comm
