import Yuiv.Proofs.C19Inv
import Yuiv.Proofs.C06CycleMain
namespace Yuiv.C19Comm
open Yuiv Yuiv.KhRef Yuiv.C19 Yuiv.C06Cycle Yuiv.C19Inv

theorem setBit_testBit (a p : Nat) (b : Bool) (j : Nat) (ha : a < 2 ^ 64) (hp : p < 64) :
    (setBit a p b).testBit j = if j = p then b else a.testBit j := by
  unfold setBit
  cases b
  · simp only [Bool.false_eq_true, if_false, Nat.testBit_and, Nat.testBit_xor, Nat.testBit_two_pow_sub_one,
      Nat.one_shiftLeft, Nat.testBit_two_pow]
    by_cases h : j = p
    · subst h; simp [hp]
    · have h' : ¬ p = j := fun e => h e.symm
      simp only [h, h', if_false, decide_false, Bool.xor_false]
      by_cases hj : j < 64
      · simp [hj]
      · simp only [hj, decide_false, Bool.and_false]
        exact (testBit_false_of_lt a 64 j ha (by omega)).symm
  · simp only [if_true, Nat.testBit_or, Nat.one_shiftLeft, Nat.testBit_two_pow]
    by_cases h : j = p
    · subst h; simp
    · have h' : ¬ p = j := fun e => h e.symm
      simp [h, h']

theorem setBit_lt (a p : Nat) (b : Bool) (ha : a < 2 ^ 64) (hp : p < 64) : setBit a p b < 2 ^ 64 := by
  apply Nat.lt_pow_two_of_testBit
  intro i hi
  rw [setBit_testBit a p b i ha hp, if_neg (by omega)]
  exact testBit_false_of_lt a 64 i ha hi

/-- the entries of the array are pairwise different -/
def ArrInj (cs : Array (Array Nat)) : Prop := ∀ i j, i < cs.size → j < cs.size → cs[i]! = cs[j]! → i = j

theorem contains_iff_idx (cs : Array (Array Nat)) (c : Array Nat) :
    cs.contains c = true ↔ ∃ j, j < cs.size ∧ cs[j]! = c := by
  rw [Array.contains_iff_mem, Array.mem_iff_getElem]
  constructor
  · rintro ⟨j, hj, e⟩; exact ⟨j, hj, by rw [getElem!_pos cs j hj]; exact e⟩
  · rintro ⟨j, hj, e⟩; exact ⟨j, hj, by rw [getElem!_pos cs j hj] at e; exact e⟩

theorem idx_spec (cs : Array (Array Nat)) (c : Array Nat) (h : cs.contains c = true) :
    (cs.findIdx? (· == c)).getD 0 < cs.size ∧ cs[(cs.findIdx? (· == c)).getD 0]! = c := by
  obtain ⟨j, hj, e⟩ := (contains_iff_idx cs c).1 h
  cases hf : cs.findIdx? (· == c) with
  | none =>
    rw [Array.findIdx?_eq_none_iff] at hf
    have := hf cs[j] (Array.getElem_mem hj)
    rw [getElem!_pos cs j hj] at e
    simp [e] at this
  | some k =>
    rw [Array.findIdx?_eq_some_iff_getElem] at hf
    obtain ⟨hk, e', _⟩ := hf
    simp only [Option.getD_some]
    exact ⟨hk, by rw [getElem!_pos cs k hk]; simpa using e'⟩

theorem idx_of_inj (cs : Array (Array Nat)) (hinj : ArrInj cs) (c : Array Nat) (j : Nat) (hj : j < cs.size)
    (e : cs[j]! = c) : cs.contains c = true ∧ (cs.findIdx? (· == c)).getD 0 = j := by
  have hc : cs.contains c = true := (contains_iff_idx cs c).2 ⟨j, hj, e⟩
  refine ⟨hc, ?_⟩
  obtain ⟨h1, h2⟩ := idx_spec cs c hc
  exact hinj _ _ h1 hj (by rw [h2, e])

end Yuiv.C19Comm

namespace Yuiv.C19Comm
open Yuiv Yuiv.KhRef Yuiv.C19 Yuiv.C06Cycle Yuiv.C19Inv

/-- bits of the fold of `carry`, any start value, over a duplicate-free list of circle indices -/
theorem carry_fold (cs cs' : Array (Array Nat)) (x : Nat) (hinj : ArrInj cs) (h64 : cs'.size ≤ 64) :
    ∀ (ks : List Nat) (acc : Nat), ks.Nodup → (∀ i ∈ ks, i < cs.size) → acc < 2 ^ 64 →
      let r := ks.foldl (fun m0 i => if cs'.contains cs[i]! then
        setBit m0 ((cs'.findIdx? (· == cs[i]!)).getD 0) (x.testBit i) else m0) acc
      r < 2 ^ 64 ∧ ∀ j, r.testBit j = true ↔
        (∃ i ∈ ks, cs'.contains cs[i]! = true ∧ (cs'.findIdx? (· == cs[i]!)).getD 0 = j ∧ x.testBit i = true) ∨
        (acc.testBit j = true ∧ ¬ ∃ i ∈ ks, cs'.contains cs[i]! = true ∧ (cs'.findIdx? (· == cs[i]!)).getD 0 = j) := by
  intro ks
  induction ks with
  | nil => intro acc _ _ ha; simpa using ha
  | cons k ks ih =>
    intro acc hnd hlt ha
    have hk : k < cs.size := hlt k (by simp)
    have hnd' := (List.nodup_cons.1 hnd)
    have hlt' : ∀ i ∈ ks, i < cs.size := fun i hi => hlt i (List.mem_cons_of_mem _ hi)
    simp only [List.foldl_cons]
    by_cases hc : cs'.contains cs[k]! = true
    · obtain ⟨hp, hpe⟩ := idx_spec cs' cs[k]! hc
      have ha1 := setBit_lt acc _ (x.testBit k) ha (show (cs'.findIdx? (· == cs[k]!)).getD 0 < 64 by omega)
      obtain ⟨h1, h2⟩ := ih _ hnd'.2 hlt' ha1
      simp only [hc, if_true]
      refine ⟨h1, fun j => ?_⟩
      rw [h2 j, setBit_testBit acc _ _ j ha (by omega)]
      have hne : ∀ i ∈ ks, cs'.contains cs[i]! = true →
          (cs'.findIdx? (· == cs[i]!)).getD 0 ≠ (cs'.findIdx? (· == cs[k]!)).getD 0 := by
        intro i hi hci e
        obtain ⟨_, hie⟩ := idx_spec cs' cs[i]! hci
        have : i = k := hinj i k (hlt' i hi) hk (by rw [← hie, ← hpe, e])
        exact hnd'.1 (this ▸ hi)
      by_cases hj : j = (cs'.findIdx? (· == cs[k]!)).getD 0
      · subst hj
        simp only [if_true, List.mem_cons, exists_eq_or_imp, hc, true_and]
        constructor
        · rintro (⟨i, hi, hci, e, _⟩ | ⟨hx, _⟩)
          · exact absurd e (hne i hi hci)
          · exact Or.inl (Or.inl hx)
        · rintro ((hx | ⟨i, hi, hci, e, _⟩) | ⟨_, hn⟩)
          · exact Or.inr ⟨hx, fun ⟨i, hi, hci, e⟩ => hne i hi hci e⟩
          · exact absurd e (hne i hi hci)
          · exact absurd (Or.inl trivial) hn
      · have hj' : ¬ (cs'.findIdx? (· == cs[k]!)).getD 0 = j := fun e => hj e.symm
        simp only [hj, if_false, List.mem_cons, exists_eq_or_imp, hc, true_and, hj', false_and, false_or]
    · simp only [hc, Bool.false_eq_true, if_false]
      obtain ⟨h1, h2⟩ := ih acc hnd'.2 hlt' ha
      refine ⟨h1, fun j => ?_⟩
      rw [h2 j]
      simp only [List.mem_cons, exists_eq_or_imp, hc, Bool.false_eq_true, false_and, false_or]

/-- bits of `carry`: bit `j` is the label of the circle of `cs` that is the `j`-th circle of `cs'` -/
theorem carry_testBit (cs cs' : Array (Array Nat)) (x j : Nat) (hinj : ArrInj cs) (hinj' : ArrInj cs')
    (h64 : cs'.size ≤ 64) :
    (carry cs cs' x).testBit j = true ↔ j < cs'.size ∧ ∃ i, i < cs.size ∧ cs[i]! = cs'[j]! ∧ x.testBit i = true := by
  unfold carry
  have := (carry_fold cs cs' x hinj h64 (List.range cs.size) 0 List.nodup_range
    (fun i hi => List.mem_range.1 hi) (by decide)).2 j
  rw [this]
  simp only [Nat.zero_testBit, Bool.false_eq_true, false_and, or_false, List.mem_range]
  constructor
  · rintro ⟨i, hi, hc, e, hx⟩
    obtain ⟨h1, h2⟩ := idx_spec cs' cs[i]! hc
    rw [e] at h1 h2
    exact ⟨h1, i, hi, h2.symm, hx⟩
  · rintro ⟨hj, i, hi, e, hx⟩
    obtain ⟨h1, h2⟩ := idx_of_inj cs' hinj' cs[i]! j hj e.symm
    exact ⟨i, hi, h1, h2, hx⟩

theorem carry_lt (cs cs' : Array (Array Nat)) (x : Nat) (hinj : ArrInj cs) (hinj' : ArrInj cs')
    (h64 : cs'.size ≤ 64) : carry cs cs' x < 2 ^ 64 := by
  apply Nat.lt_pow_two_of_testBit
  intro j hj
  cases h : (carry cs cs' x).testBit j
  · rfl
  · have := ((carry_testBit cs cs' x j hinj hinj' h64).1 h).1
    omega

end Yuiv.C19Comm
