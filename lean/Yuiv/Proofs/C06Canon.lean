import Yuiv.Model.C06Canon
import Yuiv.Proofs.C06
import Mathlib.Tactic.Ring
import Mathlib.Tactic.LinearCombination
/- helper lemmas for the canonical cycle construction (C06Canon) -/
namespace Yuiv.C06Canon
open Yuiv Yuiv.KhRef

/-! ### A. expansion of the tensor product -/

/-- recursive form of `coefAt` -/
def sumAt (m : Nat) : List (Nat × Int) → Int
  | [] => 0
  | t :: ts => (if t.1 = m then t.2 else 0) + sumAt m ts

theorem coefAt_foldl (m : Nat) (ts : List (Nat × Int)) (acc : Int) :
    (ts.filter (fun t => t.1 == m)).foldl (fun acc t => acc + t.2) acc = acc + sumAt m ts := by
  induction ts generalizing acc with
  | nil => simp [sumAt]
  | cons t ts ih =>
    by_cases ht : t.1 = m
    · simp [List.filter, ht, sumAt, ih]; ring
    · have : (t.1 == m) = false := by simpa using ht
      simp [List.filter, this, ht, sumAt, ih]

theorem coefAt_eq_sumAt (ts : List (Nat × Int)) (m : Nat) : coefAt ts m = sumAt m ts := by
  unfold coefAt; rw [coefAt_foldl]; simp

theorem sumAt_append (m : Nat) (xs ys : List (Nat × Int)) : sumAt m (xs ++ ys) = sumAt m xs + sumAt m ys := by
  induction xs with
  | nil => simp [sumAt]
  | cons t ts ih => simp [sumAt, ih]; ring

/-- one block of the expansion: the factor of colour `c` placed below the term `(m0, k0)` -/
theorem sumAt_block (h : Int) (c : Colour) (m0 : Nat) (k0 : Int) (m : Nat) :
    sumAt m ((factor h c).map (fun bk => (2 * m0 + bk.1, bk.2 * k0))) =
      colourCoef h c (m % 2 == 1) * (if m0 = m / 2 then k0 else 0) := by
  rcases Nat.mod_two_eq_zero_or_one m with hm | hm
  · have hb : (m % 2 == 1) = false := by simp [hm]
    have e1 : (2 * m0 + 1 = m) = False := eq_false (by omega)
    by_cases e0 : m0 = m / 2
    · have p0 : (2 * m0 = m) = True := eq_true (by omega)
      have p2 : (m0 = m / 2) = True := eq_true e0
      cases c with
      | a => simp [factor, sumAt, colourCoef, e1, hb]
      | b => by_cases h0 : h = 0 <;> simp [factor, sumAt, colourCoef, e1, hb, h0, p0, p2]
    · have p0 : (2 * m0 = m) = False := eq_false (by omega)
      have p2 : (m0 = m / 2) = False := eq_false e0
      cases c with
      | a => simp [factor, sumAt, colourCoef, e1, hb]
      | b => by_cases h0 : h = 0 <;> simp [factor, sumAt, colourCoef, e1, hb, h0, p0, p2]
  · have hb : (m % 2 == 1) = true := by simp [hm]
    have p0 : (2 * m0 = m) = False := eq_false (by omega)
    by_cases e0 : m0 = m / 2
    · have e1 : (2 * m0 + 1 = m) = True := eq_true (by omega)
      have p2 : (m0 = m / 2) = True := eq_true e0
      cases c with
      | a => simp [factor, sumAt, colourCoef, e1, hb, p2]
      | b => by_cases h0 : h = 0 <;> simp [factor, sumAt, colourCoef, e1, hb, h0, p0, p2]
    · have e1 : (2 * m0 + 1 = m) = False := eq_false (by omega)
      have p2 : (m0 = m / 2) = False := eq_false e0
      cases c with
      | a => simp [factor, sumAt, colourCoef, e1, hb, p2]
      | b => by_cases h0 : h = 0 <;> simp [factor, sumAt, colourCoef, e1, hb, h0, p0, p2]

theorem sumAt_flatMap (h : Int) (c : Colour) (m : Nat) (L : List (Nat × Int)) :
    sumAt m (L.flatMap (fun mk => (factor h c).map (fun bk => (2 * mk.1 + bk.1, bk.2 * mk.2)))) =
      colourCoef h c (m % 2 == 1) * sumAt (m / 2) L := by
  induction L with
  | nil => simp [sumAt]
  | cons t ts ih =>
    rw [List.flatMap_cons, sumAt_append, ih, sumAt_block]
    simp only [sumAt]
    ring

theorem sumAt_expand (h : Int) (cs : List Colour) (m : Nat) : sumAt m (expand h cs) = coefSpec h cs m := by
  induction cs generalizing m with
  | nil =>
    by_cases hm : m = 0
    · simp [expand, sumAt, coefSpec, hm]
    · have : ¬ (0 = m) := fun e => hm e.symm
      simp [expand, sumAt, coefSpec, hm, this]
  | cons c cs ih =>
    simp only [expand, coefSpec]
    rw [sumAt_flatMap, ih]

theorem factor_nonzero (h : Int) (c : Colour) : ∀ bk ∈ factor h c, bk.2 ≠ 0 ∧ bk.1 ≤ 1 := by
  intro bk hbk
  cases c with
  | a => simp [factor] at hbk; subst hbk; simp
  | b =>
    by_cases h0 : h = 0
    · simp [factor, h0] at hbk; subst hbk; simp
    · simp [factor, h0] at hbk
      rcases hbk with rfl | rfl
      · simp [h0]
      · simp

theorem factor_sorted (h : Int) (c : Colour) : (factor h c).Pairwise (fun x y => x.1 < y.1) := by
  cases c with
  | a => simp [factor]
  | b => by_cases h0 : h = 0 <;> simp [factor, h0]

/-- the chain of a colour list at the state `s`: what `canonCyclesAt` returns for each cycle -/
def chainOf (s : Nat) (h : Int) (cs : List Colour) : Chain := (expand h cs).map (fun t => (⟨s, t.1⟩, t.2))

/-! ### C. local algebra -/

/-- the colour vectors in the coordinates of `Proofs/C01` (coefficient of 1, coefficient of X) -/
def colourVec (h : Int) : Colour → A
  | .a => X
  | .b => (-h, 1)

/-- `mergeColours` is the product of the colour vectors in `A = ℤ[X]/(X² − hX)` read in the basis (1, X) -/
theorem mergeColours_eq_mul (h : Int) (c1 c2 : Colour) (y : Bool) :
    mergeColours h c1 c2 y =
      (if y then (mul h 0 (colourVec h c1) (colourVec h c2)).2 else (mul h 0 (colourVec h c1) (colourVec h c2)).1) := by
  cases c1 <;> cases c2 <;> cases y <;>
    simp [mergeColours, colourCoef, prodCoef, prod, mul, add, smul, vecOf, colourVec, X]

theorem coefList_length (h : Int) : ∀ (cols : List Colour) (xs : List Bool), xs.length ≠ cols.length →
    coefList h cols xs = 0 := by
  intro cols
  induction cols with
  | nil => intro xs hx; cases xs with
    | nil => simp at hx
    | cons x xs => simp [coefList]
  | cons c cs ih =>
    intro xs hx
    cases xs with
    | nil => simp [coefList]
    | cons x xs =>
      have : xs.length ≠ cs.length := by simpa using hx
      simp [coefList, ih xs this]

/-- removing position `i` (polymorphic twin of `dropAt`) -/
def dropC : Nat → List Colour → List Colour
  | _, [] => []
  | 0, _ :: xs => xs
  | i + 1, x :: xs => x :: dropC i xs

theorem coefList_setAt (h : Int) : ∀ (cols : List Colour) (i : Nat) (xs : List Bool) (x : Bool),
    i < cols.length → xs.length = cols.length →
    coefList h cols (setAt i x xs) = colourCoef h (cols.getD i .a) x * coefList h (dropC i cols) (dropAt i xs) := by
  intro cols
  induction cols with
  | nil => intro i xs x hi; simp at hi
  | cons c cs ih =>
    intro i xs x hi hl
    cases xs with
    | nil => simp at hl
    | cons x0 xs =>
      cases i with
      | zero => simp [setAt, coefList, dropC, dropAt]
      | succ i =>
        have hi' : i < cs.length := by simpa using hi
        have hl' : xs.length = cs.length := by simpa using hl
        simp only [setAt, coefList, dropC, dropAt, List.getD_cons_succ]
        rw [ih i xs x hi' hl']
        ring

theorem length_setAt (i : Nat) (b : Bool) (xs : List Bool) : (setAt i b xs).length = xs.length := by
  induction xs generalizing i with
  | nil => simp [setAt]
  | cons x xs ih => cases i <;> simp [setAt, ih]

theorem length_dropAt (i : Nat) (xs : List Bool) (hi : i < xs.length) : (dropAt i xs).length + 1 = xs.length := by
  induction xs generalizing i with
  | nil => simp at hi
  | cons x xs ih =>
    cases i with
    | zero => simp [dropAt]
    | succ i => have := ih i (by simpa using hi); simp [dropAt]; omega

theorem length_dropC (i : Nat) (xs : List Colour) (hi : i < xs.length) : (dropC i xs).length + 1 = xs.length := by
  induction xs generalizing i with
  | nil => simp at hi
  | cons x xs ih =>
    cases i with
    | zero => simp [dropC]
    | succ i => have := ih i (by simpa using hi); simp [dropC]; omega

theorem dropAt_setAt (i j : Nat) (b : Bool) (xs : List Bool) (hij : i < j) :
    dropAt j (setAt i b xs) = setAt i b (dropAt j xs) := by
  induction xs generalizing i j with
  | nil => simp [setAt, dropAt]
  | cons x xs ih =>
    cases j with
    | zero => omega
    | succ j =>
      cases i with
      | zero =>
        cases xs with
        | nil => simp [setAt, dropAt]
        | cons x' xs' => simp [setAt, dropAt]
      | succ i =>
        simp only [setAt, dropAt]
        rw [ih i j (by omega)]

theorem getD_dropC (i j : Nat) (cs : List Colour) (hij : i < j) : (dropC j cs).getD i .a = cs.getD i .a := by
  induction cs generalizing i j with
  | nil => simp [dropC]
  | cons c cs ih =>
    cases j with
    | zero => omega
    | succ j =>
      cases i with
      | zero => simp [dropC]
      | succ i => simp only [dropC, List.getD_cons_succ]; exact ih i j (by omega)

/-! ### B. the BFS colouring -/

/-- the hash-set iteration order: at every step some permutation of the current content -/
def PermOrder (order : Nat → List Nat → List Nat) : Prop := ∀ k xs, (order k xs).Perm xs

section bfs
variable {adj : Nat → Nat → Bool} {order : Nat → List Nat → List Nat}

theorem mem_adjs (hp : PermOrder order) (k i1 : Nat) (remain : List Nat) (x : Nat) :
    x ∈ (order k remain).filter (fun i2 => adj i1 i2) ↔ x ∈ remain ∧ adj i1 x = true := by
  simp [List.mem_filter, (hp k remain).mem_iff]

theorem mem_remain' (hp : PermOrder order) (k i1 : Nat) (remain : List Nat) (x : Nat) :
    x ∈ remain.filter (fun x => !((order k remain).filter (fun i2 => adj i1 i2)).contains x) ↔
      x ∈ remain ∧ adj i1 x = false := by
  have h := mem_adjs (adj := adj) hp k i1 remain x
  rw [List.mem_filter]
  constructor
  · rintro ⟨h1, h2⟩
    refine ⟨h1, ?_⟩
    cases hx : adj i1 x with
    | false => rfl
    | true =>
      have hm : x ∈ (order k remain).filter (fun i2 => adj i1 i2) := h.mpr ⟨h1, hx⟩
      simp [hm] at h2
  · rintro ⟨h1, h2⟩
    refine ⟨h1, ?_⟩
    have hm : x ∉ (order k remain).filter (fun i2 => adj i1 i2) := fun hc => by
      have := (h.mp hc).2; simp [h2] at this
    simp [hm]

theorem step_length (hp : PermOrder order) (k i1 : Nat) (remain : List Nat) :
    (remain.filter (fun x => !((order k remain).filter (fun i2 => adj i1 i2)).contains x)).length +
      ((order k remain).filter (fun i2 => adj i1 i2)).length = remain.length := by
  have e1 : ((order k remain).filter (fun i2 => adj i1 i2)).length = (remain.filter (fun i2 => adj i1 i2)).length :=
    ((hp k remain).filter _).length_eq
  have e2 : remain.filter (fun x => !((order k remain).filter (fun i2 => adj i1 i2)).contains x) =
      remain.filter (fun x => !adj i1 x) := by
    apply List.filter_congr
    intro x hx
    have h := mem_adjs (adj := adj) hp k i1 remain x
    cases hx' : adj i1 x with
    | false =>
      have : x ∉ (order k remain).filter (fun i2 => adj i1 i2) := fun hc => by
        have := (h.mp hc).2; simp [hx'] at this
      simp [this]
    | true =>
      have : x ∈ (order k remain).filter (fun i2 => adj i1 i2) := h.mpr ⟨hx, hx'⟩
      simp [this]
  rw [e1, e2]
  have h3 := List.length_eq_countP_add_countP (fun x => adj i1 x) (l := remain)
  rw [List.countP_eq_length_filter, List.countP_eq_length_filter] at h3
  have e4 : remain.filter (fun a => decide ¬(adj i1 a = true)) = remain.filter (fun x => !adj i1 x) := by
    apply List.filter_congr
    intro x _
    cases adj i1 x <;> simp
  rw [e4] at h3
  omega

theorem bfs_terminates (hp : PermOrder order) : ∀ (fuel : Nat) (q remain : List Nat) (col : Nat → Colour),
    2 * remain.length + q.length < fuel → ∃ r, bfs adj order fuel q remain col = some r := by
  intro fuel
  induction fuel with
  | zero => intro q remain col h; omega
  | succ f ih =>
    intro q remain col h
    cases q with
    | nil => exact ⟨_, rfl⟩
    | cons i1 q =>
      simp only [bfs]
      apply ih
      have := step_length (adj := adj) hp f i1 remain
      simp only [List.length_append, List.length_cons] at h ⊢
      omega

/-- reachability from `s` inside `{0..n}` along `adj` -/
inductive Reach (adj : Nat → Nat → Bool) (n s : Nat) : Nat → Prop
  | start : Reach adj n s s
  | step {u v : Nat} : Reach adj n s u → adj u v = true → v < n → Reach adj n s v

structure Inv (adj : Nat → Nat → Bool) (n s : Nat) (q remain : List Nat) : Prop where
  closed : ∀ u, u < n → (u ∉ remain ∨ u = s) → u ∈ q ∨ ∀ v, v < n → adj u v = true → v ∉ remain
  reachQ : ∀ u ∈ q, Reach adj n s u
  reachOut : ∀ u, u < n → u ∉ remain → Reach adj n s u
  bound : ∀ u ∈ remain, u < n

theorem bfs_inv (hp : PermOrder order) (n s : Nat) : ∀ (fuel : Nat) (q remain : List Nat) (col colf : Nat → Colour)
    (remf : List Nat), bfs adj order fuel q remain col = some (colf, remf) → Inv adj n s q remain →
    Inv adj n s [] remf ∧ (∀ u, u ∈ remf → u ∈ remain) := by
  intro fuel
  induction fuel with
  | zero => intro q remain col colf remf h; simp [bfs] at h
  | succ f ih =>
    intro q remain col colf remf h inv
    cases q with
    | nil =>
      simp only [bfs, Option.some.injEq, Prod.mk.injEq] at h
      obtain ⟨_, rfl⟩ := h
      exact ⟨inv, fun u hu => hu⟩
    | cons i1 q =>
      simp only [bfs] at h
      have hA := mem_adjs (adj := adj) hp f i1 remain
      have hR := mem_remain' (adj := adj) hp f i1 remain
      have inv' : Inv adj n s (q ++ (order f remain).filter (fun i2 => adj i1 i2))
          (remain.filter (fun x => !((order f remain).filter (fun i2 => adj i1 i2)).contains x)) := by
        refine ⟨?_, ?_, ?_, ?_⟩
        · intro u hu hcase
          -- is `u` outside the old `remain` or the start?
          by_cases hold : u ∉ remain ∨ u = s
          · rcases inv.closed u hu hold with hq | hcl
            · rcases List.mem_cons.mp hq with rfl | hq
              · right
                intro v _ hv hc
                have := ((hR v).mp hc).2
                simp [hv] at this
              · left; exact List.mem_append_left _ hq
            · right
              intro v hvn hv hc
              exact hcl v hvn hv ((hR v).mp hc).1
          · -- `u` was in `remain`, is not the start, and has left `remain`: it is one of `adjs`
            have hin : u ∈ remain := by
              by_cases h' : u ∈ remain
              · exact h'
              · exact absurd (Or.inl h') hold
            have hns : u ≠ s := fun e => hold (Or.inr e)
            rcases hcase with hout | hs
            · left
              apply List.mem_append_right
              apply (hA u).mpr
              refine ⟨hin, ?_⟩
              cases hx : adj i1 u with
              | true => rfl
              | false => exact absurd ((hR u).mpr ⟨hin, hx⟩) hout
            · exact absurd hs hns
        · intro u hu
          rcases List.mem_append.mp hu with hq | ha
          · exact inv.reachQ u (List.mem_cons_of_mem _ hq)
          · have := (hA u).mp ha
            exact Reach.step (inv.reachQ i1 (List.mem_cons_self ..)) this.2 (inv.bound u this.1)
        · intro u hu hout
          by_cases hin : u ∈ remain
          · have hadj : adj i1 u = true := by
              cases hx : adj i1 u with
              | true => rfl
              | false => exact absurd ((hR u).mpr ⟨hin, hx⟩) hout
            exact Reach.step (inv.reachQ i1 (List.mem_cons_self ..)) hadj hu
          · exact inv.reachOut u hu hin
        · intro u hu
          exact inv.bound u ((hR u).mp hu).1
      obtain ⟨h1, h2⟩ := ih _ _ _ colf remf h inv'
      exact ⟨h1, fun u hu => ((hR u).mp (h2 u hu)).1⟩

theorem reach_iff {n s : Nat} {remf : List Nat} (inv : Inv adj n s [] remf) (hs : s < n) (u : Nat) (hu : u < n) :
    Reach adj n s u ↔ (u ∉ remf ∨ u = s) := by
  constructor
  · intro hr
    have key : ∀ w, Reach adj n s w → w < n ∧ (w ∉ remf ∨ w = s) := by
      intro w hw
      induction hw with
      | start => exact ⟨hs, Or.inr rfl⟩
      | step _ hadj hv ih =>
        obtain ⟨hun, hc⟩ := ih
        rcases inv.closed _ hun hc with hq | hcl
        · simp at hq
        · exact ⟨hv, Or.inl (hcl _ hv hadj)⟩
    exact (key u hr).2
  · rintro (hout | rfl)
    · exact inv.reachOut u hu hout
    · exact Reach.start

theorem recolour_spec (i1 : Nat) : ∀ (adjs : List Nat) (col : Nat → Colour), i1 ∉ adjs → ∀ v,
    recolour i1 adjs col v = if v ∈ adjs then (col i1).other else col v := by
  intro adjs
  induction adjs with
  | nil => intro col _ v; simp [recolour]
  | cons i2 rest ih =>
    intro col hni v
    have hne : i1 ≠ i2 := fun e => hni (e ▸ List.mem_cons_self ..)
    have hnr : i1 ∉ rest := fun hc => hni (List.mem_cons_of_mem _ hc)
    simp only [recolour]
    rw [ih _ hnr v]
    simp only [hne, if_false, List.mem_cons]
    by_cases h1 : v ∈ rest
    · simp [h1]
    · by_cases h2 : v = i2 <;> simp [h1, h2]

theorem other_ne (c : Colour) : c.other ≠ c := by cases c <;> simp [Colour.other]

theorem bfs_colour (hp : PermOrder order) (χ : Nat → Colour) (hχ : ∀ u v, adj u v = true → χ v = (χ u).other) :
    ∀ (fuel : Nat) (q remain : List Nat) (col colf : Nat → Colour) (remf : List Nat),
    bfs adj order fuel q remain col = some (colf, remf) → (∀ u ∈ q, col u = χ u) →
    (∀ u, col u = χ u → colf u = χ u) ∧ (∀ u, u ∈ remain → u ∉ remf → colf u = χ u) ∧
    (∀ u, (u ∉ remain ∨ u ∈ remf) → colf u = col u) ∧ (∀ u, u ∈ remf → u ∈ remain) := by
  intro fuel
  induction fuel with
  | zero => intro q remain col colf remf h; simp [bfs] at h
  | succ f ih =>
    intro q remain col colf remf h hq
    cases q with
    | nil =>
      simp only [bfs, Option.some.injEq, Prod.mk.injEq] at h
      obtain ⟨rfl, rfl⟩ := h
      exact ⟨fun u hu => hu, fun u h1 h2 => absurd h1 h2, fun u _ => rfl, fun u hu => hu⟩
    | cons i1 q =>
      simp only [bfs] at h
      have hA := mem_adjs (adj := adj) hp f i1 remain
      have hR := mem_remain' (adj := adj) hp f i1 remain
      have hi1 : col i1 = χ i1 := hq i1 (List.mem_cons_self ..)
      have hself : i1 ∉ (order f remain).filter (fun i2 => adj i1 i2) := by
        intro hc
        have := hχ i1 i1 ((hA i1).mp hc).2
        exact other_ne _ this.symm
      have hrec := recolour_spec i1 _ col hself
      -- after the round: everything in `adjs` is right, nothing that was right is spoiled
      have hadjs : ∀ u, u ∈ (order f remain).filter (fun i2 => adj i1 i2) →
          recolour i1 ((order f remain).filter (fun i2 => adj i1 i2)) col u = χ u := by
        intro u hu
        rw [hrec u, if_pos hu, hi1, hχ i1 u ((hA u).mp hu).2]
      have hkeep : ∀ u, col u = χ u →
          recolour i1 ((order f remain).filter (fun i2 => adj i1 i2)) col u = χ u := by
        intro u hu
        by_cases hm : u ∈ (order f remain).filter (fun i2 => adj i1 i2)
        · exact hadjs u hm
        · rw [hrec u, if_neg hm, hu]
      have hq' : ∀ u ∈ q ++ (order f remain).filter (fun i2 => adj i1 i2),
          recolour i1 ((order f remain).filter (fun i2 => adj i1 i2)) col u = χ u := by
        intro u hu
        rcases List.mem_append.mp hu with h1 | h1
        · exact hkeep u (hq u (List.mem_cons_of_mem _ h1))
        · exact hadjs u h1
      obtain ⟨c1, c2, c3, c4⟩ := ih _ _ _ colf remf h hq'
      refine ⟨fun u hu => c1 u (hkeep u hu), ?_, ?_, fun u hu => ((hR u).mp (c4 u hu)).1⟩
      · intro u hin hout
        by_cases hm : u ∈ remain.filter (fun x => !((order f remain).filter (fun i2 => adj i1 i2)).contains x)
        · exact c2 u hm hout
        · have hadj : adj i1 u = true := by
            cases hx : adj i1 u with
            | true => rfl
            | false => exact absurd ((hR u).mpr ⟨hin, hx⟩) hm
          exact c1 u (hadjs u ((hA u).mpr ⟨hin, hadj⟩))
      · intro u hcase
        have hnotadj : u ∉ (order f remain).filter (fun i2 => adj i1 i2) := by
          intro hc
          have h1 := (hA u).mp hc
          rcases hcase with h2 | h2
          · exact h2 h1.1
          · have := ((hR u).mp (c4 u h2)).2
            simp [h1.2] at this
        have hcase' : u ∉ remain.filter (fun x => !((order f remain).filter (fun i2 => adj i1 i2)).contains x) ∨ u ∈ remf := by
          rcases hcase with h2 | h2
          · exact Or.inl (fun hc => h2 ((hR u).mp hc).1)
          · exact Or.inr h2
        rw [c3 u hcase', hrec u, if_neg hnotadj]

end bfs

end Yuiv.C06Canon
