import Yuiv.Proofs.C06WalkMain
import Yuiv.Proofs.C06ClosureStrand
/-
C06Walk — braid closures: the walk-model Seifert circles are the strands, the Seifert graph is the path
`0 — 1 — … — n−1` (connected when every generator occurs in the word), and the driver's `hyp` flag
(`crossingsBicoloured`) holds for every colouring that alternates along the path (helper; property theorems in
`Props/C06Walk.lean`).
-/
namespace Yuiv.C06Walk
open Yuiv Yuiv.KhRef Yuiv.C06Canon Yuiv.C04Inv Yuiv.C06Cycle Yuiv.Drv.C06 Yuiv.C06Closure
open Yuiv.C18 (closure BForm closure_bform posLab bX)
open Yuiv.C18Bridge (toKh crossingKh)

/-- position of the `k`-th walked circle -/
def posW (n : Nat) (w : List Int) (paths : List Path) (k : Nat) : Nat := posLab n w ((paths[k]!).edges.headD 0)

/-- what the walk returns on the orientation preserving state of a closure: every path is the set of all labels of one
strand position -/
structure StrandPaths (n : Nat) (w : List Int) (K : Link) (paths : List Path) : Prop where
  ne : ∀ k, k < paths.length → (paths[k]!).edges ≠ []
  mem : ∀ k, k < paths.length → ∀ e, e ∈ (paths[k]!).edges ↔ e ∈ edgeLabels K ∧ posLab n w e = posW n w paths k
  inj : ∀ u v, u < paths.length → v < paths.length → posW n w paths u = posW n w paths v → u = v
  lt : ∀ u, u < paths.length → posW n w paths u < n
  surj : ∀ k, k < n → ∃ u, u < paths.length ∧ posW n w paths u = k

theorem headD_mem (xs : List Nat) (h : xs ≠ []) : xs.headD 0 ∈ xs := by
  cases xs with
  | nil => exact absurd rfl h
  | cons a r => simp

theorem strandPaths (n : Nat) (w : List Int) (l : C18.Link) (hcl : closure n w = .ok l) (paths : List Path)
    (hp : componentsOf (toKh l) (resolvedTypes (toKh l) (braidState w)) = .ok paths) :
    StrandPaths n w (toKh l) paths := by
  have hv := validK_toKh l (C18.closure_valid' n w l hcl)
  obtain ⟨paths', h1, W, hcls⟩ := stateCircles_spec (toKh l) hv (braidState w)
  rw [hp] at h1
  cases h1
  obtain ⟨hc, hlt, hk⟩ := conn_iff_pos n w l hcl
  have hget : ∀ k, k < paths.length → paths[k]! ∈ paths := by
    intro k hk'; rw [getElem!_pos paths k hk']; exact List.getElem_mem _
  have hne : ∀ k, k < paths.length → (paths[k]!).edges ≠ [] := fun k hk' => (W.closed _ (hget k hk')).2
  have hlab : ∀ k, k < paths.length → ∀ e ∈ (paths[k]!).edges, e ∈ edgeLabels (toKh l) :=
    fun k hk' e he => (W.cover e).2 ⟨_, hget k hk', he⟩
  have hmem : ∀ k, k < paths.length → ∀ e, e ∈ (paths[k]!).edges ↔
      e ∈ edgeLabels (toKh l) ∧ posLab n w e = posW n w paths k := by
    intro k hk' e
    have h0 := headD_mem _ (hne k hk')
    constructor
    · intro he
      refine ⟨hlab k hk' e he, ?_⟩
      have c := (hcls _ (hget k hk') _ h0 e).2 he
      exact ((hc _ (hlab k hk' _ h0) _ (hlab k hk' e he)).1 c).symm
    · rintro ⟨he, hpe⟩
      exact (hcls _ (hget k hk') _ h0 e).1 ((hc _ (hlab k hk' _ h0) _ he).2 hpe.symm)
  refine ⟨hne, hmem, ?_, ?_, ?_⟩
  · intro u v hu hv' e
    have hu0 := headD_mem _ (hne u hu)
    have : (paths[u]!).edges.headD 0 ∈ (paths[v]!).edges :=
      (hmem v hv' _).2 ⟨hlab u hu _ hu0, e⟩
    -- the same label on two paths
    by_contra hne'
    have hpw := (List.pairwise_flatMap (R := (· ≠ ·))).1 W.nodup
    have hpw' := List.pairwise_iff_getElem.1 hpw.2
    rw [getElem!_pos paths u hu] at hu0 this
    rw [getElem!_pos paths v hv'] at this
    rcases Nat.lt_or_gt_of_ne hne' with h | h
    · exact hpw' u v hu hv' h _ hu0 _ this rfl
    · exact hpw' v u hv' hu h _ this _ hu0 rfl
  · intro u hu
    exact hlt _ (hlab u hu _ (headD_mem _ (hne u hu)))
  · intro k hk'
    obtain ⟨p, hp', hkp⟩ := (W.cover k).1 (hk k hk').1
    obtain ⟨u, hu, rfl⟩ := List.getElem_of_mem hp'
    refine ⟨u, hu, ?_⟩
    have : k ∈ (paths[u]!).edges := by rw [getElem!_pos paths u hu]; exact hkp
    rw [← ((hmem u hu k).1 this).2]
    exact (hk k hk').2

section closure
variable {n : Nat} {w : List Int} {l : C18.Link} {ins outs : List Nat}

/-- the label list of the crossing of letter `j` with its positions -/
theorem crossing_shape (hB : BForm n w l ins outs) (j : Nat) (hj : j < w.length) :
    ∃ x e1 e2 e3 e4, (toKh l)[j]? = some x ∧ x ∈ toKh l ∧ x.ct = .X ∧ x.e.toList = [e1, e2, e3, e4] ∧
      ((posLab n w e1 = (w.getD j 0).natAbs - 1 ∧ posLab n w e2 = (w.getD j 0).natAbs - 1 ∧
        posLab n w e3 = (w.getD j 0).natAbs - 1 + 1 ∧ posLab n w e4 = (w.getD j 0).natAbs - 1 + 1) ∨
       (posLab n w e1 = (w.getD j 0).natAbs - 1 + 1 ∧ posLab n w e2 = (w.getD j 0).natAbs - 1 ∧
        posLab n w e3 = (w.getD j 0).natAbs - 1 ∧ posLab n w e4 = (w.getD j 0).natAbs - 1 + 1)) := by
  have hx := toKh_getElem? l j
  rw [(hB.cr j hj).2] at hx
  simp only [Option.map_some] at hx
  obtain ⟨p1, p2, p3, p4⟩ := hB.pos j hj
  have hm := Array.mem_toList_iff.1 (List.mem_of_getElem? hx)
  rw [Array.getElem?_toList] at hx
  by_cases hs : w.getD j 0 > 0
  · rw [if_pos hs] at p1 p2
    refine ⟨_, _, _, _, _, hx, hm, ?_, ?_, Or.inl ⟨by rw [p1]; omega, p3, p4, by rw [p2]⟩⟩
    · rw [bX, if_pos hs]; rfl
    · rw [bX, if_pos hs]; rfl
  · rw [if_neg hs] at p1 p2
    refine ⟨_, _, _, _, _, hx, hm, ?_, ?_, Or.inr ⟨p1, by rw [p2]; omega, p3, p4⟩⟩
    · rw [bX, if_neg hs]; rfl
    · rw [bX, if_neg hs]; rfl

theorem crossing_shape_mem (hB : BForm n w l ins outs) (x : Crossing) (hx : x ∈ toKh l) :
    ∃ j, j < w.length ∧ ∃ e1 e2 e3 e4, x.ct = .X ∧ x.e.toList = [e1, e2, e3, e4] ∧
      ((posLab n w e1 = (w.getD j 0).natAbs - 1 ∧ posLab n w e2 = (w.getD j 0).natAbs - 1 ∧
        posLab n w e3 = (w.getD j 0).natAbs - 1 + 1 ∧ posLab n w e4 = (w.getD j 0).natAbs - 1 + 1) ∨
       (posLab n w e1 = (w.getD j 0).natAbs - 1 + 1 ∧ posLab n w e2 = (w.getD j 0).natAbs - 1 ∧
        posLab n w e3 = (w.getD j 0).natAbs - 1 ∧ posLab n w e4 = (w.getD j 0).natAbs - 1 + 1)) := by
  obtain ⟨j, hj, rfl⟩ := mem_toKh_closure hB x hx
  obtain ⟨x', e1, e2, e3, e4, h1, _, h3, h4, h5⟩ := crossing_shape hB j hj
  have hx' := toKh_getElem? l j
  rw [(hB.cr j hj).2] at hx'
  simp only [Option.map_some] at hx'
  rw [Array.getElem?_toList] at hx'
  rw [hx'] at h1
  cases h1
  exact ⟨j, hj, e1, e2, e3, e4, h3, h4, h5⟩

end closure

/-- the adjacency of `colored_seifert_circles` on the walked circles of a closure: only neighbouring strands -/
theorem isAdj_pos (n : Nat) (w : List Int) (l : C18.Link) (hcl : closure n w = .ok l) (paths : List Path)
    (S : StrandPaths n w (toKh l) paths) (u v : Nat)
    (h : isAdj (toKh l) (paths[u]!).edges (paths[v]!).edges = true) :
    u < paths.length ∧ v < paths.length ∧
      (posW n w paths u = posW n w paths v + 1 ∨ posW n w paths v = posW n w paths u + 1) := by
  obtain ⟨ins, outs, hB⟩ := closure_bform n w l hcl
  unfold isAdj at h
  rw [Array.any_eq_true'] at h
  obtain ⟨x, hx, hh⟩ := h
  rw [Bool.and_eq_true, Array.any_eq_true'] at hh
  obtain ⟨⟨e, he, hec⟩, h2⟩ := hh
  have hec' : e ∈ (paths[u]!).edges := by simpa using hec
  have hu : u < paths.length := by
    by_contra hu
    rw [getElem!_neg paths u hu] at hec'
    exact absurd hec' (by simp [default, instInhabitedPath.default])
  cases hf : x.e.find? (fun e => !(paths[u]!).edges.contains e) with
  | none => rw [hf] at h2; simp at h2
  | some e' =>
    rw [hf] at h2
    have he'c : e' ∈ (paths[v]!).edges := by simpa using h2
    have hv : v < paths.length := by
      by_contra hv
      rw [getElem!_neg paths v hv] at he'c
      exact absurd he'c (by simp [default, instInhabitedPath.default])
    have hn : e' ∉ (paths[u]!).edges := by simpa using Array.find?_some hf
    have he'x : e' ∈ x.e := Array.mem_of_find?_eq_some hf
    obtain ⟨j, hj, e1, e2, e3, e4, _, hl, hpos⟩ := crossing_shape_mem hB x hx
    have hpe := ((S.mem u hu e).1 hec').2
    have hpe' := ((S.mem v hv e').1 he'c).2
    have hne : posLab n w e' ≠ posLab n w e := by
      intro e0
      exact hn ((S.mem u hu e').2 ⟨((S.mem v hv e').1 he'c).1, e0.trans hpe⟩)
    have m1 : e ∈ [e1, e2, e3, e4] := by rw [← hl]; exact Array.mem_toList_iff.2 he
    have m2 : e' ∈ [e1, e2, e3, e4] := by rw [← hl]; exact Array.mem_toList_iff.2 he'x
    refine ⟨hu, hv, ?_⟩
    rw [← hpe, ← hpe']
    simp only [List.mem_cons, List.not_mem_nil, or_false] at m1 m2
    rcases hpos with ⟨q1, q2, q3, q4⟩ | ⟨q1, q2, q3, q4⟩ <;>
      rcases m1 with rfl | rfl | rfl | rfl <;> rcases m2 with rfl | rfl | rfl | rfl <;> omega

/-- … and neighbouring strands ARE adjacent (both ways) when the generator between them occurs in the word -/
theorem isAdj_of_pos (n : Nat) (w : List Int) (l : C18.Link) (hcl : closure n w = .ok l) (paths : List Path)
    (S : StrandPaths n w (toKh l) paths)
    (hgen : ∀ g, g + 1 < n → ∃ j, j < w.length ∧ (w.getD j 0).natAbs - 1 = g)
    (u v : Nat) (hu : u < paths.length) (hv : v < paths.length)
    (h : posW n w paths u + 1 = posW n w paths v) :
    isAdj (toKh l) (paths[u]!).edges (paths[v]!).edges = true ∧
    isAdj (toKh l) (paths[v]!).edges (paths[u]!).edges = true := by
  obtain ⟨ins, outs, hB⟩ := closure_bform n w l hcl
  obtain ⟨j, hj, hg⟩ := hgen (posW n w paths u) (by have := S.lt v hv; omega)
  obtain ⟨x, e1, e2, e3, e4, _, hx, _, hl, hpos⟩ := crossing_shape hB j hj
  rw [hg] at hpos
  have hlab : ∀ e ∈ [e1, e2, e3, e4], e ∈ edgeLabels (toKh l) := by
    intro e he
    rw [← hl] at he
    exact (mem_edgeLabels _ e).2 ⟨x, hx, Array.mem_toList_iff.1 he⟩
  -- generic: c1 at position a, c2 at position b, {a, b} = {g, g+1}
  have key : ∀ a b, a < paths.length → b < paths.length →
      (∀ e ∈ [e1, e2, e3, e4], posLab n w e = posW n w paths a ∨ posLab n w e = posW n w paths b) →
      (∃ e ∈ [e1, e2, e3, e4], posLab n w e = posW n w paths a) →
      posW n w paths a ≠ posW n w paths b →
      isAdj (toKh l) (paths[a]!).edges (paths[b]!).edges = true := by
    intro a b ha hb hall hex hab
    unfold isAdj
    rw [Array.any_eq_true']
    refine ⟨x, hx, ?_⟩
    rw [Bool.and_eq_true, Array.any_eq_true']
    obtain ⟨e, he, hpe⟩ := hex
    refine ⟨⟨e, by rw [← Array.mem_toList_iff, hl]; exact he, ?_⟩, ?_⟩
    · simpa using (S.mem a ha e).2 ⟨hlab e he, hpe⟩
    · cases hf : x.e.find? (fun e => !(paths[a]!).edges.contains e) with
      | none =>
        exfalso
        rw [Array.find?_eq_none] at hf
        -- some label of the crossing is at the other position
        have hother : ∃ e' ∈ [e1, e2, e3, e4], posLab n w e' ≠ posW n w paths a := by
          rcases hpos with ⟨q1, q2, q3, q4⟩ | ⟨q1, q2, q3, q4⟩
          · by_cases h0 : posLab n w e1 = posW n w paths a
            · exact ⟨e3, by simp, by omega⟩
            · exact ⟨e1, by simp, h0⟩
          · by_cases h0 : posLab n w e1 = posW n w paths a
            · exact ⟨e2, by simp, by omega⟩
            · exact ⟨e1, by simp, h0⟩
        obtain ⟨e', he', hpe'⟩ := hother
        have := hf e' (by rw [← Array.mem_toList_iff, hl]; exact he')
        have hin : e' ∈ (paths[a]!).edges := by simpa using this
        exact hpe' ((S.mem a ha e').1 hin).2
      | some e' =>
        have hn : e' ∉ (paths[a]!).edges := by simpa using Array.find?_some hf
        have he'x : e' ∈ [e1, e2, e3, e4] := by
          rw [← hl]; exact Array.mem_toList_iff.2 (Array.mem_of_find?_eq_some hf)
        have : posLab n w e' = posW n w paths b := by
          rcases hall e' he'x with h0 | h0
          · exact absurd ((S.mem a ha e').2 ⟨hlab e' he'x, h0⟩) hn
          · exact h0
        simpa using (S.mem b hb e').2 ⟨hlab e' he'x, this⟩
  have hall : ∀ e ∈ [e1, e2, e3, e4], posLab n w e = posW n w paths u ∨ posLab n w e = posW n w paths v := by
    intro e he
    simp only [List.mem_cons, List.not_mem_nil, or_false] at he
    rcases hpos with ⟨q1, q2, q3, q4⟩ | ⟨q1, q2, q3, q4⟩ <;> rcases he with rfl | rfl | rfl | rfl <;> omega
  refine ⟨key u v hu hv hall ?_ (by omega), key v u hv hu (fun e he => (hall e he).symm) ?_ (by omega)⟩
  · rcases hpos with ⟨q1, q2, q3, q4⟩ | ⟨q1, q2, q3, q4⟩
    · exact ⟨e1, by simp, q1⟩
    · exact ⟨e2, by simp, q2⟩
  · rcases hpos with ⟨q1, q2, q3, q4⟩ | ⟨q1, q2, q3, q4⟩
    · exact ⟨e3, by simp, by omega⟩
    · exact ⟨e1, by simp, by omega⟩

/-- the index of the walked circle through a label, as `findIdx?` computes it -/
theorem findIdx_label (n : Nat) (w : List Int) (K : Link) (paths : List Path) (S : StrandPaths n w K paths)
    (col : Nat → Colour) (e : Nat) (he : e ∈ edgeLabels K) (hpe : posLab n w e < n) :
    ∃ k, k < paths.length ∧ posW n w paths k = posLab n w e ∧
      (((List.range paths.length).map (fun k => (paths[k]!, col k))).findIdx?
        (fun pc => pc.1.edges.contains e)) = some k := by
  obtain ⟨k, hk, hpk⟩ := S.surj _ hpe
  refine ⟨k, hk, hpk, ?_⟩
  rw [List.findIdx?_eq_some_iff_getElem]
  refine ⟨by simpa using hk, ?_, ?_⟩
  · simp only [List.getElem_map, List.getElem_range]
    simpa using (S.mem k hk e).2 ⟨he, hpk.symm⟩
  · intro j hjk
    simp only [List.getElem_map, List.getElem_range]
    intro hc
    have hj : j < paths.length := by omega
    have := ((S.mem j hj e).1 (by simpa using hc)).2
    have := S.inj j k hj hk (by omega)
    omega

/-- THE `hyp` FLAG for a closure: every crossing touches exactly two walked circles and, if the colouring alternates
along neighbouring strands, they have different colours -/
theorem crossingsBicoloured_closure (n : Nat) (w : List Int) (l : C18.Link) (hcl : closure n w = .ok l)
    (paths : List Path) (S : StrandPaths n w (toKh l) paths) (col : Nat → Colour)
    (hcol : ∀ u v, u < paths.length → v < paths.length → posW n w paths u + 1 = posW n w paths v → col u ≠ col v) :
    crossingsBicoloured (toKh l) ((List.range paths.length).map (fun k => (paths[k]!, col k))) = true := by
  obtain ⟨ins, outs, hB⟩ := closure_bform n w l hcl
  obtain ⟨_, hlt, _⟩ := conn_iff_pos n w l hcl
  unfold crossingsBicoloured
  rw [Array.all_eq_true_iff_forall_mem]
  intro x hx
  obtain ⟨j, hj, e1, e2, e3, e4, hct, hl, hpos⟩ := crossing_shape_mem hB x hx
  have hlab : ∀ e ∈ [e1, e2, e3, e4], e ∈ edgeLabels (toKh l) := by
    intro e he
    rw [← hl] at he
    exact (mem_edgeLabels _ e).2 ⟨x, hx, Array.mem_toList_iff.1 he⟩
  have hres : x.ct.isResolved = false := by rw [hct]; rfl
  rw [hres, Bool.false_or]
  have hlen : ((List.range paths.length).map (fun k => (paths[k]!, col k))).length = paths.length := by simp
  have hget : ∀ k, k < paths.length →
      (((List.range paths.length).map (fun k => (paths[k]!, col k)))[k]!).2 = col k := by
    intro k hk
    rw [getElem!_pos _ k (by simpa using hk)]; simp
  obtain ⟨k1, hk1, p1, f1⟩ := findIdx_label n w _ paths S col e1 (hlab e1 (by simp)) (hlt _ (hlab e1 (by simp)))
  obtain ⟨k2, hk2, p2, f2⟩ := findIdx_label n w _ paths S col e2 (hlab e2 (by simp)) (hlt _ (hlab e2 (by simp)))
  obtain ⟨k3, hk3, p3, f3⟩ := findIdx_label n w _ paths S col e3 (hlab e3 (by simp)) (hlt _ (hlab e3 (by simp)))
  obtain ⟨k4, hk4, p4, f4⟩ := findIdx_label n w _ paths S col e4 (hlab e4 (by simp)) (hlt _ (hlab e4 (by simp)))
  simp only [hl, List.map_cons, List.map_nil, f1, f2, f3, f4, Option.getD_some, hlen]
  rcases hpos with ⟨q1, q2, q3, q4⟩ | ⟨q1, q2, q3, q4⟩
  · have e12 : k2 = k1 := S.inj k2 k1 hk2 hk1 (by omega)
    have e34 : k4 = k3 := S.inj k4 k3 hk4 hk3 (by omega)
    have hne : k1 ≠ k3 := fun e => by rw [e] at p1; omega
    subst e12 e34
    have hd : [k2, k2, k4, k4].eraseDups = [k2, k4] := by
      simp [List.eraseDups_cons, hne, Ne.symm hne]
    rw [hd]
    simp only [hk2, hk4, decide_true, Bool.true_and, hget k2 hk2, hget k4 hk4, bne_iff_ne, ne_eq]
    exact hcol k2 k4 hk2 hk4 (by omega)
  · have e23 : k3 = k2 := S.inj k3 k2 hk3 hk2 (by omega)
    have e14 : k4 = k1 := S.inj k4 k1 hk4 hk1 (by omega)
    have hne : k1 ≠ k2 := fun e => by rw [e] at p1; omega
    subst e23 e14
    have hd : [k4, k3, k3, k4].eraseDups = [k4, k3] := by
      simp [List.eraseDups_cons, hne, Ne.symm hne]
    rw [hd]
    simp only [hk3, hk4, decide_true, Bool.true_and, hget k3 hk3, hget k4 hk4, bne_iff_ne, ne_eq]
    exact (hcol k3 k4 hk3 hk4 (by omega)).symm

end Yuiv.C06Walk
