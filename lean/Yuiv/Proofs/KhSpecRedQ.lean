import Yuiv.Proofs.KhSpecRed
import Yuiv.Proofs.KhSpecQ
/-
KhSpec — the REDUCED BIGRADED computation (`h = t = 0`) (helper; no property theorem here).

The `q`-slices of the reduced generators `gensByWeight (mkCube l p)` are families of the unreduced cube `cube0 l p` closed
under `d` (`fam_reduced_gensQ`: `fam_reduced` + `qDeg_preserved` for `cube0`; `Cube.qDeg` does not look at `base`), and
`khHomology … true` succeeds with the cells of `homologyOf` of these slices inside the unreduced cube
(`khHomology_ok_reduced_bigraded`).  If `p.reduced = false` this is the unreduced statement (`base = none`).
-/
namespace Yuiv.KhSpec
open Yuiv Yuiv.KhRef Yuiv.KhSnf

/-- `qDeg` does not look at `base` -/
theorem qDeg_cube0 (l : Link) (p : Params) (q0 : Int) (g : Gen) :
    (cube0 l p).qDeg q0 g = (mkCube l p).qDeg q0 g := rfl

/-- the `q`-slices do not look at `base` -/
theorem gensQ_cube0 (l : Link) (p : Params) (q0 : Int) (gens : Array (Array Gen)) (q : Int) :
    gensQ (cube0 l p) q0 gens q = gensQ (mkCube l p) q0 gens q := rfl

/-- the unreduced differential of `cube0 l p` preserves the q-degree on the reduced generators (`h = t = 0`) -/
theorem qDeg_reduced (l : Link) (hv : C06Cycle.validK l = true) (hL : (edgeLabels l).size ≤ 64) (p : Params)
    (hh : p.h = 0) (ht : p.t = 0) (hok : C02Mirror.cubeOK (mkCube l p)) (q0 : Int) (w : Nat) (g : Gen)
    (hg : g ∈ ((gensByWeight (mkCube l p))[w]!).toList) :
    ∀ t ∈ (dTab (cube0 l p) p (gensByWeight (cube0 l p)) g).toList,
      (mkCube l p).qDeg q0 t.1 = (mkCube l p).qDeg q0 g := by
  have H0 := ctx_cube0 l hv hL p hok
  have hg0 := (fam_reduced l hv hL p ht hok).sub w g hg
  obtain ⟨_, hs, _, hm⟩ := gen_props H0 hg0
  obtain ⟨ts, hd⟩ := d_defined H0 hs
  intro t htm
  rw [dTab_of_mem hg0, hd] at htm
  exact qDeg_preserved (cube0 l p) p hh ht H0.hb H0.hok H0.hP g hs hm ts hd q0 t htm

/-- a q-slice of the reduced generators is a family of the unreduced cube `cube0 l p` closed under `d` -/
theorem fam_reduced_gensQ (l : Link) (hv : C06Cycle.validK l = true) (hL : (edgeLabels l).size ≤ 64) (p : Params)
    (hh : p.h = 0) (ht : p.t = 0) (hok : C02Mirror.cubeOK (mkCube l p)) (q0 q : Int) :
    Fam (cube0 l p) p (gensQ (mkCube l p) q0 (gensByWeight (mkCube l p)) q) := by
  have F := fam_reduced l hv hL p ht hok
  refine ⟨by unfold gensQ; rw [Array.size_map]; exact F.size, ?_, ?_, ?_⟩
  · intro i
    rw [gensQ_getElem, Array.toList_filter]
    exact (F.nd i).filter _
  · intro i g hg
    exact F.sub i g ((mem_gensQ q0 _ q i g).1 hg).1
  · intro i g hg t htm
    obtain ⟨hg1, hg2⟩ := (mem_gensQ q0 _ q i g).1 hg
    refine (mem_gensQ q0 _ q (i + 1) t.1).2 ⟨F.tgt i g hg1 t htm, ?_⟩
    rw [← hg2]
    exact qDeg_reduced l hv hL p hh ht hok q0 i g hg1 t htm

/-- END TO END for the reduced bigraded computation: success, and the cells are those of `homologyOf` of the q-slices of
the reduced generators inside the unreduced cube -/
theorem khHomology_ok_reduced_bigraded (l : Link) (hv : C06Cycle.validK l = true) (hL : (edgeLabels l).size ≤ 64)
    (p : Params) (hh : p.h = 0) (ht : p.t = 0) (hok : C02Mirror.cubeOK (mkCube l p)) (signs : Array Int) (k : Coeff) :
    khHomology l signs p k true =
      .ok ⟨((qsOf (mkCube l p) (q0Of signs p) (gensByWeight (mkCube l p))).toList.flatMap (fun q =>
        cellsUn (h0Of signs) (some q)
          (homologyOf k (gensQ (mkCube l p) (q0Of signs p) (gensByWeight (mkCube l p)) q)
            (dTab (cube0 l p) p (gensByWeight (cube0 l p)))))).toArray⟩ := by
  have H0 := ctx_cube0 l hv hL p hok
  have hR := redOr_mkCube l hv hL p
  rw [khHomology_bigraded l signs p k
    (by
      intro gs hgs g hg
      obtain ⟨w, rfl⟩ := gens_cases hgs
      exact d_defined_red H0 hR ht w g hg)
    (by
      intro gs hgs g hg z
      obtain ⟨w, rfl⟩ := gens_cases hgs
      exact dTab_dd_red H0 hR ht w g hg z)
    (by
      intro gs hgs g hg t htm
      obtain ⟨w, rfl⟩ := gens_cases hgs
      rw [dTab_reduced l hv hL p ht hok w g hg] at htm
      exact qDeg_reduced l hv hL p hh ht hok _ w g hg t htm)]
  have e : ∀ q : Int,
      homologyOf k (gensQ (mkCube l p) (q0Of signs p) (gensByWeight (mkCube l p)) q)
          (dTab (mkCube l p) p (gensByWeight (mkCube l p))) =
        homologyOf k (gensQ (mkCube l p) (q0Of signs p) (gensByWeight (mkCube l p)) q)
          (dTab (cube0 l p) p (gensByWeight (cube0 l p))) := fun q =>
    homologyOf_congr k _ _ _ (fun i g hg =>
      dTab_reduced l hv hL p ht hok i g ((mem_gensQ (q0Of signs p) _ q i g).1 hg).1)
  simp only [e]

end Yuiv.KhSpec
