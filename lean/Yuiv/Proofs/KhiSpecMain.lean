import Yuiv.Proofs.KhiSpecMat
import Yuiv.Props.C19Cone
/-
KhiSpec — assembly: under `khiSpecOk`, `khiHomology … false` returns the list of the non-zero dimensions
`#gens − rank D_out − rank D_in` of the cone of `1 + τ`.
-/
namespace Yuiv.KhiSpec
open Yuiv Yuiv.KhRef Yuiv.C19 Yuiv.C06Cycle Yuiv.C19Inv Yuiv.C19Comm Yuiv.C19Cone Matrix

/-- the dimension of the homology of the cone at position `i` (degree `h0 + i`) -/
noncomputable def coneDim (ic : ICube) (p : Params) (i : Nat) : Nat :=
  (cgens ic i).size - (Dm ic p i).rank - (if i = 0 then 0 else (Dm ic p (i - 1)).rank)

/-- what `khiSpecOk` provides -/
theorem khiSpecOk_spec (l : InvLink) (p : Params) (h : khiSpecOk l p = true) :
    ∃ ic, mkICube l p = some ic ∧ khiInstanceOk l p = true ∧ GensOk ic p := by
  unfold khiSpecOk at h
  rw [Bool.and_eq_true] at h
  cases hm : mkICube l p with
  | none => rw [hm] at h; exact absurd h.2 (by simp)
  | some ic =>
    rw [hm] at h
    exact ⟨ic, rfl, h.1, gensOk_spec ic p h.2⟩

/-- every enumerated cube generator has a defined differential, and the cone is a complex at every cone generator -/
theorem enumerated_ok (l : InvLink) (p : Params) (ic : ICube) (hic : mkICube l p = some ic)
    (hok : khiInstanceOk l p = true) (G : GensOk ic p) :
    (∀ gs ∈ kgensOf ic.cube, ∀ g ∈ gs, (ic.cube.d p g).isSome = true) ∧
    (∀ (i : Nat) (x : IGen), x ∈ cgens ic i → ∀ z, ((dI ic p x).flatMap (dI ic p)).count z % 2 = 0) := by
  obtain ⟨hv, hL, _, hred, ic', hic', hcube, _⟩ := khi_instance_ok_meaning l p hok
  rw [hic] at hic'
  cases hic'
  obtain ⟨ic', hic', _, _, H⟩ := khi_instance_ok_sound l p hok
  rw [hic] at hic'
  cases hic'
  obtain ⟨hc, _⟩ := mkICube_tst l p ic hic
  refine ⟨?_, ?_⟩
  · intro gs hgs g hg
    obtain ⟨h1, _, h3⟩ := G.valid gs hgs g hg
    rw [hc] at hcube h1 h3 ⊢
    obtain ⟨ts, hts, _⟩ := icCube_dsq l p hv hL hcube hred g h1 h3
    rw [hts]; rfl
  · intro i x hx z
    obtain ⟨gs, hgs, hg⟩ := coneGens_mem _ _ i x hx
    obtain ⟨h1, h2, h3⟩ := G.valid gs hgs x.2 hg
    obtain ⟨b, g⟩ := x
    exact (H g h1 h2 h3).2.2.2.2.2 b z

/-- the singly graded table -/
theorem khi_graded_eq (l : InvLink) (signs : Array Int) (p : Params) (ic : ICube) (hic : mkICube l p = some ic)
    (hok : khiInstanceOk l p = true) (G : GensOk ic p) :
    khiHomology l signs p false = Except.ok { cells :=
      ((List.range (ic.cube.n + 2)).filterMap (fun (i : Nat) =>
        if coneDim ic p i ≠ 0 then
          some (-((signs.filter (· < 0)).size : Int) + (i : Int), (none : Option Int), coneDim ic p i) else none)).toArray } := by
  obtain ⟨hd, hcone⟩ := enumerated_ok l p ic hic hok G
  rw [khiHomology_eq]
  unfold khiM
  rw [hic]
  simp only
  rw [dmapK_noexit _ _ _ _ hd]
  show Id.run (ddK (dIm ic p) (coneGens ic.cube (kgensOf ic.cube)) _) = _
  rw [ddK_noexit _ _ _ (dd_check_passes ic p G hcone), khiTail2_graded]
  simp only [Id.run, pure]
  rw [cellsOf_eq, homoA_eq]
  congr 2
  simp only [List.size_toArray, List.length_map, List.length_range, coneGens_size]
  congr 1
  apply List.filterMap_congr
  intro i hi
  have hi' : i < ic.cube.n + 2 := List.mem_range.1 hi
  have hget : ((List.map (dimAt (dIm ic p) (coneGens ic.cube (kgensOf ic.cube)))
      (List.range (ic.cube.n + 2))).toArray)[i]! = coneDim ic p i := by
    rw [getElem!_pos _ i (by simpa using hi')]
    simp only [List.getElem_toArray, List.getElem_map, List.getElem_range]
    exact dimAt_eq ic p G i (by rw [coneGens_size]; exact hi')
  show (if ((List.map (dimAt (dIm ic p) (coneGens ic.cube (kgensOf ic.cube)))
      (List.range (ic.cube.n + 2))).toArray)[i]! ≠ 0 then
      some (_, _, ((List.map (dimAt (dIm ic p) (coneGens ic.cube (kgensOf ic.cube)))
      (List.range (ic.cube.n + 2))).toArray)[i]!) else _) = _
  rw [hget]

end Yuiv.KhiSpec
