import Yuiv.Proofs.C18Part
/-
C18Inv — cycles of a permutation of `0 .. n-1` given as a function `σ` (injective self-map of `[0,n)`):
orbits are periodic, "same orbit" is an equivalence, and the positions that are the least element of their
orbit (`cycleReps`) form a transversal of the orbits; `cycleCount` = their number = the number of cycles.
Core Lean only.
-/
namespace Yuiv.C18
open Yuiv

/-- `σ` restricted to `[0,n)` is an injective self-map (hence a permutation) -/
structure PermOn (σ : Nat → Nat) (n : Nat) : Prop where
  lt : ∀ k, k < n → σ k < n
  inj : ∀ a b, a < n → b < n → σ a = σ b → a = b

/-- `b` lies on the forward orbit of `a` -/
def SameOrb (σ : Nat → Nat) (a b : Nat) : Prop := ∃ j, iter σ j a = b

/-- `k` is the least element of (the first `n` points of) its orbit -/
def orbMin (σ : Nat → Nat) (n k : Nat) : Bool := (List.range n).all (fun j => decide (k ≤ iter σ j k))

/-- one representative (the least element) of every cycle -/
def cycleReps (σ : Nat → Nat) (n : Nat) : List Nat := (List.range n).filter (orbMin σ n)

/-- number of cycles of the permutation `σ` of `0 .. n-1` -/
def cycleCount (σ : Nat → Nat) (n : Nat) : Nat := (cycleReps σ n).length

theorem iter_add {α} (f : α → α) (a b : Nat) (x : α) : iter f (a + b) x = iter f a (iter f b x) := by
  induction a with
  | zero => simp [iter]
  | succ a ih =>
    have : a + 1 + b = (a + b) + 1 := by omega
    rw [this]
    show f (iter f (a + b) x) = f (iter f a (iter f b x))
    rw [ih]

theorem iter_succ' {α} (f : α → α) (a : Nat) (x : α) : iter f (a + 1) x = iter f a (f x) := by
  rw [iter_add f a 1 x]; rfl

theorem PermOn.iter_lt {σ : Nat → Nat} {n : Nat} (h : PermOn σ n) (k : Nat) (hk : k < n) :
    ∀ j, iter σ j k < n
  | 0 => hk
  | j + 1 => h.lt _ (PermOn.iter_lt h k hk j)

/-- cancel common steps -/
theorem PermOn.iter_cancel {σ : Nat → Nat} {n : Nat} (h : PermOn σ n) (a b : Nat) (ha : a < n) (hb : b < n) :
    ∀ j, iter σ j a = iter σ j b → a = b
  | 0, e => e
  | j + 1, e => by
    have e' : σ (iter σ j a) = σ (iter σ j b) := e
    exact PermOn.iter_cancel h a b ha hb j (h.inj _ _ (h.iter_lt a ha j) (h.iter_lt b hb j) e')

theorem exists_dup_of_not_nodup : ∀ (l : List Nat), ¬ l.Nodup →
    ∃ i j, ∃ (hij : i < j) (hj : j < l.length), l[i]'(by omega) = l[j]
  | [], h => absurd List.nodup_nil h
  | a :: r, h => by
    by_cases ha : a ∈ r
    · obtain ⟨k, hk, e⟩ := List.getElem_of_mem ha
      exact ⟨0, k + 1, by omega, by simpa using hk, by simp [e]⟩
    · have hr : ¬ r.Nodup := fun hn => h (List.nodup_cons.2 ⟨ha, hn⟩)
      obtain ⟨i, j, hij, hj, e⟩ := exists_dup_of_not_nodup r hr
      exact ⟨i + 1, j + 1, by omega, by simpa using hj, by simpa using e⟩

/-- every orbit is periodic with a period between 1 and `n` -/
theorem PermOn.periodic {σ : Nat → Nat} {n : Nat} (h : PermOn σ n) (k : Nat) (hk : k < n) :
    ∃ m, 0 < m ∧ m ≤ n ∧ iter σ m k = k := by
  let L := (List.range (n + 1)).map (fun j => iter σ j k)
  have hsub : L ⊆ List.range n := by
    intro x hx
    obtain ⟨j, _, rfl⟩ := List.mem_map.1 hx
    exact List.mem_range.2 (h.iter_lt k hk j)
  have hnd : ¬ L.Nodup := by
    intro hn
    have := List.Nodup.length_le_of_subset hn hsub
    simp [L] at this
    omega
  obtain ⟨i, j, hij, hj, e⟩ := exists_dup_of_not_nodup L hnd
  have hjl : j < n + 1 := by simpa [L] using hj
  simp only [L, List.getElem_map, List.getElem_range] at e
  -- iter i k = iter j k = iter i (iter (j - i) k)
  have e2 : iter σ i k = iter σ i (iter σ (j - i) k) := by
    rw [← iter_add, show i + (j - i) = j by omega]; exact e
  have := h.iter_cancel _ _ hk (h.iter_lt k hk (j - i)) i e2
  exact ⟨j - i, by omega, by omega, this.symm⟩

theorem iter_mul_period {σ : Nat → Nat} {m k : Nat} (hm : iter σ m k = k) : ∀ t, iter σ (t * m) k = k
  | 0 => by simp [iter]
  | t + 1 => by
    have : (t + 1) * m = t * m + m := by rw [Nat.succ_mul]
    rw [this, iter_add, hm]; exact iter_mul_period hm t

theorem iter_mod_period {σ : Nat → Nat} {m k : Nat} (hm : iter σ m k = k) (j : Nat) :
    iter σ j k = iter σ (j % m) k := by
  have : j = j % m + (j / m) * m := by
    have := Nat.mod_add_div j m
    rw [Nat.mul_comm] at this; omega
  conv => lhs; rw [this]
  rw [iter_add, iter_mul_period hm]

theorem SameOrb.refl (σ : Nat → Nat) (a : Nat) : SameOrb σ a a := ⟨0, rfl⟩

theorem SameOrb.trans {σ : Nat → Nat} {a b c : Nat} (h1 : SameOrb σ a b) (h2 : SameOrb σ b c) : SameOrb σ a c := by
  obtain ⟨i, rfl⟩ := h1
  obtain ⟨j, rfl⟩ := h2
  exact ⟨j + i, iter_add σ j i a⟩

theorem SameOrb.symm {σ : Nat → Nat} {n : Nat} (h : PermOn σ n) {a b : Nat} (ha : a < n) (hab : SameOrb σ a b) :
    SameOrb σ b a := by
  obtain ⟨j, rfl⟩ := hab
  obtain ⟨m, hm0, _, hm⟩ := h.periodic a ha
  refine ⟨j * m - j, ?_⟩
  rw [← iter_add]
  have : j * m - j + j = j * m := by
    have : j ≤ j * m := Nat.le_mul_of_pos_right j hm0
    omega
  rw [this]; exact iter_mul_period hm j

theorem SameOrb.lt {σ : Nat → Nat} {n : Nat} (h : PermOn σ n) {a b : Nat} (ha : a < n) (hab : SameOrb σ a b) : b < n := by
  obtain ⟨j, rfl⟩ := hab
  exact h.iter_lt a ha j

/-- every point of the orbit is among the first `n` iterates -/
theorem PermOn.orbit_small {σ : Nat → Nat} {n : Nat} (h : PermOn σ n) (k : Nat) (hk : k < n) (j : Nat) :
    ∃ j', j' < n ∧ iter σ j' k = iter σ j k := by
  obtain ⟨m, hm0, hmn, hm⟩ := h.periodic k hk
  exact ⟨j % m, by have := Nat.mod_lt j hm0; omega, (iter_mod_period hm j).symm⟩

theorem orbMin_iff {σ : Nat → Nat} {n : Nat} (h : PermOn σ n) (k : Nat) (hk : k < n) :
    orbMin σ n k = true ↔ ∀ b, SameOrb σ k b → k ≤ b := by
  unfold orbMin
  simp only [List.all_eq_true, List.mem_range, decide_eq_true_eq]
  constructor
  · rintro hall b ⟨j, rfl⟩
    obtain ⟨j', hj', e⟩ := h.orbit_small k hk j
    rw [← e]; exact hall j' hj'
  · intro hall j _
    exact hall _ ⟨j, rfl⟩

theorem mem_cycleReps {σ : Nat → Nat} {n : Nat} (h : PermOn σ n) (k : Nat) :
    k ∈ cycleReps σ n ↔ k < n ∧ ∀ b, SameOrb σ k b → k ≤ b := by
  unfold cycleReps
  rw [List.mem_filter, List.mem_range]
  constructor
  · rintro ⟨hk, hm⟩; exact ⟨hk, (orbMin_iff h k hk).1 hm⟩
  · rintro ⟨hk, hm⟩; exact ⟨hk, (orbMin_iff h k hk).2 hm⟩

/-- least element of a finite non-empty set of naturals given by a predicate on `j < n` -/
theorem exists_min_iterate (f : Nat → Nat) : ∀ (n : Nat), 0 < n → ∃ j, j < n ∧ ∀ j', j' < n → f j ≤ f j'
  | 0, h => absurd h (Nat.lt_irrefl 0)
  | 1, _ => ⟨0, by omega, fun j' hj' => by have : j' = 0 := by omega
                                           rw [this]; exact Nat.le_refl _⟩
  | n + 2, _ => by
    obtain ⟨j, hj, hmin⟩ := exists_min_iterate f (n + 1) (by omega)
    by_cases hc : f j ≤ f (n + 1)
    · refine ⟨j, by omega, ?_⟩
      intro j' hj'
      by_cases e : j' = n + 1
      · rw [e]; exact hc
      · exact hmin j' (by omega)
    · refine ⟨n + 1, by omega, ?_⟩
      intro j' hj'
      by_cases e : j' = n + 1
      · rw [e]; exact Nat.le_refl _
      · have := hmin j' (by omega); omega

/-- `cycleReps` is a transversal of the orbits: representatives are positions, two representatives on the same
orbit are equal, and every position is on the orbit of a representative -/
theorem cycleReps_transversal {σ : Nat → Nat} {n : Nat} (h : PermOn σ n) :
    (∀ r ∈ cycleReps σ n, r < n) ∧
    (∀ a ∈ cycleReps σ n, ∀ b ∈ cycleReps σ n, SameOrb σ a b → a = b) ∧
    (∀ k, k < n → ∃ r ∈ cycleReps σ n, SameOrb σ r k) ∧ (cycleReps σ n).Nodup := by
  refine ⟨fun r hr => ((mem_cycleReps h r).1 hr).1, ?_, ?_, ?_⟩
  · intro a ha b hb hab
    obtain ⟨han, hamin⟩ := (mem_cycleReps h a).1 ha
    obtain ⟨_, hbmin⟩ := (mem_cycleReps h b).1 hb
    have h1 := hamin b hab
    have h2 := hbmin a (hab.symm h han)
    omega
  · intro k hk
    have hn : 0 < n := by omega
    obtain ⟨j, _, hmin⟩ := exists_min_iterate (fun j => iter σ j k) n hn
    refine ⟨iter σ j k, ?_, ?_⟩
    · rw [mem_cycleReps h]
      refine ⟨h.iter_lt k hk j, ?_⟩
      rintro b ⟨i, rfl⟩
      rw [← iter_add]
      obtain ⟨j', hj', e⟩ := h.orbit_small k hk (i + j)
      rw [← e]; exact hmin j' hj'
    · exact (SameOrb.symm h hk ⟨j, rfl⟩)
  · unfold cycleReps
    exact List.Nodup.sublist List.filter_sublist List.nodup_range

example : cycleCount (fun x => [1, 0].getD x 0) 2 = 1 ∧ cycleCount (fun x => [0, 1].getD x 0) 2 = 2 ∧
    cycleCount (fun x => [2, 0, 1, 4, 3, 5].getD x 0) 6 = 3 := by decide

end Yuiv.C18
