import Yuiv.Proofs.C19CommMat
import Yuiv.Proofs.C19CommState
/-
C19Comm — the example: the strongly invertible trefoil of the table (`3_1`, PD code `[[1,5,2,4],[3,1,4,6],[5,3,6,2]]`,
label involution `e ↦ (7 − e) % 6 + 1`, base point `1`), its involutive cube as `Model/C19.mkICube` computes it
(`Array.qsort` inside `edgeLabels` does not reduce in the kernel and is unfolded by `simp`, as in `Proofs/C06CycleEx`).
-/
open private Array.qsort.sort from Init.Data.Array.QSort.Basic
open private Array.qpartition.loop from Init.Data.Array.QSort.Basic

deriving instance DecidableEq for Yuiv.KhRef.Gen
deriving instance DecidableEq for Yuiv.KhRef.Cube
deriving instance DecidableEq for Yuiv.C19.ICube

namespace Yuiv.C19Comm
open Yuiv Yuiv.KhRef Yuiv.C19 Yuiv.C06Cycle Yuiv.C19Inv Yuiv.C04Inv

/-- the strongly invertible trefoil: the label map is `sinvEMap 6` on `1..6` -/
def tref : InvLink := ⟨#[⟨.X, #[1,5,2,4]⟩, ⟨.X, #[3,1,4,6]⟩, ⟨.X, #[5,3,6,2]⟩],
  #[(1,1),(2,6),(3,5),(4,4),(5,3),(6,2)], some 1⟩

theorem tref_emap : tref.emap = (Array.range 6).map (fun i => (i + 1, sinvEMap 6 (i + 1))) := by decide +kernel

def trefCirc : Array (Array (Array Nat)) :=
 #[#[#[1, 3, 5], #[2, 4, 6]], #[#[1, 2, 3, 4, 5, 6]], #[#[1, 2, 3, 4, 5, 6]], #[#[1, 4], #[2, 3, 5, 6]],
   #[#[1, 2, 3, 4, 5, 6]], #[#[1, 3, 4, 6], #[2, 5]], #[#[1, 2, 4, 5], #[3, 6]], #[#[1, 4], #[2, 5], #[3, 6]]]

/-- the involutive cube of the trefoil: τ exchanges the first two crossings -/
def trefIC (red : Bool) : ICube :=
  ⟨⟨3, trefCirc, if red then some 1 else none⟩, #[0, 2, 1, 3, 4, 6, 5, 7],
   #[#[0, 1], #[0], #[0], #[0, 1], #[0], #[0, 1], #[0, 1], #[0, 2, 1]]⟩

theorem qsortT : (#[1, 5, 2, 4, 3, 6] : Array Nat).qsort (· < ·) = #[1, 2, 3, 4, 5, 6] := by
  simp [Array.qsort, Array.qsort.sort, Array.qpartition, Array.qpartition.loop]

theorem tref_labels : edgeLabels tref.link = #[1, 2, 3, 4, 5, 6] := by
  rw [edgeLabels_eq, show preLabels tref.link = #[1, 5, 2, 4, 3, 6] by decide +kernel, qsortT]

theorem tref_cube (h t : Int) (red : Bool) :
    mkCube tref.link ⟨h, t, red⟩ = ⟨3, trefCirc, if red then some 1 else none⟩ := by
  show mkCube tref.link ⟨0, 0, red⟩ = _
  unfold mkCube
  rw [tref_labels]
  cases red <;> decide +kernel

/-- `mkICube` on the trefoil (any `h`, `t`; unreduced and reduced) -/
theorem tref_icube (h t : Int) (red : Bool) : mkICube tref ⟨h, t, red⟩ = some (trefIC red) := by
  show mkICube tref ⟨0, 0, red⟩ = _
  unfold mkICube
  rw [tref_cube]
  cases red <;> decide +kernel

/-- all generators of the cube `c` (in the reduced theory: those with the base circle labelled `X`) -/
def allGens (c : Cube) : List Gen := (List.range (2 ^ c.n)).flatMap (fun s => (c.gensAt s).toList)

/-- an involutive cube on which `icubeWf` holds although the circle correspondence at the state `0` exchanges the circles
`{2}` and `{3}`, of which only `{2}` takes part in the merge `{1},{2} → {1,2}` -/
def badIC : ICube := ⟨⟨1, #[#[#[1], #[2], #[3]], #[#[1, 2], #[3]]], none⟩, #[0, 1], #[#[0, 2, 1], #[0, 1]]⟩

end Yuiv.C19Comm
