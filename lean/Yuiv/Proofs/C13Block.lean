import Yuiv.Proofs.C13
/-
C13 — part 4: `divide4`, `combine_blocks`, `concat`, `stack`.
-/
namespace Yuiv.C13
open Yuiv Res

set_option linter.unusedSectionVars false
set_option linter.unusedSimpArgs false
set_option linter.unusedVariables false

variable {R : Type} [CommRing R] [DecidableEq R]

theorem cooFrom_ok (m n : Nat) (es : List (Trip R)) (h : ∀ t ∈ es, t.1 < m ∧ t.2.1 < n) :
    cooFrom m n es = ok (cooToCsc m n es) := by
  unfold cooFrom
  rw [if_pos]
  rw [List.all_eq_true]
  intro t ht
  simp [(h t ht).1, (h t ht).2]

/-- entries of a filtered and shifted-down triplet list -/
theorem entryT_filter_shift (ts : List (Trip R)) (P : Trip R → Bool) (g : Trip R → Trip R) (di dj i j : Nat)
    (hg : ∀ t, g t = (t.1 - di, t.2.1 - dj, t.2.2))
    (h1 : ∀ t ∈ ts, P t = true → di ≤ t.1 ∧ dj ≤ t.2.1)
    (h2 : ∀ t ∈ ts, t.1 = i + di ∧ t.2.1 = j + dj → P t = true) :
    entryT ((ts.filter P).map g) i j = entryT ts (i + di) (j + dj) := by
  induction ts with
  | nil => rfl
  | cons t ts ih =>
    have ih' := ih (fun u hu => h1 u (by simp [hu])) (fun u hu => h2 u (by simp [hu]))
    rw [List.filter_cons]
    by_cases hp : P t = true
    · rw [if_pos hp, List.map_cons, entryT_cons, entryT_cons, ih', hg]
      have := h1 t (by simp) hp
      have e : (t.1 - di = i ∧ t.2.1 - dj = j) ↔ (t.1 = i + di ∧ t.2.1 = j + dj) := by omega
      by_cases hc : t.1 = i + di ∧ t.2.1 = j + dj
      · rw [if_pos (e.mpr hc), if_pos hc]
      · rw [if_neg (fun x => hc (e.mp x)), if_neg hc]
    · rw [if_neg hp, entryT_cons, ih', if_neg (fun hc => hp (h2 t (by simp) hc))]; simp

theorem mem_filter_shift (ts : List (Trip R)) (P : Trip R → Bool) (g : Trip R → Trip R) (di dj : Nat)
    (hg : ∀ t, g t = (t.1 - di, t.2.1 - dj, t.2.2)) (u : Trip R)
    (hu : u ∈ (ts.filter P).map g) :
    ∃ t ∈ ts, P t = true ∧ u.1 = t.1 - di ∧ u.2.1 = t.2.1 - dj := by
  simp only [List.mem_map, List.mem_filter] at hu
  obtain ⟨t, ⟨ht, hp⟩, rfl⟩ := hu
  rw [hg]
  exact ⟨t, ht, hp, rfl, rfl⟩

/-- `divide4`: the four blocks of `A` at the split point `(k, l)` -/
theorem divide4_spec (A : SpMat R) (hA : A.WF) (k l : Nat) (hk : k ≤ A.nrows) (hl : l ≤ A.ncols) :
    ∃ a b c d, A.divide4 k l = ok (a, b, c, d) ∧
      (a.nrows = k ∧ a.ncols = l ∧ a.WF) ∧ (b.nrows = k ∧ b.ncols = A.ncols - l ∧ b.WF) ∧
      (c.nrows = A.nrows - k ∧ c.ncols = l ∧ c.WF) ∧ (d.nrows = A.nrows - k ∧ d.ncols = A.ncols - l ∧ d.WF) ∧
      (∀ i j, i < k → j < l → a.entry i j = A.entry i j) ∧
      (∀ i j, i < k → j < A.ncols - l → b.entry i j = A.entry i (l + j)) ∧
      (∀ i j, i < A.nrows - k → j < l → c.entry i j = A.entry (k + i) j) ∧
      (∀ i j, i < A.nrows - k → j < A.ncols - l → d.entry i j = A.entry (k + i) (l + j)) := by
  unfold SpMat.divide4
  simp only []
  rw [assert_true' (by simp [hk]), assert_true' (by simp [hl])]
  simp only [bind_ok]
  generalize hts : A.triplets.filter (fun t => t.2.2 ≠ 0) = ts
  have hb : ∀ t ∈ ts, t.1 < A.nrows ∧ t.2.1 < A.ncols := by
    intro t ht; rw [← hts] at ht; exact hA.trip_bound (List.mem_of_mem_filter ht)
  have hent : ∀ i j, entryT ts i j = A.entry i j := by
    intro i j; rw [← hts, entryT_filter_ne_zero, entryT_triplets]
  have hga : ∀ t : Trip R, id t = (t.1 - 0, t.2.1 - 0, t.2.2) := fun t => rfl
  have hgb : ∀ t : Trip R, (fun t : Trip R => (t.1, t.2.1 - l, t.2.2)) t = (t.1 - 0, t.2.1 - l, t.2.2) := fun t => rfl
  have hgc : ∀ t : Trip R, (fun t : Trip R => (t.1 - k, t.2.1, t.2.2)) t = (t.1 - k, t.2.1 - 0, t.2.2) := fun t => rfl
  have hgd : ∀ t : Trip R, (fun t : Trip R => (t.1 - k, t.2.1 - l, t.2.2)) t = (t.1 - k, t.2.1 - l, t.2.2) := fun t => rfl
  rw [← List.map_id (ts.filter (fun t => decide (t.1 < k) && decide (t.2.1 < l)))]
  have oka := cooFrom_ok k l ((ts.filter (fun t => decide (t.1 < k) && decide (t.2.1 < l))).map id) (by
    intro u hu
    obtain ⟨t, ht, hp, h1, h2⟩ := mem_filter_shift _ _ _ 0 0 hga u hu
    simp only [Bool.and_eq_true, decide_eq_true_eq] at hp
    omega)
  have okb := cooFrom_ok k (A.ncols - l) ((ts.filter (fun t => decide (t.1 < k) && !decide (t.2.1 < l))).map
      (fun t => (t.1, t.2.1 - l, t.2.2))) (by
    intro u hu
    obtain ⟨t, ht, hp, h1, h2⟩ := mem_filter_shift _ _ _ 0 l hgb u hu
    simp only [Bool.and_eq_true, decide_eq_true_eq, Bool.not_eq_true', decide_eq_false_iff_not] at hp
    have := hb t ht
    omega)
  have okc := cooFrom_ok (A.nrows - k) l ((ts.filter (fun t => !decide (t.1 < k) && decide (t.2.1 < l))).map
      (fun t => (t.1 - k, t.2.1, t.2.2))) (by
    intro u hu
    obtain ⟨t, ht, hp, h1, h2⟩ := mem_filter_shift _ _ _ k 0 hgc u hu
    simp only [Bool.and_eq_true, decide_eq_true_eq, Bool.not_eq_true', decide_eq_false_iff_not] at hp
    have := hb t ht
    omega)
  have okd := cooFrom_ok (A.nrows - k) (A.ncols - l) ((ts.filter (fun t => !decide (t.1 < k) && !decide (t.2.1 < l))).map
      (fun t => (t.1 - k, t.2.1 - l, t.2.2))) (by
    intro u hu
    obtain ⟨t, ht, hp, h1, h2⟩ := mem_filter_shift _ _ _ k l hgd u hu
    simp only [Bool.and_eq_true, decide_eq_true_eq, Bool.not_eq_true', decide_eq_false_iff_not] at hp
    have := hb t ht
    omega)
  rw [oka, okb, okc, okd]
  refine ⟨_, _, _, _, rfl, ⟨rfl, rfl, cooToCsc_wf _ _ _⟩, ⟨rfl, rfl, cooToCsc_wf _ _ _⟩,
    ⟨rfl, rfl, cooToCsc_wf _ _ _⟩, ⟨rfl, rfl, cooToCsc_wf _ _ _⟩, ?_, ?_, ?_, ?_⟩
  · intro i j hi hj
    rw [entry_cooToCsc, if_pos ⟨hi, hj⟩, entryT_filter_shift _ _ _ 0 0 i j hga, hent]
    · rfl
    · intro t _ _; omega
    · intro t _ ht; simp only [Bool.and_eq_true, decide_eq_true_eq]; omega
  · intro i j hi hj
    rw [entry_cooToCsc, if_pos ⟨hi, hj⟩, entryT_filter_shift _ _ _ 0 l i j hgb, hent, Nat.add_comm j l]
    · rfl
    · intro t _ hp
      simp only [Bool.and_eq_true, decide_eq_true_eq, Bool.not_eq_true', decide_eq_false_iff_not] at hp; omega
    · intro t _ ht
      simp only [Bool.and_eq_true, decide_eq_true_eq, Bool.not_eq_true', decide_eq_false_iff_not]; omega
  · intro i j hi hj
    rw [entry_cooToCsc, if_pos ⟨hi, hj⟩, entryT_filter_shift _ _ _ k 0 i j hgc, hent, Nat.add_comm i k]
    · rfl
    · intro t _ hp
      simp only [Bool.and_eq_true, decide_eq_true_eq, Bool.not_eq_true', decide_eq_false_iff_not] at hp; omega
    · intro t _ ht
      simp only [Bool.and_eq_true, decide_eq_true_eq, Bool.not_eq_true', decide_eq_false_iff_not]; omega
  · intro i j hi hj
    rw [entry_cooToCsc, if_pos ⟨hi, hj⟩, entryT_filter_shift _ _ _ k l i j hgd, hent, Nat.add_comm i k, Nat.add_comm j l]
    · intro t _ hp
      simp only [Bool.and_eq_true, decide_eq_true_eq, Bool.not_eq_true', decide_eq_false_iff_not] at hp; omega
    · intro t _ ht
      simp only [Bool.and_eq_true, decide_eq_true_eq, Bool.not_eq_true', decide_eq_false_iff_not]; omega

theorem divide4_reject (A : SpMat R) (k l : Nat) (h : ¬ (k ≤ A.nrows ∧ l ≤ A.ncols)) : A.divide4 k l = panic := by
  unfold SpMat.divide4
  simp only []
  by_cases hk : k ≤ A.nrows
  · have hl : ¬ l ≤ A.ncols := fun e => h ⟨hk, e⟩
    rw [assert_true' (by simp [hk]), assert_false' (by simp [hl])]; rfl
  · rw [assert_false' (by simp [hk])]; rfl

/-! ### `combine_blocks` -/

theorem entryT_shiftTrips (di dj : Nat) (ts : List (Trip R)) (i j : Nat) :
    entryT (shiftTrips di dj ts) i j = if di ≤ i ∧ dj ≤ j then entryT ts (i - di) (j - dj) else 0 := by
  induction ts with
  | nil => simp [shiftTrips]
  | cons t ts ih =>
    unfold shiftTrips at ih ⊢
    rw [List.map_cons, entryT_cons, ih]
    by_cases h : di ≤ i ∧ dj ≤ j
    · rw [if_pos h, if_pos h, entryT_cons]
      have e : (t.1 + di = i ∧ t.2.1 + dj = j) ↔ (t.1 = i - di ∧ t.2.1 = j - dj) := by omega
      by_cases hc : t.1 = i - di ∧ t.2.1 = j - dj
      · rw [if_pos (e.mpr hc), if_pos hc]
      · rw [if_neg (fun x => hc (e.mp x)), if_neg hc]
    · have h' : ¬ (t.1 + di = i ∧ t.2.1 + dj = j) := by omega
      rw [if_neg h, if_neg h', if_neg h]; simp

/-- `combine_blocks([a, b, c, d])`: the block matrix `[a b; c d]` -/
theorem combineBlocks_spec (a b c d : SpMat R) (ha : a.WF) (hb : b.WF) (hc : c.WF) (hd : d.WF)
    (h1 : a.nrows = b.nrows) (h2 : c.nrows = d.nrows) (h3 : a.ncols = c.ncols) (h4 : b.ncols = d.ncols) :
    ∃ C, combineBlocks a b c d = ok C ∧ C.nrows = a.nrows + c.nrows ∧ C.ncols = a.ncols + b.ncols ∧ C.WF ∧
      ∀ i j, i < a.nrows + c.nrows → j < a.ncols + b.ncols →
        C.entry i j = if i < a.nrows then (if j < a.ncols then a.entry i j else b.entry i (j - a.ncols))
                      else (if j < a.ncols then c.entry (i - a.nrows) j else d.entry (i - a.nrows) (j - a.ncols)) := by
  unfold combineBlocks
  rw [assert_true' (by simp [h1]), assert_true' (by simp [h2]), assert_true' (by simp [h3]), assert_true' (by simp [h4])]
  simp only [bind_ok]
  have hs : InShape (a.nrows + c.nrows) (a.ncols + b.ncols)
      (shiftTrips 0 0 a.triplets ++ shiftTrips 0 a.ncols b.triplets ++ shiftTrips a.nrows 0 c.triplets
        ++ shiftTrips a.nrows a.ncols d.triplets) := by
    intro t ht _
    simp only [shiftTrips, List.mem_append, List.mem_map] at ht
    rcases ht with ((⟨u, hu, rfl⟩ | ⟨u, hu, rfl⟩) | ⟨u, hu, rfl⟩) | ⟨u, hu, rfl⟩
    · have := ha.trip_bound hu; simp only; omega
    · have := hb.trip_bound hu; simp only; omega
    · have := hc.trip_bound hu; simp only; omega
    · have := hd.trip_bound hu; simp only; omega
  obtain ⟨e1, e2, e3, e4⟩ := fromEntries_spec _ _ _ _ (fromEntries_ok _ _ _ hs)
  refine ⟨_, fromEntries_ok _ _ _ hs, e1, e2, e3, ?_⟩
  intro i j hi hj
  rw [e4, if_pos ⟨hi, hj⟩]
  simp only [entryT_append, entryT_shiftTrips, entryT_triplets, Nat.zero_le, true_and, and_self, if_true, Nat.sub_zero]
  by_cases hi' : i < a.nrows <;> by_cases hj' : j < a.ncols
  · simp [hi', hj', Nat.not_le.mpr hi', Nat.not_le.mpr hj']
  · have : a.entry i j = 0 := ha.entry_oob i j (by omega)
    simp [hi', hj', Nat.not_le.mpr hi', Nat.le_of_not_lt hj', this]
  · have : a.entry i j = 0 := ha.entry_oob i j (by omega)
    simp [hi', hj', Nat.not_le.mpr hj', Nat.le_of_not_lt hi', this]
  · have h5 : a.entry i j = 0 := ha.entry_oob i j (by omega)
    have h6 : b.entry i (j - a.ncols) = 0 := hb.entry_oob _ _ (by omega)
    have h7 : c.entry (i - a.nrows) j = 0 := hc.entry_oob _ _ (by omega)
    simp [hi', hj', Nat.le_of_not_lt hj', Nat.le_of_not_lt hi', h5, h6, h7]

theorem combineBlocks_reject (a b c d : SpMat R)
    (h : ¬ (a.nrows = b.nrows ∧ c.nrows = d.nrows ∧ a.ncols = c.ncols ∧ b.ncols = d.ncols)) :
    combineBlocks a b c d = panic := by
  unfold combineBlocks
  by_cases h1 : a.nrows = b.nrows
  · rw [assert_true' (by simp [h1])]
    by_cases h2 : c.nrows = d.nrows
    · rw [assert_true' (by simp [h2])]
      by_cases h3 : a.ncols = c.ncols
      · rw [assert_true' (by simp [h3])]
        have h4 : ¬ b.ncols = d.ncols := fun e => h ⟨h1, h2, h3, e⟩
        rw [assert_false' (by simp [h4])]; rfl
      · rw [assert_false' (by simp [h3])]; rfl
    · rw [assert_false' (by simp [h2])]; rfl
  · rw [assert_false' (by simp [h1])]; rfl

/-! ### `concat`, `stack` -/

theorem zero_wf (m n : Nat) : (SpMat.zero m n : SpMat R).WF := by
  refine ⟨by simp [SpMat.zero], ?_, ?_⟩
  · intro c hc p hp
    simp only [SpMat.zero, List.mem_replicate] at hc
    rw [hc.2] at hp; cases hp
  · intro c hc
    simp only [SpMat.zero, List.mem_replicate] at hc
    rw [hc.2]; simp

theorem zero_entry (m n i j : Nat) : (SpMat.zero m n : SpMat R).entry i j = 0 := by
  unfold SpMat.entry SpMat.zero
  rw [List.getD_eq_getElem?_getD]
  cases h : (List.replicate n ([] : List (Nat × R)))[j]? with
  | none => rfl
  | some c =>
    have := List.mem_of_getElem? h
    rw [List.mem_replicate] at this
    rw [this.2]; rfl

/-- `concat`: `[A B]` -/
theorem concat_spec (A B : SpMat R) (hA : A.WF) (hB : B.WF) (h : A.nrows = B.nrows) :
    ∃ C, A.concat B = ok C ∧ C.nrows = A.nrows ∧ C.ncols = A.ncols + B.ncols ∧ C.WF ∧
      ∀ i j, i < A.nrows → j < A.ncols + B.ncols →
        C.entry i j = if j < A.ncols then A.entry i j else B.entry i (j - A.ncols) := by
  obtain ⟨C, h1, h2, h3, h4, h5⟩ := combineBlocks_spec A B (SpMat.zero 0 A.ncols) (SpMat.zero 0 B.ncols)
    hA hB (zero_wf _ _) (zero_wf _ _) h rfl rfl rfl
  refine ⟨C, h1, by simpa [SpMat.zero] using h2, h3, h4, ?_⟩
  intro i j hi hj
  rw [h5 i j (by simp [SpMat.zero]; omega) hj, if_pos hi]

theorem concat_reject (A B : SpMat R) (h : A.nrows ≠ B.nrows) : A.concat B = panic :=
  combineBlocks_reject _ _ _ _ (fun e => h e.1)

/-- `stack`: `[A; B]` -/
theorem stack_spec (A B : SpMat R) (hA : A.WF) (hB : B.WF) (h : A.ncols = B.ncols) :
    ∃ C, A.stack B = ok C ∧ C.nrows = A.nrows + B.nrows ∧ C.ncols = A.ncols ∧ C.WF ∧
      ∀ i j, i < A.nrows + B.nrows → j < A.ncols →
        C.entry i j = if i < A.nrows then A.entry i j else B.entry (i - A.nrows) j := by
  obtain ⟨C, h1, h2, h3, h4, h5⟩ := combineBlocks_spec A (SpMat.zero A.nrows 0) B (SpMat.zero B.nrows 0)
    hA (zero_wf _ _) hB (zero_wf _ _) rfl rfl h rfl
  refine ⟨C, h1, h2, by simpa [SpMat.zero] using h3, h4, ?_⟩
  intro i j hi hj
  rw [h5 i j hi (by simp [SpMat.zero]; omega)]
  simp [hj]

theorem stack_reject (A B : SpMat R) (h : A.ncols ≠ B.ncols) : A.stack B = panic :=
  combineBlocks_reject _ _ _ _ (fun e => h e.2.2.1)

/-! ### `divide4` and `combine_blocks` are inverse to each other on entries -/

theorem combine_divide4 (A : SpMat R) (hA : A.WF) (k l : Nat) (hk : k ≤ A.nrows) (hl : l ≤ A.ncols) :
    ∃ a b c d C, A.divide4 k l = ok (a, b, c, d) ∧ combineBlocks a b c d = ok C ∧
      C.nrows = A.nrows ∧ C.ncols = A.ncols ∧ ∀ i j, C.entry i j = A.entry i j := by
  obtain ⟨a, b, c, d, h0, ⟨a1, a2, a3⟩, ⟨b1, b2, b3⟩, ⟨c1, c2, c3⟩, ⟨d1, d2, d3⟩, ea, eb, ec, ed⟩ :=
    divide4_spec A hA k l hk hl
  obtain ⟨C, g1, g2, g3, g4, g5⟩ := combineBlocks_spec a b c d a3 b3 c3 d3 (by omega) (by omega) (by omega) (by omega)
  refine ⟨a, b, c, d, C, h0, g1, by omega, by omega, ?_⟩
  intro i j
  by_cases hij : i < A.nrows ∧ j < A.ncols
  · rw [g5 i j (by omega) (by omega), a1, a2]
    by_cases hi : i < k <;> by_cases hj : j < l
    · simp [hi, hj, ea i j hi hj]
    · simp only [hi, hj, if_true, if_false]; rw [eb i (j - l) hi (by omega)]; congr 1; omega
    · simp only [hi, hj, if_true, if_false]; rw [ec (i - k) j (by omega) hj]; congr 1; omega
    · simp only [hi, hj, if_false]; rw [ed (i - k) (j - l) (by omega) (by omega)]; congr 1 <;> omega
  · rw [g4.entry_oob i j (by omega), hA.entry_oob i j hij]

theorem divide4_combine (a b c d : SpMat R) (ha : a.WF) (hb : b.WF) (hc : c.WF) (hd : d.WF)
    (h1 : a.nrows = b.nrows) (h2 : c.nrows = d.nrows) (h3 : a.ncols = c.ncols) (h4 : b.ncols = d.ncols) :
    ∃ C a' b' c' d', combineBlocks a b c d = ok C ∧ C.divide4 a.nrows a.ncols = ok (a', b', c', d') ∧
      (∀ i j, a'.entry i j = a.entry i j) ∧ (∀ i j, b'.entry i j = b.entry i j) ∧
      (∀ i j, c'.entry i j = c.entry i j) ∧ (∀ i j, d'.entry i j = d.entry i j) := by
  obtain ⟨C, g1, g2, g3, g4, g5⟩ := combineBlocks_spec a b c d ha hb hc hd h1 h2 h3 h4
  obtain ⟨a', b', c', d', h0, ⟨a1, a2, a3⟩, ⟨b1, b2, b3⟩, ⟨c1, c2, c3⟩, ⟨d1, d2, d3⟩, ea, eb, ec, ed⟩ :=
    divide4_spec C g4 a.nrows a.ncols (by omega) (by omega)
  refine ⟨C, a', b', c', d', g1, h0, ?_, ?_, ?_, ?_⟩
  · intro i j
    by_cases hij : i < a.nrows ∧ j < a.ncols
    · rw [ea i j hij.1 hij.2, g5 i j (by omega) (by omega)]; simp [hij.1, hij.2]
    · rw [a3.entry_oob i j (by omega), ha.entry_oob i j hij]
  · intro i j
    by_cases hij : i < b.nrows ∧ j < b.ncols
    · rw [eb i j (by omega) (by omega), g5 i _ (by omega) (by omega)]; simp [h1, hij.1]
    · rw [b3.entry_oob i j (by omega), hb.entry_oob i j hij]
  · intro i j
    by_cases hij : i < c.nrows ∧ j < c.ncols
    · rw [ec i j (by omega) (by omega), g5 _ j (by omega) (by omega)]; simp [h3, hij.2]
    · rw [c3.entry_oob i j (by omega), hc.entry_oob i j hij]
  · intro i j
    by_cases hij : i < d.nrows ∧ j < d.ncols
    · rw [ed i j (by omega) (by omega), g5 _ _ (by omega) (by omega)]; simp
    · rw [d3.entry_oob i j (by omega), hd.entry_oob i j hij]

end Yuiv.C13
