import Yuiv.Proofs.C06CycleEdge
import Yuiv.Props.C06Canon
import Mathlib.Algebra.BigOperators.Ring.Finset
import Mathlib.Algebra.BigOperators.Group.Finset.Piecewise
import Mathlib.Tactic.Ring
import Mathlib.Tactic.LinearCombination
/-
C06Cycle — the algebra of one merge edge (helper, no property theorem here): the canonical chain ⊗(X or X − h),
summed over all labellings, is killed by the multiplication of two differently coloured factors, whatever the
bookkeeping of the other factors (`W`) is — as long as it does not look at the two merged factors.
-/
namespace Yuiv.C06Cycle
open Yuiv Yuiv.KhRef Yuiv.C06Canon
open Finset

/-! ### sums over the expansion -/

theorem sum_terms_eq (ts : List (Nat × Int)) (N : Nat) (hN : ∀ t ∈ ts, t.1 < N) (F : Nat → Int) :
    (ts.map (fun t => t.2 * F t.1)).sum = ∑ m ∈ range N, sumAt m ts * F m := by
  induction ts with
  | nil => simp [sumAt]
  | cons t ts ih =>
    simp only [List.map_cons, List.sum_cons, sumAt]
    rw [ih (fun t' ht' => hN t' (List.mem_cons_of_mem _ ht'))]
    simp only [add_mul, Finset.sum_add_distrib]
    congr 1
    rw [Finset.sum_eq_single t.1]
    · simp
    · intro b _ hb
      have : ¬ t.1 = b := fun e => hb e.symm
      simp [this]
    · intro hn
      exact absurd (Finset.mem_range.2 (hN t (by simp))) hn

/-- a sum over the canonical chain is the sum over all labelling masks with the product-formula coefficients -/
theorem sum_expand (h : Int) (cols : List Colour) (F : Nat → Int) :
    ((expand h cols).map (fun t => t.2 * F t.1)).sum = ∑ m ∈ range (2 ^ cols.length), coefSpec h cols m * F m := by
  rw [sum_terms_eq _ (2 ^ cols.length) (fun t ht => ((canon_expand_canonical h cols).2 t ht).2)]
  apply Finset.sum_congr rfl
  intro m _
  rw [sumAt_expand]

/-! ### bits -/

theorem tb_flip_same (m i : Nat) : (m ^^^ 1 <<< i).testBit i = !m.testBit i := by
  simp [Nat.testBit_xor, Nat.one_shiftLeft, Nat.testBit_two_pow]

theorem tb_flip_ne (m i j : Nat) (h : i ≠ j) : (m ^^^ 1 <<< i).testBit j = m.testBit j := by
  simp [Nat.testBit_xor, Nat.one_shiftLeft, Nat.testBit_two_pow, h]

theorem tb_or_ne (m i j : Nat) (h : i ≠ j) : (m ||| 1 <<< i).testBit j = m.testBit j := by
  simp [Nat.testBit_or, Nat.one_shiftLeft, Nat.testBit_two_pow, h]

theorem flip_lt (m i r : Nat) (hm : m < 2 ^ r) (hi : i < r) : m ^^^ 1 <<< i < 2 ^ r := by
  apply Nat.xor_lt_two_pow hm
  rw [Nat.one_shiftLeft]
  exact Nat.pow_lt_pow_right (by omega) hi

theorem flip_flip (m i : Nat) : (m ^^^ 1 <<< i) ^^^ 1 <<< i = m := by
  apply Nat.eq_of_testBit_eq
  intro j
  rw [Nat.testBit_xor, Nat.testBit_xor]
  cases m.testBit j <;> cases (1 <<< i).testBit j <;> rfl

theorem sum_flip (r i : Nat) (hi : i < r) (Φ : Nat → Int) :
    ∑ m ∈ range (2 ^ r), Φ (m ^^^ 1 <<< i) = ∑ m ∈ range (2 ^ r), Φ m := by
  apply Finset.sum_nbij' (fun m => m ^^^ 1 <<< i) (fun m => m ^^^ 1 <<< i)
  · intro m hm; exact Finset.mem_range.2 (flip_lt m i r (Finset.mem_range.1 hm) hi)
  · intro m hm; exact Finset.mem_range.2 (flip_lt m i r (Finset.mem_range.1 hm) hi)
  · intro m _; exact flip_flip m i
  · intro m _; exact flip_flip m i
  · intro m _; rfl

theorem or_flip_same (m i : Nat) : (m ^^^ 1 <<< i) ||| 1 <<< i = m ||| 1 <<< i := by
  apply Nat.eq_of_testBit_eq
  intro j
  by_cases h : i = j
  · subst h; simp [Nat.testBit_or, Nat.testBit_xor, Nat.one_shiftLeft, Nat.testBit_two_pow]
  · simp [Nat.testBit_or, Nat.testBit_xor, Nat.one_shiftLeft, Nat.testBit_two_pow, h]

theorem or_or_flip (m i j : Nat) : ((m ^^^ 1 <<< j) ||| 1 <<< i) ||| 1 <<< j = (m ||| 1 <<< i) ||| 1 <<< j := by
  apply Nat.eq_of_testBit_eq
  intro t
  by_cases h : j = t
  · subst h; simp [Nat.testBit_or, Nat.testBit_xor, Nat.one_shiftLeft, Nat.testBit_two_pow]
  · simp [Nat.testBit_or, Nat.testBit_xor, Nat.one_shiftLeft, Nat.testBit_two_pow, h]

/-! ### the product formula, one factor split off -/

theorem coefSpec_split (h : Int) : ∀ (cols : List Colour) (m i : Nat), i < cols.length →
    coefSpec h cols m = colourCoef h (cols.getD i .a) (m.testBit i) * coefSpec h cols (m ||| 1 <<< i) := by
  intro cols
  induction cols with
  | nil => intro m i hi; simp at hi
  | cons c cs ih =>
    intro m i hi
    cases i with
    | zero =>
      have e1 : ((m ||| 1 <<< 0) % 2 == 1) = true := by
        have : (m ||| 1 <<< 0).testBit 0 = true := by simp [Nat.testBit_or]
        rw [Nat.testBit_zero] at this
        simp at this ⊢
      have e2 : (m ||| 1 <<< 0) / 2 = m / 2 := by
        rw [Nat.or_div_two]; simp
      have e3 : (m % 2 == 1) = m.testBit 0 := by
        rcases Nat.mod_two_eq_zero_or_one m with h1 | h1 <;> simp [Nat.testBit_zero, h1]
      simp only [coefSpec, e1, e2, e3, List.getD_cons_zero, colourCoef, if_true]
      ring
    | succ i =>
      have hi' : i < cs.length := by simpa using hi
      have e1 : ((m ||| 1 <<< (i + 1)) % 2 == 1) = (m % 2 == 1) := by
        have := or_shift_succ_bit0 m i
        rw [Nat.testBit_zero, Nat.testBit_zero] at this
        rcases Nat.mod_two_eq_zero_or_one m with h1 | h1 <;>
          rcases Nat.mod_two_eq_zero_or_one (m ||| 1 <<< (i + 1)) with h2 | h2 <;> simp_all
      simp only [coefSpec, e1, or_shift_succ, List.getD_cons_succ, Nat.testBit_succ]
      rw [ih (m / 2) i hi']
      ring

/-- both factors split off; `R` does not see the two positions -/
theorem coefSpec_split2 (h : Int) (cols : List Colour) (m i1 i2 : Nat) (h12 : i1 ≠ i2) (h1 : i1 < cols.length)
    (h2 : i2 < cols.length) :
    coefSpec h cols m = colourCoef h (cols.getD i1 .a) (m.testBit i1) * colourCoef h (cols.getD i2 .a) (m.testBit i2) *
      coefSpec h cols ((m ||| 1 <<< i1) ||| 1 <<< i2) := by
  rw [coefSpec_split h cols m i1 h1, coefSpec_split h cols (m ||| 1 <<< i1) i2 h2, tb_or_ne m i1 i2 h12]
  ring

/-! ### the four labellings of the two merged circles -/

theorem four_eq (h : Int) (c1 c2 : Colour) (b1 b2 : Bool) (It If : Int) :
    colourCoef h c1 b1 * colourCoef h c2 b2 * (prodCoef h b1 b2 true * It + prodCoef h b1 b2 false * If) +
    colourCoef h c1 (!b1) * colourCoef h c2 b2 * (prodCoef h (!b1) b2 true * It + prodCoef h (!b1) b2 false * If) +
    colourCoef h c1 b1 * colourCoef h c2 (!b2) * (prodCoef h b1 (!b2) true * It + prodCoef h b1 (!b2) false * If) +
    colourCoef h c1 (!b1) * colourCoef h c2 (!b2) *
      (prodCoef h (!b1) (!b2) true * It + prodCoef h (!b1) (!b2) false * If)
    = It * mergeColours h c1 c2 true + If * mergeColours h c1 c2 false := by
  cases b1 <;> cases b2 <;> simp only [mergeColours, List.foldl, Bool.not_true, Bool.not_false] <;> ring

/-- THE ALGEBRA OF A MERGE: `W m b` is any weight of the target (label `b` on the merged circle) that does not depend
on the labels `m` carries at the two merged positions -/
theorem merge_sum_zero (h : Int) (cols : List Colour) (i1 i2 : Nat) (h12 : i1 ≠ i2) (h1 : i1 < cols.length)
    (h2 : i2 < cols.length) (hne : cols.getD i1 .a ≠ cols.getD i2 .a) (W : Nat → Bool → Int)
    (hW1 : ∀ m b, W (m ^^^ 1 <<< i1) b = W m b) (hW2 : ∀ m b, W (m ^^^ 1 <<< i2) b = W m b) :
    ∑ m ∈ range (2 ^ cols.length), coefSpec h cols m *
      (prodCoef h (m.testBit i1) (m.testBit i2) true * W m true +
       prodCoef h (m.testBit i1) (m.testBit i2) false * W m false) = 0 := by
  set Φ : Nat → Int := fun m => coefSpec h cols m *
      (prodCoef h (m.testBit i1) (m.testBit i2) true * W m true +
       prodCoef h (m.testBit i1) (m.testBit i2) false * W m false) with hΦ
  set S := ∑ m ∈ range (2 ^ cols.length), Φ m with hS
  have e1 : ∑ m ∈ range (2 ^ cols.length), Φ (m ^^^ 1 <<< i1) = S := sum_flip _ i1 h1 Φ
  have e2 : ∑ m ∈ range (2 ^ cols.length), Φ (m ^^^ 1 <<< i2) = S := sum_flip _ i2 h2 Φ
  have e3 : ∑ m ∈ range (2 ^ cols.length), Φ ((m ^^^ 1 <<< i2) ^^^ 1 <<< i1) = S :=
    (sum_flip _ i2 h2 (fun m => Φ (m ^^^ 1 <<< i1))).trans e1
  have pw : ∀ m, Φ m + Φ (m ^^^ 1 <<< i1) + Φ (m ^^^ 1 <<< i2) + Φ ((m ^^^ 1 <<< i2) ^^^ 1 <<< i1) = 0 := by
    intro m
    have form : ∀ m', Φ m' = colourCoef h (cols.getD i1 .a) (m'.testBit i1) *
        colourCoef h (cols.getD i2 .a) (m'.testBit i2) * coefSpec h cols ((m' ||| 1 <<< i1) ||| 1 <<< i2) *
        (prodCoef h (m'.testBit i1) (m'.testBit i2) true * W m' true +
         prodCoef h (m'.testBit i1) (m'.testBit i2) false * W m' false) := by
      intro m'
      simp only [hΦ]
      rw [coefSpec_split2 h cols m' i1 i2 h12 h1 h2]
    have h21 : i2 ≠ i1 := fun e => h12 e.symm
    have r1 : coefSpec h cols (((m ^^^ 1 <<< i1) ||| 1 <<< i1) ||| 1 <<< i2) =
        coefSpec h cols ((m ||| 1 <<< i1) ||| 1 <<< i2) := by rw [or_flip_same]
    have r2 : coefSpec h cols (((m ^^^ 1 <<< i2) ||| 1 <<< i1) ||| 1 <<< i2) =
        coefSpec h cols ((m ||| 1 <<< i1) ||| 1 <<< i2) := by rw [or_or_flip]
    have r3 : coefSpec h cols ((((m ^^^ 1 <<< i2) ^^^ 1 <<< i1) ||| 1 <<< i1) ||| 1 <<< i2) =
        coefSpec h cols ((m ||| 1 <<< i1) ||| 1 <<< i2) := by rw [or_flip_same, or_or_flip]
    rw [form m, form (m ^^^ 1 <<< i1), form (m ^^^ 1 <<< i2), form ((m ^^^ 1 <<< i2) ^^^ 1 <<< i1), r1, r2, r3]
    simp only [tb_flip_same, tb_flip_ne _ _ _ h12, tb_flip_ne _ _ _ h21, hW1, hW2]
    have key := four_eq h (cols.getD i1 .a) (cols.getD i2 .a) (m.testBit i1) (m.testBit i2) (W m true) (W m false)
    rw [mergeColours_zero h _ _ hne true, mergeColours_zero h _ _ hne false] at key
    linear_combination (coefSpec h cols ((m ||| 1 <<< i1) ||| 1 <<< i2)) * key
  have tot : ∑ m ∈ range (2 ^ cols.length),
      (Φ m + Φ (m ^^^ 1 <<< i1) + Φ (m ^^^ 1 <<< i2) + Φ ((m ^^^ 1 <<< i2) ^^^ 1 <<< i1)) = 0 :=
    Finset.sum_eq_zero (fun m _ => pw m)
  rw [Finset.sum_add_distrib, Finset.sum_add_distrib, Finset.sum_add_distrib, e1, e2, e3] at tot
  omega

/-! ### the terms of a merge edge -/

theorem termSum_append (y : Gen) (xs ys : List Term) : termSum y (xs ++ ys) = termSum y xs + termSum y ys := by
  simp [termSum, List.filter_append, List.map_append, List.sum_append]

theorem termSum_nil (y : Gen) : termSum y [] = 0 := rfl

/-- the coefficient of `y` in the image of one generator under a merge edge -/
theorem termSum_merge (h : Int) (x1 x2 : Bool) (y : Gen) (s' m0 j0 : Nat) (sign : Int) :
    termSum y ((prod h 0 x1 x2).filterMap (fun (ya : Bool × Int) =>
      if ya.2 != 0 then some ((⟨s', setBit m0 j0 ya.1⟩ : Gen), sign * ya.2) else none))
    = prodCoef h x1 x2 true * (if (⟨s', setBit m0 j0 true⟩ : Gen) == y then sign else 0) +
      prodCoef h x1 x2 false * (if (⟨s', setBit m0 j0 false⟩ : Gen) == y then sign else 0) := by
  cases x1 <;> cases x2
  · by_cases e : ((⟨s', setBit m0 j0 false⟩ : Gen) == y) = true <;>
      simp [prod, prodCoef, termSum, e]
  · by_cases e : ((⟨s', setBit m0 j0 true⟩ : Gen) == y) = true <;>
      simp [prod, prodCoef, termSum, e]
  · by_cases e : ((⟨s', setBit m0 j0 true⟩ : Gen) == y) = true <;>
      simp [prod, prodCoef, termSum, e]
  · by_cases h0 : h = 0 <;> by_cases e : ((⟨s', setBit m0 j0 true⟩ : Gen) == y) = true <;>
      simp [prod, prodCoef, termSum, e, h0, mul_comm]

end Yuiv.C06Cycle
