import Yuiv.Proofs.C04InvRen
import Yuiv.Proofs.C04InvPerm
/-
C04Reid (helper, no property theorem here): relation-level lemmas for the Reidemeister moves.
  * `classCount_collapse` : a map `f` of labels that is compatible with two pair lists `Q` (upstairs) and `P`
    (downstairs) and only identifies labels that are already connected upstairs induces a bijection of classes;
  * `classCount_insert_isolated` : a label not touched by any pair (except by pairs `(y, y)`) is a class of its own;
  * `skein_cons_unres`, `stateSum_perm_cons`, `stateSum_perm_cons2` : the state sum of a diagram whose crossing list
    is a permutation of `c :: lm` (resp. `c₁ :: c₂ :: lm`), expanded over the resolutions of the new crossing(s).
-/
open Yuiv.KhRef Yuiv.C04
namespace Yuiv.C04Inv
open Relation

theorem Conn.of_mem_symm {P : List (Nat × Nat)} {x y : Nat} (h : (y, x) ∈ P) : Conn P x y := (Conn.of_mem h).symm

/-- transport of connectivity along a map of labels, pair by pair -/
theorem Conn.lift {P Q : List (Nat × Nat)} (g : Nat → Nat) (h : ∀ p ∈ P, Conn Q (g p.1) (g p.2)) {x y : Nat}
    (c : Conn P x y) : Conn Q (g x) (g y) := by
  induction c with
  | rel x y r => exact h (x, y) r
  | refl x => exact Conn.refl _
  | symm x y _ ih => exact ih.symm
  | trans x y z _ _ ih1 ih2 => exact ih1.trans ih2

/-- COLLAPSE: `f` maps the label set `L'` onto `L`, maps every pair of `Q` to a `P`-connected pair, every pair of `P`
is `Q`-connected, and `f` only moves a label inside its `Q`-class.  Then `Q` on `L'` and `P` on `L` have the same
number of classes. -/
theorem classCount_collapse (f : Nat → Nat) {L' L : Set Nat} {Q P : List (Nat × Nat)}
    (h1 : ∀ p ∈ Q, Conn P (f p.1) (f p.2))
    (h2 : ∀ p ∈ P, Conn Q p.1 p.2)
    (h3 : ∀ a ∈ L', Conn Q a (f a))
    (h4 : f '' L' = L) : classCount L' Q = classCount L P := by
  unfold classCount
  let F : Quotient (connSetoid Q) → Quotient (connSetoid P) :=
    Quotient.map f (fun a b hab => Conn.lift f h1 hab)
  have e : Quotient.mk (connSetoid P) '' L = F '' (Quotient.mk (connSetoid Q) '' L') := by
    rw [← h4, Set.image_image, Set.image_image]
    rfl
  rw [e]
  symm
  apply Set.InjOn.ncard_image
  rintro _ ⟨a, ha, rfl⟩ _ ⟨b, hb, rfl⟩ hab
  have c : Conn P (f a) (f b) := Quotient.exact hab
  apply Quotient.sound
  exact (h3 a ha).trans ((Conn.lift id h2 c).trans (h3 b hb).symm)

/-- the special case used for the moves: `Q = A ++ S`, `P = B ++ S`, where `g` fixes the end points of `S` -/
theorem classCount_collapse_append (g : Nat → Nat) {L' L : Set Nat} {A B S : List (Nat × Nat)}
    (hS : ∀ p ∈ S, g p.1 = p.1 ∧ g p.2 = p.2)
    (hA : ∀ p ∈ A, Conn B (g p.1) (g p.2))
    (hB : ∀ p ∈ B, Conn A p.1 p.2)
    (h3 : ∀ v ∈ L', Conn A v (g v))
    (h4 : g '' L' = L) : classCount L' (A ++ S) = classCount L (B ++ S) := by
  have mA : ∀ {u v}, Conn A u v → Conn (A ++ S) u v := fun c => Conn.mono (fun p hp => List.mem_append_left _ hp) c
  have mB : ∀ {u v}, Conn B u v → Conn (B ++ S) u v := fun c => Conn.mono (fun p hp => List.mem_append_left _ hp) c
  refine classCount_collapse g ?_ ?_ (fun v hv => mA (h3 v hv)) h4
  · intro p hp
    rcases List.mem_append.mp hp with hp | hp
    · exact mB (hA p hp)
    · rw [(hS p hp).1, (hS p hp).2]; exact Conn.of_mem (List.mem_append_right _ hp)
  · intro p hp
    rcases List.mem_append.mp hp with hp | hp
    · exact mA (hB p hp)
    · exact Conn.of_mem (List.mem_append_right _ hp)

/-- a label `y ∉ L` that occurs in the pair list only in pairs `(y, y)` is a class of its own -/
theorem classCount_insert_isolated {L : Set Nat} (hfin : L.Finite) {P : List (Nat × Nat)} {y : Nat} (hy : y ∉ L)
    (hP : ∀ p ∈ P, (p.1 = y ↔ p.2 = y)) : classCount (insert y L) P = classCount L P + 1 := by
  unfold classCount
  rw [Set.image_insert_eq, Set.ncard_insert_of_notMem _ (hfin.image _)]
  rintro ⟨a, ha, e⟩
  have c : Conn P a y := Quotient.exact e
  have key : ∀ u v, Conn P u v → (u = y ↔ v = y) := by
    intro u v c
    induction c with
    | rel u v r => exact hP (u, v) r
    | refl u => exact Iff.rfl
    | symm u v _ ih => exact ih.symm
    | trans u v w _ _ ih1 ih2 => exact ih1.trans ih2
  exact hy (((key a y c).mpr rfl) ▸ ha)

theorem labelSet_finite (l : Link) : (labelSet l).Finite := by
  have : labelSet l = {x | x ∈ (edgeLabels l).toList} := by
    ext x; simp [labelSet, mem_edgeLabels]
  rw [this]; exact List.finite_toSet _

/-- labels of a diagram whose crossing list is a permutation of `c :: lm` -/
theorem labelSet_perm_cons {l' lm : Link} {c : Crossing} (hp : l'.toList.Perm (c :: lm.toList)) :
    labelSet l' = {v | v ∈ c.e} ∪ labelSet lm := by
  ext v
  simp only [labelSet, Set.mem_ofPred_eq, Set.mem_union]
  constructor
  · rintro ⟨d, hd, hv⟩
    have : d ∈ c :: lm.toList := hp.mem_iff.mp (by simpa using hd)
    rcases List.mem_cons.mp this with rfl | h
    · exact Or.inl hv
    · exact Or.inr ⟨d, by simpa using h, hv⟩
  · rintro (hv | ⟨d, hd, hv⟩)
    · exact ⟨c, by simpa using hp.mem_iff.mpr List.mem_cons_self, hv⟩
    · exact ⟨d, by simpa using hp.mem_iff.mpr (List.mem_cons_of_mem _ (by simpa using hd)), hv⟩

theorem WF_of_perm_cons {l' lm : Link} {c : Crossing} (hp : l'.toList.Perm (c :: lm.toList)) (hc : c.e.size = 4)
    (hwf : WF lm) : WF l' := by
  intro d hd
  have : d ∈ c :: lm.toList := hp.mem_iff.mp (by simpa using hd)
  rcases List.mem_cons.mp this with rfl | h
  · exact hc
  · exact hwf d (by simpa using h)

variable {R : Type} [CommRing R]

theorem skein_cons_unres (L : Set Nat) (x y : R) (c : Crossing) (cs : List Crossing) (w : Nat) (P : List (Nat × Nat))
    (hc : c.ct.isResolved = false) :
    skein L x y (c :: cs) w P =
      skein L x y cs w (P ++ arcs c (c.ct.resolve false)) + skein L x y cs (w + 1) (P ++ arcs c (c.ct.resolve true)) := by
  simp [skein, hc]

/-- the sum over the states of `lm` with extra weight `w` and extra arcs `A` -/
noncomputable def partSum (L : Set Nat) (x y : R) (lm : Link) (w : Nat) (A : List (Nat × Nat)) : R :=
  ∑ s ∈ Finset.range (2 ^ crossingNum lm), x ^ (w + popcount s (crossingNum lm)) * y ^ classCount L (A ++ statePairs lm s)

theorem partSum_eq_skein (L : Set Nat) (x y : R) (lm : Link) (w : Nat) (A : List (Nat × Nat)) :
    partSum L x y lm w A = skein L x y lm.toList w A := by
  unfold partSum statePairs
  rw [crossingNum_eq, stateSum_eq_skein]

/-- the state sum of the model for a diagram whose crossing list is a permutation of `c :: lm`, `c` unresolved -/
theorem stateSum_perm_cons (x y : R) {l' lm : Link} {c : Crossing} (hwf : WF l')
    (hp : l'.toList.Perm (c :: lm.toList)) (hc : c.ct.isResolved = false) :
    sumRange (2 ^ crossingNum l') (fun s => npow x (popcount s (crossingNum l')) * npow y (circleCount l' s))
      = partSum (labelSet l') x y lm 0 (arcs c (c.ct.resolve false))
        + partSum (labelSet l') x y lm 1 (arcs c (c.ct.resolve true)) := by
  rw [stateSum_link x y l' hwf, skein_perm _ x y hp 0 [], skein_cons_unres _ x y c _ 0 [] hc,
    partSum_eq_skein, partSum_eq_skein]
  simp

/-- … of `c₁ :: c₂ :: lm`, both unresolved -/
theorem stateSum_perm_cons2 (x y : R) {l' lm : Link} {c₁ c₂ : Crossing} (hwf : WF l')
    (hp : l'.toList.Perm (c₁ :: c₂ :: lm.toList)) (h₁ : c₁.ct.isResolved = false) (h₂ : c₂.ct.isResolved = false) :
    sumRange (2 ^ crossingNum l') (fun s => npow x (popcount s (crossingNum l')) * npow y (circleCount l' s))
      = partSum (labelSet l') x y lm 0 (arcs c₁ (c₁.ct.resolve false) ++ arcs c₂ (c₂.ct.resolve false))
        + partSum (labelSet l') x y lm 1 (arcs c₁ (c₁.ct.resolve false) ++ arcs c₂ (c₂.ct.resolve true))
        + (partSum (labelSet l') x y lm 1 (arcs c₁ (c₁.ct.resolve true) ++ arcs c₂ (c₂.ct.resolve false))
        + partSum (labelSet l') x y lm 2 (arcs c₁ (c₁.ct.resolve true) ++ arcs c₂ (c₂.ct.resolve true))) := by
  rw [stateSum_link x y l' hwf, skein_perm _ x y hp 0 [], skein_cons_unres _ x y c₁ _ 0 [] h₁,
    skein_cons_unres _ x y c₂ _ 0 _ h₂, skein_cons_unres _ x y c₂ _ (0 + 1) _ h₂,
    partSum_eq_skein, partSum_eq_skein, partSum_eq_skein, partSum_eq_skein]
  simp

/-- the state sum of a diagram as a `partSum` without extra arcs -/
theorem stateSum_partSum (x y : R) (l : Link) (hwf : WF l) :
    sumRange (2 ^ crossingNum l) (fun s => npow x (popcount s (crossingNum l)) * npow y (circleCount l s))
      = partSum (labelSet l) x y l 0 [] := by
  rw [stateSum_link x y l hwf, partSum_eq_skein]

/-- if the class counts with the extra arcs `A` are those of the reference `(L₀, B, l₀)` shifted by `k`, the partial
sums differ by the factor `x^w · y^k` -/
theorem partSum_shift (L L₀ : Set Nat) (x y : R) (lm l₀ : Link) (w k : Nat) (A B : List (Nat × Nat))
    (hn : crossingNum l₀ = crossingNum lm)
    (h : ∀ s, classCount L (A ++ statePairs lm s) = classCount L₀ (B ++ statePairs l₀ s) + k) :
    partSum L x y lm w A = x ^ w * y ^ k * partSum L₀ x y l₀ 0 B := by
  unfold partSum
  rw [Finset.mul_sum, hn]
  apply Finset.sum_congr rfl
  intro s _
  rw [h s]
  ring

end Yuiv.C04Inv
