import Yuiv.Proofs.KhiSpecReduce
/-
KhiSpec — the two loops of `khiHomology` with an early `return` (differential table, `D∘D` check) do not exit under
the corresponding hypotheses; the resulting differential table.
-/
namespace Yuiv.KhiSpec
open Yuiv Yuiv.KhRef Yuiv.C19 Yuiv.C06Cycle

/-- the differential table after the loop -/
def dmapOf (c : Cube) (p : Params) (kgens : Array (Array Gen)) : DMap :=
  kgens.foldl (fun dm gs => gs.foldl (fun dm g => dm.insert g ((c.d p g).getD #[])) dm) ∅

theorem dmapK_noexit (c : Cube) (p : Params) (kgens : Array (Array Gen)) (k : DMap → Id Res)
    (hd : ∀ gs ∈ kgens, ∀ g ∈ gs, (c.d p g).isSome = true) : dmapK c p kgens k = k (dmapOf c p kgens) := by
  unfold dmapK
  dsimp only
  rw [forIn_array_noexit (ρ := Res) kgens _
    (fun dm gs => gs.foldl (fun dm g => dm.insert g ((c.d p g).getD #[])) dm) ?h]
  case h =>
    intro gs hgs s
    rw [forIn_array_noexit (ρ := Res) gs _ (fun dm g => dm.insert g ((c.d p g).getD #[])) ?h2]
    case h2 =>
      intro g hg s'
      obtain ⟨ts, hts⟩ := Option.isSome_iff_exists.1 (hd gs hgs g hg)
      simp only [hts, Option.getD_some]
    rfl
  rfl

theorem ddK_noexit (dI : IGen → Array IGen) (gens : Array (Array IGen)) (k : Id Res)
    (hdd : ∀ gs ∈ gens, ∀ x ∈ gs, (reduce2 ((reduce2 (dI x)).flatMap (fun y => reduce2 (dI y)))).size = 0) :
    ddK dI gens k = k := by
  unfold ddK
  rw [forIn_array_noexit (ρ := Res) gens _ (fun u _ => u) ?h]
  case h =>
    intro gs hgs s
    rw [forIn_array_noexit (ρ := Res) gs _ (fun u _ => u) ?h2]
    case h2 =>
      intro x hx s'
      simp only [hdd gs hgs x hx]
      rfl
    rfl
  rfl

end Yuiv.KhiSpec
