import Yuiv.Proofs.C06CycleEdge
/-
C01Sq — geometry of ONE cube edge of a valid diagram, with slots that depend on the crossing only (helper).

`EG L P P' p q r u`: `P`, `P'` are the arc pair lists of a state `t` (crossing `k` 0-resolved) and of `t ||| 1 <<< k`;
`p, q, r, u` are the four slots of the crossing; `p—q`, `r—u` are its arcs in `t`, `p—u`, `q—r` in the neighbour.
  * M: if `p`, `r` lie on different circles of `t`, the neighbour's relation is that of `t` with the two classes merged;
  * S: if `p`, `r` lie on different circles of the neighbour, the relation of `t` is the neighbour's with the two merged;
  * E: if they lie on one circle in both, the two relations coincide (a 1 → 1 edge; only for non-planar codes).
`edge_geom`: for a valid diagram the slots can be chosen once for every crossing, the same for all states.
-/
namespace Yuiv.C01Sq
open Yuiv Yuiv.KhRef Yuiv.C04Inv Yuiv.C06Cycle
open Relation

/-- the geometry of one edge -/
structure EG (L : Array Nat) (P P' : List (Nat × Nat)) (p q r u : Nat) : Prop where
  lp : p ∈ L
  lq : q ∈ L
  lr : r ∈ L
  lu : u ∈ L
  a0 : Conn P p q
  a0' : Conn P r u
  a1 : Conn P' p u
  a1' : Conn P' q r
  M : ¬ Conn P p r → ∀ x y, Conn P' x y ↔ Conn P x y ∨ ((Conn P x p ∨ Conn P x r) ∧ (Conn P y p ∨ Conn P y r))
  S : ¬ Conn P' p r → ∀ x y, Conn P x y ↔ Conn P' x y ∨ ((Conn P' x p ∨ Conn P' x r) ∧ (Conn P' y p ∨ Conn P' y r))
  E : Conn P p r → Conn P' p r → ∀ x y, Conn P x y ↔ Conn P' x y

/-- the roles of the two arcs can be exchanged -/
theorem EG.swap {L : Array Nat} {P P' : List (Nat × Nat)} {p q r u : Nat} (h : EG L P P' p q r u) :
    EG L P P' r u p q := by
  have s : ∀ {Q : List (Nat × Nat)} {x y : Nat}, Conn Q x y → Conn Q y x := fun hc => hc.symm
  refine ⟨h.lr, h.lu, h.lp, h.lq, h.a0', h.a0, s h.a1', s h.a1, ?_, ?_, ?_⟩
  · intro hn x y
    rw [h.M (fun c => hn (s c)) x y]
    constructor
    · rintro (h1 | ⟨h1, h2⟩)
      · exact Or.inl h1
      · exact Or.inr ⟨h1.symm, h2.symm⟩
    · rintro (h1 | ⟨h1, h2⟩)
      · exact Or.inl h1
      · exact Or.inr ⟨h1.symm, h2.symm⟩
  · intro hn x y
    rw [h.S (fun c => hn (s c)) x y]
    constructor
    · rintro (h1 | ⟨h1, h2⟩)
      · exact Or.inl h1
      · exact Or.inr ⟨h1.symm, h2.symm⟩
    · rintro (h1 | ⟨h1, h2⟩)
      · exact Or.inl h1
      · exact Or.inr ⟨h1.symm, h2.symm⟩
  · intro h1 h2
    exact h.E (s h1) (s h2)

/-! ### the `k`-th unresolved crossing, independently of the state -/

def kth : List Crossing → Nat → Option (Nat × Crossing)
  | [], _ => none
  | c :: cs, k =>
    if c.ct.isResolved then (kth cs k).map (fun jc => (jc.1 + 1, jc.2))
    else match k with
      | 0 => some (0, c)
      | k + 1 => (kth cs k).map (fun jc => (jc.1 + 1, jc.2))

theorem kth_some (cs : List Crossing) (k : Nat) (hk : k < unres cs) : ∃ jc, kth cs k = some jc := by
  induction cs generalizing k with
  | nil => simp [unres] at hk
  | cons c cs ih =>
    by_cases hc : c.ct.isResolved = true
    · have hk' : k < unres cs := by simpa [unres, List.filter_cons, hc] using hk
      obtain ⟨jc, h⟩ := ih k hk'
      exact ⟨(jc.1 + 1, jc.2), by simp [kth, hc, h]⟩
    · have hc' : c.ct.isResolved = false := by simpa using hc
      cases k with
      | zero => exact ⟨(0, c), by simp [kth, hc']⟩
      | succ k =>
        have hk' : k < unres cs := by
          simp only [unres, List.filter_cons, hc', Bool.not_false, if_true, List.length_cons] at hk
          unfold unres; omega
        obtain ⟨jc, h⟩ := ih k hk'
        exact ⟨(jc.1 + 1, jc.2), by simp [kth, hc', h]⟩

/-- `resTypes_flip` with the crossing given by `kth` (the same for every state) -/
theorem resTypes_flip' (cs : List Crossing) (s k : Nat) (j : Nat) (c : Crossing) (hkth : kth cs k = some (j, c))
    (hb : s.testBit k = false) :
    cs[j]? = some c ∧ c.ct.isResolved = false ∧
      (resTypes cs s)[j]? = some (c.ct.resolve false) ∧
      (resTypes cs (s ||| 1 <<< k))[j]? = some (c.ct.resolve true) ∧
      ∀ j', j' ≠ j → (resTypes cs (s ||| 1 <<< k))[j']? = (resTypes cs s)[j']? := by
  induction cs generalizing s k j with
  | nil => simp [kth] at hkth
  | cons c0 cs ih =>
    by_cases hc : c0.ct.isResolved = true
    · simp only [kth, hc, if_true, Option.map_eq_some_iff] at hkth
      obtain ⟨⟨j0, c1⟩, h0, h1⟩ := hkth
      simp only [Prod.mk.injEq] at h1
      obtain ⟨rfl, rfl⟩ := h1
      obtain ⟨h1, h2, h3, h4, h5⟩ := ih s k j0 h0 hb
      refine ⟨by simpa using h1, h2, ?_, ?_, ?_⟩
      · simpa [resTypes, hc] using h3
      · simpa [resTypes, hc] using h4
      · intro j' hj'
        cases j' with
        | zero => simp [resTypes, hc]
        | succ j' =>
          have := h5 j' (by omega)
          simpa [resTypes, hc] using this
    · have hc' : c0.ct.isResolved = false := by simpa using hc
      cases k with
      | zero =>
        simp only [kth, hc', Bool.false_eq_true, if_false, Option.some.injEq, Prod.mk.injEq] at hkth
        obtain ⟨rfl, rfl⟩ := hkth
        refine ⟨rfl, hc', ?_, ?_, ?_⟩
        · simp [resTypes, hc', hb]
        · have : (s ||| 1 <<< 0).testBit 0 = true := by simp [Nat.testBit_or]
          simp [resTypes, hc', this]
        · intro j' hj'
          cases j' with
          | zero => exact absurd rfl hj'
          | succ j' =>
            have e : (s ||| 1) / 2 = s / 2 := by
              rw [Nat.or_div_two]; simp
            simp [resTypes, hc', e]
      | succ k =>
        simp only [kth, hc', Bool.false_eq_true, if_false, Option.map_eq_some_iff] at hkth
        obtain ⟨⟨j0, c1⟩, h0, h1⟩ := hkth
        simp only [Prod.mk.injEq] at h1
        obtain ⟨rfl, rfl⟩ := h1
        have hb' : (s / 2).testBit k = false := by
          rw [← Nat.testBit_succ]; exact hb
        obtain ⟨h1, h2, h3, h4, h5⟩ := ih (s / 2) k j0 h0 hb'
        refine ⟨by simpa using h1, h2, ?_, ?_, ?_⟩
        · simpa [resTypes, hc'] using h3
        · simpa [resTypes, hc', or_shift_succ] using h4
        · intro j' hj'
          cases j' with
          | zero => simp [resTypes, hc', or_shift_succ_bit0]
          | succ j' =>
            have := h5 j' (by omega)
            simpa [resTypes, hc', or_shift_succ] using this

/-! ### the relation of the neighbour is contained in the relation of `t` when all four slots lie on one circle -/

theorem conn_flip_sub (cs : List Crossing) (ts ts' : List CT) (j : Nat) (x : Crossing) (t1 : CT) (a b c d : Nat)
    (hx : cs[j]? = some x) (h1 : ts'[j]? = some t1)
    (hsame : ∀ j', j' ≠ j → ts'[j']? = ts[j']?)
    (hs1 : ∀ p ∈ arcs x t1, p = (a, d) ∨ p = (d, a) ∨ p = (b, c) ∨ p = (c, b))
    (hab : Conn (pairsL cs ts) a b) (hcd : Conn (pairsL cs ts) c d) (hac : Conn (pairsL cs ts) a c) :
    ∀ u v, Conn (pairsL cs ts') u v → Conn (pairsL cs ts) u v := by
  intro u v h
  induction h with
  | refl x => exact Conn.refl x
  | symm x y _ ih => exact ih.symm
  | trans x y z _ _ ih1 ih2 => exact ih1.trans ih2
  | rel x' y' hr =>
    unfold pairRel at hr
    rw [mem_pairsL_iff] at hr
    obtain ⟨j', c', t', e1, e2, e3⟩ := hr
    by_cases hj : j' = j
    · subst hj
      rw [hx] at e1; rw [h1] at e2
      cases e1; cases e2
      rcases hs1 _ e3 with e | e | e | e <;> cases e
      · exact hac.trans hcd
      · exact (hac.trans hcd).symm
      · exact hab.symm.trans hac
      · exact (hab.symm.trans hac).symm
    · exact Conn.of_mem ((mem_pairsL_iff _ _ _).2 ⟨j', c', t', e1, by rw [← hsame j' hj]; exact e2, e3⟩)

/-! ### the edge geometry of a valid diagram -/

theorem edge_geom (l : Link) (hv : validK l = true) (k : Nat) (hk : k < crossingNum l) :
    ∃ p q r u, ∀ t, t.testBit k = false →
      EG (edgeLabels l) (statePairs l t) (statePairs l (t ||| 1 <<< k)) p q r u := by
  obtain ⟨hwf, hcnt⟩ := validK_spec l hv
  rw [crossingNum_eq_unres] at hk
  obtain ⟨⟨j, x⟩, hkth⟩ := kth_some l.toList k hk
  have hx0 : l.toList[j]? = some x := by
    have hb0 : (0 : Nat).testBit k = false := by simp
    exact (resTypes_flip' l.toList 0 k j x hkth hb0).1
  have hxl : x ∈ l := by
    have := List.mem_of_getElem? hx0
    simpa using this
  have h4 := hwf x hxl
  have hwf' : ∀ c ∈ l.toList, c.e.size = 4 := fun c hc => hwf c (by simpa using hc)
  have e4 := toList4 x.e h4
  have hlab : ∀ i, i < 4 → x.e[i]! ∈ edgeLabels l := by
    intro i hi
    refine (mem_edgeLabels l _).2 ⟨x, hxl, ?_⟩
    rw [getElem!_pos x.e i (by omega)]
    exact Array.getElem_mem _
  -- the generic statement, for the slot names (a, b, c, d) of `conn_flip_core`
  have main : ∀ (t0 t1 : CT) (a b c d : Nat), x.ct.resolve false = t0 → x.ct.resolve true = t1 →
      a ∈ edgeLabels l → b ∈ edgeLabels l → c ∈ edgeLabels l → d ∈ edgeLabels l →
      x.e.toList.Perm [a, b, c, d] →
      (∀ p ∈ arcs x t0, p = (a, b) ∨ p = (b, a) ∨ p = (c, d) ∨ p = (d, c)) →
      (∀ p ∈ arcs x t1, p = (a, d) ∨ p = (d, a) ∨ p = (b, c) ∨ p = (c, b)) →
      ((a, b) ∈ arcs x t0 ∨ (b, a) ∈ arcs x t0) → ((c, d) ∈ arcs x t0 ∨ (d, c) ∈ arcs x t0) →
      ((a, d) ∈ arcs x t1 ∨ (d, a) ∈ arcs x t1) → ((c, b) ∈ arcs x t1 ∨ (b, c) ∈ arcs x t1) →
      ∀ t, t.testBit k = false → EG (edgeLabels l) (statePairs l t) (statePairs l (t ||| 1 <<< k)) a b c d := by
    intro t0 t1 a b c d ht0 ht1 la lb lc ld hperm hs0 hs1 hab hcd had hcb t hb
    obtain ⟨hx, hxr, h0, h1, hsame⟩ := resTypes_flip' l.toList t k j x hkth hb
    rw [ht0] at h0; rw [ht1] at h1
    have hlen : l.toList.length = (resTypes l.toList t).length := (resTypes_length _ _).symm
    have hlen' : l.toList.length = (resTypes l.toList (t ||| 1 <<< k)).length := (resTypes_length _ _).symm
    have hres := resTypes_resolved l.toList t
    have hres' := resTypes_resolved l.toList (t ||| 1 <<< k)
    have fwd := conn_flip_core l.toList _ _ j x t0 t1 a b c d hwf' hcnt hres hlen hx h0 h1 hsame hperm hs0 hs1
      hab hcd had
    have hperm' : x.e.toList.Perm [a, d, c, b] := hperm.trans (perm4 a b c d)
    have bwd := conn_flip_core l.toList _ _ j x t1 t0 a d c b hwf' hcnt hres' hlen' hx h1 h0
      (fun j' hj' => (hsame j' hj').symm) hperm'
      (by intro p hp; rcases hs1 p hp with e | e | e | e <;> simp [e])
      (by intro p hp; rcases hs0 p hp with e | e | e | e <;> simp [e])
      had hcb hab
    unfold statePairs
    obtain ⟨f1, f2, f3⟩ := fwd
    obtain ⟨b1, b2, b3⟩ := bwd
    refine ⟨la, lb, lc, ld, f1, f2, b1, b2.symm, f3, b3, ?_⟩
    intro hac hac' u v
    constructor
    · exact conn_flip_sub l.toList _ _ j x t0 a d c b hx h0 (fun j' hj' => (hsame j' hj').symm)
        (by intro p hp; rcases hs0 p hp with e | e | e | e <;> simp [e]) b1 b2 hac' u v
    · exact conn_flip_sub l.toList _ _ j x t1 a b c d hx h1 hsame hs1 f1 f2 hac u v
  have hxr : x.ct.isResolved = false := (resTypes_flip' l.toList 0 k j x hkth (by simp)).2.1
  cases hct : x.ct with
  | V => rw [hct] at hxr; cases hxr
  | H => rw [hct] at hxr; cases hxr
  | X =>
    refine ⟨x.e[0]!, x.e[1]!, x.e[2]!, x.e[3]!, ?_⟩
    exact main .H .V _ _ _ _ (by rw [hct]; rfl) (by rw [hct]; rfl) (hlab 0 (by omega)) (hlab 1 (by omega))
      (hlab 2 (by omega)) (hlab 3 (by omega)) (by rw [e4])
      (by intro p hp; rw [arcs_H] at hp; simp at hp; rcases hp with rfl | rfl <;> simp)
      (by intro p hp; rw [arcs_V] at hp; simp at hp; rcases hp with rfl | rfl <;> simp)
      (by rw [arcs_H]; simp) (by rw [arcs_H]; simp) (by rw [arcs_V]; simp) (by rw [arcs_V]; simp)
  | Xm =>
    refine ⟨x.e[0]!, x.e[3]!, x.e[2]!, x.e[1]!, ?_⟩
    exact main .V .H _ _ _ _ (by rw [hct]; rfl) (by rw [hct]; rfl) (hlab 0 (by omega)) (hlab 3 (by omega))
      (hlab 2 (by omega)) (hlab 1 (by omega)) (by rw [e4]; exact perm4 _ _ _ _)
      (by intro p hp; rw [arcs_V] at hp; simp at hp; rcases hp with rfl | rfl <;> simp)
      (by intro p hp; rw [arcs_H] at hp; simp at hp; rcases hp with rfl | rfl <;> simp)
      (by rw [arcs_V]; simp) (by rw [arcs_V]; simp) (by rw [arcs_H]; simp) (by rw [arcs_H]; simp)

end Yuiv.C01Sq
