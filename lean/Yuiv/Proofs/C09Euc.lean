import Yuiv.Proofs.C09Term
/-
C09 — Smith normal form over an ABSTRACT lawful Euclidean operation record.

`LawfulEuc e φ`: the operations `e : EOps α` compute, through the interpretation `φ : α → K`, in a commutative
domain `K`, and satisfy exactly the facts the ℤ proofs (`Proofs/C09Shape2.lean`, `Proofs/C09Term.lean`) used of
`Int.tdiv/tmod/natAbs`, of `normalizing_unit = sign` and of `extended_gcd`:

 * `inv` succeeds on every value of `normUnit` (so `normUnit a` is a unit);
 * `normUnit` respects `φ`, `a · normUnit a` is normalised, and two normalised associates are equal;
 * `isUnit` decides unit-ness;
 * `a = (a / b)·b + a % b` and `size (a % b) < size b` for `b ≠ 0`; `size a ≤ size b` for `a ∣ b ≠ 0`;
 * `gcdx x y = (d, s, t)`: `d = s·x + t·y`, `d ∣ x`, `d ∣ y`, `d` normalised.

This file: the structure, the derived ring facts (`%` decides divisibility, `/` is exact on multiples, a proper
divisor is strictly smaller, the specification of the local wrapper `SnfCalc::gcdx`), and the ℤ instance.
-/
set_option linter.unusedSectionVars false
namespace Yuiv.C09
open Yuiv

variable {α K : Type} [CommRing K] [IsDomain K]

/-- a lawful Euclidean operation record without the facts about `gcdx` (see the header) -/
structure LawfulEucBase (e : EOps α) (φ : α → K) : Prop extends LawfulE e φ where
  /-- `mul_row/mul_col` are only ever called with a `normalizing_unit`: `inv` must succeed on it -/
  inv_normUnit : ∀ a, ∃ v, e.inv (e.normUnit a) = some v
  normUnit_congr : ∀ a b, φ a = φ b → φ (e.normUnit a) = φ (e.normUnit b)
  /-- `a · normalizing_unit(a)` is normalised -/
  norm_mul : ∀ a, φ (e.normUnit (e.mul a (e.normUnit a))) = 1
  /-- normalised associates are equal -/
  norm_unique : ∀ a b, φ (e.normUnit a) = 1 → φ (e.normUnit b) = 1 → φ a ∣ φ b → φ b ∣ φ a → φ a = φ b
  isUnit_iff : ∀ a, e.isUnit a = true ↔ IsUnit (φ a)
  div_rem : ∀ a b, φ b ≠ 0 → φ a = φ (e.quo a b) * φ b + φ (e.rem a b)
  size_rem : ∀ a b, φ b ≠ 0 → e.size (e.rem a b) < e.size b
  size_dvd : ∀ a b, φ b ≠ 0 → φ a ∣ φ b → e.size a ≤ e.size b

/-- a lawful Euclidean operation record (see the header) -/
structure LawfulEuc (e : EOps α) (φ : α → K) : Prop extends LawfulEucBase e φ where
  gcdx_bezout : ∀ x y, φ (e.gcdx x y).1 = φ (e.gcdx x y).2.1 * φ x + φ (e.gcdx x y).2.2 * φ y
  gcdx_dvd : ∀ x y, φ (e.gcdx x y).1 ∣ φ x ∧ φ (e.gcdx x y).1 ∣ φ y
  /-- the gcd handed out is normalised -/
  gcdx_norm : ∀ x y, φ (e.normUnit (e.gcdx x y).1) = 1

namespace LawfulEucBase
variable {e : EOps α} {φ : α → K} (L : LawfulEucBase e φ)
include L

theorem lawful : Lawful e.toROps φ := L.toLawfulE.toLawful

theorem isZero_iff (a : α) : e.isZero a = true ↔ φ a = 0 := C09.isZero_iff L.lawful a

theorem isZero_false (a : α) : e.isZero a = false ↔ φ a ≠ 0 := by
  rw [← Bool.not_eq_true, L.isZero_iff]

theorem isOne_iff (a : α) : e.isOne a = true ↔ φ a = 1 := C09.isOne_iff L.lawful a

theorem phi_zero : φ e.zero = 0 := L.lawful.zero
theorem phi_one : φ e.one = 1 := L.lawful.one
theorem phi_add (a b : α) : φ (e.add a b) = φ a + φ b := L.lawful.add a b
theorem phi_mul (a b : α) : φ (e.mul a b) = φ a * φ b := L.lawful.mul a b
theorem phi_neg (a : α) : φ (e.neg a) = - φ a := L.lawful.neg a

theorem normUnit_isUnit (a : α) : IsUnit (φ (e.normUnit a)) := by
  obtain ⟨v, hv⟩ := L.inv_normUnit a
  exact IsUnit.of_mul_eq_one _ (L.inv_mul _ _ hv)

theorem normUnit_ne_zero (a : α) : φ (e.normUnit a) ≠ 0 := (L.normUnit_isUnit a).ne_zero

/-- `a % b = 0 ↔ b ∣ a` (for `b ≠ 0`) -/
theorem rem_eq_zero_iff (a b : α) (hb : φ b ≠ 0) : φ (e.rem a b) = 0 ↔ φ b ∣ φ a := by
  have h := L.div_rem a b hb
  constructor
  · intro hr
    rw [h, hr, add_zero]
    exact dvd_mul_left _ _
  · intro hd
    by_contra hr
    have hdr : φ b ∣ φ (e.rem a b) := by
      have : φ (e.rem a b) = φ a - φ (e.quo a b) * φ b := by linear_combination -h
      rw [this]
      exact dvd_sub hd (dvd_mul_left _ _)
    have h1 := L.size_dvd b (e.rem a b) hr hdr
    have h2 := L.size_rem a b hb
    omega

/-- `EucRing::divides` decides divisibility by a non-zero element -/
theorem dvd_iff (a b : α) : e.dvd a b = true ↔ φ a ≠ 0 ∧ φ a ∣ φ b := by
  unfold EOps.dvd
  rw [Bool.and_eq_true, Bool.not_eq_true', L.isZero_false, L.isZero_iff]
  constructor
  · rintro ⟨h1, h2⟩; exact ⟨h1, (L.rem_eq_zero_iff b a h1).1 h2⟩
  · rintro ⟨h1, h2⟩; exact ⟨h1, (L.rem_eq_zero_iff b a h1).2 h2⟩

/-- `/` is exact on multiples -/
theorem quo_mul (x d : α) (hd : φ d ≠ 0) (h : φ d ∣ φ x) : φ x = φ (e.quo x d) * φ d := by
  have h1 := L.div_rem x d hd
  rw [(L.rem_eq_zero_iff x d hd).2 h, add_zero] at h1
  exact h1

/-- a divisor with a non-unit cofactor is strictly smaller -/
theorem size_lt_of_nonunit (x a d : α) (hx : φ x = φ a * φ d) (hx0 : φ x ≠ 0) (hu : ¬ IsUnit (φ a)) :
    e.size d < e.size x := by
  have hd0 : φ d ≠ 0 := by
    intro h; rw [h, mul_zero] at hx; exact hx0 hx
  have h := L.div_rem d x hx0
  have hs := L.size_rem d x hx0
  rw [hx] at h
  by_cases hr : φ (e.rem d x) = 0
  · exfalso; apply hu
    rw [hr, add_zero] at h
    have h1 : φ d * (φ a * φ (e.quo d x)) = φ d * 1 := by linear_combination -h
    exact IsUnit.of_mul_eq_one _ (mul_left_cancel₀ hd0 h1)
  · have hdr : φ d ∣ φ (e.rem d x) := ⟨1 - φ (e.quo d x) * φ a, by linear_combination -h⟩
    have := L.size_dvd d (e.rem d x) hr hdr
    omega

/-- a divisor `d ∣ x` that `x` does not divide is strictly smaller -/
theorem size_lt_of_dvd_not_dvd (x d : α) (hx0 : φ x ≠ 0) (h : φ d ∣ φ x) (hn : ¬ φ x ∣ φ d) :
    e.size d < e.size x := by
  have hd0 : φ d ≠ 0 := by
    intro h0; rw [h0] at h; exact hx0 (zero_dvd_iff.1 h)
  have hq := L.quo_mul x d hd0 h
  refine L.size_lt_of_nonunit x _ d hq hx0 ?_
  intro hu
  apply hn
  rw [hq, hu.mul_left_dvd]

theorem size_congr (a b : α) (h : φ a = φ b) (hb : φ b ≠ 0) : e.size a = e.size b := by
  have h1 := L.size_dvd a b hb (by rw [h])
  have h2 := L.size_dvd b a (by rw [h]; exact hb) (by rw [h])
  omega

theorem isNorm_iff (a : α) : e.isNorm a = true ↔ φ (e.normUnit a) = 1 := by
  unfold EOps.isNorm; exact L.isOne_iff _

end LawfulEucBase

namespace LawfulEuc
variable {e : EOps α} {φ : α → K} (L : LawfulEuc e φ)
include L

omit L in
theorem gcdxW_eq (e : EOps α) (x y : α) : gcdxW e x y =
    if e.isUnit (e.quo x (e.gcdx x y).1) = true then ((e.gcdx x y).1, e.quo x (e.gcdx x y).1, e.zero)
    else e.gcdx x y := rfl

/-- **the local wrapper `SnfCalc::gcdx`** on a non-zero pivot `x` that is normalised (the situation inside
`eliminate_at`) or does not divide `y` (the situation in `diag_normalize_step`): with `(d, s, t)` its result,
`a = x / d`, `b = y / d`:  `d ≠ 0` is normalised, `x = a·d`, `y = b·d`, `s·a + t·b = 1`, and either `t = 0`
(nothing is re-filled) or `d` is strictly smaller than `x` -/
theorem gcdxW_data (x y : α) (hx : φ x ≠ 0) (hn : φ (e.normUnit x) = 1 ∨ ¬ φ x ∣ φ y) :
    φ (gcdxW e x y).1 ≠ 0 ∧ φ (e.normUnit (gcdxW e x y).1) = 1 ∧
    φ x = φ (e.quo x (gcdxW e x y).1) * φ (gcdxW e x y).1 ∧
    φ y = φ (e.quo y (gcdxW e x y).1) * φ (gcdxW e x y).1 ∧
    φ (gcdxW e x y).2.1 * φ (e.quo x (gcdxW e x y).1) + φ (gcdxW e x y).2.2 * φ (e.quo y (gcdxW e x y).1) = 1 ∧
    (φ (gcdxW e x y).2.2 = 0 ∨ e.size (gcdxW e x y).1 < e.size x) := by
  have hb := L.gcdx_bezout x y
  obtain ⟨hdx, hdy⟩ := L.gcdx_dvd x y
  have hN := L.gcdx_norm x y
  have hd0 : φ (e.gcdx x y).1 ≠ 0 := by
    intro h; rw [h] at hdx; exact hx (zero_dvd_iff.1 hdx)
  have hqa := L.quo_mul x _ hd0 hdx
  have hqb := L.quo_mul y _ hd0 hdy
  rw [gcdxW_eq]
  split
  · rename_i hu
    rw [L.isUnit_iff] at hu
    simp only
    have ha1 : φ (e.quo x (e.gcdx x y).1) = 1 := by
      rcases hn with hn | hn
      · have hxd : φ x ∣ φ (e.gcdx x y).1 := by
          obtain ⟨u, hu'⟩ := hu
          refine ⟨↑u⁻¹, ?_⟩
          rw [hqa, ← hu']
          have : (↑u : K) * ↑u⁻¹ = 1 := Units.mul_inv u
          linear_combination (-(φ (e.gcdx x y).1)) * this
        have heq := L.norm_unique _ _ hn hN hxd hdx
        have : φ (e.gcdx x y).1 * φ (e.quo x (e.gcdx x y).1) = φ (e.gcdx x y).1 * 1 := by
          linear_combination heq - hqa
        exact mul_left_cancel₀ hd0 this
      · exfalso; apply hn
        have hxd : φ x ∣ φ (e.gcdx x y).1 := by
          obtain ⟨u, hu'⟩ := hu
          refine ⟨↑u⁻¹, ?_⟩
          rw [hqa, ← hu']
          have : (↑u : K) * ↑u⁻¹ = 1 := Units.mul_inv u
          linear_combination (-(φ (e.gcdx x y).1)) * this
        exact dvd_trans hxd hdy
    refine ⟨hd0, hN, hqa, hqb, ?_, Or.inl L.phi_zero⟩
    rw [ha1, L.phi_zero]; ring
  · rename_i hu
    rw [L.isUnit_iff] at hu
    refine ⟨hd0, hN, hqa, hqb, ?_, Or.inr (L.size_lt_of_nonunit x _ _ hqa hx hu)⟩
    have : φ (e.gcdx x y).1 * (φ (e.gcdx x y).2.1 * φ (e.quo x (e.gcdx x y).1)
        + φ (e.gcdx x y).2.2 * φ (e.quo y (e.gcdx x y).1)) = φ (e.gcdx x y).1 * 1 := by
      linear_combination (-(φ (e.gcdx x y).2.1)) * hqa + (-(φ (e.gcdx x y).2.2)) * hqb - hb
    exact mul_left_cancel₀ hd0 this

/-- the `debug_assert!((a*d - b*c).is_one())` of `left/right_elementary` holds for `[s, t; -b, a]` -/
theorem det_ok (x y : α) (hx : φ x ≠ 0) (hn : φ (e.normUnit x) = 1 ∨ ¬ φ x ∣ φ y) :
    detIsOne e.toROps (gcdxW e x y).2.1 (gcdxW e x y).2.2
      (e.neg (e.quo y (gcdxW e x y).1)) (e.quo x (gcdxW e x y).1) = true := by
  obtain ⟨_, _, _, _, g4, _⟩ := L.gcdxW_data x y hx hn
  rw [detIsOne_iff L.lawful, L.phi_neg]
  linear_combination g4

end LawfulEuc

/-- "normalised" as a predicate on `K` -/
def NormalisedIn (e : EOps α) (φ : α → K) (x : K) : Prop := ∃ a, φ a = x ∧ φ (e.normUnit a) = 1

/-! ### ℤ is an instance -/

theorem lawfulEuc_int : LawfulEuc intOps (id : Int → Int) where
  toLawfulE := lawfulE_int
  inv_normUnit a := by
    rw [int_normUnit, int_inv]
    split <;> exact ⟨_, rfl⟩
  normUnit_congr a b h := by
    simp only [id] at h; subst h; rfl
  norm_mul a := by
    simp only [id, int_normUnit, int_mul]
    split <;> split <;> omega
  norm_unique a b ha hb h1 h2 := by
    simp only [id, int_normUnit] at ha hb h1 h2 ⊢
    have ha' : 0 ≤ a := by
      by_contra hlt; rw [if_pos (by omega)] at ha; omega
    have hb' : 0 ≤ b := by
      by_contra hlt; rw [if_pos (by omega)] at hb; omega
    exact Int.dvd_antisymm ha' hb' h1 h2
  isUnit_iff a := by
    rw [int_isUnit, id, Int.isUnit_iff]
  div_rem a b _ := by
    simp only [id, int_quo, int_rem]
    have := Int.tmod_add_mul_tdiv a b
    linarith
  size_rem a b hb := by
    show (a.tmod b).natAbs < b.natAbs
    rw [Int.natAbs_tmod]
    exact Nat.mod_lt _ (Int.natAbs_pos.2 hb)
  size_dvd a b hb h := by
    show a.natAbs ≤ b.natAbs
    exact Nat.le_of_dvd (Int.natAbs_pos.2 hb) (Int.natAbs_dvd_natAbs.2 h)
  gcdx_bezout x y := (intGcdx_spec x y).1
  gcdx_dvd x y := (intGcdx_spec x y).2.2
  gcdx_norm x y := by
    have h := (intGcdx_spec x y).2.1
    show intOps.normUnit (intGcdx x y).1 = 1
    rw [int_normUnit, if_neg (by omega)]

end Yuiv.C09
