import Yuiv.Proofs.C06CycleDefs
/-
C06Cycle — `KhRef.circles` meets `CirclesSpec` (helper, no property theorem here).

  * `circles_eq`   : loop-free functional form of the whole output of `KhRef.circles` (strengthens
    `C04Inv.circles_size`): one list `circL labels comp r` per root `r` of the final component array;
  * `spec_of_inv`  : for ANY component array satisfying the union-find invariant `C04Inv.Inv` over duplicate-free
    labels, that output satisfies `CirclesSpec`;
  * `circles_spec` : hence for every well-formed link and every state `s`;
  * `CirclesSpec.mem_labels / conn_of_mem / mem_of_conn` : consequences of `CirclesSpec` alone.
-/
namespace Yuiv.C06Cycle
open Yuiv Yuiv.KhRef Yuiv.C04Inv

/-! ### the output loops of `circles` as filter/map -/

theorem out_loop {γ} (rs : List Nat) (p : Nat → Prop) [DecidablePred p] (g : Nat → Id γ) (out : Array γ) :
    (forIn rs out (fun r out => if p r then (fun a => ForInStep.yield (out.push a)) <$> g r
        else pure (ForInStep.yield out))).run
      = out ++ ((rs.filter (fun r => decide (p r))).map (fun r => (g r).run)).toArray := by
  induction rs generalizing out with
  | nil => simp
  | cons r rs ih =>
    by_cases hp : p r
    · simp [hp, ih]
    · simp [hp, ih]

theorem in_loop (xs : List Nat) (p : Nat → Prop) [DecidablePred p] (f : Nat → Nat) (out : Array Nat) :
    (forIn xs out (fun x (out : Array Nat) => if p x then (pure (ForInStep.yield (out.push (f x))) : Id _)
        else pure (ForInStep.yield out))).run
      = out ++ ((xs.filter (fun x => decide (p x))).map f).toArray := by
  induction xs generalizing out with
  | nil => simp
  | cons r rs ih =>
    by_cases hp : p r
    · simp [hp, ih]
    · simp [hp, ih]

/-- the circle of the root `r` as a list -/
def circL (labels comp : Array Nat) (r : Nat) : List Nat :=
  ((List.range' 0 labels.size).filter (fun x => decide (comp[x]! = r))).map (fun x => labels[x]!)

/-- functional form of the output of `KhRef.circles` -/
theorem circles_eq (l : Link) (labels : Array Nat) (s : Nat) :
    circles l labels s =
      ((roots (unionAll l labels (resolvedTypes l s)) labels.size).map
        (fun r => (circL labels (unionAll l labels (resolvedTypes l s)) r).toArray)).toArray := by
  unfold circles
  simp
  generalize hc : Id.run (List.foldlM (m := Id) (s := Array Nat) (α := Nat) _ (Array.range labels.size) (List.range' 0 (Array.size l))) = comp
  have h := out_loop (List.range' 0 labels.size) (fun r => comp[r]! = r)
    (fun r => forIn (List.range' 0 labels.size) #[] fun x (out : Array Nat) =>
              if comp[x]! = r then pure (ForInStep.yield (out.push labels[x]!)) else pure (ForInStep.yield out)) #[]
  have hg : ∀ r, (forIn (m := Id) (List.range' 0 labels.size) #[] fun x (out : Array Nat) =>
              if comp[x]! = r then pure (ForInStep.yield (out.push labels[x]!)) else pure (ForInStep.yield out)).run
            = (circL labels comp r).toArray := by
    intro r
    have := in_loop (List.range' 0 labels.size) (fun x => comp[x]! = r) (fun x => labels[x]!) #[]
    simpa [circL] using this
  rw [h]
  simp only [hg, Array.empty_append]
  have : comp = unionAll l labels (resolvedTypes l s) := by
    subst hc
    rw [id_foldlM]
    unfold unionAll
    congr 1
    funext comp i
    unfold unionStep
    rw [id_forIn_yield (g := fun x comp => mergeStep comp (indexOf labels l[i]!.e[x.1]!) (indexOf labels l[i]!.e[x.2]!))]
    · rfl
    · intro x c
      unfold mergeStep
      split
      · rfl
      · rename_i hne
        by_cases hlt : c[indexOf labels l[i]!.e[x.1]!]! < c[indexOf labels l[i]!.e[x.2]!]!
        · simp only [hlt, if_true]; rw [Nat.max_eq_right (Nat.le_of_lt hlt), Nat.min_eq_left (Nat.le_of_lt hlt)]
        · simp only [hlt, if_false]; rw [Nat.max_eq_left (by omega), Nat.min_eq_right (by omega)]
  rw [this]
  rfl

/-! ### the circles are the classes of the arc relation -/

theorem toList_eq_range_map (labels : Array Nat) :
    labels.toList = (List.range' 0 labels.size).map (fun x => labels[x]!) := by
  apply List.ext_getElem
  · simp
  · intro i h1 h2
    simp at h1
    simp [getElem!_pos, h1]

theorem circL_eq_filter {labels comp : Array Nat} (hnd : labels.toList.Nodup) (r : Nat) :
    circL labels comp r = labels.toList.filter (fun y => decide (comp[indexOf labels y]! = r)) := by
  unfold circL
  conv => rhs; rw [toList_eq_range_map labels, List.filter_map]
  congr 1
  apply List.filter_congr
  intro x hx
  have hx' : x < labels.size := by simpa [List.mem_range'] using hx
  simp [Function.comp, indexOf_getElem labels hnd x hx']

theorem mem_circL {labels comp : Array Nat} (hnd : labels.toList.Nodup) (r y : Nat) :
    y ∈ circL labels comp r ↔ y ∈ labels ∧ comp[indexOf labels y]! = r := by
  rw [circL_eq_filter hnd]; simp

theorem inv_conn_iff {labels comp : Array Nat} {P : List (Nat × Nat)} (h : Inv labels comp P)
    (hnd : labels.toList.Nodup) {x y : Nat} (hx : x < labels.size) (hy : y < labels.size) :
    comp[x]! = comp[y]! ↔ Conn P labels[x]! labels[y]! := by
  constructor
  · intro e
    have h1 := h.conn x hx
    have h2 := h.conn y hy
    rw [e] at h1
    exact h1.symm.trans h2
  · intro c
    have := h.eq_of_conn c
    rwa [indexOf_getElem labels hnd x hx, indexOf_getElem labels hnd y hy] at this

theorem mem_roots (comp : Array Nat) (m r : Nat) : r ∈ roots comp m ↔ r < m ∧ comp[r]! = r := by
  simp [roots, List.mem_range']

theorem roots_nodup (comp : Array Nat) (m : Nat) : (roots comp m).Nodup :=
  (List.nodup_range' (step := 1) (by omega)).filter _

theorem spec_of_inv {labels comp : Array Nat} {P : List (Nat × Nat)} (h : Inv labels comp P)
    (hnd : labels.toList.Nodup) :
    CirclesSpec labels P ((roots comp labels.size).map (fun r => (circL labels comp r).toArray)).toArray := by
  have hsz : (((roots comp labels.size).map (fun r => (circL labels comp r).toArray)).toArray).size
      = (roots comp labels.size).length := by simp
  have hget : ∀ i (hi : i < (roots comp labels.size).length),
      (((roots comp labels.size).map (fun r => (circL labels comp r).toArray)).toArray)[i]!
        = (circL labels comp (roots comp labels.size)[i]).toArray := by
    intro i hi
    rw [getElem!_pos _ i (by simpa using hi)]
    simp
  have hmem : ∀ r < labels.size, labels[r]! ∈ labels := by
    intro r hr; rw [getElem!_pos labels r hr]; exact Array.getElem_mem hr
  refine ⟨?_, ?_, ?_⟩
  · intro i hi
    rw [hsz] at hi
    obtain ⟨hr, hcr⟩ := (mem_roots _ _ _).mp (List.getElem_mem hi)
    refine ⟨labels[(roots comp labels.size)[i]]!, hmem _ hr,
      fun y => decide (comp[indexOf labels y]! = (roots comp labels.size)[i]), ?_, ?_⟩
    · rw [hget i hi]; exact circL_eq_filter hnd _
    · intro y hy
      obtain ⟨hj, hjy⟩ := indexOf_spec labels y hy
      rw [decide_eq_true_iff]
      conv => lhs; rhs; rw [← hcr]
      rw [inv_conn_iff h hnd hj hr, hjy]
      exact ⟨Conn.symm, Conn.symm⟩
  · intro i j hi hj x y hx hy c
    rw [hsz] at hi hj
    rw [hget i hi] at hx
    rw [hget j hj] at hy
    have hx' := ((mem_circL hnd _ _).mp (by simpa using hx)).2
    have hy' := ((mem_circL hnd _ _).mp (by simpa using hy)).2
    have := h.eq_of_conn c
    rw [hx', hy'] at this
    exact ((roots_nodup comp labels.size).getElem_inj_iff).mp this
  · intro x hx
    obtain ⟨hi, hxi⟩ := indexOf_spec labels x hx
    have hlt := h.lt _ hi
    have hr := h.eq_of_conn (h.conn _ hi)
    rw [indexOf_getElem labels hnd _ hlt, indexOf_getElem labels hnd _ hi] at hr
    obtain ⟨k, hk, hkr⟩ := List.getElem_of_mem ((mem_roots comp labels.size _).mpr ⟨hlt, hr⟩)
    refine ⟨k, by rw [hsz]; exact hk, ?_⟩
    rw [hget k hk, hkr]
    simpa using (mem_circL hnd _ _).mpr ⟨hx, rfl⟩

/-- `KhRef.circles` returns, for a well-formed link and every state, the classes of the edge labels under the arc
relation of that state (each class in the order of `edgeLabels`, no class twice, every label on a circle) -/
theorem circles_spec (l : Link) (hwf : C04Inv.WF l) (s : Nat) :
    CirclesSpec (edgeLabels l) (C04Inv.statePairs l s) (circles l (edgeLabels l) s) := by
  have hinv : Inv (edgeLabels l) (unionAll l (edgeLabels l) (resolvedTypes l s)) (statePairs l s) := by
    rw [unionAll_eq _ _ _ (resolvedTypes_size l s).symm, resolvedTypes_toList]
    have := (Inv.init (edgeLabels l)).fold (statePairs l s) (fun p hp => by
      obtain ⟨c, hc, h1, h2⟩ := mem_pairsL (fun c hc => hwf c (by simpa using hc)) hp
      exact ⟨(mem_edgeLabels l _).mpr ⟨c, by simpa using hc, h1⟩, (mem_edgeLabels l _).mpr ⟨c, by simpa using hc, h2⟩⟩)
    simpa [statePairs] using this
  rw [circles_eq]
  exact spec_of_inv hinv (edgeLabels_nodup l)

/-! ### consequences of `CirclesSpec` alone -/

theorem CirclesSpec.mem_labels {labels : Array Nat} {P : List (Nat × Nat)} {cs : Array (Array Nat)}
    (h : CirclesSpec labels P cs) {i x : Nat} (hi : i < cs.size) (hx : x ∈ cs[i]!) : x ∈ labels := by
  obtain ⟨x0, _, p, hp, _⟩ := h.rep i hi
  have : x ∈ (cs[i]!).toList := by simpa using hx
  rw [hp] at this
  simpa using (List.mem_filter.mp this).1

theorem CirclesSpec.conn_of_mem {labels : Array Nat} {P : List (Nat × Nat)} {cs : Array (Array Nat)}
    (h : CirclesSpec labels P cs) {i x y : Nat} (hi : i < cs.size) (hx : x ∈ cs[i]!) (hy : y ∈ cs[i]!) :
    C04Inv.Conn P x y := by
  obtain ⟨x0, _, p, hp, hc⟩ := h.rep i hi
  have hx' : x ∈ (cs[i]!).toList := by simpa using hx
  have hy' : y ∈ (cs[i]!).toList := by simpa using hy
  rw [hp] at hx' hy'
  obtain ⟨hxl, hpx⟩ := List.mem_filter.mp hx'
  obtain ⟨hyl, hpy⟩ := List.mem_filter.mp hy'
  exact ((hc x (by simpa using hxl)).mp hpx).symm.trans ((hc y (by simpa using hyl)).mp hpy)

theorem CirclesSpec.mem_of_conn {labels : Array Nat} {P : List (Nat × Nat)} {cs : Array (Array Nat)}
    (h : CirclesSpec labels P cs) {i x y : Nat} (hi : i < cs.size) (hx : x ∈ cs[i]!) (hy : y ∈ labels)
    (hc : C04Inv.Conn P x y) : y ∈ cs[i]! := by
  obtain ⟨x0, _, p, hp, hq⟩ := h.rep i hi
  have hx' : x ∈ (cs[i]!).toList := by simpa using hx
  rw [hp] at hx'
  obtain ⟨hxl, hpx⟩ := List.mem_filter.mp hx'
  have hpy := (hq y hy).mpr (((hq x (by simpa using hxl)).mp hpx).trans hc)
  have : y ∈ (cs[i]!).toList := by
    rw [hp]; exact List.mem_filter.mpr ⟨by simpa using hy, hpy⟩
  simpa using this

end Yuiv.C06Cycle
