import Yuiv.Proofs.C18InvDefs
/-
C18Inv — transport lemmas, part A: reordering the crossing list (`permute p l`).

The first section is generic: a SLOT ISOMORPHISM `σ : slots l' → slots l` (inverse `τ`) that preserves labels
and commutes with `thru` automatically commutes with `partner` (on valid codes the partner is the unique other
slot with the same label), transports `SConn`, `Determined` and (possibly twisted by a sign `ε` that is
constant on components) orientations.  It is instantiated here for `permute` and in `C18InvRev` for
`reverseAll` / `revComp`.
-/
namespace Yuiv.C18
open Yuiv

/-! ### generic helpers -/

/-- validity only depends on the multiset of labels -/
theorem valid_of_perm {l l' : Link} (hp : (allEdges l').Perm (allEdges l)) (hv : Valid l) : Valid l' := by
  intro e he
  rw [hp.count_eq]
  exact hv e (hp.mem_iff.1 he)

/-- `Orient` only looks at `O` on the slots -/
theorem Orient.congr {l : Link} {O O' : Nat × Nat → Bool} (hv : Valid l) (h : ∀ s, HE l s → O' s = O s)
    (hO : Orient l O) : Orient l O' := by
  intro i hi j hj
  have hh : HE l (i, j) := ⟨hi, hj⟩
  rw [h _ hh, h _ (thru_spec l _ hh).1, h _ (partner_spec l hv _ hh).1]
  exact hO i hi j hj

/-! ### slot isomorphisms -/

/-- `σ` maps the slots of `l'` bijectively (inverse `τ`) to the slots of `l`, preserving labels and the
strands through the crossings -/
structure SlotIso (l' l : Link) (σ τ : Nat × Nat → Nat × Nat) : Prop where
  he : ∀ h, HE l' h → HE l (σ h)
  he_inv : ∀ h, HE l h → HE l' (τ h)
  left : ∀ h, HE l' h → τ (σ h) = h
  right : ∀ h, HE l h → σ (τ h) = h
  lab_eq : ∀ h, HE l' h → lab l (σ h) = lab l' h
  thru_eq : ∀ h, HE l' h → σ (C18.thru l' h) = C18.thru l (σ h)

namespace SlotIso
variable {l' l : Link} {σ τ : Nat × Nat → Nat × Nat}

theorem symm (s : SlotIso l' l σ τ) : SlotIso l l' τ σ where
  he := s.he_inv
  he_inv := s.he
  left := s.right
  right := s.left
  lab_eq := by
    intro h hh
    have := s.lab_eq (τ h) (s.he_inv h hh)
    rw [s.right h hh] at this
    exact this.symm
  thru_eq := by
    intro h hh
    have h1 := s.thru_eq (τ h) (s.he_inv h hh)
    rw [s.right h hh] at h1
    rw [← h1, s.left _ (thru_spec l' _ (s.he_inv h hh)).1]

theorem inj (s : SlotIso l' l σ τ) {a b : Nat × Nat} (ha : HE l' a) (hb : HE l' b) (h : σ a = σ b) : a = b := by
  rw [← s.left a ha, ← s.left b hb, h]

/-- a slot isomorphism commutes with `partner` -/
theorem partner_eq (s : SlotIso l' l σ τ) (hv : Valid l) (hv' : Valid l') (h : Nat × Nat) (hh : HE l' h) :
    σ (C18.partner l' h) = C18.partner l (σ h) := by
  obtain ⟨p1, p2, p3, _⟩ := partner_spec l' hv' h hh
  have e : lab l (σ (C18.partner l' h)) = lab l (σ h) := by
    rw [s.lab_eq _ p1, s.lab_eq _ hh, p3]
  rcases same_label l hv (σ h) (σ (C18.partner l' h)) (s.he _ hh) (s.he _ p1) e with h1 | h1
  · exact absurd (s.inj p1 hh h1) p2
  · exact h1

theorem sconn (s : SlotIso l' l σ τ) (hv : Valid l) (hv' : Valid l') {a b : Nat × Nat}
    (hc : SConn l' a b) (ha : HE l' a) : SConn l (σ a) (σ b) := by
  induction hc with
  | refl => exact SConn.refl _
  | thru hc ih => rw [s.thru_eq _ (hc.he hv' ha)]; exact SConn.thru ih
  | partner hc ih => rw [s.partner_eq hv hv' _ (hc.he hv' ha)]; exact SConn.partner ih

/-- `Determined` is transported backwards, provided the images of the under-strand entrances of `l` are
connected to under-strand entrances of `l'` -/
theorem determined (s : SlotIso l' l σ τ) (hv : Valid l) (hv' : Valid l')
    (h0 : ∀ i, i < l.length → ∃ i', i' < l'.length ∧ SConn l' (i', 0) (τ (i, 0)))
    (hD : Determined l) : Determined l' := by
  intro i hi j hj
  have hh : HE l' (i, j) := ⟨hi, hj⟩
  have hs := s.he _ hh
  obtain ⟨i0, hi0, hc⟩ := hD (σ (i, j)).1 hs.1 (σ (i, j)).2 hs.2
  have h1 := s.symm.sconn hv' hv hc ⟨hi0, by omega⟩
  rw [show ((σ (i, j)).1, (σ (i, j)).2) = σ (i, j) from rfl, s.left _ hh] at h1
  obtain ⟨i', hi', hc'⟩ := h0 i0 hi0
  exact ⟨i', hi', hc'.trans h1⟩

/-- orientations are transported; `ε` (constant on components) marks the components that are reversed -/
theorem orient (s : SlotIso l' l σ τ) (hv : Valid l) (hv' : Valid l') (ε : Nat × Nat → Bool)
    (h1 : ∀ h, HE l' h → ε (C18.thru l' h) = ε h) (h2 : ∀ h, HE l' h → ε (C18.partner l' h) = ε h)
    {O : Nat × Nat → Bool} (hO : Orient l O) :
    Orient l' (fun h => if ε h then !O (σ h) else O (σ h)) := by
  intro i hi j hj
  have hh : HE l' (i, j) := ⟨hi, hj⟩
  constructor
  · show (if ε (C18.thru l' (i, j)) then !O (σ (C18.thru l' (i, j))) else O (σ (C18.thru l' (i, j)))) =
      !(if ε (i, j) then !O (σ (i, j)) else O (σ (i, j)))
    rw [h1 _ hh, s.thru_eq _ hh, hO.thru_eq _ (s.he _ hh)]
    cases ε (i, j) <;> simp
  · show (if ε (C18.partner l' (i, j)) then !O (σ (C18.partner l' (i, j))) else O (σ (C18.partner l' (i, j)))) =
      !(if ε (i, j) then !O (σ (i, j)) else O (σ (i, j)))
    rw [h2 _ hh, s.partner_eq hv hv' _ hh, hO.partner_eq _ (s.he _ hh)]
    cases ε (i, j) <;> simp

/-- untwisted transport -/
theorem orient' (s : SlotIso l' l σ τ) (hv : Valid l) (hv' : Valid l')
    {O : Nat × Nat → Bool} (hO : Orient l O) : Orient l' (fun h => O (σ h)) :=
  s.orient hv hv' (fun _ => false) (fun _ _ => rfl) (fun _ _ => rfl) hO

end SlotIso

/-! ### permutations of `0..n` as lists -/

theorem perm_lt {p : List Nat} {n : Nat} (hp : p.Perm (List.range n)) {i : Nat} (hi : i ∈ p) : i < n :=
  List.mem_range.1 (hp.mem_iff.1 hi)

theorem perm_mem {p : List Nat} {n : Nat} (hp : p.Perm (List.range n)) {i : Nat} (hi : i < n) : i ∈ p :=
  hp.mem_iff.2 (List.mem_range.2 hi)

theorem perm_length {p : List Nat} {n : Nat} (hp : p.Perm (List.range n)) : p.length = n := by
  rw [hp.length_eq, List.length_range]

theorem perm_nodup {p : List Nat} {n : Nat} (hp : p.Perm (List.range n)) : p.Nodup :=
  hp.nodup_iff.2 List.nodup_range

theorem perm_getD_eq {p : List Nat} {k : Nat} (hk : k < p.length) : p.getD k 0 = p[k] := by
  rw [List.getD_eq_getElem?_getD, List.getElem?_eq_getElem hk]; rfl

theorem perm_getD_lt {p : List Nat} {n : Nat} (hp : p.Perm (List.range n)) {k : Nat} (hk : k < n) :
    p.getD k 0 < n := by
  have hk' : k < p.length := by rw [perm_length hp]; exact hk
  rw [perm_getD_eq hk']
  exact perm_lt hp (List.getElem_mem hk')

/-- the inverse index map: `p[idxOf i] = i` -/
theorem perm_getD_idxOf {p : List Nat} {n : Nat} (hp : p.Perm (List.range n)) {i : Nat} (hi : i < n) :
    p.idxOf i < n ∧ p.getD (p.idxOf i) 0 = i := by
  have hm := perm_mem hp hi
  have hlt : p.idxOf i < p.length := List.idxOf_lt_length_iff.2 hm
  refine ⟨by rw [← perm_length hp]; exact hlt, ?_⟩
  rw [perm_getD_eq hlt]
  exact List.getElem_idxOf hlt

theorem perm_idxOf_getD {p : List Nat} {n : Nat} (hp : p.Perm (List.range n)) {k : Nat} (hk : k < n) :
    p.idxOf (p.getD k 0) = k := by
  have hk' : k < p.length := by rw [perm_length hp]; exact hk
  rw [perm_getD_eq hk']
  exact (perm_nodup hp).idxOf_getElem k hk'

theorem perm_eq_map_getD {p : List Nat} {n : Nat} (hp : p.Perm (List.range n)) :
    p = (List.range n).map (fun k => p.getD k 0) := by
  apply List.ext_getElem
  · rw [List.length_map, List.length_range, perm_length hp]
  · intro k h1 h2
    rw [List.getElem_map, List.getElem_range, perm_getD_eq h1]

/-! ### A1: the reordered list -/

theorem permute_eq_map (p : List Nat) (l : Link) (hp : ∀ i ∈ p, i < l.length) :
    permute p l = p.map (fun i => l[i]?.getD default) := by
  unfold permute
  induction p with
  | nil => rfl
  | cons a r ih =>
    have ha : a < l.length := hp a List.mem_cons_self
    rw [List.filterMap_cons, List.getElem?_eq_getElem ha, List.map_cons, List.getElem?_eq_getElem ha,
      ih (fun i hi => hp i (List.mem_cons_of_mem _ hi))]
    rfl

theorem link_eq_map_range (l : Link) : l = (List.range l.length).map (fun i => l[i]?.getD default) := by
  apply List.ext_getElem
  · rw [List.length_map, List.length_range]
  · intro k h1 h2
    rw [List.getElem_map, List.getElem_range, List.getElem?_eq_getElem h1]; rfl

section Perm
variable {p : List Nat} {l : Link}

theorem permute_perm (hp : p.Perm (List.range l.length)) : (permute p l).Perm l := by
  rw [permute_eq_map p l (fun i hi => perm_lt hp hi)]
  conv => rhs; rw [link_eq_map_range l]
  exact hp.map _

theorem permute_length (hp : p.Perm (List.range l.length)) : (permute p l).length = l.length :=
  (permute_perm hp).length_eq

theorem permute_getElem? (hp : p.Perm (List.range l.length)) {k : Nat} (hk : k < l.length) :
    (permute p l)[k]? = l[p.getD k 0]? := by
  have hk' : k < p.length := by rw [perm_length hp]; exact hk
  rw [permute_eq_map p l (fun i hi => perm_lt hp hi), List.getElem?_map, List.getElem?_eq_getElem hk',
    perm_getD_eq hk', Option.map_some, List.getElem?_eq_getElem (perm_lt hp (List.getElem_mem hk'))]
  rfl

theorem edgeAt_permute (hp : p.Perm (List.range l.length)) {k : Nat} (hk : k < l.length) (j : Nat) :
    edgeAt (permute p l) k j = edgeAt l (p.getD k 0) j := by
  unfold edgeAt; rw [permute_getElem? hp hk]

theorem ctypeAt_permute (hp : p.Perm (List.range l.length)) {k : Nat} (hk : k < l.length) :
    ctypeAt (permute p l) k = ctypeAt l (p.getD k 0) := by
  unfold ctypeAt; rw [permute_getElem? hp hk]

/-- slot of `permute p l` ↦ slot of `l` -/
def pslot (p : List Nat) (h : Nat × Nat) : Nat × Nat := (p.getD h.1 0, h.2)

/-- slot of `l` ↦ slot of `permute p l` -/
def pslotInv (p : List Nat) (h : Nat × Nat) : Nat × Nat := (p.idxOf h.1, h.2)

/-! ### A2 -/

theorem allEdges_permute (hp : p.Perm (List.range l.length)) : (allEdges (permute p l)).Perm (allEdges l) :=
  (permute_perm hp).flatMap_right _

theorem valid_permute (hp : p.Perm (List.range l.length)) (hv : Valid l) : Valid (permute p l) :=
  valid_of_perm (allEdges_permute hp) hv

theorem crossingNum_permute (hp : p.Perm (List.range l.length)) : crossingNum (permute p l) = crossingNum l := by
  unfold crossingNum
  exact ((permute_perm hp).filter _).length_eq

/-! ### A1/A3: `pslot` is a slot isomorphism -/

theorem slotIso_permute (hp : p.Perm (List.range l.length)) :
    SlotIso (permute p l) l (pslot p) (pslotInv p) where
  he := by
    intro h hh
    rw [HE, permute_length hp] at hh
    exact ⟨perm_getD_lt hp hh.1, hh.2⟩
  he_inv := by
    intro h hh
    rw [HE, permute_length hp]
    exact ⟨(perm_getD_idxOf hp hh.1).1, hh.2⟩
  left := by
    intro h hh
    rw [HE, permute_length hp] at hh
    show (p.idxOf (p.getD h.1 0), h.2) = h
    rw [perm_idxOf_getD hp hh.1]
  right := by
    intro h hh
    show (p.getD (p.idxOf h.1) 0, h.2) = h
    rw [(perm_getD_idxOf hp hh.1).2]
  lab_eq := by
    intro h hh
    rw [HE, permute_length hp] at hh
    exact (edgeAt_permute hp hh.1 h.2).symm
  thru_eq := by
    intro h hh
    rw [HE, permute_length hp] at hh
    show (p.getD h.1 0, (ctypeAt (permute p l) h.1).pass h.2) = (p.getD h.1 0, (ctypeAt l (p.getD h.1 0)).pass h.2)
    rw [ctypeAt_permute hp hh.1]

theorem thru_permute (hp : p.Perm (List.range l.length)) (h : Nat × Nat) (hh : HE (permute p l) h) :
    pslot p (thru (permute p l) h) = thru l (pslot p h) := (slotIso_permute hp).thru_eq h hh

theorem partner_permute (hp : p.Perm (List.range l.length)) (hv : Valid l) (h : Nat × Nat)
    (hh : HE (permute p l) h) : pslot p (partner (permute p l) h) = partner l (pslot p h) :=
  (slotIso_permute hp).partner_eq hv (valid_permute hp hv) h hh

/-! ### A4 -/

theorem orient_permute (hp : p.Perm (List.range l.length)) (hv : Valid l) {O : Nat × Nat → Bool}
    (hO : Orient l O) : Orient (permute p l) (fun h => O (pslot p h)) :=
  (slotIso_permute hp).orient' hv (valid_permute hp hv) hO

theorem underIn_permute (hp : p.Perm (List.range l.length)) {O : Nat × Nat → Bool}
    (hU : UnderIn l O) : UnderIn (permute p l) (fun h => O (pslot p h)) := by
  intro i hi
  rw [permute_length hp] at hi
  exact hU _ (perm_getD_lt hp hi)

theorem determined_permute (hp : p.Perm (List.range l.length)) (hv : Valid l) (hD : Determined l) :
    Determined (permute p l) := by
  refine (slotIso_permute hp).determined hv (valid_permute hp hv) ?_ hD
  intro i hi
  refine ⟨p.idxOf i, ?_, SConn.refl _⟩
  rw [permute_length hp]
  exact (perm_getD_idxOf hp hi).1

/-! ### A5 -/

theorem sgnAt_permute (hp : p.Perm (List.range l.length)) (O : Nat × Nat → Bool) {k : Nat} (hk : k < l.length) :
    sgnAt (permute p l) (fun h => O (pslot p h)) k = sgnAt l O (p.getD k 0) := by
  unfold sgnAt
  rw [ctypeAt_permute hp hk]
  rfl

theorem filterMap_congr_mem {α β} (f g : α → Option β) : ∀ (xs : List α), (∀ x ∈ xs, f x = g x) →
    xs.filterMap f = xs.filterMap g
  | [], _ => rfl
  | a :: r, h => by
    rw [List.filterMap_cons, List.filterMap_cons, h a List.mem_cons_self,
      filterMap_congr_mem f g r (fun x hx => h x (List.mem_cons_of_mem _ hx))]

theorem signsOf_permute (hp : p.Perm (List.range l.length)) (O : Nat × Nat → Bool) :
    signsOf (permute p l) (fun h => O (pslot p h)) = p.filterMap (sgnAt l O) := by
  unfold signsOf
  rw [permute_length hp]
  conv => rhs; rw [perm_eq_map_getD hp, List.filterMap_map]
  exact filterMap_congr_mem _ _ _ (fun k hk => sgnAt_permute hp O (List.mem_range.1 hk))

/-! ### A6 -/

theorem count_filterMap_perm {α} (f : α → Option Sign) {p q : List α} (hp : p.Perm q) (s : Sign) :
    (p.filterMap f).count s = (q.filterMap f).count s :=
  (hp.filterMap f).count_eq s

theorem writheOf_perm {s t : List Sign} (h : s.Perm t) : writheOf s = writheOf t := by
  unfold writheOf; rw [h.count_eq, h.count_eq]

/-- the signs of the reordered diagram are a permutation of the signs of the original one -/
theorem signsOf_permute_perm (hp : p.Perm (List.range l.length)) (O : Nat × Nat → Bool) :
    (signsOf (permute p l) (fun h => O (pslot p h))).Perm (signsOf l O) := by
  rw [signsOf_permute hp]
  exact hp.filterMap _

theorem count_signsOf_permute (hp : p.Perm (List.range l.length)) (O : Nat × Nat → Bool) (s : Sign) :
    (signsOf (permute p l) (fun h => O (pslot p h))).count s = (signsOf l O).count s :=
  (signsOf_permute_perm hp O).count_eq s

theorem writheOf_signsOf_permute (hp : p.Perm (List.range l.length)) (O : Nat × Nat → Bool) :
    writheOf (signsOf (permute p l) (fun h => O (pslot p h))) = writheOf (signsOf l O) :=
  writheOf_perm (signsOf_permute_perm hp O)

/-! ### summary -/

/-- everything about a reordered diagram in one statement: the transported orientation `O ∘ pslot p` is an
orientation consistent with the code, and its sign list is the reordered sign list of `l` -/
theorem permute_transport (hp : p.Perm (List.range l.length)) (hv : Valid l) {O : Nat × Nat → Bool}
    (hO : Orient l O) (hU : UnderIn l O) :
    Valid (permute p l) ∧ Orient (permute p l) (fun h => O (pslot p h)) ∧
      UnderIn (permute p l) (fun h => O (pslot p h)) ∧
      signsOf (permute p l) (fun h => O (pslot p h)) = p.filterMap (sgnAt l O) ∧
      (∀ s, (signsOf (permute p l) (fun h => O (pslot p h))).count s = (signsOf l O).count s) ∧
      writheOf (signsOf (permute p l) (fun h => O (pslot p h))) = writheOf (signsOf l O) ∧
      crossingNum (permute p l) = crossingNum l :=
  ⟨valid_permute hp hv, orient_permute hp hv hO, underIn_permute hp hU, signsOf_permute hp O,
    count_signsOf_permute hp O, writheOf_signsOf_permute hp O, crossingNum_permute hp⟩

end Perm

/-! ### non-vacuity: the hypotheses hold for the trefoil with `p = [2,0,1]` and the Hopf link with `p = [1,0]` -/

/-- entrance slots of the standard orientation of a PD code: slots 0 and 1 (true for the two examples) -/
def exOri : Nat × Nat → Bool := fun h => h.2 == 0 || h.2 == 1

example : permute [2, 0, 1] (fromPD [[1,4,2,5],[3,6,4,1],[5,2,6,3]]) = fromPD [[5,2,6,3],[1,4,2,5],[3,6,4,1]] := by
  decide

example : [2, 0, 1].Perm (List.range (fromPD [[1,4,2,5],[3,6,4,1],[5,2,6,3]]).length) ∧
    Valid (fromPD [[1,4,2,5],[3,6,4,1],[5,2,6,3]]) ∧ Orient (fromPD [[1,4,2,5],[3,6,4,1],[5,2,6,3]]) exOri ∧
    UnderIn (fromPD [[1,4,2,5],[3,6,4,1],[5,2,6,3]]) exOri ∧ DeterminedB (fromPD [[1,4,2,5],[3,6,4,1],[5,2,6,3]]) := by
  decide

example : permute [1, 0] (fromPD [[4,1,3,2],[2,3,1,4]]) = fromPD [[2,3,1,4],[4,1,3,2]] := by decide

example : [1, 0].Perm (List.range (fromPD [[4,1,3,2],[2,3,1,4]]).length) ∧
    Valid (fromPD [[4,1,3,2],[2,3,1,4]]) ∧ Orient (fromPD [[4,1,3,2],[2,3,1,4]]) exOri ∧
    UnderIn (fromPD [[4,1,3,2],[2,3,1,4]]) exOri ∧ DeterminedB (fromPD [[4,1,3,2],[2,3,1,4]]) := by
  decide

/-- the transported orientation of the reordered trefoil, computed: again slots 0 and 1 -/
example : ∀ i, i < 3 → ∀ j, j < 4 → (fun h => exOri (pslot [2, 0, 1] h)) (i, j) = exOri (i, j) := by decide

end Yuiv.C18
