import Yuiv.Proofs.C06CycleDefs
import Std.Data.HashMap.Lemmas
/-
C06CycleHash — the meaning of the driver's `Drv.C06.dOfChain` (Option monad, `Std.HashMap Gen Int` accumulator
`acc.insert y ((acc.get? y).getD 0 + a * b)`, finally `acc.toList.filter (v != 0)`), for ALL inputs:

    theorem dOfChain_nil_iff (c p z) : dOfChain c p z = some [] ↔
        (∀ ga ∈ z, ∃ ts, c.d p ga.1 = some ts) ∧ ∀ y, chainSum (fun g => ((c.d p g).getD #[]).toList) z y = 0
    theorem dOfChain_zero (c p z D) (hD : ∀ ga ∈ z, c.d p ga.1 = some (D ga.1).toArray)
        (hz : ∀ y, chainSum D z y = 0) : dOfChain c p z = some []
    theorem dOfChain_zero_conv : the `→` direction of `dOfChain_nil_iff`

`Gen` gets `LawfulBEq` (derived `beq` unfolded) and hence `LawfulHashable`.  Loop invariant (`HModel.outer_loop`):
`acc.getD y 0` = start value + the partial `chainSum`; a failing `Cube.d` makes the whole loop `none`.  At the end
every entry of `toList` is zero iff `getD y 0 = 0` for every `y` (`HModel.finish_nil_iff`).
-/
namespace Yuiv.C06Cycle
open Yuiv Yuiv.KhRef Yuiv.C06Canon

theorem gen_beq_iff (a b : Gen) : (a == b) = true ↔ a = b := by
  cases a with | mk s m => cases b with | mk s' m' =>
  show (instBEqGen.beq _ _ = true) ↔ _
  simp [instBEqGen.beq]

instance : LawfulBEq Gen where
  eq_of_beq h := (gen_beq_iff _ _).mp h
  rfl := (gen_beq_iff _ _).mpr rfl

instance : LawfulHashable Gen := inferInstance


namespace HModel

abbrev Acc := Std.HashMap Gen Int

/-- one update of the accumulator -/
def ins (a : Int) (acc : Acc) (yb : Term) : Acc := acc.insert yb.1 (acc.getD yb.1 0 + a * yb.2)

def innerBody (a : Int) (x : Term) (acc : Acc) : Option (ForInStep Acc) :=
  match x with
  | (y, b) => pure (ForInStep.yield (acc.insert y ((acc.get? y).getD 0 + a * b)))

def outerBody (c : Cube) (p : Params) (x : Gen × Int) (acc : Acc) : Option (ForInStep Acc) :=
  match x with
  | (g, a) => do
    let ts ← c.d p g
    let r ← forIn ts acc (innerBody a)
    pure (ForInStep.yield r)

def finish (acc : Acc) : List (Gen × Int) := acc.toList.filter (fun (_, v) => v != 0)

theorem dOfChain_eqM (c : Cube) (p : Params) (z : Chain) :
    Yuiv.Drv.C06.dOfChain c p z = (forIn z (∅ : Acc) (outerBody c p)).map finish := by
  unfold Yuiv.Drv.C06.dOfChain
  show (forIn z (∅ : Acc) (outerBody c p) >>= fun r => pure (finish r)) = _
  cases forIn z (∅ : Acc) (outerBody c p) <;> rfl

theorem inner_loop (a : Int) (ts : List Term) (acc : Acc) :
    forIn (m := Option) ts acc (innerBody a) = some (ts.foldl (ins a) acc) := by
  induction ts generalizing acc with
  | nil => rfl
  | cons t ts ih =>
    rw [List.forIn_cons, List.foldl_cons]
    have : innerBody a t acc = some (ForInStep.yield (ins a acc t)) := by
      obtain ⟨y, b⟩ := t
      show some (ForInStep.yield (acc.insert y ((acc.get? y).getD 0 + a * b))) =
        some (ForInStep.yield (acc.insert y (acc.getD y 0 + a * b)))
      rw [Std.HashMap.get?_eq_getElem?, Std.HashMap.getD_eq_getD_getElem?]
    rw [this]
    exact ih _

theorem termSum_cons (y : Gen) (t : Term) (ts : List Term) :
    termSum y (t :: ts) = (if t.1 == y then t.2 else 0) + termSum y ts := by
  unfold termSum
  rw [List.filter_cons]
  split <;> simp

theorem ins_fold (a : Int) (ts : List Term) (acc : Acc) (y : Gen) :
    (ts.foldl (ins a) acc).getD y 0 = acc.getD y 0 + a * termSum y ts := by
  induction ts generalizing acc with
  | nil => simp [termSum]
  | cons t ts ih =>
    rw [List.foldl_cons, ih, termSum_cons]
    unfold ins
    rw [Std.HashMap.getD_insert]
    by_cases h : (t.1 == y) = true
    · have e : t.1 = y := eq_of_beq h
      subst e
      simp only [h, if_true]
      rw [Int.mul_add, Int.add_assoc]
    · simp only [h, if_false, Bool.false_eq_true]
      rw [Int.zero_add]

/-- `d` as a list of terms, empty where `Cube.d` fails -/
def dList (c : Cube) (p : Params) (g : Gen) : List Term := ((c.d p g).getD #[]).toList

theorem chainSum_cons (D : Gen → List Term) (ga : Gen × Int) (z : Chain) (y : Gen) :
    chainSum D (ga :: z) y = ga.2 * termSum y (D ga.1) + chainSum D z y := by
  unfold chainSum
  rw [List.map_cons, List.sum_cons]

theorem outer_loop (c : Cube) (p : Params) (z : Chain) (acc : Acc) :
    match forIn (m := Option) z acc (outerBody c p) with
    | some acc' => (∀ ga ∈ z, ∃ ts, c.d p ga.1 = some ts) ∧
        ∀ y, acc'.getD y 0 = acc.getD y 0 + chainSum (dList c p) z y
    | none => ∃ ga ∈ z, c.d p ga.1 = none := by
  induction z generalizing acc with
  | nil => exact ⟨by simp, fun y => by simp [chainSum]⟩
  | cons ga z ih =>
    rw [List.forIn_cons]
    obtain ⟨g, a⟩ := ga
    cases hd : c.d p g with
    | none =>
      have : outerBody c p (g, a) acc = none := by
        unfold outerBody
        simp only [hd]
        rfl
      rw [this]
      exact ⟨(g, a), List.mem_cons_self, hd⟩
    | some ts =>
      have : outerBody c p (g, a) acc = some (ForInStep.yield (ts.toList.foldl (ins a) acc)) := by
        unfold outerBody
        simp only [hd]
        show (forIn ts acc (innerBody a) >>= _) = _
        rw [← Array.forIn_toList, inner_loop]
        rfl
      rw [this]
      show match forIn (m := Option) z (ts.toList.foldl (ins a) acc) (outerBody c p) with
        | some acc' => _ | none => _
      have h := ih (ts.toList.foldl (ins a) acc)
      cases hf : forIn (m := Option) z (ts.toList.foldl (ins a) acc) (outerBody c p) with
      | none =>
        rw [hf] at h
        obtain ⟨ga, hm, hn⟩ := h
        exact ⟨ga, List.mem_cons_of_mem _ hm, hn⟩
      | some acc' =>
        rw [hf] at h
        obtain ⟨h1, h2⟩ := h
        refine ⟨?_, fun y => ?_⟩
        · intro ga hm
          rcases List.mem_cons.mp hm with rfl | hm
          · exact ⟨ts, hd⟩
          · exact h1 ga hm
        · rw [h2, ins_fold, chainSum_cons, Int.add_assoc]
          simp only [dList, hd, Option.getD_some]

theorem finish_nil_iff (acc : Acc) : finish acc = [] ↔ ∀ y, acc.getD y 0 = 0 := by
  unfold finish
  rw [List.filter_eq_nil_iff]
  constructor
  · intro h y
    rw [Std.HashMap.getD_eq_getD_getElem?]
    cases hy : acc[y]? with
    | none => rfl
    | some v =>
      have := h (y, v) (Std.HashMap.mem_toList_iff_getElem?_eq_some.mpr hy)
      simpa using this
  · intro h kv hm
    obtain ⟨k, v⟩ := kv
    have hk := Std.HashMap.mem_toList_iff_getElem?_eq_some.mp hm
    have := h k
    rw [Std.HashMap.getD_eq_getD_getElem?, hk] at this
    simpa using this

end HModel

/-- exact characterisation of `dOfChain c p z = some []` -/
theorem dOfChain_nil_iff (c : Cube) (p : Params) (z : Chain) :
    Yuiv.Drv.C06.dOfChain c p z = some [] ↔
      (∀ ga ∈ z, ∃ ts, c.d p ga.1 = some ts) ∧
      ∀ y, chainSum (fun g => ((c.d p g).getD #[]).toList) z y = 0 := by
  rw [HModel.dOfChain_eqM]
  have h := HModel.outer_loop c p z ∅
  cases hf : forIn (m := Option) z (∅ : HModel.Acc) (HModel.outerBody c p) with
  | none =>
    rw [hf] at h
    obtain ⟨ga, hm, hn⟩ := h
    constructor
    · intro h; cases h
    · rintro ⟨h1, _⟩
      obtain ⟨ts, hts⟩ := h1 ga hm
      rw [hn] at hts
      cases hts
  | some acc =>
    rw [hf] at h
    obtain ⟨h1, h2⟩ := h
    simp only [Option.map_some, Option.some.injEq, HModel.finish_nil_iff]
    constructor
    · intro h
      refine ⟨h1, fun y => ?_⟩
      have := h2 y
      rw [h y, Std.HashMap.getD_empty, Int.zero_add] at this
      exact this.symm
    · rintro ⟨_, h⟩ y
      rw [h2 y, Std.HashMap.getD_empty, Int.zero_add]
      exact h y

theorem chainSum_congr (D D' : Gen → List Term) (z : Chain) (y : Gen) (h : ∀ ga ∈ z, D ga.1 = D' ga.1) :
    chainSum D z y = chainSum D' z y := by
  unfold chainSum
  congr 1
  apply List.map_congr_left
  intro ga hm
  rw [h ga hm]

theorem dOfChain_zero (c : Cube) (p : Params) (z : Chain) (D : Gen → List Term)
    (hD : ∀ ga ∈ z, c.d p ga.1 = some (D ga.1).toArray)
    (hz : ∀ y, chainSum D z y = 0) :
    Yuiv.Drv.C06.dOfChain c p z = some [] := by
  rw [dOfChain_nil_iff]
  refine ⟨fun ga hm => ⟨_, hD ga hm⟩, fun y => ?_⟩
  rw [← hz y]
  apply chainSum_congr
  intro ga hm
  simp only [hD ga hm, Option.getD_some]

theorem dOfChain_zero_conv (c : Cube) (p : Params) (z : Chain)
    (h : Yuiv.Drv.C06.dOfChain c p z = some []) :
    (∀ ga ∈ z, ∃ ts, c.d p ga.1 = some ts) ∧
      ∀ y, chainSum (fun g => ((c.d p g).getD #[]).toList) z y = 0 :=
  (dOfChain_nil_iff c p z).mp h

end Yuiv.C06Cycle
