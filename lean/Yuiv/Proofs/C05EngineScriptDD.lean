import Yuiv.Proofs.C05EngineConnectDD
/-
C05 (engine) — every script of the model preserves `d ∘ d = 0`: boundedness of the weights, the crossing complex
`make_x`, and the induction over the steps.
-/
namespace Yuiv.C05.Engine
open Yuiv Yuiv.C05 Yuiv.C05.Tng

variable {E : Type}

/-! ### `dim` and `base` through `connect` -/

theorem addProductEdge_meta (ops : EdgeOps E) (b b' : Cx E) (e : (TKey × TKey) × E)
    (h : addProductEdge ops b e = .ok b') : b'.dim = b.dim ∧ b'.base = b.base := by
  unfold addProductEdge at h
  split at h
  · obtain ⟨_, rfl⟩ := addEdge_ok ops b b' _ _ _ h; exact ⟨rfl, rfl⟩
  · cases h; exact ⟨rfl, rfl⟩

theorem connectDegStep_meta (ops : EdgeOps E) (left right b b' : Cx E) (i : Int)
    (h : connectDegStep ops left right b i = .ok b') : b'.dim = b.dim ∧ b'.base = b.base := by
  unfold connectDegStep at h
  rcases hv : connectVertices left right i b with b1 | _ | _
  · simp only [hv] at h
    have h1 : b1.dim = b.dim ∧ b1.base = b.base := by
      unfold connectVertices at hv
      refine foldRes_inv (fun c => c.dim = b.dim ∧ c.base = b.base) _ _ ?_ b b1 ⟨rfl, rfl⟩ hv
      intro c kl c' _ hc hstep
      unfold connectVertexStep at hstep
      split at hstep
      · split at hstep
        · obtain ⟨_, rfl⟩ := addVertex_ok c c' _ _ hstep; exact hc
        · cases hstep
        · cases hstep
      · cases hstep
    unfold connectEdges at h
    refine foldRes_inv (fun c => c.dim = b.dim ∧ c.base = b.base) _ _ ?_ b1 b' h1 h
    intro c kl c' _ hc hstep
    unfold connectEdgeStep at hstep
    split at hstep
    · split at hstep
      · refine foldRes_inv (fun d => d.dim = b.dim ∧ d.base = b.base) _ _ ?_ c c' hc hstep
        intro d e d' _ hd hadd
        obtain ⟨m1, m2⟩ := addProductEdge_meta ops d d' e hadd
        exact ⟨m1.trans hd.1, m2.trans hd.2⟩
      · cases hstep
      · cases hstep
    · cases hstep
  · simp [hv] at h
  · simp [hv] at h

theorem connect_meta (ops : EdgeOps E) (left right cx' : Cx E) (h : left.connect ops right = .ok cx') :
    cx'.dim = left.dim + right.dim ∧ cx'.base = left.base.or right.base := by
  unfold Cx.connect at h
  rcases h0 : connectInit left right with new0 | _ | _
  · simp only [h0] at h
    have hnew := connectInit_ok left right new0 h0
    have : cx'.dim = new0.dim ∧ cx'.base = new0.base := by
      refine foldRes_inv (fun c => c.dim = new0.dim ∧ c.base = new0.base) _ _ ?_ new0 cx' ⟨rfl, rfl⟩ h
      intro c i c' _ hc hstep
      obtain ⟨m1, m2⟩ := connectDegStep_meta ops left right c c' i hstep
      exact ⟨m1.trans hc.1, m2.trans hc.2⟩
    rw [hnew] at this
    exact this
  · simp [h0] at h
  · simp [h0] at h

/-! ### boundedness of the weights -/

theorem bounded_connect (ops : EdgeOps E) (left right cx' : Cx E) (hbl : Bounded left) (hbr : Bounded right)
    (h : left.connect ops right = .ok cx') : Bounded cx' := by
  have hv := (connect_inv ops left right cx' h).verts
  have hd := (connect_meta ops left right cx' h).1
  intro k hk
  rw [hv] at hk
  obtain ⟨p, hp, rfl⟩ := List.mem_map.1 hk
  simp only [List.mem_flatMap] at hp
  obtain ⟨i, _, hi⟩ := hp
  obtain ⟨m1, m2, _, _⟩ := (mem_collectKeys left right i p.1 p.2).1 hi
  rw [weight_pkey, hd]
  have b1 := hbl _ m1
  have b2 := hbr _ m2
  omega

theorem bounded_eliminate (ops : EdgeOps E) (cx cx' : Cx E) (k0 k1 : TKey) (hb : Bounded cx)
    (h : cx.eliminate ops k0 k1 = .ok cx') : Bounded cx' := by
  obtain ⟨hv, _, _, _, hd⟩ := eliminate_verts ops cx cx' k0 k1 h
  intro k hk
  rw [hv] at hk
  obtain ⟨v, hv', rfl⟩ := List.mem_map.1 hk
  rw [hd]
  exact hb _ (List.mem_map.2 ⟨v, (List.mem_filter.1 hv').1, rfl⟩)

theorem deloop_dim (ops : EdgeOps E) (cx cx' : Cx E) (k : TKey) (r : Nat) (upd : List TKey)
    (h : cx.deloop ops k r = .ok (upd, cx')) : cx'.dim = cx.dim := by
  obtain ⟨_, c, _, _, _, _, c1, h1, hb, hu⟩ := deloop_factors ops cx cx' k r upd h
  obtain ⟨_, _, _, rfl⟩ := renameKey_ok cx c1 k _ h1
  by_cases hbase : cx.containsBase c = true
  · obtain ⟨_, _, _, _, _, _, _, rfl⟩ := deloopWith_ok ops _ cx' _ _ _ _ (hb hbase)
    rfl
  · obtain ⟨c2, c3, h2, h3, h4⟩ := hu (by simpa using hbase)
    obtain ⟨_, _, _, _, rfl⟩ := duplicateKey_ok _ c2 _ _ h2
    obtain ⟨_, _, _, _, _, _, _, rfl⟩ := deloopWith_ok ops _ c3 _ _ _ _ h3
    obtain ⟨_, _, _, _, _, _, _, rfl⟩ := deloopWith_ok ops _ cx' _ _ _ _ h4
    rfl

theorem bounded_deloop (ops : EdgeOps E) (cx cx' : Cx E) (k : TKey) (r : Nat) (upd : List TKey) (hb : Bounded cx)
    (h : cx.deloop ops k r = .ok (upd, cx')) : Bounded cx' := by
  have hkeys := deloop_keys ops cx cx' k r upd h
  obtain ⟨t, c, ht, _, _, hupd, _⟩ := deloop_factors ops cx cx' k r upd h
  have hk := tng?_some_mem cx k t ht
  have hd := deloop_dim ops cx cx' k r upd h
  intro x hx
  rw [hkeys] at hx
  rw [hd]
  rcases List.mem_append.1 hx with hx | hx
  · obtain ⟨y, hy, rfl⟩ := List.mem_map.1 hx
    rw [renameFn_weight k _ y (weight_push k .X)]
    exact hb y hy
  · have : x.weight = k.weight := by
      rw [hupd] at hx
      have := List.mem_of_mem_drop hx
      obtain ⟨cp, _, rfl⟩ := List.mem_map.1 this
      rfl
    rw [this]; exact hb k hk

/-! ### the crossing complex -/

theorem makeX_cases (ops : EdgeOps E) (mkSdl : CobComp → E) (ct : KhRef.CT) (e : Array Nat) (x : Cx E)
    (h : makeX ops mkSdl ct e = .ok x) :
    (∃ t, x = ⟨0, 0, none, 0, [(TKey.init, t)], []⟩) ∨
    (∃ t0 t1 f, x = ⟨0, 0, none, 1, [(⟨[false], []⟩, t0), (⟨[true], []⟩, t1)], [((⟨[false], []⟩, ⟨[true], []⟩), f)]⟩) := by
  unfold makeX at h
  simp only at h
  split at h
  · split at h
    · obtain ⟨_, rfl⟩ := addVertex_ok _ x _ _ h
      exact .inl ⟨_, rfl⟩
    · cases h
    · cases h
  · split at h
    · split at h
      · rename_i c1 hc1
        split at h
        · rename_i c2 hc2
          split at h
          · split at h
            · rename_i c3 hc3
              cases h
              obtain ⟨_, rfl⟩ := addVertex_ok _ c1 _ _ hc1
              obtain ⟨_, rfl⟩ := addVertex_ok _ c2 _ _ hc2
              obtain ⟨_, rfl⟩ := addEdge_ok ops _ c3 _ _ _ hc3
              exact .inr ⟨_, _, _, rfl⟩
            · cases h
            · cases h
          · cases h
          · cases h
        · cases h
        · cases h
      · cases h
      · cases h
    · cases h
    · cases h
    · cases h

theorem bounded_makeX (ops : EdgeOps E) (mkSdl : CobComp → E) (ct : KhRef.CT) (e : Array Nat) (x : Cx E)
    (h : makeX ops mkSdl ct e = .ok x) : Bounded x ∧ x.base = none := by
  rcases makeX_cases ops mkSdl ct e x h with ⟨t, rfl⟩ | ⟨t0, t1, f, rfl⟩
  · refine ⟨?_, rfl⟩
    intro k hk
    simp at hk
    subst hk
    show TKey.init.weight ≤ 0
    decide
  · refine ⟨?_, rfl⟩
    intro k hk
    simp at hk
    rcases hk with rfl | rfl
    · show (⟨[false], []⟩ : TKey).weight ≤ 1
      decide
    · show (⟨[true], []⟩ : TKey).weight ≤ 1
      decide

theorem dd_makeX [Ring E] (ops : EdgeOps E) (mkSdl : CobComp → E) (ct : KhRef.CT) (e : Array Nat) (x : Cx E)
    (h : makeX ops mkSdl ct e = .ok x) : DD x := by
  rcases makeX_cases ops mkSdl ct e x h with ⟨t, rfl⟩ | ⟨t0, t1, f, rfl⟩
  · intro k m
    unfold ddAt ent Cx.edge?
    simp
  · intro k m
    unfold ddAt
    apply Finset.sum_eq_zero
    intro l _
    unfold ent Cx.edge?
    simp only [List.lookup_cons, List.lookup_nil]
    by_cases h1 : ((l, m) == ((⟨[false], []⟩ : TKey), (⟨[true], []⟩ : TKey))) = true
    · have hl : l = ⟨[false], []⟩ := by simp at h1; exact h1.1
      have h2 : ((k, l) == ((⟨[false], []⟩ : TKey), (⟨[true], []⟩ : TKey))) = false := by
        rw [hl]; simp
      simp [h2]
    · have h1' : ((l, m) == ((⟨[false], []⟩ : TKey), (⟨[true], []⟩ : TKey))) = false := by simpa using h1
      simp [h1']

/-! ### every script -/

/-- what a script keeps: base point, well-formedness, bounded weights, `d ∘ d = 0` -/
structure Good [Ring E] (ops : EdgeOps E) (base : Option Nat) (cx : Cx E) : Prop where
  base : cx.base = base
  wf : WF ops cx
  bd : Bounded cx
  dd : DD cx

theorem good_connect [Ring E] (ops : EdgeOps E) (tl tr : E → Tng → E) (hT : RingTensorOps ops tl tr)
    (hX : ∀ f g v v' w w', tr g v' * tl f w = tl f w' * tr g v) (base obase : Option Nat) (cx o cx' : Cx E)
    (hg : Good ops base cx) (ho : Good ops obase o) (hb : base.or obase = base)
    (h : cx.connect ops o = .ok cx') : Good ops base cx' := by
  refine ⟨?_, wf_connect ops cx o cx' hg.wf ho.wf h, bounded_connect ops cx o cx' hg.bd ho.bd h,
    connect_dd ops tl tr hT cx o cx' hg.wf ho.wf hg.bd ho.bd (fun k k' l l' f g _ _ => hX f g _ _ _ _) hg.dd ho.dd h⟩
  rw [(connect_meta ops cx o cx' h).2, hg.base, ho.base, hb]

theorem good_step [Ring E] (ops : EdgeOps E) (mkSdl : CobComp → E) (tl tr : E → Tng → E)
    (hE : RingEdgeOps ops) (hT : RingTensorOps ops tl tr)
    (hX : ∀ f g v v' w w', tr g v' * tl f w = tl f w' * tr g v) (base : Option Nat)
    (hdl : ∀ c : Path, ∃ cap cup : Dot → E, RingDeloopOps ops c cap cup ∧
      (if (match base with | some e => c.contains e | none => false) = true then cup .X * cap .none = 1
       else cup .X * cap .none + cup .none * cap .Y = 1))
    (cx cx' : Cx E) (st : Step E) (hg : Good ops base cx)
    (hcon : ∀ o, st = .con o → ∃ obase, Good ops obase o ∧ base.or obase = base)
    (h : applyStep ops mkSdl cx st = .ok cx') : Good ops base cx' := by
  cases st with
  | app ct e =>
    simp only [applyStep, Cx.appendX] at h
    rcases hx : makeX ops mkSdl ct e with x | _ | _
    · simp only [hx] at h
      obtain ⟨bx, bbase⟩ := bounded_makeX ops mkSdl ct e x hx
      exact good_connect ops tl tr hT hX base none cx x cx' hg
        ⟨bbase, wf_makeX ops mkSdl ct e x hx, bx, dd_makeX ops mkSdl ct e x hx⟩ (by cases base <;> rfl) h
    · simp [hx] at h
    · simp [hx] at h
  | dl k r =>
    simp only [applyStep] at h
    rcases hd : cx.deloop ops k r with ⟨upd, c'⟩ | _ | _
    · simp only [hd, Res.ok.injEq] at h
      subst h
      obtain ⟨t, c, ht, hc, _, _⟩ := deloop_factors ops cx _ k r upd hd
      obtain ⟨cap, cup, ho, hi⟩ := hdl c
      have hi' : if cx.containsBase c = true then cup .X * cap .none = 1
          else cup .X * cap .none + cup .none * cap .Y = 1 := by
        unfold Cx.containsBase
        rw [hg.base]
        exact hi
      exact ⟨(deloop_base ops cx _ k r upd hd).trans hg.base, wf_deloop ops cx _ k r upd hg.wf hd,
        bounded_deloop ops cx _ k r upd hg.bd hd,
        deloop_dd ops cx _ k r upd t c cap cup hg.wf ht hc ho hi' hg.dd hd⟩
    · simp [hd] at h
    · simp [hd] at h
  | el k0 k1 =>
    simp only [applyStep] at h
    exact ⟨((eliminate_verts ops cx cx' k0 k1 h).2.2.2.1).trans hg.base, wf_eliminate ops cx cx' k0 k1 hg.wf h,
      bounded_eliminate ops cx cx' k0 k1 hg.bd h, eliminate_dd ops hE cx cx' k0 k1 hg.wf hg.dd h⟩
  | con o =>
    simp only [applyStep] at h
    obtain ⟨obase, ho, hb⟩ := hcon o rfl
    exact good_connect ops tl tr hT hX base obase cx o cx' hg ho hb h

theorem good_init [Ring E] (ops : EdgeOps E) (dh dq : Int) (base : Option Nat) :
    Good ops base (Cx.init dh dq base : Cx E) := by
  refine ⟨rfl, wf_init ops dh dq base, ?_, ?_⟩
  · intro k hk
    simp [Cx.init] at hk
    subst hk
    show TKey.init.weight ≤ 0
    decide
  · intro k m
    unfold ddAt ent Cx.edge?
    simp [Cx.init]

end Yuiv.C05.Engine
