import Yuiv.Proofs.C06CycleDefs
/-
C06Cycle — example diagrams for the non-vacuity `example`s of `Props/C06Cycle.lean`: the value of `KhRef.edgeLabels`
(`Array.qsort` is defined by well-founded recursion and does not reduce in the kernel; it is evaluated here by
unfolding its equations with `simp`), so that everything else can be decided by kernel evaluation.
-/
open private Array.qsort.sort from Init.Data.Array.QSort.Basic
open private Array.qpartition.loop from Init.Data.Array.QSort.Basic
namespace Yuiv.C06Cycle
open Yuiv Yuiv.KhRef Yuiv.C04Inv

def trefoilX : Link := #[⟨.X, #[1, 4, 2, 5]⟩, ⟨.X, #[3, 6, 4, 1]⟩, ⟨.X, #[5, 2, 6, 3]⟩]
def trefoilM : Link := #[⟨.Xm, #[1, 4, 2, 5]⟩, ⟨.Xm, #[3, 6, 4, 1]⟩, ⟨.Xm, #[5, 2, 6, 3]⟩]
def hopfX : Link := #[⟨.X, #[4, 1, 3, 2]⟩, ⟨.X, #[2, 3, 1, 4]⟩]
def hopfM : Link := #[⟨.Xm, #[4, 1, 3, 2]⟩, ⟨.Xm, #[2, 3, 1, 4]⟩]
def freeX : Link := #[⟨.X, #[1, 2, 3, 4]⟩]

theorem qsort6 : (#[1, 4, 2, 5, 3, 6] : Array Nat).qsort (· < ·) = #[1, 2, 3, 4, 5, 6] := by
  simp [Array.qsort, Array.qsort.sort, Array.qpartition, Array.qpartition.loop]

theorem qsort4 : (#[4, 1, 3, 2] : Array Nat).qsort (· < ·) = #[1, 2, 3, 4] := by
  simp [Array.qsort, Array.qsort.sort, Array.qpartition, Array.qpartition.loop]

theorem qsort4' : (#[1, 2, 3, 4] : Array Nat).qsort (· < ·) = #[1, 2, 3, 4] := by
  simp [Array.qsort, Array.qsort.sort, Array.qpartition, Array.qpartition.loop]

theorem edgeLabels_trefoilM : edgeLabels trefoilM = #[1, 2, 3, 4, 5, 6] := by
  rw [edgeLabels_eq, show preLabels trefoilM = #[1, 4, 2, 5, 3, 6] by decide +kernel, qsort6]

theorem edgeLabels_trefoilX : edgeLabels trefoilX = #[1, 2, 3, 4, 5, 6] := by
  rw [edgeLabels_eq, show preLabels trefoilX = #[1, 4, 2, 5, 3, 6] by decide +kernel, qsort6]

theorem edgeLabels_hopfM : edgeLabels hopfM = #[1, 2, 3, 4] := by
  rw [edgeLabels_eq, show preLabels hopfM = #[4, 1, 3, 2] by decide +kernel, qsort4]

theorem edgeLabels_hopfX : edgeLabels hopfX = #[1, 2, 3, 4] := by
  rw [edgeLabels_eq, show preLabels hopfX = #[4, 1, 3, 2] by decide +kernel, qsort4]

theorem edgeLabels_free : edgeLabels freeX = #[1, 2, 3, 4] := by
  rw [edgeLabels_eq, show preLabels freeX = #[1, 2, 3, 4] by decide +kernel, qsort4']

end Yuiv.C06Cycle
