import Yuiv.Proofs.SnfUnique
import Mathlib.LinearAlgebra.Matrix.Rank
import Mathlib.LinearAlgebra.Matrix.Determinant.Basic
/-
Rank form of the invariants (M1), (M2): for a Smith form `D = U·A·V` over ℤ and a ring homomorphism `f : ℤ → K` into a
domain (`K = ℚ`: the rank; `K = ℤ/p`: the rank modulo `p`) the rank of `A` mapped to `K` is the number of diagonal
entries of `D` that `f` does not kill.
-/
namespace Yuiv.SnfUnique
open Matrix Finset

variable {m n : ℕ} {K : Type} [CommRing K] [IsDomain K]

/-- a rectangular matrix `diag(a_0, …, a_{r1-1}, 0, …)` with non-zero `a_i` has rank `r1` (private copy of
`C07.rank_diag_formK`) -/
theorem rank_diag_form' {r c r1 : Nat} (S : Matrix (Fin r) (Fin c) K) (a : Nat → K) (h1 : r1 ≤ r) (h2 : r1 ≤ c)
    (hdiag : ∀ i j, S i j = if i.val = j.val ∧ i.val < r1 then a i.val else 0) (ha : ∀ i, i < r1 → a i ≠ 0) :
    S.rank = r1 := by
  apply le_antisymm
  · have hsub : Function.support S.row ⊆ ↑(Finset.univ.filter fun i : Fin r => i.val < r1) := by
      intro i hi
      simp only [Finset.coe_filter, Finset.mem_univ, true_and, Set.mem_ofPred_eq]
      by_contra hlt
      apply hi
      funext j
      simp [Matrix.row, hdiag, hlt]
    refine (rank_le_card_of_support_subset S _ hsub).trans ?_
    calc (Finset.univ.filter fun i : Fin r => i.val < r1).card ≤ (Finset.range r1).card :=
          Finset.card_le_card_of_injOn Fin.val (by intro i hi; simpa using hi) Fin.val_injective.injOn
      _ = r1 := Finset.card_range r1
  · have hsub : S.submatrix (Fin.castLE h1) (Fin.castLE h2) = diagonal (fun i : Fin r1 => a i.val) := by
      ext i j
      simp only [submatrix_apply, hdiag, Fin.val_castLE, diagonal_apply, Fin.ext_iff, i.isLt, and_true]
    have := rank_submatrix_le S (Fin.castLE h1) (Fin.castLE h2)
    rw [hsub, rank_of_det_ne_zero (by
      rw [det_diagonal]; exact Finset.prod_ne_zero_iff.2 (fun i _ => ha i.val i.isLt))] at this
    simpa using this

/-- a downward closed predicate on `[0, N)` is an initial segment -/
theorem initial_segment (P : ℕ → Prop) (hP : ∀ k, P (k + 1) → P k) (N : ℕ) :
    ∃ r, r ≤ N ∧ ∀ k, k < N → (P k ↔ k < r) := by
  have hdown : ∀ j k, P (k + j) → P k := by
    intro j
    induction j with
    | zero => intro k h; exact h
    | succ j ih => intro k h; exact ih k (hP _ h)
  induction N with
  | zero => exact ⟨0, le_refl _, fun k hk => by omega⟩
  | succ N ih =>
    obtain ⟨r, hr, hk⟩ := ih
    by_cases hPN : P N
    · refine ⟨N + 1, le_refl _, fun k hk' => ⟨fun _ => hk', fun _ => ?_⟩⟩
      have : N = k + (N - k) := by omega
      exact hdown (N - k) k (this ▸ hPN)
    · refine ⟨r, by omega, fun k hk' => ?_⟩
      by_cases hkN : k < N
      · exact hk k hkN
      · have : k = N := by omega
        subst this
        exact ⟨fun h => absurd h hPN, fun h => by omega⟩

theorem card_filter_initial (P : ℕ → Prop) [DecidablePred P] (N r : ℕ) (hr : r ≤ N)
    (h : ∀ k, k < N → (P k ↔ k < r)) : #{k ∈ range N | P k} = r := by
  have : (range N).filter P = range r := by
    ext k
    simp only [mem_filter, mem_range]
    constructor
    · rintro ⟨hk, hp⟩; exact (h k hk).1 hp
    · intro hk; exact ⟨by omega, (h k (by omega)).2 hk⟩
  rw [this, card_range]

/-- the rank over `K` of a Smith diagonal mapped by `f` is the number of diagonal entries not killed by `f` -/
theorem rank_map_smith (f : ℤ →+* K) (D : Matrix (Fin m) (Fin n) ℤ) (hD : IsSmith D)
    [DecidablePred fun k => f (dgM D k) ≠ 0] :
    (D.map f).rank = #{k ∈ range (min m n) | f (dgM D k) ≠ 0} := by
  obtain ⟨r, hr, hk⟩ := initial_segment (fun k => f (dgM D k) ≠ 0) (fun k h h0 => by
    obtain ⟨c, hc⟩ := hD.chain k
    apply h
    rw [hc, map_mul, h0, zero_mul]) (min m n)
  rw [card_filter_initial _ (min m n) r hr hk]
  refine rank_diag_form' (D.map f) (fun k => f (dgM D k)) (by omega) (by omega) ?_ ?_
  · intro i j
    simp only [Matrix.map_apply]
    by_cases hij : i.1 = j.1
    · have hd : D i j = dgM D i.1 := by
        unfold dgM
        rw [dif_pos ⟨i.2, hij ▸ j.2⟩]
        congr 1
        exact Fin.ext hij.symm
      rw [hd]
      by_cases hir : i.1 < r
      · rw [if_pos ⟨hij, hir⟩]
      · rw [if_neg (fun h => hir h.2)]
        have := (hk i.1 (by have := i.2; have := j.2; omega)).not.2 hir
        simpa using this
    · rw [if_neg (fun h => hij h.1), hD.diag i j hij, map_zero]
  · intro i hi
    exact (hk i (by omega)).2 hi

omit [IsDomain K] in
/-- … and it equals the rank of every `A` with `D = U·A·V`, `U`, `V` invertible over ℤ -/
theorem rank_map_eq_of_equiv (f : ℤ →+* K) (A : Matrix (Fin m) (Fin n) ℤ) (U : Matrix (Fin m) (Fin m) ℤ)
    (V : Matrix (Fin n) (Fin n) ℤ) (hU : IsUnit U.det) (hV : IsUnit V.det) :
    ((U * A * V).map f).rank = (A.map f).rank := by
  have hU' : IsUnit (U.map f).det := by
    have := hU.map f
    rwa [RingHom.map_det, RingHom.mapMatrix_apply] at this
  have hV' : IsUnit (V.map f).det := by
    have := hV.map f
    rwa [RingHom.map_det, RingHom.mapMatrix_apply] at this
  rw [Matrix.map_mul, Matrix.map_mul, rank_mul_eq_left_of_isUnit_det _ _ hV', rank_mul_eq_right_of_isUnit_det _ _ hU']

end Yuiv.SnfUnique
