import Yuiv.Proofs.C04MarkovR3c
import Yuiv.Proofs.C04MarkovConj2
/-
C04Markov (helper, no property theorem here): the elementary moves as instances of `JInv`, the signed variants of the
braid relation derived from the all-positive one and Reidemeister II, the inductive relations `MarkovMove` /
`MarkovEq`.
-/
open Yuiv.KhRef Yuiv.C04
namespace Yuiv.C04Inv
open Relation
open Yuiv.C18 (closureStep closurePD closure connRename hasFreeLoop CInv PD flatPD fromPD4)
open Yuiv.C18Bridge (toKh crossingKh)

/-- the closure of the word exists -/
def ClosureOk (n : Nat) (w : List Int) : Prop := ∃ l, closure n w = .ok l

/-! ### the elementary moves -/

theorem jinv_r2 (n : Nat) (u1 u2 : List Int) (s : Int) : JInv n (u1 ++ u2) n (u1 ++ [s, -s] ++ u2) :=
  fun l l' h h' => r2_braid_jones_signs n u1 u2 s l l' h h'

theorem jinv_far (n : Nat) (w1 w2 : List Int) (s t : Int)
    (hfar : s.natAbs + 2 ≤ t.natAbs ∨ t.natAbs + 2 ≤ s.natAbs) :
    JInv n (w1 ++ [s, t] ++ w2) n (w1 ++ [t, s] ++ w2) := by
  refine jinv_of_stateSum n _ _ ?_ (by simp) ?_
  · simp [C18.expSum_eq_sum]; omega
  · intro l l' h h' q qinv _
    exact far_stateSum _ _ n w1 w2 s t l l' hfar h h'

theorem jinv_conj (n : Nat) (w : List Int) (s : Int) : JInv n (w ++ [s]) n ([s] ++ w) := by
  refine jinv_of_stateSum n _ _ ?_ (by simp) ?_
  · simp [C18.expSum_eq_sum]; omega
  · intro l l' h h' q qinv _
    exact conj_stateSum _ _ n w s l l' h h'

theorem jinv_r3_pos (n p : Nat) (w1 w2 : List Int) :
    JInv n (w1 ++ [((p + 1 : Nat) : Int), ((p + 2 : Nat) : Int), ((p + 1 : Nat) : Int)] ++ w2)
      n (w1 ++ [((p + 2 : Nat) : Int), ((p + 1 : Nat) : Int), ((p + 2 : Nat) : Int)] ++ w2) := by
  refine jinv_of_stateSum n _ _ ?_ (by simp) ?_
  · have e1 : Int.sign ((p : Int) + 1) = 1 := Int.sign_eq_one_of_pos (by omega)
    have e2 : Int.sign ((p : Int) + 2) = 1 := Int.sign_eq_one_of_pos (by omega)
    simp [C18.expSum_eq_sum, e1, e2]
  · intro l l' h h' q qinv hq
    exact r3_pos_stateSum _ _ (bigon_cancel q qinv hq) n p w1 w2 l l' h h'

theorem jinv_stab (n : Nat) (w : List Int) (s : Int) (hs : s.natAbs = n) (hn : 0 < n) :
    JInv n w (n + 1) (w ++ [s]) := by
  intro l l' h h'
  obtain ⟨l'', sg, sg', h1, h2, h3, h4, h5⟩ := r1_markov_jones_signs n w s l h hs hn
  rw [h1] at h'; cases h'
  exact ⟨sg, sg', h2, h3, h4, h5⟩

/-! ### existence of closures -/

/-- every letter of a word whose closure exists is in range -/
theorem letter_range (n : Nat) (w1 : List Int) (s : Int) (w2 : List Int) (h : ClosureOk n (w1 ++ s :: w2)) :
    s ≠ 0 ∧ s.natAbs < n := by
  obtain ⟨l, hl⟩ := h
  obtain ⟨st, hf, _⟩ := closure_stateSum (R := Int) 0 0 n _ l hl
  obtain ⟨st1, hf1, hr⟩ := (foldlM_append_ok _ _ _ _ _).1 hf
  have hI := C18.cinv_foldl n w1 _ st1 (C18.cinv_init n) hf1
  simp only [List.foldlM_cons] at hr
  cases hq : closureStep st1 s with
  | panic => rw [hq] at hr; cases hr
  | err => rw [hq] at hr; cases hr
  | ok q =>
    obtain ⟨c, bot, pd⟩ := st1
    obtain ⟨_, _, hs0, _, hb, _⟩ := step_explicit hq
    have := hI.len
    simp only at this
    exact ⟨hs0, by omega⟩

theorem ok_r2 (n : Nat) (u1 u2 : List Int) (s : Int) (h : ClosureOk n (u1 ++ u2)) (hs0 : s ≠ 0) (hsn : s.natAbs < n) :
    ClosureOk n (u1 ++ [s, -s] ++ u2) := by
  obtain ⟨l, hl⟩ := h
  exact braid_r2_exists n u1 u2 s l hl hs0 hsn

/-- insertion of a cancelling pair inside the middle part of `w₁ ++ (xs ++ w₂)` -/
theorem jinv_ins (n : Nat) (w1 w2 u v : List Int) (s : Int) :
    JInv n (w1 ++ ((u ++ v) ++ w2)) n (w1 ++ ((u ++ [s, -s] ++ v) ++ w2)) := by
  have := jinv_r2 n (w1 ++ u) (v ++ w2) s
  simpa [List.append_assoc] using this

theorem ok_ins (n : Nat) (w1 w2 u v : List Int) (s : Int) (h : ClosureOk n (w1 ++ ((u ++ v) ++ w2))) (hs0 : s ≠ 0)
    (hsn : s.natAbs < n) : ClosureOk n (w1 ++ ((u ++ [s, -s] ++ v) ++ w2)) := by
  have := ok_r2 n (w1 ++ u) (v ++ w2) s (by simpa [List.append_assoc] using h) hs0 hsn
  simpa [List.append_assoc] using this

/-! ### signed variants of the braid relation, from the positive one and Reidemeister II -/

section
variable (n p : Nat) (w1 w2 : List Int)

local notation "a" => ((p + 1 : Nat) : Int)
local notation "b" => ((p + 2 : Nat) : Int)

theorem range_ab (x y z : Int) (hx : x.natAbs = p + 1 ∨ x.natAbs = p + 2) (hy : y.natAbs = p + 2 ∨ x.natAbs = p + 2)
    (h : ClosureOk n (w1 ++ ([x, y, z] ++ w2))) : p + 2 < n := by
  rcases hx with hx | hx
  · rcases hy with hy | hy
    · have := (letter_range n (w1 ++ [x]) y (z :: w2) (by simpa [List.append_assoc] using h)).2; omega
    · omega
  · have := (letter_range n w1 x (y :: z :: w2) (by simpa using h)).2; omega

/-- `σᵢ⁻¹σᵢ₊₁⁻¹σᵢ⁻¹ = σᵢ₊₁⁻¹σᵢ⁻¹σᵢ₊₁⁻¹` -/
theorem jinv_r3_neg : JInv n (w1 ++ [-a, -b, -a] ++ w2) n (w1 ++ [-b, -a, -b] ++ w2) := by
  intro l l' h h'
  have exS : ClosureOk n (w1 ++ ([-a, -b, -a] ++ w2)) := ⟨l, by simpa [List.append_assoc] using h⟩
  have exT : ClosureOk n (w1 ++ ([-b, -a, -b] ++ w2)) := ⟨l', by simpa [List.append_assoc] using h'⟩
  have hn : p + 2 < n := range_ab n p w1 w2 (-a) (-b) (-a) (Or.inl (by omega)) (Or.inl (by omega)) exS
  have ha0 : a ≠ 0 := by omega
  have hb0 : b ≠ 0 := by omega
  have han : (a).natAbs < n := by omega
  have hbn : (b).natAbs < n := by omega
  have hA0 : -a ≠ 0 := by omega
  have hB0 : -b ≠ 0 := by omega
  have hAn : (-a).natAbs < n := by omega
  have hBn : (-b).natAbs < n := by omega
  -- the words
  have exS1 : ClosureOk n (w1 ++ ([-a, -b, -a, b, -b] ++ w2)) := by
    have := ok_ins n w1 w2 [-a, -b, -a] [] b (by simpa using exS) hb0 hbn; simpa using this
  have exS2 : ClosureOk n (w1 ++ ([-a, -b, -a, b, a, -a, -b] ++ w2)) := by
    have := ok_ins n w1 w2 [-a, -b, -a, b] [-b] a (by simpa using exS1) ha0 han; simpa using this
  have exS3 : ClosureOk n (w1 ++ ([-a, -b, -a, b, a, b, -b, -a, -b] ++ w2)) := by
    have := ok_ins n w1 w2 [-a, -b, -a, b, a] [-a, -b] b (by simpa using exS2) hb0 hbn; simpa using this
  have exT1 : ClosureOk n (w1 ++ ([-a, a, -b, -a, -b] ++ w2)) := by
    have := ok_ins n w1 w2 [] [-b, -a, -b] (-a) (by simpa using exT) hA0 hAn; simpa using this
  have exT2 : ClosureOk n (w1 ++ ([-a, -b, b, a, -b, -a, -b] ++ w2)) := by
    have := ok_ins n w1 w2 [-a] [a, -b, -a, -b] (-b) (by simpa using exT1) hB0 hBn; simpa using this
  have exS4 : ClosureOk n (w1 ++ ([-a, -b, -a, a, b, a, -b, -a, -b] ++ w2)) := by
    have := ok_ins n w1 w2 [-a, -b] [b, a, -b, -a, -b] (-a) (by simpa using exT2) hA0 hAn; simpa using this
  -- the chain
  have j1 : JInv n (w1 ++ ([-a, -b, -a] ++ w2)) n (w1 ++ ([-a, -b, -a, b, -b] ++ w2)) := by
    have := jinv_ins n w1 w2 [-a, -b, -a] [] b; simpa using this
  have j2 : JInv n (w1 ++ ([-a, -b, -a, b, -b] ++ w2)) n (w1 ++ ([-a, -b, -a, b, a, -a, -b] ++ w2)) := by
    have := jinv_ins n w1 w2 [-a, -b, -a, b] [-b] a; simpa using this
  have j3 : JInv n (w1 ++ ([-a, -b, -a, b, a, -a, -b] ++ w2)) n (w1 ++ ([-a, -b, -a, b, a, b, -b, -a, -b] ++ w2)) := by
    have := jinv_ins n w1 w2 [-a, -b, -a, b, a] [-a, -b] b; simpa using this
  have j4 : JInv n (w1 ++ ([-a, -b, -a, b, a, b, -b, -a, -b] ++ w2)) n (w1 ++ ([-a, -b, -a, a, b, a, -b, -a, -b] ++ w2)) := by
    have := (jinv_r3_pos n p (w1 ++ [-a, -b, -a]) ([-b, -a, -b] ++ w2)).symm; simpa [List.append_assoc] using this
  have j5 : JInv n (w1 ++ ([-a, -b, b, a, -b, -a, -b] ++ w2)) n (w1 ++ ([-a, -b, -a, a, b, a, -b, -a, -b] ++ w2)) := by
    have := jinv_ins n w1 w2 [-a, -b] [b, a, -b, -a, -b] (-a); simpa using this
  have j6 : JInv n (w1 ++ ([-a, a, -b, -a, -b] ++ w2)) n (w1 ++ ([-a, -b, b, a, -b, -a, -b] ++ w2)) := by
    have := jinv_ins n w1 w2 [-a] [a, -b, -a, -b] (-b); simpa using this
  have j7 : JInv n (w1 ++ ([-b, -a, -b] ++ w2)) n (w1 ++ ([-a, a, -b, -a, -b] ++ w2)) := by
    have := jinv_ins n w1 w2 [] [-b, -a, -b] (-a); simpa using this
  have J := ((((((j1.trans j2 exS1).trans j3 exS2).trans j4 exS3).trans j5.symm exS4).trans j6.symm exT2).trans
    j7.symm exT1)
  exact J l l' (by simpa [List.append_assoc] using h) (by simpa [List.append_assoc] using h')

/-- `σᵢσᵢ₊₁σᵢ⁻¹ = σᵢ₊₁⁻¹σᵢσᵢ₊₁` -/
theorem jinv_r3_abA : JInv n (w1 ++ [a, b, -a] ++ w2) n (w1 ++ [-b, a, b] ++ w2) := by
  intro l l' h h'
  have exS : ClosureOk n (w1 ++ ([a, b, -a] ++ w2)) := ⟨l, by simpa [List.append_assoc] using h⟩
  have exT : ClosureOk n (w1 ++ ([-b, a, b] ++ w2)) := ⟨l', by simpa [List.append_assoc] using h'⟩
  have hn : p + 2 < n := range_ab n p w1 w2 _ _ _ (Or.inl (by omega)) (Or.inl (by omega)) exS
  have exS1 : ClosureOk n (w1 ++ ([-b, b, a, b, -a] ++ w2)) := by
    have := ok_ins n w1 w2 [] [a, b, -a] (-b) (by simpa using exS) (by omega) (by omega); simpa using this
  have exS2 : ClosureOk n (w1 ++ ([-b, a, b, a, -a] ++ w2)) := by
    have := ok_ins n w1 w2 [-b, a, b] [] (a) (by simpa using exT) (by omega) (by omega); simpa using this
  have j1 : JInv n (w1 ++ ([a, b, -a] ++ w2)) n (w1 ++ ([-b, b, a, b, -a] ++ w2)) := by
    have := jinv_ins n w1 w2 [] [a, b, -a] (-b); simpa using this
  have j2 : JInv n (w1 ++ ([-b, a, b, a, -a] ++ w2)) n (w1 ++ ([-b, b, a, b, -a] ++ w2)) := by
    have := jinv_r3_pos n p (w1 ++ [-b]) ([-a] ++ w2); simpa [List.append_assoc] using this
  have j3 : JInv n (w1 ++ ([-b, a, b] ++ w2)) n (w1 ++ ([-b, a, b, a, -a] ++ w2)) := by
    have := jinv_ins n w1 w2 [-b, a, b] [] (a); simpa using this
  have J := ((j1.trans j2.symm exS1).trans j3.symm exS2)
  exact J l l' (by simpa [List.append_assoc] using h) (by simpa [List.append_assoc] using h')

/-- `σᵢ⁻¹σᵢ₊₁σᵢ = σᵢ₊₁σᵢσᵢ₊₁⁻¹` -/
theorem jinv_r3_Aba : JInv n (w1 ++ [-a, b, a] ++ w2) n (w1 ++ [b, a, -b] ++ w2) := by
  intro l l' h h'
  have exS : ClosureOk n (w1 ++ ([-a, b, a] ++ w2)) := ⟨l, by simpa [List.append_assoc] using h⟩
  have exT : ClosureOk n (w1 ++ ([b, a, -b] ++ w2)) := ⟨l', by simpa [List.append_assoc] using h'⟩
  have hn : p + 2 < n := range_ab n p w1 w2 _ _ _ (Or.inl (by omega)) (Or.inl (by omega)) exS
  have exS1 : ClosureOk n (w1 ++ ([-a, b, a, b, -b] ++ w2)) := by
    have := ok_ins n w1 w2 [-a, b, a] [] (b) (by simpa using exS) (by omega) (by omega); simpa using this
  have exS2 : ClosureOk n (w1 ++ ([-a, a, b, a, -b] ++ w2)) := by
    have := ok_ins n w1 w2 [] [b, a, -b] (-a) (by simpa using exT) (by omega) (by omega); simpa using this
  have j1 : JInv n (w1 ++ ([-a, b, a] ++ w2)) n (w1 ++ ([-a, b, a, b, -b] ++ w2)) := by
    have := jinv_ins n w1 w2 [-a, b, a] [] (b); simpa using this
  have j2 : JInv n (w1 ++ ([-a, a, b, a, -b] ++ w2)) n (w1 ++ ([-a, b, a, b, -b] ++ w2)) := by
    have := jinv_r3_pos n p (w1 ++ [-a]) ([-b] ++ w2); simpa [List.append_assoc] using this
  have j3 : JInv n (w1 ++ ([b, a, -b] ++ w2)) n (w1 ++ ([-a, a, b, a, -b] ++ w2)) := by
    have := jinv_ins n w1 w2 [] [b, a, -b] (-a); simpa using this
  have J := ((j1.trans j2.symm exS1).trans j3.symm exS2)
  exact J l l' (by simpa [List.append_assoc] using h) (by simpa [List.append_assoc] using h')

/-- `σᵢσᵢ₊₁⁻¹σᵢ⁻¹ = σᵢ₊₁⁻¹σᵢ⁻¹σᵢ₊₁` -/
theorem jinv_r3_aBA : JInv n (w1 ++ [a, -b, -a] ++ w2) n (w1 ++ [-b, -a, b] ++ w2) := by
  intro l l' h h'
  have exS : ClosureOk n (w1 ++ ([a, -b, -a] ++ w2)) := ⟨l, by simpa [List.append_assoc] using h⟩
  have exT : ClosureOk n (w1 ++ ([-b, -a, b] ++ w2)) := ⟨l', by simpa [List.append_assoc] using h'⟩
  have hn : p + 2 < n := range_ab n p w1 w2 _ _ _ (Or.inl (by omega)) (Or.inl (by omega)) exS
  have exS1 : ClosureOk n (w1 ++ ([a, -b, -a, -b, b] ++ w2)) := by
    have := ok_ins n w1 w2 [a, -b, -a] [] (-b) (by simpa using exS) (by omega) (by omega); simpa using this
  have exS2 : ClosureOk n (w1 ++ ([a, -a, -b, -a, b] ++ w2)) := by
    have := ok_ins n w1 w2 [] [-b, -a, b] (a) (by simpa using exT) (by omega) (by omega); simpa using this
  have j1 : JInv n (w1 ++ ([a, -b, -a] ++ w2)) n (w1 ++ ([a, -b, -a, -b, b] ++ w2)) := by
    have := jinv_ins n w1 w2 [a, -b, -a] [] (-b); simpa using this
  have j2 : JInv n (w1 ++ ([a, -a, -b, -a, b] ++ w2)) n (w1 ++ ([a, -b, -a, -b, b] ++ w2)) := by
    have := jinv_r3_neg n p (w1 ++ [a]) ([b] ++ w2); simpa [List.append_assoc] using this
  have j3 : JInv n (w1 ++ ([-b, -a, b] ++ w2)) n (w1 ++ ([a, -a, -b, -a, b] ++ w2)) := by
    have := jinv_ins n w1 w2 [] [-b, -a, b] (a); simpa using this
  have J := ((j1.trans j2.symm exS1).trans j3.symm exS2)
  exact J l l' (by simpa [List.append_assoc] using h) (by simpa [List.append_assoc] using h')

/-- `σᵢ⁻¹σᵢ₊₁⁻¹σᵢ = σᵢ₊₁σᵢ⁻¹σᵢ₊₁⁻¹` -/
theorem jinv_r3_ABa : JInv n (w1 ++ [-a, -b, a] ++ w2) n (w1 ++ [b, -a, -b] ++ w2) := by
  intro l l' h h'
  have exS : ClosureOk n (w1 ++ ([-a, -b, a] ++ w2)) := ⟨l, by simpa [List.append_assoc] using h⟩
  have exT : ClosureOk n (w1 ++ ([b, -a, -b] ++ w2)) := ⟨l', by simpa [List.append_assoc] using h'⟩
  have hn : p + 2 < n := range_ab n p w1 w2 _ _ _ (Or.inl (by omega)) (Or.inl (by omega)) exS
  have exS1 : ClosureOk n (w1 ++ ([b, -b, -a, -b, a] ++ w2)) := by
    have := ok_ins n w1 w2 [] [-a, -b, a] (b) (by simpa using exS) (by omega) (by omega); simpa using this
  have exS2 : ClosureOk n (w1 ++ ([b, -a, -b, -a, a] ++ w2)) := by
    have := ok_ins n w1 w2 [b, -a, -b] [] (-a) (by simpa using exT) (by omega) (by omega); simpa using this
  have j1 : JInv n (w1 ++ ([-a, -b, a] ++ w2)) n (w1 ++ ([b, -b, -a, -b, a] ++ w2)) := by
    have := jinv_ins n w1 w2 [] [-a, -b, a] (b); simpa using this
  have j2 : JInv n (w1 ++ ([b, -a, -b, -a, a] ++ w2)) n (w1 ++ ([b, -b, -a, -b, a] ++ w2)) := by
    have := jinv_r3_neg n p (w1 ++ [b]) ([a] ++ w2); simpa [List.append_assoc] using this
  have j3 : JInv n (w1 ++ ([b, -a, -b] ++ w2)) n (w1 ++ ([b, -a, -b, -a, a] ++ w2)) := by
    have := jinv_ins n w1 w2 [b, -a, -b] [] (-a); simpa using this
  have J := ((j1.trans j2.symm exS1).trans j3.symm exS2)
  exact J l l' (by simpa [List.append_assoc] using h) (by simpa [List.append_assoc] using h')

end

/-! ### the elementary Markov moves -/

/-- the elementary moves on (number of strands, braid word).  `braid` : the braid relation with signs
`(e₁,e₂,e₃) ∈ {±1}³`, `e₁ = e₂ ∨ e₂ = e₃` (the six signed forms of `σᵢσᵢ₊₁σᵢ = σᵢ₊₁σᵢσᵢ₊₁`), `i = p + 1` -/
inductive MarkovMove : Nat → List Int → Nat → List Int → Prop
  | r2 (n : Nat) (w1 w2 : List Int) (s : Int) : MarkovMove n (w1 ++ w2) n (w1 ++ [s, -s] ++ w2)
  | far (n : Nat) (w1 w2 : List Int) (s t : Int) (h : s.natAbs + 2 ≤ t.natAbs ∨ t.natAbs + 2 ≤ s.natAbs) :
      MarkovMove n (w1 ++ [s, t] ++ w2) n (w1 ++ [t, s] ++ w2)
  | braid (n p : Nat) (w1 w2 : List Int) (e1 e2 e3 : Int) (h1 : e1 = 1 ∨ e1 = -1) (h2 : e2 = 1 ∨ e2 = -1)
      (h3 : e3 = 1 ∨ e3 = -1) (hv : e1 = e2 ∨ e2 = e3) :
      MarkovMove n (w1 ++ [e1 * ((p + 1 : Nat) : Int), e2 * ((p + 2 : Nat) : Int), e3 * ((p + 1 : Nat) : Int)] ++ w2)
        n (w1 ++ [e3 * ((p + 2 : Nat) : Int), e2 * ((p + 1 : Nat) : Int), e1 * ((p + 2 : Nat) : Int)] ++ w2)
  | conj (n : Nat) (w : List Int) (s : Int) : MarkovMove n (w ++ [s]) n ([s] ++ w)
  | stab (n : Nat) (w : List Int) (s : Int) (hs : s.natAbs = n) (hn : 0 < n) : MarkovMove n w (n + 1) (w ++ [s])

theorem jinv_of_move {n n' : Nat} {w w' : List Int} (h : MarkovMove n w n' w') : JInv n w n' w' := by
  cases h with
  | r2 w1 w2 s => exact jinv_r2 n w1 w2 s
  | far w1 w2 s t h => exact jinv_far n w1 w2 s t h
  | braid p w1 w2 e1 e2 e3 h1 h2 h3 hv =>
    rcases h1 with rfl | rfl <;> rcases h2 with rfl | rfl <;> rcases h3 with rfl | rfl <;>
      simp only [Int.one_mul, Int.neg_mul] at hv ⊢
    · exact jinv_r3_pos n p w1 w2
    · exact jinv_r3_abA n p w1 w2
    · exact absurd hv (by decide)
    · exact jinv_r3_aBA n p w1 w2
    · exact jinv_r3_Aba n p w1 w2
    · exact absurd hv (by decide)
    · exact jinv_r3_ABa n p w1 w2
    · exact jinv_r3_neg n p w1 w2
  | conj w s => exact jinv_conj n w s
  | stab w s hs hn => exact jinv_stab n w s hs hn

/-- the equivalence generated by the elementary moves, passing only through words whose closure exists -/
inductive MarkovEq : Nat → List Int → Nat → List Int → Prop
  | move {n n' : Nat} {w w' : List Int} : MarkovMove n w n' w' → MarkovEq n w n' w'
  | refl (n : Nat) (w : List Int) : MarkovEq n w n w
  | symm {n n' : Nat} {w w' : List Int} : MarkovEq n w n' w' → MarkovEq n' w' n w
  | trans {n n' n'' : Nat} {w w' w'' : List Int} : MarkovEq n w n' w' → ClosureOk n' w' → MarkovEq n' w' n'' w'' →
      MarkovEq n w n'' w''

theorem jinv_of_eq {n n' : Nat} {w w' : List Int} (h : MarkovEq n w n' w') : JInv n w n' w' := by
  induction h with
  | move h => exact jinv_of_move h
  | refl n w => exact JInv.refl n w
  | symm _ ih => exact ih.symm
  | trans _ hex _ ih1 ih2 => exact ih1.trans ih2 hex

/-- conjugation by a letter: `w ↦ [s] ++ w ++ [−s]` (Reidemeister II + cyclic rotation) -/
theorem markovEq_conj_letter (n : Nat) (w : List Int) (s : Int) (hw : ClosureOk n w) (hs0 : s ≠ 0) (hsn : s.natAbs < n) :
    MarkovEq n w n ([s] ++ w ++ [-s]) ∧ ClosureOk n (w ++ [-s, s]) := by
  have ex1 : ClosureOk n (w ++ [-s, s]) := by
    have := ok_r2 n w [] (-s) (by simpa using hw) (by omega) (by simpa using hsn)
    simpa using this
  have m1 : MarkovEq n w n (w ++ [-s, s]) := by
    have := MarkovEq.move (MarkovMove.r2 n w [] (-s)); simpa using this
  have m2 : MarkovEq n (w ++ [-s, s]) n ([s] ++ w ++ [-s]) := by
    have := MarkovEq.move (MarkovMove.conj n (w ++ [-s]) s); simpa [List.append_assoc] using this
  exact ⟨m1.trans ex1 m2, ex1⟩

theorem isOk_ok {r : Res C18.Link} (hr : r.isOk = true) : ∃ a, r = .ok a := by
  cases r <;> simp [Res.isOk] at hr ⊢

end Yuiv.C04Inv
