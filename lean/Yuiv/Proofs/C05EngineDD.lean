import Yuiv.Props.C05Engine
import Mathlib.Algebra.BigOperators.Group.Finset.Basic
import Mathlib.Algebra.BigOperators.Ring.Finset
import Mathlib.Tactic.NoncommRing
import Mathlib.Tactic.Abel
/-
C05 (engine) — Gaussian elimination of the MODEL preserves `d ∘ d = 0` when the edge labels live in a ring and the
edge operations are the ring operations: definitions (`ent`, `ddAt`, `DD`, `RingEdgeOps`) and the proof.
The theorem itself is restated in `Yuiv/Props/C05EngineDD.lean`.
-/
namespace Yuiv.C05.Engine
open Yuiv Yuiv.C05 Yuiv.C05.Tng

variable {E : Type} [Ring E]

/-- the entry `k → l` of the differential (`0` when there is no edge) -/
def ent (cx : Cx E) (k l : TKey) : E := (cx.edge? k l).getD 0

/-- the `(k, m)` entry of `d ∘ d`: the sum over all vertices `l` of `d(l → m) · d(k → l)` -/
def ddAt (cx : Cx E) (k m : TKey) : E := ∑ l ∈ (cx.verts.map (·.1)).toFinset, ent cx l m * ent cx k l

/-- `d ∘ d = 0` -/
def DD (cx : Cx E) : Prop := ∀ k m, ddAt cx k m = 0

/-- the edge operations used by `eliminate` are the operations of the ring `E` -/
structure RingEdgeOps (ops : EdgeOps E) : Prop where
  cab : ∀ c ainv b, ops.cab c ainv b = .ok (c * ainv * b)
  sub : ∀ d x, ops.sub d x = d - x
  neg : ∀ x, ops.neg x = -x
  /-- a label that is dropped as zero IS zero -/
  zero : ∀ x, ops.isZero x = true → x = 0
  /-- `inv` returns a two-sided inverse -/
  inv : ∀ a ainv, ops.inv a = .ok ainv → a * ainv = 1 ∧ ainv * a = 1

theorem ent_eliminate (ops : EdgeOps E) (hops : RingEdgeOps ops) (cx cx' : Cx E) (k0 k1 : TKey) (hwf : WF ops cx)
    (h : cx.eliminate ops k0 k1 = .ok cx') :
    ∃ a ainv, cx.edge? k0 k1 = some a ∧ a * ainv = 1 ∧ ainv * a = 1 ∧
      ∀ l0 l1 : TKey,
        ((isPivot k0 k1 l0 = true ∨ isPivot k0 k1 l1 = true) → ent cx' l0 l1 = 0) ∧
        (isPivot k0 k1 l0 = false → isPivot k0 k1 l1 = false →
          ent cx' l0 l1 = ent cx l0 l1 - ent cx k0 l1 * ainv * ent cx l0 k1) := by
  obtain ⟨a, ainv, ha, hi, hE⟩ := eliminate_is_elimEntry ops cx cx' k0 k1 hwf hops.cab hops.sub hops.neg h
  obtain ⟨_, _, _, _, hall⟩ := eliminate_rewrites_edges ops cx cx' k0 k1 hwf h
  obtain ⟨h1, h2⟩ := hops.inv a ainv hi
  refine ⟨a, ainv, ha, h1, h2, ?_⟩
  intro l0 l1
  refine ⟨?_, ?_⟩
  · intro hp
    unfold ent
    rw [(hall l0 l1).1 hp]; rfl
  · intro p0 p1
    unfold ent
    rw [hE l0 l1 p0 p1]
    unfold Deloop.elimEntry
    rcases hb : cx.edge? l0 k1 with _ | b
    · simp
    · rcases hc : cx.edge? k0 l1 with _ | c
      · simp
      · rcases hd : cx.edge? l0 l1 with _ | d
        · simp only [Option.getD_some, Option.getD_none]
          split
          · rename_i hz
            have := hops.zero _ hz
            simp only [Option.getD_none]
            rw [zero_sub, ← this]
          · simp
        · simp only [Option.getD_some]
          split
          · rename_i hz
            have := hops.zero _ hz
            simp only [Option.getD_none]
            rw [← this]
          · simp

/-- removing the two pivots from the index set -/
theorem sum_split_pivots (S : Finset TKey) (k0 k1 : TKey) (h0 : k0 ∈ S) (h1 : k1 ∈ S) (hne : k0 ≠ k1) (f : TKey → E) :
    ∑ l ∈ S, f l = (∑ l ∈ S.filter (fun l => isPivot k0 k1 l = false), f l) + f k0 + f k1 := by
  have e : S.filter (fun l => isPivot k0 k1 l = false) = (S.erase k0).erase k1 := by
    ext x
    simp only [Finset.mem_filter, Finset.mem_erase, isPivot, Bool.or_eq_false_iff, decide_eq_false_iff_not]
    tauto
  have h1' : k1 ∈ S.erase k0 := Finset.mem_erase.2 ⟨fun e => hne e.symm, h1⟩
  rw [e, ← Finset.add_sum_erase S f h0, ← Finset.add_sum_erase (S.erase k0) f h1']
  abel

theorem eliminate_dd (ops : EdgeOps E) (hops : RingEdgeOps ops) (cx cx' : Cx E) (k0 k1 : TKey) (hwf : WF ops cx)
    (hdd : DD cx) (h : cx.eliminate ops k0 k1 = .ok cx') : DD cx' := by
  obtain ⟨a, ainv, ha, hai, hia, hent⟩ := ent_eliminate ops hops cx cx' k0 k1 hwf h
  have hverts := (eliminate_verts ops cx cx' k0 k1 h).1
  -- the pivot edge and its end points
  have hpe := hwf.edge_mem k0 k1 a ha
  obtain ⟨hk0, hk1⟩ := hwf.ends _ hpe
  have hdeg := hwf.deg _ hpe
  simp only at hk0 hk1 hdeg
  have hne : k0 ≠ k1 := by intro e; rw [e] at hdeg; omega
  -- no self loops
  have hself : ∀ x, ent cx x x = 0 := by
    intro x
    unfold ent
    rcases hx : cx.edge? x x with _ | f
    · rfl
    · have := hwf.deg _ (hwf.edge_mem x x f hx)
      simp only at this
      omega
  have hA : ent cx k0 k1 = a := by unfold ent; rw [ha]; rfl
  intro k m
  unfold ddAt
  have hS : (cx'.verts.map (·.1)).toFinset =
      (cx.verts.map (·.1)).toFinset.filter (fun l => isPivot k0 k1 l = false) := by
    rw [hverts]
    ext x
    simp only [List.mem_toFinset, List.mem_map, List.mem_filter, Finset.mem_filter, Bool.not_eq_eq_eq_not, Bool.not_true]
    constructor
    · rintro ⟨v, ⟨hv, hp⟩, rfl⟩; exact ⟨⟨v, hv, rfl⟩, hp⟩
    · rintro ⟨⟨v, hv, rfl⟩, hp⟩; exact ⟨v, ⟨hv, hp⟩, rfl⟩
  rw [hS]
  by_cases pk : isPivot k0 k1 k = true
  · apply Finset.sum_eq_zero
    intro l _
    rw [(hent k l).1 (.inl pk), mul_zero]
  by_cases pm : isPivot k0 k1 m = true
  · apply Finset.sum_eq_zero
    intro l _
    rw [(hent l m).1 (.inr pm), zero_mul]
  have pk' : isPivot k0 k1 k = false := by simpa using pk
  have pm' : isPivot k0 k1 m = false := by simpa using pm
  -- rewrite the entries of the new complex
  have hterm : ∀ l ∈ (cx.verts.map (·.1)).toFinset.filter (fun l => isPivot k0 k1 l = false),
      ent cx' l m * ent cx' k l =
        ent cx l m * ent cx k l - (ent cx l m * ent cx k0 l) * (ainv * ent cx k k1)
          - (ent cx k0 m * ainv) * (ent cx l k1 * ent cx k l)
          + (ent cx k0 m * ainv) * (ent cx l k1 * ent cx k0 l) * (ainv * ent cx k k1) := by
    intro l hl
    have pl : isPivot k0 k1 l = false := (Finset.mem_filter.1 hl).2
    rw [(hent l m).2 pl pm', (hent k l).2 pk' pl]
    noncomm_ring
  rw [Finset.sum_congr rfl hterm]
  simp only [Finset.sum_add_distrib, Finset.sum_sub_distrib, ← Finset.sum_mul, ← Finset.mul_sum]
  -- the four instances of `d ∘ d = 0` of the old complex, split at the pivots
  have hS0 := Finset.mem_coe.1 (List.mem_toFinset.2 hk0)
  have hS1 := Finset.mem_coe.1 (List.mem_toFinset.2 hk1)
  have e1 := hdd k m
  have e2 := hdd k0 m
  have e3 := hdd k k1
  have e4 := hdd k0 k1
  unfold ddAt at e1 e2 e3 e4
  rw [sum_split_pivots _ k0 k1 hS0 hS1 hne] at e1 e2 e3 e4
  rw [hself k0, hA] at e2
  rw [hself k1, hA] at e3
  rw [hself k0, hself k1, hA] at e4
  simp only [mul_zero, zero_mul, add_zero] at e2 e3 e4
  -- solve for the four partial sums
  have s1 := eq_neg_of_add_eq_zero_left e1
  have s4 := e4
  have s2 : ∑ l ∈ (cx.verts.map (·.1)).toFinset.filter (fun l => isPivot k0 k1 l = false),
      ent cx l m * ent cx k0 l = -(ent cx k1 m * a) := eq_neg_of_add_eq_zero_left e2
  have s3 : ∑ l ∈ (cx.verts.map (·.1)).toFinset.filter (fun l => isPivot k0 k1 l = false),
      ent cx l k1 * ent cx k l = -(a * ent cx k k0) := eq_neg_of_add_eq_zero_left e3
  have s1' : ∑ l ∈ (cx.verts.map (·.1)).toFinset.filter (fun l => isPivot k0 k1 l = false),
      ent cx l m * ent cx k l = -(ent cx k0 m * ent cx k k0) - ent cx k1 m * ent cx k k1 := by
    have := e1
    have h' : ∑ l ∈ (cx.verts.map (·.1)).toFinset.filter (fun l => isPivot k0 k1 l = false),
        ent cx l m * ent cx k l = -(ent cx k0 m * ent cx k k0 + ent cx k1 m * ent cx k k1) := by
      apply eq_neg_of_add_eq_zero_left
      rw [← add_assoc]; exact this
    rw [h']; abel
  rw [s1', s2, s3, s4]
  calc -(ent cx k0 m * ent cx k k0) - ent cx k1 m * ent cx k k1 - -(ent cx k1 m * a) * (ainv * ent cx k k1)
        - ent cx k0 m * ainv * -(a * ent cx k k0) + ent cx k0 m * ainv * 0 * (ainv * ent cx k k1)
      = -(ent cx k0 m * ent cx k k0) - ent cx k1 m * ent cx k k1 + ent cx k1 m * (a * ainv) * ent cx k k1
        + ent cx k0 m * (ainv * a) * ent cx k k0 := by noncomm_ring
    _ = 0 := by rw [hai, hia]; noncomm_ring

/-- three levels with composable edges: `u → {k0, l0} → {k1, l1}`, `x = 2, y = 1; a = 1, b = −2, c = 3, d = −6` -/
def toyCube : Cx Int :=
  ⟨0, 0, none, 2,
   [(⟨[false, false], []⟩, []), (⟨[true, false], []⟩, []), (⟨[false, true], []⟩, []),
    (⟨[true, true], [.X]⟩, []), (⟨[true, true], [.I]⟩, [])],
   [((⟨[false, false], []⟩, ⟨[true, false], []⟩), 2), ((⟨[false, false], []⟩, ⟨[false, true], []⟩), 1),
    ((⟨[true, false], []⟩, ⟨[true, true], [.X]⟩), 1), ((⟨[false, true], []⟩, ⟨[true, true], [.X]⟩), -2),
    ((⟨[true, false], []⟩, ⟨[true, true], [.I]⟩), 3), ((⟨[false, true], []⟩, ⟨[true, true], [.I]⟩), -6)]⟩

end Yuiv.C05.Engine
