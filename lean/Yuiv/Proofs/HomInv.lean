import Yuiv.Proofs.SnfUnique
import Mathlib.LinearAlgebra.Pi
import Mathlib.LinearAlgebra.Matrix.ToLin
import Mathlib.LinearAlgebra.Quotient.Basic
import Mathlib.LinearAlgebra.Isomorphisms
import Mathlib.Algebra.Module.Equiv.Basic
/-
Rank and invariant factors are ISOMORPHISM INVARIANTS of a finitely generated ℤ-module — definitions and lemmas (the
property theorems are in `Props/HomInv*.lean`).  Mathlib has the structure theorem but not its uniqueness part; the proof
here is again by COUNTING, re-using the arithmetic core `chain_unique` of `Proofs/SnfUnique.lean`:

* `homCount M q = #Hom_ℤ(M, ℤ/q)` is invariant under `M ≃ₗ[ℤ] M'` (`homCount_congr`);
* `homCount (∏_{i<n} ZMod (c i)) q = ∏_{i<n} cz (c i) q`, `cz c q = #{y ∈ ℤ/q | c·y = 0} = gcd(c, q)`; a free summand is
  `ZMod 0 = ℤ` with `cz 0 q = q` (`homCount_pi_zmod`);
* two divisibility chains (zeros = free part at the END) of lengths `n ≤ n'` with the same products for every `q ≥ 1`
  differ by `n' − n` units in front (`chain_unique_shift`: pad the shorter chain with ones, `cz 1 q = 1`); chains of
  non-units have the same length and agree up to sign (`chain_unique_nonunit`);
* the homology `ker d_out / im d_in` of integer matrices with an answer `(P, Q, c)` in the shape which C07's
  `HomologySpec` asserts is `≃ₗ[ℤ] ∏ ZMod (c i)` (`HZ_present`).
-/
namespace Yuiv.HomInv
open Yuiv.SnfUnique Finset Matrix

/-! ### the invariant: number of homomorphisms to `ℤ/q` -/

/-- `#Hom_ℤ(M, ℤ/q)` (0 if infinite — it is finite for finitely generated `M` and `q ≥ 1`) -/
noncomputable def homCount (M : Type*) [AddCommGroup M] (q : ℕ) : ℕ := Nat.card (M →ₗ[ℤ] ZMod q)

theorem homCount_congr {M M' : Type*} [AddCommGroup M] [AddCommGroup M'] (e : M ≃+ M') (q : ℕ) :
    homCount M q = homCount M' q :=
  Nat.card_congr
    { toFun := fun f => (f.toAddMonoidHom.comp e.symm.toAddMonoidHom).toIntLinearMap
      invFun := fun g => (g.toAddMonoidHom.comp e.toAddMonoidHom).toIntLinearMap
      left_inv := fun f => by ext x; simp
      right_inv := fun g => by ext x; simp }

theorem homCount_prod (A B : Type*) [AddCommGroup A] [AddCommGroup B] (q : ℕ) :
    homCount (A × B) q = homCount A q * homCount B q := by
  unfold homCount
  rw [← Nat.card_prod]
  exact Nat.card_congr (LinearMap.coprodEquiv (R := ℤ) (M := A) (M₂ := B) (M₃ := ZMod q) ℤ).symm.toEquiv

/-- `#Hom(ℤ/t, ℤ/q) = #{y ∈ ℤ/q | t·y = 0}`; for `t = 0` this is `#Hom(ℤ, ℤ/q) = q` -/
theorem homCount_zmod (t q : ℕ) : homCount (ZMod t) q = cz (t : ℤ) q := by
  unfold homCount cz
  apply Nat.card_congr
  refine (addMonoidHomLequivInt (A := ZMod t) (B := ZMod q) ℤ).symm.toEquiv.trans ((ZMod.lift t).symm.trans ?_)
  refine Equiv.subtypeEquiv (zmultiplesHom (ZMod q)).symm ?_
  intro f
  have h1 : f (t : ℤ) = (t : ℤ) • f 1 := by
    rw [← map_zsmul]; simp
  rw [h1, zsmul_eq_mul]
  rfl

theorem homCount_pi {n : ℕ} (A : Fin n → Type*) [∀ i, AddCommGroup (A i)] (q : ℕ) :
    homCount (∀ i, A i) q = ∏ i, homCount (A i) q := by
  unfold homCount
  rw [← Nat.card_pi]
  exact Nat.card_congr (LinearMap.lsum ℤ A ℤ).symm.toEquiv

/-- `#Hom(∏ ℤ/c_i, ℤ/q) = ∏ #{y | c_i·y = 0}` -/
theorem homCount_pi_zmod {n : ℕ} (c : Fin n → ℕ) (q : ℕ) :
    homCount (∀ i, ZMod (c i)) q = ∏ i, cz (c i : ℤ) q := by
  rw [homCount_pi]
  exact Finset.prod_congr rfl fun i _ => homCount_zmod (c i) q

/-! ### arithmetic: chains of different lengths -/

theorem cz_one (q : ℕ) [NeZero q] : cz 1 q = 1 := by
  rw [cz_eq_gcd]; simp

theorem cz_zero (q : ℕ) [NeZero q] : cz 0 q = q := (cz_eq_iff 0 q).2 (dvd_zero _)

/-- the chain `a` with `k` ones in front -/
def pad (k : ℕ) (a : ℕ → ℤ) : ℕ → ℤ := fun i => if i < k then 1 else a (i - k)

theorem pad_chain (k : ℕ) (a : ℕ → ℤ) (h : ∀ i, a i ∣ a (i + 1)) (i : ℕ) : pad k a i ∣ pad k a (i + 1) := by
  unfold pad
  by_cases h1 : i + 1 < k
  · rw [if_pos (by omega), if_pos h1]
  · by_cases h2 : i < k
    · rw [if_pos h2]; exact one_dvd _
    · rw [if_neg h2, if_neg h1, show i + 1 - k = (i - k) + 1 by omega]
      exact h _

theorem prod_pad (k n : ℕ) (a : ℕ → ℤ) (q : ℕ) [NeZero q] :
    ∏ i ∈ range (k + n), cz (pad k a i) q = ∏ i ∈ range n, cz (a i) q := by
  rw [Finset.prod_range_add]
  have h1 : ∏ i ∈ range k, cz (pad k a i) q = 1 := by
    apply Finset.prod_eq_one
    intro i hi
    have : i < k := Finset.mem_range.1 hi
    unfold pad
    rw [if_pos this, cz_one]
  rw [h1, one_mul]
  apply Finset.prod_congr rfl
  intro i _
  unfold pad
  rw [if_neg (by omega), show k + i - k = i by omega]

/-- two divisibility chains of lengths `n ≤ n'` with the same counting products: the longer one starts with `n' − n`
units and then agrees with the shorter one up to sign -/
theorem chain_unique_shift (n n' : ℕ) (hle : n ≤ n') (a b : ℕ → ℤ) (ha : ∀ i, a i ∣ a (i + 1))
    (hb : ∀ i, b i ∣ b (i + 1))
    (hprod : ∀ q : ℕ, 0 < q → ∏ i ∈ range n, cz (a i) q = ∏ i ∈ range n', cz (b i) q) :
    (∀ i, i < n' - n → (b i).natAbs = 1) ∧ ∀ i, i < n → (a i).natAbs = (b (n' - n + i)).natAbs := by
  have key := chain_unique n' (pad (n' - n) a) b (pad_chain _ a ha) hb (by
    intro q hq
    have : NeZero q := ⟨by omega⟩
    rw [← hprod q hq, ← prod_pad (n' - n) n a q, show n' - n + n = n' by omega])
  constructor
  · intro i hi
    have := key i (by omega)
    unfold pad at this
    rw [if_pos hi] at this
    rw [← this]; rfl
  · intro i hi
    have := key (n' - n + i) (by omega)
    unfold pad at this
    rw [if_neg (by omega), show n' - n + i - (n' - n) = i by omega] at this
    exact this

/-- two divisibility chains of NON-UNITS with the same counting products have the same length and agree up to sign -/
theorem chain_unique_nonunit (n n' : ℕ) (a b : ℕ → ℤ) (ha : ∀ i, a i ∣ a (i + 1)) (hb : ∀ i, b i ∣ b (i + 1))
    (hna : ∀ i, i < n → (a i).natAbs ≠ 1) (hnb : ∀ i, i < n' → (b i).natAbs ≠ 1)
    (hprod : ∀ q : ℕ, 0 < q → ∏ i ∈ range n, cz (a i) q = ∏ i ∈ range n', cz (b i) q) :
    n = n' ∧ ∀ i, i < n → (a i).natAbs = (b i).natAbs := by
  rcases Nat.lt_trichotomy n n' with h | h | h
  · exact absurd ((chain_unique_shift n n' (by omega) a b ha hb hprod).1 0 (by omega)) (hnb 0 (by omega))
  · subst h
    refine ⟨rfl, fun i hi => ?_⟩
    have := (chain_unique_shift n n (le_refl _) a b ha hb hprod).2 i hi
    rwa [Nat.sub_self, Nat.zero_add] at this
  · exact absurd ((chain_unique_shift n' n (by omega) b a hb ha (fun q hq => (hprod q hq).symm)).1 0 (by omega))
      (hna 0 (by omega))

/-! ### rank and torsion orders from the counting function `q ↦ q^r · ∏ cz (t u) q` -/

/-- the chain `t 0, …, t (s-1), 0, 0, …` -/
def tz (s : ℕ) (t : ℕ → ℤ) : ℕ → ℤ := fun i => if i < s then t i else 0

theorem tz_chain (s : ℕ) (t : ℕ → ℤ) (hc : ∀ u, u + 1 < s → t u ∣ t (u + 1)) (i : ℕ) : tz s t i ∣ tz s t (i + 1) := by
  unfold tz
  by_cases h : i + 1 < s
  · rw [if_pos (by omega), if_pos h]; exact hc i h
  · rw [if_neg h]; exact dvd_zero _

theorem prod_tz (r s : ℕ) (t : ℕ → ℤ) (q : ℕ) [NeZero q] :
    ∏ i ∈ range (s + r), cz (tz s t i) q = q ^ r * ∏ u ∈ range s, cz (t u) q := by
  rw [Finset.prod_range_add, mul_comm]
  congr 1
  · rw [Finset.prod_congr rfl (g := fun _ => q) (fun i _ => by unfold tz; rw [if_neg (by omega), cz_zero]),
      Finset.prod_const, Finset.card_range]
  · apply Finset.prod_congr rfl
    intro i hi
    unfold tz
    rw [if_pos (Finset.mem_range.1 hi)]

/-- the free rank `r`, the number `s` of torsion orders and the orders `t u` (non-zero non-units, each dividing the next)
are determined up to sign by the function `q ↦ q^r · ∏_{u<s} cz (t u) q` -/
theorem rank_tors_unique_core (r s r' s' : ℕ) (t t' : ℕ → ℤ)
    (ht : ∀ u, u < s → 1 < (t u).natAbs) (ht' : ∀ u, u < s' → 1 < (t' u).natAbs)
    (hc : ∀ u, u + 1 < s → t u ∣ t (u + 1)) (hc' : ∀ u, u + 1 < s' → t' u ∣ t' (u + 1))
    (hprod : ∀ q : ℕ, 0 < q → q ^ r * ∏ u ∈ range s, cz (t u) q = q ^ r' * ∏ u ∈ range s', cz (t' u) q) :
    r = r' ∧ s = s' ∧ ∀ u, u < s → (t u).natAbs = (t' u).natAbs := by
  have hnu : ∀ (s : ℕ) (t : ℕ → ℤ), (∀ u, u < s → 1 < (t u).natAbs) → ∀ i, (tz s t i).natAbs ≠ 1 := by
    intro s t ht i
    unfold tz
    by_cases h : i < s
    · rw [if_pos h]; have := ht i h; omega
    · rw [if_neg h]; simp
  obtain ⟨hlen, heq⟩ := chain_unique_nonunit (s + r) (s' + r') (tz s t) (tz s' t') (tz_chain s t hc)
    (tz_chain s' t' hc') (fun i _ => hnu s t ht i) (fun i _ => hnu s' t' ht' i) (by
      intro q hq
      have : NeZero q := ⟨by omega⟩
      rw [prod_tz, prod_tz, hprod q hq])
  have hs : s = s' := by
    rcases Nat.lt_trichotomy s s' with h | h | h
    · have := heq s (by omega)
      unfold tz at this
      rw [if_neg (by omega), if_pos h] at this
      have := ht' s h
      simp at *; omega
    · exact h
    · have := heq s' (by omega)
      unfold tz at this
      rw [if_pos h, if_neg (by omega)] at this
      have := ht s' h
      simp at *; omega
  refine ⟨by omega, hs, fun u hu => ?_⟩
  have := heq u (by omega)
  unfold tz at this
  rwa [if_pos hu, if_pos (by omega)] at this

/-! ### homology of integer matrices and its presentation -/

/-- `ker d_out / im d_in` for integer matrices (`A : Matrix p q ℤ` maps `q → ℤ` to `p → ℤ`); definitionally the `HMat` of
`Proofs/C08Hom.lean` at `R = ℤ` -/
abbrev HZ {a b c : Type*} [Fintype a] [DecidableEq a] [Fintype b] [DecidableEq b] [Fintype c] [DecidableEq c]
    (dIn : Matrix b a ℤ) (dOut : Matrix c b ℤ) : Type _ :=
  LinearMap.ker (Matrix.toLin' dOut) ⧸
    (LinearMap.range (Matrix.toLin' dIn)).comap (LinearMap.ker (Matrix.toLin' dOut)).subtype

/-- reduction of the `i`-th coordinate modulo `c i` -/
noncomputable def redPi {N : ℕ} (c : Fin N → ℕ) : (Fin N → ℤ) →ₗ[ℤ] (∀ i, ZMod (c i)) :=
  LinearMap.pi fun i => (Int.castAddHom (ZMod (c i))).toIntLinearMap ∘ₗ LinearMap.proj i

theorem redPi_apply {N : ℕ} (c : Fin N → ℕ) (w : Fin N → ℤ) (i : Fin N) : redPi c w i = (w i : ZMod (c i)) := rfl

/-- an answer `(P, Q, c)` of the shape of C07's `HomologySpec` — `P·Q = 1`, `d_out·Q = 0`, boundaries have coordinates
divisible by the orders `c i` (`c i = 0`: free coordinate, must vanish), and every cycle with such coordinates is a
boundary — presents the homology as `∏ ZMod (c i)` -/
theorem HZ_present {n m k N : ℕ} (d1 : Matrix (Fin n) (Fin m) ℤ) (d2 : Matrix (Fin k) (Fin n) ℤ) (c : Fin N → ℕ)
    (P : Matrix (Fin N) (Fin n) ℤ) (Q : Matrix (Fin n) (Fin N) ℤ) (pq : P * Q = 1) (cyc : d2 * Q = 0)
    (hb : ∀ (x : Fin m → ℤ) (i : Fin N), (c i : ℤ) ∣ (P *ᵥ (d1 *ᵥ x)) i)
    (hc : ∀ z : Fin n → ℤ, d2 *ᵥ z = 0 → (∀ i : Fin N, (c i : ℤ) ∣ (P *ᵥ z) i) → ∃ x : Fin m → ℤ, d1 *ᵥ x = z) :
    Nonempty (HZ d1 d2 ≃ₗ[ℤ] (∀ i : Fin N, ZMod (c i))) := by
  let φ : LinearMap.ker (Matrix.toLin' d2) →ₗ[ℤ] (∀ i, ZMod (c i)) :=
    redPi c ∘ₗ Matrix.toLin' P ∘ₗ (LinearMap.ker (Matrix.toLin' d2)).subtype
  have hφ : ∀ z, φ z = redPi c (P *ᵥ z.1) := fun z => rfl
  have hsurj : Function.Surjective φ := by
    intro y
    choose w hw using fun i => ZMod.intCast_surjective (y i)
    have hz : Q *ᵥ w ∈ LinearMap.ker (Matrix.toLin' d2) := by
      rw [LinearMap.mem_ker, Matrix.toLin'_apply, Matrix.mulVec_mulVec, cyc, Matrix.zero_mulVec]
    refine ⟨⟨Q *ᵥ w, hz⟩, ?_⟩
    rw [hφ]
    simp only
    rw [Matrix.mulVec_mulVec, pq, Matrix.one_mulVec]
    funext i
    rw [redPi_apply, hw]
  have hker : (LinearMap.range (Matrix.toLin' d1)).comap (LinearMap.ker (Matrix.toLin' d2)).subtype
      = LinearMap.ker φ := by
    ext z
    rw [Submodule.mem_comap, LinearMap.mem_range, LinearMap.mem_ker, hφ]
    constructor
    · rintro ⟨x, hx⟩
      funext i
      rw [redPi_apply, Pi.zero_apply, ZMod.intCast_zmod_eq_zero_iff_dvd]
      have := hb x i
      rw [Matrix.toLin'_apply] at hx
      rw [hx] at this
      exact this
    · intro h
      have hz : d2 *ᵥ z.1 = 0 := by
        have := z.2
        rwa [LinearMap.mem_ker, Matrix.toLin'_apply] at this
      obtain ⟨x, hx⟩ := hc z.1 hz (fun i => by
        have := congrFun h i
        rwa [redPi_apply, Pi.zero_apply, ZMod.intCast_zmod_eq_zero_iff_dvd] at this)
      exact ⟨x, by rw [Matrix.toLin'_apply]; exact hx⟩
  exact ⟨(Submodule.quotEquivOfEq _ _ hker).trans (φ.quotKerEquivOfSurjective hsurj)⟩

/-! ### the coordinate orders of a C07 answer `(rank, tors)` -/

/-- the order of the `i`-th homology coordinate: `0` (free) for `i < rank`, `tors[i − rank]` after that -/
def coordOrder (rank : Nat) (tors : List Int) (i : Nat) : Nat :=
  if i < rank then 0 else (tors.getD (i - rank) 0).natAbs

theorem coordOrder_dvd (rank : Nat) (tors : List Int) (i : Nat) (y : ℤ) :
    ((coordOrder rank tors i : ℕ) : ℤ) ∣ y ↔ (i < rank → y = 0) ∧ (rank ≤ i → tors.getD (i - rank) 0 ∣ y) := by
  unfold coordOrder
  by_cases h : i < rank
  · rw [if_pos h, Nat.cast_zero, zero_dvd_iff]
    exact ⟨fun hy => ⟨fun _ => hy, fun h' => by omega⟩, fun hy => hy.1 h⟩
  · rw [if_neg h, Int.natAbs_dvd]
    exact ⟨fun hy => ⟨fun h' => absurd h' h, fun _ => hy⟩, fun hy => hy.2 (by omega)⟩

theorem getD_lt (l : List Int) (u : Nat) (h : u < l.length) : l.getD u 0 = l[u] := by
  simp [List.getD_eq_getElem?_getD, h]

end Yuiv.HomInv
