import Yuiv.Proofs.C19CommCube
import Yuiv.Proofs.C06CycleD
/-
C19Comm — all edges: the reference differential `Cube.d` (through its loop-free form `dRaw` / `rawTerms` of
`Proofs/C06CycleDefs`, `C06CycleMain` and `cube_d_eq` of `C06CycleD`) commutes with `ICube.tau` on 𝔽₂-supports.
-/
namespace Yuiv.C19Comm
open Yuiv Yuiv.KhRef Yuiv.C19 Yuiv.C06Cycle Yuiv.C19Inv

/-! ### `dRaw`: defined iff every edge is a merge or a split -/

theorem foldlM_none (c : Cube) (p : Params) (g : Gen) (ks : List Nat) (out : List Term)
    (hbad : ∃ k ∈ ks, g.s.testBit k = false ∧ edgeTerms c p g k = none) :
    ks.foldlM (fun out k =>
      if g.s.testBit k then some out else (edgeTerms c p g k).map (fun ts => out ++ ts)) out = none := by
  induction ks generalizing out with
  | nil => obtain ⟨k, hk, _⟩ := hbad; cases hk
  | cons k ks ih =>
    rw [List.foldlM_cons]
    cases hstep : (if g.s.testBit k then some out else (edgeTerms c p g k).map (fun ts => out ++ ts)) with
    | none => rfl
    | some o =>
      show ks.foldlM _ o = none
      apply ih
      obtain ⟨k0, hk0, hb, he⟩ := hbad
      rcases List.mem_cons.1 hk0 with rfl | hk0
      · simp [hb, he] at hstep
      · exact ⟨k0, hk0, hb, he⟩

def allEdges (c : Cube) (p : Params) (g : Gen) : Bool :=
  (List.range c.n).all (fun k => g.s.testBit k || (edgeTerms c p g k).isSome)

theorem dRaw_eq (c : Cube) (p : Params) (g : Gen) :
    dRaw c p g = if allEdges c p g then some (rawTerms c p g) else none := by
  by_cases hall : allEdges c p g = true
  · rw [if_pos hall]
    apply dRaw_of_edges
    intro k hk hb
    have := List.all_eq_true.1 hall k (List.mem_range.2 hk)
    simpa [hb] using this
  · rw [if_neg hall]
    unfold dRaw
    apply foldlM_none
    unfold allEdges at hall
    simp only [List.all_eq_true, List.mem_range, Bool.or_eq_true, not_forall, not_or] at hall
    obtain ⟨k, hk, hb, he⟩ := hall
    refine ⟨k, List.mem_range.2 hk, by simpa using hb, ?_⟩
    cases h : edgeTerms c p g k with
    | none => rfl
    | some ts => simp [h] at he

/-! ### `Cube.d` as a list, with the base-point filter in both theories -/

theorem baseKeep_of_base_none (c : Cube) (h : c.base = none) (y : Gen) : baseKeep c y = true := by
  unfold baseKeep Cube.baseCircle
  rw [h]

/-- `Cube.d` with lists: the raw terms, filtered by the base-point condition (vacuous in the unreduced theory) -/
def dList (c : Cube) (p : Params) (g : Gen) : Option (List Term) :=
  (dRaw c p g).map (fun out => out.filter (fun t => baseKeep c t.1))

theorem cube_d_list (c : Cube) (p : Params) (g : Gen) : c.d p g = (dList c p g).map List.toArray := by
  rw [cube_d_eq]
  unfold dList
  rw [Option.map_map]
  congr 1
  funext out
  cases hb : c.base with
  | none =>
    simp only [Function.comp]
    congr 1
    apply Eq.symm
    apply List.filter_eq_self.2
    intro t _
    exact baseKeep_of_base_none c hb t.1
  | some b => rfl

theorem oddSupp_flatMap {α : Type} (l : List α) (f : α → List Term) :
    oddSupp (l.flatMap f) = l.flatMap (fun a => oddSupp (f a)) := by
  unfold oddSupp
  rw [List.filter_flatMap, List.map_flatMap]

theorem flatMap_ite {α β : Type} (l : List α) (q : α → Bool) (f : α → List β) :
    l.flatMap (fun a => if q a then [] else f a) = (l.filter (fun a => !q a)).flatMap f := by
  induction l with
  | nil => rfl
  | cons a l ih =>
    rw [List.flatMap_cons, ih, List.filter_cons]
    cases q a <;> simp

/-- 𝔽₂-support of one cube edge -/
def edgeSupp (c : Cube) (p : Params) (g : Gen) (k : Nat) : List Gen := oddSupp ((edgeTerms c p g k).getD [])

theorem oddSupp_raw (c : Cube) (p : Params) (g : Gen) :
    oddSupp (rawTerms c p g) = ((List.range c.n).filter (fun k => !g.s.testBit k)).flatMap (edgeSupp c p g) := by
  unfold rawTerms
  rw [flatMap_ite, oddSupp_flatMap]
  rfl

theorem edgeTerms_state (c : Cube) (p : Params) (g : Gen) (k : Nat) (ts : List Term) (h : edgeTerms c p g k = some ts) :
    ∀ t ∈ ts, t.1.s = g.s ||| 1 <<< k := by
  rw [edgeTerms_eq_core] at h
  cases hc : edgeCore (c.circ[g.s]!) (c.circ[g.s ||| 1 <<< k]!) p g.mask (g.s ||| 1 <<< k) with
  | none => rw [hc] at h; cases h
  | some ts0 =>
    rw [hc] at h
    simp only [Option.map_some, Option.some.injEq] at h
    subst h
    intro t ht
    obtain ⟨t0, ht0, rfl⟩ := List.mem_map.1 ht
    exact edgeCore_state _ _ _ _ _ _ hc t0 ht0

theorem rawTerms_state (c : Cube) (p : Params) (g : Gen) (hs : g.s < 2 ^ c.n) :
    ∀ t ∈ rawTerms c p g, t.1.s < 2 ^ c.n := by
  intro t ht
  unfold rawTerms at ht
  obtain ⟨k, hk, ht⟩ := List.mem_flatMap.1 ht
  split at ht
  · cases ht
  · cases he : edgeTerms c p g k with
    | none => rw [he] at ht; cases ht
    | some ts =>
      rw [he] at ht
      rw [edgeTerms_state c p g k ts he t ht]
      exact or_bit_lt _ _ _ hs (List.mem_range.1 hk)

/-! ### the base-point filter is τ-invariant -/

theorem baseKeep_tau (ic : ICube) (h0 : icubeWf ic = true) (y : Gen) (hy : y.s < 2 ^ ic.cube.n) :
    baseKeep ic.cube (ic.tau y) = baseKeep ic.cube y := by
  have ws := wf_spec ic h0 y.s hy
  have wt := wf_spec ic h0 _ ws.lt
  unfold baseKeep
  rw [tau_eq]
  simp only
  cases hb : ic.cube.baseCircle y.s with
  | none =>
    cases hb' : ic.cube.baseCircle (ic.tst[y.s]!) with
    | none => rfl
    | some b' =>
      have := (wt.base b' hb').2
      rw [ws.inv, hb] at this
      cases this
  | some b =>
    obtain ⟨hbr, hb'⟩ := ws.base b hb
    rw [hb']
    simp only
    have bI : ∀ i < (ic.cube.circ[y.s]!).size, (ic.tlab[ic.tst[y.s]!]!)[i]! < (ic.cube.circ[y.s]!).size ∧
        (ic.tlab[y.s]!)[(ic.tlab[ic.tst[y.s]!]!)[i]!]! = i := by
      have := wt.bij; rw [ws.inv, ws.circ] at this; exact this
    rw [tauMask_bit_of_inverse (ic.tlab[y.s]!) (ic.tlab[ic.tst[y.s]!]!) (ic.cube.circ[y.s]!).size y.mask _ ws.lab bI ws.bij,
      (ws.bij b hbr).2]
    simp [(ws.bij b hbr).1]

/-! ### all edges -/

theorem or_bit_inj (t a b : Nat) (ha : t.testBit a = false) (e : t ||| 1 <<< a = t ||| 1 <<< b) : a = b := by
  have h1 : (t ||| 1 <<< a).testBit a = true := by
    simp [Nat.testBit_or, Nat.one_shiftLeft]
  rw [e, Nat.testBit_or, ha, Nat.one_shiftLeft, Nat.testBit_two_pow] at h1
  simp only [Bool.false_or, decide_eq_true_eq] at h1
  exact h1.symm

/-- the raw differential (before the base-point filter) commutes with τ -/
theorem raw_comm (F : Array Nat → Array Nat) (ic : ICube) (h : icubeWf' F ic = true) (p : Params) (g : Gen)
    (hs : g.s < 2 ^ ic.cube.n) :
    allEdges ic.cube p (ic.tau g) = allEdges ic.cube p g ∧
    (allEdges ic.cube p g = true →
      ((oddSupp (rawTerms ic.cube p g)).map ic.tau).Perm (oddSupp (rawTerms ic.cube p (ic.tau g)))) := by
  have h0 := wf'_wf F ic h
  have ws := wf_spec ic h0 g.s hs
  have vs := wf'_spec F ic h g.s hs
  have vt := wf'_spec F ic h _ ws.lt
  have hts : (ic.tau g).s = ic.tst[g.s]! := rfl
  -- the edge correspondence
  have hex : ∀ k, ∃ k', k < ic.cube.n → g.s.testBit k = false →
      (k' < ic.cube.n ∧ (ic.tst[g.s]!).testBit k' = false ∧ ic.tst[g.s ||| 1 <<< k]! = ic.tst[g.s]! ||| 1 <<< k') := by
    intro k
    by_cases hk : k < ic.cube.n ∧ g.s.testBit k = false
    · obtain ⟨k', h1, h2, h3⟩ := vs.edge k hk.1 hk.2
      exact ⟨k', fun _ _ => ⟨h1, h2, h3⟩⟩
    · exact ⟨0, fun h1 h2 => absurd ⟨h1, h2⟩ hk⟩
  choose κ hκ using hex
  -- every edge at `τ s` is the image of an edge at `s`
  have hsurj : ∀ k', k' < ic.cube.n → (ic.tst[g.s]!).testBit k' = false →
      ∃ k, k < ic.cube.n ∧ g.s.testBit k = false ∧ ic.tst[g.s ||| 1 <<< k]! = ic.tst[g.s]! ||| 1 <<< k' := by
    intro k' hk' hb'
    obtain ⟨k, h1, h2, h3⟩ := vt.edge k' hk' hb'
    rw [ws.inv] at h2 h3
    refine ⟨k, h1, h2, ?_⟩
    rw [← h3]
    exact (wf_spec ic h0 _ (or_bit_lt _ _ _ ws.lt hk')).inv
  have hκuniq : ∀ k k', k < ic.cube.n → g.s.testBit k = false → (ic.tst[g.s]!).testBit k' = false →
      ic.tst[g.s ||| 1 <<< k]! = ic.tst[g.s]! ||| 1 <<< k' → κ k = k' := by
    intro k k' hk hb hb' e
    obtain ⟨_, h2, h3⟩ := hκ k hk hb
    exact or_bit_inj _ _ _ h2 (h3.symm.trans e)
  have hcomm := fun k (hk : k < ic.cube.n) (hb : g.s.testBit k = false) =>
    edge_comm F ic h p g hs k hk (κ k) (hκ k hk hb).2.2
  have hall : allEdges ic.cube p (ic.tau g) = allEdges ic.cube p g := by
    rw [Bool.eq_iff_iff]
    unfold allEdges
    simp only [List.all_eq_true, List.mem_range, Bool.or_eq_true, hts]
    constructor
    · intro H k hk
      by_cases hb : g.s.testBit k = true
      · exact Or.inl hb
      · have hb' : g.s.testBit k = false := by simpa using hb
        right
        have := hcomm k hk hb'
        obtain ⟨h1, h2, _⟩ := hκ k hk hb'
        cases he : edgeTerms ic.cube p g k with
        | some ts => rfl
        | none =>
          rw [he] at this
          simp only at this
          rcases H (κ k) h1 with H' | H'
          · rw [h2] at H'; cases H'
          · rw [this] at H'; cases H'
    · intro H k' hk'
      by_cases hb : (ic.tst[g.s]!).testBit k' = true
      · exact Or.inl hb
      · have hb' : (ic.tst[g.s]!).testBit k' = false := by simpa using hb
        right
        obtain ⟨k, hk, hbk, e⟩ := hsurj k' hk' hb'
        have hk' := hκuniq k k' hk hbk hb' e
        have := hcomm k hk hbk
        rw [hk'] at this
        rcases H k hk with H' | H'
        · rw [hbk] at H'; cases H'
        · obtain ⟨ts, hts'⟩ := Option.isSome_iff_exists.1 H'
          rw [hts'] at this
          obtain ⟨ts', e', _⟩ := this
          rw [e']; rfl
  refine ⟨hall, fun hg => ?_⟩
  rw [oddSupp_raw, oddSupp_raw, List.map_flatMap, hts]
  -- the two index lists
  have hperm : (((List.range ic.cube.n).filter (fun k => !g.s.testBit k)).map κ).Perm
      ((List.range ic.cube.n).filter (fun k => !(ic.tst[g.s]!).testBit k)) := by
    apply (List.perm_ext_iff_of_nodup _ (List.nodup_range.filter _)).2
    · intro a
      simp only [List.mem_map, List.mem_filter, List.mem_range, Bool.not_eq_true']
      constructor
      · rintro ⟨k, ⟨hk, hb⟩, rfl⟩
        exact ⟨(hκ k hk hb).1, (hκ k hk hb).2.1⟩
      · rintro ⟨ha, hb⟩
        obtain ⟨k, hk, hbk, e⟩ := hsurj a ha hb
        exact ⟨k, ⟨hk, hbk⟩, hκuniq k a hk hbk hb e⟩
    · apply List.Nodup.map_on _ (List.nodup_range.filter _)
      intro a ha b hb e
      simp only [List.mem_filter, List.mem_range, Bool.not_eq_true'] at ha hb
      have e1 := (hκ a ha.1 ha.2).2.2
      have e2 := (hκ b hb.1 hb.2).2.2
      rw [e] at e1
      have e3 : g.s ||| 1 <<< a = g.s ||| 1 <<< b := by
        rw [← (wf_spec ic h0 _ (or_bit_lt _ _ _ hs ha.1)).inv, ← (wf_spec ic h0 _ (or_bit_lt _ _ _ hs hb.1)).inv, e1, e2]
      exact or_bit_inj _ _ _ ha.2 e3
  refine List.Perm.trans ?_ (List.Perm.flatMap_right _ hperm)
  rw [List.flatMap_map]
  apply List.Perm.flatMap_left
  intro k hk
  simp only [List.mem_filter, List.mem_range, Bool.not_eq_true'] at hk
  have := hcomm k hk.1 hk.2
  have hsome : (edgeTerms ic.cube p g k).isSome = true := by
    have := List.all_eq_true.1 hg k (List.mem_range.2 hk.1)
    simpa [hk.2] using this
  obtain ⟨ts, hts'⟩ := Option.isSome_iff_exists.1 hsome
  rw [hts'] at this
  obtain ⟨ts', e', hp⟩ := this
  unfold edgeSupp
  rw [hts', e']
  exact hp

/-! ### `Cube.d` -/

theorem oddSupp_filter (q : Gen → Bool) (ts : List Term) :
    oddSupp (ts.filter (fun t => q t.1)) = (oddSupp ts).filter q := by
  unfold oddSupp
  rw [List.filter_filter, List.filter_map, List.filter_filter]
  congr 1
  apply List.filter_congr
  intro t _
  simp only [Function.comp]
  exact Bool.and_comm _ _

/-- τ is a chain map of the reference complex over 𝔽₂, in list form -/
theorem dList_comm (F : Array Nat → Array Nat) (ic : ICube) (h : icubeWf' F ic = true) (p : Params) (g : Gen)
    (hs : g.s < 2 ^ ic.cube.n) :
    match dList ic.cube p g with
    | none => dList ic.cube p (ic.tau g) = none
    | some ts => ∃ ts', dList ic.cube p (ic.tau g) = some ts' ∧ ((oddSupp ts).map ic.tau).Perm (oddSupp ts') := by
  obtain ⟨hall, hperm⟩ := raw_comm F ic h p g hs
  unfold dList
  rw [dRaw_eq, dRaw_eq, hall]
  by_cases hg : allEdges ic.cube p g = true
  · simp only [hg, if_true, Option.map_some]
    refine ⟨_, rfl, ?_⟩
    rw [oddSupp_filter, oddSupp_filter]
    have : ((oddSupp (rawTerms ic.cube p g)).filter (baseKeep ic.cube)).map ic.tau =
        ((oddSupp (rawTerms ic.cube p g)).map ic.tau).filter (baseKeep ic.cube) := by
      rw [List.filter_map]
      congr 1
      apply List.filter_congr
      intro y hy
      simp only [Function.comp]
      apply Eq.symm
      apply baseKeep_tau ic (wf'_wf F ic h)
      unfold oddSupp at hy
      obtain ⟨t, ht, rfl⟩ := List.mem_map.1 hy
      exact rawTerms_state ic.cube p g hs t (List.mem_filter.1 ht).1
    rw [this]
    exact (hperm hg).filter _
  · simp only [hg, Bool.false_eq_true, if_false, Option.map_none]

end Yuiv.C19Comm
