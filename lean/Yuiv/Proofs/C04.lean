import Yuiv.Model.C04
import Mathlib.Tactic.Ring
import Mathlib.Algebra.BigOperators.Intervals
import Mathlib.Algebra.BigOperators.Ring.Finset
import Mathlib.Algebra.Group.Units.Basic
import Mathlib.Algebra.Ring.Parity

/-
Helper lemmas for C04 (no property theorem here): bridges `npow`/`zpow`/`sumRange` to Mathlib's
`^`, unit `zpow` and `Finset.sum`; `popcount` splitting/complement lemmas; soundness of the `LP`
coefficient-list arithmetic w.r.t. evaluation (`ev`).
-/
namespace Yuiv.C04
open Yuiv.KhRef

variable {R : Type} [CommRing R]

theorem npow_eq (x : R) (n : Nat) : npow x n = x ^ n := by
  induction n with
  | zero => simp [npow]
  | succ n ih => simp [npow, ih, pow_succ]

/-- the unit packaged from `q * qinv = 1` -/
def mkU (q qinv : R) (hq : q * qinv = 1) : Rˣ := ⟨q, qinv, hq, by rw [mul_comm]; exact hq⟩

theorem zpow_eq_units (u : Rˣ) (k : Int) : zpow (u : R) ((u⁻¹ : Rˣ) : R) k = ((u ^ k : Rˣ) : R) := by
  cases k with
  | ofNat n => simp [zpow, npow_eq]
  | negSucc n =>
    simp only [zpow, npow_eq, zpow_negSucc]
    rw [← inv_pow]; simp

theorem exists_unit (q qinv : R) (hq : q * qinv = 1) : ∃ u : Rˣ, q = (u : R) ∧ qinv = ((u⁻¹ : Rˣ) : R) :=
  ⟨mkU q qinv hq, rfl, rfl⟩

theorem zpow_add' (q qinv : R) (hq : q * qinv = 1) (a b : Int) :
    zpow q qinv (a + b) = zpow q qinv a * zpow q qinv b := by
  obtain ⟨u, rfl, rfl⟩ := exists_unit q qinv hq
  simp [zpow_eq_units, zpow_add]

theorem zpow_zero' (q qinv : R) : zpow q qinv 0 = 1 := by
  show npow q 0 = 1
  rfl

theorem zpow_natCast' (q qinv : R) (n : Nat) : zpow q qinv (n : Int) = q ^ n := by
  show npow q n = _
  exact npow_eq q n

theorem zpow_one' (q qinv : R) : zpow q qinv 1 = q := by
  have := zpow_natCast' q qinv 1
  simpa using this

theorem zpow_neg_one' (q qinv : R) : zpow q qinv (-1) = qinv := by
  show npow qinv 1 = _
  simp [npow_eq]

theorem zpow_swap (q qinv : R) (hq : q * qinv = 1) (k : Int) :
    zpow qinv q k = zpow q qinv (-k) := by
  obtain ⟨u, rfl, rfl⟩ := exists_unit q qinv hq
  have h := zpow_eq_units (u⁻¹) k
  rw [inv_inv] at h
  rw [h, zpow_eq_units]
  simp

theorem sumRange_eq (n : Nat) (f : Nat → R) : sumRange n f = ∑ i ∈ Finset.range n, f i := by
  unfold sumRange
  induction n with
  | zero => simp
  | succ n ih => rw [List.range_succ, List.foldl_append, ih, Finset.sum_range_succ]; simp

/-! popcount lemmas -/

theorem popcount_lt (m r : Nat) (h : m < 2 ^ r) : popcount m (r + 1) = popcount m r := by
  unfold popcount
  rw [List.range_succ, List.filter_append, List.length_append]
  simp [Nat.testBit_lt_two_pow h]

theorem popcount_add (m r : Nat) (h : m < 2 ^ r) : popcount (2 ^ r + m) (r + 1) = popcount m r + 1 := by
  unfold popcount
  rw [List.range_succ, List.filter_append, List.length_append]
  have h1 : (List.range r).filter (fun i => (2 ^ r + m).testBit i) = (List.range r).filter (fun i => m.testBit i) := by
    apply List.filter_congr
    intro i hi
    exact Nat.testBit_two_pow_add_gt (List.mem_range.mp hi) m
  rw [h1]
  simp [Nat.testBit_two_pow_add_eq, Nat.testBit_lt_two_pow h]

theorem filter_compl_length (l : List Nat) (p : Nat → Bool) :
    (l.filter p).length + (l.filter (fun i => !p i)).length = l.length := by
  induction l with
  | nil => simp
  | cons a l ih =>
    cases hp : p a <;> simp [hp] <;> omega

theorem popcount_compl (s n : Nat) (h : s < 2 ^ n) : popcount (2 ^ n - 1 - s) n + popcount s n = n := by
  unfold popcount
  have h1 : (List.range n).filter (fun i => (2 ^ n - 1 - s).testBit i) = (List.range n).filter (fun i => !s.testBit i) := by
    apply List.filter_congr
    intro i hi
    have : 2 ^ n - 1 - s = 2 ^ n - (s + 1) := by omega
    rw [this, Nat.testBit_two_pow_sub_succ h]
    simp [List.mem_range.mp hi]
  rw [h1, Nat.add_comm]
  simpa using filter_compl_length (List.range n) (fun i => s.testBit i)

theorem popcount_zero_bits (m : Nat) : popcount m 0 = 0 := by simp [popcount]


/-! LP evaluation -/

/-- evaluation in `R` with the canonical `Int → R` -/
abbrev ev (q qinv : R) (a : LP) : R := LP.eval q qinv (fun k => (k : R)) a

theorem foldl_acc (q qinv : R) (a : LP) (z : R) :
    a.foldl (fun acc (t : Int × Int) => acc + (t.2 : R) * zpow q qinv t.1) z
      = z + a.foldl (fun acc (t : Int × Int) => acc + (t.2 : R) * zpow q qinv t.1) 0 := by
  induction a generalizing z with
  | nil => simp
  | cons t a ih =>
    simp only [List.foldl_cons]
    rw [ih, ih (0 + _)]
    ring

theorem ev_nil (q qinv : R) : ev q qinv [] = 0 := rfl

theorem ev_cons (q qinv : R) (t : Int × Int) (a : LP) :
    ev q qinv (t :: a) = (t.2 : R) * zpow q qinv t.1 + ev q qinv a := by
  show List.foldl _ _ _ = _ + List.foldl _ _ _
  rw [List.foldl_cons, foldl_acc]
  ring

theorem ev_addTerm (q qinv : R) (e c : Int) (a : LP) :
    ev q qinv (LP.addTerm e c a) = ev q qinv a + (c : R) * zpow q qinv e := by
  induction a with
  | nil =>
    unfold LP.addTerm
    by_cases hc : c = 0
    · simp [hc, ev_nil]
    · simp [hc, ev_cons, ev_nil]
  | cons t a ih =>
    obtain ⟨e', c'⟩ := t
    unfold LP.addTerm
    by_cases h1 : e < e'
    · by_cases hc : c = 0
      · simp [h1, hc]
      · simp only [h1, if_true, hc, beq_iff_eq, if_false, ev_cons]; ring
    · by_cases h2 : e = e'
      · subst h2
        by_cases h3 : c + c' = 0
        · have : (c : R) = -(c' : R) := by
            have := congrArg (Int.cast (R := R)) h3
            push_cast at this
            exact eq_neg_of_add_eq_zero_left this
          simp only [h1, if_false, beq_self_eq_true, if_true, h3, ev_cons, this]; ring
        · simp only [h1, if_false, beq_self_eq_true, if_true, h3, beq_iff_eq, ev_cons]; push_cast; ring
      · simp only [h1, if_false, beq_iff_eq, h2, ev_cons, ih]; ring

theorem ev_add (q qinv : R) (a b : LP) :
    ev q qinv (LP.add a b) = ev q qinv a + ev q qinv b := by
  unfold LP.add
  induction b generalizing a with
  | nil => simp [ev_nil]
  | cons t b ih => rw [List.foldl_cons, ih, ev_addTerm, ev_cons]; ring

theorem ev_scaleShift (q qinv : R) (hq : q * qinv = 1) (k e : Int) (a : LP) :
    ev q qinv (LP.scaleShift k e a) = (k : R) * zpow q qinv e * ev q qinv a := by
  unfold LP.scaleShift
  simp only [beq_iff_eq]
  induction a with
  | nil => simp [ev_nil]
  | cons t a ih =>
    rw [List.filterMap_cons]
    by_cases h : k * t.2 = 0
    · have : (k : R) * (t.2 : R) = 0 := by
        have := congrArg (Int.cast (R := R)) h
        push_cast at this; exact this
      simp only [h, if_true, ih, ev_cons]
      have h' : (k : R) * zpow q qinv e * ((t.2 : R) * zpow q qinv t.1 + ev q qinv a)
          = (k : R) * zpow q qinv e * ev q qinv a + ((k : R) * (t.2 : R)) * (zpow q qinv e * zpow q qinv t.1) := by ring
      rw [h', this]; ring
    · simp only [h, if_false, ev_cons, ih, zpow_add' q qinv hq]
      push_cast; ring

theorem ev_mul_aux (q qinv : R) (hq : q * qinv = 1) (a b acc : LP) :
    ev q qinv (a.foldl (fun acc t => LP.add acc (LP.scaleShift t.2 t.1 b)) acc)
      = ev q qinv acc + ev q qinv a * ev q qinv b := by
  induction a generalizing acc with
  | nil => simp [ev_nil]
  | cons t a ih => rw [List.foldl_cons, ih, ev_add, ev_scaleShift q qinv hq, ev_cons]; ring

theorem ev_mul (q qinv : R) (hq : q * qinv = 1) (a b : LP) :
    ev q qinv (LP.mul a b) = ev q qinv a * ev q qinv b := by
  unfold LP.mul
  rw [ev_mul_aux q qinv hq, ev_nil, zero_add]

theorem ev_one (q qinv : R) : ev q qinv LP.one = 1 := by
  unfold LP.one
  rw [ev_cons, ev_nil]
  simp [zpow_zero']

theorem ev_pow (q qinv : R) (hq : q * qinv = 1) (a : LP) (n : Nat) :
    ev q qinv (LP.pow a n) = (ev q qinv a) ^ n := by
  induction n with
  | zero => simp [LP.pow, ev_one]
  | succ n ih => simp [LP.pow, ev_mul q qinv hq, ih, pow_succ]

theorem ev_mono (q qinv : R) (e c : Int) : ev q qinv (LP.mono e c) = (c : R) * zpow q qinv e := by
  unfold LP.mono
  by_cases hc : c = 0
  · simp [hc, ev_nil]
  · simp [hc, ev_cons, ev_nil]

theorem ev_foldl_add (q qinv : R) (F : Nat → LP) (l : List Nat) (acc : LP) :
    ev q qinv (l.foldl (fun acc s => LP.add acc (F s)) acc)
      = l.foldl (fun acc s => acc + ev q qinv (F s)) (ev q qinv acc) := by
  induction l generalizing acc with
  | nil => rfl
  | cons s l ih => rw [List.foldl_cons, List.foldl_cons, ih, ev_add]

theorem cast_sign (k : Nat) : (((if (k : Int) % 2 == 0 then 1 else -1 : Int)) : R) = (-1) ^ k := by
  rcases Nat.even_or_odd k with h | h
  · have : (k : Int) % 2 = 0 := by obtain ⟨m, rfl⟩ := h; omega
    simp [this, h.neg_one_pow]
  · have : (k : Int) % 2 = 1 := by obtain ⟨m, rfl⟩ := h; omega
    simp [this, h.neg_one_pow]

/-! ### the cube reference with `p = ⟨0,0,false⟩`, and folds of `LP.addTerm` (for `eval_chiChain`) -/

theorem mkCube_n (l : Link) : (mkCube l ⟨0, 0, false⟩).n = crossingNum l := rfl
theorem mkCube_base (l : Link) : (mkCube l ⟨0, 0, false⟩).base = none := rfl

theorem mkCube_circ (l : Link) (s : Nat) (hs : s < 2 ^ crossingNum l) :
    (mkCube l ⟨0, 0, false⟩).circ[s]! = circles l (edgeLabels l) s := by
  show ((Array.range (2 ^ crossingNum l)).map (fun s => circles l (edgeLabels l) s))[s]! = _
  rw [getElem!_pos _ _ (by simpa using hs)]
  simp [Array.getElem_range]

theorem mkCube_gensAt (l : Link) (s : Nat) (hs : s < 2 ^ crossingNum l) :
    (mkCube l ⟨0, 0, false⟩).gensAt s = (Array.range (2 ^ circleCount l s)).map (fun m => Gen.mk s m) := by
  unfold Cube.gensAt Cube.baseCircle
  simp only [mkCube_base, mkCube_circ l s hs]
  rfl

theorem mkCube_qDeg (l : Link) (q0 : Int) (s m : Nat) (hs : s < 2 ^ crossingNum l) :
    (mkCube l ⟨0, 0, false⟩).qDeg q0 ⟨s, m⟩ =
      q0 + (-2 : Int) * popcount m (circleCount l s) + circleCount l s + popcount s (crossingNum l) := by
  unfold Cube.qDeg
  simp only [mkCube_circ l s hs, mkCube_n]
  rfl

theorem ev_foldl_addTerm {α : Type} (q qinv : R) (E C : α → Int) (xs : List α) (acc : LP) :
    ev q qinv (xs.foldl (fun acc x => LP.addTerm (E x) (C x) acc) acc)
      = xs.foldl (fun a x => a + (C x : R) * zpow q qinv (E x)) (ev q qinv acc) := by
  induction xs generalizing acc with
  | nil => rfl
  | cons x xs ih => rw [List.foldl_cons, List.foldl_cons, ih, ev_addTerm]

theorem foldl_add_acc (f : Nat → R) (xs : List Nat) (z : R) :
    xs.foldl (fun a x => a + f x) z = z + xs.foldl (fun a x => a + f x) 0 := by
  induction xs generalizing z with
  | nil => simp
  | cons x xs ih => rw [List.foldl_cons, List.foldl_cons, ih, ih (0 + f x)]; ring

theorem ev_foldl_step (q qinv : R) (G : LP → Nat → LP) (g : Nat → R) (xs : List Nat)
    (h : ∀ s ∈ xs, ∀ acc, ev q qinv (G acc s) = ev q qinv acc + g s) (acc : LP) :
    ev q qinv (xs.foldl G acc) = xs.foldl (fun a s => a + g s) (ev q qinv acc) := by
  induction xs generalizing acc with
  | nil => rfl
  | cons x xs ih =>
    rw [List.foldl_cons, List.foldl_cons, ih (fun s hs => h s (List.mem_cons_of_mem _ hs)),
      h x List.mem_cons_self]

theorem cast_sign_neg (a b : Nat) :
    (((if (-(a : Int) + (b : Int)) % 2 == 0 then 1 else -1 : Int)) : R) = (-1) ^ (a + b) := by
  have h : (-(a : Int) + (b : Int)) % 2 = ((a + b : Nat) : Int) % 2 := by omega
  rw [h]
  exact cast_sign (a + b)

end Yuiv.C04
