import Yuiv.Model.C14
import Mathlib.Tactic.Ring
import Mathlib.Tactic.Linarith
import Mathlib.RingTheory.Coprime.Lemmas
/-
Spec definitions and helper lemmas for C14 (no property theorem here; those are in Props/C14.lean).
-/
namespace Yuiv.C14
open Yuiv Res

/-! ## Ratio -/

/-- canonical form of a rational: positive denominator, lowest terms (so `0` is `0/1`) -/
def Canon (r : Ratio) : Prop := 0 < r.den ∧ Int.gcd r.num r.den = 1

theorem tdivR_ok (a : Int) {b : Int} (h : b ≠ 0) : tdivR a b = ok (a.tdiv b) := by
  simp [tdivR, h]

theorem gcd_cast_pos {n d : Int} (h : n ≠ 0 ∨ d ≠ 0) : (0:Int) < (Int.gcd n d : Int) := by
  have := Int.gcd_pos_iff.2 h; omega

/-- exact division by the gcd: positivity, coprimality, value -/
theorem div_gcd_spec (n d : Int) (hd : 0 < d) :
    0 < d / (Int.gcd n d : Int) ∧ Int.gcd (n / (Int.gcd n d : Int)) (d / (Int.gcd n d : Int)) = 1 ∧
      (n / (Int.gcd n d : Int)) * d = n * (d / (Int.gcd n d : Int)) := by
  have hg : (0:Int) < (Int.gcd n d : Int) := gcd_cast_pos (Or.inr (by omega))
  obtain ⟨n', hn'⟩ := Int.gcd_dvd_left n d
  obtain ⟨d', hd'⟩ := Int.gcd_dvd_right n d
  have h1 : n / (Int.gcd n d : Int) = n' := Int.ediv_eq_of_eq_mul_right (by omega) hn'
  have h2 : d / (Int.gcd n d : Int) = d' := Int.ediv_eq_of_eq_mul_right (by omega) hd' 
  refine ⟨?_, Int.gcd_ediv_gcd_ediv_gcd (by omega), ?_⟩
  · rw [h2]
    by_contra hc
    have : d' ≤ 0 := by omega
    have : (Int.gcd n d : Int) * d' ≤ 0 := Int.mul_nonpos_of_nonneg_of_nonpos (by omega) this
    omega
  · rw [h1, h2]
    generalize (Int.gcd n d : Int) = g at *
    subst hn' hd'
    ring

theorem tdiv_gcd_left (n d : Int) : n.tdiv (Int.gcd n d : Int) = n / (Int.gcd n d : Int) :=
  Int.tdiv_eq_ediv_of_dvd (Int.gcd_dvd_left n d)
theorem tdiv_gcd_right (n d : Int) : d.tdiv (Int.gcd n d : Int) = d / (Int.gcd n d : Int) :=
  Int.tdiv_eq_ediv_of_dvd (Int.gcd_dvd_right n d)

/-- the part of `reduce` after the sign normalisation -/
theorem reduce_pos (n d : Int) (hn : n ≠ 0) (hd : 0 < d) :
    ∃ c, (if ((d == 1) || intIsUnit n) = true then (ok ⟨n, d⟩ : Res Ratio)
      else
        let g := intGcd n d
        if (g != 1) = true then do
          let n' ← tdivR n g
          let d' ← tdivR d g
          ok ⟨n', d'⟩
        else ok ⟨n, d⟩) = ok c ∧ Canon c ∧ c.num * d = n * c.den := by
  have hg : (0:Int) < (Int.gcd n d : Int) := gcd_cast_pos (Or.inl hn)
  split
  · rename_i h
    refine ⟨_, rfl, ⟨hd, ?_⟩, rfl⟩
    simp only [Bool.or_eq_true, beq_iff_eq, intIsUnit] at h
    rcases h with h | h | h
    · subst h; simp
    · subst h; simp
    · have : n = -1 := by omega
      subst this; simp
  · by_cases h : (intGcd n d != 1) = true
    · simp only [h, if_true]
      unfold intGcd
      rw [tdivR_ok _ (by omega), tdivR_ok _ (by omega)]
      simp only [Res.bind_ok, tdiv_gcd_left, tdiv_gcd_right]
      obtain ⟨h1, h2, h3⟩ := div_gcd_spec n d hd
      exact ⟨_, rfl, ⟨h1, h2⟩, h3⟩
    · simp only [h]
      simp only [intGcd, bne_iff_ne, ne_eq, Decidable.not_not] at h
      exact ⟨_, rfl, ⟨hd, by exact_mod_cast h⟩, rfl⟩


theorem reduce_spec (r : Ratio) (hd : r.den ≠ 0) :
    ∃ c, Ratio.reduce r = ok c ∧ Canon c ∧ c.num * r.den = r.num * c.den := by
  obtain ⟨n, d⟩ := r
  simp only at hd
  unfold Ratio.reduce
  by_cases hn : n = 0
  · subst hn
    by_cases h1 : d = 1
    · subst h1; exact ⟨⟨0, 1⟩, by simp, ⟨by decide, by decide⟩, by simp⟩
    · exact ⟨⟨0, 1⟩, by simp [h1], ⟨by decide, by decide⟩, by simp⟩
  · have hn' : (n == 0) = false := by simpa using hn
    simp only [hn', Bool.false_eq_true, if_false]
    by_cases hneg : d < 0
    · have hu : intNormUnit d = -1 := by simp [intNormUnit, hneg]
      obtain ⟨c, h1, h2, h3⟩ := reduce_pos (n * -1) (d * -1) (by omega) (by omega)
      refine ⟨c, ?_, h2, ?_⟩
      · rw [← h1]; simp [hu]
      · linarith
    · have hu : intNormUnit d = 1 := by simp [intNormUnit, hneg]
      obtain ⟨c, h1, h2, h3⟩ := reduce_pos n d hn (by omega)
      refine ⟨c, ?_, h2, h3⟩
      rw [← h1]; simp [hu]

theorem mul_core (a b c d : Int) (hb : 0 < b) (hd : 0 < d) (hab : Int.gcd a b = 1) (hcd : Int.gcd c d = 1) :
    0 < (b / (Int.gcd b c : Int)) * (d / (Int.gcd a d : Int)) ∧
    Int.gcd ((a / (Int.gcd a d : Int)) * (c / (Int.gcd b c : Int))) ((b / (Int.gcd b c : Int)) * (d / (Int.gcd a d : Int))) = 1 ∧
    ((a / (Int.gcd a d : Int)) * (c / (Int.gcd b c : Int))) * (b * d)
      = (a * c) * ((b / (Int.gcd b c : Int)) * (d / (Int.gcd a d : Int))) := by
  obtain ⟨p1, q1, e1⟩ := div_gcd_spec a d hd
  obtain ⟨p2, q2, e2⟩ := div_gcd_spec c b hb
  rw [Int.gcd_comm c b] at p2 q2 e2
  have ha' : (a / (Int.gcd a d : Int)) ∣ a := Int.ediv_dvd_of_dvd (Int.gcd_dvd_left a d)
  have hd' : (d / (Int.gcd a d : Int)) ∣ d := Int.ediv_dvd_of_dvd (Int.gcd_dvd_right a d)
  have hb' : (b / (Int.gcd b c : Int)) ∣ b := Int.ediv_dvd_of_dvd (Int.gcd_dvd_left b c)
  have hc' : (c / (Int.gcd b c : Int)) ∣ c := Int.ediv_dvd_of_dvd (Int.gcd_dvd_right b c)
  have i1 := Int.isCoprime_iff_gcd_eq_one.2 q1
  have i2 := Int.isCoprime_iff_gcd_eq_one.2 q2
  have i3 := Int.isCoprime_iff_gcd_eq_one.2 hab
  have i4 := Int.isCoprime_iff_gcd_eq_one.2 hcd
  refine ⟨Int.mul_pos p2 p1, ?_, ?_⟩
  · apply Int.isCoprime_iff_gcd_eq_one.1
    apply IsCoprime.mul_left
    · exact IsCoprime.mul_right ((i3.of_isCoprime_of_dvd_left ha').of_isCoprime_of_dvd_right hb') i1
    · exact IsCoprime.mul_right i2 ((i4.of_isCoprime_of_dvd_left hc').of_isCoprime_of_dvd_right hd')
  · calc (a / (Int.gcd a d : Int)) * (c / (Int.gcd b c : Int)) * (b * d)
        = ((a / (Int.gcd a d : Int)) * d) * ((c / (Int.gcd b c : Int)) * b) := by ring
      _ = (a * (d / (Int.gcd a d : Int))) * (c * (b / (Int.gcd b c : Int))) := by rw [e1, e2]
      _ = _ := by ring


theorem new_spec (n d : Int) (hd : d ≠ 0) :
    ∃ c, Ratio.new n d = ok c ∧ Canon c ∧ c.num * d = n * c.den := by
  obtain ⟨c, h1, h2, h3⟩ := reduce_spec ⟨n, d⟩ hd
  exact ⟨c, by simp [Ratio.new, Res.assert, hd, h1], h2, h3⟩

theorem new_zero_den (n : Int) : Ratio.new n 0 = panic := by simp [Ratio.new, Res.assert]

theorem neg_spec (r : Ratio) (h : Canon r) :
    ∃ c, Ratio.neg r = ok c ∧ Canon c ∧ c.num * r.den = -r.num * c.den :=
  new_spec (-r.num) r.den (by have := h.1; omega)

theorem inv_spec (r : Ratio) (hn : r.num ≠ 0) :
    ∃ c, Ratio.inv r = ok (some c) ∧ Canon c ∧ c.num * r.num = r.den * c.den := by
  obtain ⟨c, h1, h2, h3⟩ := new_spec r.den r.num hn
  exact ⟨c, by simp [Ratio.inv, Ratio.isZero, hn, h1], h2, h3⟩

theorem inv_zero (r : Ratio) (hn : r.num = 0) : Ratio.inv r = ok none := by
  simp [Ratio.inv, Ratio.isZero, hn]

theorem pm_mul (sb : Bool) (x y k : Int) : Ratio.pm sb (x * k) (y * k) = Ratio.pm sb x y * k := by
  cases sb <;> simp [Ratio.pm] <;> ring

theorem gcd_pm_zero (sb : Bool) (c d : Int) (h : Int.gcd c d = 1) : Int.gcd (Ratio.pm sb 0 c) d = 1 := by
  cases sb <;> simp [Ratio.pm, h]

theorem addSub_spec (sb : Bool) (s r : Ratio) (hs : Canon s) (hr : Canon r) :
    ∃ c, Ratio.addSub sb s r = ok c ∧ Canon c ∧
      c.num * (s.den * r.den) = Ratio.pm sb (s.num * r.den) (r.num * s.den) * c.den := by
  obtain ⟨a, b⟩ := s
  obtain ⟨c0, d⟩ := r
  obtain ⟨hb, hab⟩ := hs
  obtain ⟨hd, hcd⟩ := hr
  simp only at hb hab hd hcd
  unfold Ratio.addSub
  simp only [Ratio.isZero]
  by_cases hc0 : c0 = 0
  · subst hc0
    refine ⟨⟨a, b⟩, by simp, ⟨hb, hab⟩, ?_⟩
    cases sb <;> simp [Ratio.pm] <;> ring
  · have hc0' : (c0 == 0) = false := by simpa using hc0
    simp only [hc0', Bool.false_eq_true, if_false]
    by_cases ha : a = 0
    · subst ha
      refine ⟨⟨Ratio.pm sb 0 c0, d⟩, by simp, ⟨hd, gcd_pm_zero sb c0 d hcd⟩, ?_⟩
      cases sb <;> simp [Ratio.pm] <;> ring
    · have ha' : (a == 0) = false := by simpa using ha
      simp only [ha', Bool.false_eq_true, if_false]
      by_cases hbd : b = d
      · subst hbd
        obtain ⟨c, h1, h2, h3⟩ := reduce_spec ⟨Ratio.pm sb a c0, b⟩ (by simp only; omega)
        refine ⟨c, by simp [h1], h2, ?_⟩
        simp only at h3 ⊢
        rw [pm_mul, ← Int.mul_assoc, h3]; ring
      · have hbd' : (b == d) = false := by simpa using hbd
        simp only [hbd', Bool.false_eq_true, if_false]
        have hl : (Int.lcm b d : Int) ≠ 0 := by
          have := Int.lcm_ne_zero (m := b) (n := d) (by omega) (by omega); omega
        obtain ⟨x, hx⟩ := Int.dvd_lcm_left b d
        obtain ⟨y, hy⟩ := Int.dvd_lcm_right b d
        have ex : (Int.lcm b d : Int).tdiv b = x := by
          rw [Int.tdiv_eq_ediv_of_dvd (Int.dvd_lcm_left b d)]
          exact Int.ediv_eq_of_eq_mul_right (by omega) hx
        have ey : (Int.lcm b d : Int).tdiv d = y := by
          rw [Int.tdiv_eq_ediv_of_dvd (Int.dvd_lcm_right b d)]
          exact Int.ediv_eq_of_eq_mul_right (by omega) hy
        unfold intLcm
        rw [tdivR_ok _ (by omega), tdivR_ok _ (by omega), ex, ey]
        simp only [Res.bind_ok]
        obtain ⟨c, h1, h2, h3⟩ := reduce_spec ⟨Ratio.pm sb (a * x) (y * c0), (Int.lcm b d : Int)⟩ hl
        refine ⟨c, h1, h2, ?_⟩
        simp only at h3 ⊢
        apply Int.eq_of_mul_eq_mul_left hl
        generalize (Int.lcm b d : Int) = l at *
        have e1 : Ratio.pm sb (a * d) (c0 * b) * l = Ratio.pm sb (a * x) (y * c0) * (b * d) := by
          rw [← pm_mul, ← pm_mul]; congr 1
          · rw [hx]; ring
          · rw [hy]; ring
        calc l * (c.num * (b * d)) = (c.num * l) * (b * d) := by ring
          _ = Ratio.pm sb (a * x) (y * c0) * c.den * (b * d) := by rw [h3]
          _ = (Ratio.pm sb (a * x) (y * c0) * (b * d)) * c.den := by ring
          _ = _ := by rw [← e1]; ring


theorem tdiv_gcd_l (n d : Int) : n.tdiv (intGcd n d) = n / (Int.gcd n d : Int) := tdiv_gcd_left n d
theorem tdiv_gcd_r (n d : Int) : d.tdiv (intGcd n d) = d / (Int.gcd n d : Int) := tdiv_gcd_right n d
theorem intGcd_ne (n d : Int) (h : n ≠ 0 ∨ d ≠ 0) : intGcd n d ≠ 0 := by
  have := gcd_cast_pos h; unfold intGcd; omega

theorem mul_spec (s r : Ratio) (hs : Canon s) (hr : Canon r) :
    ∃ c, Ratio.mul s r = ok c ∧ Canon c ∧ c.num * (s.den * r.den) = (s.num * r.num) * c.den := by
  obtain ⟨a, b⟩ := s
  obtain ⟨c0, d⟩ := r
  obtain ⟨hb, hab⟩ := hs
  obtain ⟨hd, hcd⟩ := hr
  simp only at hb hab hd hcd
  unfold Ratio.mul
  simp only [Ratio.isZero, Ratio.isOne, Ratio.isInt]
  by_cases h1 : a = 0 ∨ c0 = d
  · have : ((a == 0) || (c0 == d)) = true := by simpa using h1
    simp only [this, if_true]
    refine ⟨_, rfl, ⟨hb, hab⟩, ?_⟩
    rcases h1 with h | h
    · subst h; simp
    · subst h
      have : c0 = 1 := by rw [Int.gcd_self] at hcd; omega
      subst this; simp only; ring
  · have h1' : ((a == 0) || (c0 == d)) = false := by simpa using h1
    simp only [h1', Bool.false_eq_true, if_false]
    have ha : a ≠ 0 := fun h => h1 (Or.inl h)
    by_cases hc0 : c0 = 0
    · subst hc0
      exact ⟨⟨0, 1⟩, by simp [Ratio.zero, Ratio.fromInt], ⟨by decide, by decide⟩, by simp⟩
    · have hc0' : (c0 == 0) = false := by simpa using hc0
      simp only [hc0', Bool.false_eq_true, if_false]
      obtain ⟨m1, m2, m3⟩ := mul_core a b c0 d hb hd hab hcd
      by_cases hd1 : d = 1
      · subst hd1
        simp only [beq_self_eq_true, if_true]
        rw [tdivR_ok _ (intGcd_ne b c0 (Or.inl (by omega))), tdivR_ok _ (intGcd_ne b c0 (Or.inl (by omega)))]
        simp only [Res.bind_ok, tdiv_gcd_l, tdiv_gcd_r]
        simp only [Int.gcd_one_right, Nat.cast_one, Int.ediv_one, mul_one] at m1 m2 m3
        exact ⟨_, rfl, ⟨m1, m2⟩, by simpa using m3⟩
      · have hd1' : (d == 1) = false := by simpa using hd1
        simp only [hd1', Bool.false_eq_true, if_false]
        by_cases hb1 : b = 1
        · subst hb1
          simp only [beq_self_eq_true, if_true]
          rw [tdivR_ok _ (intGcd_ne a d (Or.inl ha)), tdivR_ok _ (intGcd_ne a d (Or.inl ha))]
          simp only [Res.bind_ok, tdiv_gcd_l, tdiv_gcd_r]
          simp only [Int.gcd_one_left, Nat.cast_one, Int.ediv_one, one_mul] at m1 m2 m3
          exact ⟨_, rfl, ⟨m1, m2⟩, by simpa using m3⟩
        · have hb1' : (b == 1) = false := by simpa using hb1
          simp only [hb1', Bool.false_eq_true, if_false]
          rw [tdivR_ok _ (intGcd_ne a d (Or.inl ha)), tdivR_ok _ (intGcd_ne b c0 (Or.inl (by omega))),
            tdivR_ok _ (intGcd_ne b c0 (Or.inl (by omega))), tdivR_ok _ (intGcd_ne a d (Or.inl ha))]
          simp only [Res.bind_ok, tdiv_gcd_l, tdiv_gcd_r]
          exact ⟨_, rfl, ⟨m1, m2⟩, m3⟩

theorem div_spec (s r : Ratio) (hs : Canon s) (hn : r.num ≠ 0) :
    ∃ c, Ratio.div s r = ok c ∧ Canon c ∧ c.num * (s.den * r.num) = (s.num * r.den) * c.den := by
  obtain ⟨i, h1, h2, h3⟩ := inv_spec r hn
  obtain ⟨c, k1, k2, k3⟩ := mul_spec s i hs h2
  refine ⟨c, by simp [Ratio.div, Res.assert, Ratio.isZero, hn, h1, k1], k2, ?_⟩
  have hi : i.den ≠ 0 := by have := h2.1; omega
  apply Int.eq_of_mul_eq_mul_left hi
  calc i.den * (c.num * (s.den * r.num)) = (c.num * (s.den * i.den)) * r.num := by ring
    _ = s.num * i.num * c.den * r.num := by rw [k3]
    _ = s.num * c.den * (i.num * r.num) := by ring
    _ = _ := by rw [h3]; ring

theorem div_zero (s r : Ratio) (hn : r.num = 0) : Ratio.div s r = panic := by
  simp [Ratio.div, Res.assert, Ratio.isZero, hn]

theorem canon_eq_iff (a b : Ratio) (ha : Canon a) (hb : Canon b) :
    a = b ↔ a.num * b.den = b.num * a.den := by
  constructor
  · rintro rfl; rfl
  · intro h
    obtain ⟨n1, d1⟩ := a
    obtain ⟨n2, d2⟩ := b
    obtain ⟨p1, g1⟩ := ha
    obtain ⟨p2, g2⟩ := hb
    simp only at *
    have c1 : IsCoprime d1 n1 := (Int.isCoprime_iff_gcd_eq_one.2 g1).symm
    have c2 : IsCoprime d2 n2 := (Int.isCoprime_iff_gcd_eq_one.2 g2).symm
    have k1 : d1 ∣ d2 := c1.dvd_of_dvd_mul_left ⟨n2, by linarith⟩
    have k2 : d2 ∣ d1 := c2.dvd_of_dvd_mul_left ⟨n1, by linarith⟩
    have : d1 = d2 := Int.dvd_antisymm p1.le p2.le k1 k2
    subst this
    have : n1 = n2 := Int.eq_of_mul_eq_mul_right (by omega) h
    subst this; rfl

/-! ## Ord::cmp -/

theorem tmodR_ok (a : Int) {b : Int} (h : b ≠ 0) : tmodR a b = ok (a.tmod b) := by
  simp [tmodR, h]

theorem icmp_eq_compare (x y : Int) : icmp x y = compare x y := rfl
theorem icmp_lt {x y : Int} (h : x < y) : icmp x y = .lt := by simp [icmp, h]
theorem icmp_eq {x y : Int} (h : x = y) : icmp x y = .eq := by simp [icmp, h]
theorem icmp_gt {x y : Int} (h : y < x) : icmp x y = .gt := by
  unfold icmp; rw [if_neg (by omega), if_neg (by omega)]
theorem icmp_swap (x y : Int) : (icmp x y).swap = icmp y x := by
  rcases Int.lt_trichotomy x y with h | h | h
  · rw [icmp_lt h, icmp_gt h]; rfl
  · rw [icmp_eq h, icmp_eq h.symm]; rfl
  · rw [icmp_gt h, icmp_lt h]; rfl
theorem icmp_of_sub {x y x' y' : Int} (h : x - y = x' - y') : icmp x y = icmp x' y' := by
  rcases Int.lt_trichotomy x y with h1 | h1 | h1
  · rw [icmp_lt h1, icmp_lt (by omega)]
  · rw [icmp_eq h1, icmp_eq (by omega)]
  · rw [icmp_gt h1, icmp_gt (by omega)]

theorem divRemFloor_pos (a b : Int) (hb : 0 < b) : Ratio.divRemFloor a b = ok (a / b, a % b) := by
  unfold Ratio.divRemFloor
  rw [tdivR_ok _ (by omega), tmodR_ok _ (by omega)]
  simp only [Res.bind_ok]
  have e := Int.tmod_add_mul_tdiv a b
  have h1 := Int.tmod_lt_of_pos a hb
  have h2 := Int.lt_tmod_of_pos a hb
  by_cases hr : a.tmod b < 0
  · rw [if_pos hr]
    have := (Int.ediv_emod_unique hb (a := a) (q := a.tdiv b - 1) (r := a.tmod b + b)).2
      ⟨by rw [Int.mul_sub]; omega, by omega, by omega⟩
    rw [this.1, this.2]
  · rw [if_neg hr]
    have := (Int.ediv_emod_unique hb (a := a) (q := a.tdiv b) (r := a.tmod b)).2 ⟨e, by omega, by omega⟩
    rw [this.1, this.2]

theorem cross_lt (b d q1 q2 r1 r2 : Int) (hb : 0 < b) (hd : 0 < d) (h1' : r1 < b) (h2 : 0 ≤ r2)
    (hq : q1 < q2) : (b * q1 + r1) * d < (d * q2 + r2) * b := by
  have t1 : 0 < d * (b - r1) := Int.mul_pos hd (by omega)
  have t2 : 0 ≤ (d * b) * (q2 - q1 - 1) := Int.mul_nonneg (Int.mul_pos hd hb).le (by omega)
  have t3 : 0 ≤ r2 * b := Int.mul_nonneg h2 hb.le
  nlinarith [t1, t2, t3]

theorem cmpLoop_spec : ∀ (fuel : Nat) (a b c d : Int) (rev : Bool), 0 < b → 0 < d → b.toNat < fuel →
    Ratio.cmpLoop fuel a b c d rev = ok (Ratio.fin rev (icmp (a * d) (c * b))) := by
  intro fuel
  induction fuel with
  | zero => intro a b c d rev _ _ h; omega
  | succ fuel ih =>
    intro a b c d rev hb hd hf
    unfold Ratio.cmpLoop
    rw [divRemFloor_pos a b hb, divRemFloor_pos c d hd]
    simp only [Res.bind_ok]
    have ea := Int.emod_add_mul_ediv a b
    have ec := Int.emod_add_mul_ediv c d
    have ra0 := Int.emod_nonneg a (by omega : b ≠ 0)
    have ra1 := Int.emod_lt_of_pos a hb
    have rc0 := Int.emod_nonneg c (by omega : d ≠ 0)
    have rc1 := Int.emod_lt_of_pos c hd
    generalize a / b = q1 at *
    generalize a % b = r1 at *
    generalize c / d = q2 at *
    generalize c % d = r2 at *
    have ha : a = b * q1 + r1 := by omega
    have hc : c = d * q2 + r2 := by omega
    subst ha hc
    rcases Int.lt_trichotomy q1 q2 with h | h | h
    · rw [icmp_lt h]
      simp only
      rw [icmp_lt (cross_lt b d q1 q2 r1 r2 hb hd ra1 rc0 h)]
    · subst h
      rw [icmp_eq rfl]
      simp only
      have hsub : (b * q1 + r1) * d - (d * q1 + r2) * b = r1 * d - r2 * b := by ring
      rw [icmp_of_sub hsub]
      by_cases h1 : r1 = 0 <;> by_cases h2 : r2 = 0
      · subst h1 h2; simp [icmp]
      · subst h1
        have : (r2 == 0) = false := by simpa using h2
        simp only [this, beq_self_eq_true]
        rw [icmp_lt (by have := Int.mul_pos (show 0 < r2 by omega) hb; omega)]
      · subst h2
        have : (r1 == 0) = false := by simpa using h1
        simp only [this, beq_self_eq_true]
        rw [icmp_gt (by have := Int.mul_pos (show 0 < r1 by omega) hd; omega)]
      · have e1 : (r1 == 0) = false := by simpa using h1
        have e2 : (r2 == 0) = false := by simpa using h2
        simp only [e1, e2]
        rw [ih b r1 d r2 (!rev) (by omega) (by omega) (by omega)]
        congr 1
        have : icmp (b * r2) (d * r1) = (icmp (r1 * d) (r2 * b)).swap := by
          rw [icmp_swap]; exact icmp_of_sub (by ring)
        rw [this]
        cases rev <;> simp [Ratio.fin]
    · rw [icmp_gt h]
      simp only
      rw [icmp_gt (cross_lt d b q2 q1 r2 r1 hd hb rc1 ra0 h)]

/-! ### FF<p> -/

theorem chk32_ok {x : Int} (h : -2147483648 ≤ x ∧ x ≤ 2147483647) : chk32 x = ok x := by
  simp [chk32, h]

theorem ff_new_ok (p a : Int) (hp : 0 < p) : FF.new p a = ok (a % p) := by
  simp [FF.new, Res.assert, hp]

theorem ff_new_panic (p a : Int) (hp : p ≤ 0) : FF.new p a = panic := by
  have : ¬ (0 < p) := by omega
  simp [FF.new, Res.assert, this]

theorem emod_range (p a : Int) (hp : 0 < p) : 0 ≤ a % p ∧ a % p < p :=
  ⟨Int.emod_nonneg a (by omega), Int.emod_lt_of_pos a hp⟩

/-- representatives of a prime field `p < 46341` never overflow `i32` -/
theorem mul_small {p a b : Int} (hp : p ≤ 46340) (ha : 0 ≤ a ∧ a < p) (hb : 0 ≤ b ∧ b < p) :
    0 ≤ a * b ∧ a * b ≤ 2147483647 := by
  have h1 : 0 ≤ a * b := Int.mul_nonneg ha.1 hb.1
  have h2 : a * b ≤ 46339 * 46339 := Int.mul_le_mul (by omega) (by omega) hb.1 (by omega)
  omega

theorem ff_add_ok {p a b : Int} (hp0 : 0 < p) (hp : p ≤ 46340) (ha : 0 ≤ a ∧ a < p) (hb : 0 ≤ b ∧ b < p) :
    FF.add p a b = ok ((a + b) % p) := by
  unfold FF.add; rw [chk32_ok (by omega)]; exact ff_new_ok p _ hp0
theorem ff_sub_ok {p a b : Int} (hp0 : 0 < p) (hp : p ≤ 46340) (ha : 0 ≤ a ∧ a < p) (hb : 0 ≤ b ∧ b < p) :
    FF.sub p a b = ok ((a - b) % p) := by
  unfold FF.sub; rw [chk32_ok (by omega)]; exact ff_new_ok p _ hp0
theorem ff_mul_ok {p a b : Int} (hp0 : 0 < p) (hp : p ≤ 46340) (ha : 0 ≤ a ∧ a < p) (hb : 0 ≤ b ∧ b < p) :
    FF.mul p a b = ok ((a * b) % p) := by
  have := mul_small hp ha hb
  unfold FF.mul; rw [chk32_ok (by omega)]; exact ff_new_ok p _ hp0
theorem ff_neg_ok {p a : Int} (hp0 : 0 < p) (hp : p ≤ 46340) (ha : 0 ≤ a ∧ a < p) :
    FF.neg p a = ok ((-a) % p) := by
  unfold FF.neg; rw [chk32_ok (by omega)]; exact ff_new_ok p _ hp0

/-! extended gcd (num-integer) -/

theorem xgcdLoop_inv (x y : Int) : ∀ (fuel : Nat) (r s t r' s' t' : Int × Int),
    x * s.1 + y * t.1 = r.1 → x * s.2 + y * t.2 = r.2 →
    FF.xgcdLoop fuel r s t = ok (r', s', t') → x * s'.2 + y * t'.2 = r'.2 := by
  intro fuel
  induction fuel with
  | zero => intro r s t r' s' t' _ _ h; simp [FF.xgcdLoop] at h
  | succ fuel ih =>
    intro r s t r' s' t' h1 h2 h
    unfold FF.xgcdLoop at h
    by_cases h0 : (r.1 == 0) = true
    · rw [if_pos h0] at h
      simp only [ok.injEq, Prod.mk.injEq] at h
      obtain ⟨rfl, rfl, rfl⟩ := h
      exact h2
    · rw [if_neg h0] at h
      refine ih _ _ _ r' s' t' ?_ ?_ h
      · simp only
        calc x * (s.2 - r.2.tdiv r.1 * s.1) + y * (t.2 - r.2.tdiv r.1 * t.1)
            = (x * s.2 + y * t.2) - r.2.tdiv r.1 * (x * s.1 + y * t.1) := by ring
          _ = _ := by rw [h1, h2]
      · exact h1

theorem gcdx_bezout (x y d s t : Int) (h : FF.gcdx x y = ok (d, s, t)) : x * s + y * t = d := by
  unfold FF.gcdx at h
  cases hl : FF.xgcdLoop (y.natAbs + 2) (y, x) (0, 1) (1, 0) with
  | panic => simp [hl] at h
  | err => simp [hl] at h
  | ok v =>
    obtain ⟨r', s', t'⟩ := v
    have inv := xgcdLoop_inv x y _ (y, x) (0, 1) (1, 0) r' s' t' (by simp) (by simp) hl
    simp only [hl, Res.bind_ok] at h
    by_cases hs : r'.2 ≥ 0
    · rw [if_pos hs] at h
      simp only [ok.injEq, Prod.mk.injEq] at h
      obtain ⟨rfl, rfl, rfl⟩ := h
      exact inv
    · rw [if_neg hs] at h
      simp only [ok.injEq, Prod.mk.injEq] at h
      obtain ⟨rfl, rfl, rfl⟩ := h
      linarith

theorem ff_inv_spec (p a x : Int) (h : FF.inv p a = ok (some x)) :
    0 ≤ x ∧ x < p ∧ (a * x) % p = 1 % p := by
  unfold FF.inv at h
  by_cases hz : FF.isZero a = true
  · simp [hz] at h
  · simp only [hz, Bool.false_eq_true, if_false] at h
    cases hg : FF.gcdx a p with
    | panic => simp [hg] at h
    | err => simp [hg] at h
    | ok v =>
      obtain ⟨d, s, t⟩ := v
      have bz := gcdx_bezout a p d s t hg
      simp only [hg, Res.bind_ok] at h
      by_cases hd : d = 1
      · subst hd
        by_cases hp : 0 < p
        · simp [Res.assert, ff_new_ok p s hp] at h
          subst h
          refine ⟨(emod_range p s hp).1, (emod_range p s hp).2, ?_⟩
          have : a * s = 1 + p * (-t) := by linarith
          rw [Int.mul_emod, Int.emod_emod_of_dvd _ (Int.dvd_refl p), ← Int.mul_emod, this,
            Int.add_mul_emod_self_left]
        · simp [Res.assert, ff_new_panic p s (by omega)] at h
      · have : (d == 1) = false := by simpa using hd
        simp [Res.assert, this] at h

/-- `inv` returns `Some(_)` (no panic, no `None`) -/
def invDefined (p a : Int) : Bool :=
  match FF.inv p a with
  | ok (some _) => true
  | _ => false

/-! ### FF2 -/

theorem ff2_ofInt_add (a b : Int) : FF2.ofInt (a + b) = FF2.add (FF2.ofInt a) (FF2.ofInt b) := by
  unfold FF2.ofInt FF2.add
  rcases Int.emod_two_eq_zero_or_one a with h1 | h1 <;> rcases Int.emod_two_eq_zero_or_one b with h2 | h2 <;>
    simp [h1, h2, Int.add_emod]
theorem ff2_ofInt_mul (a b : Int) : FF2.ofInt (a * b) = FF2.mul (FF2.ofInt a) (FF2.ofInt b) := by
  unfold FF2.ofInt FF2.mul
  rcases Int.emod_two_eq_zero_or_one a with h1 | h1 <;> rcases Int.emod_two_eq_zero_or_one b with h2 | h2 <;>
    simp [h1, h2, Int.mul_emod]
theorem ff2_ofInt_neg (a : Int) : FF2.ofInt (-a) = FF2.neg (FF2.ofInt a) := by
  unfold FF2.ofInt FF2.neg
  have : (-a) % 2 = a % 2 := by omega
  rw [this]
theorem ff2_ofInt_sub (a b : Int) : FF2.ofInt (a - b) = FF2.sub (FF2.ofInt a) (FF2.ofInt b) := by
  have : (a - b) % 2 = (a + b) % 2 := by omega
  unfold FF2.sub; rw [← ff2_ofInt_add]; unfold FF2.ofInt; rw [this]
theorem ff2_ofInt_eq_iff (a b : Int) : FF2.ofInt a = FF2.ofInt b ↔ a % 2 = b % 2 := by
  unfold FF2.ofInt
  rcases Int.emod_two_eq_zero_or_one a with h1 | h1 <;> rcases Int.emod_two_eq_zero_or_one b with h2 | h2 <;>
    simp [h1, h2]

/-! ### QuadInt: arithmetic of ℤ[ω], ω² = e + fω, on pairs -/

/-- the defining product formula of ℤ[ω]/(ω² = e + fω) -/
def mulF (e f : Int) (x y : QI) : QI :=
  ⟨x.l * y.l + x.r * y.r * e, x.l * y.r + x.r * y.l + x.r * y.r * f⟩
/-- conjugation `ω ↦ f − ω` -/
def conjF (f : Int) (x : QI) : QI := ⟨x.l + f * x.r, -x.r⟩
/-- norm `x · conj x` -/
def normF (e f : Int) (x : QI) : Int := x.l * x.l + f * (x.l * x.r) - e * (x.r * x.r)

theorem qi_ext {x y : QI} (h1 : x.l = y.l) (h2 : x.r = y.r) : x = y := by
  cases x; cases y; simp only at h1 h2; subst h1 h2; rfl

/-- Rust's product (with both shortcut branches) for `D ≡ 1 (mod 4)`, `D = 4k + 1`: `ω² = k + ω` -/
theorem qi_mul_D1 (k : Int) (x y : QI) : QI.mul (4 * k + 1) x y = ok (mulF k 1 x y) := by
  have hm : (4 * k + 1) % 4 = 1 := by omega
  unfold QI.mul mulF
  by_cases hb : x.r = 0
  · simp [hb]
  · by_cases hd : y.r = 0
    · simp [hb, hd]
    · simp [hb, hd, hm]

/-- Rust's product for `D ≡ 2, 3 (mod 4)`: `ω² = D` -/
theorem qi_mul_D23 (D : Int) (hD : D % 4 = 2 ∨ D % 4 = 3) (x y : QI) :
    QI.mul D x y = ok (mulF D 0 x y) := by
  unfold QI.mul mulF
  by_cases hb : x.r = 0
  · simp [hb]
  · by_cases hd : y.r = 0
    · simp [hb, hd]
    · rcases hD with h | h <;> simp [hb, hd, h]

theorem qi_mul_gauss (x y : QI) : QI.mul (-1) x y = ok (mulF (-1) 0 x y) :=
  qi_mul_D23 (-1) (Or.inr (by decide)) x y
theorem qi_mul_eisen (x y : QI) : QI.mul (-3) x y = ok (mulF (-1) 1 x y) := by
  have h := qi_mul_D1 (-1) x y
  simpa using h

theorem qi_norm_D1 (k : Int) (x : QI) : QI.norm (4 * k + 1) x = ok (normF k 1 x) := by
  have hm : (4 * k + 1) % 4 = 1 := by omega
  have he : (1 - (4 * k + 1)).tdiv 4 = -k := by
    rw [show 1 - (4 * k + 1) = 4 * (-k) by ring]; exact Int.mul_tdiv_cancel_left (-k) (by decide)
  unfold QI.norm normF
  simp only [hm, he, beq_self_eq_true, if_true, ok.injEq]
  ring
theorem qi_norm_D23 (D : Int) (hD : D % 4 = 2 ∨ D % 4 = 3) (x : QI) :
    QI.norm D x = ok (normF D 0 x) := by
  unfold QI.norm normF
  rcases hD with h | h <;> simp [h] <;> ring
theorem qi_conj_D1 (k : Int) (x : QI) : QI.conj (4 * k + 1) x = ok (conjF 1 x) := by
  have hm : (4 * k + 1) % 4 = 1 := by omega
  simp [QI.conj, conjF, hm]
theorem qi_conj_D23 (D : Int) (hD : D % 4 = 2 ∨ D % 4 = 3) (x : QI) :
    QI.conj D x = ok (conjF 0 x) := by
  unfold QI.conj conjF
  rcases hD with h | h <;> simp [h]

/-- `D ≡ 0 (mod 4)` is rejected by the constructor -/
theorem qi_new_reject (D a b : Int) (hD : D % 4 = 0) : QI.new D a b = panic := by
  have : D.tmod 4 = 0 := Int.tmod_eq_zero_of_dvd (Int.dvd_of_emod_eq_zero hD)
  simp [QI.new, Res.assert, this]
theorem qi_new_ok (D a b : Int) (hD : D % 4 ≠ 0) : QI.new D a b = ok ⟨a, b⟩ := by
  have : D.tmod 4 ≠ 0 := fun h => hD (Int.emod_eq_zero_of_dvd (Int.dvd_of_tmod_eq_zero h))
  simp [QI.new, Res.assert, this]

/-! commutative-ring identities of the pair arithmetic -/
section
variable (e f : Int) (x y z : QI)
theorem qi_add_comm : QI.add x y = QI.add y x := qi_ext (by simp [QI.add]; ring) (by simp [QI.add]; ring)
theorem qi_add_assoc : QI.add (QI.add x y) z = QI.add x (QI.add y z) :=
  qi_ext (by simp [QI.add]; ring) (by simp [QI.add]; ring)
theorem qi_add_zero : QI.add x QI.zero = x := qi_ext (by simp [QI.add, QI.zero]) (by simp [QI.add, QI.zero])
theorem qi_add_neg : QI.add x (QI.neg x) = QI.zero :=
  qi_ext (by simp [QI.add, QI.neg, QI.zero]) (by simp [QI.add, QI.neg, QI.zero])
theorem qi_sub_eq : QI.sub x y = QI.add x (QI.neg y) :=
  qi_ext (by simp [QI.add, QI.neg, QI.sub]; ring) (by simp [QI.add, QI.neg, QI.sub]; ring)
theorem qi_mul_comm : mulF e f x y = mulF e f y x := qi_ext (by simp [mulF]; ring) (by simp [mulF]; ring)
theorem qi_mul_assoc : mulF e f (mulF e f x y) z = mulF e f x (mulF e f y z) :=
  qi_ext (by simp [mulF]; ring) (by simp [mulF]; ring)
theorem qi_mul_one : mulF e f x QI.one = x := qi_ext (by simp [mulF, QI.one]) (by simp [mulF, QI.one])
theorem qi_mul_zero : mulF e f x QI.zero = QI.zero :=
  qi_ext (by simp [mulF, QI.zero]) (by simp [mulF, QI.zero])
theorem qi_left_distrib : mulF e f x (QI.add y z) = QI.add (mulF e f x y) (mulF e f x z) :=
  qi_ext (by simp [mulF, QI.add]; ring) (by simp [mulF, QI.add]; ring)
theorem qi_right_distrib : mulF e f (QI.add x y) z = QI.add (mulF e f x z) (mulF e f y z) :=
  qi_ext (by simp [mulF, QI.add]; ring) (by simp [mulF, QI.add]; ring)
theorem qi_omega_sq : mulF e f QI.omega QI.omega = ⟨e, f⟩ := qi_ext (by simp [mulF, QI.omega]) (by simp [mulF, QI.omega])
theorem qi_norm_mul : normF e f (mulF e f x y) = normF e f x * normF e f y := by
  simp only [normF, mulF]; ring
theorem qi_conj_conj : conjF f (conjF f x) = x := qi_ext (by simp [conjF]) (by simp [conjF])
theorem qi_mul_conj : mulF e f x (conjF f x) = ⟨normF e f x, 0⟩ :=
  qi_ext (by simp [mulF, conjF, normF]; ring) (by simp [mulF, conjF]; ring)
theorem qi_conj_mul : conjF f (mulF e f x y) = mulF e f (conjF f x) (conjF f y) :=
  qi_ext (by simp [mulF, conjF]; ring) (by simp [mulF, conjF]; ring)
end

end Yuiv.C14
