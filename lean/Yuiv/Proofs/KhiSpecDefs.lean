import Yuiv.Proofs.KhiSpecModel
import Yuiv.Proofs.C19ConeDefs
/-
KhiSpec — the decidable well-formedness check of the generator enumeration and the bit rows of `khiHomology`
(core Lean + models only, no Mathlib: a driver can evaluate it).
-/
namespace Yuiv.KhiSpec
open Yuiv Yuiv.KhRef Yuiv.C19 Yuiv.C19Inv

/-- the base circle of the state of `g` is labelled `X` (`C06Cycle.baseKeep`) -/
def baseKeepB (c : Cube) (g : Gen) : Bool :=
  match c.baseCircle g.s with
  | some b => g.mask.testBit b
  | none => true

def nodupB (gs : Array IGen) : Bool := allBelow gs.size (fun i => allBelow i (fun j => gs[i]! != gs[j]!))

/-- the cone differential over the full differential of the cube (`#[]` where `Cube.d` is undefined) -/
def dIfull (ic : ICube) (p : Params) : IGen → Array IGen := dIA ic (fun g => (ic.cube.d p g).getD #[])

/-- WELL-FORMEDNESS OF THE ENUMERATION AND THE BIT ROWS: (a) every enumerated cube generator is a generator (state below
`2^n`, labelling of the circles of its state, base circle `X`); (b) every degree of the cone is duplicate-free;
(c) every target of `dI` on a cone generator of degree `i` is a cone generator of degree `i + 1` (so that the index map
`idx` finds it — `(idx.get? y).getD 0` would otherwise silently use column `0`) -/
def khiGensOk (ic : ICube) (p : Params) : Bool :=
  let c := ic.cube
  let kg := kgensOf c
  let gens := coneGens c kg
  kg.all (fun gs => gs.all (fun g =>
    decide (g.s < 2 ^ c.n) && decide (g.mask < 2 ^ (c.circ[g.s]!).size) && baseKeepB c g)) &&
  gens.all nodupB &&
  allBelow gens.size (fun i => (gens[i]!).all (fun x => (dIfull ic p x).all (fun y => (gens[i + 1]!).contains y)))

/-- the full per-instance hypothesis of the end-to-end statement -/
def khiSpecOk (l : InvLink) (p : Params) : Bool :=
  C19Cone.khiInstanceOk l p &&
    (match mkICube l p with
     | some ic => khiGensOk ic p
     | none => false)

end Yuiv.KhiSpec
