import Yuiv.Model.C04
import Yuiv.Proofs.C04InvSort
/-
C04Inv (helper, no property theorem here): the imperative `Id.run do` code of the model
(`KhRef.edgeLabels`, `KhRef.resolvedTypes`, `KhRef.circles`) rewritten as pure folds.
  * `edgeLabels l` is duplicate-free and contains exactly the labels occurring in `l`;
  * `(resolvedTypes l s).toList = resTypes l.toList s` (structural recursion over the crossing list,
    bit 0 of the state belongs to the first unresolved crossing);
  * `(circles l labels s).size` = number of `r < labels.size` with `comp[r]! = r`, where `comp` is the
    fold of `mergeStep` over the list `pairsL` of label pairs joined by the resolved crossings.
Only core Lean is used here.
-/
open Yuiv.KhRef
namespace Yuiv.C04Inv


def arcIdx (t : CT) : List (Nat × Nat) :=
  match t with
  | .V => [(0, 3), (1, 2)]
  | .H => [(0, 1), (2, 3)]
  | _ => []

def mergeStep (comp : Array Nat) (a b : Nat) : Array Nat :=
  if comp[a]! = comp[b]! then comp
  else comp.map (fun y => if y = max comp[a]! comp[b]! then min comp[a]! comp[b]! else y)

def unionStep (l : Link) (labels : Array Nat) (ts : Array CT) (comp : Array Nat) (i : Nat) : Array Nat :=
  (arcIdx ts[i]!).foldl (fun comp x =>
    mergeStep comp (indexOf labels l[i]!.e[x.1]!) (indexOf labels l[i]!.e[x.2]!)) comp

def unionAll (l : Link) (labels : Array Nat) (ts : Array CT) : Array Nat :=
  (List.range' 0 l.size).foldl (unionStep l labels ts) (Array.range labels.size)

theorem id_foldlM {β α} (f : β → α → Id β) (b : β) (l : List α) :
    (List.foldlM f b l).run = l.foldl (fun b a => (f b a).run) b := by
  induction l generalizing b with
  | nil => rfl
  | cons a l ih => simp [List.foldlM_cons, ih]

theorem id_forIn_yield {α β} (l : List α) (b : β) (g : α → β → β) (f : α → β → Id (ForInStep β))
    (h : ∀ a b, f a b = pure (ForInStep.yield (g a b))) :
    (forIn l b f).run = l.foldl (fun b a => g a b) b := by
  induction l generalizing b with
  | nil => rfl
  | cons a l ih => simp [h, ih]

theorem out_loop_size {γ} (rs : List Nat) (p : Nat → Prop) [DecidablePred p] (g : Nat → Id γ) (out : Array γ) :
    (forIn rs out (fun r out => if p r then (fun a => ForInStep.yield (out.push a)) <$> g r
        else pure (ForInStep.yield out))).run.size = out.size + (rs.filter (fun r => decide (p r))).length := by
  induction rs generalizing out with
  | nil => simp
  | cons r rs ih =>
    by_cases hp : p r
    · simp [hp, ih]; omega
    · simp [hp, ih]

theorem circles_size (l : Link) (labels : Array Nat) (s : Nat) :
    (circles l labels s).size =
      ((List.range' 0 labels.size).filter
        (fun r => decide ((unionAll l labels (resolvedTypes l s))[r]! = r))).length := by
  unfold circles
  simp
  generalize hc : Id.run (List.foldlM (m := Id) (s := Array Nat) (α := Nat) _ (Array.range labels.size) (List.range' 0 (Array.size l))) = comp
  have h := out_loop_size (List.range' 0 labels.size) (fun r => comp[r]! = r)
    (fun r => forIn (List.range' 0 labels.size) #[] fun x (out : Array Nat) =>
              if comp[x]! = r then pure (ForInStep.yield (out.push labels[x]!)) else pure (ForInStep.yield out)) #[]
  simp only [List.size_toArray, List.length_nil, Nat.zero_add] at h
  rw [h]
  have : comp = unionAll l labels (resolvedTypes l s) := by
    subst hc
    rw [id_foldlM]
    unfold unionAll
    congr 1
    funext comp i
    unfold unionStep
    rw [id_forIn_yield (g := fun x comp => mergeStep comp (indexOf labels l[i]!.e[x.1]!) (indexOf labels l[i]!.e[x.2]!))]
    · rfl
    · intro x c
      unfold mergeStep
      split
      · rfl
      · rename_i hne
        by_cases hlt : c[indexOf labels l[i]!.e[x.1]!]! < c[indexOf labels l[i]!.e[x.2]!]!
        · simp only [hlt, if_true]; rw [Nat.max_eq_right (Nat.le_of_lt hlt), Nat.min_eq_left (Nat.le_of_lt hlt)]
        · simp only [hlt, if_false]; rw [Nat.max_eq_left (by omega), Nat.min_eq_right (by omega)]
  rw [this]



def addNew (xs : Array Nat) (x : Nat) : Array Nat := if x ∈ xs then xs else xs.push x

theorem addNew_list (ys : List Nat) (xs : Array Nat) (h : xs.toList.Nodup) :
    (ys.foldl addNew xs).toList.Nodup ∧ ∀ z, z ∈ ys.foldl addNew xs ↔ z ∈ xs ∨ z ∈ ys := by
  induction ys generalizing xs with
  | nil => simp [h]
  | cons y ys ih =>
    have h1 : (addNew xs y).toList.Nodup := by
      unfold addNew; split
      · exact h
      · rename_i hy
        simp [List.nodup_append, h]
        intro a ha hay; subst hay; exact hy (by simpa using ha)
    obtain ⟨i1, i2⟩ := ih (addNew xs y) h1
    refine ⟨i1, fun z => ?_⟩
    rw [List.foldl_cons, i2]
    unfold addNew; split
    · rename_i hy; simp; constructor
      · rintro (h | h); exact Or.inl h; exact Or.inr (Or.inr h)
      · rintro (h | h | h); exact Or.inl h; subst h; exact Or.inl hy; exact Or.inr h
    · simp [or_assoc]

def preLabels (l : Link) : Array Nat := l.toList.foldl (fun xs c => c.e.toList.foldl addNew xs) #[]

theorem preLabels_aux (cs : List Crossing) (xs : Array Nat) (h : xs.toList.Nodup) :
    (cs.foldl (fun xs c => c.e.toList.foldl addNew xs) xs).toList.Nodup ∧
      ∀ z, z ∈ cs.foldl (fun xs c => c.e.toList.foldl addNew xs) xs ↔ z ∈ xs ∨ ∃ c ∈ cs, z ∈ c.e := by
  induction cs generalizing xs with
  | nil => simp [h]
  | cons c cs ih =>
    obtain ⟨a1, a2⟩ := addNew_list c.e.toList xs h
    obtain ⟨i1, i2⟩ := ih _ a1
    refine ⟨i1, fun z => ?_⟩
    rw [List.foldl_cons, i2, a2]
    simp [or_assoc]

theorem edgeLabels_eq (l : Link) : edgeLabels l = (preLabels l).qsort (· < ·) := by
  have : (Array.foldl
          (fun x1 (x2 : Crossing) =>
            (forIn x2.e x1 fun x (s : Array Nat) =>
                if x ∈ s then (pure (ForInStep.yield s) : Id _) else pure (ForInStep.yield (s.push x))).run)
          #[] l) = preLabels l := by
    unfold preLabels
    rw [← Array.foldl_toList]
    congr 1
    funext xs c
    rw [← Array.forIn_toList, id_forIn_yield (g := fun x s => addNew s x)]
    intro a b; unfold addNew; split <;> rfl
  unfold edgeLabels
  simp
  rw [this]

theorem edgeLabels_nodup (l : Link) : (edgeLabels l).toList.Nodup := by
  rw [edgeLabels_eq]
  have := (qsort_perm (preLabels l) (· < ·)).toList
  rw [this.nodup_iff]
  exact (preLabels_aux l.toList #[] (by simp)).1

theorem mem_edgeLabels (l : Link) (x : Nat) : x ∈ edgeLabels l ↔ ∃ c ∈ l, x ∈ c.e := by
  rw [edgeLabels_eq, (qsort_perm (preLabels l) (· < ·)).mem_iff]
  have := (preLabels_aux l.toList #[] (by simp)).2 x
  unfold preLabels
  rw [this]; simp



def resTypes : List Crossing → Nat → List CT
  | [], _ => []
  | c :: cs, s =>
    if c.ct.isResolved then c.ct :: resTypes cs s
    else c.ct.resolve (s.testBit 0) :: resTypes cs (s / 2)

def resStep (s : Nat) (st : Array CT × Nat) (c : Crossing) : Array CT × Nat :=
  if c.ct.isResolved then (st.1.push c.ct, st.2) else (st.1.push (c.ct.resolve (s.testBit st.2)), st.2 + 1)

theorem resStep_fold (s : Nat) (cs : List Crossing) (out : Array CT) (k : Nat) :
    (cs.foldl (resStep s) (out, k)).1.toList = out.toList ++ resTypes cs (s >>> k) := by
  induction cs generalizing out k with
  | nil => simp [resTypes]
  | cons c cs ih =>
    rw [List.foldl_cons]
    by_cases h : c.ct.isResolved
    · have e : resStep s (out, k) c = (out.push c.ct, k) := by simp [resStep, h]
      rw [e, ih]; simp [resTypes, h]
    · have e : resStep s (out, k) c = (out.push (c.ct.resolve (s.testBit k)), k + 1) := by simp [resStep, h]
      rw [e, ih]; simp [resTypes, h, Nat.shiftRight_succ]

theorem resolvedTypes_toList (l : Link) (s : Nat) : (resolvedTypes l s).toList = resTypes l.toList s := by
  unfold resolvedTypes
  simp
  rw [← Array.forIn_toList, id_forIn_yield (g := fun c st => resStep s st c)]
  · rw [resStep_fold]; simp
  · intro a b; unfold resStep; split <;> rfl

theorem resTypes_length (cs : List Crossing) (s : Nat) : (resTypes cs s).length = cs.length := by
  induction cs generalizing s with
  | nil => rfl
  | cons c cs ih => unfold resTypes; split <;> simp [ih]

theorem resolvedTypes_size (l : Link) (s : Nat) : (resolvedTypes l s).size = l.size := by
  rw [← Array.length_toList, resolvedTypes_toList, resTypes_length]; simp



/-- the label pairs joined at a crossing `c` whose resolved type is `t` -/
def arcs (c : Crossing) (t : CT) : List (Nat × Nat) := (arcIdx t).map (fun x => (c.e[x.1]!, c.e[x.2]!))

def pairsL : List Crossing → List CT → List (Nat × Nat)
  | c :: cs, t :: ts => arcs c t ++ pairsL cs ts
  | _, _ => []

def unionPairs (labels : Array Nat) (P : List (Nat × Nat)) (comp : Array Nat) : Array Nat :=
  P.foldl (fun comp uv => mergeStep comp (indexOf labels uv.1) (indexOf labels uv.2)) comp

theorem range_map_zip {α β} [Inhabited α] [Inhabited β] (xs : Array α) (ys : Array β) (h : xs.size = ys.size) :
    (List.range' 0 xs.size).map (fun i => (xs[i]!, ys[i]!)) = xs.toList.zip ys.toList := by
  apply List.ext_getElem
  · simp [h]
  · intro i h1 h2
    simp at h1 h2
    have h3 : i < ys.size := by omega
    simp [getElem!_pos, h1, h3]

theorem unionPairs_zip (labels : Array Nat) (zs : List (Crossing × CT)) (comp : Array Nat) :
    zs.foldl (fun comp p => unionPairs labels (arcs p.1 p.2) comp) comp
      = unionPairs labels (pairsL (zs.map Prod.fst) (zs.map Prod.snd)) comp := by
  induction zs generalizing comp with
  | nil => rfl
  | cons z zs ih =>
    rw [List.foldl_cons, ih]
    simp [pairsL, unionPairs, List.foldl_append]

theorem unionAll_eq (l : Link) (labels : Array Nat) (ts : Array CT) (h : l.size = ts.size) :
    unionAll l labels ts = unionPairs labels (pairsL l.toList ts.toList) (Array.range labels.size) := by
  unfold unionAll
  have e : unionStep l labels ts = fun comp i => (fun comp (p : Crossing × CT) => unionPairs labels (arcs p.1 p.2) comp) comp
      ((fun i => (l[i]!, ts[i]!)) i) := by
    funext comp i
    simp [unionStep, unionPairs, arcs, List.foldl_map]
  rw [e, ← List.foldl_map (f := fun i => (l[i]!, ts[i]!))
    (g := fun comp (p : Crossing × CT) => unionPairs labels (arcs p.1 p.2) comp), range_map_zip l ts h, unionPairs_zip]
  rw [← List.unzip_fst, ← List.unzip_snd, List.unzip_zip]
  simpa using h



theorem indexOf_spec (xs : Array Nat) (x : Nat) (hx : x ∈ xs) :
    indexOf xs x < xs.size ∧ xs[indexOf xs x]! = x := by
  unfold indexOf
  cases h : xs.findIdx? (· == x) with
  | none =>
    rw [Array.findIdx?_eq_none_iff] at h
    have := h x hx
    simp at this
  | some i =>
    rw [Array.findIdx?_eq_some_iff_getElem] at h
    obtain ⟨hi, hp, _⟩ := h
    simp only [Option.getD_some]
    refine ⟨hi, ?_⟩
    rw [getElem!_pos xs i hi]
    simpa using hp

theorem indexOf_getElem (xs : Array Nat) (hnd : xs.toList.Nodup) (i : Nat) (hi : i < xs.size) :
    indexOf xs xs[i]! = i := by
  have hm : xs[i]! ∈ xs := by rw [getElem!_pos xs i hi]; exact Array.getElem_mem hi
  obtain ⟨h1, h2⟩ := indexOf_spec xs xs[i]! hm
  generalize indexOf xs xs[i]! = j at h1 h2 ⊢
  rw [getElem!_pos xs j h1, getElem!_pos xs i hi] at h2
  exact (List.getElem_inj (xs := xs.toList) (h₀ := by simpa using h1) (h₁ := by simpa using hi) hnd).mp
    (by simpa using h2)

end Yuiv.C04Inv
