import Yuiv.Proofs.KhSnfHomSpec
import Yuiv.Proofs.C02MirrorDual
import Yuiv.Proofs.C06CycleHash
/-
KhSpec — shared definitions for the end-to-end specification of `KhRef.khHomology` (`Props/KhSpec.lean`).

  * `gensByWeight c`   : the generators of the cube grouped by the weight of the state (the first loop of `khHomology`);
  * `inGens`, `dTab`   : the differential table of `khHomology` as a function (`#[]` outside the generators);
  * `h0Of`, `q0Of`     : the degree shifts `−n₋`, `n₊ − 2n₋ (+1)`;
  * `cellsUn`, `cellsQ`: the non-zero groups as cells;
  * `dMat`             : the matrix of `Cube.d` between consecutive weights (rows = source generators);
  * `khInstanceOk`     : the decidable per-instance condition: all sparse rows `homologyOf` builds are well-formed
                         (`normalizeRow` sorts with `Array.qsort`, whose sortedness is not verified).
-/
namespace Yuiv.KhSpec
open Yuiv Yuiv.KhRef Matrix Yuiv.KhSnf

/-- all generators by weight -/
def gensByWeight (c : Cube) : Array (Array Gen) :=
  (List.range (2 ^ c.n)).foldl
    (fun gens s => gens.set! (popcount s c.n) (gens[popcount s c.n]! ++ c.gensAt s)) (Array.replicate (c.n + 1) #[])

/-- `g` occurs in one of the lists -/
def inGens (gens : Array (Array Gen)) (g : Gen) : Bool := gens.any (fun gs => gs.contains g)

/-- the differential table of `khHomology` as a function: `d g` on the generators, `#[]` elsewhere -/
def dTab (c : Cube) (p : Params) (gens : Array (Array Gen)) : Gen → Array Term :=
  fun g => if inGens gens g then (c.d p g).getD #[] else #[]

def nNegOf (signs : Array Int) : Nat := (signs.filter (· < 0)).size
def nPosOf (signs : Array Int) : Nat := (signs.filter (· > 0)).size
/-- homological shift `−n₋` -/
def h0Of (signs : Array Int) : Int := -(nNegOf signs : Int)
/-- quantum shift `n₊ − 2n₋` (`+1` in the reduced theory) -/
def q0Of (signs : Array Int) (p : Params) : Int := (nPosOf signs : Int) - 2 * nNegOf signs + (if p.reduced then 1 else 0)

/-- the non-zero groups of an (ungraded) table as cells -/
def cellsUn (h0 : Int) (j : Option Int) (hs : Array Group) : List (Int × Option Int × Group) :=
  (List.range hs.size).filterMap (fun (i : Nat) =>
    if (hs[i]!).rank != 0 || (hs[i]!).tors.size != 0 then some (h0 + (i : Int), j, hs[i]!) else none)

/-- the matrix of `Cube.d` from the generators of weight `i` to those of weight `i + 1` (rows = sources) -/
def dMat (c : Cube) (p : Params) (gens : Array (Array Gen)) (i : Nat) :
    Matrix (Fin (gens[i]!).size) (Fin (gens[i + 1]!).size) ℤ :=
  fun a b => C02Mirror.dCoef c p (gens[i]!)[a.val]! (gens[i + 1]!)[b.val]!

/-- all sparse rows that `homologyOf` builds from `gens` and `d` are well-formed -/
def rowsOkB (gens : Array (Array Gen)) (d : Gen → Array Term) : Bool :=
  (List.range gens.size).all (fun j => !(decide (j + 1 < gens.size)) ||
    (rowsAt gens d j).all (fun r => decide (RowOK (gens[j + 1]!).size r)))

/-- the per-instance condition of the unbigraded computation -/
def khInstanceOk (l : Link) (p : Params) : Bool :=
  rowsOkB (gensByWeight (mkCube l p)) (dTab (mkCube l p) p (gensByWeight (mkCube l p)))

end Yuiv.KhSpec
