import Yuiv.Proofs.C18
import Yuiv.Proofs.C18Orbit
/-
C18 — part 6: edge renumbering by an injective map commutes with everything (all links, valid or not):
the walks are literally the same, components are renamed, crossing signs are unchanged.
-/
namespace Yuiv.C18
open Yuiv

/-- `Link` with every edge label renamed (`Crossing::convert_edges` on every crossing) -/
def renumber (f : Nat → Nat) (l : Link) : Link := l.map (fun c => c.convertEdges f)

def Path.ren (f : Nat → Nat) (p : Path) : Path := ⟨p.edges.map f, p.closed⟩

def Inj (f : Nat → Nat) : Prop := ∀ a b, f a = f b → a = b

theorem renumber_length (f : Nat → Nat) (l : Link) : (renumber f l).length = l.length := by
  unfold renumber; exact List.length_map _

theorem ctypeAt_renumber (f : Nat → Nat) (l : Link) (i : Nat) : ctypeAt (renumber f l) i = ctypeAt l i := by
  unfold ctypeAt renumber
  rw [List.getElem?_map]
  cases l[i]? <;> rfl

theorem convertEdges_edge (f : Nat → Nat) (c : Crossing) (j : Nat) : (c.convertEdges f).edge j = f (c.edge j) := by
  match j with
  | 0 => rfl
  | 1 => rfl
  | 2 => rfl
  | _ + 3 => rfl

theorem edgeAt_renumber (f : Nat → Nat) (l : Link) (i j : Nat) (hi : i < l.length) :
    edgeAt (renumber f l) i j = f (edgeAt l i j) := by
  unfold edgeAt renumber
  rw [List.getElem?_map, List.getElem?_eq_getElem hi]
  exact convertEdges_edge f _ j

theorem slotsFrom_renumber (f : Nat → Nat) (l : List Crossing) (i : Nat) :
    slotsFrom (l.map (fun c => c.convertEdges f)) i = (slotsFrom l i).map (fun s => (s.1, f s.2)) := by
  induction l generalizing i with
  | nil => rfl
  | cons c cs ih =>
    show slotsFrom (c.convertEdges f :: cs.map (fun c => c.convertEdges f)) i = _
    simp only [slotsFrom, List.map_cons, ih]
    rfl

theorem beq_inj (f : Nat → Nat) (hf : Inj f) (a b : Nat) : (f a == f b) = (a == b) := by
  by_cases h : a = b
  · subst h; simp
  · have : f a ≠ f b := fun h' => h (hf a b h')
    rw [beq_eq_false_iff_ne.2 h, beq_eq_false_iff_ne.2 this]

theorem passEdge_renumber (f : Nat → Nat) (hf : Inj f) (l : Link) (i j : Nat) (hi : i < l.length) :
    passEdge (renumber f l) i j = passEdge l i j := by
  unfold passEdge slots
  simp only [edgeAt_renumber f l i j hi]
  show (List.find? _ (slotsFrom (l.map fun c => c.convertEdges f) 0)).map _ = _
  rw [slotsFrom_renumber, List.find?_map, Option.map_map]
  have hp : ((fun (s : (Nat × Nat) × Nat) => s.2 == f (edgeAt l i j) && s.1 != (i, j)) ∘
        fun (s : (Nat × Nat) × Nat) => (s.1, f s.2))
      = fun (s : (Nat × Nat) × Nat) => s.2 == edgeAt l i j && s.1 != (i, j) := by
    funext s
    show (f s.2 == f (edgeAt l i j) && s.1 != (i, j)) = _
    rw [beq_inj f hf]
  rw [hp]
  cases List.find? (fun (s : (Nat × Nat) × Nat) => s.2 == edgeAt l i j && s.1 != (i, j)) (slotsFrom l 0) <;> rfl

theorem passEdge_range (l : Link) (i j : Nat) (h : Nat × Nat) (hp : passEdge l i j = some h) : HE l h := by
  unfold passEdge at hp
  cases hf : List.find? (fun s => s.2 == edgeAt l i j && s.1 != (i, j)) (slots l) with
  | none => simp only [hf] at hp; cases hp
  | some x =>
    simp only [hf, Option.map_some, Option.some.injEq] at hp
    have hm := List.mem_of_find?_eq_some hf
    obtain ⟨h', e⟩ := x
    simp only at hp
    subst hp
    exact ((mem_slots l h' e).1 hm).1

theorem traverseLoop_renumber (f : Nat → Nat) (hf : Inj f) (l : Link) (start : Nat × Nat) :
    ∀ (fuel : Nat) (cur : Nat × Nat) (acc : List (Nat × Nat)), cur.1 < l.length →
      traverseLoop (renumber f l) start fuel cur acc = traverseLoop l start fuel cur acc := by
  intro fuel
  induction fuel with
  | zero => intros; rfl
  | succ fuel ih =>
    intro cur acc hc
    unfold traverseLoop
    simp only [ctypeAt_renumber, passEdge_renumber f hf l cur.1 _ hc]
    cases hp : passEdge l cur.1 ((ctypeAt l cur.1).pass cur.2) with
    | none => rfl
    | some next =>
      simp only
      split
      · rfl
      · exact ih next (cur :: acc) (passEdge_range l _ _ next hp).1

theorem traverse_renumber (f : Nat → Nat) (hf : Inj f) (l : Link) (s : Nat × Nat) (hs : s.1 < l.length) :
    traverse (renumber f l) s = traverse l s := by
  unfold traverse; rw [renumber_length]; exact traverseLoop_renumber f hf l s _ s [] hs

/-- every slot reported by a walk has a crossing index in range -/
theorem traverseLoop_range (l : Link) (start : Nat × Nat) (hs : start.1 < l.length) :
    ∀ (fuel : Nat) (cur : Nat × Nat) (acc : List (Nat × Nat)) (path : List (Nat × Nat)),
      cur.1 < l.length → (∀ p ∈ acc, p.1 < l.length) →
      traverseLoop l start fuel cur acc = .ok path → ∀ p ∈ path, p.1 < l.length := by
  intro fuel
  induction fuel with
  | zero => intro cur acc path _ _ h; cases h
  | succ fuel ih =>
    intro cur acc path hc hacc h
    unfold traverseLoop at h
    cases hp : passEdge l cur.1 ((ctypeAt l cur.1).pass cur.2) with
    | none =>
      simp only [hp] at h
      cases h
      intro p hpm
      simp only [List.reverse_cons, List.mem_append, List.mem_reverse, List.mem_cons, List.not_mem_nil, or_false] at hpm
      rcases hpm with (h1 | h1) | h1
      · exact hacc p h1
      · rw [h1]; exact hc
      · rw [h1]; exact hc
    | some next =>
      simp only [hp] at h
      split at h
      · cases h
        intro p hpm
        simp only [List.reverse_cons, List.mem_append, List.mem_reverse, List.mem_cons, List.not_mem_nil, or_false] at hpm
        rcases hpm with (h1 | h1) | h1
        · exact hacc p h1
        · rw [h1]; exact hc
        · rw [h1]; exact hs
      · refine ih next (cur :: acc) path (passEdge_range l _ _ next hp).1 ?_ h
        intro p hpm
        rcases List.mem_cons.1 hpm with h1 | h1
        · rw [h1]; exact hc
        · exact hacc p h1

theorem traverse_range (l : Link) (s : Nat × Nat) (hs : s.1 < l.length) (path : List (Nat × Nat))
    (h : traverse l s = .ok path) : ∀ p ∈ path, p.1 < l.length :=
  traverseLoop_range l s hs _ s [] path hs (by simp) h

theorem map_edgeAt_renumber (f : Nat → Nat) (l : Link) (path : List (Nat × Nat))
    (h : ∀ p ∈ path, p.1 < l.length) :
    path.map (fun p => edgeAt (renumber f l) p.1 p.2) = (path.map (fun p => edgeAt l p.1 p.2)).map f := by
  rw [List.map_map]
  apply List.map_congr_left
  intro p hp
  exact edgeAt_renumber f l p.1 p.2 (h p hp)

theorem mkPath_map (f : Nat → Nat) (hf : Inj f) (es : List Nat) : mkPath (es.map f) = (mkPath es).ren f := by
  unfold mkPath
  have h1 : (es.map f).length = es.length := List.length_map _
  have h2 : ((es.map f).head? = (es.map f).getLast?) ↔ (es.head? = es.getLast?) := by
    rw [List.head?_map, List.getLast?_map]
    cases es.head? <;> cases es.getLast? <;> simp
    exact ⟨fun h => hf _ _ h, fun h => by rw [h]⟩
  rw [h1]
  by_cases hc : es.length > 1 ∧ es.head? = es.getLast?
  · rw [if_pos hc, if_pos ⟨hc.1, h2.2 hc.2⟩]
    simp [Path.ren, List.map_dropLast]
  · rw [if_neg hc, if_neg (fun h => hc ⟨h.1, h2.1 h.2⟩)]
    rfl

theorem contains_map_inj (f : Nat → Nat) (hf : Inj f) (xs : List Nat) (a : Nat) :
    (xs.map f).contains (f a) = xs.contains a := by
  induction xs with
  | nil => rfl
  | cons x xs ih =>
    simp only [List.map_cons, List.contains_cons, ih]
    rw [beq_inj f hf]

def renSt (f : Nat → Nat) (st : List Path × List Nat) : List Path × List Nat :=
  (st.1.map (Path.ren f), st.2.map f)

theorem compsStep_renumber (f : Nat → Nat) (hf : Inj f) (l : Link) (j0 : Nat) (st : List Path × List Nat)
    (i0 : Nat) (hi : i0 < l.length) :
    compsStep (renumber f l) j0 (renSt f st) i0 = resMap (renSt f) (compsStep l j0 st i0) := by
  unfold compsStep
  rw [edgeAt_renumber f l i0 j0 hi, traverse_renumber f hf l (i0, j0) hi]
  show (if ((st.2.map f).contains (f (edgeAt l i0 j0))) = true then _ else _) = _
  rw [contains_map_inj f hf]
  split
  · rfl
  · cases ht : traverse l (i0, j0) with
    | panic => rfl
    | err => rfl
    | ok path =>
      have hr := traverse_range l (i0, j0) hi path ht
      simp only [map_edgeAt_renumber f l path hr, mkPath_map f hf, resMap, renSt]
      simp [Path.ren, List.map_reverse]

theorem foldlM_compsStep_renumber (f : Nat → Nat) (hf : Inj f) (l : Link) (j0 : Nat) (is : List Nat)
    (his : ∀ i ∈ is, i < l.length) (st : List Path × List Nat) :
    is.foldlM (compsStep (renumber f l) j0) (renSt f st) = resMap (renSt f) (is.foldlM (compsStep l j0) st) := by
  induction is generalizing st with
  | nil => rfl
  | cons i is ih =>
    simp only [List.foldlM_cons, compsStep_renumber f hf l j0 st i (his i (by simp))]
    cases compsStep l j0 st i with
    | ok st' => exact ih (fun i hi => his i (List.mem_cons_of_mem _ hi)) st'
    | panic => rfl
    | err => rfl

theorem compsPass_renumber (f : Nat → Nat) (hf : Inj f) (l : Link) (j0 : Nat) (st : List Path × List Nat) :
    compsPass (renumber f l) j0 (renSt f st) = resMap (renSt f) (compsPass l j0 st) := by
  unfold compsPass
  rw [renumber_length]
  exact foldlM_compsStep_renumber f hf l j0 _ (fun i hi => List.mem_range.1 hi) st

theorem components_renumber' (f : Nat → Nat) (hf : Inj f) (l : Link) :
    components (renumber f l) = resMap (List.map (Path.ren f)) (components l) := by
  unfold components
  have e0 : compsPass (renumber f l) 0 ([], []) = resMap (renSt f) (compsPass l 0 ([], [])) :=
    compsPass_renumber f hf l 0 ([], [])
  rw [e0]
  cases compsPass l 0 ([], []) with
  | panic => rfl
  | err => rfl
  | ok st0 =>
    simp only [resMap, Res.bind_ok, compsPass_renumber f hf]
    cases compsPass l 1 st0 with
    | panic => rfl
    | err => rfl
    | ok st1 =>
      simp only [resMap, Res.bind_ok, compsPass_renumber f hf]
      cases compsPass l 2 st1 with
      | panic => rfl
      | err => rfl
      | ok st2 => rfl

/-! signs -/

def renS (f : Nat → Nat) (st : List (Option Sign) × List Nat) : List (Option Sign) × List Nat :=
  (st.1, st.2.map f)

theorem signsVisit_renumber (f : Nat → Nat) (l : Link) (st : List (Option Sign) × List Nat) (p : Nat × Nat)
    (hp : p.1 < l.length) :
    signsVisit (renumber f l) (renS f st) p = renS f (signsVisit l st p) := by
  unfold signsVisit
  simp only [ctypeAt_renumber, edgeAt_renumber f l p.1 p.2 hp]
  cases signAt (ctypeAt l p.1) p.2 <;> rfl

theorem foldl_signsVisit_renumber (f : Nat → Nat) (l : Link) (path : List (Nat × Nat))
    (hr : ∀ p ∈ path, p.1 < l.length) (st : List (Option Sign) × List Nat) :
    path.foldl (signsVisit (renumber f l)) (renS f st) = renS f (path.foldl (signsVisit l) st) := by
  induction path generalizing st with
  | nil => rfl
  | cons p ps ih =>
    simp only [List.foldl_cons, signsVisit_renumber f l st p (hr p (by simp))]
    exact ih (fun q hq => hr q (List.mem_cons_of_mem _ hq)) _

theorem signsStep_renumber (f : Nat → Nat) (hf : Inj f) (l : Link) (j0 : Nat) (st : List (Option Sign) × List Nat)
    (i0 : Nat) (hi : i0 < l.length) :
    signsStep (renumber f l) j0 (renS f st) i0 = resMap (renS f) (signsStep l j0 st i0) := by
  unfold signsStep
  rw [edgeAt_renumber f l i0 j0 hi, traverse_renumber f hf l (i0, j0) hi]
  show (if ((st.2.map f).contains (f (edgeAt l i0 j0))) = true then _ else _) = _
  rw [contains_map_inj f hf]
  split
  · rfl
  · cases ht : traverse l (i0, j0) with
    | panic => rfl
    | err => rfl
    | ok path =>
      have hr := traverse_range l (i0, j0) hi path ht
      simp only [foldl_signsVisit_renumber f l path hr, resMap]

theorem foldlM_signsStep_renumber (f : Nat → Nat) (hf : Inj f) (l : Link) (j0 : Nat) (is : List Nat)
    (his : ∀ i ∈ is, i < l.length) (st : List (Option Sign) × List Nat) :
    is.foldlM (signsStep (renumber f l) j0) (renS f st) = resMap (renS f) (is.foldlM (signsStep l j0) st) := by
  induction is generalizing st with
  | nil => rfl
  | cons i is ih =>
    simp only [List.foldlM_cons, signsStep_renumber f hf l j0 st i (his i (by simp))]
    cases signsStep l j0 st i with
    | ok st' => exact ih (fun i hi => his i (List.mem_cons_of_mem _ hi)) st'
    | panic => rfl
    | err => rfl

theorem signsPass_renumber (f : Nat → Nat) (hf : Inj f) (l : Link) (j0 : Nat) (st : List (Option Sign) × List Nat) :
    signsPass (renumber f l) j0 (renS f st) = resMap (renS f) (signsPass l j0 st) := by
  unfold signsPass
  rw [renumber_length]
  exact foldlM_signsStep_renumber f hf l j0 _ (fun i hi => List.mem_range.1 hi) st

theorem signsIncomplete_renumber (f : Nat → Nat) (l : Link) (signs : List (Option Sign)) :
    signsIncomplete (renumber f l) signs = signsIncomplete l signs := by
  unfold signsIncomplete
  rw [renumber_length]
  simp only [ctypeAt_renumber]

theorem crossingNum_renumber (f : Nat → Nat) (l : Link) : crossingNum (renumber f l) = crossingNum l := by
  unfold crossingNum renumber
  rw [List.filter_map, List.length_map]
  rfl

theorem crossingSigns_renumber' (f : Nat → Nat) (hf : Inj f) (l : Link) :
    crossingSigns (renumber f l) = crossingSigns l := by
  unfold crossingSigns
  have h0 : (List.replicate (renumber f l).length (none : Option Sign), ([] : List Nat))
      = renS f (List.replicate l.length none, []) := by
    simp [renS, renumber_length]
  rw [h0, signsPass_renumber f hf, crossingNum_renumber]
  cases signsPass l 0 (List.replicate l.length none, []) with
  | panic => rfl
  | err => rfl
  | ok st =>
    simp only [resMap, Res.bind_ok]
    have hinc : signsIncomplete (renumber f l) (renS f st).1 = signsIncomplete l st.1 :=
      signsIncomplete_renumber f l st.1
    rw [hinc]
    cases signsIncomplete l st.1 with
    | false => rfl
    | true =>
      simp only [if_true, signsPass_renumber f hf]
      cases signsPass l 1 st with
      | panic => rfl
      | err => rfl
      | ok st1 =>
        simp only [resMap, Res.bind_ok, signsPass_renumber f hf]
        cases signsPass l 2 st1 with
        | panic => rfl
        | err => rfl
        | ok st2 => rfl

end Yuiv.C18
