import Yuiv.Model.C10
import Mathlib.Data.Matrix.Mul
import Mathlib.LinearAlgebra.Matrix.NonsingularInverse
import Mathlib.Algebra.BigOperators.Fin
import Mathlib.Tactic.Ring
import Mathlib.Tactic.Linarith
/-
Spec definitions and helper lemmas for C10 (no property theorem here).
-/
namespace Yuiv.C10
open Yuiv Res Finset

/-! ### basic facts about the executable building blocks -/

theorem allLt_iff (n : Nat) (p : Nat → Bool) : allLt n p = true ↔ ∀ i < n, p i = true := by
  simp [allLt, List.all_eq_true]

theorem foldr_add_eq_sum {α : Type} [AddCommMonoid α] (l : List α) : l.foldr (· + ·) 0 = l.sum := by
  induction l with
  | nil => rfl
  | cons a t ih => simp [List.foldr, ih]

theorem sumLt_eq (n : Nat) (f : Nat → Int) : sumLt n f = ∑ i ∈ range n, f i := by
  unfold sumLt
  rw [foldr_add_eq_sum]
  induction n with
  | zero => simp
  | succ k ih => rw [List.range_succ, List.map_append, List.sum_append, ih, Finset.sum_range_succ]; simp

theorem sumLtQ_eq (n : Nat) (f : Nat → ℚ) : sumLtQ n f = ∑ i ∈ range n, f i := by
  unfold sumLtQ
  rw [foldr_add_eq_sum]
  induction n with
  | zero => simp
  | succ k ih => rw [List.range_succ, List.map_append, List.sum_append, ih, Finset.sum_range_succ]; simp

theorem ent_mkMat {m n : Nat} (f : Nat → Nat → Int) {i j : Nat} (hi : i < m) (hj : j < n) :
    ent (mkMat m n f) i j = f i j := by
  simp [ent, mkMat, Array.getD, hi, hj]

theorem ent_idMat {m i j : Nat} (hi : i < m) (hj : j < m) : ent (idMat m) i j = if i = j then 1 else 0 := by
  simp [idMat, ent_mkMat _ hi hj]

/-! ### matrices as Mathlib matrices -/

/-- the `m × n` Mathlib matrix stored in `A` -/
def toMatrix (m n : Nat) (A : Mat) : Matrix (Fin m) (Fin n) ℤ := fun i j => ent A i.val j.val

/-- entrywise form of `P·A = T` on the index range -/
def PAeq (m l n : Nat) (P A T : Nat → Nat → Int) : Prop :=
  ∀ r < m, ∀ c < n, ∑ k ∈ range l, P r k * A k c = T r c

theorem PAeq_iff_matrix (m l n : Nat) (P A T : Mat) :
    PAeq m l n (ent P) (ent A) (ent T) ↔ toMatrix m l P * toMatrix l n A = toMatrix m n T := by
  constructor
  · intro h
    ext i j
    rw [Matrix.mul_apply]
    have := h i.val i.isLt j.val j.isLt
    rw [← Fin.sum_univ_eq_sum_range (fun k => ent P i.val k * ent A k j.val)] at this
    exact this
  · intro h r hr c hc
    have := congrFun (congrFun h ⟨r, hr⟩) ⟨c, hc⟩
    rw [Matrix.mul_apply] at this
    rw [← Fin.sum_univ_eq_sum_range (fun k => ent P r k * ent A k c)]
    exact this

theorem toMatrix_idMat (m : Nat) : toMatrix m m (idMat m) = 1 := by
  ext i j
  simp [toMatrix, ent_idMat i.isLt j.isLt, Matrix.one_apply, Fin.ext_iff]

theorem mulEq_iff (m l n : Nat) (P A B : Mat) :
    mulEq m l n P A B = true ↔ PAeq m l n (ent P) (ent A) (ent B) := by
  simp [mulEq, allLt_iff, mulEnt, sumLt_eq, PAeq]

/-! ### Hermite shape -/

/-- Row echelon form with positive pivots, zeros below and reduced entries above the pivots.
`lead i` is the leading column of row `i` (`n` for a zero row). -/
structure IsHnf (m n : Nat) (H : Nat → Nat → Int) (lead : Nat → Nat) : Prop where
  le : ∀ i < m, lead i ≤ n
  zero_left : ∀ i < m, ∀ j < lead i, H i j = 0
  pivot_pos : ∀ i < m, lead i < n → 0 < H i (lead i)
  strict : ∀ i < m, ∀ i' < m, i < i' → lead i < n → lead i < lead i'
  zero_last : ∀ i < m, ∀ i' < m, i < i' → lead i = n → lead i' = n
  below : ∀ i < m, ∀ i' < m, i < i' → lead i < n → H i' (lead i) = 0
  above : ∀ i < m, ∀ i' < i, lead i < n → (H i' (lead i)) ^ 2 < (H i (lead i)) ^ 2

theorem isHnf_sound' (m n : Nat) (H : Mat) (h : isHnf m n H = true) :
    IsHnf m n (ent H) (leadCol n H) := by
  simp only [isHnf, allLt_iff, Bool.and_eq_true, Bool.or_eq_true, Bool.not_eq_true', decide_eq_true_eq,
    decide_eq_false_iff_not, beq_iff_eq] at h
  refine ⟨fun i hi => (h i hi).1.1.1, ?_, ?_, ?_, ?_, ?_, ?_⟩
  · intro i hi j hj
    have h1 := (h i hi).1.1.2 j (lt_of_lt_of_le hj (h i hi).1.1.1)
    rcases h1 with h1 | h1
    · exact absurd hj h1
    · exact h1
  · intro i hi hl
    rcases (h i hi).1.2 with h1 | h1
    · exact absurd hl h1
    · exact h1.1
  · intro i hi i' hi' hlt hl
    rcases (h i hi).1.2 with h1 | h1
    · exact absurd hl h1
    · have := h1.2 i' hi'
      rw [if_pos hlt] at this
      simp only [Bool.and_eq_true, decide_eq_true_eq, beq_iff_eq] at this
      exact this.1
  · intro i hi i' hi' hlt hl
    rcases (h i hi).2 with h1 | h1
    · simp [hl] at h1
    · rcases h1 i' hi' with h2 | h2
      · exact absurd hlt h2
      · exact h2
  · intro i hi i' hi' hlt hl
    rcases (h i hi).1.2 with h1 | h1
    · exact absurd hl h1
    · have := h1.2 i' hi'
      rw [if_pos hlt] at this
      simp only [Bool.and_eq_true, decide_eq_true_eq, beq_iff_eq] at this
      exact this.2
  · intro i hi i' hlt hl
    rcases (h i hi).1.2 with h1 | h1
    · exact absurd hl h1
    · have := h1.2 i' (lt_trans hlt hi)
      rw [if_neg (by omega), if_pos hlt] at this
      simp only [decide_eq_true_eq] at this
      rw [pow_two, pow_two]
      exact this

theorem isHnf_complete' (m n : Nat) (H : Mat) (h : IsHnf m n (ent H) (leadCol n H)) : isHnf m n H = true := by
  simp only [isHnf, allLt_iff, Bool.and_eq_true, Bool.or_eq_true, Bool.not_eq_true', decide_eq_true_eq,
    decide_eq_false_iff_not, beq_iff_eq]
  intro i hi
  refine ⟨⟨⟨h.le i hi, ?_⟩, ?_⟩, ?_⟩
  · intro j _
    by_cases hj : j < leadCol n H i
    · exact Or.inr (h.zero_left i hi j hj)
    · exact Or.inl hj
  · by_cases hl : leadCol n H i < n
    · refine Or.inr ⟨h.pivot_pos i hi hl, ?_⟩
      intro i' hi'
      by_cases h1 : i < i'
      · rw [if_pos h1]
        simp only [Bool.and_eq_true, decide_eq_true_eq, beq_iff_eq]
        exact ⟨h.strict i hi i' hi' h1 hl, h.below i hi i' hi' h1 hl⟩
      · rw [if_neg h1]
        by_cases h2 : i' < i
        · rw [if_pos h2]
          simp only [decide_eq_true_eq]
          have := h.above i hi i' h2 hl
          rw [pow_two, pow_two] at this
          exact this
        · rw [if_neg h2]
    · exact Or.inl hl
  · by_cases hl : leadCol n H i = n
    · refine Or.inr ?_
      intro i' hi'
      by_cases h1 : i < i'
      · exact Or.inr (h.zero_last i hi i' hi' h1 hl)
      · exact Or.inl h1
    · exact Or.inl (by simp [hl])

/-! ### LLL-reducedness -/

/-- `(bs, mu)` is the Gram–Schmidt decomposition of the (independent) rows of `B`:
`b_i = b*_i + Σ_{j<i} μ_ij b*_j`, the `b*_i` pairwise orthogonal and non-zero. -/
structure IsGS (m n : Nat) (B : Nat → Nat → Int) (bs mu : Nat → Nat → ℚ) : Prop where
  decomp : ∀ i < m, ∀ c < n, (B i c : ℚ) = bs i c + ∑ j ∈ range i, mu i j * bs j c
  orth : ∀ i < m, ∀ j < i, ∑ c ∈ range n, bs i c * bs j c = 0
  pos : ∀ i < m, 0 < ∑ c ∈ range n, bs i c * bs i c

/-- size-reduced and Lovász with constant `α` -/
def IsLLLReduced (m n : Nat) (B : Nat → Nat → Int) (α : ℚ) : Prop :=
  ∃ bs mu : Nat → Nat → ℚ, IsGS m n B bs mu ∧
    (∀ i < m, ∀ j < i, |mu i j| ≤ 1 / 2) ∧
    (∀ k, 0 < k → k < m →
      (α - mu k (k - 1) ^ 2) * (∑ c ∈ range n, bs (k - 1) c * bs (k - 1) c) ≤ ∑ c ∈ range n, bs k c * bs k c)

theorem reducedWith_sound (m n : Nat) (B : Mat) (p q : Int) (bs mu : QMat)
    (h : reducedWith m n B p q bs mu = true) :
    IsGS m n (ent B) (entQ bs) (entQ mu) ∧
    (∀ i < m, ∀ j < i, |entQ mu i j| ≤ 1 / 2) ∧
    (∀ k, 0 < k → k < m →
      ((p : ℚ) / (q : ℚ) - entQ mu k (k - 1) ^ 2) * (∑ c ∈ range n, entQ bs (k - 1) c * entQ bs (k - 1) c)
        ≤ ∑ c ∈ range n, entQ bs k c * entQ bs k c) := by
  simp only [reducedWith, allLt_iff, Bool.and_eq_true, Bool.or_eq_true, decide_eq_true_eq, beq_iff_eq,
    sumLtQ_eq] at h
  obtain ⟨⟨⟨⟨h1, h2⟩, h3⟩, h4⟩, h5⟩ := h
  refine ⟨⟨h1, h2, h3⟩, ?_, ?_⟩
  · intro i hi j hj
    rw [abs_le]
    exact h4 i hi j hj
  · intro k hk0 hk
    rcases h5 k hk with h | h
    · omega
    · rw [pow_two]; exact h

/-! ### uniqueness of the Gram–Schmidt decomposition (the spec pins down `b*`, `μ`) -/

theorem IsGS.orth_ne {m n : Nat} {B : Nat → Nat → Int} {bs mu : Nat → Nat → ℚ} (h : IsGS m n B bs mu)
    {j k : Nat} (hj : j < m) (hk : k < m) (hjk : j ≠ k) : ∑ c ∈ range n, bs j c * bs k c = 0 := by
  rcases Nat.lt_or_gt_of_ne hjk with h1 | h1
  · rw [Finset.sum_congr rfl (fun c _ => mul_comm (bs j c) (bs k c))]
    exact h.orth k hk j h1
  · exact h.orth j hj k h1

/-- `⟨b_i, b*_k⟩ = μ_ik·|b*_k|²` for `k < i` -/
theorem IsGS.inner_eq {m n : Nat} {B : Nat → Nat → Int} {bs mu : Nat → Nat → ℚ} (h : IsGS m n B bs mu)
    {i k : Nat} (hi : i < m) (hk : k < i) :
    ∑ c ∈ range n, (B i c : ℚ) * bs k c = mu i k * ∑ c ∈ range n, bs k c * bs k c := by
  have hkm : k < m := lt_trans hk hi
  calc ∑ c ∈ range n, (B i c : ℚ) * bs k c
      = ∑ c ∈ range n, (bs i c * bs k c + ∑ j ∈ range i, mu i j * (bs j c * bs k c)) := by
        refine Finset.sum_congr rfl (fun c hc => ?_)
        rw [h.decomp i hi c (mem_range.mp hc), add_mul, Finset.sum_mul]
        congr 1
        exact Finset.sum_congr rfl (fun j _ => by ring)
    _ = ∑ c ∈ range n, bs i c * bs k c + ∑ j ∈ range i, mu i j * ∑ c ∈ range n, bs j c * bs k c := by
        rw [Finset.sum_add_distrib, Finset.sum_comm]
        congr 1
        exact Finset.sum_congr rfl (fun j _ => by rw [Finset.mul_sum])
    _ = ∑ j ∈ range i, (if j = k then mu i k * ∑ c ∈ range n, bs k c * bs k c else 0) := by
        rw [h.orth i hi k hk, zero_add]
        refine Finset.sum_congr rfl (fun j hj => ?_)
        by_cases hjk : j = k
        · rw [if_pos hjk, hjk]
        · rw [if_neg hjk, h.orth_ne (lt_trans (mem_range.mp hj) hi) hkm hjk, mul_zero]
    _ = mu i k * ∑ c ∈ range n, bs k c * bs k c := by
        rw [Finset.sum_ite_eq' (range i) k]
        simp [hk]

/-- the Gram–Schmidt decomposition demanded by `IsGS` is unique -/
theorem IsGS.unique {m n : Nat} {B : Nat → Nat → Int} {bs mu bs' mu' : Nat → Nat → ℚ}
    (h : IsGS m n B bs mu) (h' : IsGS m n B bs' mu') :
    ∀ i < m, (∀ c < n, bs i c = bs' i c) ∧ (∀ j < i, mu i j = mu' i j) := by
  intro i
  induction i using Nat.strong_induction_on with
  | _ i ih =>
    intro hi
    have hmu : ∀ k < i, mu i k = mu' i k := by
      intro k hk
      have hkm : k < m := lt_trans hk hi
      have e1 := h.inner_eq hi hk
      have e2 := h'.inner_eq hi hk
      have hbk : ∀ c ∈ range n, bs' k c = bs k c := fun c hc => ((ih k hk hkm).1 c (mem_range.mp hc)).symm
      have s1 : ∑ c ∈ range n, (B i c : ℚ) * bs' k c = ∑ c ∈ range n, (B i c : ℚ) * bs k c :=
        Finset.sum_congr rfl (fun c hc => by rw [hbk c hc])
      have s2 : ∑ c ∈ range n, bs' k c * bs' k c = ∑ c ∈ range n, bs k c * bs k c :=
        Finset.sum_congr rfl (fun c hc => by rw [hbk c hc])
      rw [s1, s2] at e2
      have hpos := h.pos k hkm
      have := e1.symm.trans e2
      exact mul_right_cancel₀ (ne_of_gt hpos) this
    refine ⟨?_, hmu⟩
    intro c hc
    have d1 := h.decomp i hi c hc
    have d2 := h'.decomp i hi c hc
    have : ∑ j ∈ range i, mu i j * bs j c = ∑ j ∈ range i, mu' i j * bs' j c := by
      refine Finset.sum_congr rfl (fun j hj => ?_)
      have hj' := mem_range.mp hj
      rw [hmu j hj', (ih j hj' (lt_trans hj' hi)).1 c hc]
    rw [this] at d1
    linarith

/-! ### the row primitives keep `target = P·A` and `P·P⁻¹ = I` -/

/-- the transposition of `i` and `j` -/
def sw (i j r : Nat) : Nat := if r = i then j else if r = j then i else r

theorem sw_lt {m i j r : Nat} (hi : i < m) (hj : j < m) (hr : r < m) : sw i j r < m := by
  unfold sw; split_ifs <;> omega

theorem sw_inj (i j r c : Nat) : sw i j r = sw i j c ↔ r = c := by
  unfold sw; split_ifs <;> omega

/-- Kronecker delta -/
def kron (r c : Nat) : Int := if r = c then 1 else 0

/-- invariant of the transform part of `LLLData` w.r.t. the input matrix `A` -/
structure Tr.Inv (A : Mat) (t : Tr) : Prop where
  pa : PAeq t.m t.m t.n (ent t.p) (ent A) (ent t.target)
  pp : PAeq t.m t.m t.m (ent t.p) (ent t.pinv) kron

theorem assert_bind {β : Type} (c : Bool) (f : Unit → Res β) (b : β) :
    (Res.assert c >>= f) = ok b ↔ c = true ∧ f () = ok b := by
  cases c <;> simp [Res.assert]

theorem bind_eq_ok {α β : Type} (x : Res α) (f : α → Res β) (b : β) :
    (x >>= f) = ok b ↔ ∃ a, x = ok a ∧ f a = ok b := by
  cases x <;> simp

theorem Tr.init_inv (m n : Nat) (A : Mat) : (Tr.init m n A).Inv A := by
  constructor
  · intro r (hr : r < m) c (hc : c < n)
    show ∑ k ∈ range m, ent (idMat m) r k * ent A k c = ent (mkMat m n (ent A)) r c
    rw [ent_mkMat _ hr hc, Finset.sum_congr rfl (fun k hk => by rw [ent_idMat hr (mem_range.mp hk)])]
    simp [hr]
  · intro r (hr : r < m) c (hc : c < m)
    show ∑ k ∈ range m, ent (idMat m) r k * ent (idMat m) k c = _
    rw [Finset.sum_congr rfl (fun k hk => by rw [ent_idMat hr (mem_range.mp hk), ent_idMat (mem_range.mp hk) hc])]
    simp [kron]; omega

theorem Tr.swapRows_inv (A : Mat) (t t' : Tr) (i j : Nat) (h : t.swapRows i j = ok t') (hI : t.Inv A) :
    t'.Inv A ∧ t'.m = t.m ∧ t'.n = t.n := by
  unfold Tr.swapRows at h
  rw [assert_bind] at h
  obtain ⟨hc, h⟩ := h
  simp only [Bool.and_eq_true, decide_eq_true_eq] at hc
  obtain ⟨hi, hj⟩ := hc
  simp only [pure_eq, Res.ok.injEq] at h
  subst h
  refine ⟨⟨?_, ?_⟩, rfl, rfl⟩
  · intro r hr c hc
    show ∑ k ∈ range t.m, ent (mSwapRows t.m t.m t.p i j) r k * ent A k c = ent (mSwapRows t.m t.n t.target i j) r c
    rw [Finset.sum_congr rfl (fun k hk => by rw [mSwapRows, ent_mkMat _ hr (mem_range.mp hk)])]
    rw [mSwapRows, ent_mkMat _ hr hc]
    exact hI.pa (sw i j r) (sw_lt hi hj hr) c hc
  · intro r hr c hc
    show ∑ k ∈ range t.m, ent (mSwapRows t.m t.m t.p i j) r k * ent (mSwapCols t.m t.m t.pinv i j) k c = _
    rw [Finset.sum_congr rfl (fun k hk => by
      rw [mSwapRows, ent_mkMat _ hr (mem_range.mp hk), mSwapCols, ent_mkMat _ (mem_range.mp hk) hc])]
    have := hI.pp (sw i j r) (sw_lt hi hj hr) (sw i j c) (sw_lt hi hj hc)
    simp only [kron, sw_inj] at this
    exact this

theorem isUnitZ_sq {u : Int} (h : isUnitZ u = true) : u * u = 1 := by
  simp only [isUnitZ, Bool.or_eq_true, beq_iff_eq] at h
  rcases h with h | h
  · subst h; rfl
  · have : u = -1 := by omega
    subst this; rfl

theorem Tr.mulRow_inv (A : Mat) (t t' : Tr) (i : Nat) (u : Int) (h : t.mulRow i u = ok t') (hI : t.Inv A) :
    t'.Inv A ∧ t'.m = t.m ∧ t'.n = t.n := by
  unfold Tr.mulRow at h
  rw [assert_bind] at h
  obtain ⟨hu, h⟩ := h
  rw [assert_bind] at h
  obtain ⟨_, h⟩ := h
  simp only [pure_eq, Res.ok.injEq] at h
  subst h
  have huu := isUnitZ_sq hu
  refine ⟨⟨?_, ?_⟩, rfl, rfl⟩
  · intro r hr c hc
    show ∑ k ∈ range t.m, ent (mMulRow t.m t.m t.p i u) r k * ent A k c = ent (mMulRow t.m t.n t.target i u) r c
    rw [Finset.sum_congr rfl (fun k hk => by rw [mMulRow, ent_mkMat _ hr (mem_range.mp hk)])]
    rw [mMulRow, ent_mkMat _ hr hc]
    have e := hI.pa r hr c hc
    by_cases hri : r = i
    · rw [if_pos hri, ← e, Finset.sum_mul]
      exact Finset.sum_congr rfl (fun k _ => by rw [if_pos hri]; ring)
    · rw [if_neg hri, ← e]
      exact Finset.sum_congr rfl (fun k _ => by rw [if_neg hri])
  · intro r hr c hc
    show ∑ k ∈ range t.m, ent (mMulRow t.m t.m t.p i u) r k * ent (mMulCol t.m t.m t.pinv i u) k c = _
    rw [Finset.sum_congr rfl (fun k hk => by
      rw [mMulRow, ent_mkMat _ hr (mem_range.mp hk), mMulCol, ent_mkMat _ (mem_range.mp hk) hc])]
    have e1 := hI.pp r hr c hc
    by_cases hri : r = i <;> by_cases hci : c = i
    · rw [Finset.sum_congr rfl (fun k _ => show (if r = i then ent t.p r k * u else ent t.p r k)
          * (if c = i then ent t.pinv k c * u else ent t.pinv k c)
        = (u * u) * (ent t.p r k * ent t.pinv k c) by rw [if_pos hri, if_pos hci]; ring),
        ← Finset.mul_sum, e1, huu, one_mul]
    · have hrc : r ≠ c := by omega
      rw [Finset.sum_congr rfl (fun k _ => show (if r = i then ent t.p r k * u else ent t.p r k)
          * (if c = i then ent t.pinv k c * u else ent t.pinv k c)
        = u * (ent t.p r k * ent t.pinv k c) by rw [if_pos hri, if_neg hci]; ring),
        ← Finset.mul_sum, e1, kron, if_neg hrc, mul_zero]
    · have hrc : r ≠ c := by omega
      rw [Finset.sum_congr rfl (fun k _ => show (if r = i then ent t.p r k * u else ent t.p r k)
          * (if c = i then ent t.pinv k c * u else ent t.pinv k c)
        = u * (ent t.p r k * ent t.pinv k c) by rw [if_neg hri, if_pos hci]; ring),
        ← Finset.mul_sum, e1, kron, if_neg hrc, mul_zero]
    · rw [Finset.sum_congr rfl (fun k _ => show (if r = i then ent t.p r k * u else ent t.p r k)
          * (if c = i then ent t.pinv k c * u else ent t.pinv k c)
        = ent t.p r k * ent t.pinv k c by rw [if_neg hri, if_neg hci]), e1]

theorem Tr.addRowTo_inv (A : Mat) (t t' : Tr) (i k : Nat) (r0 : Int) (h : t.addRowTo i k r0 = ok t')
    (hI : t.Inv A) : t'.Inv A ∧ t'.m = t.m ∧ t'.n = t.n := by
  unfold Tr.addRowTo at h
  rw [assert_bind] at h
  obtain ⟨hik, h⟩ := h
  rw [assert_bind] at h
  obtain ⟨hk, h⟩ := h
  simp only [decide_eq_true_eq] at hik hk
  simp only [pure_eq, Res.ok.injEq] at h
  subst h
  have him : i < t.m := lt_trans hik hk
  refine ⟨⟨?_, ?_⟩, rfl, rfl⟩
  · intro r hr c hc
    show ∑ l ∈ range t.m, ent (mAddRowTo t.m t.m t.p i k r0) r l * ent A l c
      = ent (mAddRowTo t.m t.n t.target i k r0) r c
    rw [Finset.sum_congr rfl (fun l hl => by rw [mAddRowTo, ent_mkMat _ hr (mem_range.mp hl)])]
    rw [mAddRowTo, ent_mkMat _ hr hc]
    by_cases hrk : r = k
    · rw [if_pos hrk, ← hI.pa r hr c hc, ← hI.pa i him c hc, Finset.sum_mul, ← Finset.sum_add_distrib]
      exact Finset.sum_congr rfl (fun l _ => by rw [if_pos hrk]; ring)
    · rw [if_neg hrk, ← hI.pa r hr c hc]
      exact Finset.sum_congr rfl (fun l _ => by rw [if_neg hrk])
  · intro r hr c hc
    show ∑ l ∈ range t.m, ent (mAddRowTo t.m t.m t.p i k r0) r l * ent (mAddColTo t.m t.m t.pinv k i (-r0)) l c = _
    rw [Finset.sum_congr rfl (fun l hl => by
      rw [mAddRowTo, ent_mkMat _ hr (mem_range.mp hl), mAddColTo, ent_mkMat _ (mem_range.mp hl) hc])]
    have e1 := hI.pp r hr c hc
    have e2 := hI.pp i him c hc
    have e3 := hI.pp r hr k hk
    have e4 := hI.pp i him k hk
    have hik' : i ≠ k := by omega
    by_cases hrk : r = k <;> by_cases hci : c = i
    · have hrc : r ≠ c := by omega
      have hri : r ≠ i := by omega
      rw [Finset.sum_congr rfl (fun l _ => show
          (if r = k then ent t.p r l + ent t.p i l * r0 else ent t.p r l)
            * (if c = i then ent t.pinv l c + ent t.pinv l k * -r0 else ent t.pinv l c)
          = ent t.p r l * ent t.pinv l c + r0 * (ent t.p i l * ent t.pinv l c)
            - r0 * (ent t.p r l * ent t.pinv l k) - r0 * r0 * (ent t.p i l * ent t.pinv l k) by
            rw [if_pos hrk, if_pos hci]; ring)]
      rw [Finset.sum_sub_distrib, Finset.sum_sub_distrib, Finset.sum_add_distrib, ← Finset.mul_sum, ← Finset.mul_sum,
        ← Finset.mul_sum, e1, e2, e3, e4]
      simp only [kron, if_neg hrc, if_pos hci.symm, if_pos hrk, if_neg hik']
      ring
    · have hic : i ≠ c := fun h => hci h.symm
      rw [Finset.sum_congr rfl (fun l _ => show
          (if r = k then ent t.p r l + ent t.p i l * r0 else ent t.p r l)
            * (if c = i then ent t.pinv l c + ent t.pinv l k * -r0 else ent t.pinv l c)
          = ent t.p r l * ent t.pinv l c + r0 * (ent t.p i l * ent t.pinv l c) by
            rw [if_pos hrk, if_neg hci]; ring)]
      rw [Finset.sum_add_distrib, ← Finset.mul_sum, e1, e2, kron, kron, if_neg hic, mul_zero, add_zero]
    · rw [Finset.sum_congr rfl (fun l _ => show
          (if r = k then ent t.p r l + ent t.p i l * r0 else ent t.p r l)
            * (if c = i then ent t.pinv l c + ent t.pinv l k * -r0 else ent t.pinv l c)
          = ent t.p r l * ent t.pinv l c - r0 * (ent t.p r l * ent t.pinv l k) by
            rw [if_neg hrk, if_pos hci]; ring)]
      rw [Finset.sum_sub_distrib, ← Finset.mul_sum, e1, e3, kron, kron, if_neg hrk, mul_zero, sub_zero]
    · rw [Finset.sum_congr rfl (fun l _ => show
          (if r = k then ent t.p r l + ent t.p i l * r0 else ent t.p r l)
            * (if c = i then ent t.pinv l c + ent t.pinv l k * -r0 else ent t.pinv l c)
          = ent t.p r l * ent t.pinv l c by rw [if_neg hrk, if_neg hci]), e1]

theorem Tr.apply_inv (A : Mat) (t t' : Tr) (op : Prim) (h : t.apply op = ok t') (hI : t.Inv A) :
    t'.Inv A ∧ t'.m = t.m ∧ t'.n = t.n := by
  cases op with
  | swap i j => exact Tr.swapRows_inv A t t' i j h hI
  | mul i u => exact Tr.mulRow_inv A t t' i u h hI
  | add i k r => exact Tr.addRowTo_inv A t t' i k r h hI

theorem Tr.run_inv (A : Mat) (ops : List Prim) : ∀ (t t' : Tr), t.run ops = ok t' → t.Inv A →
    t'.Inv A ∧ t'.m = t.m ∧ t'.n = t.n := by
  induction ops with
  | nil => intro t t' h hI; simp only [Tr.run, pure_eq, Res.ok.injEq] at h; subst h; exact ⟨hI, rfl, rfl⟩
  | cons op ops ih =>
    intro t t' h hI
    simp only [Tr.run] at h
    rw [bind_eq_ok] at h
    obtain ⟨t1, h1, h2⟩ := h
    obtain ⟨hI1, hm1, hn1⟩ := Tr.apply_inv A t t1 op h1 hI
    obtain ⟨hI2, hm2, hn2⟩ := ih t1 t' h2 hI1
    exact ⟨hI2, hm2.trans hm1, hn2.trans hn1⟩

/-! ### every returning run of the literal model is a sequence of primitives -/

/-- `t'` is obtained from `t` by a sequence of row primitives -/
def Reach (t t' : Tr) : Prop := ∃ ops : List Prim, t.run ops = ok t'

theorem Tr.run_append (a b : List Prim) : ∀ t : Tr, t.run (a ++ b) = (t.run a >>= fun t1 => t1.run b) := by
  induction a with
  | nil => intro t; simp [Tr.run]
  | cons op a ih =>
    intro t
    simp only [List.cons_append, Tr.run]
    cases h : t.apply op with
    | ok t1 => simp [ih t1]
    | panic => simp
    | err => simp

theorem Reach.refl (t : Tr) : Reach t t := ⟨[], rfl⟩
theorem Reach.trans {a b c : Tr} (h1 : Reach a b) (h2 : Reach b c) : Reach a c := by
  obtain ⟨o1, h1⟩ := h1
  obtain ⟨o2, h2⟩ := h2
  exact ⟨o1 ++ o2, by rw [Tr.run_append, h1]; exact h2⟩
theorem Reach.step {t t' : Tr} (op : Prim) (h : t.apply op = ok t') : Reach t t' :=
  ⟨[op], by simp [Tr.run, h]⟩

theorem Data.addRowTo_reach (d d' : Data) (i k : Nat) (r : Int) (h : d.addRowTo i k r = ok d') :
    Reach d.tr d'.tr := by
  unfold Data.addRowTo at h
  simp only [bind_eq_ok] at h
  obtain ⟨tr, h1, di, _, h⟩ := h
  simp only [pure_eq, Res.ok.injEq] at h
  subst h
  exact Reach.step (.add i k r) h1

theorem Data.mulRow_reach (d d' : Data) (i : Nat) (r : Int) (h : d.mulRow i r = ok d') :
    Reach d.tr d'.tr := by
  unfold Data.mulRow at h
  simp only [bind_eq_ok] at h
  obtain ⟨tr, h1, h⟩ := h
  simp only [pure_eq, Res.ok.injEq] at h
  subst h
  exact Reach.step (.mul i r) h1

theorem Data.swap_reach (d d' : Data) (k : Nat) (h : d.swap k = ok d') : Reach d.tr d'.tr := by
  unfold Data.swap at h
  simp only [bind_eq_ok] at h
  obtain ⟨_, _, tr, h1, _, _, _, _, _, _, _, _, h⟩ := h
  simp only [pure_eq, Res.ok.injEq] at h
  subst h
  exact Reach.step (.swap (k - 1) k) h1

theorem Data.reduce_reach (d d' : Data) (i k : Nat) (h : d.reduce i k = ok d') : Reach d.tr d'.tr := by
  unfold Data.reduce at h
  simp only [bind_eq_ok] at h
  obtain ⟨_, _, _, _, di, _, q, _, h⟩ := h
  split at h
  · exact Data.addRowTo_reach d d' i k _ h
  · simp only [pure_eq, Res.ok.injEq] at h
    subst h
    exact Reach.refl _

theorem Data.mulRowIf_reach (d d' : Data) (i : Nat) (u : Int) (h : d.mulRowIf i u = ok d') : Reach d.tr d'.tr := by
  unfold Data.mulRowIf at h
  split at h
  · exact Data.mulRow_reach d d' i u h
  · simp only [pure_eq, Res.ok.injEq] at h
    subst h
    exact Reach.refl _

theorem hnfReduce_reach (d d' : Data) (i k : Nat) (h : hnfReduce d i k = ok d') : Reach d.tr d'.tr := by
  unfold hnfReduce at h
  simp only [bind_eq_ok] at h
  obtain ⟨_, _, _, _, h⟩ := h
  split at h
  · simp only [bind_eq_ok] at h
    obtain ⟨d1, h1, q, _, h⟩ := h
    have r1 := Data.mulRowIf_reach d d1 i _ h1
    split at h
    · exact r1.trans (Data.addRowTo_reach d1 d' i k _ h)
    · simp only [pure_eq, Res.ok.injEq] at h
      subst h
      exact r1
  · exact Data.reduce_reach d d' i k h

theorem revLoop_reach (f : Data → Nat → Res Data) (hf : ∀ d d' i, f d i = ok d' → Reach d.tr d'.tr) :
    ∀ (n : Nat) (d d' : Data), revLoop f d n = ok d' → Reach d.tr d'.tr := by
  intro n
  induction n with
  | zero => intro d d' h; simp only [revLoop, pure_eq, Res.ok.injEq] at h; subst h; exact Reach.refl _
  | succ i ih =>
    intro d d' h
    simp only [revLoop, bind_eq_ok] at h
    obtain ⟨d1, h1, h2⟩ := h
    exact (hf d d1 i h1).trans (ih d1 d' h2)

theorem Data.next_tr (d : Data) : d.next.tr = d.tr := rfl
theorem Data.back_tr (d : Data) : d.back.tr = d.tr := by unfold Data.back; split <;> rfl

theorem lllIterate_reach (d d' : Data) (h : lllIterate d = ok d') : Reach d.tr d'.tr := by
  unfold lllIterate at h
  simp only [bind_eq_ok] at h
  obtain ⟨d1, h1, b, _, h⟩ := h
  have r1 := Data.reduce_reach d d1 _ _ h1
  cases b with
  | true =>
    simp only [if_true, bind_eq_ok, pure_eq, Res.ok.injEq] at h
    obtain ⟨d2, h2, h⟩ := h
    subst h
    rw [Data.next_tr]
    exact r1.trans (revLoop_reach _ (fun d d' i h => Data.reduce_reach d d' i _ h) _ d1 d2 h2)
  | false =>
    simp only [Bool.false_eq_true, if_false, bind_eq_ok, pure_eq, Res.ok.injEq] at h
    obtain ⟨d2, h2, h⟩ := h
    subst h
    rw [Data.back_tr]
    exact r1.trans (Data.swap_reach d1 d2 _ h2)

theorem hnfIterate_reach (d d' : Data) (h : hnfIterate d = ok d') : Reach d.tr d'.tr := by
  unfold hnfIterate at h
  simp only [bind_eq_ok] at h
  obtain ⟨d1, h1, b, _, h⟩ := h
  have r1 := hnfReduce_reach d d1 _ _ h1
  cases b with
  | true =>
    simp only [if_true, bind_eq_ok, pure_eq, Res.ok.injEq] at h
    obtain ⟨d2, h2, h⟩ := h
    subst h
    rw [Data.next_tr]
    exact r1.trans (revLoop_reach _ (fun d d' i h => hnfReduce_reach d d' i _ h) _ d1 d2 h2)
  | false =>
    simp only [Bool.false_eq_true, if_false, bind_eq_ok, pure_eq, Res.ok.injEq] at h
    obtain ⟨d2, h2, h⟩ := h
    subst h
    rw [Data.back_tr]
    exact r1.trans (Data.swap_reach d1 d2 _ h2)

theorem loopWhile_reach (it : Data → Res Data) (hit : ∀ d d', it d = ok d' → Reach d.tr d'.tr) :
    ∀ (fuel : Nat) (d d' : Data), loopWhile it fuel d = ok d' → Reach d.tr d'.tr := by
  intro fuel
  induction fuel with
  | zero =>
    intro d d' h
    simp only [loopWhile] at h
    split at h
    · cases h
    · simp only [pure_eq, Res.ok.injEq] at h; subst h; exact Reach.refl _
  | succ f ih =>
    intro d d' h
    simp only [loopWhile] at h
    split at h
    · simp only [bind_eq_ok] at h
      obtain ⟨d1, h1, h2⟩ := h
      exact (hit d d1 h1).trans (ih d1 d' h2)
    · simp only [pure_eq, Res.ok.injEq] at h; subst h; exact Reach.refl _

theorem Data.setup_tr (d d' : Data) (h : d.setup = ok d') : d'.tr = d.tr := by
  unfold Data.setup at h
  simp only [bind_eq_ok] at h
  obtain ⟨⟨l, dd⟩, _, h⟩ := h
  simp only [pure_eq, Res.ok.injEq] at h
  subst h
  rfl

theorem lll_reach (fuel m n : Nat) (A : Mat) (d : Data) (h : lll fuel m n A = ok d) :
    Reach (Tr.init m n A) d.tr := by
  unfold lll at h
  simp only [bind_eq_ok] at h
  obtain ⟨d0, h0, h⟩ := h
  have := Data.setup_tr _ d0 h0
  have r := loopWhile_reach lllIterate lllIterate_reach fuel d0 d h
  rw [this] at r
  exact r

theorem hnfNormalizeLast_reach (d d' : Data) (h : hnfNormalizeLast d = ok d') : Reach d.tr d'.tr := by
  unfold hnfNormalizeLast at h
  split at h
  · dsimp only at h
    split at h
    · exact Data.mulRowIf_reach d d' _ _ h
    · simp only [pure_eq, Res.ok.injEq] at h; subst h; exact Reach.refl _
  · simp only [pure_eq, Res.ok.injEq] at h; subst h; exact Reach.refl _

theorem reverseRows_reach : ∀ (cnt i : Nat) (t t' : Tr), reverseRows t cnt i = ok t' → Reach t t' := by
  intro cnt
  induction cnt with
  | zero => intro i t t' h; simp only [reverseRows, pure_eq, Res.ok.injEq] at h; subst h; exact Reach.refl _
  | succ c ih =>
    intro i t t' h
    simp only [reverseRows] at h
    split at h
    · simp only [pure_eq, Res.ok.injEq] at h; subst h; exact Reach.refl _
    · simp only [bind_eq_ok] at h
      obtain ⟨t1, h1, h2⟩ := h
      exact (Reach.step (.swap _ _) h1).trans (ih _ t1 t' h2)

theorem lllHnf_reach (fuel m n : Nat) (A : Mat) (t : Tr) (h : lllHnf fuel m n A = ok t) :
    Reach (Tr.init m n A) t := by
  unfold lllHnf at h
  simp only [bind_eq_ok] at h
  obtain ⟨d0, h0, d1, h1, h⟩ := h
  have r0 := loopWhile_reach hnfIterate hnfIterate_reach fuel _ d0 h0
  exact (r0.trans (hnfNormalizeLast_reach d0 d1 h1)).trans (reverseRows_reach _ _ _ _ h)

/-! ### the rounding quotient -/

theorem divRound_spec' (a b q : Int) (h : divRound a b = ok q) :
    b ≠ 0 ∧ 2 * (a - q * b).natAbs ≤ b.natAbs := by
  unfold divRound at h
  split at h
  · cases h
  · rename_i hb
    refine ⟨hb, ?_⟩
    have hdec : b * a.tdiv b + a.tmod b = a := Int.mul_tdiv_add_tmod a b
    have hlt : (a.tmod b).natAbs < b.natAbs := by
      rw [Int.natAbs_tmod]; exact Nat.mod_lt _ (Int.natAbs_pos.mpr hb)
    have hs1 : 0 ≤ a → 0 ≤ a.tmod b := fun h => Int.tmod_nonneg b h
    have hs2 : a ≤ 0 → a.tmod b ≤ 0 := by
      intro h
      have := Int.tmod_nonneg b (show 0 ≤ -a by omega)
      rw [Int.neg_tmod] at this
      omega
    generalize a.tdiv b = quo at *
    generalize a.tmod b = r at *
    dsimp only at h
    have hnr : ∀ x : Int, (if 0 < x then -x else x) = -(x.natAbs : Int) := by intro x; split <;> omega
    rw [hnr r, hnr b] at h
    split at h
    · split at h
      · simp only [pure_eq, Res.ok.injEq] at h
        subst h
        have e : a - (quo + 1) * b = r - b := by rw [← hdec]; ring
        rw [e]
        rename_i hc hsg
        simp only [beq_iff_eq, decide_eq_decide] at hsg
        omega
      · simp only [pure_eq, Res.ok.injEq] at h
        subst h
        have e : a - (quo - 1) * b = r + b := by rw [← hdec]; ring
        rw [e]
        rename_i hc hsg
        simp only [beq_iff_eq, decide_eq_decide] at hsg
        omega
    · simp only [pure_eq, Res.ok.injEq] at h
      subst h
      have e : a - quo * b = r := by rw [← hdec]; ring
      rw [e]
      rename_i hc
      omega

end Yuiv.C10
