import Yuiv.Model.C10
import Mathlib.Data.Matrix.Mul
import Mathlib.LinearAlgebra.Matrix.NonsingularInverse
import Mathlib.Algebra.BigOperators.Fin
import Mathlib.Tactic.Ring
import Mathlib.Tactic.Linarith
/-
Spec definitions and helper lemmas for C10 (no property theorem here).
-/
namespace Yuiv.C10
open Yuiv Res Finset

/-! ### basic facts about the executable building blocks -/

theorem allLt_iff (n : Nat) (p : Nat → Bool) : allLt n p = true ↔ ∀ i < n, p i = true := by
  simp [allLt, List.all_eq_true]

theorem foldr_add_eq_sum {α : Type} [AddCommMonoid α] (l : List α) : l.foldr (· + ·) 0 = l.sum := by
  induction l with
  | nil => rfl
  | cons a t ih => simp [List.foldr, ih]

theorem sumLt_eq (n : Nat) (f : Nat → Int) : sumLt n f = ∑ i ∈ range n, f i := by
  unfold sumLt
  rw [foldr_add_eq_sum]
  induction n with
  | zero => simp
  | succ k ih => rw [List.range_succ, List.map_append, List.sum_append, ih, Finset.sum_range_succ]; simp

theorem sumLtQ_eq (n : Nat) (f : Nat → ℚ) : sumLtQ n f = ∑ i ∈ range n, f i := by
  unfold sumLtQ
  rw [foldr_add_eq_sum]
  induction n with
  | zero => simp
  | succ k ih => rw [List.range_succ, List.map_append, List.sum_append, ih, Finset.sum_range_succ]; simp

theorem ent_mkMat {m n : Nat} (f : Nat → Nat → Int) {i j : Nat} (hi : i < m) (hj : j < n) :
    ent (mkMat m n f) i j = f i j := by
  simp [ent, mkMat, Array.getD, hi, hj]

theorem ent_idMat {m i j : Nat} (hi : i < m) (hj : j < m) : ent (idMat m) i j = if i = j then 1 else 0 := by
  simp [idMat, ent_mkMat _ hi hj]

/-! ### matrices as Mathlib matrices -/

/-- the `m × n` Mathlib matrix stored in `A` -/
def toMatrix (m n : Nat) (A : Mat) : Matrix (Fin m) (Fin n) ℤ := fun i j => ent A i.val j.val

/-- entrywise form of `P·A = T` on the index range -/
def PAeq (m l n : Nat) (P A T : Nat → Nat → Int) : Prop :=
  ∀ r < m, ∀ c < n, ∑ k ∈ range l, P r k * A k c = T r c

theorem PAeq_iff_matrix (m l n : Nat) (P A T : Mat) :
    PAeq m l n (ent P) (ent A) (ent T) ↔ toMatrix m l P * toMatrix l n A = toMatrix m n T := by
  constructor
  · intro h
    ext i j
    rw [Matrix.mul_apply]
    have := h i.val i.isLt j.val j.isLt
    rw [← Fin.sum_univ_eq_sum_range (fun k => ent P i.val k * ent A k j.val)] at this
    exact this
  · intro h r hr c hc
    have := congrFun (congrFun h ⟨r, hr⟩) ⟨c, hc⟩
    rw [Matrix.mul_apply] at this
    rw [← Fin.sum_univ_eq_sum_range (fun k => ent P r k * ent A k c)]
    exact this

theorem toMatrix_idMat (m : Nat) : toMatrix m m (idMat m) = 1 := by
  ext i j
  simp [toMatrix, ent_idMat i.isLt j.isLt, Matrix.one_apply, Fin.ext_iff]

theorem mulEq_iff (m l n : Nat) (P A B : Mat) :
    mulEq m l n P A B = true ↔ PAeq m l n (ent P) (ent A) (ent B) := by
  simp [mulEq, allLt_iff, mulEnt, sumLt_eq, PAeq]

/-! ### Hermite shape -/

/-- Row echelon form with positive pivots, zeros below and reduced entries above the pivots.
`lead i` is the leading column of row `i` (`n` for a zero row). -/
structure IsHnf (m n : Nat) (H : Nat → Nat → Int) (lead : Nat → Nat) : Prop where
  le : ∀ i < m, lead i ≤ n
  zero_left : ∀ i < m, ∀ j < lead i, H i j = 0
  pivot_pos : ∀ i < m, lead i < n → 0 < H i (lead i)
  strict : ∀ i < m, ∀ i' < m, i < i' → lead i < n → lead i < lead i'
  zero_last : ∀ i < m, ∀ i' < m, i < i' → lead i = n → lead i' = n
  below : ∀ i < m, ∀ i' < m, i < i' → lead i < n → H i' (lead i) = 0
  above : ∀ i < m, ∀ i' < i, lead i < n → (H i' (lead i)) ^ 2 < (H i (lead i)) ^ 2

theorem isHnf_sound' (m n : Nat) (H : Mat) (h : isHnf m n H = true) :
    IsHnf m n (ent H) (leadCol n H) := by
  simp only [isHnf, allLt_iff, Bool.and_eq_true, Bool.or_eq_true, Bool.not_eq_true', decide_eq_true_eq,
    decide_eq_false_iff_not, beq_iff_eq] at h
  refine ⟨fun i hi => (h i hi).1.1.1, ?_, ?_, ?_, ?_, ?_, ?_⟩
  · intro i hi j hj
    have h1 := (h i hi).1.1.2 j (lt_of_lt_of_le hj (h i hi).1.1.1)
    rcases h1 with h1 | h1
    · exact absurd hj h1
    · exact h1
  · intro i hi hl
    rcases (h i hi).1.2 with h1 | h1
    · exact absurd hl h1
    · exact h1.1
  · intro i hi i' hi' hlt hl
    rcases (h i hi).1.2 with h1 | h1
    · exact absurd hl h1
    · have := h1.2 i' hi'
      rw [if_pos hlt] at this
      simp only [Bool.and_eq_true, decide_eq_true_eq, beq_iff_eq] at this
      exact this.1
  · intro i hi i' hi' hlt hl
    rcases (h i hi).2 with h1 | h1
    · simp [hl] at h1
    · rcases h1 i' hi' with h2 | h2
      · exact absurd hlt h2
      · exact h2
  · intro i hi i' hi' hlt hl
    rcases (h i hi).1.2 with h1 | h1
    · exact absurd hl h1
    · have := h1.2 i' hi'
      rw [if_pos hlt] at this
      simp only [Bool.and_eq_true, decide_eq_true_eq, beq_iff_eq] at this
      exact this.2
  · intro i hi i' hlt hl
    rcases (h i hi).1.2 with h1 | h1
    · exact absurd hl h1
    · have := h1.2 i' (lt_trans hlt hi)
      rw [if_neg (by omega), if_pos hlt] at this
      simp only [decide_eq_true_eq] at this
      rw [pow_two, pow_two]
      exact this

end Yuiv.C10
