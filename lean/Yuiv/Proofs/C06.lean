import Yuiv.Model.C06
import Yuiv.Proofs.C01
import Mathlib.Tactic.Ring
/- helper lemmas for C06 -/
namespace Yuiv.C06

/-- the valuation loop: with `|a|` bounded by `n` and a budget exceeding `|a|`, the loop started at counter `k`
returns `k + j` where `j` is the exact `c`-adic valuation of `a` -/
theorem divLoop_spec : ∀ (n fuel : Nat) (a c : Int) (k : Nat), a.natAbs ≤ n → a ≠ 0 → 2 ≤ c.natAbs →
    a.natAbs < fuel → ∃ j, divLoop fuel a c k = some (k + j) ∧ c ^ j ∣ a ∧ ¬ c ^ (j + 1) ∣ a := by
  intro n
  induction n with
  | zero =>
    intro fuel a c k hn ha _ _
    exact absurd (Int.natAbs_eq_zero.mp (Nat.le_zero.mp hn)) ha
  | succ n ih =>
    intro fuel a c k hn ha hc hf
    cases fuel with
    | zero => omega
    | succ f =>
      have hc0 : c ≠ 0 := by intro h; subst h; simp at hc
      unfold divLoop
      by_cases h : a.tmod c = 0
      · have hdvd : c ∣ a := Int.dvd_of_tmod_eq_zero h
        have hq : a.tdiv c * c = a := Int.tdiv_mul_cancel hdvd
        have hq0 : a.tdiv c ≠ 0 := by intro h0; rw [h0] at hq; simp at hq; exact ha hq.symm
        have habs : (a.tdiv c).natAbs * c.natAbs = a.natAbs := by rw [← Int.natAbs_mul, hq]
        have hqpos : 0 < (a.tdiv c).natAbs := Int.natAbs_pos.mpr hq0
        have hmul : (a.tdiv c).natAbs * 2 ≤ (a.tdiv c).natAbs * c.natAbs := Nat.mul_le_mul_left _ hc
        have hlt : (a.tdiv c).natAbs < a.natAbs := by omega
        obtain ⟨j, hj1, hj2, hj3⟩ := ih f (a.tdiv c) c (k + 1) (by omega) hq0 hc (by omega)
        refine ⟨j + 1, ?_, ?_, ?_⟩
        · simp [h, hj1]; omega
        · rw [← hq, pow_succ]; exact Int.mul_dvd_mul_right c hj2
        · intro hd
          apply hj3
          rw [← hq, pow_succ (n := j + 1)] at hd
          exact Int.dvd_of_mul_dvd_mul_right hc0 hd
      · refine ⟨0, ?_, ?_, ?_⟩
        · simp [h]
        · simp
        · intro hd; apply h; simp at hd; exact Int.tmod_eq_zero_of_dvd hd


/-- a unit divisor divides everything, so the loop only ever consumes its budget -/
theorem divLoop_unit : ∀ (fuel : Nat) (a c : Int) (k : Nat), c.natAbs = 1 → divLoop fuel a c k = none := by
  intro fuel
  induction fuel with
  | zero => intro a c k _; rfl
  | succ f ih =>
    intro a c k hc
    have hdvd : c ∣ a := Int.natAbs_dvd_natAbs.mp (by rw [hc]; exact Nat.one_dvd _)
    have h : a.tmod c = 0 := Int.tmod_eq_zero_of_dvd hdvd
    unfold divLoop
    simp [h, ih _ c _ hc]

end Yuiv.C06
